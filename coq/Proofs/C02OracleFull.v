(* The whole C02 oracle (results part AND log part: walk of the rendered words, coverage, padding only at a term end,
   reassembly = accepted offers, count / tails) is true on every quiescent configuration the thread model can reach,
   for any number of threads, any message lists (of bytes) and every interleaving of admissible steps. *)
Require Import V.Base.MachineInt.
Require Import V.Generated.GenConsts.
Require Import V.Model.LogBase.
Require Import V.Model.Descriptor.
Require Import V.Model.Sched.
Require Import V.Model.AppenderThreads.
Require Import V.Oracle.C02Oracle.
Require Import V.Proofs.TailArith.
Require Import V.Proofs.FragArith.
Require Import V.Proofs.AppenderInv.
Require Import V.Proofs.AppenderLemmas.
Require Import V.Proofs.AppenderFaa.
Require Import V.Proofs.AppenderRotate.
Require Import V.Proofs.AppenderInv2.
Require Import V.Proofs.C02Proofs.
Require Import V.Proofs.C02Quiescent.
Require Import V.Proofs.AppenderMsgs.
Require Import V.Proofs.C02OracleProofs.
Require Import V.Proofs.C02Words.
Require Import V.Proofs.C02Render.
Require Import V.Proofs.C02Frames.
Require Import V.Proofs.C02GenFrames.
Require Import V.Proofs.C02Accepted.
Require Import V.Proofs.C02Trace.
From Coq Require Import ZifyBool Sorting.Sorted Sorting.Permutation.
Open Scope Z_scope.

Lemma tuple_ev_tuple e : tuple_ev (ev_tuple e) = e.
Proof. destruct e. unfold ev_tuple, tuple_ev. cbn. rewrite Nat2Z.id. reflexivity. Qed.

Lemma map_tuple_ev tr : map tuple_ev (map ev_tuple tr) = tr.
Proof. rewrite map_map. rewrite <- (map_id tr) at 2. apply map_ext. apply tuple_ev_tuple. Qed.

Lemma nth3 {A} (f : Z -> A) d p : 0 <= p < 3 -> nth (Z.to_nat p) [f 0; f 1; f 2] d = f p.
Proof. intros H. assert (E : p = 0 \/ p = 1 \/ p = 2) by lia. destruct E as [-> | [-> | ->]]; reflexivity. Qed.

Lemma chain_msgs_ss c : forall l b0 hi, chain b0 l hi ->
  StronglySorted lt2 (claim_msgs c l) /\ forall x, In x (claim_msgs c l) -> b0 < fst x.
Proof. induction l as [|e r IH]; intros b0 hi H; cbn [chain] in H.
  - split; [constructor | intros x []].
  - destruct H as (Ha & Hlt & Hc). destruct (IH _ _ Hc) as (S1 & S2).
    unfold claim_msgs in *. cbn [flat_map]. destruct (e_b e <=? TL c).
    + cbn [app]. split.
      * constructor; [assumption|]. apply Forall_forall. intros x Hx. specialize (S2 x Hx). unfold lt2. cbn [fst]. lia.
      * intros x [<- | Hx]; [cbn [fst]; lia | specialize (S2 x Hx); lia].
    + cbn [app]. split; [assumption|]. intros x Hx. specialize (S2 x Hx). lia. Qed.

Section Full.
  Variable c : cfg.
  Hypothesis W : wf_cfg c.
  Variable orig : nat -> list (list Z).
  Hypothesis OB : forall t m, In m (orig t) -> Forall byte m.
  Variables (s : shared) (th : nat -> thread) (gh : ghost) (tr : list event).
  Hypothesis R : reacht c orig s th gh tr.
  Hypothesis D : all_done th.
  Variables (n : nat) (stop : nat -> option nat) (gr : nat -> nat) (offers : list (list (list Z))).
  Hypothesis Hlen : length offers = n.
  Hypothesis Hpub : forall t l, th t = TPub l -> (t < n)%nat /\ nth t offers [] = orig t.

  Let Rm : reachm c orig s th gh := reacht_reachm c orig s th gh tr R.
  Let Rr : reach c s th gh := reachm_reach c orig s th gh Rm.
  Let I : AppInv c s gh (pubs th) := reach_inv c W s th gh Rr.
  Let J : AppInv2 c s gh (pubs th) := reach_inv2 c W s th gh Rr.
  Let A : TailInv c s gh := iv_A c s gh (pubs th) I.

  Lemma full_Q : quiescent (pubs th).
  Proof. intros t l HP. unfold pubs in HP. pose proof (D t) as Dt. destruct (th t); try discriminate. inversion HP; subst l. exact Dt. Qed.

  Lemma full_pub t l : pubs th t = Some l -> th t = TPub l.
  Proof. unfold pubs. destruct (th t); intros H; try discriminate. inversion H; reflexivity. Qed.

  Lemma full_bytes g e : In e (g_claims gh g) -> Forall byte (e_msg e).
  Proof. intros He. destruct (reachm_msgs c W orig s th gh Rm) as [_ M2].
    destruct (iv_ent c s gh _ I g e He) as (_ & _ & _ & _ & l & HP & _).
    rewrite (M2 g e l He HP).
    destruct (nth_in_or_default (count_ok (firstn (e_j e) (p_res l))) (orig (e_t e)) []) as [Hin | ->]; [eapply OB; eauto | constructor]. Qed.

  Definition results := map (fun t => thread_obs stop gr t (th t)) (seq 0 n).
  Definition res_of (t : nat) : list (outcome Z) := snd (thread_obs stop gr t (th t)).
  Definition accs := map (fun x : list (list Z) * (status * list (outcome Z)) => accepted (fst x) (snd (snd x))) (combine offers results).
  Definition acc_t (t : nat) : list (Z * list Z) := accepted (nth t offers []) (res_of t).

  Lemma accs_eq : accs = map acc_t (seq 0 n).
  Proof. unfold accs, results. rewrite <- Hlen. rewrite (combine_map_seq [] _ offers 0). rewrite map_map.
    apply map_ext. intros t. cbn [fst snd]. unfold acc_t, res_of. rewrite Nat.sub_0_r. reflexivity. Qed.

  Lemma res_of_cases t : (exists l, th t = TPub l /\ res_of t = p_res l) \/ res_of t = [].
  Proof. unfold res_of, thread_obs. specialize (D t). destruct (th t) as [l | l |]; [left; eauto | right | right; reflexivity].
    destruct D as (_ & ->). reflexivity. Qed.

  Definition L := concat accs.

  Lemma L_in pos m : In (pos, m) L <->
    exists g e, In e (g_claims gh g) /\ e_b e <= TL c /\ pos = g * TL c + e_b e /\ m = e_msg e.
  Proof. unfold L. rewrite accs_eq. split.
    - intros H. apply in_concat in H. destruct H as (x & Hx & Hin). apply in_map_iff in Hx. destruct Hx as (t & <- & Ht).
      unfold acc_t in Hin. destruct (res_of_cases t) as [(l & Eth & Er) | Er]; rewrite Er in Hin; [|destruct Hin].
      apply accepted_in in Hin. destruct Hin as (j & Hj & Hm).
      destruct (Hpub t l Eth) as (_ & Ho). rewrite Ho in Hm.
      destruct (accepted_message c W orig s th gh t l j pos Rm Eth Hj) as (g & e & He & _ & _ & Hb & Hpos & Hmsg).
      exists g, e. repeat split; try assumption. congruence.
    - intros (g & e & He & Hb & -> & ->).
      destruct (quiescent_complete c s gh _ g e I full_Q He) as (l & HP & Hj & Hres & _).
      replace (e_b e <=? TL c) with true in Hres by lia.
      pose proof (full_pub _ _ HP) as Eth. destruct (Hpub _ _ Eth) as (Hn & Ho).
      apply in_concat. exists (acc_t (e_t e)). split; [apply in_map; apply in_seq; lia|].
      unfold acc_t. assert (Er : res_of (e_t e) = p_res l) by (unfold res_of, thread_obs; rewrite Eth; reflexivity).
      rewrite Er, Ho. apply accepted_in. exists (e_j e). split.
      + rewrite (nth_error_nth' _ Panic Hj). rewrite Hres. reflexivity.
      + destruct (reachm_msgs c W orig s th gh Rm) as [_ M2]. apply (M2 g e l He HP). Qed.

  Lemma fst_acc_t t : map fst (acc_t t) = oks (res_of t).
  Proof. unfold acc_t. apply accepted_fst. Qed.

  Lemma oks_claim t pos : In pos (oks (res_of t)) ->
    exists g e, In e (g_claims gh g) /\ e_t e = t /\ e_b e <= TL c /\ pos = g * TL c + e_b e.
  Proof. intros Hin. destruct (res_of_cases t) as [(l & Eth & Er) | Er]; rewrite Er in Hin; [|destruct Hin].
    destruct (oks_in _ _ Hin) as (j & Hj).
    assert (HP : pubs th t = Some l) by (unfold pubs; rewrite Eth; reflexivity).
    destruct (accepted_has_claim c s gh _ t l j pos I J HP Hj) as (g & e & He & Ht & _ & Hb & Hpos).
    exists g, e. auto. Qed.

  Lemma L_nodup : NoDup (map fst L).
  Proof. unfold L. rewrite accs_eq, concat_map, map_map.
    apply nodup_concat_seq.
    - intros t. rewrite fst_acc_t. apply increasing_nodup.
      destruct (res_of_cases t) as [(l & Eth & Er) | Er]; rewrite Er; [|reflexivity].
      apply oks_increasing. intros j j' p p' Hlt H1 H2.
      apply (positions_increasing c s gh (pubs th) t l j j' p p' I J); auto. unfold pubs. rewrite Eth. reflexivity.
    - intros t t' x Hne H1 H2. rewrite fst_acc_t in H1, H2.
      destruct (oks_claim t x H1) as (g & e & He & Ht & Hb & Hx).
      destruct (oks_claim t' x H2) as (g' & e' & He' & Ht' & Hb' & Hx').
      destruct (positions_distinct c W s gh _ g g' e e' I He He' Hb Hb' ltac:(congruence)) as (_ & E). congruence. Qed.

  Definition acc_all := sort_by_pos L.

  Lemma acc_all_in x : In x acc_all <-> In x L.
  Proof. unfold acc_all. split; intros H.
    - apply (Permutation_in _ (sort_perm L)). assumption.
    - apply (Permutation_in _ (Permutation_sym (sort_perm L))). assumption. Qed.

  Lemma acc_all_ss : StronglySorted lt2 acc_all.
  Proof. unfold acc_all. apply ss_le_lt; [apply sort_ss|].
    apply (Permutation_NoDup (l := map fst L)); [apply Permutation_map, Permutation_sym, sort_perm | apply L_nodup]. Qed.

  (* a claim: generation window and extent *)
  Lemma claim_bounds g e : In e (g_claims gh g) ->
    c_n0 c <= g <= sh_count s /\ base c g <= e_a e /\ 0 <= e_a e < e_b e.
  Proof. intros He. destruct (iv_ent c s gh _ I g e He) as (Hn0 & Ha & _).
    assert (Hg : g <= sh_count s).
    { destruct (Z_le_gt_dec g (sh_count s)); [assumption|]. rewrite (r_future c s gh _ J g) in He by lia. destruct He. }
    destruct (iv_chain_all c s gh A g Hn0) as (hi & Hc & _). destruct (chain_le _ _ _ Hc) as (_ & Lc).
    destruct (Lc e He) as (L1 & L2 & _). lia. Qed.

  Lemma acc_all_range : forallb (fun a : Z * list Z => (c_n0 c * TL c + c_off0 c <? fst a) && (fst a <=? (sh_count s + 1) * TL c)) acc_all = true.
  Proof. apply forallb_forall. intros [pos m] Hin. apply acc_all_in in Hin. apply L_in in Hin.
    destruct Hin as (g & e & He & Hb & -> & _). destruct (claim_bounds g e He) as (Hg & Hba & Hab).
    destruct (TL_bounds c W) as (TB & _). destruct (wf_off0 c W) as (Ho & _). cbn [fst].
    assert (c_n0 c * TL c + c_off0 c < g * TL c + e_b e).
    { unfold base in Hba. destruct (g =? c_n0 c) eqn:E; [assert (g = c_n0 c) by lia; subst g; lia | nia]. }
    assert (g * TL c + e_b e <= (sh_count s + 1) * TL c) by nia. lia. Qed.

  Lemma nth_tails p : 0 <= p < 3 -> nth (Z.to_nat p) [sh_tail s 0; sh_tail s 1; sh_tail s 2] 0 = sh_tail s p.
  Proof. apply (nth3 (sh_tail s)). Qed.
  Lemma nth_parts p : 0 <= p < 3 ->
    @nth words (Z.to_nat p) [render_mem c (sh_mem s) 0; render_mem c (sh_mem s) 1; render_mem c (sh_mem s) 2] [] = render_mem c (sh_mem s) p.
  Proof. apply (@nth3 words (render_mem c (sh_mem s))). Qed.

  Lemma render_zero p : (forall o, sh_mem s p o = zslot) -> render_mem c (sh_mem s) p = [].
  Proof. intros H. unfold render_mem. apply render_part_zero. intros j _. apply H. Qed.

  (* (a), (b), (d) for one partition *)
  Lemma full_part p : 0 <= p < 3 ->
    part_ok c tr (sh_count s) [sh_tail s 0; sh_tail s 1; sh_tail s 2]
            [render_mem c (sh_mem s) 0; render_mem c (sh_mem s) 1; render_mem c (sh_mem s) 2] acc_all p = true.
  Proof. intros Hp. unfold part_ok. cbv zeta. rewrite !(nth_tails p Hp), !(nth_parts p Hp).
    change (C02Oracle.gen_of c (sh_tail s p)) with (tg c s p). change (lo32u (sh_tail s p)) with (toff s p).
    set (g := tg c s p).
    destruct (iv_mem c s gh _ I p Hp) as (M1 & _). fold g in M1.
    destruct (g <? c_n0 c) eqn:En0.
    { rewrite render_zero; [reflexivity | apply M1; left; lia]. }
    assert (Hn0 : c_n0 c <= g) by lia.
    pose proof (reacht_cleaned c W orig s th gh tr R p Hp Hn0) as Hci. fold g in Hci. rewrite Hci.
    destruct (g_cleaned gh g) eqn:Ecl.
    { rewrite render_zero; [reflexivity | apply M1; right; reflexivity]. }
    (* live partition *)
    assert (HB : forall e, In e (g_claims gh (tg c s p)) -> Forall byte (e_msg e)) by (intros e He; eapply full_bytes; eauto).
    pose proof (part_laid c W s gh _ p I Hp Hn0 Ecl HB) as Lf. fold g in Lf.
    pose proof (part_render c W s gh _ p I full_Q Hp Hn0 Ecl HB) as Rf. fold g in Rf.
    pose proof (part_good c W s gh _ p I HB) as Gf. fold g in Gf.
    destruct (iv_tail c s gh A p Hp) as (T1 & T2 & T3 & T4). fold g in T1, T4.
    assert (Htid : term_id_of (sh_tail s p) = tid_of c g) by (rewrite T1; apply term_id_mk_raw; assumption).
    destruct (TL_bounds c W) as (TB & TM). destruct (part_base c W s gh p Ecl) as (Hb & Hbm). fold g in Hb, Hbm.
    change (if g =? c_n0 c then c_off0 c else 0) with (base c g).
    rewrite (walk_laid c (term_id_of (sh_tail s p)) (render_mem c (sh_mem s) p) _ _ (gframes c gh g) _ Lf).
    2:{ intros o sl Hin. split; [apply (part_dec c W s gh _ p I full_Q Hp Hn0 Ecl HB o sl Hin)|].
        split; [rewrite Htid; apply (part_wf c W s gh _ p I HB o sl Hin) | apply (gs_len sl (Gf o sl Hin))]. }
    2:{ pose proof (laid_length c _ _ _ Lf). rewrite FA_32. assert (0 <= TL c / 32) by (Z.div_mod_to_equations; lia).
        assert (Z.of_nat (length (gframes c gh g)) <= TL c / 32) by (Z.div_mod_to_equations; lia). lia. }
    assert (Hdec : forall e o sl, In e (g_claims gh g) -> In (o, sl) (efrags c g e) -> dec_ok (render_mem c (sh_mem s) p) o sl).
    { intros e o sl He Hin. apply (part_dec c W s gh _ p I full_Q Hp Hn0 Ecl HB o sl). unfold gframes. apply in_flat_map. exists e. auto. }
    unfold gframes at 3. rewrite (reassemble_claims c W _ g (g_claims gh g) (part_ar c s gh _ p I HB) Hdec).
    apply andb_true_intro. split; [apply andb_true_intro; split; [apply andb_true_intro; split|]|].
    - (* every dumped word inside a frame *)
      rewrite Rf. apply forallb_forall. intros w Hw. apply covered_all; assumption.
    - (* padding only at the term end *)
      apply forallb_forall. intros f Hf. apply in_map_iff in Hf. destruct Hf as ([o sl] & <- & Hin). unfold dec. cbn [fst snd].
      destruct (s_type sl =? T_PAD) eqn:Et; [|reflexivity]. cbn [negb orb].
      rewrite (part_padlast c W s gh _ p I HB o sl Hin) by lia. apply Z.eqb_refl.
    - (* the data messages are exactly the accepted offers of this generation *)
      pose proof (iv_chain c s gh A p Hp Hn0) as Hc. fold g in Hc.
      destruct (chain_msgs_ss c _ _ _ Hc) as (S1 & S2).
      match goal with |- plist_eqb ?a ?b = true => replace b with a; [apply plist_eqb_refl|] end.
      apply ss_unique.
      + apply (ss_map_shift (g * TL c)). assumption.
      + apply ss_filter. apply acc_all_ss.
      + intros [pos m]. rewrite filter_In, acc_all_in, L_in, in_map_iff. cbn [fst]. split.
        * intros ([eb m'] & E & Hin). cbn [fst snd] in E. inversion E; subst pos m. apply claim_msgs_in in Hin. destruct Hin as (e & He & Hle & -> & ->).
          destruct (claim_bounds g e He) as (_ & _ & Hab). split; [exists g, e; auto | lia].
        * intros ((g' & e & He & Hle & -> & ->) & Hrange). destruct (claim_bounds g' e He) as (_ & _ & Hab).
          assert (g' = g) by nia. subst g'. exists (e_b e, e_msg e). split; [reflexivity|]. apply claim_msgs_in. exists e. auto.
    - (* count / tail *)
      destruct (g <? sh_count s) eqn:E1.
      + destruct (iv_trip c s gh A g ltac:(lia)) as (e & He & Hgt).
        pose proof (iv_chain c s gh A p Hp Hn0) as Hc. fold g in Hc. destruct (chain_le _ _ _ Hc) as (_ & Lc). destruct (Lc e He) as (_ & _ & L3). lia.
      + destruct (quiescent_rotation c W s gh _ I J full_Q) as (Q1 & Q2 & _).
        destruct (g =? sh_count s) eqn:E2.
        * assert (Epc : p = sh_count s mod 3) by (rewrite <- (part_pg c s gh _ p I Hp); fold g; f_equal; lia). rewrite Epc. lia.
        * exfalso. pose proof (tg_window c s gh p A Hp). fold g in H. apply (no_tail_succ c s gh A Q1 p Hp). fold g. lia. Qed.

  Theorem oracle_full :
    holds_C02 c offers (map ev_tuple tr, results, dump c s, @nil (Z * Z * Z * Z * list Z)) = true.
  Proof. unfold holds_C02, dump. cbv beta iota zeta. rewrite map_tuple_ev. fold accs. fold L. fold acc_all.
    destruct (quiescent_rotation c W s gh _ I J full_Q) as (Q1 & _).
    pose proof (iv_count c s gh A) as Hc.
    assert (H3 : forall k, 0 <= (sh_count s + k) mod 3 < 3) by (intros; apply Z.mod_pos_bound; lia).
    assert (C1 : holds_results offers results = true) by apply (oracle_results_model c W s th gh n stop gr offers Rr D Hlen).
    assert (C2 : (length results =? length offers)%nat = true) by (unfold results; rewrite map_length, seq_length, Hlen; apply Nat.eqb_refl).
    assert (C5 : increasing (map fst acc_all) = true) by (apply ss_increasing; apply acc_all_ss).
    assert (C6 : (c_n0 c <=? sh_count s) = true) by lia.
    assert (C7 : (C02Oracle.gen_of c (nth (Z.to_nat (sh_count s mod 3)) [sh_tail s 0; sh_tail s 1; sh_tail s 2] 0) =? sh_count s) = true).
    { pose proof (H3 0) as H0. rewrite Z.add_0_r in H0. rewrite (nth_tails _ H0).
      change (C02Oracle.gen_of c (sh_tail s (sh_count s mod 3))) with (tg c s (sh_count s mod 3)). rewrite (iv_act c s gh A). apply Z.eqb_refl. }
    assert (C8 : (C02Oracle.gen_of c (nth (Z.to_nat ((sh_count s + 1) mod 3)) [sh_tail s 0; sh_tail s 1; sh_tail s 2] 0) =? sh_count s - 2) = true).
    { rewrite (nth_tails _ (H3 1)). change (C02Oracle.gen_of c (sh_tail s ((sh_count s + 1) mod 3))) with (tg c s ((sh_count s + 1) mod 3)).
      rewrite Q1. apply Z.eqb_refl. }
    assert (C9 : (C02Oracle.gen_of c (nth (Z.to_nat ((sh_count s + 2) mod 3)) [sh_tail s 0; sh_tail s 1; sh_tail s 2] 0) =? sh_count s - 1) = true).
    { rewrite (nth_tails _ (H3 2)). change (C02Oracle.gen_of c (sh_tail s ((sh_count s + 2) mod 3))) with (tg c s ((sh_count s + 2) mod 3)).
      rewrite (iv_prev c s gh A). apply Z.eqb_refl. }
    rewrite C1, C2, C5, C6, C7, C8, C9, !full_part by lia. rewrite acc_all_range. reflexivity. Qed.
End Full.
