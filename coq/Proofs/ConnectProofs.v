(* Proofs about Model/Connect.v (Aeron::map_cnc_file): bounded termination, soundness of every verdict,
   no panic on files a driver can have left. *)
From Coq Require Import ZArith List Bool Lia Arith.
From Coq Require Import ZifyBool.
Require Import V.Base.MachineInt V.Generated.GenConsts V.Model.Connect.
Import ListNotations.
Open Scope Z_scope.

(* The arithmetic of the source is exact: start + timeout does not overflow u64, time - timeout does not underflow. *)
Definition arith_ok (e : env) (T : Z) : Prop :=
  0 <= T /\ e_clock e 0%nat + T < two64 /\ forall k, T <= e_clock e k < two64.

Lemma past_at_ok m e T k : arith_ok e T ->
  past_at m (e_clock e k) (e_clock e 0%nat) T = Ok (e_clock e k >? e_clock e 0%nat + T).
Proof.
  intros (HT & Hs & Hc). unfold past_at, addu64, chku64.
  assert (in_u64 (e_clock e 0%nat + T) = true) as ->.
  { unfold in_u64. pose proof (Hc 0%nat). unfold two64 in *. lia. }
  reflexivity.
Qed.

Lemma stale_at_ok m e T k h : arith_ok e T ->
  stale_at m h (e_clock e k) T = Ok (wrapu64 h <? e_clock e k - T).
Proof.
  intros (HT & Hs & Hc). unfold stale_at, subu64, chku64.
  assert (in_u64 (e_clock e k - T) = true) as ->.
  { unfold in_u64. pose proof (Hc k). unfold two64 in *. lia. }
  reflexivity.
Qed.

(* ------------------------------------------------------------------------------------------------------- *)
(* bounded termination *)

Definition rank (p : pc) : nat :=
  match p with PSize => 5 | PMap => 4 | PVer _ => 3 | PMeta _ _ => 2 | PHb _ _ => 1 | PJudge _ _ _ => 0 end%nat.

(* from clock call N on, every answer is past the deadline *)
Definition settled (e : env) (T : Z) (N : nat) : Prop :=
  forall k, (N <= k)%nat -> e_clock e k > e_clock e 0%nat + T.

Lemma timeout_check_progress m T e s err w p N :
  arith_ok e T -> settled e T N -> (st_k s <= N)%nat ->
  match timeout_check m T e s err w p with
  | inr (r, K) => r <> RHang /\ (K <= S (st_k s))%nat
  | inl s' => st_k s' = S (st_k s) /\ (st_k s < N)%nat
  end.
Proof.
  intros Ha Hs Hk. unfold timeout_check. rewrite past_at_ok by assumption.
  destruct (e_clock e (st_k s) >? e_clock e 0%nat + T) eqn:E; cbn.
  - split; [discriminate | lia].
  - split; [reflexivity |].
    destruct (Nat.eq_dec (st_k s) N) as [E2|]; [| lia].
    rewrite E2 in E. specialize (Hs N (le_n _)). lia.
Qed.

Lemma step_progress m T e s N :
  arith_ok e T -> settled e T N -> (st_k s <= N)%nat ->
  match step m T e s with
  | inr (r, K) => r <> RHang /\ (K <= S (st_k s))%nat
  | inl s' => (st_k s' = st_k s /\ (rank (st_pc s') < rank (st_pc s))%nat) \/ (st_k s' = S (st_k s) /\ (st_k s < N)%nat)
  end.
Proof.
  intros Ha Hs Hk. unfold step.
  destruct (st_pc s) eqn:Epc.
  - (* PSize *)
    destruct (s_file (obs e s)); [cbn; split; [discriminate | lia] |].
    destruct (n =? 0).
    + pose proof (timeout_check_progress m T e (seen s PSize) ENotCreated 0 PSize N Ha Hs Hk) as H.
      destruct (timeout_check m T e (seen s PSize) ENotCreated 0 PSize) as [s'|[r K]]; cbn in *; [right|]; exact H.
    + left. cbn. split; [reflexivity | lia].
  - (* PMap *)
    destruct (s_file (obs e s)); [cbn; split; [discriminate | lia] |].
    destruct (n =? 0); cbn; [split; [discriminate | lia] | left; split; [reflexivity | lia]].
  - (* PVer *)
    destruct (n <? 4); [cbn; split; [discriminate | lia] |].
    destruct (s_ver (obs e s) =? 0).
    + pose proof (timeout_check_progress m T e (seen s (PVer n)) ENotInitialised 0 (PVer n) N Ha Hs Hk) as H.
      destruct (timeout_check m T e (seen s (PVer n)) ENotInitialised 0 (PVer n)) as [s'|[r K]]; cbn in *; [right|]; exact H.
    + destruct (version_ok (s_ver (obs e s))); cbn; [left; split; [reflexivity | lia] | split; [discriminate | lia]].
  - (* PMeta *)
    destruct (n <? META_FIELDS); [cbn; split; [discriminate | lia] |].
    destruct (sub32 m (s_tdlen (obs e s)) RB_TRAILER_LENGTH); try (cbn; split; [discriminate | lia]).
    destruct (is_pow2 a); [| cbn; split; [discriminate | lia]].
    destruct (META + a + RB_CONSUMER_HEARTBEAT_OFFSET + 8 <=? n); cbn; [left; split; [reflexivity | lia] | split; [discriminate | lia]].
  - (* PHb *)
    destruct (s_hb (obs e s) =? 0).
    + pose proof (timeout_check_progress m T e (seen s (PHb n v)) ENoHeartbeat 0 (PHb n v) N Ha Hs Hk) as H.
      destruct (timeout_check m T e (seen s (PHb n v)) ENoHeartbeat 0 (PHb n v)) as [s'|[r K]]; cbn in *; [right|]; exact H.
    + left. cbn. split; [reflexivity | lia].
  - (* PJudge *)
    rewrite stale_at_ok, past_at_ok by assumption.
    destruct (wrapu64 _ <? _); [| cbn; split; [discriminate | lia]].
    destruct (e_clock e (st_k s) >? e_clock e 0%nat + T) eqn:E; cbn; [split; [discriminate | lia] |].
    right. split; [reflexivity |].
    destruct (Nat.eq_dec (st_k s) N) as [E2|]; [| lia].
    rewrite E2 in E. specialize (Hs N (le_n _)). lia.
Qed.

Lemma run_terminates m T e N : arith_ok e T -> settled e T N ->
  forall fuel s, (st_k s <= N)%nat -> (6 * (N - st_k s) + rank (st_pc s) < fuel)%nat ->
  fst (run fuel m T e s) <> RHang /\ (snd (run fuel m T e s) <= S N)%nat.
Proof.
  intros Ha Hs. induction fuel as [|f IH]; intros s Hk Hf; [lia |].
  cbn [run]. pose proof (step_progress m T e s N Ha Hs Hk) as H.
  destruct (step m T e s) as [s'|[r K]].
  - assert (rank (st_pc s') <= 5)%nat by (destruct (st_pc s'); cbn; lia).
    apply IH; destruct H as [[H1 H2]|[H1 H2]]; lia.
  - cbn. destruct H. split; [assumption | lia].
Qed.

(* `start_ms` is clock call 0, so the deadline cannot be past at call 0: N >= 1 *)
Lemma settled_pos e T N : arith_ok e T -> settled e T N -> (1 <= N)%nat.
Proof.
  intros (HT & _) Hs. destruct N; [| lia]. specialize (Hs 0%nat (le_n _)). lia.
Qed.

Theorem connect_terminates m T e N fuel :
  arith_ok e T -> settled e T N -> (6 * N <= fuel)%nat ->
  fst (connect fuel m T e) <> RHang /\ (snd (connect fuel m T e) <= S N)%nat.
Proof.
  intros Ha Hs Hf. pose proof (settled_pos e T N Ha Hs).
  unfold connect. apply run_terminates; auto; cbn; lia.
Qed.

(* ------------------------------------------------------------------------------------------------------- *)
(* what each verdict means *)

Definition seen_size (e : env) (k : nat) (n : Z) : Prop :=
  exists k' j n0, (1 <= k' <= k)%nat /\ s_file (e_snap e k' j) = FSize n0 /\ n0 <> 0 /\ n = wrap32 n0.
Definition seen_ver (e : env) (k : nat) (v : Z) : Prop :=
  exists k' j, (1 <= k' <= k)%nat /\ s_ver (e_snap e k' j) = v.

Lemma seen_size_mono e k k2 n : seen_size e k n -> (k <= k2)%nat -> seen_size e k2 n.
Proof. intros (k' & j & n0 & H & H2) Hle. exists k', j, n0. split; [lia | exact H2]. Qed.
Lemma seen_ver_mono e k k2 v : seen_ver e k v -> (k <= k2)%nat -> seen_ver e k2 v.
Proof. intros (k' & j & H & H2) Hle. exists k', j. split; [lia | exact H2]. Qed.

Definition mapped (e : env) (k : nat) (n v : Z) : Prop :=
  seen_size e k n /\ seen_ver e k v /\ v <> 0 /\ version_ok v = true.

Definition pc_inv (e : env) (s : st) : Prop :=
  (1 <= st_k s)%nat /\
  match st_pc s with
  | PSize | PMap => True
  | PVer n => seen_size e (st_k s) n
  | PMeta n v | PHb n v => mapped e (st_k s) n v
  | PJudge n v h1 => mapped e (st_k s) n v /\ h1 <> 0 /\ exists j, h1 = s_hb (e_snap e (st_k s) j)
  end.

Definition post (e : env) (T : Z) (r : cout) (K : nat) : Prop :=
  let dl := e_clock e 0%nat + T in
  match r with
  | ROk n v h1 t h2 =>
      (2 <= K)%nat /\ t = e_clock e (K - 1) /\ h2 = s_hb (e_snap e K 0%nat) /\ (wrapu64 h2 <? t - T) = false
      /\ mapped e (K - 1) n v /\ h1 <> 0 /\ exists j, h1 = s_hb (e_snap e (K - 1) j)
  | RErr ENoHeartbeat w t =>
      (2 <= K)%nat /\ t = e_clock e (K - 1) /\ t > dl
      /\ ((w = 0 /\ exists j, s_hb (e_snap e (K - 1) j) = 0) \/ (w = s_hb (e_snap e K 0%nat) /\ (wrapu64 w <? t - T) = true))
  | RErr ENotCreated w t =>
      (2 <= K)%nat /\ t = e_clock e (K - 1) /\ t > dl /\ exists j, s_file (e_snap e (K - 1) j) = FSize 0
  | RErr ENotInitialised w t =>
      (2 <= K)%nat /\ t = e_clock e (K - 1) /\ t > dl /\ exists j, s_ver (e_snap e (K - 1) j) = 0
  | RErr EVersion w t => (1 <= K)%nat /\ w <> 0 /\ version_ok w = false /\ exists j, s_ver (e_snap e K j) = w
  | RErr EMapFile w t => (1 <= K)%nat /\ exists j, s_file (e_snap e K j) = FMissing \/ s_file (e_snap e K j) = FSize 0
  | RPanic | RUndef | RHang => True
  end.

Lemma timeout_check_sound m T e s err w p (Q : Prop) :
  arith_ok e T -> (1 <= st_k s)%nat ->
  match timeout_check m T e s err w p with
  | inr (r, K) => r = RErr err w (e_clock e (K - 1)) /\ K = S (st_k s) /\ e_clock e (K - 1) > e_clock e 0%nat + T
  | inl s' => s' = ticked s p
  end.
Proof.
  intros Ha Hk. unfold timeout_check. rewrite past_at_ok by assumption.
  destruct (e_clock e (st_k s) >? e_clock e 0%nat + T) eqn:E; cbn.
  - replace (st_k s - 0)%nat with (st_k s) by lia. repeat split; lia.
  - reflexivity.
Qed.

Lemma step_sound m T e s : arith_ok e T -> pc_inv e s ->
  match step m T e s with
  | inr (r, K) => post e T r K
  | inl s' => pc_inv e s'
  end.
Proof.
  intros Ha [Hk Hi]. unfold step. destruct (st_pc s) eqn:Epc.
  - (* PSize *)
    destruct (s_file (obs e s)) eqn:Ef.
    { cbn. split; [lia |]. exists (st_j s). left. exact Ef. }
    destruct (n =? 0) eqn:En.
    + pose proof (timeout_check_sound m T e (seen s PSize) ENotCreated 0 PSize True Ha Hk) as H.
      destruct (timeout_check m T e (seen s PSize) ENotCreated 0 PSize) as [s'|[r K]].
      * subst s'. split; cbn; [lia | exact I].
      * destruct H as (-> & HK & Hp). cbn in HK. cbn. repeat split; try lia.
        exists (st_j s). replace (K - 1)%nat with (st_k s) by lia. unfold obs in Ef. rewrite Ef. f_equal. lia.
    + split; cbn; [lia | exact I].
  - (* PMap *)
    destruct (s_file (obs e s)) eqn:Ef.
    { cbn. split; [lia |]. exists (st_j s). left. exact Ef. }
    destruct (n =? 0) eqn:En.
    + cbn. split; [lia |]. exists (st_j s). right. unfold obs in Ef. rewrite Ef. f_equal. lia.
    + split; cbn; [lia |]. exists (st_k s), (st_j s), n. repeat split; try lia. exact Ef.
  - (* PVer *)
    destruct (n <? 4); [exact I |].
    destruct (s_ver (obs e s) =? 0) eqn:Ev.
    + pose proof (timeout_check_sound m T e (seen s (PVer n)) ENotInitialised 0 (PVer n) True Ha Hk) as H.
      destruct (timeout_check m T e (seen s (PVer n)) ENotInitialised 0 (PVer n)) as [s'|[r K]].
      * subst s'. split; cbn; [lia |]. eapply seen_size_mono; [exact Hi | lia].
      * destruct H as (-> & HK & Hp). cbn in HK. cbn. repeat split; try lia.
        exists (st_j s). replace (K - 1)%nat with (st_k s) by lia. unfold obs in Ev. lia.
    + destruct (version_ok (s_ver (obs e s))) eqn:Eo.
      * split; cbn; [lia |]. repeat split; auto; [| lia].
        exists (st_k s), (st_j s). split; [lia | reflexivity].
      * cbn. repeat split; try lia; auto. exists (st_j s). reflexivity.
  - (* PMeta *)
    destruct (n <? META_FIELDS); [exact I |].
    destruct (sub32 m (s_tdlen (obs e s)) RB_TRAILER_LENGTH); try exact I.
    destruct (is_pow2 a); [| exact I].
    destruct (META + a + RB_CONSUMER_HEARTBEAT_OFFSET + 8 <=? n); [| exact I].
    split; cbn; [lia | exact Hi].
  - (* PHb *)
    destruct (s_hb (obs e s) =? 0) eqn:Eh.
    + pose proof (timeout_check_sound m T e (seen s (PHb n v)) ENoHeartbeat 0 (PHb n v) True Ha Hk) as H.
      destruct (timeout_check m T e (seen s (PHb n v)) ENoHeartbeat 0 (PHb n v)) as [s'|[r K]].
      * subst s'. split; cbn; [lia |]. destruct Hi as (H1 & H2 & H3).
        split; [eapply seen_size_mono; [exact H1 | lia] |]. split; [eapply seen_ver_mono; [exact H2 | lia] | exact H3].
      * destruct H as (-> & HK & Hp). cbn in HK. cbn. repeat split; try lia.
        left. split; [reflexivity |]. exists (st_j s). replace (K - 1)%nat with (st_k s) by lia. unfold obs in Eh. lia.
    + split; cbn; [lia |]. split; [exact Hi |]. split; [lia |]. exists (st_j s). reflexivity.
  - (* PJudge *)
    rewrite stale_at_ok, past_at_ok by assumption.
    destruct Hi as (Hm & Hh & Hj).
    destruct (wrapu64 _ <? _) eqn:Es.
    + destruct (e_clock e (st_k s) >? e_clock e 0%nat + T) eqn:E; cbn.
      * replace (st_k s - 0)%nat with (st_k s) by lia. repeat split; try lia. right. split; [reflexivity | exact Es].
      * split; cbn; [lia | exact I].
    + cbn. replace (st_k s - 0)%nat with (st_k s) by lia. repeat split; try lia; try apply Hm; auto.
Qed.

Lemma run_sound m T e : arith_ok e T ->
  forall fuel s, pc_inv e s -> post e T (fst (run fuel m T e s)) (snd (run fuel m T e s)).
Proof.
  intros Ha. induction fuel as [|f IH]; intros s Hi; [exact I |].
  cbn [run]. pose proof (step_sound m T e s Ha Hi) as H.
  destruct (step m T e s) as [s'|[r K]]; [apply IH; exact H | exact H].
Qed.

Theorem connect_sound m T e fuel : arith_ok e T ->
  post e T (fst (connect fuel m T e)) (snd (connect fuel m T e)).
Proof. intros Ha. apply run_sound; auto. split; cbn; [lia | exact I]. Qed.

(* ------------------------------------------------------------------------------------------------------- *)
(* no panic, no read outside the mapping, on files a driver can have left *)

Definition TRAILER := RB_TRAILER_LENGTH.

(* every generation of the file that is not empty is at least `lo` bytes long, and `lo` covers the meta data and the
   to-driver region every snapshot announces, whose capacity is a power of two *)
Definition env_wf (e : env) (lo : Z) : Prop :=
  META_FIELDS <= lo /\ 4 <= lo /\
  forall k j, (1 <= k)%nat ->
    let s := e_snap e k j in
    (forall n, s_file s = FSize n -> n = 0 \/ lo <= n < two31)
    /\ in_i32 (s_tdlen s) = true /\ is_pow2 (s_tdlen s - TRAILER) = true /\ META + s_tdlen s <= lo.

Definition pc_big (lo : Z) (s : st) : Prop :=
  (1 <= st_k s)%nat /\
  match st_pc s with
  | PSize | PMap => True
  | PVer n | PMeta n _ | PHb n _ | PJudge n _ _ => lo <= n
  end.

Definition benign (r : cout) : Prop := r <> RPanic /\ r <> RUndef.

Lemma timeout_check_benign m T e s err w p : arith_ok e T ->
  match timeout_check m T e s err w p with
  | inr (r, _) => benign r
  | inl s' => s' = ticked s p
  end.
Proof.
  intros Ha. unfold timeout_check. rewrite past_at_ok by assumption.
  destruct (_ >? _); cbn; [split; discriminate | reflexivity].
Qed.

Lemma is_pow2_pos v : is_pow2 v = true -> 0 < v.
Proof. unfold is_pow2. lia. Qed.

Lemma step_total m T e lo s : arith_ok e T -> env_wf e lo -> pc_big lo s ->
  match step m T e s with
  | inr (r, _) => benign r
  | inl s' => pc_big lo s'
  end.
Proof.
  intros Ha (Hlo1 & Hlo2 & Hw) [Hk Hb]. unfold step.
  pose proof (Hw (st_k s) (st_j s) Hk) as (Hf & Hti & Htp & Htl). cbn zeta in *.
  destruct (st_pc s) eqn:Epc.
  - destruct (s_file (obs e s)); [cbn; split; discriminate |].
    destruct (n =? 0).
    + pose proof (timeout_check_benign m T e (seen s PSize) ENotCreated 0 PSize Ha) as H.
      destruct (timeout_check m T e (seen s PSize) ENotCreated 0 PSize) as [s'|[r K]]; [| exact H].
      subst s'. split; cbn; [lia | exact I].
    + split; cbn; [lia | exact I].
  - destruct (s_file (obs e s)) eqn:Ef; [cbn; split; discriminate |].
    destruct (n =? 0) eqn:En; [cbn; split; discriminate |].
    split; cbn; [lia |]. unfold obs in Ef. destruct (Hf n Ef) as [|Hr]; [lia |].
    rewrite wrap32_id; [lia |]. unfold in_i32, two31 in *. lia.
  - assert ((n <? 4) = false) as -> by lia.
    destruct (s_ver (obs e s) =? 0).
    + pose proof (timeout_check_benign m T e (seen s (PVer n)) ENotInitialised 0 (PVer n) Ha) as H.
      destruct (timeout_check m T e (seen s (PVer n)) ENotInitialised 0 (PVer n)) as [s'|[r K]]; [| exact H].
      subst s'. split; cbn; [lia | exact Hb].
    + destruct (version_ok _); cbn; [split; cbn; [lia | exact Hb] | split; discriminate].
  - assert ((n <? META_FIELDS) = false) as -> by lia.
    unfold obs. pose proof (is_pow2_pos _ Htp) as Hpos.
    unfold sub32, chk32.
    assert (in_i32 (s_tdlen (e_snap e (st_k s) (st_j s)) - RB_TRAILER_LENGTH) = true) as ->.
    { unfold in_i32, TRAILER, RB_TRAILER_LENGTH, two31 in *. lia. }
    unfold TRAILER in Htp. rewrite Htp.
    assert ((META + (s_tdlen (e_snap e (st_k s) (st_j s)) - RB_TRAILER_LENGTH) + RB_CONSUMER_HEARTBEAT_OFFSET + 8 <=? n) = true) as ->.
    { unfold RB_TRAILER_LENGTH, RB_CONSUMER_HEARTBEAT_OFFSET in *. lia. }
    split; cbn; [lia | exact Hb].
  - destruct (s_hb (obs e s) =? 0).
    + pose proof (timeout_check_benign m T e (seen s (PHb n v)) ENoHeartbeat 0 (PHb n v) Ha) as H.
      destruct (timeout_check m T e (seen s (PHb n v)) ENoHeartbeat 0 (PHb n v)) as [s'|[r K]]; [| exact H].
      subst s'. split; cbn; [lia | exact Hb].
    + split; cbn; [lia | exact Hb].
  - rewrite stale_at_ok, past_at_ok by assumption.
    destruct (wrapu64 _ <? _); [| cbn; split; discriminate].
    destruct (_ >? _); cbn; [split; discriminate | split; cbn; [lia | exact I]].
Qed.

Lemma run_total m T e lo : arith_ok e T -> env_wf e lo ->
  forall fuel s, pc_big lo s -> benign (fst (run fuel m T e s)).
Proof.
  intros Ha Hw. induction fuel as [|f IH]; intros s Hb; [cbn; split; discriminate |].
  cbn [run]. pose proof (step_total m T e lo s Ha Hw Hb) as H.
  destruct (step m T e s) as [s'|[r K]]; [apply IH; exact H | exact H].
Qed.

Theorem connect_total m T e lo fuel : arith_ok e T -> env_wf e lo -> benign (fst (connect fuel m T e)).
Proof. intros Ha Hw. eapply run_total; eauto. split; cbn; [lia | exact I]. Qed.

(* ------------------------------------------------------------------------------------------------------- *)
(* a clock that does not run backwards and passes the deadline *)

Definition nondecr (e : env) : Prop := forall i j, (i <= j)%nat -> e_clock e i <= e_clock e j.

Lemma monotone_settled e T N : nondecr e -> e_clock e N > e_clock e 0%nat + T -> settled e T N.
Proof. intros Hm HN k Hk. specialize (Hm N k Hk). lia. Qed.

(* a driver that is dead all along / alive all along *)
Definition usable (s : snap) : Prop :=
  (exists n, s_file s = FSize n /\ n <> 0) /\ s_ver s <> 0 /\ version_ok (s_ver s) = true.

Definition all_dead (e : env) (T : Z) : Prop :=
  forall k j k2, (1 <= k)%nat -> usable (e_snap e k j) /\ (wrapu64 (s_hb (e_snap e k j)) <? e_clock e k2 - T) = true.
Definition all_alive (e : env) (T : Z) : Prop :=
  forall k j k2, (1 <= k)%nat -> usable (e_snap e k j) /\ s_hb (e_snap e k j) <> 0
                                 /\ (wrapu64 (s_hb (e_snap e k j)) <? e_clock e k2 - T) = false.

Theorem connect_dead_driver m T e N lo fuel :
  arith_ok e T -> settled e T N -> env_wf e lo -> all_dead e T -> (6 * N <= fuel)%nat ->
  exists w t, fst (connect fuel m T e) = RErr ENoHeartbeat w t /\ (snd (connect fuel m T e) <= S N)%nat.
Proof.
  intros Ha Hs Hw Hd Hf.
  destruct (connect_terminates m T e N fuel Ha Hs Hf) as [Hnh HK].
  destruct (connect_total m T e lo fuel Ha Hw) as [Hnp Hnu].
  pose proof (connect_sound m T e fuel Ha) as Hp.
  destruct (connect fuel m T e) as [r K]. cbn [fst snd] in *.
  destruct r as [n v h1 t h2 | er w t | | |]; try congruence; cbn [post] in Hp.
  - exfalso. destruct Hp as (HK2 & -> & -> & Hst & _).
    destruct (Hd K 0%nat (K - 1)%nat ltac:(lia)) as [_ H]. congruence.
  - destruct er; cbn [post] in Hp.
    + exfalso. destruct Hp as (HK1 & j & Hf2). destruct (Hd K j 0%nat HK1) as [((n & Hn & Hn0) & _) _].
      destruct Hf2; congruence.
    + exfalso. destruct Hp as (HK2 & _ & _ & j & Hf2). destruct (Hd (K - 1)%nat j 0%nat ltac:(lia)) as [((n & Hn & Hn0) & _) _]. congruence.
    + exfalso. destruct Hp as (HK2 & _ & _ & j & Hf2). destruct (Hd (K - 1)%nat j 0%nat ltac:(lia)) as [(_ & Hv & _) _]. congruence.
    + exfalso. destruct Hp as (HK1 & Hw0 & Hvo & j & Hf2). destruct (Hd K j 0%nat HK1) as [(_ & _ & Hv) _]. congruence.
    + exists w, t. split; [reflexivity | exact HK].
Qed.

Theorem connect_live_driver m T e N lo fuel :
  arith_ok e T -> settled e T N -> env_wf e lo -> all_alive e T -> (6 * N <= fuel)%nat ->
  exists n v h1 t h2, fst (connect fuel m T e) = ROk n v h1 t h2.
Proof.
  intros Ha Hs Hw Hl Hf.
  destruct (connect_terminates m T e N fuel Ha Hs Hf) as [Hnh HK].
  destruct (connect_total m T e lo fuel Ha Hw) as [Hnp Hnu].
  pose proof (connect_sound m T e fuel Ha) as Hp.
  destruct (connect fuel m T e) as [r K]. cbn [fst snd] in *.
  destruct r as [n v h1 t h2 | er w t | | |]; try congruence; cbn [post] in Hp.
  - exists n, v, h1, t, h2. reflexivity.
  - exfalso. destruct er; cbn [post] in Hp.
    + destruct Hp as (HK1 & j & Hf2). destruct (Hl K j 0%nat HK1) as [((n & Hn & Hn0) & _) _]. destruct Hf2; congruence.
    + destruct Hp as (HK2 & _ & _ & j & Hf2). destruct (Hl (K - 1)%nat j 0%nat ltac:(lia)) as [((n & Hn & Hn0) & _) _]. congruence.
    + destruct Hp as (HK2 & _ & _ & j & Hf2). destruct (Hl (K - 1)%nat j 0%nat ltac:(lia)) as [(_ & Hv & _) _]. congruence.
    + destruct Hp as (HK1 & Hw0 & Hvo & j & Hf2). destruct (Hl K j 0%nat HK1) as [(_ & _ & Hv) _]. congruence.
    + destruct Hp as (HK2 & -> & _ & [(_ & j & Hj)|(-> & Hst)]).
      * destruct (Hl (K - 1)%nat j 0%nat ltac:(lia)) as (_ & Hh & _). congruence.
      * destruct (Hl K 0%nat (K - 1)%nat ltac:(lia)) as (_ & _ & Hh). congruence.
Qed.

(* the verdicts spelled out *)
Theorem connect_ok_means m T e fuel n v h1 t h2 : arith_ok e T ->
  fst (connect fuel m T e) = ROk n v h1 t h2 ->
  let K := snd (connect fuel m T e) in
  (2 <= K)%nat
  /\ t = e_clock e (K - 1) /\ h2 = s_hb (e_snap e K 0%nat) /\ (wrapu64 h2 <? t - T) = false   (* judged fresh *)
  /\ h1 <> 0 /\ (exists j, h1 = s_hb (e_snap e (K - 1) j))                                     (* a heartbeat was seen *)
  /\ v <> 0 /\ version_ok v = true /\ (exists k j, (1 <= k <= K - 1)%nat /\ s_ver (e_snap e k j) = v)
  /\ (exists k j n0, (1 <= k <= K - 1)%nat /\ s_file (e_snap e k j) = FSize n0 /\ n0 <> 0 /\ n = wrap32 n0).
Proof.
  intros Ha E. pose proof (connect_sound m T e fuel Ha) as Hp. rewrite E in Hp. cbn [post] in Hp. cbn zeta.
  destruct Hp as (H1 & H2 & H3 & H4 & (H5 & H6 & H7 & H8) & H9 & H10). repeat split; auto.
Qed.

Theorem connect_timeout_means m T e fuel er w t : arith_ok e T ->
  fst (connect fuel m T e) = RErr er w t -> er = ENotCreated \/ er = ENotInitialised \/ er = ENoHeartbeat ->
  let K := snd (connect fuel m T e) in
  (2 <= K)%nat /\ t = e_clock e (K - 1) /\ t > e_clock e 0%nat + T                            (* only past the deadline *)
  /\ match er with
     | ENotCreated => exists j, s_file (e_snap e (K - 1) j) = FSize 0
     | ENotInitialised => exists j, s_ver (e_snap e (K - 1) j) = 0
     | _ => (w = 0 /\ exists j, s_hb (e_snap e (K - 1) j) = 0) \/ (w = s_hb (e_snap e K 0%nat) /\ (wrapu64 w <? t - T) = true)
     end.
Proof.
  intros Ha E Her. pose proof (connect_sound m T e fuel Ha) as Hp. rewrite E in Hp. cbn zeta.
  destruct Her as [->|[->| ->]]; cbn [post] in Hp; destruct Hp as (H1 & H2 & H3 & H4); repeat split; auto.
Qed.

Theorem connect_immediate_error_means m T e fuel er w t : arith_ok e T ->
  fst (connect fuel m T e) = RErr er w t -> er = EVersion \/ er = EMapFile ->
  let K := snd (connect fuel m T e) in
  (1 <= K)%nat /\
  match er with
  | EVersion => w <> 0 /\ version_ok w = false /\ exists j, s_ver (e_snap e K j) = w
  | _ => exists j, s_file (e_snap e K j) = FMissing \/ s_file (e_snap e K j) = FSize 0
  end.
Proof.
  intros Ha E Her. pose proof (connect_sound m T e fuel Ha) as Hp. rewrite E in Hp. cbn zeta.
  destruct Her as [->| ->]; cbn [post] in Hp; destruct Hp as (H1 & H2); split; auto.
Qed.

(* with a clock that does not run backwards: the explicit bound *)
Theorem connect_returns_monotone m T e N fuel :
  arith_ok e T -> nondecr e -> e_clock e N > e_clock e 0%nat + T -> (6 * N <= fuel)%nat ->
  fst (connect fuel m T e) <> RHang /\ (snd (connect fuel m T e) <= S N)%nat.
Proof. intros Ha Hm HN Hf. apply connect_terminates; auto. apply monotone_settled; assumption. Qed.

(* what the exactness assumptions are for: a clock below the time-out *)
Example tiny_clock_debug_panics :
  connect_script Debug 100 50 [(mkSnap (FSize 4096) 16 1792 5, 60); (mkSnap (FSize 4096) 16 1792 5, 400)] = (KPanic, 2%Z).
Proof. vm_compute. reflexivity. Qed.
(* ... and a time-out above the clock value: in a release build time - timeout wraps, a live driver is judged stale
   and found only once the clock has reached the time-out value (here at the third attempt instead of the first) *)
Example timeout_above_clock_release_misjudges :
  connect_script Release 2000 1000 [(mkSnap (FSize 4096) 16 1792 1000, 1001); (mkSnap (FSize 4096) 16 1792 1001, 1002);
                                    (mkSnap (FSize 4096) 16 1792 2500, 2500); (mkSnap (FSize 4096) 16 1792 2500, 3501)]
  = (KOk, 4%Z).
Proof. vm_compute. reflexivity. Qed.

(* a driver that is alive when the client arrives is found at the first attempt: two clock calls, six observations *)
Theorem connect_alive_at_once m T e lo fuel :
  arith_ok e T -> env_wf e lo ->
  (forall j, usable (e_snap e 1%nat j) /\ s_hb (e_snap e 1%nat j) <> 0) ->
  (wrapu64 (s_hb (e_snap e 2%nat 0%nat)) <? e_clock e 1%nat - T) = false ->
  (6 <= fuel)%nat ->
  exists n v h1 t h2, connect fuel m T e = (ROk n v h1 t h2, 2%nat).
Proof.
  intros Ha (Hlo1 & Hlo2 & Hw) Hu Hfresh Hf.
  do 6 (destruct fuel as [|fuel]; [lia |]).
  unfold connect, init.
  (* PSize *)
  destruct (Hu 0%nat) as (((n0 & Hn0 & Hn0z) & Hv0 & Hvo0) & _).
  pose proof (Hw 1%nat 0%nat (le_n _)) as (Hf0 & _). cbn zeta in Hf0. destruct (Hf0 _ Hn0) as [|Hr0]; [congruence |].
  cbn [run]. unfold step at 1. cbn [st_pc]. unfold obs. cbn [st_k st_j]. rewrite Hn0.
  assert ((n0 =? 0) = false) as -> by lia. unfold seen at 1. cbn [st_k st_j].
  (* PMap *)
  destruct (Hu 1%nat) as (((n1 & Hn1 & Hn1z) & _) & _).
  pose proof (Hw 1%nat 1%nat (le_n _)) as (Hf1 & _). cbn zeta in Hf1. destruct (Hf1 _ Hn1) as [|Hr1]; [congruence |].
  cbn [run]. unfold step at 1. cbn [st_pc]. unfold obs. cbn [st_k st_j]. rewrite Hn1.
  assert ((n1 =? 0) = false) as -> by lia. unfold seen at 1. cbn [st_k st_j].
  rewrite wrap32_id by (unfold in_i32, two31 in *; lia).
  (* PVer *)
  destruct (Hu 2%nat) as ((_ & Hv2 & Hvo2) & _).
  cbn [run]. unfold step at 1. cbn [st_pc]. unfold obs. cbn [st_k st_j].
  assert ((n1 <? 4) = false) as -> by lia.
  assert ((s_ver (e_snap e 1%nat 2%nat) =? 0) = false) as -> by lia. rewrite Hvo2.
  unfold seen at 1. cbn [st_k st_j].
  (* PMeta *)
  pose proof (Hw 1%nat 3%nat (le_n _)) as (_ & Hti & Htp & Htl). cbn zeta in Hti, Htp, Htl.
  pose proof (is_pow2_pos _ Htp) as Hpos.
  cbn [run]. unfold step at 1. cbn [st_pc]. unfold obs. cbn [st_k st_j].
  assert ((n1 <? META_FIELDS) = false) as -> by lia.
  unfold sub32, chk32.
  assert (in_i32 (s_tdlen (e_snap e 1%nat 3%nat) - RB_TRAILER_LENGTH) = true) as ->
    by (unfold in_i32, TRAILER, RB_TRAILER_LENGTH, two31 in *; lia).
  unfold TRAILER in Htp. rewrite Htp.
  assert ((META + (s_tdlen (e_snap e 1%nat 3%nat) - RB_TRAILER_LENGTH) + RB_CONSUMER_HEARTBEAT_OFFSET + 8 <=? n1) = true) as ->
    by (unfold RB_TRAILER_LENGTH, RB_CONSUMER_HEARTBEAT_OFFSET in *; lia).
  unfold seen at 1. cbn [st_k st_j].
  (* PHb *)
  destruct (Hu 4%nat) as (_ & Hh4).
  cbn [run]. unfold step at 1. cbn [st_pc]. unfold obs. cbn [st_k st_j].
  assert ((s_hb (e_snap e 1%nat 4%nat) =? 0) = false) as -> by lia.
  unfold seen at 1. cbn [st_k st_j].
  (* PJudge *)
  cbn [run]. unfold step at 1. cbn [st_pc st_k]. unfold ticked, obs. cbn [st_k st_j].
  rewrite stale_at_ok by assumption. rewrite Hfresh. unfold stop. cbn [st_k].
  do 5 eexists. reflexivity.
Qed.
