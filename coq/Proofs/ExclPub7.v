(* C03, exclusive publisher: the commit (positive length) of offered fragments and of claims; every step keeps the invariant. *)
Require Import V.Base.MachineInt.
Require Import V.Generated.GenConsts.
Require Import V.Model.LogBase.
Require Import V.Model.Descriptor.
Require Import V.Model.Sched.
Require Import V.Model.AppenderThreads.
Require Import V.Model.ReaderThreads.
Require Import V.Model.ExclThreads.
Require Import V.Model.PollThreads.
Require Import V.Model.ClaimThreads.
Require Import V.Proofs.TailArith.
Require Import V.Proofs.FragArith.
Require Import V.Proofs.ExclDefs V.Proofs.ExclPub1 V.Proofs.ExclPub2 V.Proofs.ExclPub3 V.Proofs.ExclPub4 V.Proofs.ExclPub5 V.Proofs.ExclPub6.
From Coq Require Import ZifyBool.
Open Scope Z_scope.

Section P.
  Variable c : cfg.
  Hypothesis W : wf_cfg c.

  Lemma st6_fields tid msg foff rem fl :
    s_toff (st6 c tid msg foff rem fl) = foff /\ s_tid (st6 c tid msg foff rem fl) = tid /\ s_sess (st6 c tid msg foff rem fl) = c_sess c /\
    s_strm (st6 c tid msg foff rem fl) = c_strm c /\ s_ver (st6 c tid msg foff rem fl) = GenConsts.CURRENT_VERSION.
  Proof. unfold st6, st5, st4. destruct (is_fragmented c (zlen msg)); repeat split. Qed.

  Lemma cpre_fields l :
    s_toff (cpre c l) = x_foff l /\ s_tid (cpre c l) = x_tid l /\ s_sess (cpre c l) = c_sess c /\ s_strm (cpre c l) = c_strm c /\
    s_ver (cpre c l) = GenConsts.CURRENT_VERSION.
  Proof. unfold cpre. destruct (apply_sets_fields (cst3 c l) (item_sets (x_item l))) as (A1 & A2 & A3 & A4 & A5 & A6 & A7).
    destruct (item_abort (x_item l)); cbn; rewrite ?A2, ?A3, ?A4, ?A5, ?A6; repeat split. Qed.

  (* the positive length: the frame joins the committed ones *)
  Lemma commit_steps s gh l t s' l' e : XPInv c gh l -> memok c s gh (Some l) -> laidinv c gh ->
    x_pc l = XPosLen \/ x_pc l = XCPosLen -> xstep c t s l = Some (s', l', e) ->
    XPInv c (xgstep c l gh) l' /\ memok c s' (xgstep c l gh) (Some l') /\ laidinv c (xgstep c l gh) /\ sh_subpos s' = sh_subpos s.
  Proof. intros I M L Hp Hstep. pose proof I as [I1 I2 I3 I4 I5 I6 I7 I8 I9 I10 I11 I12].
    assert (F : in_frame (x_pc l) = true) by (destruct Hp as [-> | ->]; reflexivity).
    pose proof (front_free c gh l I L) as Hfree. rewrite (front_frame l F) in Hfree.
    assert (Hhi : xg_hi gh (x_idx l) = x_foff l) by (rewrite I3; apply front_frame; assumption).
    destruct (I5 F) as (Fr1 & Fr2 & Fr3 & Fr4 & Fr5).
    destruct (TL_bounds c W) as (TB & TM). pose proof (mp_pos c W) as (Hmp & _).
    destruct (span_ge c W (x_rem l) ltac:(lia)) as (Sp1 & Sp2 & Sp3).
    destruct (align_flen c W (x_rem l) ltac:(lia)) as (Al1 & Al2 & Al3).
    pose proof (xgeom_tid c gh l I1) as Htid.
    unfold xstep, xgstep in *. destruct Hp as [Hpc | Hpc]; rewrite Hpc in *; inversion Hstep; subst s' l' e; clear Hstep.
    - (* XPosLen *)
      rewrite (mem_cur c s gh l _ (st5 c (x_tid l) (msg_of l) (x_foff l) (x_rem l) (x_flags l)) M Hfree) by (unfold cur; rewrite Hpc; reflexivity).
      change (set_len (st5 c (x_tid l) (msg_of l) (x_foff l) (x_rem l) (x_flags l)) (xflen c l))
        with (st6 c (x_tid l) (msg_of l) (x_foff l) (x_rem l) (x_flags l)).
      set (fin := st6 c (x_tid l) (msg_of l) (x_foff l) (x_rem l) (x_flags l)).
      assert (Hlen : s_len fin = flen c (x_rem l)) by reflexivity.
      set (gh' := xg_add gh (x_idx l) (x_foff l) fin).
      assert (Hhi' : xg_hi gh' (x_idx l) = x_foff l + align (flen c (x_rem l)) FA).
      { unfold gh'. cbn [xg_add xg_hi]. rewrite Z.eqb_refl, Hlen. reflexivity. }
      assert (G' : xgeom c gh' (x_tbp l) (x_idx l) (x_tid l)) by (apply xgeom_add; assumption).
      assert (Ecl : is_claim (x_item l) = false) by (destruct (is_claim (x_item l)) eqn:E; [specialize (I8 eq_refl); discriminate I8 | reflexivity]).
      split; [|split; [|split; [|reflexivity]]].
      + unfold after_xcommit. change (xbytes c l) with (fbytes c (x_rem l)). change (xflen c l) with (flen c (x_rem l)).
        destruct (x_rem l - fbytes c (x_rem l) <=? 0) eqn:E.
        * unfold x_newpos_ok. apply finish_inv; cbn [x_tbp x_idx x_tid x_toff xl_toff]; try assumption; try lia.
          rewrite <- Fr2, Sp2 by lia. rewrite Z.add_mod, Fr5, Al2 by lia. reflexivity.
        * assert (Hfb : 0 <= fbytes c (x_rem l) <= x_rem l) by (unfold fbytes; lia).
          apply frame_like; xn; cbn [x_tbp x_idx x_tid x_toff x_foff x_rem x_resoff x_pc x_sets xl_frag]; try assumption; try reflexivity; try apply I2; try congruence; try (intros; discriminate).
          repeat split; try lia. rewrite Z.add_mod, Fr5, Al2 by lia. reflexivity.
      + apply (mem_commit c s gh l _ (x_foff l) (st5 c (x_tid l) (msg_of l) (x_foff l) (x_rem l) (x_flags l)) fin M Hfree); [unfold cur; rewrite Hpc; reflexivity|].
        unfold after_xcommit. destruct (_ <=? 0); [apply cur_finish | reflexivity].
      + unfold gh'. rewrite <- Hhi. apply laidinv_add; try assumption; rewrite ?Hhi.
        * rewrite Hlen. rewrite ?HDR_32; lia.
        * rewrite Hlen. lia.
        * rewrite Htid. unfold xwf_slot. destruct (st6_fields (x_tid l) (msg_of l) (x_foff l) (x_rem l) (x_flags l)) as (A1 & A2 & A3 & A4 & A5).
          fold fin in A1, A2, A3, A4, A5. rewrite Hlen. repeat split; try assumption; try (rewrite ?HDR_32; lia).
    - (* XCPosLen: commit / abort of a claim *)
      rewrite (mem_cur c s gh l _ (cpre c l) M Hfree) by (unfold cur; rewrite Hpc; reflexivity).
      set (fin := set_len (cpre c l) (x_len l + HDR)).
      assert (Ecl : is_claim (x_item l) = true) by (destruct (is_claim (x_item l)) eqn:E; [reflexivity | specialize (I7 eq_refl); discriminate I7]).
      destruct (I6 Ecl ltac:(congruence)) as (Hcl1 & Hcl2). specialize (Hcl2 F).
      assert (Hfl : flen c (x_rem l) = x_len l + HDR) by (unfold flen, fbytes; lia).
      assert (Hlen : s_len fin = flen c (x_rem l)) by (rewrite Hfl; reflexivity).
      assert (Hsp : span c (Z.to_nat (x_rem l)) (x_rem l) = align (flen c (x_rem l)) FA) by (apply Sp2; unfold fbytes; lia).
      set (gh' := xg_add gh (x_idx l) (x_foff l) fin).
      assert (Hhi' : xg_hi gh' (x_idx l) = x_resoff l).
      { unfold gh'. cbn [xg_add xg_hi]. rewrite Z.eqb_refl, Hlen. lia. }
      assert (G' : xgeom c gh' (x_tbp l) (x_idx l) (x_tid l)) by (apply xgeom_add; assumption).
      split; [|split; [|split; [|reflexivity]]].
      + apply finish_inv; try assumption; try apply I2. rewrite Hhi'. symmetry. apply I12. reflexivity.
      + apply (mem_commit c s gh l _ (x_foff l) (cpre c l) fin M Hfree); [unfold cur; rewrite Hpc; reflexivity | apply cur_finish].
      + unfold gh'. rewrite <- Hhi. apply laidinv_add; try assumption; rewrite ?Hhi.
        * rewrite Hlen. rewrite ?HDR_32; lia.
        * rewrite Hlen. lia.
        * rewrite Htid. unfold xwf_slot. destruct (cpre_fields l) as (A1 & A2 & A3 & A4 & A5).
          rewrite Hlen. unfold fin. cbn [s_toff s_tid s_sess s_strm s_ver set_len]. repeat split; try assumption; try (rewrite ?HDR_32; lia). Qed.

  (* ---- every step of the exclusive publisher ---- *)
  Theorem xstep_inv s gh l t s' l' e : XPInv c gh l -> memok c s gh (Some l) -> laidinv c gh -> adm_xpub c l ->
    xstep c t s l = Some (s', l', e) ->
    XPInv c (xgstep c l gh) l' /\ memok c s' (xgstep c l gh) (Some l') /\ laidinv c (xgstep c l gh) /\ sh_subpos s' = sh_subpos s.
  Proof. intros I M L A Hstep.
    destruct (in_pad (x_pc l)) eqn:P; [eapply pad_steps; eauto|].
    destruct (in_frame (x_pc l)) eqn:F.
    - destruct (x_pc l) eqn:Hpc; try discriminate F;
        try (rewrite <- Hpc in *; eapply commit_steps; eauto; fail);
        (assert (E : xgstep c l gh = gh) by (unfold xgstep; rewrite Hpc; reflexivity); rewrite E;
         rewrite <- Hpc in *;
         destruct (frame_steps c W s gh l t s' l' e I M L F ltac:(congruence) ltac:(congruence) Hstep) as (X1 & X2 & X3); auto).
    - assert (E : xgstep c l gh = gh) by (unfold xgstep; destruct (x_pc l); try discriminate; reflexivity). rewrite E.
      destruct (idle_steps c W s gh l t s' l' e I M L A F P Hstep) as (X1 & X2 & X3). auto. Qed.
End P.
