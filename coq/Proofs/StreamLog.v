(* C01, part 2: `log_rep`, the relation between the three partitions of a log and the frames of the stream that
   are still of interest to the subscriber (the "live" terms klo..n), and its preservation by every kind of write
   a publisher or the driver performs; the subscriber's cursor and what one Image::poll does from it.
   Independent of the publisher flavour: only `part`, the term length and the session id of the log are used. *)
Require Import V.Base.MachineInt.
Require Import V.Generated.GenConsts.
Require Import V.Model.Descriptor.
Require Import V.Model.LogBase.
Require Import V.Model.Appender.
Require Import V.Model.Reader.
Require Import V.Model.Image.
Require Import V.Spec.Stream.
Require Import V.Proofs.DescriptorProofs.
Require Import V.Proofs.AppenderProofs.
Require Import V.Proofs.PublicationProofs.
Require Import V.Proofs.ReaderProofs.
Require Import V.Proofs.C05OracleProofs.
Require Import V.Proofs.C05Repeat.
Require Import V.Proofs.StreamFrames.
From Coq Require Import ZifyBool.
Open Scope Z_scope.

(* ---- small facts ---- *)
Lemma mod3_shift k d : 0 < d < 3 -> (k + d) mod 3 <> k mod 3.
Proof. intros Hd. pose proof (Z.div_mod k 3 ltac:(lia)). pose proof (Z.div_mod (k + d) 3 ltac:(lia)).
  pose proof (Z.mod_pos_bound k 3 ltac:(lia)). pose proof (Z.mod_pos_bound (k + d) 3 ltac:(lia)). lia. Qed.

Lemma mod3_neq a b : a <> b -> -3 < a - b < 3 -> a mod 3 <> b mod 3.
Proof. intros Hne Hd. destruct (Z_lt_le_dec a b).
  - replace b with (a + (b - a)) by ring. intros E. symmetry in E. revert E. apply mod3_shift. lia.
  - replace a with (b + (a - b)) by ring. apply mod3_shift. lia. Qed.

Definition spans_nn (t : term) : Prop := Forall (fun e => 0 <= entry_span e) t.

Lemma term_end_nn t : spans_nn t -> 0 <= term_end t.
Proof. induction 1; cbn [term_end]; lia. Qed.

Lemma term_truncate_whole t : spans_nn t -> term_truncate t (term_end t) = t.
Proof. induction t as [|e t IH]; intros H; [reflexivity|]. inversion H as [|? ? He Ht]; subst. cbn [term_truncate term_end].
  pose proof (term_end_nn t Ht). assert (E : (entry_span e <=? entry_span e + term_end t) = true) by lia. rewrite E.
  replace (entry_span e + term_end t - entry_span e) with (term_end t) by ring. rewrite IH by assumption. reflexivity. Qed.

Lemma term_put_tail t off es : term_end t = off -> spans_nn t -> term_put t off es = t ++ es.
Proof. intros <- H. unfold term_put. rewrite term_truncate_whole by assumption. rewrite Z.sub_diag. reflexivity. Qed.

Lemma entries_pos_nn t : entries_pos t -> spans_nn t.
Proof. intros H. eapply Forall_impl; [|exact H]. cbn. intros; lia. Qed.

Lemma term_update_tail g : forall a e r, entries_pos a -> term_update (a ++ e :: r) (term_end a) g = a ++ g e :: r.
Proof. induction a as [|x a IH]; intros e r H; cbn [app term_end term_update]; [reflexivity|].
  inversion H as [|? ? Hx Ha]; subst. pose proof (term_end_nn a (entries_pos_nn a Ha)).
  assert (E1 : (entry_span x + term_end a =? 0) = false) by lia. rewrite E1.
  assert (E2 : (entry_span x <=? entry_span x + term_end a) = true) by lia. rewrite E2.
  replace (entry_span x + term_end a - entry_span x) with (term_end a) by ring. rewrite IH by assumption. reflexivity. Qed.

Lemma span_sum_zero_nil fs : frames_pos fs -> span_sum fs = 0 -> fs = [].
Proof. intros H E. destruct fs as [|f r]; [reflexivity|]. apply frames_pos_inv in H as [A B]. cbn [span_sum] in E.
  pose proof (span_bounds f A). pose proof (span_sum_nonneg r B). lia. Qed.

Lemma firstn_full_span fs j : frames_pos fs -> (j <= length fs)%nat -> span_sum (firstn j fs) = span_sum fs -> skipn j fs = [].
Proof. intros H Hj E. rewrite <- (firstn_skipn j fs) in E at 2. rewrite span_sum_app in E.
  apply span_sum_zero_nil; [apply frames_pos_skipn; assumption|lia]. Qed.

(* ---- the representation ---- *)
Definition upd (F : Z -> list frame) (k : Z) (v : list frame) : Z -> list frame := fun x => if x =? k then v else F x.

Lemma upd_same F k v : upd F k v k = v. Proof. unfold upd. rewrite Z.eqb_refl. reflexivity. Qed.
Lemma upd_other F k v x : x <> k -> upd F k v x = F x.
Proof. intros H. unfold upd. assert (E : (x =? k) = false) by lia. rewrite E. reflexivity. Qed.

Definition pend_entries (pend : option frame) : term := match pend with Some f => [Claimed f] | None => [] end.
Definition pend_span (pend : option frame) : Z := match pend with Some f => span f | None => 0 end.

Section Rep.
Variables (n0 off0 : Z).
Hypothesis Hn0 : 0 <= n0.
Hypothesis Hoff0 : 0 <= off0.
Hypothesis Hoff0al : off0 mod 32 = 0.

(* offset at which term k begins to be described: the hand-over offset in the first term *)
Definition start (k : Z) : Z := if k =? n0 then off0 else 0.
Definition pre (k : Z) : term := if (k =? n0) && (0 <? off0) then [Unknown off0] else [].

Lemma term_end_pre k : term_end (pre k) = start k.
Proof. unfold pre, start. destruct (k =? n0); cbn [andb]; [|reflexivity].
  destruct (0 <? off0) eqn:E; cbn [term_end entry_span]; lia. Qed.
Lemma entries_pos_pre k : entries_pos (pre k).
Proof. unfold pre. destruct ((k =? n0) && (0 <? off0)) eqn:E; [|constructor]. constructor; [cbn; lia|constructor]. Qed.
Lemma start_nn k : 0 <= start k. Proof. unfold start. destruct (k =? n0); lia. Qed.
Lemma start_al k : start k mod 32 = 0. Proof. unfold start. destruct (k =? n0); [assumption|reflexivity]. Qed.
Lemma start_later k : n0 < k -> start k = 0.
Proof. intros H. unfold start. assert (E : (k =? n0) = false) by lia. rewrite E. reflexivity. Qed.
Lemma pre_later k : n0 < k -> pre k = [].
Proof. intros H. unfold pre. assert (E : (k =? n0) = false) by lia. rewrite E. reflexivity. Qed.

(* offset in term k of the boundary after its first j frames *)
Definition boff (F : Z -> list frame) (k : Z) (j : nat) : Z := start k + span_sum (firstn j (F k)).

(* the partition of term k while it is live *)
Definition term_image (F : Z -> list frame) (pend : option frame) (n k : Z) : term :=
  pre k ++ map Committed (F k) ++ (if k =? n then pend_entries pend else []).

Record log_rep (l : log) (n off : Z) (F : Z -> list frame) (pend : option frame) (klo : Z) : Prop := mkLogRep {
  lr_tl : exists bits, 10 <= bits <= 30 /\ l_tlen l = 2 ^ bits;
  lr_n : n0 <= n < two31;
  lr_ok : forall k, Forall (frame_ok (l_session l)) (F k);
  lr_empty : forall k, k < n0 \/ n < k -> F k = [];
  lr_full : forall k, n0 <= k < n -> start k + span_sum (F k) = l_tlen l;
  lr_tail : start n + span_sum (F n) + pend_span pend = off;
  lr_off : off <= l_tlen l;
  lr_pend : match pend with Some f => 32 <= f_len f | None => True end;
  lr_parts : forall k, klo <= k <= n -> part l (k mod 3) = term_image F pend n k;
  lr_klo : n0 <= klo <= n /\ n - 2 <= klo;
  lr_next : off = l_tlen l -> part l ((n + 1) mod 3) = []
}.

(* two logs that look the same to a reader *)
Definition same_view (l l' : log) : Prop :=
  l_tlen l' = l_tlen l /\ l_session l' = l_session l /\ forall i, 0 <= i < 3 -> part l' i = part l i.

Lemma same_view_refl l : same_view l l. Proof. repeat split. Qed.

Lemma log_rep_view l l' n off F pend klo : same_view l l' -> log_rep l n off F pend klo -> log_rep l' n off F pend klo.
Proof. intros (Ht & Hs & Hp) [TL A B C D E G H I J K]. constructor; rewrite ?Ht, ?Hs; auto.
  - intros k Hk. rewrite Hp by (apply Z.mod_pos_bound; lia). auto.
  - intros Ho. rewrite Hp by (apply Z.mod_pos_bound; lia). auto. Qed.

Lemma log_rep_raise l n off F pend klo klo' : klo <= klo' <= n -> log_rep l n off F pend klo -> log_rep l n off F pend klo'.
Proof. intros Hk [TL A B C D E G H I J K]. constructor; auto.
  - intros k Hk2. apply I. lia.
  - lia. Qed.

Lemma frames_pos_F l n off F pend klo k : log_rep l n off F pend klo -> frames_pos (F k).
Proof. intros H. eapply frames_ok_pos. apply (lr_ok _ _ _ _ _ _ H). Qed.

Lemma term_image_end F k :
  term_end (pre k ++ map Committed (F k)) = start k + span_sum (F k).
Proof. rewrite term_end_app, term_end_committed, term_end_pre. reflexivity. Qed.

Lemma term_image_pos F k : frames_pos (F k) -> entries_pos (pre k ++ map Committed (F k)).
Proof. intros H. apply entries_pos_app; [apply entries_pos_pre|apply entries_pos_committed; assumption]. Qed.

(* offsets are multiples of 32 *)
Lemma boff_al l n off F pend klo k j : log_rep l n off F pend klo -> boff F k j mod 32 = 0.
Proof. intros H. unfold boff. rewrite Z.add_mod, start_al by lia.
  rewrite (span_sum_mod32 (firstn j (F k))) by (apply frames_pos_firstn; eapply frames_pos_F; eassumption). reflexivity. Qed.

Lemma span_mod32 f : 1 <= f_len f -> span f mod 32 = 0.
Proof. intros H. apply (span_bounds f H). Qed.

Lemma off_al l n off F klo : log_rep l n off F None klo -> off mod 32 = 0.
Proof. intros H. rewrite <- (lr_tail _ _ _ _ _ _ H). cbn [pend_span]. rewrite Z.add_0_r.
  rewrite Z.add_mod, start_al by lia. rewrite (span_sum_mod32 (F n)) by (eapply frames_pos_F; eassumption). reflexivity. Qed.

(* ---- writes ---- *)
(* the publisher appends committed frames at the tail of the active term *)
Lemma log_rep_append l l' n off F klo fs req :
  log_rep l n off F None klo ->
  l_tlen l' = l_tlen l -> l_session l' = l_session l ->
  part l' (n mod 3) = term_put (part l (n mod 3)) off (map Committed fs) ->
  (forall i, 0 <= i < 3 -> i <> n mod 3 -> part l' i = part l i) ->
  Forall (frame_ok (l_session l)) fs -> span_sum fs = req -> off + req <= l_tlen l ->
  (off + req = l_tlen l -> part l ((n + 1) mod 3) = []) ->
  log_rep l' n (off + req) (upd F n (F n ++ fs)) None klo.
Proof. intros [TL A B C D E G H I J K] Ht Hs Hp Hoth Hok Hsp Hfit Hnext.
  assert (Hn3 : 0 <= n mod 3 < 3) by (apply Z.mod_pos_bound; lia).
  cbn [pend_span] in E. rewrite Z.add_0_r in E.
  constructor; rewrite ?Ht, ?Hs; auto.
  - intros k. unfold upd. destruct (k =? n) eqn:Ek; [|apply B]. apply Forall_app. split; [apply B|exact Hok].
  - intros k Hk. rewrite upd_other by lia. apply C. assumption.
  - intros k Hk. rewrite upd_other by lia. apply D. assumption.
  - rewrite upd_same, span_sum_app. cbn [pend_span]. lia.
  - intros k Hk. destruct (Z.eq_dec k n) as [-> | Hne].
    + rewrite Hp. rewrite (I n) by lia. unfold term_image. rewrite Z.eqb_refl, upd_same. cbn [pend_entries].
      rewrite !app_nil_r. rewrite term_put_tail.
      * rewrite map_app, app_assoc. reflexivity.
      * rewrite term_image_end; exact E.
      * apply entries_pos_nn, term_image_pos. eapply frames_ok_pos. apply B.
    + rewrite Hoth; [|apply Z.mod_pos_bound; lia|apply mod3_neq; lia]. rewrite (I k) by lia.
      unfold term_image. rewrite upd_other by assumption. reflexivity.
  - intros Ho. rewrite Hoth; [|apply Z.mod_pos_bound; lia|]. { apply Hnext. exact Ho. }
    replace (n + 1) with (n + 1) by ring. apply mod3_shift. lia. Qed.

(* try_claim lays a claimed frame at the tail *)
Lemma log_rep_claim l l' n off F klo f :
  log_rep l n off F None klo ->
  l_tlen l' = l_tlen l -> l_session l' = l_session l ->
  part l' (n mod 3) = term_put (part l (n mod 3)) off [Claimed f] ->
  (forall i, 0 <= i < 3 -> i <> n mod 3 -> part l' i = part l i) ->
  32 <= f_len f -> off + span f <= l_tlen l ->
  (off + span f = l_tlen l -> part l ((n + 1) mod 3) = []) ->
  log_rep l' n (off + span f) F (Some f) klo.
Proof. intros [TL A B C D E G H I J K] Ht Hs Hp Hoth Hlen Hfit Hnext.
  assert (Hn3 : 0 <= n mod 3 < 3) by (apply Z.mod_pos_bound; lia).
  cbn [pend_span] in E. rewrite Z.add_0_r in E.
  constructor; rewrite ?Ht, ?Hs; auto.
  - cbn [pend_span]. lia.
  - intros k Hk. destruct (Z.eq_dec k n) as [-> | Hne].
    + rewrite Hp. rewrite (I n) by lia. unfold term_image. rewrite Z.eqb_refl. cbn [pend_entries].
      rewrite !app_nil_r. rewrite term_put_tail.
      * rewrite <- app_assoc. reflexivity.
      * rewrite term_image_end; exact E.
      * apply entries_pos_nn, term_image_pos. eapply frames_ok_pos. apply B.
    + rewrite Hoth; [|apply Z.mod_pos_bound; lia|apply mod3_neq; lia]. rewrite (I k) by lia.
      unfold term_image. assert (Ek : (k =? n) = false) by lia. rewrite Ek. reflexivity.
  - intros Ho. rewrite Hoth; [|apply Z.mod_pos_bound; lia|]. { apply Hnext. exact Ho. } apply mod3_shift. lia. Qed.

(* commit / abort turn the claimed frame into a committed one *)
Lemma log_rep_resolve l l' n off F klo f g f' :
  log_rep l n off F (Some f) klo ->
  l_tlen l' = l_tlen l -> l_session l' = l_session l ->
  part l' (n mod 3) = term_update (part l (n mod 3)) (off - span f) g ->
  (forall i, 0 <= i < 3 -> i <> n mod 3 -> part l' i = part l i) ->
  g (Claimed f) = Committed f' -> frame_ok (l_session l) f' -> span f' = span f ->
  log_rep l' n off (upd F n (F n ++ [f'])) None klo.
Proof. intros [TL A B C D E G H I J K] Ht Hs Hp Hoth Hg Hok Hsp.
  assert (Hn3 : 0 <= n mod 3 < 3) by (apply Z.mod_pos_bound; lia).
  cbn [pend_span] in E.
  constructor; rewrite ?Ht, ?Hs; auto.
  - intros k. unfold upd. destruct (k =? n) eqn:Ek; [|apply B]. apply Forall_app. split; [apply B|]. constructor; [exact Hok|constructor].
  - intros k Hk. rewrite upd_other by lia. apply C. assumption.
  - intros k Hk. rewrite upd_other by lia. apply D. assumption.
  - rewrite upd_same, span_sum_app. cbn [pend_span span_sum]. lia.
  - intros k Hk. destruct (Z.eq_dec k n) as [-> | Hne].
    + rewrite Hp. rewrite (I n) by lia. unfold term_image. rewrite Z.eqb_refl, upd_same. cbn [pend_entries].
      rewrite app_assoc.
      replace (off - span f) with (term_end (pre n ++ map Committed (F n))).
      2:{ rewrite term_image_end; lia. }
      rewrite term_update_tail by (apply term_image_pos; eapply frames_ok_pos; apply B).
      rewrite Hg. rewrite map_app. cbn [map]. rewrite <- !app_assoc. reflexivity.
    + rewrite Hoth; [|apply Z.mod_pos_bound; lia|apply mod3_neq; lia]. rewrite (I k) by lia.
      unfold term_image. rewrite upd_other by assumption. assert (Ek : (k =? n) = false) by lia. rewrite Ek. reflexivity.
  - intros Ho. rewrite Hoth; [|apply Z.mod_pos_bound; lia|apply mod3_shift; lia]. apply K. exact Ho. Qed.

(* the end-of-term trip: padding from the tail to the end of the term (none when the term is exactly full), then the
   next partition becomes the active one *)
Lemma log_rep_trip l l' n off F klo pads :
  log_rep l n off F None klo ->
  l_tlen l' = l_tlen l -> l_session l' = l_session l ->
  part l' (n mod 3) = (if off <? l_tlen l then term_put (part l (n mod 3)) off (map Committed pads) else part l (n mod 3)) ->
  (forall i, 0 <= i < 3 -> i <> n mod 3 -> part l' i = part l i) ->
  (if off <? l_tlen l then exists p, pads = [p] /\ frame_ok (l_session l) p /\ span p = l_tlen l - off else pads = []) ->
  part l ((n + 1) mod 3) = [] -> n + 1 < two31 -> n - 1 <= klo ->
  log_rep l' (n + 1) 0 (upd F n (F n ++ pads)) None klo.
Proof. intros [TL A B C D E G H I J K] Ht Hs Hp Hoth Hpads Hnext Hn1 Hklo.
  assert (Hn3 : 0 <= n mod 3 < 3) by (apply Z.mod_pos_bound; lia).
  cbn [pend_span] in E. rewrite Z.add_0_r in E.
  assert (Hpok : Forall (frame_ok (l_session l)) pads /\ span_sum pads = l_tlen l - off).
  { destruct (off <? l_tlen l) eqn:Eo.
    - destruct Hpads as (p & -> & Hp1 & Hp2). split; [constructor; [exact Hp1|constructor]|]. cbn [span_sum]. lia.
    - subst pads. split; [constructor|]. cbn [span_sum]. lia. }
  destruct Hpok as [Hpok Hpsp].
  constructor; rewrite ?Ht, ?Hs; auto.
  - lia.
  - intros k. unfold upd. destruct (k =? n) eqn:Ek; [|apply B]. apply Forall_app. split; [apply B|exact Hpok].
  - intros k Hk. rewrite upd_other by lia. apply C. lia.
  - intros k Hk. destruct (Z.eq_dec k n) as [-> | Hne].
    + rewrite upd_same, span_sum_app. lia.
    + rewrite upd_other by assumption. apply D. lia.
  - rewrite upd_other by lia. rewrite (C (n + 1)) by lia. cbn [span_sum pend_span]. rewrite start_later by lia. reflexivity.
  - destruct TL as (bits & Hb & Hbits). pose proof (pow2_pos bits ltac:(lia)). lia.
  - intros k Hk. destruct (Z.eq_dec k (n + 1)) as [-> | Hne1].
    + rewrite Hoth; [|apply Z.mod_pos_bound; lia|apply mod3_shift; lia]. rewrite Hnext.
      unfold term_image. rewrite Z.eqb_refl, upd_other by lia. rewrite (C (n + 1)) by lia. rewrite pre_later by lia. reflexivity.
    + destruct (Z.eq_dec k n) as [-> | Hne].
      * rewrite Hp. rewrite (I n) by lia. unfold term_image. rewrite Z.eqb_refl, upd_same. cbn [pend_entries].
        assert (En : (n =? n + 1) = false) by lia. rewrite En. rewrite !app_nil_r.
        destruct (off <? l_tlen l) eqn:Eo.
        -- rewrite term_put_tail.
           ++ rewrite map_app, app_assoc. reflexivity.
           ++ rewrite term_image_end; exact E.
           ++ apply entries_pos_nn, term_image_pos. eapply frames_ok_pos. apply B.
        -- subst pads. rewrite ?app_nil_r. reflexivity.
      * rewrite Hoth; [|apply Z.mod_pos_bound; lia|apply mod3_neq; lia]. rewrite (I k) by lia.
        unfold term_image. rewrite upd_other by assumption.
        assert (Ek : (k =? n) = false) by lia. assert (Ek1 : (k =? n + 1) = false) by lia. rewrite Ek, Ek1. reflexivity.
  - lia.
  - intros Ho. exfalso. destruct TL as (bits & Hb & Hbits). pose proof (pow2_pos bits ltac:(lia)). lia. Qed.

(* the driver zeroes a partition that holds no live term *)
Lemma log_rep_clean l l' n off F pend klo i :
  log_rep l n off F pend klo -> l_tlen l' = l_tlen l -> l_session l' = l_session l ->
  0 <= i < 3 -> part l' i = [] -> (forall j, 0 <= j < 3 -> j <> i -> part l' j = part l j) ->
  (forall k, klo <= k <= n -> i <> k mod 3) ->
  log_rep l' n off F pend klo.
Proof. intros [TL A B C D E G H I J K] Ht Hs Hi Hp Hoth Hlive. constructor; rewrite ?Ht, ?Hs; auto.
  - intros k Hk. rewrite Hoth; [apply I; assumption|apply Z.mod_pos_bound; lia|]. intros Eq. apply (Hlive k Hk). congruence.
  - intros Ho. destruct (Z.eq_dec ((n + 1) mod 3) i) as [-> | Hne]; [exact Hp|].
    rewrite Hoth; [apply K; assumption|apply Z.mod_pos_bound; lia|assumption]. Qed.

(* ---- the subscriber's cursor ---- *)
Definition rest (F : Z -> list frame) (k : Z) (j : nat) : list frame := skipn j (F k) ++ F (k + 1) ++ F (k + 2).

Record cursor_rep (l : log) (F : Z -> list frame) (im : image) (k : Z) (j : nat) : Prop := mkCursorRep {
  cr_j : (j <= length (F k))%nat;
  cr_pos : im_pos im = k * l_tlen l + boff F k j;
  cr_open : im_closed im = false
}.

Lemma cursor_rep_view l l' F im k j : l_tlen l' = l_tlen l -> cursor_rep l F im k j -> cursor_rep l' F im k j.
Proof. intros Ht [A B C]. constructor; rewrite ?Ht; auto. Qed.

(* appending to the active term does not move the cursor *)
Lemma cursor_rep_upd l F im k j n fs : k <= n -> cursor_rep l F im k j -> cursor_rep l (upd F n (F n ++ fs)) im k j.
Proof. intros Hk [A B C]. destruct (Z.eq_dec k n) as [-> | Hne].
  - constructor; auto.
    + rewrite upd_same, app_length. lia.
    + rewrite B. unfold boff. rewrite upd_same. rewrite firstn_app. replace (j - length (F n))%nat with 0%nat by lia.
      cbn [firstn]. rewrite app_nil_r. reflexivity.
  - constructor; auto.
    + rewrite upd_other by assumption. exact A.
    + rewrite B. unfold boff. rewrite upd_other by assumption. reflexivity. Qed.

Lemma rest_upd F n fs k j : k <= n <= k + 2 -> (forall x, n < x -> F x = []) -> (j <= length (F k))%nat ->
  rest (upd F n (F n ++ fs)) k j = rest F k j ++ fs.
Proof. intros Hk He Hj. unfold rest.
  assert (Hc : n = k \/ n = k + 1 \/ n = k + 2) by lia. destruct Hc as [-> | [-> | ->]].
  - rewrite upd_same, !upd_other by lia. rewrite (He (k + 1)), (He (k + 2)) by lia. rewrite !app_nil_r.
    rewrite skipn_app. replace (j - length (F k))%nat with 0%nat by lia. reflexivity.
  - rewrite upd_same, !upd_other by lia. rewrite (He (k + 2)) by lia. rewrite !app_nil_r, app_assoc. reflexivity.
  - rewrite upd_same, !upd_other by lia. rewrite !app_assoc. reflexivity. Qed.

Lemma boff_le l n off F pend klo k j : log_rep l n off F pend klo -> n0 <= k <= n -> boff F k j <= l_tlen l.
Proof. intros H Hk. pose proof (frames_pos_F _ _ _ _ _ _ k H) as Hp. unfold boff.
  pose proof (span_sum_firstn_le j (F k) Hp). destruct (Z.eq_dec k n) as [-> | Hne].
  - pose proof (lr_tail _ _ _ _ _ _ H). pose proof (lr_off _ _ _ _ _ _ H). pose proof (lr_pend _ _ _ _ _ _ H) as Hpe.
    assert (0 <= pend_span pend). { destruct pend as [f|]; cbn [pend_span]; [|lia]. pose proof (span_bounds f ltac:(lia)). lia. }
    lia.
  - pose proof (lr_full _ _ _ _ _ _ H k ltac:(lia)). lia. Qed.

(* a cursor at the very end of a completed term is the cursor at the start of the next one *)
Lemma cursor_norm l n off F pend k j im :
  log_rep l n off F pend k -> cursor_rep l F im k j ->
  exists k' j', k <= k' <= n /\ log_rep l n off F pend k' /\ cursor_rep l F im k' j' /\ rest F k' j' = rest F k j /\
    (boff F k' j' < l_tlen l \/ (k' = n /\ boff F n j' = l_tlen l /\ off = l_tlen l /\ pend = None /\ skipn j' (F n) = [])).
Proof. intros Hlr Hcr. pose proof (lr_klo _ _ _ _ _ _ Hlr) as [Hk1 Hk2].
  pose proof (boff_le _ _ _ _ _ _ k j Hlr Hk1) as Hle. pose proof (frames_pos_F _ _ _ _ _ _ k Hlr) as Hp.
  destruct (Z_lt_le_dec (boff F k j) (l_tlen l)) as [Hlt | Hge].
  - exists k, j. split; [lia|]. split; [assumption|]. split; [assumption|]. split; [reflexivity|]. left. assumption.
  - assert (Hb : boff F k j = l_tlen l) by lia. destruct (Z.eq_dec k n) as [-> | Hne].
    + exists n, j. split; [lia|]. split; [assumption|]. split; [assumption|]. split; [reflexivity|]. right.
      pose proof (lr_tail _ _ _ _ _ _ Hlr) as Ht. pose proof (lr_off _ _ _ _ _ _ Hlr) as Ho. pose proof (lr_pend _ _ _ _ _ _ Hlr) as Hpe.
      pose proof (span_sum_firstn_le j (F n) Hp) as Hs. unfold boff in Hb.
      assert (Hps : 0 <= pend_span pend). { destruct pend as [f|]; cbn [pend_span]; [|lia]. pose proof (span_bounds f ltac:(lia)). lia. }
      split; [reflexivity|]. split; [exact Hb|]. split; [lia|]. split.
      * destruct pend as [f|]; [|reflexivity]. cbn [pend_span] in *. pose proof (span_bounds f ltac:(lia)). lia.
      * apply firstn_full_span; [assumption|apply (cr_j _ _ _ _ _ Hcr)|lia].
    + pose proof (lr_full _ _ _ _ _ _ Hlr k ltac:(lia)) as Hfull. unfold boff in Hb.
      assert (Hsk : skipn j (F k) = []) by (apply firstn_full_span; [assumption|apply (cr_j _ _ _ _ _ Hcr)|lia]).
      exists (k + 1), 0%nat. split; [lia|]. split; [apply (log_rep_raise l n off F pend k); [lia|assumption]|].
      split; [|split].
      * constructor; [lia| |apply (cr_open _ _ _ _ _ Hcr)]. rewrite (cr_pos _ _ _ _ _ Hcr). unfold boff. cbn [firstn span_sum].
        rewrite (start_later (k + 1)) by lia. lia.
      * unfold rest. rewrite Hsk. cbn [skipn app]. replace (k + 1 + 1) with (k + 2) by ring.
        replace (k + 1 + 2) with (k + 3) by ring. rewrite (lr_empty _ _ _ _ _ _ Hlr (k + 3)) by lia. rewrite app_nil_r. reflexivity.
      * left. unfold boff. cbn [firstn span_sum]. rewrite start_later by lia.
        destruct (lr_tl _ _ _ _ _ _ Hlr) as (bits & Hbt & Hbits). pose proof (pow2_pos bits ltac:(lia)). lia. Qed.

(* ---- one Image::poll ---- *)
(* C05's sel_spec without the bound on the term count: the partition index is (position / term length) mod 3 whatever the
   term count is - also at the very end of the position space, term count 2^31 *)
Lemma sel_spec_any l bits pos :
  l_tlen l = 2 ^ bits -> 0 <= bits <= 31 -> 0 <= pos ->
  sel l pos = Ok (view (part l ((pos / 2 ^ bits) mod 3)) (pos mod 2 ^ bits), pos mod 2 ^ bits).
Proof. intros Htl Hb Hp. unfold sel, term_offset_of_pos, Image.bits_of. rewrite Htl.
  rewrite land_mask by lia. rewrite Z.log2_pow2 by lia.
  pose proof (pow2_pos bits ltac:(lia)) as H2.
  assert (Hq : 0 <= pos / 2 ^ bits) by (apply Z.div_pos; lia).
  assert (Hm : 0 <= (pos / 2 ^ bits) mod 3 < 3) by (apply Z.mod_pos_bound; lia).
  assert (Hi : index_by_position pos bits = (pos / 2 ^ bits) mod 3).
  { unfold index_by_position, shr64, PARTITION_COUNT, GenConsts.PARTITION_COUNT. rewrite rem3_nonneg by assumption.
    apply wrap32_id. unfold in_i32, two31. lia. }
  rewrite Hi. unfold PARTITION_COUNT, GenConsts.PARTITION_COUNT.
  assert (Hc : (0 <=? (pos / 2 ^ bits) mod 3) && ((pos / 2 ^ bits) mod 3 <? 3) = true) by lia.
  rewrite Hc. reflexivity. Qed.

Lemma read_loop_prefix cap limit : forall fs off n, frames_pos fs ->
  exists q, (q <= length fs)%nat /\
    read_loop cap limit fs off n =
      (off + span_sum (firstn q fs), n + Z.of_nat (length (data_of (place off (firstn q fs)))), data_of (place off (firstn q fs))) /\
    (q = 0%nat -> n < limit -> off < cap -> fs = []).
Proof. induction fs as [|f r IH]; intros off n Hp; rewrite read_loop_eq.
  - exists 0%nat. cbn [firstn span_sum place data_of filter length]. split; [lia|]. split; [|auto].
    destruct ((n <? limit) && (off <? cap)); repeat (try lia; f_equal).
  - apply frames_pos_inv in Hp as [Hf Hr]. destruct ((n <? limit) && (off <? cap)) eqn:Ec.
    + cbv zeta. destruct (is_pad f) eqn:Epad.
      * destruct (IH (off + span f) n Hr) as (q & Hq & He & _). exists (S q). split; [cbn [length]; lia|]. split; [|discriminate].
        rewrite He. cbn [firstn span_sum place]. unfold data_of. cbn [filter snd]. rewrite Epad. cbn [negb].
        repeat (try lia; f_equal).
      * destruct (IH (off + span f) (n + 1) Hr) as (q & Hq & He & _). exists (S q). split; [cbn [length]; lia|]. split; [|discriminate].
        rewrite He. cbn [firstn span_sum place]. unfold data_of. cbn [filter snd]. rewrite Epad. cbn [negb length].
        repeat (try lia; f_equal).
    + exists 0%nat. cbn [firstn span_sum place data_of filter length]. split; [lia|]. split; [repeat (try lia; f_equal)|].
      intros _ H1 H2. lia. Qed.

Lemma view_nil off : view [] off = []. Proof. reflexivity. Qed.

Lemma poll_spec l n off F pend k j im limit :
  log_rep l n off F pend k -> cursor_rep l F im k j ->
  (boff F k j < l_tlen l \/ (k = n /\ boff F n j = l_tlen l /\ off = l_tlen l /\ pend = None /\ skipn j (F n) = [])) ->
  exists j' ws im',
    let ds := data_of (place (boff F k j) (firstn (j' - j) (skipn j (F k)))) in
    image_poll l im limit = Ok (Ok (Z.of_nat (length ds)), ds, ws, im') /\
    (j <= j' <= length (F k))%nat /\ cursor_rep l F im' k j' /\ im_session im' = im_session im /\
    (0 < limit -> im_pos im' = im_pos im -> k = n /\ skipn j (F n) = []).
Proof. intros Hlr Hcr Hnorm. destruct Hcr as [Hj Hpos Hopen].
  destruct (lr_tl _ _ _ _ _ _ Hlr) as (bits & Hbt & Hbits). pose proof (pow2_pos bits ltac:(lia)) as H2.
  pose proof (lr_klo _ _ _ _ _ _ Hlr) as [Hk1 Hk2]. pose proof (lr_n _ _ _ _ _ _ Hlr) as Hn.
  pose proof (frames_pos_F _ _ _ _ _ _ k Hlr) as Hp.
  assert (Hb0 : 0 <= boff F k j).
  { unfold boff. pose proof (start_nn k). pose proof (span_sum_nonneg _ (frames_pos_firstn j (F k) Hp)). lia. }
  unfold image_poll. rewrite Hopen.
  destruct Hnorm as [Hlt | (-> & Hb & Ho & -> & Hsk)].
  - (* inside term k *)
    assert (Hdiv : im_pos im / 2 ^ bits = k).
    { rewrite Hpos, Hbits. symmetry. apply Z.div_unique with (boff F k j); lia. }
    assert (Hmod : im_pos im mod 2 ^ bits = boff F k j).
    { rewrite Hpos, Hbits. symmetry. apply Z.mod_unique with k; lia. }
    assert (Hkt : 0 <= k * l_tlen l) by (rewrite Hbits; nia).
    rewrite (sel_spec_any l bits (im_pos im)); [|assumption|lia|rewrite Hpos; lia].
    cbn [bind]. rewrite Hdiv, Hmod. rewrite (lr_parts _ _ _ _ _ _ Hlr k) by lia. unfold term_image.
    assert (Hview : view (pre k ++ map Committed (F k) ++ (if k =? n then pend_entries pend else [])) (boff F k j) = skipn j (F k)).
    { pose proof (view_at (pre k) (F k) (if k =? n then pend_entries pend else []) (length (F k)) j) as V.
      rewrite firstn_all in V. unfold boundary_off in V. rewrite term_end_pre in V. unfold boff. rewrite V.
      - apply firstn_all2. rewrite skipn_length. lia.
      - apply entries_pos_pre.
      - assumption.
      - destruct (k =? n); [|reflexivity]. destruct pend; reflexivity.
      - assumption. }
    rewrite Hview. unfold term_read.
    destruct (read_loop_prefix (l_tlen l) limit (skipn j (F k)) (boff F k j) 0 (frames_pos_skipn j (F k) Hp)) as (q & Hq & He & Hprog).
    rewrite He. rewrite skipn_length in Hq.
    set (cons := firstn q (skipn j (F k))) in *.
    assert (Hcs : 0 <= span_sum cons) by (apply span_sum_nonneg, frames_pos_firstn, frames_pos_skipn; assumption).
    assert (Hboff' : boff F k (j + q) = boff F k j + span_sum cons).
    { unfold boff, cons. rewrite firstn_add, span_sum_app. lia. }
    exists (j + q)%nat. replace (j + q - j)%nat with q by lia. fold cons.
    eexists. eexists. split; [reflexivity|]. split; [lia|]. split; [|split].
    + replace (boff F k j + span_sum cons - boff F k j) with (span_sum cons) by ring.
      destruct (im_pos im + span_sum cons >? im_pos im) eqn:Eg; unfold after_writes; cbn [last]; constructor; cbn [im_pos im_closed set_pos]; auto; try lia.
    + unfold after_writes, set_pos. destruct (_ >? _); reflexivity.
    + intros Hlim Hsame.
      replace (boff F k j + span_sum cons - boff F k j) with (span_sum cons) in Hsame by ring.
      assert (Hz : span_sum cons = 0).
      { unfold after_writes in Hsame. destruct (im_pos im + span_sum cons >? im_pos im) eqn:Eg; cbn [last set_pos im_pos] in Hsame; lia. }
      assert (Hq0 : q = 0%nat).
      { assert (Hc : cons = []) by (apply span_sum_zero_nil; [apply frames_pos_firstn, frames_pos_skipn; assumption|assumption]).
        unfold cons in Hc. destruct q; [reflexivity|]. destruct (skipn j (F k)) eqn:Es; [|discriminate].
        apply (f_equal (@length _)) in Es. rewrite skipn_length in Es. cbn [length] in Es. lia. }
      assert (Hnil : skipn j (F k) = []) by (apply Hprog; [assumption|lia|rewrite Hbits; lia]).
      destruct (Z.eq_dec k n) as [-> | Hne]; [split; [reflexivity|assumption]|]. exfalso.
      pose proof (lr_full _ _ _ _ _ _ Hlr k ltac:(lia)) as Hfull. unfold boff in Hlt.
      assert (Hjl : j = length (F k)).
      { assert (length (skipn j (F k)) = 0%nat) by (rewrite Hnil; reflexivity). rewrite skipn_length in H. lia. }
      rewrite Hjl, firstn_all in Hlt. lia.
  - (* at the very end of the exactly full active term: the next partition is still zero *)
    assert (Hpn : im_pos im = (n + 1) * 2 ^ bits) by (rewrite Hpos, Hb, Hbits; ring).
    assert (Hdiv : im_pos im / 2 ^ bits = n + 1) by (rewrite Hpn; apply Z.div_mul; lia).
    assert (Hmod : im_pos im mod 2 ^ bits = 0) by (rewrite Hpn; apply Z.mod_mul; lia).
    rewrite (sel_spec_any l bits (im_pos im)); [|assumption|lia|rewrite Hpn; nia].
    cbn [bind]. rewrite Hdiv, Hmod. rewrite (lr_next _ _ _ _ _ _ Hlr Ho). rewrite view_nil.
    unfold term_read. rewrite read_loop_eq.
    exists j. rewrite Nat.sub_diag. cbn [firstn place data_of filter length]. eexists. eexists.
    split.
    { destruct ((0 <? limit) && (0 <? l_tlen l)); rewrite Z.sub_diag, Z.add_0_r;
        assert (Eg : (im_pos im >? im_pos im) = false) by lia; rewrite Eg; reflexivity. }
    split; [lia|]. split; [constructor; cbn; auto|]. split; [reflexivity|]. intros _ _. split; [reflexivity|assumption]. Qed.
End Rep.
