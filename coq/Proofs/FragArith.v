(* The frames one offer writes: stages of a frame slot between the writer's accesses, the list of
   (offset, final slot) of all fragments of a message, its extent (= the bytes claimed by get_and_add). *)
Require Import V.Base.MachineInt.
Require Import V.Generated.GenConsts.
Require Import V.Model.LogBase.
Require Import V.Model.Descriptor.
Require Import V.Proofs.DescriptorProofs.
Require Import V.Model.Sched.
Require Import V.Model.AppenderThreads.
Require Import V.Proofs.TailArith.
From Coq Require Import ZifyBool.
Open Scope Z_scope.

Definition zlen (m : list Z) : Z := Z.of_nat (length m).

Record wf_cfg (c : cfg) : Prop := {
  wf_init : in_i32 (c_init c) = true;
  wf_bits : 5 <= c_bits c <= 30;
  wf_mtu : 64 <= c_mtu c /\ c_mtu c mod 32 = 0;
  wf_n0 : 0 <= c_n0 c <= GB;
  wf_off0 : 0 <= c_off0 c <= TL c /\ c_off0 c mod 32 = 0
}.

Lemma HDR_32 : HDR = 32. Proof. reflexivity. Qed.
Lemma FA_32 : FA = 32. Proof. reflexivity. Qed.

Lemma TL_bounds c : wf_cfg c -> 32 <= TL c <= 1073741824 /\ TL c mod 32 = 0.
Proof. intros W. destruct (wf_bits c W) as [H1 H2]. unfold TL. split.
  - split.
    + change 32 with (2 ^ 5). apply Z.pow_le_mono_r; lia.
    + change 1073741824 with (2 ^ 30). apply Z.pow_le_mono_r; lia.
  - replace (c_bits c) with (5 + (c_bits c - 5)) by ring. rewrite Z.pow_add_r by lia.
    change (2 ^ 5) with 32. rewrite Z.mul_comm. apply Z_mod_mult. Qed.

Lemma mp_pos c : wf_cfg c -> 32 <= max_payload c /\ max_payload c + HDR = c_mtu c.
Proof. intros W. destruct (wf_mtu c W). unfold max_payload. rewrite HDR_32. lia. Qed.

Lemma align_mult v : 0 <= v -> v mod 32 = 0 -> align v 32 = v.
Proof. intros Hv Hm. unfold align. apply Z.mod_divide in Hm; [|lia]. destruct Hm as [q ->].
  replace (q * 32 + (32 - 1)) with (31 + q * 32) by ring. rewrite Z.div_add by lia.
  replace (31 / 32) with 0 by reflexivity. ring. Qed.

Lemma align_pos v : 0 <= v -> v <= align v 32 < v + 32 /\ align v 32 mod 32 = 0.
Proof. apply align_ge. Qed.

(* ---- one fragment ---- *)
Section Frag.
  Variable c : cfg.
  Variable tid : Z.
  Variable msg : list Z.

  Definition fbytes (rem : Z) : Z := Z.min rem (max_payload c).
  Definition flen (rem : Z) : Z := fbytes rem + HDR.
  Definition fbody (rem : Z) : list Z := firstn (Z.to_nat (fbytes rem)) (skipn (Z.to_nat (zlen msg - rem)) msg).
  Definition fflags (rem fl : Z) : Z := if rem <=? max_payload c then Z.lor fl F_END else fl.

  (* contents of the slot after k of the writer's accesses to it *)
  Definition st1 (rem : Z) : slot := set_len zslot (- flen rem).
  Definition st2 (foff rem : Z) : slot := set_hdr c (st1 rem) foff tid.
  Definition st3 (foff rem : Z) : slot := set_body (st2 foff rem) (fbody rem).
  Definition st4 (foff rem fl : Z) : slot :=
    if is_fragmented c (zlen msg) then set_flags (st3 foff rem) (fflags rem fl) else st3 foff rem.
  Definition st5 (foff rem fl : Z) : slot := set_resv (st4 foff rem fl) 0.
  Definition st6 (foff rem fl : Z) : slot := set_len (st5 foff rem fl) (flen rem).       (* committed *)

  (* padding frame at off *)
  Definition pd1 (off : Z) : slot := set_len zslot (- (TL c - off)).
  Definition pd2 (off : Z) : slot := set_hdr c (pd1 off) off tid.
  Definition pd3 (off : Z) : slot := set_type (pd2 off) T_PAD.
  Definition pd4 (off : Z) : slot := set_len (pd3 off) (TL c - off).                    (* committed *)

  (* all fragments from loop state (foff, rem, fl) *)
  Fixpoint frags_from (fuel : nat) (foff rem fl : Z) : list (Z * slot) :=
    let rem' := rem - fbytes rem in
    if rem' <=? 0 then [(foff, st6 foff rem fl)]
    else match fuel with
         | O => [(foff, st6 foff rem fl)]
         | S f => (foff, st6 foff rem fl) :: frags_from f (foff + align (flen rem) FA) rem' 0
         end.

  Fixpoint span (fuel : nat) (rem : Z) : Z :=
    let rem' := rem - fbytes rem in
    if rem' <=? 0 then align (flen rem) FA
    else match fuel with
         | O => align (flen rem) FA
         | S f => align (flen rem) FA + span f rem'
         end.
End Frag.

Lemma frags_from_fuel c tid msg : 1 <= max_payload c -> forall f1 f2 foff rem fl,
  (Z.to_nat rem <= f1)%nat -> (Z.to_nat rem <= f2)%nat ->
  frags_from c tid msg f1 foff rem fl = frags_from c tid msg f2 foff rem fl.
Proof. intros Hmp. induction f1 as [|f1 IH]; intros f2 foff rem fl H1 H2.
  - cbn [frags_from]. destruct (rem - fbytes c rem <=? 0) eqn:E.
    + destruct f2; cbn [frags_from]; rewrite E; reflexivity.
    + unfold fbytes in E. lia.
  - cbn [frags_from]. destruct (rem - fbytes c rem <=? 0) eqn:E.
    + destruct f2; cbn [frags_from]; rewrite E; reflexivity.
    + destruct f2 as [|f2]; [unfold fbytes in E; lia|]. cbn [frags_from]. rewrite E. f_equal.
      apply IH; unfold fbytes in *; lia. Qed.

Lemma span_fuel c : 1 <= max_payload c -> forall f1 f2 rem,
  (Z.to_nat rem <= f1)%nat -> (Z.to_nat rem <= f2)%nat -> span c f1 rem = span c f2 rem.
Proof. intros Hmp. induction f1 as [|f1 IH]; intros f2 rem H1 H2.
  - cbn [span]. destruct (rem - fbytes c rem <=? 0) eqn:E.
    + destruct f2; cbn [span]; rewrite E; reflexivity.
    + unfold fbytes in E. lia.
  - cbn [span]. destruct (rem - fbytes c rem <=? 0) eqn:E.
    + destruct f2; cbn [span]; rewrite E; reflexivity.
    + destruct f2 as [|f2]; [unfold fbytes in E; lia|]. cbn [span]. rewrite E. f_equal.
      apply IH; unfold fbytes in *; lia. Qed.

(* unfolding one iteration of the fragment loop *)
Lemma frags_from_step c tid msg foff rem fl : 1 <= max_payload c ->
  frags_from c tid msg (Z.to_nat rem) foff rem fl =
  (foff, st6 c tid msg foff rem fl) ::
  (if rem - fbytes c rem <=? 0 then []
   else frags_from c tid msg (Z.to_nat (rem - fbytes c rem)) (foff + align (flen c rem) FA) (rem - fbytes c rem) 0).
Proof. intros Hmp. destruct (rem - fbytes c rem <=? 0) eqn:E.
  - destruct (Z.to_nat rem); cbn [frags_from]; rewrite E; reflexivity.
  - destruct (Z.to_nat rem) as [|f] eqn:F; [unfold fbytes in E; lia|].
    cbn [frags_from]. rewrite E. f_equal. apply frags_from_fuel; unfold fbytes in *; lia. Qed.

Lemma span_step c rem : 1 <= max_payload c ->
  span c (Z.to_nat rem) rem =
  align (flen c rem) FA + (if rem - fbytes c rem <=? 0 then 0 else span c (Z.to_nat (rem - fbytes c rem)) (rem - fbytes c rem)).
Proof. intros Hmp. destruct (rem - fbytes c rem <=? 0) eqn:E.
  - destruct (Z.to_nat rem); cbn [span]; rewrite E; lia.
  - destruct (Z.to_nat rem) as [|f] eqn:F; [unfold fbytes in E; lia|].
    cbn [span]. rewrite E. f_equal. apply span_fuel; unfold fbytes in *; lia. Qed.

Lemma span_pos c : wf_cfg c -> forall f rem, 0 <= rem -> 32 <= span c f rem /\ span c f rem mod 32 = 0.
Proof. intros W. pose proof (mp_pos c W) as [Hmp _].
  assert (A : forall rem, 0 <= rem -> 32 <= align (flen c rem) FA /\ align (flen c rem) FA mod 32 = 0).
  { intros rem Hr. rewrite FA_32. unfold flen, fbytes. rewrite HDR_32.
    pose proof (align_pos (Z.min rem (max_payload c) + 32) ltac:(lia)). lia. }
  induction f as [|f IH]; intros rem Hr; cbn [span].
  - destruct (_ <=? 0); apply A; assumption.
  - destruct (rem - fbytes c rem <=? 0) eqn:E; [apply A; assumption|].
    destruct (A rem Hr) as [A1 A2]. destruct (IH (rem - fbytes c rem)) as [I1 I2]; [unfold fbytes in *; lia|].
    split; [lia|]. rewrite Z.add_mod by lia. rewrite A2, I2. reflexivity. Qed.

(* every fragment lies inside [foff, foff + span) and the fragments are laid out back to back *)
Inductive laid (c : cfg) : Z -> list (Z * slot) -> Z -> Prop :=
| laid_nil o : laid c o [] o
| laid_cons o sl r e : 0 < s_len sl -> laid c (o + align (s_len sl) FA) r e -> laid c o ((o, sl) :: r) e.

Lemma st6_len c tid msg foff rem fl : s_len (st6 c tid msg foff rem fl) = flen c rem.
Proof. reflexivity. Qed.

Lemma frags_from_laid c tid msg : wf_cfg c -> forall f foff rem fl, 0 <= rem -> (Z.to_nat rem <= f)%nat ->
  laid c foff (frags_from c tid msg f foff rem fl) (foff + span c f rem).
Proof. intros W. pose proof (mp_pos c W) as [Hmp _].
  induction f as [|f IH]; intros foff rem fl Hr Hf; cbn [frags_from span].
  - destruct (_ <=? 0); (constructor; [rewrite st6_len; unfold flen, fbytes; rewrite HDR_32; lia | rewrite st6_len; constructor]).
  - destruct (rem - fbytes c rem <=? 0) eqn:E.
    + constructor; [rewrite st6_len; unfold flen, fbytes; rewrite HDR_32; lia | rewrite st6_len; constructor].
    + constructor; [rewrite st6_len; unfold flen, fbytes; rewrite HDR_32; lia |].
      rewrite st6_len. rewrite Z.add_assoc. apply IH; unfold fbytes in *; lia. Qed.

Lemma laid_bounds c o l e : laid c o l e -> o <= e /\ forall x sl, In (x, sl) l -> o <= x /\ x + align (s_len sl) FA <= e /\ 0 < s_len sl.
Proof. induction 1 as [o | o sl r e Hl Hr IH].
  - split; [lia | intros x sl []].
  - pose proof (align_pos (s_len sl) ltac:(lia)) as [A _]. rewrite FA_32 in *. destruct IH as [I1 I2]. split; [lia|].
    intros x sl' [Heq | Hin].
    + inversion Heq; subst. lia.
    + destruct (I2 x sl' Hin) as (? & ? & ?). pose proof (align_pos (s_len sl') ltac:(lia)). lia. Qed.

(* the extent of all fragments is what offer claims with get_and_add *)
Lemma span_required c n : wf_cfg c -> 0 <= n -> span c (Z.to_nat n) n = required c n.
Proof. intros W Hn. pose proof (mp_pos c W) as [Hmp Hmtu]. destruct (wf_mtu c W) as [Hm1 Hm2].
  unfold required, is_fragmented.
  destruct (max_payload c <? n) eqn:E.
  - (* fragmented: strong induction on n *)
    assert (G : forall k, (0 <= k)%nat -> forall rem, 1 <= rem -> Z.to_nat rem = k ->
                span c (Z.to_nat rem) rem =
                (rem / max_payload c) * (max_payload c + HDR) +
                (if 0 <? rem mod max_payload c then align (rem mod max_payload c + HDR) FA else 0)).
    { intros k _. induction k as [k IHk] using lt_wf_ind. intros rem Hr Hk.
      rewrite span_step by lia. unfold flen, fbytes.
      destruct (Z_le_gt_dec rem (max_payload c)) as [Hle | Hgt].
      - rewrite Z.min_l by lia. replace (rem - rem <=? 0) with true by lia.
        destruct (Z.eq_dec rem (max_payload c)) as [-> | Hne].
        + rewrite Z_div_same_full by lia. rewrite Z_mod_same_full. cbn [Z.ltb].
          replace (0 <? 0) with false by reflexivity. rewrite Hmtu. rewrite FA_32, align_mult by lia. lia.
        + rewrite Z.div_small by lia. rewrite Z.mod_small by lia. replace (0 <? rem) with true by lia. lia.
      - rewrite Z.min_r by lia. replace (rem - max_payload c <=? 0) with false by lia.
        rewrite (IHk (Z.to_nat (rem - max_payload c))); try lia.
        assert (D : rem / max_payload c = (rem - max_payload c) / max_payload c + 1).
        { rewrite <- Z.div_add by lia. f_equal. ring. }
        assert (M : rem mod max_payload c = (rem - max_payload c) mod max_payload c).
        { rewrite <- (Z_mod_plus_full (rem - max_payload c) 1 (max_payload c)). f_equal. ring. }
        rewrite D, M. rewrite Hmtu, FA_32, align_mult by lia. ring. }
    apply (G (Z.to_nat n)); lia.
  - rewrite span_step by lia. unfold flen, fbytes. rewrite Z.min_l by lia.
    replace (n - n <=? 0) with true by lia. lia. Qed.

Lemma required_pos c n : wf_cfg c -> 0 <= n -> 32 <= required c n /\ required c n mod 32 = 0.
Proof. intros W Hn. rewrite <- span_required by assumption. apply span_pos; assumption. Qed.
