(* Proofs about Model/BufferBuilder.v: the growth loop always ends and returns the capacity the growth rule prescribes;
   appending never loses a byte; what a debug build and a release build do beyond the capacities whose growth step fits
   in an i32. *)
Require Import V.Base.MachineInt.
Require Import V.Base.MachineInt2.
Require Import V.Generated.GenConsts.
Require Import V.Generated.GenBufferBuilder.
Require Import V.Model.LogBase.
Require Import V.Model.BufferBuilder.
From Coq Require Import ZifyBool Lia.
Open Scope Z_scope.

(* the numbers read from the source (K1); when they change these proofs have to be looked at again *)
Lemma bb_consts : BB_MAX_CAPACITY = 2147483639 /\ BB_MIN_CAPACITY = 64 /\ BB_GROW_SHIFT = 1 /\ HDR = 32.
Proof. repeat split; reflexivity. Qed.

Ltac bbc := pose proof bb_consts as (?Hmax & ?Hmin & ?Hshift & ?Hhdr).

(* ---- one growth step ---- *)
Lemma grow_spec_eq c : grow_spec c = Z.min 2147483639 (c + c / 2).
Proof. unfold grow_spec. bbc. rewrite Hmax, Hshift. reflexivity. Qed.

Lemma grow_spec_ge c : 0 <= c <= BB_MAX_CAPACITY -> c <= grow_spec c <= BB_MAX_CAPACITY.
Proof. rewrite grow_spec_eq. bbc. intros H. assert (0 <= c / 2) by (apply Z.div_pos; lia). lia. Qed.

Lemma grow_spec_gt c : 2 <= c < BB_MAX_CAPACITY -> c < grow_spec c.
Proof. rewrite grow_spec_eq. bbc. intros H. assert (1 <= c / 2) by (apply Z.div_le_lower_bound; lia). lia. Qed.

Lemma grow_spec_mono a b : a <= b -> grow_spec a <= grow_spec b.
Proof. rewrite !grow_spec_eq. intros H. assert (a / 2 <= b / 2) by (apply Z.div_le_mono; lia). lia. Qed.

Lemma grow_iter_S k c : grow_iter (S k) c = grow_iter k (grow_spec c).
Proof. reflexivity. Qed.

Lemma grow_iter_mono k : forall a b, a <= b -> grow_iter k a <= grow_iter k b.
Proof. induction k; intros a b H; cbn [grow_iter]; [assumption|]. apply IHk. apply grow_spec_mono. assumption. Qed.

Lemma grow_iter_range k : forall c, 0 <= c <= BB_MAX_CAPACITY -> c <= grow_iter k c <= BB_MAX_CAPACITY.
Proof. induction k; intros c H; cbn [grow_iter]; [lia|]. pose proof (grow_spec_ge c H). specialize (IHk (grow_spec c)). lia. Qed.

(* the middle of the loop body: which capacity the iteration continues with *)
Definition fsc_next (capacity nc : Z) : outcome Z :=
  if (nc <? capacity) || (nc >? BB_MAX_CAPACITY)
  then (if capacity =? BB_MAX_CAPACITY then Err IllegalState else Ok BB_MAX_CAPACITY)
  else Ok nc.

Lemma fsc_S m f c r :
  fsc m (S f) c r = (nc <- grow_once m c ;; c' <- fsc_next c nc ;; if c' >=? r then Ok c' else fsc m f c' r).
Proof. reflexivity. Qed.

Lemma wrap32_high z : 2147483648 <= z < 4294967296 -> wrap32 z = z - 4294967296.
Proof. intros H. unfold wrap32, two31, two32.
  assert (E : (z + 2147483648) mod 4294967296 = z - 2147483648) by (symmetry; apply (Z.mod_unique _ _ 1); lia).
  rewrite E. lia. Qed.

(* a growth step either panics (debug build, the sum does not fit in an i32) or continues with grow_spec - except at
   MAX, where the loop gives up *)
Lemma grow_once_cases m c : 0 <= c <= BB_MAX_CAPACITY ->
  (grow_once m c = Panic /\ m = Debug /\ BB_SAFE < c) \/
  (exists nc, grow_once m c = Ok nc /\
     fsc_next c nc = if c =? BB_MAX_CAPACITY then Err IllegalState else Ok (grow_spec c)).
Proof. intros Hc. unfold grow_once, add32, chk32, shr32. bbc. rewrite Hshift. change (2 ^ 1) with 2.
  assert (Hd : 0 <= c / 2 <= c) by (split; [apply Z.div_pos; lia|apply Z.div_le_upper_bound; lia]).
  assert (Hd2 : 2 * (c / 2) <= c <= 2 * (c / 2) + 1) by (pose proof (Z.div_mod c 2 ltac:(lia)); pose proof (Z.mod_pos_bound c 2 ltac:(lia)); lia).
  destruct (in_i32 (c + c / 2)) eqn:Ei.
  - right. exists (c + c / 2). split; [reflexivity|]. unfold fsc_next. rewrite grow_spec_eq, Hmax.
    unfold in_i32, two31 in Ei.
    destruct (c =? 2147483639) eqn:Em; [exfalso; assert (c = 2147483639) by lia; subst c; change (2147483639 / 2) with 1073741819 in *; lia|].
    destruct ((c + c / 2 <? c) || (c + c / 2 >? 2147483639)) eqn:Eb.
    + f_equal. lia.
    + f_equal. lia.
  - unfold in_i32, two31 in Ei. destruct m.
    + left. unfold BB_SAFE. repeat split. lia.
    + right. exists (wrap32 (c + c / 2)). split; [reflexivity|]. unfold fsc_next. rewrite grow_spec_eq, Hmax.
      rewrite wrap32_high by lia.
      assert (Eb : (c + c / 2 - 4294967296 <? c) || (c + c / 2 - 4294967296 >? 2147483639) = true) by lia. rewrite Eb.
      destruct (c =? 2147483639); [reflexivity|]. f_equal. lia. Qed.

(* no overflow up to BB_SAFE: both builds continue with grow_spec *)
Lemma grow_once_safe m c : 0 <= c <= BB_SAFE ->
  exists nc, grow_once m c = Ok nc /\ fsc_next c nc = Ok (grow_spec c).
Proof. intros Hc. bbc. unfold BB_SAFE in Hc.
  destruct (grow_once_cases m c ltac:(lia)) as [(_ & _ & H)|(nc & H1 & H2)]; [unfold BB_SAFE in H; lia|].
  exists nc. split; [assumption|]. rewrite H2. assert (E : c =? BB_MAX_CAPACITY = false) by lia. rewrite E. reflexivity. Qed.

(* ---- soundness: whatever the loop returns is the first capacity of the growth sequence that suffices ---- *)
Definition prescribed (c r c' : Z) : Prop :=
  exists k, (1 <= k)%nat /\ c' = grow_iter k c /\ r <= c' /\ (forall j, (1 <= j < k)%nat -> grow_iter j c < r).

Lemma prescribed_step c r c' : grow_spec c < r -> prescribed (grow_spec c) r c' -> prescribed c r c'.
Proof. intros Hlt (k & Hk & He & Hr & Hmin). exists (S k). split; [lia|]. split; [exact He|]. split; [exact Hr|].
  intros j Hj. destruct j as [|j]; [lia|]. rewrite grow_iter_S. destruct j as [|j]; [exact Hlt|]. apply Hmin. lia. Qed.

Lemma prescribed_first c r : r <= grow_spec c -> prescribed c r (grow_spec c).
Proof. intros H. exists 1%nat. split; [lia|]. split; [reflexivity|]. split; [exact H|]. intros j Hj. lia. Qed.

Theorem fsc_sound m : forall fuel c r c', 0 <= c <= BB_MAX_CAPACITY ->
  fsc m fuel c r = Ok c' -> prescribed c r c'.
Proof. induction fuel as [|f IH]; intros c r c' Hc H; [discriminate|]. rewrite fsc_S in H.
  destruct (grow_once_cases m c Hc) as [(Hp & _)|(nc & H1 & H2)]; [rewrite Hp in H; discriminate|].
  rewrite H1 in H. cbn [bind] in H. rewrite H2 in H.
  destruct (c =? BB_MAX_CAPACITY); [discriminate|]. cbn [bind] in H.
  destruct (grow_spec c >=? r) eqn:Er.
  - inversion H; subst. apply prescribed_first. lia.
  - apply prescribed_step; [lia|]. pose proof (grow_spec_ge c Hc) as Hg. apply (IH (grow_spec c) r c'); [lia|exact H]. Qed.

(* ---- the loop ends: no capacity >= 2 makes it run out of fuel ---- *)
Lemma grow_iter_2_max : BB_MAX_CAPACITY <= grow_iter 94 2.
Proof. vm_compute. discriminate. Qed.

Lemma fsc_no_hang_gen m r : forall fuel c L, 0 <= L <= c -> c <= BB_MAX_CAPACITY -> BB_MAX_CAPACITY <= grow_iter fuel L ->
  fsc m (S fuel) c r <> Hang.
Proof. induction fuel as [|f IH]; intros c L HL Hc Hreach; rewrite fsc_S.
  - cbn [grow_iter] in Hreach. assert (c = BB_MAX_CAPACITY) by lia. subst c.
    destruct (grow_once_cases m BB_MAX_CAPACITY ltac:(bbc; lia)) as [(Hp & _)|(nc & H1 & H2)]; [rewrite Hp; discriminate|].
    rewrite H1. cbn [bind]. rewrite H2, Z.eqb_refl. discriminate.
  - destruct (grow_once_cases m c ltac:(lia)) as [(Hp & _)|(nc & H1 & H2)]; [rewrite Hp; discriminate|].
    rewrite H1. cbn [bind]. rewrite H2. destruct (c =? BB_MAX_CAPACITY); [discriminate|]. cbn [bind].
    destruct (grow_spec c >=? r); [discriminate|].
    apply (IH (grow_spec c) (grow_spec L)).
    + split; [pose proof (grow_spec_ge L); bbc; rewrite grow_spec_eq in *; assert (0 <= L / 2) by (apply Z.div_pos; lia); lia
             |apply grow_spec_mono; lia].
    + apply (grow_spec_ge c). lia.
    + rewrite <- grow_iter_S. exact Hreach. Qed.

Theorem fsc_terminates m c r : 2 <= c <= BB_MAX_CAPACITY -> find_suitable_capacity m c r <> Hang.
Proof. intros Hc. unfold find_suitable_capacity, FSC_FUEL. apply (fsc_no_hang_gen m r 95 c 2); try lia.
  change (grow_iter 95 2) with (grow_iter 94 (grow_spec 2)).
  eapply Z.le_trans; [apply grow_iter_2_max|]. apply grow_iter_mono. vm_compute. discriminate. Qed.

(* why the minimum capacity matters: with a capacity of 0 or 1 the growth step is the identity and the loop never ends
   (this was the defect repaired by fixes/C20-buffer-builder-min-capacity.diff) *)
Theorem fsc_loops_below_2 m c r : 0 <= c <= 1 -> c < r -> forall fuel, fsc m fuel c r = Hang.
Proof. intros Hc Hr. induction fuel as [|f IH]; [reflexivity|]. rewrite fsc_S.
  assert (Hg : grow_once m c = Ok c).
  { unfold grow_once, add32, chk32, shr32. bbc. rewrite Hshift. assert (c / 2 ^ 1 = 0) by (apply Z.div_small; lia).
    rewrite H, Z.add_0_r. assert (E : in_i32 c = true) by (unfold in_i32, two31; lia). rewrite E. reflexivity. }
  rewrite Hg. cbn [bind]. unfold fsc_next. bbc.
  assert (E : (c <? c) || (c >? BB_MAX_CAPACITY) = false) by lia. rewrite E. cbn [bind].
  assert (E2 : c >=? r = false) by lia. rewrite E2. exact IH. Qed.

(* ---- completeness up to BB_SAFE + 1: both builds return the prescribed capacity ---- *)
Lemma fsc_ok_gen m r : r <= BB_SAFE + 1 -> forall fuel c L, 0 <= L <= c -> c < r -> BB_MAX_CAPACITY <= grow_iter fuel L ->
  exists c', fsc m fuel c r = Ok c'.
Proof. intros Hr. induction fuel as [|f IH]; intros c L HL Hc Hreach.
  - cbn [grow_iter] in Hreach. bbc. unfold BB_SAFE in Hr. lia.
  - rewrite fsc_S. destruct (grow_once_safe m c ltac:(lia)) as (nc & H1 & H2). rewrite H1. cbn [bind]. rewrite H2. cbn [bind].
    destruct (grow_spec c >=? r) eqn:Er; [eexists; reflexivity|].
    apply (IH (grow_spec c) (grow_spec L)).
    + split; [bbc; rewrite grow_spec_eq; assert (0 <= L / 2) by (apply Z.div_pos; lia); lia|apply grow_spec_mono; lia].
    + lia.
    + rewrite <- grow_iter_S. exact Hreach. Qed.

Theorem fsc_complete m c r : 2 <= c -> c < r -> r <= BB_SAFE + 1 ->
  exists c', find_suitable_capacity m c r = Ok c' /\ prescribed c r c'.
Proof. intros Hc Hlt Hr. unfold find_suitable_capacity, FSC_FUEL.
  destruct (fsc_ok_gen m r Hr 96 c 2 ltac:(lia) Hlt) as (c' & He).
  { change (grow_iter 96 2) with (grow_iter 94 (grow_spec (grow_spec 2))).
    eapply Z.le_trans; [apply grow_iter_2_max|]. apply grow_iter_mono. vm_compute. discriminate. }
  exists c'. split; [exact He|]. assert (Hcr : 0 <= c <= BB_MAX_CAPACITY) by (bbc; unfold BB_SAFE in Hr; lia).
  apply (fsc_sound m _ _ _ _ Hcr He). Qed.

(* ---- beyond BB_SAFE: a release build clamps to MAX and finally reports MaxCapacityReached; a debug build panics on the
   overflowing sum instead.  Whatever a debug build returns, a release build returns too. ---- *)
Theorem fsc_debug_refines : forall fuel c r,
  fsc Debug fuel c r = Panic \/ fsc Debug fuel c r = fsc Release fuel c r.
Proof. induction fuel as [|f IH]; intros c r; [right; reflexivity|]. rewrite !fsc_S.
  unfold grow_once, add32, chk32. destruct (in_i32 (c + shr32 c BB_GROW_SHIFT)); [|left; reflexivity]. cbn [bind].
  destruct (fsc_next c (c + shr32 c BB_GROW_SHIFT)) as [c'| | | |]; cbn [bind]; try (right; reflexivity).
  destruct (c' >=? r); [right; reflexivity|]. apply IH. Qed.

Lemma fsc_release_max_gen r : BB_MAX_CAPACITY < r -> forall fuel c L, 0 <= L <= c -> c <= BB_MAX_CAPACITY ->
  BB_MAX_CAPACITY <= grow_iter fuel L -> fsc Release (S fuel) c r = Err IllegalState.
Proof. intros Hr. induction fuel as [|f IH]; intros c L HL Hc Hreach; rewrite fsc_S;
    (destruct (grow_once_cases Release c ltac:(lia)) as [(_ & Hm & _)|(nc & H1 & H2)]; [discriminate|]);
    rewrite H1; cbn [bind]; rewrite H2.
  - cbn [grow_iter] in Hreach. assert (E : c =? BB_MAX_CAPACITY = true) by lia. rewrite E. reflexivity.
  - destruct (c =? BB_MAX_CAPACITY) eqn:Em; [reflexivity|]. cbn [bind].
    pose proof (grow_spec_ge c ltac:(lia)) as Hg.
    assert (E : grow_spec c >=? r = false) by lia. rewrite E.
    apply (IH (grow_spec c) (grow_spec L)).
    + split; [bbc; rewrite grow_spec_eq; assert (0 <= L / 2) by (apply Z.div_pos; lia); lia|apply grow_spec_mono; lia].
    + lia.
    + rewrite <- grow_iter_S. exact Hreach. Qed.

Theorem fsc_release_beyond_max c r : 2 <= c <= BB_MAX_CAPACITY -> BB_MAX_CAPACITY < r ->
  find_suitable_capacity Release c r = Err IllegalState.
Proof. intros Hc Hr. unfold find_suitable_capacity, FSC_FUEL. apply (fsc_release_max_gen r Hr 95 c 2); try lia.
  change (grow_iter 95 2) with (grow_iter 94 (grow_spec 2)).
  eapply Z.le_trans; [apply grow_iter_2_max|]. apply grow_iter_mono. vm_compute. discriminate. Qed.

Lemma fsc_release_ok_gen r : r <= BB_MAX_CAPACITY -> forall fuel c L, 0 <= L <= c -> c < r -> BB_MAX_CAPACITY <= grow_iter fuel L ->
  exists c', fsc Release fuel c r = Ok c'.
Proof. intros Hr. induction fuel as [|f IH]; intros c L HL Hc Hreach.
  - cbn [grow_iter] in Hreach. lia.
  - rewrite fsc_S. destruct (grow_once_cases Release c ltac:(lia)) as [(_ & Hm & _)|(nc & H1 & H2)]; [discriminate|].
    rewrite H1. cbn [bind]. rewrite H2. assert (E : c =? BB_MAX_CAPACITY = false) by lia. rewrite E. cbn [bind].
    destruct (grow_spec c >=? r) eqn:Er; [eexists; reflexivity|].
    apply (IH (grow_spec c) (grow_spec L)).
    + split; [bbc; rewrite grow_spec_eq; assert (0 <= L / 2) by (apply Z.div_pos; lia); lia|apply grow_spec_mono; lia].
    + lia.
    + rewrite <- grow_iter_S. exact Hreach. Qed.

Theorem fsc_release_complete c r : 2 <= c -> c < r -> r <= BB_MAX_CAPACITY ->
  exists c', find_suitable_capacity Release c r = Ok c' /\ prescribed c r c'.
Proof. intros Hc Hlt Hr. unfold find_suitable_capacity, FSC_FUEL.
  destruct (fsc_release_ok_gen r Hr 96 c 2 ltac:(lia) Hlt) as (c' & He).
  { change (grow_iter 96 2) with (grow_iter 94 (grow_spec (grow_spec 2))).
    eapply Z.le_trans; [apply grow_iter_2_max|]. apply grow_iter_mono. vm_compute. discriminate. }
  exists c'. split; [exact He|]. assert (Hcr : 0 <= c <= BB_MAX_CAPACITY) by lia. apply (fsc_sound Release _ _ _ _ Hcr He). Qed.

(* a debug build cannot grow past BB_SAFE: the step from a capacity in (BB_SAFE, MAX] overflows *)
Theorem fsc_debug_panics_above_safe c r fuel : BB_SAFE < c <= BB_MAX_CAPACITY -> fsc Debug (S fuel) c r = Panic.
Proof. intros Hc. rewrite fsc_S. unfold grow_once, add32, chk32, shr32. bbc. rewrite Hshift. change (2 ^ 1) with 2.
  unfold BB_SAFE in Hc. assert (715827883 <= c / 2) by (apply Z.div_le_lower_bound; lia).
  assert (E : in_i32 (c + c / 2) = false) by (unfold in_i32, two31; lia). rewrite E. reflexivity. Qed.

(* ------------------------------------------------------------------------------------------------------------ *)
(* the memory: appending never loses a byte, growing keeps what has been appended *)

Definition bb_ok (b : bb) : Prop := HDR <= bb_limit b <= bb_cap b /\ 2 <= bb_cap b <= BB_MAX_CAPACITY.

(* the first n bytes of the allocation *)
Definition mem_prefix (mem : list Z) (n : Z) : list Z := firstn (Z.to_nat n) (pad_to n mem).

Lemma pad_to_length n mem : length (pad_to n mem) = Nat.max (length mem) (Z.to_nat n).
Proof. unfold pad_to. rewrite app_length, repeat_length. lia. Qed.

Lemma mem_prefix_length mem n : length (mem_prefix mem n) = Z.to_nat n.
Proof. unfold mem_prefix. rewrite firstn_length, pad_to_length. lia. Qed.

Lemma firstn_app_le {A} n (a b : list A) : (n <= length a)%nat -> firstn n (a ++ b) = firstn n a.
Proof. intros H. rewrite firstn_app. replace (n - length a)%nat with 0%nat by lia. cbn [firstn]. apply app_nil_r. Qed.

Lemma skipn_app_le {A} n (a b : list A) : (n <= length a)%nat -> skipn n (a ++ b) = skipn n a ++ b.
Proof. intros H. rewrite skipn_app. replace (n - length a)%nat with 0%nat by lia. reflexivity. Qed.

Lemma content_prefix b : HDR <= bb_limit b -> bb_content b = skipn (Z.to_nat HDR) (mem_prefix (bb_mem b) (bb_limit b)).
Proof. intros H. bbc. unfold bb_content, mem_read, mem_prefix. rewrite firstn_skipn_comm.
  replace (HDR + (bb_limit b - HDR)) with (bb_limit b) by lia.
  replace (Z.to_nat HDR + Z.to_nat (bb_limit b - HDR))%nat with (Z.to_nat (bb_limit b)) by lia. reflexivity. Qed.

Lemma content_length b : HDR <= bb_limit b -> Z.of_nat (length (bb_content b)) = bb_limit b - HDR.
Proof. intros H. bbc. rewrite content_prefix by assumption. rewrite skipn_length, mem_prefix_length. lia. Qed.

(* growing: a zeroed allocation receives the first `limit` bytes *)
Lemma mem_prefix_idem mem n : 0 <= n -> mem_prefix (mem_prefix mem n) n = mem_prefix mem n.
Proof. intros H. unfold mem_prefix at 1. unfold pad_to. rewrite mem_prefix_length, Nat.sub_diag. cbn [repeat]. rewrite app_nil_r.
  apply firstn_all2. rewrite mem_prefix_length. lia. Qed.

(* writing at `off`: the first off bytes stay, then come the new bytes *)
Lemma mem_write_prefix mem off bytes : 0 <= off ->
  mem_prefix (mem_write mem off bytes) (off + Z.of_nat (length bytes)) = mem_prefix mem off ++ bytes.
Proof. intros H. unfold mem_write. fold (mem_prefix mem off). unfold mem_prefix at 1. unfold pad_to at 1.
  replace (Z.to_nat (off + Z.of_nat (length bytes))) with (length (mem_prefix mem off ++ bytes))
    by (rewrite app_length, mem_prefix_length; lia).
  set (P := mem_prefix mem off). set (R := skipn (Z.to_nat off + length bytes) mem).
  set (Zs := repeat 0 (length (P ++ bytes) - length (P ++ bytes ++ R))).
  replace ((P ++ bytes ++ R) ++ Zs) with ((P ++ bytes) ++ (R ++ Zs)) by (rewrite <- !app_assoc; reflexivity).
  rewrite firstn_app_le by lia. apply firstn_all. Qed.

Lemma skipn_hdr_app mem off bytes : HDR <= off ->
  skipn (Z.to_nat HDR) (mem_prefix mem off ++ bytes) = skipn (Z.to_nat HDR) (mem_prefix mem off) ++ bytes.
Proof. intros H. bbc. apply skipn_app_le. rewrite mem_prefix_length. lia. Qed.

(* ---- ensure_capacity ---- *)
Theorem ensure_spec m b add b' : bb_ok b -> 0 <= add -> bb_ensure m b add = Ok b' ->
  bb_limit b' = bb_limit b /\ bb_content b' = bb_content b /\ bb_limit b + add <= bb_cap b' /\ bb_cap b' <= BB_MAX_CAPACITY /\
  (bb_limit b + add <= bb_cap b -> b' = b) /\
  (bb_cap b < bb_limit b + add -> prescribed (bb_cap b) (bb_limit b + add) (bb_cap b') /\
                                  bb_mem b' = mem_prefix (bb_mem b) (bb_limit b)).
Proof. intros ((Hl1 & Hl2) & Hc1 & Hc2) Hadd H. bbc. unfold bb_ensure in H.
  assert (E1 : (bb_limit b <? 0) || (add <? 0) = false) by lia. rewrite E1 in H.
  destruct (in_i32 (bb_limit b + add)) eqn:Ei; cbn [negb] in H; [|destruct m; discriminate].
  destruct (bb_limit b + add >? bb_cap b) eqn:Eg.
  - destruct (find_suitable_capacity m (bb_cap b) (bb_limit b + add)) as [nc| | | |] eqn:Ef; try discriminate.
    cbn [bind] in H. inversion H; subst b'. cbn [bb_limit bb_cap bb_mem].
    assert (Hcr : 0 <= bb_cap b <= BB_MAX_CAPACITY) by lia. unfold find_suitable_capacity in Ef.
    pose proof (fsc_sound m _ _ _ _ Hcr Ef) as Hp. pose proof Hp as (k & Hk & Hnc & Hr & _).
    pose proof (grow_iter_range k (bb_cap b) ltac:(lia)) as Hrange.
    split; [reflexivity|]. split.
    + rewrite !content_prefix by (cbn [bb_limit]; lia). cbn [bb_limit bb_mem]. fold (mem_prefix (bb_mem b) (bb_limit b)).
      rewrite mem_prefix_idem by lia. reflexivity.
    + split; [lia|]. split; [lia|]. split; [lia|]. intros _. split; [exact Hp|reflexivity].
  - inversion H; subst b'. repeat split; try reflexivity; try lia. Qed.

(* ---- append ---- *)
Theorem append_spec m b bytes b' : bb_ok b -> bb_append m b bytes = Ok b' ->
  bb_ok b' /\ bb_limit b' = bb_limit b + Z.of_nat (length bytes) /\
  bb_content b' = bb_content b ++ bytes /\
  (bb_limit b + Z.of_nat (length bytes) <= bb_cap b -> bb_cap b' = bb_cap b) /\
  (bb_cap b < bb_limit b + Z.of_nat (length bytes) ->
     prescribed (bb_cap b) (bb_limit b + Z.of_nat (length bytes)) (bb_cap b')).
Proof. intros Hok H. pose proof Hok as ((Hl1 & Hl2) & Hc1 & Hc2). bbc. unfold bb_append in H.
  set (len := Z.of_nat (length bytes)) in *. assert (Hlen : 0 <= len) by lia.
  destruct (bb_ensure m b len) as [b1| | | |] eqn:Ee; try discriminate. cbn [bind] in H.
  destruct (ensure_spec m b len b1 Hok Hlen Ee) as (E1 & E2 & E3 & E4 & E5 & E6).
  unfold add32, chk32 in H. assert (Ei : in_i32 (bb_limit b1 + len) = true) by (unfold in_i32, two31; lia).
  rewrite Ei in H. cbn [bind] in H. inversion H; subst b'. cbn [bb_limit bb_cap bb_mem].
  assert (Hcap1 : 2 <= bb_cap b1).
  { destruct (Z_le_gt_dec (bb_limit b + len) (bb_cap b)) as [Hle|Hgt]; [rewrite (E5 Hle); lia|lia]. }
  split; [unfold bb_ok; cbn [bb_limit bb_cap]; lia|]. split; [lia|]. split.
  - rewrite content_prefix by (cbn [bb_limit]; lia). cbn [bb_limit bb_mem]. unfold len.
    rewrite mem_write_prefix by lia. rewrite skipn_hdr_app by lia. rewrite <- content_prefix by lia. rewrite E2. reflexivity.
  - split; [intros Hle; rewrite (E5 Hle); reflexivity|]. intros Hgt. apply (proj1 (E6 Hgt)). Qed.

(* it succeeds, in a debug build and in a release build alike, while the new limit stays within BB_SAFE + 1
   (about 1.43e9 bytes); a release build goes on up to MAX *)
Theorem append_succeeds m b bytes : bb_ok b -> bb_limit b + Z.of_nat (length bytes) <= BB_SAFE + 1 ->
  exists b', bb_append m b bytes = Ok b'.
Proof. intros ((Hl1 & Hl2) & Hc1 & Hc2) Hs. bbc. unfold BB_SAFE in Hs. unfold bb_append, bb_ensure.
  set (len := Z.of_nat (length bytes)) in *. assert (Hlen : 0 <= len) by lia.
  assert (E1 : (bb_limit b <? 0) || (len <? 0) = false) by lia. rewrite E1.
  assert (Ei : in_i32 (bb_limit b + len) = true) by (unfold in_i32, two31; lia). rewrite Ei. cbn [negb].
  assert (Hadd : add32 m (bb_limit b) len = Ok (bb_limit b + len)) by (unfold add32, chk32; rewrite Ei; reflexivity).
  destruct (bb_limit b + len >? bb_cap b) eqn:Eg.
  - destruct (fsc_complete m (bb_cap b) (bb_limit b + len) ltac:(lia) ltac:(lia) ltac:(unfold BB_SAFE; lia)) as (c' & Hf & _).
    rewrite Hf. cbn [bind bb_limit]. rewrite Hadd. cbn [bind]. eexists. reflexivity.
  - cbn [bind]. rewrite Hadd. cbn [bind]. eexists. reflexivity. Qed.

Theorem append_succeeds_release b bytes : bb_ok b -> bb_limit b + Z.of_nat (length bytes) <= BB_MAX_CAPACITY ->
  exists b', bb_append Release b bytes = Ok b'.
Proof. intros ((Hl1 & Hl2) & Hc1 & Hc2) Hs. bbc. unfold bb_append, bb_ensure.
  set (len := Z.of_nat (length bytes)) in *. assert (Hlen : 0 <= len) by lia.
  assert (E1 : (bb_limit b <? 0) || (len <? 0) = false) by lia. rewrite E1.
  assert (Ei : in_i32 (bb_limit b + len) = true) by (unfold in_i32, two31; lia). rewrite Ei. cbn [negb].
  assert (Hadd : add32 Release (bb_limit b) len = Ok (bb_limit b + len)) by (unfold add32, chk32; rewrite Ei; reflexivity).
  destruct (bb_limit b + len >? bb_cap b) eqn:Eg.
  - destruct (fsc_release_complete (bb_cap b) (bb_limit b + len) ltac:(lia) ltac:(lia) ltac:(lia)) as (c' & Hf & _).
    rewrite Hf. cbn [bind bb_limit]. rewrite Hadd. cbn [bind]. eexists. reflexivity.
  - cbn [bind]. rewrite Hadd. cbn [bind]. eexists. reflexivity. Qed.

(* never an endless loop, whatever is appended *)
Theorem append_never_hangs m b bytes : bb_ok b -> bb_append m b bytes <> Hang.
Proof. intros ((Hl1 & Hl2) & Hc1 & Hc2). unfold bb_append, bb_ensure.
  destruct ((bb_limit b <? 0) || (Z.of_nat (length bytes) <? 0)); [discriminate|].
  destruct (in_i32 (bb_limit b + Z.of_nat (length bytes))); cbn [negb]; [|destruct m; discriminate].
  destruct (bb_limit b + Z.of_nat (length bytes) >? bb_cap b).
  - pose proof (fsc_terminates m (bb_cap b) (bb_limit b + Z.of_nat (length bytes)) ltac:(lia)) as Hn.
    destruct (find_suitable_capacity m (bb_cap b) (bb_limit b + Z.of_nat (length bytes))); cbn [bind]; try discriminate; try contradiction.
    unfold add32, chk32. cbn [bb_limit]. destruct (in_i32 (bb_limit b + Z.of_nat (length bytes))); [discriminate|destruct m; discriminate].
  - cbn [bind]. unfold add32, chk32. destruct (in_i32 (bb_limit b + Z.of_nat (length bytes))); [discriminate|destruct m; discriminate]. Qed.

(* ---- new / reset ---- *)
Lemma fill_below_range v : 0 <= v -> v <= fill_below v < 2 * v + 1.
Proof. intros H. unfold fill_below. destruct (v <? 0) eqn:E1; [lia|]. destruct (v =? 0) eqn:E2; [lia|].
  pose proof (Z.log2_spec v ltac:(lia)) as [A B]. rewrite Z.pow_succ_r in B by (apply Z.log2_nonneg).
  replace (Z.log2 v + 1) with (Z.succ (Z.log2 v)) by lia. rewrite Z.pow_succ_r by (apply Z.log2_nonneg). lia. Qed.

Lemma wrap32_pow2_all : forallb (fun n => wrap32 (2 ^ Z.of_nat n) <=? 1073741824) (seq 0 63) = true.
Proof. vm_compute. reflexivity. Qed.

Lemma wrap32_pow2 k : 0 <= k <= 62 -> wrap32 (2 ^ k) <= 1073741824.
Proof. intros H. pose proof wrap32_pow2_all as Ha. rewrite forallb_forall in Ha.
  specialize (Ha (Z.to_nat k)). rewrite Z2Nat.id in Ha by lia. apply Z.leb_le. apply Ha. apply in_seq. lia. Qed.

(* find_next_power_of_two_i64 returns 0, a power of two, or (release build, above 2^62) i64::MIN: as an i32 at most 2^30 *)
Lemma next_pow2_cap m n p : next_pow2_i64 m n = Ok p -> wrap32 p <= 1073741824.
Proof. unfold next_pow2_i64, sub64, add64, chk64. intros H.
  assert (Hv : forall v, in_i64 v = true -> forall q, (if in_i64 (fill_below v + 1) then Ok (fill_below v + 1)
                          else match m with Debug => Panic | Release => Ok (wrap64 (fill_below v + 1)) end) = Ok q ->
                          wrap32 q <= 1073741824).
  { intros v Hi q Hq. unfold in_i64, two63 in Hi. unfold fill_below in Hq.
    destruct (v <? 0) eqn:E1; [cbn in Hq; inversion Hq; subst; vm_compute; discriminate|].
    destruct (v =? 0) eqn:E2; [cbn in Hq; inversion Hq; subst; vm_compute; discriminate|].
    assert (Hl : 0 <= Z.log2 v <= 62).
    { split; [apply Z.log2_nonneg|]. assert (Z.log2 v < 63); [|lia]. apply Z.log2_lt_pow2; lia. }
    replace (2 ^ (Z.log2 v + 1) - 1 + 1) with (2 ^ (Z.log2 v + 1)) in Hq by lia.
    destruct (Z.eq_dec (Z.log2 v) 62) as [E62|N62].
    - rewrite E62 in Hq. change (2 ^ (62 + 1)) with 9223372036854775808 in Hq.
      change (in_i64 9223372036854775808) with false in Hq. destruct m; [discriminate|]. inversion Hq; subst. vm_compute. discriminate.
    - assert (Hi2 : in_i64 (2 ^ (Z.log2 v + 1)) = true).
      { unfold in_i64, two63. assert (2 ^ (Z.log2 v + 1) <= 2 ^ 62) by (apply Z.pow_le_mono_r; lia).
        assert (0 < 2 ^ (Z.log2 v + 1)) by (apply Z.pow_pos_nonneg; lia). change (2 ^ 62) with 4611686018427387904 in *. lia. }
      rewrite Hi2 in Hq. inversion Hq; subst. apply wrap32_pow2. lia. }
  destruct (in_i64 (n - 1)) eqn:Ei; cbn [bind] in H.
  - apply (Hv (n - 1) Ei p H).
  - destruct m; [discriminate|]. cbn [bind] in H. apply (Hv (wrap64 (n - 1)) (wrap64_range _) p H). Qed.

Theorem new_spec m n b : bb_new m n = Ok b ->
  bb_ok b /\ bb_limit b = HDR /\ bb_content b = [] /\ BB_MIN_CAPACITY <= bb_cap b <= 1073741824 /\
  (1 <= n <= 1073741824 -> n <= bb_cap b /\ (BB_MIN_CAPACITY < bb_cap b -> bb_cap b < 2 * n)).
Proof. unfold bb_new. destruct (next_pow2_i64 m n) as [p| | | |] eqn:Ep; try discriminate. cbn [bind]. intros H. inversion H; subst b.
  bbc. cbn [bb_limit bb_cap bb_mem]. pose proof (next_pow2_cap m n p Ep) as Hw.
  split; [unfold bb_ok; cbn [bb_limit bb_cap]; lia|]. split; [reflexivity|]. split.
  - unfold bb_content, mem_read. cbn [bb_limit bb_mem]. rewrite Z.sub_diag. reflexivity.
  - split; [lia|]. intros Hn. unfold next_pow2_i64, sub64, add64, chk64 in Ep.
    assert (E1 : in_i64 (n - 1) = true) by (unfold in_i64, two63; lia). rewrite E1 in Ep. cbn [bind] in Ep.
    pose proof (fill_below_range (n - 1) ltac:(lia)) as Hf.
    assert (E2 : in_i64 (fill_below (n - 1) + 1) = true) by (unfold in_i64, two63; lia). rewrite E2 in Ep. inversion Ep; subst p.
    rewrite wrap32_id by (unfold in_i32, two31; lia). lia. Qed.

Lemma reset_spec b : bb_ok b -> bb_ok (bb_reset b) /\ bb_limit (bb_reset b) = HDR /\ bb_content (bb_reset b) = [] /\ bb_cap (bb_reset b) = bb_cap b.
Proof. intros ((Hl1 & Hl2) & Hc). bbc. unfold bb_reset. cbn [bb_limit bb_cap bb_mem]. split; [unfold bb_ok; cbn [bb_limit bb_cap]; lia|].
  split; [reflexivity|]. split; [|reflexivity]. unfold bb_content, mem_read. cbn [bb_limit]. rewrite Z.sub_diag. reflexivity. Qed.

(* ---- a whole message: reset, then any number of appends ---- *)
Fixpoint bb_appends (m : mode) (b : bb) (chunks : list (list Z)) : outcome bb :=
  match chunks with
  | [] => Ok b
  | c :: r => b1 <- bb_append m b c ;; bb_appends m b1 r
  end.

Theorem appends_spec m : forall chunks b b', bb_ok b -> bb_appends m b chunks = Ok b' ->
  bb_ok b' /\ bb_content b' = bb_content b ++ concat chunks /\
  bb_limit b' = bb_limit b + Z.of_nat (length (concat chunks)) /\ bb_cap b <= bb_cap b'.
Proof. induction chunks as [|c r IH]; intros b b' Hok H; cbn [bb_appends] in H.
  - inversion H; subst. cbn [concat length]. rewrite app_nil_r. split; [assumption|]. split; [reflexivity|]. split; lia.
  - destruct (bb_append m b c) as [b1| | | |] eqn:Ea; try discriminate. cbn [bind] in H.
    destruct (append_spec m b c b1 Hok Ea) as (A1 & A2 & A3 & A4 & A5).
    destruct (IH b1 b' A1 H) as (B1 & B2 & B3 & B4). cbn [concat]. rewrite app_length, Nat2Z.inj_add, app_assoc, <- A3.
    split; [assumption|]. split; [assumption|]. split; [lia|].
    destruct (Z_le_gt_dec (bb_limit b + Z.of_nat (length c)) (bb_cap b)) as [Hle|Hgt]; [rewrite <- (A4 Hle); assumption|].
    destruct (A5 ltac:(lia)) as (k & _ & Hk & _). destruct Hok as (_ & Hc). pose proof (grow_iter_range k (bb_cap b) ltac:(lia)). lia. Qed.

Theorem appends_succeed m : forall chunks b, bb_ok b -> bb_limit b + Z.of_nat (length (concat chunks)) <= BB_SAFE + 1 ->
  exists b', bb_appends m b chunks = Ok b'.
Proof. induction chunks as [|c r IH]; intros b Hok Hs; cbn [bb_appends]; [eexists; reflexivity|].
  cbn [concat] in Hs. rewrite app_length, Nat2Z.inj_add in Hs.
  destruct (append_succeeds m b c Hok ltac:(lia)) as (b1 & Ea). rewrite Ea. cbn [bind].
  destruct (append_spec m b c b1 Hok Ea) as (A1 & A2 & _). apply IH; [assumption|lia]. Qed.
