(* C07: the predicate with which the check judges one unblock() of the implementation (dump before,
   dump after, result) is true of the model's unblock in every reachable configuration. *)
Require Import V.Base.MachineInt.
Require Import V.Generated.GenConsts.
Require Import V.Model.LogBase.
Require Import V.Model.Ring.
Require Import V.Model.RingThreads.
Require Import V.Spec.Fifo.
Require Import V.Oracle.C06Oracle.
Require Import V.Oracle.C07Oracle.
Require Import V.Proofs.RingArith.
Require Import V.Proofs.RingSeq.
Require Import V.Proofs.RingRender.
Require Import V.Proofs.RingSeqRun.
Require Import V.Proofs.RingConc.
Require Import V.Proofs.RingConcThm.
Require Import V.Proofs.RingUnblock.
From Coq Require Import ZifyBool Lia.
Open Scope Z_scope.

Lemma words_eqb_refl l : words_eqb l l = true.
Proof. induction l as [| [o v] l IH]; cbn [words_eqb]; [reflexivity |]. unfold word_eqb. cbn [fst snd]. rewrite !Z.eqb_refl. assumption. Qed.

Lemma words_except_app a b x y : words_except (a ++ b) x y = words_except a x y ++ words_except b x y.
Proof. apply filter_app. Qed.

Lemma words_except_nz o v x y : o = x \/ o = y -> words_except (nz o v) x y = [].
Proof. intros H. unfold nz, words_except. destruct (v =? 0); cbn [filter fst]; [reflexivity |].
  replace (negb ((o =? x) || (o =? y))) with false by lia. reflexivity. Qed.

Lemma mem_z_true x l : In x l -> mem_z x l = true.
Proof. intros H. unfold mem_z. apply existsb_exists. exists x. split; [assumption | lia]. Qed.

Theorem oracle_unblock_model lo cfg bounds : Inv lo cfg -> cons_idle (g_cons cfg) ->
  let R := g_ring cfg in
  (forall s, In s (r_slots R) -> In (s_pos s) bounds) ->
  unblock_ok (r_cap R) (r_head R) (r_tail R) bounds (render R) (render (fst (unblock R))) (Ok (b2z (snd (unblock R)))) = true.
Proof.
  intros HI Hid. cbn zeta. set (R := g_ring cfg). intros Hb.
  pose proof (idle_head' R _ Hid) as Hh'. fold R in Hh'.
  destruct (unblock_spec lo cfg HI Hid) as (U1 & U2 & U3 & U4). fold R in U1, U2, U3, U4.
  pose proof (i_cap _ _ HI) as Hc. fold R in Hc. pose proof (cap_ok_range _ Hc) as Hcr.
  pose proof (tiledR lo cfg HI Hh') as T. fold R in T.
  pose proof (i_size _ _ HI) as Hsz. fold R in Hsz.
  unfold unblock_ok. destruct (snd (unblock R)) eqn:B; cbn [b2z].
  2: { pose proof (U1 (eq_refl false)) as E1. rewrite E1. apply words_eqb_refl. }
  destruct (U4 eq_refl) as (s1 & rest & L & Es & Hneg & ER1 & HL & Hfit & Hend & Hbd & _ & _ & _). rewrite ER1.
  rewrite Es in T. inversion T as [| h0 t0 s0 sl0 Hp1 G1 T2]; subst h0 t0 s0 sl0.
  assert (Hne : r_head R <> r_tail R) by (intro E; pose proof (U2 E); discriminate).
  replace (r_head R =? r_tail R) with false by lia. cbn [negb andb].
  (* the word at the consumer index before *)
  assert (W0 : word_at (render R) (r_head R mod r_cap R) = s_len s1).
  { rewrite <- Hp1. apply (word_len lo cfg HI Hh' [] s1 rest). exact Es. }
  rewrite W0. replace (s_len s1 <=? 0) with true by lia. cbn [andb].
  (* the two header words after *)
  set (s1' := set_hdr L PAD s1).
  assert (G1' : geo (r_cap R) s1') by exact G1.
  assert (T' : tiled (r_cap R) (r_head R) (r_tail R) ([] ++ s1' :: rest)).
  { cbn [app]. constructor; [exact Hp1 | exact G1' | exact T2]. }
  assert (RT : render (set_slots R (s1' :: rest)) = flat_map (render_slot (r_cap R)) ([] ++ s1' :: rest) ++ render_trailer R) by reflexivity.
  rewrite RT.
  pose proof (word_at_len (r_cap R) (r_head R) (r_tail R) [] rest s1' (render_trailer R) Hc T' Hsz (trailer_clear R)) as WL.
  pose proof (word_at_type (r_cap R) (r_head R) (r_tail R) [] rest s1' (render_trailer R) Hc T' Hsz (trailer_clear R)) as WT.
  cbn [s1' set_hdr s_pos s_len s_type] in WL, WT. rewrite Hp1 in WL, WT. rewrite WL, WT.
  rewrite Z.eqb_refl. replace (0 <? L) with true by lia.
  replace (r_head R mod r_cap R + align L 8 <=? r_cap R) with true by lia.
  replace (r_head R + align L 8 <=? r_tail R) with true by lia. cbn [andb].
  assert (BD : ((r_head R + align L 8 =? r_tail R) || ((r_head R + align L 8) mod r_cap R =? 0)
                || negb (word_at (render R) ((r_head R + align L 8) mod r_cap R) =? 0)
                || mem_z (r_head R + align L 8) bounds) = true).
  { destruct Hbd as [E | (s & Hs & Hsq)].
    - replace (r_head R + align L 8 =? r_tail R) with true by lia. reflexivity.
    - rewrite (mem_z_true (r_head R + align L 8) bounds); [apply Bool.orb_true_r |].
      rewrite <- Hsq. apply Hb. rewrite Es. right. assumption. }
  rewrite BD. cbn [andb].
  (* everything except that header is unchanged *)
  unfold render. rewrite Es. cbn [app flat_map]. rewrite !words_except_app.
  assert (EQ : words_except (render_slot (r_cap R) s1) (r_head R mod r_cap R) (r_head R mod r_cap R + 4)
             = words_except (render_slot (r_cap R) s1') (r_head R mod r_cap R) (r_head R mod r_cap R + 4)).
  { unfold render_slot. cbn [s1' set_hdr s_pos s_len s_type s_body]. rewrite mask_idx_mod by assumption. rewrite Hp1.
    rewrite !words_except_app. rewrite !words_except_nz by auto. reflexivity. }
  rewrite EQ. apply words_eqb_refl.
Qed.
