(* The inductive invariant AppInv of the publisher machines (C02, reused by C03).

   Ghost state (never read by the machines): for every generation g (term count at which a term is
   active) the list of claims obtained by get_and_add on the tail while it carried g's term id, in the
   order they were made, and whether the driver has zeroed g's partition since.

   AppInv says:
     - count and the three tails are consistent, or exactly mid-rotation (tail of the next partition
       already carries the next term id, count not yet advanced);
     - the claims of the generation a tail carries are back to back from the generation's base to the
       tail offset (hence pairwise disjoint and tiling [base, tail));
     - every claim is either in flight - its owner is past its get_and_add and not yet done with this
       attempt - or complete: its frames are in memory exactly as the message dictates (data frames),
       or as one padding frame up to the term end iff the claim starts inside the term and ends
       beyond it, and the owner's recorded result is the position at the end of its claim (data) or
       AdminAction (tripped);
     - a thread in flight has written a prefix of its frames, is part-way through the next one as its
       program counter says, and everything after is still zero;
     - every non-zero slot of a live partition belongs to a claim. *)
Require Import V.Base.MachineInt.
Require Import V.Generated.GenConsts.
Require Import V.Model.LogBase.
Require Import V.Model.Descriptor.
Require Import V.Proofs.DescriptorProofs.
Require Import V.Model.Sched.
Require Import V.Model.AppenderThreads.
Require Import V.Proofs.TailArith.
Require Import V.Proofs.FragArith.
From Coq Require Import ZifyBool.
Open Scope Z_scope.

Record entry := mkE { e_a : Z; e_b : Z; e_t : nat; e_j : nat; e_msg : list Z }.
Record ghost := mkG { g_claims : Z -> list entry; g_cleaned : Z -> bool }.

Definition add_claim (gh : ghost) (g : Z) (e : entry) : ghost :=
  mkG (fun g' => if g' =? g then g_claims gh g ++ [e] else g_claims gh g') (g_cleaned gh).
Definition set_cleaned (gh : ghost) (g : Z) : ghost :=
  mkG (g_claims gh) (fun g' => if g' =? g then true else g_cleaned gh g').
Definition ghost0 : ghost := mkG (fun _ => []) (fun _ => false).

Section Inv.
  Variable c : cfg.

  Definition tg (s : shared) (p : Z) : Z := gen_of c (sh_tail s p).
  Definition toff (s : shared) (p : Z) : Z := lo32u (sh_tail s p).
  Definition base (g : Z) : Z := if g =? c_n0 c then c_off0 c else 0.

  (* frames of a claim of generation g *)
  Definition efrags (g : Z) (e : entry) : list (Z * slot) :=
    if e_b e <=? TL c then
      frags_from c (tid_of c g) (e_msg e) (Z.to_nat (zlen (e_msg e))) (e_a e) (zlen (e_msg e)) F_BEGIN
    else if e_a e <? TL c then [(e_a e, pd4 c (tid_of c g) (e_a e))]
    else [].

  Fixpoint chain (b0 : Z) (l : list entry) (hi : Z) : Prop :=
    match l with
    | [] => hi = b0
    | e :: r => e_a e = b0 /\ e_a e < e_b e /\ chain (e_b e) r hi
    end.

  Definition tripped (gh : ghost) (g : Z) : Prop := exists e, In e (g_claims gh g) /\ TL c < e_b e.
  Definition live (s : shared) (gh : ghost) (g : Z) : Prop := tg s (g mod 3) = g /\ g_cleaned gh g = false.

  (* ---- phases of the publisher machine ---- *)
  Definition after_count (pc : ppc) : bool :=
    match pc with PReadLimit | PReadCount | PDone | PPanicked => false | _ => true end.
  Definition after_tail (pc : ppc) : bool :=
    match pc with PReadLimit | PReadCount | PReadTail | PDone | PPanicked => false | _ => true end.
  Definition inflight (pc : ppc) : bool :=
    match pc with
    | PNegLen | PHdr | PBody | PFlags | PResv | PPosLen | ENegLen | EHdr | EType | EPosLen
    | RReadNext | RCasTail | RCasCount => true
    | _ => false
    end.
  Definition writing (pc : ppc) : bool :=
    match pc with PNegLen | PHdr | PBody | PFlags | PResv | PPosLen => true | _ => false end.
  Definition padding (pc : ppc) : bool :=
    match pc with ENegLen | EHdr | EType | EPosLen => true | _ => false end.
  Definition rotating (pc : ppc) : bool :=
    match pc with RReadNext | RCasTail | RCasCount => true | _ => false end.

  Definition my_entry (t : nat) (l : plocal) : entry :=
    mkE (f_off l) (f_off l + required c (mlen l)) t (length (p_res l)) (cur_msg l).

  (* expected contents of the slot the thread is working on *)
  Definition stage (l : plocal) : slot :=
    let tid := f_tid l in let msg := cur_msg l in
    match p_pc l with
    | PHdr => st1 c (p_rem l)
    | PBody => st2 c tid (p_foff l) (p_rem l)
    | PFlags => st3 c tid msg (p_foff l) (p_rem l)
    | PResv => st4 c tid msg (p_foff l) (p_rem l) (p_flags l)
    | PPosLen => st5 c tid msg (p_foff l) (p_rem l) (p_flags l)
    | EHdr => pd1 c (f_off l)
    | EType => pd2 c tid (f_off l)
    | EPosLen => pd3 c tid (f_off l)
    | _ => zslot
    end.

  Definition rest_frags (l : plocal) : list (Z * slot) :=
    frags_from c (f_tid l) (cur_msg l) (Z.to_nat (p_rem l)) (p_foff l) (p_rem l) (p_flags l).

  Definition wr_ok (s : shared) (t : nat) (l : plocal) : Prop :=
    let p := p_count l mod 3 in
    0 <= p_rem l /\
    exists done, efrags (p_count l) (my_entry t l) = done ++ rest_frags l /\
      (forall o sl, In (o, sl) done -> sh_mem s p o = sl) /\
      sh_mem s p (p_foff l) = stage l /\
      (forall o sl, In (o, sl) (tl (rest_frags l)) -> sh_mem s p o = zslot).

  Definition thr_ok (s : shared) (gh : ghost) (t : nat) (l : plocal) : Prop :=
    let g := p_count l in
    let n := sh_count s in
    (after_count (p_pc l) = true -> c_n0 c <= g <= n) /\
    (after_tail (p_pc l) = true ->
       exists o, p_raw l = mk_raw c g o /\ 0 <= o < two32 /\ (tg s (g mod 3) = g -> o <= toff s (g mod 3))) /\
    (inflight (p_pc l) = true ->
       f_tid l = tid_of c g /\ 0 <= f_off l < two32 /\ r_off l <= f_off l /\ In (my_entry t l) (g_claims gh g)) /\
    (writing (p_pc l) = true ->
       live s gh g /\ f_off l + required c (mlen l) <= TL c /\ wr_ok s t l) /\
    (padding (p_pc l) = true ->
       live s gh g /\ f_off l < TL c < f_off l + required c (mlen l) /\ sh_mem s (g mod 3) (f_off l) = stage l) /\
    (rotating (p_pc l) = true ->
       TL c < f_off l + required c (mlen l) /\
       (live s gh g -> forall o sl, In (o, sl) (efrags g (my_entry t l)) -> sh_mem s (g mod 3) o = sl)) /\
    (p_pc l = RCasTail -> term_id_of (p_next l) = tid_of c (g - 2)) /\
    (p_pc l = RCasCount -> g < n \/ tg s ((g + 1) mod 3) = g + 1) /\
    (p_pc l = PFlags -> is_fragmented c (mlen l) = true).

  Definition ent_ok (s : shared) (gh : ghost) (P : nat -> option plocal) (g : Z) (e : entry) : Prop :=
    c_n0 c <= g /\ 0 <= e_a e /\ e_a e mod 32 = 0 /\ e_b e = e_a e + required c (zlen (e_msg e)) /\
    exists l, P (e_t e) = Some l /\ (e_j e <= length (p_res l))%nat /\
      (e_j e = length (p_res l) -> inflight (p_pc l) = true /\ my_entry (e_t e) l = e /\ p_count l = g) /\
      ((e_j e < length (p_res l))%nat ->
         nth (e_j e) (p_res l) Panic = (if e_b e <=? TL c then Ok (g * TL c + e_b e) else Err AdminAction) /\
         (live s gh g -> forall o sl, In (o, sl) (efrags g e) -> sh_mem s (g mod 3) o = sl)).

  Definition mem_ok (s : shared) (gh : ghost) (p : Z) : Prop :=
    let g := tg s p in
    ((g < c_n0 c \/ g_cleaned gh g = true) -> forall o, sh_mem s p o = zslot) /\
    (c_n0 c <= g -> g_cleaned gh g = false ->
       forall o, sh_mem s p o <> zslot -> exists e, In e (g_claims gh g) /\ In o (map fst (efrags g e))).

  (* the part that only depends on the tails, the count and the ghost state *)
  Record TailInv (s : shared) (gh : ghost) : Prop := {
    iv_count : c_n0 c <= sh_count s <= GB;
    iv_tail : forall p, 0 <= p < 3 ->
        sh_tail s p = mk_raw c (tg s p) (toff s p) /\ 0 <= toff s p < two32 /\ toff s p mod 32 = 0 /\ gen_ok (tg s p);
    iv_act : tg s (sh_count s mod 3) = sh_count s;
    iv_prev : tg s ((sh_count s + 2) mod 3) = sh_count s - 1;
    iv_next : tg s ((sh_count s + 1) mod 3) = sh_count s - 2 \/ tg s ((sh_count s + 1) mod 3) = sh_count s + 1;
    iv_rot_trip : tg s ((sh_count s + 1) mod 3) = sh_count s + 1 -> tripped gh (sh_count s);
    iv_trip : forall g, c_n0 c <= g < sh_count s -> tripped gh g;
    (* the claims of every generation are laid back to back (also of generations no tail carries any more) *)
    iv_chain_all : forall g, c_n0 c <= g ->
        exists hi, chain (base g) (g_claims gh g) hi /\ forall p, 0 <= p < 3 -> tg s p = g -> toff s p = hi;
    iv_empty : forall g, (g < c_n0 c \/ (sh_count s < g /\ forall p, 0 <= p < 3 -> tg s p <> g)) ->
        g_claims gh g = [] /\ g_cleaned gh g = false;
    iv_cleaned : forall p, 0 <= p < 3 -> g_cleaned gh (tg s p) = true -> TL c <= toff s p
  }.

  Lemma iv_chain s gh : TailInv s gh ->
    forall p, 0 <= p < 3 -> c_n0 c <= tg s p -> chain (base (tg s p)) (g_claims gh (tg s p)) (toff s p).
  Proof. intros A p Hp Hn0. destruct (iv_chain_all s gh A (tg s p) Hn0) as (hi & Hc & Hhi).
    rewrite (Hhi p Hp eq_refl). exact Hc. Qed.

  Record AppInv (s : shared) (gh : ghost) (P : nat -> option plocal) : Prop := {
    iv_A : TailInv s gh;
    iv_ent : forall g e, In e (g_claims gh g) -> ent_ok s gh P g e;
    iv_thr : forall t l, P t = Some l -> thr_ok s gh t l;
    iv_mem : forall p, 0 <= p < 3 -> mem_ok s gh p
  }.

  (* ---- admissible steps: what the theorems assume about a schedule ---- *)
  Definition no_low_inflight (P : nat -> option plocal) (g : Z) : Prop :=
    forall t l, P t = Some l -> p_count l = g -> writing (p_pc l) = false /\ padding (p_pc l) = false.

  Definition adm_pub (s : shared) (P : nat -> option plocal) (l : plocal) : Prop :=
    match p_pc l with
    | PFaa =>
        (* not stalled for a multiple of three rotations between the tail read and the get_and_add (known class
           stalled3), and the offset field of the raw tail does not overflow into the term id *)
        term_id_of (sh_tail s (r_idx l)) = r_tid l /\ lo32u (sh_tail s (r_idx l)) + required c (mlen l) < two32
    | RCasTail =>
        (* media driver contract when the log rotates into a partition: it is clean and nobody still holds an
           unfinished claim inside it *)
        sh_tail s (next_index l) = p_next l ->
        (forall o, sh_mem s (next_index l) o = zslot) /\ no_low_inflight P (gen_of c (p_next l))
    | RCasCount => sh_count s = p_count l -> p_count l + 1 <= GB
    | _ => True
    end.

  Definition adm_env (s : shared) (P : nat -> option plocal) (op : envop) : Prop :=
    match op with
    | SetLimit _ => True
    | Clean p => 0 <= p < 3 /\ (tg s p < c_n0 c \/ TL c <= toff s p) /\ no_low_inflight P (tg s p)
    end.

  (* ---- ghost instrumentation ---- *)
  Definition gstep_pub (t : nat) (s : shared) (l : plocal) (gh : ghost) : ghost :=
    match p_pc l with
    | PFaa => let raw := sh_tail s (r_idx l) in
              add_claim gh (gen_of c raw)
                        (mkE (lo32u raw) (lo32u raw + required c (mlen l)) t (length (p_res l)) (cur_msg l))
    | _ => gh
    end.
  Definition gstep_env (s : shared) (op : envop) (gh : ghost) : ghost :=
    match op with
    | Clean p => if c_n0 c <=? tg s p then set_cleaned gh (tg s p) else gh
    | SetLimit _ => gh
    end.
End Inv.

Definition pupd (P : nat -> option plocal) (t : nat) (l : plocal) : nat -> option plocal :=
  fun t' => if Nat.eqb t' t then Some l else P t'.
