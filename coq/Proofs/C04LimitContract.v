(* The environment contract on the publication limit (limit <= TL*2^31 + TL/2):
   - the ExclusivePublication does not need it: every C04 statement holds for histories that set any limit at all;
   - the shared Publication does: with a limit far beyond the end of the position space every refused offer in the last term still
     bumps the shared tail counter, and after (2^31 - TL) / 32 such offers the 32-bit offset reaches 2^31 - the next offer then
     rotates the log out of the very last term (release) or overflows the term count (debug).  A machine-checked history. *)
Require Import V.Base.MachineInt.
Require Import V.Generated.GenConsts.
Require Import V.Model.Descriptor.
Require Import V.Model.LogBase.
Require Import V.Model.Appender.
Require Import V.Model.ExclAppender.
Require Import V.Model.Publication.
Require Import V.Model.ExclPublication.
Require Import V.Proofs.DescriptorProofs.
Require Import V.Proofs.AppenderProofs.
Require Import V.Proofs.PublicationProofs.
Require Import V.Proofs.BulkProofs.
Require Import V.Proofs.C04Proofs.
Require Import V.Proofs.ExclPublicationProofs.
Require Import V.Oracle.C04Oracle.
Require Import V.Proofs.C04OracleProofs.
Require Import V.Proofs.C04Statements.
Require Import V.Proofs.C04XOracleProofs.
From Coq Require Import ZifyBool.
Open Scope Z_scope.

(* ---- exclusive publication: any limit ---- *)
(* operations of a history, with no condition on the limit *)
Definition op_ok_any (o : op) : Prop :=
  match o with
  | Offer msg => zlen msg <= 1073741824
  | Claim len => 0 <= len <= 1073741824
  | Bulk bufs => total bufs <= 1073741824
  | _ => True
  end.

Lemma op_ok_any_ok l o : op_ok_any o -> (forall v, o <> SetLimit v) -> op_ok l o.
Proof. destruct o; cbn; auto. intros _ H. exfalso. apply (H v). reflexivity. Qed.

Definition xreachable_any (m : mode) (rv : Z -> Z -> list Z -> Z) (x : xpub) : Prop :=
  exists h ops x0, handover_ok h /\ Forall op_ok_any ops /\ xpub_new (handover_log h) = Ok x0 /\ x = xpub_run m rv x0 ops.

Lemma xstep_inv_any m rv x n o : xpub_inv n x -> xtail_ok n x -> op_ok_any o ->
  exists n', xpub_inv n' (fst (xpub_step m rv x o)) /\ xtail_ok n' (fst (xpub_step m rv x o)).
Proof. intros Hinv Ht Hok.
  assert (Hc : (exists v, o = SetLimit v) \/ (forall v, o <> SetLimit v)).
  { destruct o; try (right; intros; discriminate). left. eexists. reflexivity. }
  destruct Hc as [(v & ->) | Hn].
  - (* SetLimit v, any v *)
    cbn [xpub_step env_step fst]. exists n. unfold x_with_pub, with_log. split.
    + destruct Hinv as [Hleg Hn Hidx Htid Hbeg Hoff Hcnt]. constructor; unfold xlog in *; cbn [x_pub ps_log x_idx x_tid x_begin x_off]; auto.
    + destruct Ht as (t & Ht1 & Ht2 & Ht3). exists t. unfold xlog in *. cbn [x_pub ps_log x_tid x_off]. auto.
  - destruct (xstep_inv2 m rv x n o Hinv Ht (op_ok_any_ok (xlog x) o Hok Hn)) as (n' & H1 & H2 & _). exists n'. auto. Qed.

Theorem xreachable_any_inv m rv x : xreachable_any m rv x -> exists n, xpub_inv n x /\ xtail_ok n x.
Proof. intros (h & ops & x0 & Hh & Hok & Hnew & ->).
  assert (H0 : xreachable m rv x0).
  { exists h, [], x0. split; [exact Hh|]. split; [constructor|]. split; [exact Hnew|reflexivity]. }
  destruct (xreachable_inv2 m rv x0 H0) as (n0 & Hinv0 & Ht0). clear H0 Hnew Hh.
  revert x0 n0 Hinv0 Ht0. induction ops as [|o r IH]; intros x0 n0 Hinv0 Ht0; [exists n0; auto|].
  inversion Hok as [|? ? Ho Hr]; subst. cbn [xpub_run].
  destruct (xstep_inv_any m rv x0 n0 o Hinv0 Ht0 Ho) as (n1 & Hinv1 & Ht1). apply (IH Hr _ n1 Hinv1 Ht1). Qed.

Section ExclusiveAnyLimit.
Variables (m : mode) (rv : Z -> Z -> list Z -> Z) (x : xpub).
Hypothesis Hr : xreachable_any m rv x.

Theorem c04x_any_accept o x' p : op_ok (xlog x) o -> is_xappend o = true -> xpub_step m rv x o = (x', Ok p) ->
  exists b, xpub_position m x = Ok b /\ b < l_limit (xlog x) /\ ps_closed (x_pub x) = false /\ op_too_long (xlog x) o = false /\
            p = b + op_required (xlog x) o /\ xpub_position m x' = Ok p /\ 0 <= p <= l_tlen (xlog x) * two31.
Proof. intros Hok Ha Hs. destruct (xreachable_any_inv m rv x Hr) as (n & Hinv & _).
  destruct (xpub_accept m rv x n o x' p Hinv Hok Ha Hs) as (H1 & H2 & H3 & H4 & H5 & H6 & H7 & _).
  exists (xspec_pos x). pose proof (xspec_pos_range x n Hinv).
  assert (0 < op_required (xlog x) o).
  { pose proof (xi_legal _ _ Hinv) as Hleg. pose proof (legal_mpl _ Hleg) as (Hm1 & Hm2 & Hm3 & Hm4).
    unfold op_required. destruct o; try discriminate; cbn [op_len op_too_long op_ok] in *.
    - apply required_half_term; auto; [apply zlen_nonneg|right; lia].
    - apply required_half_term; auto; [lia|left; lia]. }
  repeat split; auto; lia. Qed.

Theorem c04x_any_refuse_pure o x' e : op_ok (xlog x) o -> is_xappend o = true -> xpub_step m rv x o = (x', Err e) ->
  (e = BackPressured \/ e = NotConnected \/ e = Closed \/ e = TooLong) -> x' = x.
Proof. intros Hok Ha Hs He. destruct (xreachable_any_inv m rv x Hr) as (n & Hinv & _). eapply xpub_refuse_pure; eassumption. Qed.

Theorem c04x_any_refuse_at_limit o b : op_ok (xlog x) o -> is_xappend o = true -> ps_closed (x_pub x) = false ->
  xpub_position m x = Ok b -> l_limit (xlog x) <= b ->
  xpub_step m rv x o =
    (x, Err (match o with
             | Claim len => if max_payload_length (xlog x) <? len then TooLong else status_of (xlog x) b len
             | _ => status_of (xlog x) b (op_len o) end)).
Proof. intros Hok Ha Hc Hp Hl. destruct (xreachable_any_inv m rv x Hr) as (n & Hinv & _).
  rewrite (xpub_position_spec m x n Hinv Hc) in Hp. inversion Hp; subst b.
  apply (xpub_refuse_at_limit m rv x n); assumption. Qed.

Theorem c04x_any_max : ps_closed (x_pub x) = false -> exists p, xpub_position m x = Ok p /\ 0 <= p <= l_tlen (xlog x) * two31.
Proof. intros Hc. destruct (xreachable_any_inv m rv x Hr) as (n & Hinv & _).
  exists (xspec_pos x). split; [apply (xpub_position_spec m x n); assumption|apply (xspec_pos_range x n); assumption]. Qed.

Theorem c04x_any_total o : op_ok (xlog x) o -> is_xappend o = true ->
  match snd (xpub_step m rv x o) with
  | Ok _ | Err BackPressured | Err NotConnected | Err AdminAction | Err MaxPositionExceeded | Err Closed | Err TooLong => True
  | _ => False
  end.
Proof. intros Hok Ha. destruct (xreachable_any_inv m rv x Hr) as (n & Hinv & _). eapply xpub_total; eassumption. Qed.

Theorem c04x_any_trip o x' e : op_ok (xlog x) o -> is_xappend o = true -> xpub_step m rv x o = (x', Err e) -> x' <> x ->
  exists n, xpub_inv n x /\ ps_closed (x_pub x) = false /\ xspec_pos x < l_limit (xlog x) /\
    l_tlen (xlog x) < x_off x + op_required (xlog x) o /\
    ((e = AdminAction /\ n < two31 - 1 /\
      xlog x' = rotated (xbumped (xlog x) (x_idx x) (x_tid x) (x_off x) (op_required (xlog x) o)) n) \/
     (e = MaxPositionExceeded /\ n = two31 - 1 /\
      xlog x' = xbumped (xlog x) (x_idx x) (x_tid x) (x_off x) (op_required (xlog x) o))).
Proof. intros Hok Ha Hs Hne. destruct (xreachable_any_inv m rv x Hr) as (n & Hinv & _).
  destruct (xpub_trip m rv x n o x' e Hinv Hok Ha Hs Hne) as (H1 & H2 & H3 & H4 & H5).
  exists n. do 4 (split; [assumption|]).
  destruct H5 as [(A & B & ->) | (A & B & ->)]; [left|right]; repeat split; auto. Qed.

Theorem c04x_any_oracle_flow o x0 r0 n0 off0 : op_ok (xlog x) o -> is_xappend o = true ->
  flow_append (geom_of (xlog x) n0 off0) (env_of (x_pub x)) (kind_of o) (op_len o)
              (xpub_obs m x0 x r0) (xpub_obs m x (fst (xpub_step m rv x o)) (snd (xpub_step m rv x o))) = true.
Proof. intros Hok Ha. destruct (xreachable_any_inv m rv x Hr) as (n & Hinv & Ht).
  apply (oracle_flow_exclusive m rv x n o x0 r0 n0 off0 Hinv Ht Hok Ha). Qed.
End ExclusiveAnyLimit.

(* ---- shared publication: the contract is needed ---- *)
(* hand-over at the very end of the very last term of a 1 KiB-term log; the limit is then set to 2^62 *)
Definition wl0 : log := handed_over 0 1024 64 11 22 (two31 - 1) 1024.
Definition WLIMIT : Z := 2 ^ 62.
Definition wtid : Z := two31 - 1.
(* the state after j claims of zero bytes: the tail counter of the active partition (index 1) has been bumped j times *)
Definition wstate (j : Z) : pubstate :=
  mkPub (set_tail (set_limit wl0 WLIMIT) 1 (wtid * two32 + (1024 + 32 * j))) false None.

Lemma wstate_0 : fst (pub_step Debug harness_rv (pub_init wl0) (SetLimit WLIMIT)) = wstate 0.
Proof. vm_compute. reflexivity. Qed.

Lemma wstep m rv j : 0 <= j -> 1024 + 32 * j + 32 <= two31 ->
  pub_step m rv (wstate j) (Claim 0) = (wstate (j + 1), Err MaxPositionExceeded).
Proof. intros Hj Hb. unfold wstate. set (off := 1024 + 32 * j). assert (Ho : 1024 <= off /\ off + 32 <= 2147483648) by (unfold off, two31 in *; lia).
  set (l := set_tail (set_limit wl0 WLIMIT) 1 (wtid * two32 + off)).
  cbn [pub_step]. unfold pub_claim. cbn [ps_log].
  assert (E0 : (max_payload_length l <? 0) = false) by (vm_compute; reflexivity). rewrite E0.
  unfold pub_try. cbn [ps_closed ps_log ps_claim].
  assert (Hcount : l_count l = two31 - 1) by reflexivity. rewrite Hcount.
  assert (Hidx : index_by_term_count (two31 - 1) = 1) by (vm_compute; reflexivity). rewrite Hidx.
  cbn [Z.ltb Z.compare].
  assert (Htail : tail l 1 = wtid * two32 + off) by reflexivity. rewrite Htail.
  assert (Htid : in_i32 wtid = true) by (vm_compute; reflexivity).
  rewrite raw_mod by (unfold two32; lia). rewrite raw_tid by (auto; unfold two32; lia).
  assert (Hbeg : compute_term_begin_position wtid (bits_of l) (l_init l) = (two31 - 1) * 1024) by (vm_compute; reflexivity). rewrite Hbeg.
  rewrite add64_ok by (unfold in_i64, two63, two31; lia).
  assert (Ecnt : (two31 - 1 =? wrap32 (wtid - l_init l)) = true) by (vm_compute; reflexivity). rewrite Ecnt. cbn [negb].
  assert (Elim : ((two31 - 1) * 1024 + off <? l_limit l) = true).
  { change (l_limit l) with WLIMIT. unfold WLIMIT, two31. change (2 ^ 62) with 4611686018427387904. lia. }
  rewrite Elim.
  (* the appender: tail bumped, nothing fits, no padding beyond the end of the term *)
  unfold ta_claim. rewrite unfrag_lengths_ok by lia. cbn [bind]. change (align (0 + 32) 32) with 32.
  rewrite (tail_claim_ok l 1 wtid off) by (auto; unfold two32; lia). cbn [bind c_off c_log c_tid].
  assert (Etl : (l_tlen l <? off + 32) = true) by (change (l_tlen l) with 1024; lia). rewrite Etl.
  unfold end_of_log. cbn [c_log c_off c_tid a_log a_result a_claim].
  unfold put_padding. change (l_tlen (set_tail l 1 (wtid * two32 + (off + 32)))) with 1024.
  assert (Eoff : (off <? 1024) = false) by lia. rewrite Eoff.
  unfold pub_new_position, TERM_APPENDER_FAILED, GenConsts.TERM_APPENDER_FAILED. cbn [Z.ltb Z.compare].
  rewrite wrap32_small by lia. rewrite add64_ok by (unfold in_i64, two63, two31; lia).
  assert (Emax : (max_possible_position (set_tail l 1 (wtid * two32 + (off + 32))) <? (two31 - 1) * 1024 + off + off) = true).
  { change (max_possible_position (set_tail l 1 (wtid * two32 + (off + 32)))) with 2199023255552. unfold two31. lia. }
  rewrite Emax. f_equal. f_equal.
  replace (1024 + 32 * (j + 1)) with (off + 32) by (unfold off; ring). reflexivity. Qed.

Lemma wrun m rv k : forall j, 0 <= j -> 1024 + 32 * (j + Z.of_nat k) <= two31 ->
  pub_run m rv (wstate j) (repeat (Claim 0) k) = wstate (j + Z.of_nat k) /\ Forall (op_ok (ps_log (wstate j))) (repeat (Claim 0) k).
Proof. induction k as [|k IH]; intros j Hj Hb.
  - cbn [repeat pub_run]. rewrite Z.add_0_r. split; [reflexivity|constructor].
  - cbn [repeat pub_run]. rewrite wstep by lia. cbn [fst].
    destruct (IH (j + 1) ltac:(lia) ltac:(lia)) as [I1 I2]. split.
    + rewrite I1. f_equal. lia.
    + constructor; [cbn; lia|]. eapply Forall_impl; [|exact I2]. intros a. apply op_ok_same. reflexivity. Qed.

(* a history from a legal hand-over point, legal in every respect but the limit contract - the limit is raised to 2^62, then
   67108832 = (2^31 - 1024) / 32 claims of zero bytes are each answered MaxPositionExceeded and bump the tail counter - after
   which one more claim of zero bytes is answered with a panic (debug: the term count overflows) or rotates the log out of the
   last term and reports AdminAction while the term count leaves 0 .. 2^31-1 (release); C04_total / C04_trip / C04_max exclude both *)
Lemma limit_contract_needed_k k : Z.of_nat k = 67108832 ->
  let ops := SetLimit WLIMIT :: repeat (Claim 0) k in
  Forall op_ok_any ops /\
  pub_run Debug harness_rv (pub_init wl0) ops = wstate 67108832 /\
  pub_run Release harness_rv (pub_init wl0) ops = wstate 67108832.
Proof. intros Hk. cbv zeta. split.
  { constructor; [exact I|]. clear Hk. induction k; cbn [repeat]; constructor; [cbn; lia|assumption]. }
  assert (Hrun : forall m, pub_run m harness_rv (pub_init wl0) (SetLimit WLIMIT :: repeat (Claim 0) k) = wstate 67108832).
  { intros m. cbn [pub_run]. assert (E : fst (pub_step m harness_rv (pub_init wl0) (SetLimit WLIMIT)) = wstate 0) by (destruct m; vm_compute; reflexivity).
    rewrite E. destruct (wrun m harness_rv k 0 ltac:(lia)) as [H _].
    - rewrite Hk. unfold two31. lia.
    - rewrite H. rewrite Hk. reflexivity. }
  split; apply Hrun. Qed.

Theorem limit_contract_needed :
  (exists bits, 10 <= bits <= 30 /\ 1024 = 2 ^ bits) /\
  (exists k, Z.of_nat k = 67108832 /\
     let ops := SetLimit WLIMIT :: repeat (Claim 0) k in
     Forall op_ok_any ops /\
     pub_run Debug harness_rv (pub_init wl0) ops = wstate 67108832 /\
     pub_run Release harness_rv (pub_init wl0) ops = wstate 67108832) /\
  snd (pub_step Debug harness_rv (wstate 67108832) (Claim 0)) = Panic /\
  snd (pub_step Release harness_rv (wstate 67108832) (Claim 0)) = Err AdminAction /\
  l_count (ps_log (fst (pub_step Release harness_rv (wstate 67108832) (Claim 0)))) = - two31.
Proof. split; [exists 10; split; [lia|reflexivity]|]. split.
  { exists (Z.to_nat 67108832). split; [apply Z2Nat.id; lia|]. apply limit_contract_needed_k. apply Z2Nat.id. lia. }
  split; [vm_compute; reflexivity|]. split; vm_compute; reflexivity. Qed.
