(* One publisher machine running alone: the small steps of one attempt (one call of offer_opt) collapse to a
   big step.  `att c t s l s' l'` = thread t, started in local state l on shared state s, takes admissible steps,
   nobody else moves, until its attempt finishes (a result is recorded) in (s', l').
   This file: the write of one frame slot, the fragment loop, the padding frame, rotate_log. *)
Require Import V.Base.MachineInt.
Require Import V.Generated.GenConsts.
Require Import V.Model.LogBase.
Require Import V.Model.Descriptor.
Require Import V.Model.Sched.
Require Import V.Model.AppenderThreads.
Require Import V.Proofs.TailArith.
Require Import V.Proofs.FragArith.
Require Import V.Proofs.AppenderInv.
Require Import V.Proofs.AppenderLemmas.
From Coq Require Import ZifyBool.
Open Scope Z_scope.

Definition P1 (t : nat) (l : plocal) : nat -> option plocal := fun t' => if Nat.eqb t' t then Some l else None.

Inductive att (c : cfg) (t : nat) : shared -> plocal -> shared -> plocal -> Prop :=
| att_last s l s1 l1 e :
    adm_pub c s (P1 t l) l -> pstep c t s l = Some (s1, l1, e) -> p_res l1 <> p_res l -> att c t s l s1 l1
| att_step s l s1 l1 e s2 l2 :
    adm_pub c s (P1 t l) l -> pstep c t s l = Some (s1, l1, e) -> p_res l1 = p_res l -> att c t s1 l1 s2 l2 -> att c t s l s2 l2.

Lemma att_inv c t s l s2 l2 : att c t s l s2 l2 ->
  exists s1 l1 e, adm_pub c s (P1 t l) l /\ pstep c t s l = Some (s1, l1, e) /\
    ((p_res l1 <> p_res l /\ s2 = s1 /\ l2 = l1) \/ (p_res l1 = p_res l /\ att c t s1 l1 s2 l2)).
Proof. intros H. inversion H; subst; do 3 eexists; (split; [eassumption|]); (split; [eassumption|]); [left | right]; auto. Qed.

Lemma p_res_start todo b res : p_res (p_start todo b res) = res.
Proof. unfold p_start. destruct todo; destruct b; reflexivity. Qed.
Lemma p_res_finish r l : p_res (finish r l) = p_res l ++ [r].
Proof. unfold finish. apply p_res_start. Qed.
Lemma res_finish_ne r l l0 : p_res l0 = p_res l -> p_res (finish r l0) <> p_res l.
Proof. intros E H. rewrite p_res_finish, E in H. apply (f_equal (@length _)) in H. rewrite app_length in H. cbn in H. lia. Qed.

(* finish depends only on the message list, the budget and the results so far *)
Lemma finish_ext r l l0 : p_todo l0 = p_todo l -> p_budget l0 = p_budget l -> p_res l0 = p_res l -> finish r l0 = finish r l.
Proof. intros E1 E2 E3. unfold finish. rewrite E1, E2, E3. reflexivity. Qed.

(* the attempt continues (the step did not record a result) / ends here *)
Lemma att_cont c t s l s2 l2 s1 l1 e : att c t s l s2 l2 -> pstep c t s l = Some (s1, l1, e) -> p_res l1 = p_res l ->
  adm_pub c s (P1 t l) l /\ att c t s1 l1 s2 l2.
Proof. intros H Hs Hr. destruct (att_inv _ _ _ _ _ _ H) as (s1' & l1' & e' & Ha & Hs' & Hc). rewrite Hs in Hs'. inversion Hs'; subst.
  split; [assumption|]. destruct Hc as [(Hne & _) | (_ & Hc)]; [contradiction | assumption]. Qed.

Lemma att_end c t s l s2 l2 s1 l1 e : att c t s l s2 l2 -> pstep c t s l = Some (s1, l1, e) -> p_res l1 <> p_res l ->
  adm_pub c s (P1 t l) l /\ s2 = s1 /\ l2 = l1.
Proof. intros H Hs Hr. destruct (att_inv _ _ _ _ _ _ H) as (s1' & l1' & e' & Ha & Hs' & Hc). rewrite Hs in Hs'. inversion Hs'; subst.
  split; [assumption|]. destruct Hc as [(_ & E1 & E2) | (E & _)]; [auto | contradiction]. Qed.

(* the meta data of the log is untouched *)
Definition same_meta (s s' : shared) : Prop :=
  sh_tail s' = sh_tail s /\ sh_count s' = sh_count s /\ sh_limit s' = sh_limit s /\ sh_conn s' = sh_conn s /\ sh_subpos s' = sh_subpos s.
Lemma same_meta_refl s : same_meta s s. Proof. repeat split. Qed.
Lemma same_meta_mem s m : same_meta s (with_mem s m). Proof. repeat split. Qed.
Lemma same_meta_trans a b d : same_meta a b -> same_meta b d -> same_meta a d.
Proof. unfold same_meta. intuition congruence. Qed.

(* a write to the slot the thread works on *)
Definition wr (s : shared) (l : plocal) (o : Z) (f : slot -> slot) : shared :=
  with_mem s (mupd (sh_mem s) (r_idx l) o (f (sh_mem s (r_idx l) o))).

Lemma wr_same s l o f : sh_mem (wr s l o f) (r_idx l) o = f (sh_mem s (r_idx l) o).
Proof. unfold wr. cbn [with_mem sh_mem]. apply mupd_same. Qed.
Lemma wr_other s l o f p' o' : (p', o') <> (r_idx l, o) -> sh_mem (wr s l o f) p' o' = sh_mem s p' o'.
Proof. intros H. unfold wr. cbn [with_mem sh_mem]. apply mupd_other. assumption. Qed.
Lemma wr_meta s l o f : same_meta s (wr s l o f).
Proof. apply same_meta_mem. Qed.

Ltac recnorm :=
  unfold after_commit, after_eol, after_faa, after_read_tail, pl_pc, pl_limit, pl_count, pl_raw, pl_faa, pl_frag, pl_next, frag_bytes, frag_len, frag_flags, frag_body,
         finish, ok_position, r_pos, r_off, r_tid, r_idx, f_off, f_tid, mlen, cur_msg, next_index, next_tid;
  cbn [p_pc p_todo p_budget p_res p_limit p_count p_raw p_faa p_foff p_rem p_flags p_next].

Section Solo.
  Variable c : cfg.
  Hypothesis W : wf_cfg c.
  Variable t : nat.

  (* the steps of the writer, on canonical local states *)
  Lemma st_PNegLen s l : p_pc l = PNegLen -> exists e,
    pstep c t s l = Some (wr s l (p_foff l) (fun x => set_len x (- flen c (p_rem l))), pl_pc l PHdr, e).
  Proof. intros H. unfold pstep. rewrite H. eexists. reflexivity. Qed.
  Lemma st_PHdr s l : exists e,
    pstep c t s (pl_pc l PHdr) = Some (wr s l (p_foff l) (fun x => set_hdr c x (p_foff l) (f_tid l)), pl_pc l PBody, e).
  Proof. eexists. reflexivity. Qed.
  Lemma st_PBody s l : exists e,
    pstep c t s (pl_pc l PBody) = Some (wr s l (p_foff l) (fun x => set_body x (fbody c (cur_msg l) (p_rem l))),
                                        pl_pc l (if is_fragmented c (mlen l) then PFlags else PResv), e).
  Proof. eexists. reflexivity. Qed.
  Lemma st_PFlags s l : exists e,
    pstep c t s (pl_pc l PFlags) = Some (wr s l (p_foff l) (fun x => set_flags x (fflags c (p_rem l) (p_flags l))), pl_pc l PResv, e).
  Proof. eexists. reflexivity. Qed.
  Lemma st_PResv s l : exists e,
    pstep c t s (pl_pc l PResv) = Some (wr s l (p_foff l) (fun x => set_resv x 0), pl_pc l PPosLen, e).
  Proof. eexists. reflexivity. Qed.
  Lemma after_commit_pc l pc : after_commit c (pl_pc l pc) = after_commit c l.
  Proof. destruct l as [a1 a2 a3 a4 a5 a6 a7 a8 a9 a10 a11 a12]. recnorm. reflexivity. Qed.
  Lemma st_PPosLen s l : exists e,
    pstep c t s (pl_pc l PPosLen) = Some (wr s l (p_foff l) (fun x => set_len x (flen c (p_rem l))), after_commit c l, e).
  Proof. unfold pstep. cbn [p_pc pl_pc]. rewrite after_commit_pc. eexists. reflexivity. Qed.

  (* ---- one data frame: six (unfragmented: five) accesses to one slot ---- *)
  Lemma solo_slot s l s' l' : att c t s l s' l' -> p_pc l = PNegLen ->
    sh_mem s (r_idx l) (p_foff l) = zslot ->
    exists s6, same_meta s s6 /\
      (forall p o, sh_mem s6 p o = mupd (sh_mem s) (r_idx l) (p_foff l) (st6 c (f_tid l) (cur_msg l) (p_foff l) (p_rem l) (p_flags l)) p o) /\
      ((p_rem l - fbytes c (p_rem l) <= 0 /\ s' = s6 /\ l' = finish (ok_position c l) l) \/
       (0 < p_rem l - fbytes c (p_rem l) /\
        att c t s6 (pl_frag l PNegLen (p_foff l + align (flen c (p_rem l)) FA) (p_rem l - fbytes c (p_rem l)) 0) s' l')).
  Proof. intros H Hpc Hz.
    destruct (st_PNegLen s l Hpc) as (e1 & S1). destruct (att_cont _ _ _ _ _ _ _ _ _ H S1 eq_refl) as (_ & H1). clear H S1.
    set (s1 := wr s l (p_foff l) _) in *.
    destruct (st_PHdr s1 l) as (e2 & S2). destruct (att_cont _ _ _ _ _ _ _ _ _ H1 S2 eq_refl) as (_ & H2). clear H1 S2.
    set (s2 := wr s1 l (p_foff l) _) in *.
    destruct (st_PBody s2 l) as (e3 & S3). destruct (att_cont _ _ _ _ _ _ _ _ _ H2 S3 eq_refl) as (_ & H3). clear H2 S3.
    set (s3 := wr s2 l (p_foff l) _) in *.
    assert (E3 : sh_mem s3 (r_idx l) (p_foff l) = st3 c (f_tid l) (cur_msg l) (p_foff l) (p_rem l)).
    { unfold s3, s2, s1. rewrite !wr_same, Hz. reflexivity. }
    assert (O3 : forall p' o', (p', o') <> (r_idx l, p_foff l) -> sh_mem s3 p' o' = sh_mem s p' o').
    { intros p' o' Hne. unfold s3, s2, s1. rewrite !wr_other by assumption. reflexivity. }
    assert (M3 : same_meta s s3) by (repeat split).
    assert (K : exists s5, att c t s5 (pl_pc l PPosLen) s' l' /\ same_meta s s5 /\
                  sh_mem s5 (r_idx l) (p_foff l) = st5 c (f_tid l) (cur_msg l) (p_foff l) (p_rem l) (p_flags l) /\
                  (forall p' o', (p', o') <> (r_idx l, p_foff l) -> sh_mem s5 p' o' = sh_mem s p' o')).
    { destruct (is_fragmented c (mlen l)) eqn:Efr.
      - destruct (st_PFlags s3 l) as (e4 & S4). destruct (att_cont _ _ _ _ _ _ _ _ _ H3 S4 eq_refl) as (_ & H4). clear H3 S4.
        set (s4 := wr s3 l (p_foff l) _) in *.
        destruct (st_PResv s4 l) as (e5 & S5). destruct (att_cont _ _ _ _ _ _ _ _ _ H4 S5 eq_refl) as (_ & H5). clear H4 S5.
        eexists. split; [exact H5|]. split; [repeat split|]. split.
        + unfold s4. rewrite !wr_same, E3. unfold st5, st4. change (zlen (cur_msg l)) with (mlen l). rewrite Efr. reflexivity.
        + intros p' o' Hne. unfold s4. rewrite !wr_other by assumption. apply O3. assumption.
      - destruct (st_PResv s3 l) as (e5 & S5). destruct (att_cont _ _ _ _ _ _ _ _ _ H3 S5 eq_refl) as (_ & H5). clear H3 S5.
        eexists. split; [exact H5|]. split; [repeat split|]. split.
        + rewrite !wr_same, E3. unfold st5, st4. change (zlen (cur_msg l)) with (mlen l). rewrite Efr. reflexivity.
        + intros p' o' Hne. rewrite !wr_other by assumption. apply O3. assumption. }
    destruct K as (s5 & H5 & M5 & E5 & O5).
    destruct (st_PPosLen s5 l) as (e6 & S6).
    set (s6 := wr s5 l (p_foff l) (fun x => set_len x (flen c (p_rem l)))) in *.
    exists s6. split; [eapply same_meta_trans; [exact M5 | apply wr_meta]|]. split.
    - intros p' o'. unfold mupd.
      destruct ((p' =? r_idx l) && (o' =? p_foff l)) eqn:E.
      + assert (p' = r_idx l /\ o' = p_foff l) as (-> & ->) by lia. unfold s6. rewrite wr_same, E5. reflexivity.
      + unfold s6. rewrite wr_other; [apply O5|]; intros X; inversion X; subst; rewrite !Z.eqb_refl in E; discriminate.
    - unfold after_commit in S6. change (frag_bytes c l) with (fbytes c (p_rem l)) in S6. change (frag_len c l) with (flen c (p_rem l)) in S6.
      destruct (p_rem l - fbytes c (p_rem l) <=? 0) eqn:E.
      + left. destruct (att_end _ _ _ _ _ _ _ _ _ H5 S6) as (_ & -> & ->); [apply res_finish_ne; reflexivity|].
        split; [lia | split; reflexivity].
      + right. split; [lia|]. destruct (att_cont _ _ _ _ _ _ _ _ _ H5 S6 eq_refl) as (_ & X). exact X. Qed.

  Lemma ok_position_frag l pc a b d : ok_position c (pl_frag l pc a b d) = ok_position c l.
  Proof. destruct l as [a1 a2 a3 a4 a5 a6 a7 a8 a9 a10 a11 a12]. recnorm. reflexivity. Qed.

  (* ---- the fragment loop ---- *)
  Lemma solo_frags : forall fuel s l s' l', att c t s l s' l' -> p_pc l = PNegLen -> 0 <= p_rem l -> (Z.to_nat (p_rem l) <= fuel)%nat ->
    (forall o, p_foff l <= o -> sh_mem s (r_idx l) o = zslot) ->
    let frs := frags_from c (f_tid l) (cur_msg l) fuel (p_foff l) (p_rem l) (p_flags l) in
    l' = finish (ok_position c l) l /\ same_meta s s' /\
    (forall o sl, In (o, sl) frs -> sh_mem s' (r_idx l) o = sl) /\
    (forall p o, p <> r_idx l \/ (forall sl, ~ In (o, sl) frs) -> sh_mem s' p o = sh_mem s p o).
  Proof. pose proof (mp_pos c W) as [Hmp _].
    induction fuel as [|f IH]; intros s l s' l' H Hpc Hr Hf Hz; cbn zeta; cbn [frags_from].
    - assert (E0 : p_rem l = 0) by lia.
      destruct (solo_slot s l s' l' H Hpc (Hz (p_foff l) ltac:(lia))) as (s6 & M6 & E6 & [(Hle & -> & ->) | (Hgt & _)]); [|unfold fbytes in Hgt; lia].
      replace (p_rem l - fbytes c (p_rem l) <=? 0) with true by lia.
      split; [reflexivity|]. split; [assumption|]. split.
      + intros o sl [E | []]. inversion E; subst. rewrite E6. apply mupd_same.
      + intros p o Hor. rewrite E6. apply mupd_other. intros X. inversion X; subst. destruct Hor as [Hp | Hn]; [congruence|]. apply (Hn _ (or_introl eq_refl)).
    - destruct (solo_slot s l s' l' H Hpc (Hz (p_foff l) ltac:(lia))) as (s6 & M6 & E6 & [(Hle & -> & ->) | (Hgt & H6)]).
      + replace (p_rem l - fbytes c (p_rem l) <=? 0) with true by lia.
        split; [reflexivity|]. split; [assumption|]. split.
        * intros o sl [E | []]. inversion E; subst. rewrite E6. apply mupd_same.
        * intros p o Hor. rewrite E6. apply mupd_other. intros X. inversion X; subst. destruct Hor as [Hp | Hn]; [congruence|]. apply (Hn _ (or_introl eq_refl)).
      + replace (p_rem l - fbytes c (p_rem l) <=? 0) with false by lia.
        set (l2 := pl_frag l PNegLen (p_foff l + align (flen c (p_rem l)) FA) (p_rem l - fbytes c (p_rem l)) 0) in *.
        assert (Hal : p_foff l < p_foff l + align (flen c (p_rem l)) FA).
        { pose proof (align_pos (flen c (p_rem l)) ltac:(unfold flen, fbytes; rewrite HDR_32; lia)) as [A _]. rewrite FA_32. unfold flen, fbytes in *. rewrite HDR_32 in *. lia. }
        destruct (IH s6 l2 s' l' H6 eq_refl) as (I1 & I2 & I3 & I4).
        * unfold l2. cbn [pl_frag p_rem]. lia.
        * unfold l2. cbn [pl_frag p_rem]. unfold fbytes in *. lia.
        * intros o Ho. change (r_idx l2) with (r_idx l). unfold l2 in Ho. cbn [pl_frag p_foff] in Ho. rewrite E6. rewrite mupd_other_off by lia. apply Hz. lia.
        * change (r_idx l2) with (r_idx l) in *. change (f_tid l2) with (f_tid l) in *. change (cur_msg l2) with (cur_msg l) in *.
          change (p_foff l2) with (p_foff l + align (flen c (p_rem l)) FA) in *. change (p_rem l2) with (p_rem l - fbytes c (p_rem l)) in *.
          change (p_flags l2) with 0 in *.
          pose proof (frags_from_laid c (f_tid l) (cur_msg l) W f (p_foff l + align (flen c (p_rem l)) FA) (p_rem l - fbytes c (p_rem l)) 0
                        ltac:(lia) ltac:(unfold fbytes in *; lia)) as Lr.
          destruct (laid_bounds _ _ _ _ Lr) as (_ & Br).
          split; [rewrite I1; unfold l2; rewrite ok_position_frag; apply finish_ext; reflexivity|].
          split; [eapply same_meta_trans; eauto|]. split.
          -- intros o sl [E | Hin]; [|apply I3; assumption]. inversion E; subst.
             rewrite I4; [rewrite E6; apply mupd_same|]. right. intros sl' Hin. destruct (Br _ _ Hin) as (B1 & _). lia.
          -- intros p o Hor. rewrite I4.
             ++ rewrite E6. apply mupd_other. intros X. inversion X; subst. destruct Hor as [Hp | Hn]; [congruence|]. apply (Hn _ (or_introl eq_refl)).
             ++ destruct Hor as [Hp | Hn]; [left; assumption | right]. intros sl Hin. apply (Hn sl). right. assumption. Qed.

  (* ---- the padding frame ---- *)
  Lemma st_ENegLen s l : p_pc l = ENegLen -> exists e,
    pstep c t s l = Some (wr s l (f_off l) (fun x => set_len x (- (TL c - f_off l))), pl_pc l EHdr, e).
  Proof. intros H. unfold pstep. rewrite H. eexists. reflexivity. Qed.
  Lemma st_EHdr s l : exists e,
    pstep c t s (pl_pc l EHdr) = Some (wr s l (f_off l) (fun x => set_hdr c x (f_off l) (f_tid l)), pl_pc l EType, e).
  Proof. eexists. reflexivity. Qed.
  Lemma st_EType s l : exists e,
    pstep c t s (pl_pc l EType) = Some (wr s l (f_off l) (fun x => set_type x T_PAD), pl_pc l EPosLen, e).
  Proof. eexists. reflexivity. Qed.
  Lemma after_eol_pc l pc : after_eol c (pl_pc l pc) = if max_pos c <? r_pos c l + wrap32 (r_off l) then finish (Err MaxPositionExceeded) l else pl_pc l RReadNext.
  Proof. destruct l as [a1 a2 a3 a4 a5 a6 a7 a8 a9 a10 a11 a12]. recnorm. reflexivity. Qed.
  Lemma st_EPosLen s l : exists e,
    pstep c t s (pl_pc l EPosLen) = Some (wr s l (f_off l) (fun x => set_len x (TL c - f_off l)),
      (if max_pos c <? r_pos c l + wrap32 (r_off l) then finish (Err MaxPositionExceeded) l else pl_pc l RReadNext), e).
  Proof. unfold pstep. cbn [p_pc pl_pc]. rewrite after_eol_pc. eexists. reflexivity. Qed.

  Lemma solo_pad s l s' l' : att c t s l s' l' -> p_pc l = ENegLen -> sh_mem s (r_idx l) (f_off l) = zslot ->
    exists s4, same_meta s s4 /\
      (forall p o, sh_mem s4 p o = mupd (sh_mem s) (r_idx l) (f_off l) (pd4 c (f_tid l) (f_off l)) p o) /\
      (((max_pos c <? r_pos c l + wrap32 (r_off l)) = true /\ s' = s4 /\ l' = finish (Err MaxPositionExceeded) l) \/
       ((max_pos c <? r_pos c l + wrap32 (r_off l)) = false /\ att c t s4 (pl_pc l RReadNext) s' l')).
  Proof. intros H Hpc Hz.
    destruct (st_ENegLen s l Hpc) as (e1 & S1). destruct (att_cont _ _ _ _ _ _ _ _ _ H S1 eq_refl) as (_ & H1). clear H S1.
    set (s1 := wr s l (f_off l) _) in *.
    destruct (st_EHdr s1 l) as (e2 & S2). destruct (att_cont _ _ _ _ _ _ _ _ _ H1 S2 eq_refl) as (_ & H2). clear H1 S2.
    set (s2 := wr s1 l (f_off l) _) in *.
    destruct (st_EType s2 l) as (e3 & S3). destruct (att_cont _ _ _ _ _ _ _ _ _ H2 S3 eq_refl) as (_ & H3). clear H2 S3.
    set (s3 := wr s2 l (f_off l) _) in *.
    destruct (st_EPosLen s3 l) as (e4 & S4).
    set (s4 := wr s3 l (f_off l) (fun x => set_len x (TL c - f_off l))) in *.
    exists s4. split; [repeat split|]. split.
    - intros p' o'. unfold mupd. destruct ((p' =? r_idx l) && (o' =? f_off l)) eqn:E.
      + assert (p' = r_idx l /\ o' = f_off l) as (-> & ->) by lia. unfold s4, s3, s2, s1. rewrite !wr_same, Hz. reflexivity.
      + assert (Hne : (p', o') <> (r_idx l, f_off l)) by (intros X; inversion X; subst; rewrite !Z.eqb_refl in E; discriminate).
        unfold s4, s3, s2, s1. rewrite !wr_other by assumption. reflexivity.
    - destruct (max_pos c <? r_pos c l + wrap32 (r_off l)) eqn:E.
      + left. destruct (att_end _ _ _ _ _ _ _ _ _ H3 S4) as (_ & -> & ->); [apply res_finish_ne; reflexivity|]. auto.
      + right. destruct (att_cont _ _ _ _ _ _ _ _ _ H3 S4 eq_refl) as (_ & X). auto. Qed.

  (* ---- rotate_log ---- *)
  Definition rot_tail (s : shared) (l : plocal) : shared :=
    if term_id_of (sh_tail s (next_index l)) =? wrap32 (next_tid l - PARTITION_COUNT)
    then with_tail s (next_index l) (raw_tail_of_term (next_tid l)) else s.
  Definition rot (s : shared) (l : plocal) : shared :=
    let s1 := rot_tail s l in if sh_count s1 =? p_count l then with_count s1 (p_count l + 1) else s1.

  Lemma st_RReadNext s l : exists e,
    pstep c t s (pl_pc l RReadNext) =
    Some (s, pl_next l (if term_id_of (sh_tail s (next_index l)) =? wrap32 (next_tid l - PARTITION_COUNT) then RCasTail else RCasCount)
                     (sh_tail s (next_index l)), e).
  Proof. eexists. reflexivity. Qed.
  Lemma st_RCasTail s l v : exists e,
    pstep c t s (pl_next l RCasTail v) =
    Some ((if sh_tail s (next_index l) =? v then with_tail s (next_index l) (raw_tail_of_term (next_tid l)) else s),
          pl_pc (pl_next l RCasTail v) (if sh_tail s (next_index l) =? v then RCasCount else RReadNext), e).
  Proof. eexists. reflexivity. Qed.
  Lemma finish_next r l pc v pc' : finish r (pl_pc (pl_next l pc v) pc') = finish r l.
  Proof. apply finish_ext; reflexivity. Qed.
  Lemma finish_next' r l pc v : finish r (pl_next l pc v) = finish r l.
  Proof. apply finish_ext; reflexivity. Qed.
  Lemma st_RCasCount s l0 l : p_pc l0 = RCasCount -> p_count l0 = p_count l -> finish (Err AdminAction) l0 = finish (Err AdminAction) l -> exists e,
    pstep c t s l0 = Some ((if sh_count s =? p_count l then with_count s (p_count l + 1) else s), finish (Err AdminAction) l, e).
  Proof. intros H1 H2 H3. unfold pstep. rewrite H1, H2, H3. eexists. reflexivity. Qed.

  Lemma solo_rot s l s' l' : att c t s (pl_pc l RReadNext) s' l' ->
    s' = rot s l /\ l' = finish (Err AdminAction) l /\
    ((term_id_of (sh_tail s (next_index l)) =? wrap32 (next_tid l - PARTITION_COUNT)) = true -> forall o, sh_mem s (next_index l) o = zslot) /\
    (sh_count s = p_count l -> p_count l + 1 <= GB).
  Proof. intros H. destruct (st_RReadNext s l) as (e1 & S1). destruct (att_cont _ _ _ _ _ _ _ _ _ H S1 eq_refl) as (_ & H1). clear H S1.
    unfold rot, rot_tail. destruct (term_id_of (sh_tail s (next_index l)) =? wrap32 (next_tid l - PARTITION_COUNT)) eqn:E.
    - destruct (st_RCasTail s l (sh_tail s (next_index l))) as (e2 & S2).
      destruct (att_cont _ _ _ _ _ _ _ _ _ H1 S2 eq_refl) as (Adm & H2). clear H1 S2.
      rewrite Z.eqb_refl in H2.
      set (s1 := with_tail s (next_index l) (raw_tail_of_term (next_tid l))) in *.
      destruct (st_RCasCount s1 (pl_pc (pl_next l RCasTail (sh_tail s (next_index l))) RCasCount) l eq_refl eq_refl (finish_next _ _ _ _ _)) as (e3 & S3).
      destruct (att_end _ _ _ _ _ _ _ _ _ H2 S3) as (Adm3 & -> & ->); [apply res_finish_ne; reflexivity|].
      split; [reflexivity|]. split; [reflexivity|]. split.
      + intros _. unfold adm_pub in Adm. cbn [p_pc pl_next] in Adm. apply Adm. reflexivity.
      + unfold adm_pub in Adm3. cbn [p_pc pl_pc] in Adm3. exact Adm3.
    - destruct (st_RCasCount s (pl_next l RCasCount (sh_tail s (next_index l))) l eq_refl eq_refl (finish_next' _ _ _ _)) as (e3 & S3).
      destruct (att_end _ _ _ _ _ _ _ _ _ H1 S3) as (Adm3 & -> & ->); [apply res_finish_ne; reflexivity|].
      split; [reflexivity|]. split; [reflexivity|]. split; [intros X; discriminate X|].
      unfold adm_pub in Adm3. cbn [p_pc pl_next] in Adm3. exact Adm3. Qed.

  (* ---- the head of offer_opt and the whole attempt ---- *)
  Lemma st_PReadLimit s l : p_pc l = PReadLimit -> exists e, pstep c t s l = Some (s, pl_limit l (sh_limit s), e).
  Proof. intros H. unfold pstep. rewrite H. eexists. reflexivity. Qed.
  Lemma st_PReadCount s l v : exists e, pstep c t s (pl_limit l v) = Some (s, pl_count (pl_limit l v) (sh_count s), e).
  Proof. eexists. reflexivity. Qed.
  Lemma st_PReadTail s l v w : exists e,
    pstep c t s (pl_count (pl_limit l v) w) =
    Some (s, after_read_tail c (pl_raw (pl_count (pl_limit l v) w) (sh_tail s (index_by_term_count w))), e).
  Proof. eexists. reflexivity. Qed.
  Lemma st_PBackPressure s l : exists e,
    pstep c t s (pl_pc l PBackPressure) = Some (s, finish (Err (if sh_conn s =? 1 then BackPressured else NotConnected)) l, e).
  Proof. unfold pstep. cbn [p_pc pl_pc]. rewrite (finish_ext _ l (pl_pc l PBackPressure)) by reflexivity. eexists. reflexivity. Qed.

  (* the local state after the three reads / after the get_and_add *)
  Definition Lof (s : shared) (l : plocal) : plocal :=
    pl_raw (pl_count (pl_limit l (sh_limit s)) (sh_count s)) (sh_tail s (index_by_term_count (sh_count s))).
  Definition Lfof (s : shared) (l : plocal) : plocal := pl_faa (Lof s l) (sh_tail s (index_by_term_count (sh_count s))).

  Lemma after_faa_eq L pc raw : p_raw L = raw ->
    after_faa c (pl_faa (pl_pc L pc) raw) =
    let Lf := pl_faa L raw in
    if TL c <? f_off Lf + required c (mlen Lf) then
      (if f_off Lf <? TL c then pl_pc Lf ENegLen
       else if max_pos c <? r_pos c Lf + wrap32 (r_off Lf) then finish (Err MaxPositionExceeded) Lf else pl_pc Lf RReadNext)
    else pl_frag Lf PNegLen (f_off Lf) (mlen Lf) F_BEGIN.
  Proof. destruct L as [a1 a2 a3 a4 a5 a6 a7 a8 a9 a10 a11 a12]. cbn [p_raw]. intros ->. recnorm. rewrite Z.eqb_refl. reflexivity. Qed.

  Lemma st_PFaa s L : exists e,
    pstep c t s (pl_pc L PFaa) =
    Some (with_tail s (r_idx L) (wrap64 (sh_tail s (r_idx L) + required c (mlen L))), after_faa c (pl_faa (pl_pc L PFaa) (sh_tail s (r_idx L))), e).
  Proof. eexists. reflexivity. Qed.

  (* what one attempt run alone does to the shared state, and its result *)
  Definition big (s : shared) (l : plocal) (s' : shared) (r : outcome Z) : Prop :=
    let L := Lof s l in let Lf := Lfof s l in
    let n := mlen l in let p := index_by_term_count (sh_count s) in let raw := sh_tail s p in
    if negb (p_count L =? wrap32 (r_tid L - c_init c)) then s' = s /\ r = Err AdminAction
    else if r_pos c L <? p_limit L then
      if is_fragmented c n && (max_msg c <? n) then s' = s /\ r = Err TooLong
      else
        let d := required c n in
        let s1 := with_tail s p (wrap64 (raw + d)) in
        lo32u raw + d < two32 /\
        if TL c <? f_off Lf + d then
          exists s2,
            (if f_off Lf <? TL c
             then same_meta s1 s2 /\ (forall p' o', sh_mem s2 p' o' = mupd (sh_mem s) p (f_off Lf) (pd4 c (f_tid Lf) (f_off Lf)) p' o')
             else s2 = s1) /\
            (if max_pos c <? r_pos c Lf + wrap32 (r_off Lf) then s' = s2 /\ r = Err MaxPositionExceeded
             else s' = rot s2 Lf /\ r = Err AdminAction /\
                  ((term_id_of (sh_tail s2 (next_index Lf)) =? wrap32 (next_tid Lf - PARTITION_COUNT)) = true ->
                   forall o, sh_mem s2 (next_index Lf) o = zslot) /\
                  (sh_count s2 = p_count Lf -> p_count Lf + 1 <= GB))
        else
          let frs := frags_from c (f_tid Lf) (cur_msg l) (Z.to_nat n) (f_off Lf) n F_BEGIN in
          r = ok_position c Lf /\ same_meta s1 s' /\
          (forall o sl, In (o, sl) frs -> sh_mem s' p o = sl) /\
          (forall p' o', p' <> p \/ (forall sl, ~ In (o', sl) frs) -> sh_mem s' p' o' = sh_mem s p' o')
    else if max_pos c <=? r_pos c L + n then s' = s /\ r = Err MaxPositionExceeded
    else s' = s /\ r = Err (if sh_conn s =? 1 then BackPressured else NotConnected).

  Theorem solo_big s l s' l' : att c t s l s' l' -> p_pc l = PReadLimit ->
    (forall o, lo32u (sh_tail s (index_by_term_count (sh_count s))) <= o -> sh_mem s (index_by_term_count (sh_count s)) o = zslot) ->
    exists r, l' = finish r l /\ big s l s' r.
  Proof. intros H Hpc Hz.
    destruct (st_PReadLimit s l Hpc) as (e1 & S1). destruct (att_cont _ _ _ _ _ _ _ _ _ H S1 eq_refl) as (_ & H1). clear H S1.
    destruct (st_PReadCount s l (sh_limit s)) as (e2 & S2). destruct (att_cont _ _ _ _ _ _ _ _ _ H1 S2 eq_refl) as (_ & H2). clear H1 S2.
    destruct (st_PReadTail s l (sh_limit s) (sh_count s)) as (e3 & S3). fold (Lof s l) in S3.
    unfold big. cbv zeta. set (L := Lof s l) in *. set (Lf := Lfof s l) in *.
    assert (FL : forall r, finish r L = finish r l) by (intros; apply finish_ext; reflexivity).
    assert (FLf : forall r, finish r Lf = finish r l) by (intros; apply finish_ext; reflexivity).
    change (mlen l) with (mlen L). unfold after_read_tail in S3.
    destruct (negb (p_count L =? wrap32 (r_tid L - c_init c))).
    { rewrite FL in S3. destruct (att_end _ _ _ _ _ _ _ _ _ H2 S3) as (_ & -> & ->); [apply res_finish_ne; reflexivity|]. eauto. }
    destruct (r_pos c L <? p_limit L).
    - destruct (is_fragmented c (mlen L) && (max_msg c <? mlen L)).
      { rewrite FL in S3. destruct (att_end _ _ _ _ _ _ _ _ _ H2 S3) as (_ & -> & ->); [apply res_finish_ne; reflexivity|]. eauto. }
      destruct (att_cont _ _ _ _ _ _ _ _ _ H2 S3 eq_refl) as (_ & H3). clear H2 S3.
      destruct (st_PFaa s L) as (e4 & S4).
      assert (Adm : lo32u (sh_tail s (index_by_term_count (sh_count s))) + required c (mlen L) < two32).
      { destruct (att_inv _ _ _ _ _ _ H3) as (? & ? & ? & A & _). unfold adm_pub in A. cbn [p_pc pl_pc] in A. apply A. }
      change (r_idx L) with (index_by_term_count (sh_count s)) in S4.
      rewrite (after_faa_eq L PFaa (sh_tail s (index_by_term_count (sh_count s))) eq_refl) in S4. cbv zeta in S4. change (pl_faa L (sh_tail s (index_by_term_count (sh_count s)))) with Lf in S4. change (mlen Lf) with (mlen L) in *.
      set (s1 := with_tail s (index_by_term_count (sh_count s)) _) in *.
      destruct (TL c <? f_off Lf + required c (mlen L)) eqn:Etrip.
      + destruct (f_off Lf <? TL c) eqn:Ein.
        * destruct (att_cont _ _ _ _ _ _ _ _ _ H3 S4 eq_refl) as (_ & H4). clear H3 S4.
          destruct (solo_pad s1 (pl_pc Lf ENegLen) s' l' H4 eq_refl) as (s4 & M4 & E4 & Hcase).
          { apply Hz. change (f_off (pl_pc Lf ENegLen)) with (lo32u (sh_tail s (index_by_term_count (sh_count s)))). lia. }
          change (r_idx (pl_pc Lf ENegLen)) with (index_by_term_count (sh_count s)) in *.
          change (f_off (pl_pc Lf ENegLen)) with (f_off Lf) in *. change (f_tid (pl_pc Lf ENegLen)) with (f_tid Lf) in *.
          change (r_pos c (pl_pc Lf ENegLen)) with (r_pos c Lf) in *. change (r_off (pl_pc Lf ENegLen)) with (r_off Lf) in *.
          destruct Hcase as [(Emax & -> & ->) | (Emax & H5)]; rewrite Emax.
          -- exists (Err MaxPositionExceeded). split; [apply finish_ext; reflexivity|]. split; [exact Adm|]. exists s4. split; [split; assumption | split; reflexivity].
          -- destruct (solo_rot s4 (pl_pc Lf ENegLen) s' l') as (-> & -> & Hzq & Hgb).
             { exact H5. }
             exists (Err AdminAction). split; [apply finish_ext; reflexivity|]. split; [exact Adm|]. exists s4. split; [split; assumption|].
             split; [reflexivity|]. split; [reflexivity|]. split; [exact Hzq | exact Hgb].
        * destruct (max_pos c <? r_pos c Lf + wrap32 (r_off Lf)) eqn:Emax.
          -- rewrite FLf in S4. destruct (att_end _ _ _ _ _ _ _ _ _ H3 S4) as (_ & -> & ->); [apply res_finish_ne; reflexivity|].
             exists (Err MaxPositionExceeded). split; [reflexivity|]. split; [exact Adm|]. exists s1. split; [reflexivity | split; reflexivity].
          -- destruct (att_cont _ _ _ _ _ _ _ _ _ H3 S4 eq_refl) as (_ & H4). clear H3 S4.
             destruct (solo_rot s1 Lf s' l' H4) as (-> & -> & Hzq & Hgb).
             exists (Err AdminAction). split; [apply FLf|]. split; [exact Adm|]. exists s1. split; [reflexivity|]. split; [reflexivity|]. split; [reflexivity|]. split; [exact Hzq | exact Hgb].
      + destruct (att_cont _ _ _ _ _ _ _ _ _ H3 S4 eq_refl) as (_ & H4). clear H3 S4.
        set (l4 := pl_frag Lf PNegLen (f_off Lf) (mlen L) F_BEGIN) in *.
        destruct (solo_frags (Z.to_nat (mlen L)) s1 l4 s' l' H4 eq_refl) as (I1 & I2 & I3 & I4).
        * unfold l4. cbn [pl_frag p_rem]. unfold mlen. lia.
        * unfold l4. cbn [pl_frag p_rem]. lia.
        * intros o Ho. change (r_idx l4) with (index_by_term_count (sh_count s)). apply Hz.
          change (p_foff l4) with (lo32u (sh_tail s (index_by_term_count (sh_count s)))) in Ho. lia.
        * change (r_idx l4) with (index_by_term_count (sh_count s)) in *. change (f_tid l4) with (f_tid Lf) in *.
          change (cur_msg l4) with (cur_msg l) in *. change (p_foff l4) with (f_off Lf) in *. change (p_rem l4) with (mlen L) in *.
          change (p_flags l4) with F_BEGIN in *.
          exists (ok_position c Lf). split; [rewrite I1; unfold l4; rewrite ok_position_frag; apply finish_ext; reflexivity|].
          split; [exact Adm|]. split; [reflexivity|]. split; [assumption|]. split; assumption.
    - destruct (max_pos c <=? r_pos c L + mlen L).
      { rewrite FL in S3. destruct (att_end _ _ _ _ _ _ _ _ _ H2 S3) as (_ & -> & ->); [apply res_finish_ne; reflexivity|]. eauto. }
      destruct (att_cont _ _ _ _ _ _ _ _ _ H2 S3 eq_refl) as (_ & H3). clear H2 S3.
      destruct (st_PBackPressure s L) as (e4 & S4). rewrite FL in S4.
      destruct (att_end _ _ _ _ _ _ _ _ _ H3 S4) as (_ & -> & ->); [apply res_finish_ne; reflexivity|]. eauto. Qed.
End Solo.
