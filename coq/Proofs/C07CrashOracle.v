(* C07: the whole-run oracle `holds_crash` of Oracle/C07Oracle.v, the part that concerns the scheduled phase, for
   every run of the thread model with arbitrary crash points (`stops`): positions along the trace, head / tail read
   off the trace, the claims read off the trace yield a list of committed commands, and what the consumer thread
   delivered is a prefix, in position order, of the prelude's pending commands followed by those committed commands -
   nothing damaged, duplicated or reordered while producers die at arbitrary points.  (The epilogue walk of
   holds_crash - unblock / read / write on the crashed ring - is judged per call: C07_oracle_unblock, C07_progress.) *)
Require Import V.Base.MachineInt.
Require Import V.Generated.GenConsts.
Require Import V.Model.LogBase.
Require Import V.Model.Ring.
Require Import V.Model.RingThreads.
Require Import V.Spec.Fifo.
Require Import V.Oracle.C06Oracle.
Require Import V.Oracle.C07Oracle.
Require Import V.Proofs.RingArith.
Require Import V.Proofs.RingSeq.
Require Import V.Proofs.RingRender.
Require Import V.Proofs.RingSeqRun.
Require Import V.Proofs.C06OracleProofs.
Require Import V.Proofs.RingConc.
Require Import V.Proofs.RingConcThm.
Require Import V.Proofs.RingLog.
Require Import V.Proofs.RingUnblock.
Require Import V.Proofs.RingSweep.
Require Import V.Proofs.RingTrace.
Require Import V.Proofs.RingClaims.
Require Import V.Proofs.RingData.
Require Import V.Proofs.RingQuiet.
Require Import V.Proofs.C06ConcOracle.
From Coq Require Import ZifyBool Lia.
Open Scope Z_scope.

(* the write call a tag stands for has returned *)
Definition fin (prods : list pstate) (tg : ltag) : Prop :=
  exists i ps, fst tg = Z.of_nat (S i) /\ nth_error prods i = Some ps /\ (Z.to_nat (snd tg) < p_k ps)%nat.

(* the commands of the finished writes among the tags, in order *)
Inductive sel (prods : list pstate) : list ltag -> list wreq -> Prop :=
| sel_nil : sel prods [] []
| sel_fin tg tl w ws : fin prods tg -> entry_of prods tg w -> sel prods tl ws -> sel prods (tg :: tl) (w :: ws)
| sel_skip tg tl ws : ~ fin prods tg -> sel prods tl ws -> sel prods (tg :: tl) ws.

Lemma committed_cmds_sel progs prods : forall cl tl,
  Forall2 (crel prods) cl tl -> map p_prog prods = progs -> NoDup (map fst (concat progs)) ->
  exists ws, committed_cmds progs cl = Some (map cmsg ws) /\ sel prods tl ws.
Proof. intros cl tl F Hprogs ND. induction F as [| c tg cl tl Hc F IH].
  - exists []. split; [reflexivity | constructor].
  - destruct IH as (ws & IH1 & IH2).
    destruct Hc as (A & B & i & ps & typ & body & Eo & Hi & Hn & Hv & Hcase).
    destruct Hcase as [(C1 & C2 & C3 & C4) | (C1 & C2 & C3)].
    + cbn [committed_cmds]. rewrite C4.
      assert (Hin : In (typ, body) (concat progs)).
      { eapply in_concat_of; [| eapply nth_error_In; exact Hn]. rewrite <- Hprogs.
        apply in_map_iff. exists ps. split; [reflexivity | eapply nth_error_In; exact Hi]. }
      rewrite C2. pose proof (find_write_nodup _ _ ND Hin) as FW. cbn [fst] in FW. rewrite FW, IH1.
      rewrite C3. unfold len_of, rl_of. cbn [snd]. rewrite Z.eqb_refl.
      exists ((typ, body) :: ws). split; [reflexivity |]. apply sel_fin; [exists i, ps; auto | exists i, ps; auto | exact IH2].
    + cbn [committed_cmds]. rewrite C2. exists ws. split; [exact IH1 |]. apply sel_skip; [| exact IH2].
      intros (j & q & Ej & Hj & Hlt). assert (j = i) by lia. subst j. rewrite Hi in Hj. inversion Hj; subst q. lia. Qed.

Lemma sel_prefix prods : forall (dt1 : list tmsg) tl2 ws,
  (forall x, In x dt1 -> fin prods (tag2 x) /\ entry_of prods (tag2 x) (untag x)) ->
  sel prods (map tag2 dt1 ++ tl2) ws -> exists ws2, ws = map untag dt1 ++ ws2.
Proof. induction dt1 as [| x dt1 IH]; intros tl2 ws Hall Hs; cbn [map app] in *.
  - exists ws. reflexivity.
  - destruct (Hall x (or_introl eq_refl)) as (Hf & He).
    inversion Hs as [| tg tl w ws' Hf' He' Hs' | tg tl ws' Hnf Hs']; subst; [| contradiction].
    destruct (IH tl2 ws' (fun y Hy => Hall y (or_intror Hy)) Hs') as (ws2 & ->).
    exists ws2. rewrite (entry_fun _ _ _ _ He' He). reflexivity. Qed.

Lemma is_prefix_app l r : is_prefix l (l ++ r) = true.
Proof. induction l as [| [[t n] p] l IH]; cbn [app is_prefix]; [reflexivity |]. rewrite IH, Bool.andb_true_r.
  unfold cmsg_eqb. rewrite !Z.eqb_refl. cbn [andb]. induction p; cbn [zs_eqb]; [reflexivity | rewrite Z.eqb_refl; assumption]. Qed.

Lemma is_prefix_app_l a b c : is_prefix b c = true -> is_prefix (a ++ b) (a ++ c) = true.
Proof. intros H. induction a as [| [[t n] p] a IH]; cbn [app is_prefix]; [exact H |]. rewrite IH, Bool.andb_true_r.
  unfold cmsg_eqb. rewrite !Z.eqb_refl. cbn [andb]. induction p; cbn [zs_eqb]; [reflexivity | rewrite Z.eqb_refl; assumption]. Qed.

Lemma app_eq_split {A} (a b c d : list A) : a ++ b = c ++ d ->
  (exists r, c = a ++ r /\ b = r ++ d) \/ (exists r, a = c ++ r /\ d = r ++ b).
Proof. revert c. induction a as [| x a IH]; intros c E.
  - left. exists c. auto.
  - destruct c as [| y c].
    + right. exists (x :: a). auto.
    + cbn [app] in E. inversion E; subst y. destruct (IH c H1) as [(r & -> & ->) | (r & -> & ->)].
      * left. exists r. auto.
      * right. exists r. auto. Qed.

Lemma concat_map_snd {A B} (f : A -> B) (l : list (Z * list A)) :
  concat (map (fun x => map f (snd x)) l) = map f (concat (map snd l)).
Proof. induction l as [| r l IH]; cbn [map concat]; [reflexivity |]. rewrite map_app. f_equal. exact IH. Qed.

Theorem oracle_crash_sched m cp p0 hc0 c0 pre limits progs sched stops post :
  seq_domain cp p0 hc0 c0 pre -> Forall (Forall wreq_ok) progs -> NoDup (map fst (concat progs)) ->
  p0 + 2 * cp * (Z.of_nat (length pre) + Z.of_nat (length (concat progs)) + 1) <= two62 ->
  let obs := run_conc m (init cp p0 hc0 c0) pre limits progs sched stops post in
  let o1 := fst (fst (fst obs)) in let tr := snd (fst (fst obs)) in let res := snd (fst obs) in
  (exists l rest, res = TCons l :: rest) ->
  exists d0 cm0 s1 cons_r rest,
    res = cons_r :: rest /\ delivered_by cons_r = Some d0 /\
    committed_cmds progs (claims_of cp tr) = Some cm0 /\ check_to cp (mkOst [] p0 p0 []) pre o1 = Some s1 /\
    positions_ok cp tr (fst (last_ht p0 o1)) (snd (last_ht p0 o1)) = true /\
    is_prefix d0 (map cmsg (o_q s1) ++ cm0) = true.
Proof.
  intros Dseq Dprogs Dnd Dwin. cbn zeta. unfold run_conc.
  destruct (run m (init cp p0 hc0 c0) pre) as [R1 o1] eqn:E1.
  destruct (run_sched m (start R1 limits progs) (repeat 0 (S (length progs))) stops sched) as [[cfg1 counts] tr1] eqn:E2.
  match goal with |- context [drain m ?f cfg1 counts stops O ?n] => destruct (drain m f cfg1 counts stops O n) as [cfg2 tr2] eqn:E3 end.
  destruct (run m (g_ring cfg2) post) as [R3 o3] eqn:E4.
  cbn [fst snd]. intros (l & rest & Eres).
  destruct (run_conc_facts m cp p0 hc0 c0 pre limits progs sched stops R1 o1 cfg1 counts tr1 _ cfg2 tr2 Dseq Dprogs Dwin E1 E2 E3)
    as (W1 & Ecap1 & (s1 & C1 & Rq) & Hht1 & HI0 & HL0 & HS & HI2 & HL2 & HC2 & Hpos & _ & _ & (G1 & extra & G2 & G3) & Hprogs).
  set (cfg0 := start R1 limits progs) in *.
  unfold results in Eres. inversion Eres as [[Ec Er]].
  assert (Hcd : c_pc (g_cons cfg2) = CDone).
  { unfold cons_result in Ec. destruct (c_pc (g_cons cfg2)); try discriminate; reflexivity. }
  set (cl := claims_of cp (tr1 ++ tr2)).
  assert (HC2' : Forall2 (crel (g_prods cfg2)) cl (tlog cfg2)) by exact HC2.
  destruct (committed_cmds_sel progs (g_prods cfg2) cl (tlog cfg2) HC2' Hprogs Dnd) as (ws & Hcm & Hsel).
  (* the log: prelude commands, then the threads' *)
  destruct (abs_msgs R1 W1) as (Habs & Hown0).
  assert (Hd0 : dlog cfg0 = msgs_of (r_slots R1)).
  { unfold dlog, cfg0, start. cbn [g_ring g_cons]. unfold delivered, cstart. destruct limits; reflexivity. }
  assert (Hnt : Forall (fun t => is_thread t = false) (log cfg0)).
  { rewrite <- dlog_tags, Hd0. apply Forall_forall. intros t Ht. apply in_map_iff in Ht. destruct Ht as (x & <- & Hx).
    rewrite Forall_forall in Hown0. specialize (Hown0 x Hx). unfold own0 in Hown0. unfold is_thread. rewrite Hown0. reflexivity. }
  destruct (split_by_tags (dlog cfg2) (log cfg0) extra ltac:(rewrite dlog_tags; exact G2) Hnt G3) as (d0 & dt & Ed & Ed0 & Edt & Ef).
  assert (Ed0' : d0 = msgs_of (r_slots R1)) by (rewrite <- Ef, G1, Hd0; apply filter_own0_all; exact Hown0).
  assert (Etl : tlog cfg2 = extra).
  { unfold tlog. rewrite G2, filter_app.
    assert (F0 : filter is_thread (log cfg0) = []) by (clear - Hnt; induction Hnt; cbn [filter]; [reflexivity |]; rewrite H; assumption).
    rewrite F0. cbn [app]. clear - G3. induction G3; cbn [filter]; [reflexivity |]. rewrite H. f_equal. assumption. }
  (* what the consumer delivered, as a prefix of the data log *)
  assert (Edl : delivered (g_cons cfg2) = concat (map snd (c_res (g_cons cfg2)))) by (unfold delivered; rewrite Hcd; apply app_nil_r).
  assert (Hdeliv : delivered_by (cons_result (g_cons cfg2)) = Some (map (fun x => cmsg (untag x)) (delivered (g_cons cfg2)))).
  { unfold delivered_by, cons_result. rewrite Hcd, Edl. f_equal. rewrite map_map. cbn [snd]. apply concat_map_snd. }
  (* every delivered thread message belongs to a write that has returned, and carries what the program passed *)
  assert (Hdel : forall x, In x (delivered (g_cons cfg2)) -> is_thread (tag2 x) = true ->
            fin (g_prods cfg2) (tag2 x) /\ entry_of (g_prods cfg2) (tag2 x) (untag x)).
  { intros [[[o k] ty] b] Hx Hth. unfold is_thread in Hth. cbn [tag2 fst] in Hth.
    destruct (l_intact _ HL2 o k ty b Hx) as [-> | (i & ps & Eo & Hi & Hk & Hn)]; [discriminate |].
    split; [| exists i, ps; cbn [tag2 fst snd untag]; auto].
    assert (Hlog : In (Z.of_nat (S i), k) (log cfg2)).
    { unfold log. apply in_or_app. left. subst o. change (Z.of_nat (S i), k) with (tag2 (Z.of_nat (S i), k, ty, b)). apply in_map. exact Hx. }
    destruct (log_tag_cases cfg2 i ps k HL2 Hi Hlog) as [(_ & Hlt) | (Ek & Hac)].
    - exists i, ps. cbn [tag2 fst snd]. auto.
    - (* the write would be in flight: its record piece is still in the ring, so the tag would be in the log twice *)
      exfalso. destruct (i_prods _ _ HI2 i ps Hi) as (_ & _ & Pex).
      assert (Hrec : exists r, In r (expect (Z.of_nat (S i)) ps) /\ is_rec r = true /\ slot_tag r = (Z.of_nat (S i), k)).
      { unfold expect. destruct (nth_error (p_prog ps) (p_k ps)) as [[ty0 bd] |] eqn:En.
        2: { rewrite Ek, Nat2Z.id in Hn. congruence. }
        subst k. destruct (p_pc ps) as [| | | | | | | | | tl pd | p | p | p]; try discriminate.
        - exists (mkSlot (tl + pd) (rq_of bd) 0 0 [] (Z.of_nat (S i)) (Z.of_nat (p_k ps))). split; [right; left; reflexivity |]. split; [unfold is_rec; cbn [s_seq]; lia | reflexivity].
        - exists (mkSlot p (rq_of bd) 0 0 [] (Z.of_nat (S i)) (Z.of_nat (p_k ps))). split; [left; reflexivity |]. split; [unfold is_rec; cbn [s_seq]; lia | reflexivity].
        - exists (mkSlot p (rq_of bd) (- rl_of bd) ty0 [] (Z.of_nat (S i)) (Z.of_nat (p_k ps))). split; [left; reflexivity |]. split; [unfold is_rec; cbn [s_seq]; lia | reflexivity].
        - exists (mkSlot p (rq_of bd) (- rl_of bd) ty0 bd (Z.of_nat (S i)) (Z.of_nat (p_k ps))). split; [left; reflexivity |]. split; [unfold is_rec; cbn [s_seq]; lia | reflexivity]. }
      destruct Hrec as (r & Hr & Hrr & Hrt).
      pose proof (log_linear _ i ps HL2 Hi) as (_ & _ & ND).
      unfold log in ND. rewrite of_owner_app in ND.
      assert (I1 : In (Z.of_nat (S i), k) (of_owner (Z.of_nat (S i)) (map tag2 (delivered (g_cons cfg2))))).
      { unfold of_owner. apply filter_In. split; [| cbn [fst]; lia]. subst o. change (Z.of_nat (S i), k) with (tag2 (Z.of_nat (S i), k, ty, b)). apply in_map. exact Hx. }
      assert (I2 : In (Z.of_nat (S i), k) (of_owner (Z.of_nat (S i)) (pending (g_ring cfg2)))).
      { unfold of_owner. apply filter_In. split; [| cbn [fst]; lia]. unfold pending. rewrite <- Hrt. apply in_map. apply filter_In. split; [apply Pex; exact Hr | exact Hrr]. }
      clear - ND I1 I2. induction (of_owner (Z.of_nat (S i)) (map tag2 (delivered (g_cons cfg2)))) as [| a l IH]; [inversion I1 |].
      cbn [app] in ND. inversion ND as [| ? ? Hni ND']; subst. destruct I1 as [-> | I1]; [apply Hni; apply in_or_app; right; exact I2 | exact (IH ND' I1)]. }
  (* split the delivered messages along the prelude / thread border of the data log *)
  assert (Ed' : delivered (g_cons cfg2) ++ msgs_of (r_slots (g_ring cfg2)) = d0 ++ dt) by exact Ed.
  exists (map (fun x => cmsg (untag x)) (delivered (g_cons cfg2))), (map cmsg ws), s1, (cons_result (g_cons cfg2)), (map prod_result (g_prods cfg2)).
  split; [reflexivity |]. split; [exact Hdeliv |]. split; [exact Hcm |]. split; [exact C1 |].
  rewrite Hht1. cbn [fst snd]. split; [exact Hpos |].
  rewrite Rq, Habs, <- Ed0'. rewrite map_map.
  destruct (app_eq_split _ _ _ _ Ed') as [(r & E0 & _) | (r & Edl1 & Edt1)].
  - (* the consumer has not got past the prelude's commands *)
    rewrite E0, map_app, <- app_assoc. apply is_prefix_app.
  - rewrite Edl1, map_app. apply is_prefix_app_l.
    rewrite Etl, <- Edt, Edt1, map_app in Hsel.
    destruct (sel_prefix (g_prods cfg2) r (map tag2 (msgs_of (r_slots (g_ring cfg2)))) ws) as (ws2 & ->).
    + intros x Hx. apply Hdel; [rewrite Edl1; apply in_or_app; right; exact Hx |].
      rewrite Forall_forall in G3. apply G3. rewrite <- Edt, Edt1, map_app. apply in_or_app. left. apply in_map. exact Hx.
    + exact Hsel.
    + rewrite map_app, map_map. apply is_prefix_app.
Qed.
