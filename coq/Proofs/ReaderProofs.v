(* Lemmas about the reader vocabulary (Model/Reader.v): spans, placement, seek / view, and the two
   library scanners.  Reused by ImageProofs (C05), SubscriptionProofs (C20) and meant for C01. *)
Require Import V.Base.MachineInt.
Require Import V.Generated.GenConsts.
Require Import V.Model.LogBase.
Require Import V.Model.Descriptor.
Require Import V.Model.Reader.
Require Import V.Proofs.DescriptorProofs.
From Coq Require Import ZifyBool.
Open Scope Z_scope.

Lemma FA_32 : FA = 32. Proof. reflexivity. Qed.
Lemma HDR_32 : HDR = 32. Proof. reflexivity. Qed.

Lemma span_bounds f : 1 <= f_len f -> f_len f <= span f < f_len f + 32 /\ 32 <= span f /\ span f mod 32 = 0.
Proof. intros H. unfold span. rewrite FA_32.
  destruct (align_ge (f_len f) ltac:(lia)) as [A B]. repeat split; try lia.
  unfold align in *.
  pose proof (Z.div_mod (f_len f + (32 - 1)) 32 ltac:(lia)).
  pose proof (Z.mod_pos_bound (f_len f + (32 - 1)) 32 ltac:(lia)).
  assert (1 <= (f_len f + (32 - 1)) / 32) by (apply Z.div_le_lower_bound; lia). lia. Qed.

(* all frames of a list have a positive length word *)
Definition frames_pos (fs : list frame) : Prop := Forall (fun f => 1 <= f_len f) fs.

Lemma frames_pos_inv f r : frames_pos (f :: r) -> 1 <= f_len f /\ frames_pos r.
Proof. intros H. inversion H; subst. auto. Qed.

Lemma span_sum_nonneg fs : frames_pos fs -> 0 <= span_sum fs.
Proof. induction 1; cbn [span_sum]; [lia|]. pose proof (span_bounds x H). lia. Qed.

Lemma frames_pos_firstn k fs : frames_pos fs -> frames_pos (firstn k fs).
Proof. revert fs. induction k; intros fs H; cbn; [constructor|].
  destruct fs; [constructor|]. apply frames_pos_inv in H as [A B]. constructor; auto. apply IHk; auto. Qed.

Lemma frames_pos_skipn k fs : frames_pos fs -> frames_pos (skipn k fs).
Proof. revert fs. induction k; intros fs H; cbn; [assumption|].
  destruct fs; [constructor|]. apply frames_pos_inv in H as [A B]. apply IHk; auto. Qed.

Lemma span_sum_app a b : span_sum (a ++ b) = span_sum a + span_sum b.
Proof. induction a; cbn [span_sum app]; lia. Qed.

Lemma span_sum_firstn_le k fs : frames_pos fs -> span_sum (firstn k fs) <= span_sum fs.
Proof. intros H. rewrite <- (firstn_skipn k fs) at 2. rewrite span_sum_app.
  pose proof (span_sum_nonneg _ (frames_pos_skipn k fs H)). lia. Qed.

Lemma span_sum_firstn_mono j k fs : frames_pos fs -> (j <= k)%nat -> span_sum (firstn j fs) <= span_sum (firstn k fs).
Proof. intros H Hjk. replace j with (Nat.min j k) by lia. rewrite <- firstn_firstn.
  apply span_sum_firstn_le. apply frames_pos_firstn. assumption. Qed.

Lemma place_app off a b : place off (a ++ b) = place off a ++ place (off + span_sum a) b.
Proof. revert off. induction a; intros off; cbn [place app span_sum].
  - f_equal. lia.
  - f_equal. rewrite IHa. f_equal. f_equal. lia. Qed.

Lemma place_length off fs : length (place off fs) = length fs.
Proof. revert off. induction fs; intros; cbn; auto. Qed.

Lemma place_offsets_ge off fs : frames_pos fs -> forall o f, In (o, f) (place off fs) -> off <= o.
Proof. revert off. induction fs; intros off H o f Hin; cbn in Hin; [tauto|].
  apply frames_pos_inv in H as [A B]. destruct Hin as [E | Hin].
  - inversion E. lia.
  - pose proof (span_bounds a A). specialize (IHfs _ B _ _ Hin). lia. Qed.

Lemma data_of_app a b : data_of (a ++ b) = data_of a ++ data_of b.
Proof. unfold data_of. apply filter_app. Qed.

Lemma data_of_In ps o f : In (o, f) (data_of ps) -> In (o, f) ps /\ is_pad f = false.
Proof. unfold data_of. rewrite filter_In. cbn. intros [A B]. split; auto. destruct (is_pad f); auto; discriminate. Qed.

(* ---- unfolding equations (so that proofs never `simpl` through Z arithmetic) ---- *)
Lemma read_loop_eq cap limit fs off n :
  read_loop cap limit fs off n =
  if (n <? limit) && (off <? cap) then
    match fs with
    | [] => (off, n, [])
    | f :: r =>
        let off' := off + span f in
        if is_pad f then read_loop cap limit r off' n
        else let '(o, c, ds) := read_loop cap limit r off' (n + 1) in (o, c, (off, f) :: ds)
    end
  else (off, n, []).
Proof. destruct fs; reflexivity. Qed.

Lemma scan_loop_eq start limit fs off :
  scan_loop start limit fs off =
  if off <? limit then
    match fs with
    | [] => off
    | f :: r =>
        if is_pad f then (if start =? off then off + span f else off)
        else if off + span f >? limit then off
        else scan_loop start limit r (off + span f)
    end
  else off.
Proof. destruct fs; reflexivity. Qed.

(* ---- seek / view: advancing over whole entries ---- *)
Lemma seek_nonpos t off : off <= 0 -> seek t off = t.
Proof. intros H. destruct t; cbn [seek]; [reflexivity|]. destruct (off <=? 0) eqn:E; [reflexivity|lia]. Qed.

Definition entries_pos (t : term) : Prop := Forall (fun e => 0 < entry_span e) t.

Lemma seek_app_end a b : entries_pos a -> seek (a ++ b) (term_end a) = b.
Proof. induction 1 as [|e r He Hr IH]; cbn [app term_end].
  - apply seek_nonpos. lia.
  - cbn [seek]. assert (0 <= term_end r).
    { clear -Hr. induction Hr; cbn [term_end]; lia. }
    destruct (entry_span e + term_end r <=? 0) eqn:E1; [lia|].
    destruct (entry_span e + term_end r <? entry_span e) eqn:E2; [lia|].
    replace (entry_span e + term_end r - entry_span e) with (term_end r) by lia. exact IH. Qed.

Lemma avail_committed_app fs es :
  frames_pos fs -> avail (map Committed fs ++ es) = fs ++ avail es.
Proof. induction 1 as [|f r Hf Hr IH]; cbn [map app avail]; [reflexivity|].
  destruct (f_len f <=? 0) eqn:E; [lia|]. rewrite IH. reflexivity. Qed.

(* plain poll consumes everything visible when the limit allows it: the progress fact C01 needs *)
Lemma read_loop_all cap limit : forall fs off n,
  frames_pos fs -> off + span_sum fs <= cap ->
  n + Z.of_nat (length (data_of (place off fs))) < limit ->
  read_loop cap limit fs off n
  = (off + span_sum fs, n + Z.of_nat (length (data_of (place off fs))), data_of (place off fs)).
Proof. induction fs as [|f r IH]; intros off n Hp Hfit Hlim; rewrite read_loop_eq.
  - cbn [span_sum place data_of filter length]. cbn [data_of place filter length] in Hlim.
    destruct ((n <? limit) && (off <? cap)); f_equal; f_equal; lia.
  - apply frames_pos_inv in Hp as [Hf Hr]. pose proof (span_bounds f Hf) as Hs.
    pose proof (span_sum_nonneg r Hr) as Hn.
    cbn [span_sum] in Hfit. cbn [place data_of filter snd] in Hlim |- *. fold (data_of (place (off + span f) r)) in Hlim |- *.
    assert (Hl : n <? limit = true).
    { destruct (negb (is_pad f)); cbn [length] in Hlim; lia. }
    assert (Hc : off <? cap = true) by lia. rewrite Hl, Hc. cbn [andb].
    cbv zeta. destruct (is_pad f) eqn:Ep; cbn [negb] in Hlim |- *.
    + rewrite IH; try assumption; try lia. cbn [span_sum]. f_equal. f_equal. lia.
    + cbn [length] in Hlim. rewrite IH; try assumption; try lia. cbn [span_sum length].
      f_equal. f_equal; lia. Qed.
