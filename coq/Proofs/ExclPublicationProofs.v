(* The ExclusivePublication: invariant of every history, the exact case analysis of one offer / claim,
   and the C04 statements for it. *)
Require Import V.Base.MachineInt.
Require Import V.Generated.GenConsts.
Require Import V.Model.Descriptor.
Require Import V.Model.LogBase.
Require Import V.Model.Appender.
Require Import V.Model.ExclAppender.
Require Import V.Model.Publication.
Require Import V.Model.ExclPublication.
Require Import V.Proofs.DescriptorProofs.
Require Import V.Proofs.AppenderProofs.
Require Import V.Proofs.PublicationProofs.
Require Import V.Proofs.BulkProofs.
Require Import V.Proofs.C04Proofs.
From Coq Require Import ZifyBool.
Open Scope Z_scope.

Record xpub_inv (n : Z) (x : xpub) : Prop := mkXInv {
  xi_legal : legal (xlog x);
  xi_n : 0 <= n < two31;
  xi_idx : x_idx x = n mod 3;
  xi_tid : x_tid x = wrap32 (l_init (xlog x) + n);
  xi_begin : x_begin x = n * l_tlen (xlog x);
  xi_off : 0 <= x_off x <= l_tlen (xlog x);
  xi_count : l_count (xlog x) = n
}.

Definition xspec_pos (x : xpub) : Z := x_begin x + x_off x.

(* the log after a message did not fit: the tail counter stores (term id, off + req), a padding frame closes the term *)
Definition xbumped (l : log) (idx tid off req : Z) : log := put_padding (put_raw_tail l idx tid (off + req)) idx off tid.

Inductive xtry_result (x : xpub) (n req len : Z) (toolong : bool) : xpub * outcome Z -> Prop :=
| XR_closed : ps_closed (x_pub x) = true -> xtry_result x n req len toolong (x, Err Closed)
| XR_refused : ps_closed (x_pub x) = false -> l_limit (xlog x) <= xspec_pos x ->
    xtry_result x n req len toolong (x, Err (status_of (xlog x) (xspec_pos x) len))
| XR_toolong : ps_closed (x_pub x) = false -> xspec_pos x < l_limit (xlog x) -> toolong = true ->
    xtry_result x n req len toolong (x, Err TooLong)
| XR_accept t' cl : toolong = false -> ps_closed (x_pub x) = false -> xspec_pos x < l_limit (xlog x) ->
    x_off x + req <= l_tlen (xlog x) ->
    xtry_result x n req len toolong
      (mkX (mkPub (set_part (put_raw_tail (xlog x) (x_idx x) (x_tid x) (x_off x + req)) (x_idx x) t') false cl)
           (x_off x + req) (x_tid x) (x_idx x) (x_begin x), Ok (xspec_pos x + req))
| XR_trip : toolong = false -> ps_closed (x_pub x) = false -> xspec_pos x < l_limit (xlog x) ->
    l_tlen (xlog x) < x_off x + req -> n < two31 - 1 ->
    xtry_result x n req len toolong
      (mkX (mkPub (rotated (xbumped (xlog x) (x_idx x) (x_tid x) (x_off x) req) n) false (ps_claim (x_pub x)))
           0 (wrap32 (x_tid x + 1)) ((n + 1) mod 3) (x_begin x + l_tlen (xlog x)), Err AdminAction)
| XR_last : toolong = false -> ps_closed (x_pub x) = false -> xspec_pos x < l_limit (xlog x) ->
    l_tlen (xlog x) < x_off x + req -> two31 - 1 <= n ->
    xtry_result x n req len toolong
      (mkX (mkPub (xbumped (xlog x) (x_idx x) (x_tid x) (x_off x) req) false (ps_claim (x_pub x)))
           (x_off x) (x_tid x) (x_idx x) (x_begin x), Err MaxPositionExceeded).

(* what an exclusive append flavour does *)
Definition xact_spec (l : log) (idx tid off req : Z) (r : outcome appended) : Prop :=
  exists a, r = Ok a /\
    let l1 := put_raw_tail l idx tid (off + req) in
    if off + req <=? l_tlen l
    then a_result a = off + req /\ exists t', a_log a = set_part l1 idx t'
    else a_result a = TERM_APPENDER_FAILED /\ a_log a = put_padding l1 idx off tid /\ a_claim a = None.

Section XActs.
Variables (m : mode) (rv : Z -> Z -> list Z -> Z) (l : log) (idx tid off : Z).
Hypothesis Hl : legal l.
Hypothesis Ho : 0 <= off <= l_tlen l.

Lemma eta_claim_spec len : 0 <= len <= max_payload_length l ->
  xact_spec l idx tid off (align (len + 32) 32) (eta_claim m l idx tid off len).
Proof. intros Hlen. pose proof (legal_mpl l Hl) as (Hm1 & Hm2 & Hm3 & Hm4). pose proof (legal_tlen l Hl) as [Htl _].
  assert (Hd : l_tlen l / 8 <= l_tlen l) by (apply Z.div_le_upper_bound; lia).
  unfold eta_claim. rewrite unfrag_lengths_ok by lia. cbn [bind].
  pose proof (align_bounds (len + 32) ltac:(lia)) as [Ha _].
  rewrite add32_ok by (unfold in_i32, two31; lia). cbn [bind].
  change (l_tlen (put_raw_tail l idx tid (off + align (len + 32) 32))) with (l_tlen l).
  unfold xact_spec. destruct (off + align (len + 32) 32 <=? l_tlen l) eqn:E.
  - assert (E2 : (l_tlen l <? off + align (len + 32) 32) = false) by lia. rewrite E2.
    assert (E3 : (off + (len + 32) <=? l_tlen l) = true) by lia. rewrite E3.
    eexists. split; [reflexivity|]. cbn [a_result a_log]. split; [reflexivity|]. eexists. reflexivity.
  - assert (E2 : (l_tlen l <? off + align (len + 32) 32) = true) by lia. rewrite E2.
    eexists. split; [reflexivity|]. cbn. repeat split; reflexivity. Qed.

Lemma eta_unfrag_spec msg : zlen msg <= max_payload_length l ->
  xact_spec l idx tid off (align (zlen msg + 32) 32) (eta_append_unfragmented m rv l idx tid off msg).
Proof. intros Hlen. pose proof (zlen_nonneg msg) as H0.
  pose proof (legal_mpl l Hl) as (Hm1 & Hm2 & Hm3 & Hm4). pose proof (legal_tlen l Hl) as [Htl _].
  assert (Hd : l_tlen l / 8 <= l_tlen l) by (apply Z.div_le_upper_bound; lia).
  unfold eta_append_unfragmented. rewrite unfrag_lengths_ok by lia. cbn [bind].
  pose proof (align_bounds (zlen msg + 32) ltac:(lia)) as [Ha _].
  rewrite add32_ok by (unfold in_i32, two31; lia). cbn [bind].
  change (l_tlen (put_raw_tail l idx tid (off + align (zlen msg + 32) 32))) with (l_tlen l).
  unfold xact_spec. destruct (off + align (zlen msg + 32) 32 <=? l_tlen l) eqn:E.
  - assert (E2 : (l_tlen l <? off + align (zlen msg + 32) 32) = false) by lia. rewrite E2.
    eexists. split; [reflexivity|]. cbn [a_result a_log]. split; [reflexivity|]. eexists. reflexivity.
  - assert (E2 : (l_tlen l <? off + align (zlen msg + 32) 32) = true) by lia. rewrite E2.
    eexists. split; [reflexivity|]. cbn. repeat split; reflexivity. Qed.

Lemma eta_frag_spec msg : max_payload_length l < zlen msg <= max_message_length l ->
  xact_spec l idx tid off (frag_required_spec (zlen msg) (max_payload_length l))
            (eta_append_fragmented m rv l idx tid off msg (max_payload_length l)).
Proof. intros Hlen.
  pose proof (legal_mpl l Hl) as (Hm1 & Hm2 & Hm3 & Hm4). pose proof (legal_tlen l Hl) as [Htl _].
  assert (Hd : l_tlen l / 8 <= l_tlen l) by (apply Z.div_le_upper_bound; lia).
  unfold eta_append_fragmented. rewrite frag_required_ok by lia. cbn [bind].
  pose proof (frag_required_bounds (zlen msg) (max_payload_length l) Hm1 ltac:(lia)) as Hb.
  rewrite add32_ok by (unfold in_i32, two31; lia). cbn [bind].
  change (l_tlen (put_raw_tail l idx tid (off + frag_required_spec (zlen msg) (max_payload_length l)))) with (l_tlen l).
  unfold xact_spec. destruct (off + frag_required_spec (zlen msg) (max_payload_length l) <=? l_tlen l) eqn:E.
  - assert (E2 : (l_tlen l <? off + frag_required_spec (zlen msg) (max_payload_length l)) = false) by lia. rewrite E2.
    eexists. split; [reflexivity|]. cbn [a_result a_log]. split; [reflexivity|]. eexists. reflexivity.
  - assert (E2 : (l_tlen l <? off + frag_required_spec (zlen msg) (max_payload_length l)) = true) by lia. rewrite E2.
    eexists. split; [reflexivity|]. cbn. repeat split; reflexivity. Qed.
End XActs.

Lemma same_meta_xbumped_geom l idx tid off req : same_geom l (xbumped l idx tid off req).
Proof. unfold xbumped. eapply same_geom_trans; [|apply same_geom_put_padding]. repeat split. Qed.

Section XTry.
Variables (m : mode) (x : xpub) (n : Z).
Hypothesis Hinv : xpub_inv n x.
Local Notation l := (xlog x).

Lemma xinv_bounds : 1024 <= l_tlen l <= 1073741824 /\ 0 <= x_begin x /\ x_begin x + l_tlen l <= l_tlen l * two31.
Proof. destruct Hinv as [Hleg Hn Hidx Htid Hbeg Hoff Hc]. pose proof (legal_tlen _ Hleg) as [Htl _].
  rewrite Hbeg. unfold two31 in *. nia. Qed.

Lemma xpub_try_cases len act req :
  0 <= len < two31 -> 0 < req <= l_tlen l / 2 ->
  (act l = Err TooLong -> xtry_result x n req len true (xpub_try m x len act)) /\
  (xact_spec l (x_idx x) (x_tid x) (x_off x) req (act l) -> xtry_result x n req len false (xpub_try m x len act)).
Proof.
  intros Hlen Hreq. pose proof Hinv as [Hleg Hn Hidx Htid Hbeg Hoff Hc].
  pose proof xinv_bounds as (Htl & Hb0 & Hb1). pose proof (mod3_range n) as Hm3.
  assert (Hhalf : l_tlen l / 2 * 2 <= l_tlen l).
  { pose proof (Z.div_mod (l_tlen l) 2 ltac:(lia)). pose proof (Z.mod_pos_bound (l_tlen l) 2 ltac:(lia)). lia. }
  assert (Hpre : forall k : xpub * outcome Z -> Prop,
     (ps_closed (x_pub x) = true -> k (x, Err Closed)) ->
     (ps_closed (x_pub x) = false -> l_limit l <= xspec_pos x -> k (x, Err (status_of l (xspec_pos x) len))) ->
     (ps_closed (x_pub x) = false -> xspec_pos x < l_limit l ->
        k (match act l with
           | Ok a => xpub_new_position m x (a_log a) (a_claim a) (a_result a)
           | Err e => (x, Err e) | Panic => (x, Panic) | Hang => (x, Hang) | Crash => (x, Crash) end)) ->
     k (xpub_try m x len act)).
  { intros k Kc Kr Ka. unfold xpub_try. destruct (ps_closed (x_pub x)) eqn:Ec; [apply Kc; reflexivity|].
    assert (E0 : ((x_idx x <? 0) || (2 <? x_idx x)) = false) by lia. rewrite E0.
    unfold xspec_pos in *. rewrite add64_ok by (unfold in_i64, two63, two31 in *; lia).
    change (ps_log (x_pub x)) with l.
    destruct (x_begin x + x_off x <? l_limit l) eqn:El.
    - apply Ka; [reflexivity | lia].
    - unfold back_pressure_status. rewrite add64_ok by (unfold in_i64, two63, two31 in *; lia). cbn [bind].
      rewrite legal_maxpos by assumption.
      assert (Hs : forall e, e = status_of l (x_begin x + x_off x) len -> k (x, Err e)) by (intros e ->; apply Kr; [reflexivity|lia]).
      unfold status_of in Hs.
      destruct (l_tlen l * two31 <=? x_begin x + x_off x + len); [apply Hs; reflexivity|].
      destruct (l_connected l); apply Hs; reflexivity. }
  split.
  - intros HE. apply Hpre.
    + apply XR_closed.
    + apply XR_refused.
    + intros Hc0 Hl2. rewrite HE. apply XR_toolong; auto.
  - intros (a & Ha & Hspec). apply Hpre.
    + apply XR_closed.
    + apply XR_refused.
    + intros Hc0 Hl2. rewrite Ha. cbv zeta in Hspec. unfold xpub_new_position.
      destruct (x_off x + req <=? l_tlen l) eqn:Efit.
      * destruct Hspec as (Hres & t' & Hlog). rewrite Hres.
        assert (E1 : (0 <? x_off x + req) = true) by lia. rewrite E1.
        rewrite add64_ok by (unfold in_i64, two63, two31 in *; lia).
        rewrite Hlog. rewrite Hc0.
        replace (x_begin x + (x_off x + req)) with (xspec_pos x + req) by (unfold xspec_pos; ring).
        apply XR_accept; auto; lia.
      * destruct Hspec as (Hres & Hlog & Hclaim). rewrite Hres. unfold TERM_APPENDER_FAILED, GenConsts.TERM_APPENDER_FAILED.
        cbn [Z.ltb Z.compare]. rewrite Hlog, Hclaim.
        change (put_padding (put_raw_tail l (x_idx x) (x_tid x) (x_off x + req)) (x_idx x) (x_off x) (x_tid x))
          with (xbumped l (x_idx x) (x_tid x) (x_off x) req).
        destruct (same_meta_xbumped_geom l (x_idx x) (x_tid x) (x_off x) req) as (G1 & G2 & _).
        rewrite <- G2. rewrite add64_ok by (unfold in_i64, two63, two31 in *; lia).
        rewrite legal_maxpos by (eapply legal_same; [apply same_meta_xbumped_geom|assumption]). rewrite <- G2.
        unfold x_with_pub. rewrite Hc0.
        destruct (Z.eq_dec n (two31 - 1)) as [Elast | Enl].
        -- assert (E3 : (l_tlen l * two31 <=? x_begin x + l_tlen l) = true) by (unfold two31 in *; nia). rewrite E3.
           apply XR_last; auto; lia.
        -- assert (E3 : (l_tlen l * two31 <=? x_begin x + l_tlen l) = false) by (unfold two31 in *; nia). rewrite E3.
           unfold next_partition_index. rewrite Hidx. rewrite add32_ok by (unfold in_i32, two31; lia). cbn [bind].
           unfold PARTITION_COUNT, GenConsts.PARTITION_COUNT. rewrite rem3_nonneg by lia.
           rewrite Zplus_mod_idemp_l. cbn [ps_closed ps_claim].
           assert (Hgi : forall i, l_init (xbumped l i (x_tid x) (x_off x) req) = l_init l).
           { intros i. destruct (same_meta_xbumped_geom l i (x_tid x) (x_off x) req) as (Q & _). symmetry. exact Q. }
           rewrite Hgi.
           assert (Hcnt : wrap32 (wrap32 (x_tid x + 1) - l_init l) = n + 1).
           { rewrite Htid. rewrite wrap32_add_wrap32. replace (l_init l + n + 1) with (l_init l + (n + 1)) by ring.
             apply term_count_recovered. lia. }
           rewrite Hcnt.
           assert (Hrot : set_count (set_tail (xbumped l (n mod 3) (x_tid x) (x_off x) req) ((n + 1) mod 3) (wrap32 (x_tid x + 1) * two32)) (n + 1)
                          = rotated (xbumped l (n mod 3) (x_tid x) (x_off x) req) n).
           { unfold rotated. f_equal. f_equal. f_equal. rewrite Hgi.
             rewrite Htid. rewrite wrap32_add_wrap32. reflexivity. }
           rewrite Hrot. rewrite <- Hidx. apply XR_trip; auto; lia.
Qed.
End XTry.

Definition is_xappend (o : op) : bool := match o with Offer _ | Claim _ => true | _ => false end.

Lemma xtry_result_req x n r1 r2 len r : xtry_result x n r1 len true r -> xtry_result x n r2 len true r.
Proof. intros H. inversion H; subst; try discriminate.
  - apply XR_closed; assumption.
  - apply XR_refused; assumption.
  - apply XR_toolong; assumption. Qed.

Section XStep.
Variables (m : mode) (rv : Z -> Z -> list Z -> Z) (x : xpub) (n : Z).
Hypothesis Hinv : xpub_inv n x.
Local Notation l := (xlog x).

Lemma xhalf_term_32 : 0 < 32 <= l_tlen l / 2.
Proof. pose proof (legal_tlen _ (xi_legal _ _ Hinv)) as [Htl _].
  assert (512 <= l_tlen l / 2) by (apply Z.div_le_lower_bound; lia). lia. Qed.

Ltac name_xact := match goal with |- context [xpub_try _ _ _ ?a] => set (act := a) end.

Lemma xpub_offer_cases msg : zlen msg <= 1073741824 ->
  xtry_result x n (op_required l (Offer msg)) (zlen msg) (op_too_long l (Offer msg)) (xpub_offer m rv x msg).
Proof. intros Hlen. pose proof (zlen_nonneg msg) as H0. pose proof (xi_legal _ _ Hinv) as Hleg.
  pose proof (legal_mpl l Hleg) as (Hm1 & Hm2 & Hm3 & Hm4). pose proof (xi_off _ _ Hinv) as Hoff.
  assert (Hl2 : 0 <= zlen msg < two31) by (unfold two31; lia).
  unfold op_required, op_too_long, op_len, xpub_offer. name_xact.
  destruct (zlen msg <=? max_payload_length l) eqn:E1.
  - assert (E2 : (max_message_length l <? zlen msg) = false) by lia. rewrite E2.
    assert (Hspec : xact_spec l (x_idx x) (x_tid x) (x_off x) (required_spec (zlen msg) (max_payload_length l)) (act l)).
    { unfold act. rewrite E1. unfold required_spec. rewrite E1. unfold unfrag_required_spec. rewrite HDR_eq, FA_eq.
      apply eta_unfrag_spec; auto; lia. }
    refine (proj2 (xpub_try_cases m x n Hinv (zlen msg) act _ Hl2 _) Hspec).
    apply required_half_term; auto. left. lia.
  - destruct (max_message_length l <? zlen msg) eqn:E2.
    + apply (xtry_result_req x n 32).
      assert (HE : act l = Err TooLong) by (unfold act; rewrite E1, E2; reflexivity).
      exact (proj1 (xpub_try_cases m x n Hinv (zlen msg) act 32 Hl2 xhalf_term_32) HE).
    + assert (Hspec : xact_spec l (x_idx x) (x_tid x) (x_off x) (required_spec (zlen msg) (max_payload_length l)) (act l)).
      { unfold act. rewrite E1, E2. unfold required_spec. rewrite E1. apply eta_frag_spec; auto; lia. }
      refine (proj2 (xpub_try_cases m x n Hinv (zlen msg) act _ Hl2 _) Hspec).
      apply required_half_term; auto. right. lia.
Qed.

Lemma xpub_claim_cases len : 0 <= len <= 1073741824 ->
  if max_payload_length l <? len then xpub_claim m x len = (x, Err TooLong)
  else xtry_result x n (op_required l (Claim len)) len false (xpub_claim m x len).
Proof. intros Hlen. pose proof (xi_legal _ _ Hinv) as Hleg.
  pose proof (legal_mpl l Hleg) as (Hm1 & Hm2 & Hm3 & Hm4). pose proof (xi_off _ _ Hinv) as Hoff.
  assert (Hl2 : 0 <= len < two31) by (unfold two31; lia).
  unfold op_required, op_len, xpub_claim.
  destruct (max_payload_length l <? len) eqn:E1; [reflexivity|]. name_xact.
  assert (E1' : (len <=? max_payload_length l) = true) by lia.
  assert (Hspec : xact_spec l (x_idx x) (x_tid x) (x_off x) (required_spec len (max_payload_length l)) (act l)).
  { unfold act. unfold required_spec. rewrite E1'. unfold unfrag_required_spec. rewrite HDR_eq, FA_eq.
    apply eta_claim_spec; auto; lia. }
  refine (proj2 (xpub_try_cases m x n Hinv len act _ Hl2 _) Hspec).
  apply required_half_term; auto; lia.
Qed.

Lemma xpub_step_cases o : op_ok l o -> is_xappend o = true ->
  (exists len, o = Claim len /\ max_payload_length l < len /\ xpub_step m rv x o = (x, Err TooLong)) \/
  xtry_result x n (op_required l o) (op_len o) (op_too_long l o) (xpub_step m rv x o).
Proof. intros Hok Ha. destruct o; try discriminate; cbn [xpub_step op_ok] in *.
  - right. apply xpub_offer_cases; assumption.
  - pose proof (xpub_claim_cases len Hok) as T. cbn [op_too_long].
    destruct (max_payload_length l <? len) eqn:E.
    + left. exists len. repeat split; [lia|exact T].
    + right. exact T. Qed.
End XStep.

(* ---- the invariant is preserved ---- *)
Lemma xbumped_fields l idx tid off req :
  l_count (xbumped l idx tid off req) = l_count l /\ l_limit (xbumped l idx tid off req) = l_limit l /\
  l_connected (xbumped l idx tid off req) = l_connected l /\ same_geom l (xbumped l idx tid off req).
Proof. unfold xbumped, put_padding, put_raw_tail. cbn [l_tlen set_tail]. destruct (off <? l_tlen l); repeat split. Qed.

Lemma xlog_mk l c cl a b d e : xlog (mkX (mkPub l c cl) a b d e) = l.
Proof. reflexivity. Qed.

Lemma xtry_result_inv x n req len tl x' r :
  xpub_inv n x -> 0 < req <= l_tlen (xlog x) / 2 -> xtry_result x n req len tl (x', r) ->
  same_geom (xlog x) (xlog x') /\ l_limit (xlog x') = l_limit (xlog x) /\ l_connected (xlog x') = l_connected (xlog x) /\
  match r with
  | Ok _ => xpub_inv n x'
  | Err AdminAction => xpub_inv (n + 1) x'
  | Err MaxPositionExceeded => x' = x \/ (n = two31 - 1 /\ xpub_inv n x' /\ xspec_pos x' = xspec_pos x)
  | _ => x' = x
  end.
Proof. intros Hinv Hreq H. pose proof Hinv as [Hleg Hn Hidx Htid Hbeg Hoff Hc].
  pose proof (legal_tlen _ Hleg) as [Htl _].
  assert (Hc2 : l_count (xlog x) - n = 0) by lia. clear Hc.
  inversion H; subst.
  - repeat split; auto.
  - repeat split; auto. unfold status_of. destruct (_ <=? _); [left; reflexivity|]. destruct (l_connected _); reflexivity.
  - repeat split; auto.
  - split; [repeat split|]. split; [reflexivity|]. split; [reflexivity|].
    constructor; unfold xlog in *; cbn [x_pub ps_log x_idx x_tid x_begin x_off l_init l_tlen l_count set_part put_raw_tail set_tail]; auto; lia.
  - destruct (xbumped_fields (xlog x) (x_idx x) (x_tid x) (x_off x) req) as (Bc & Bl & Bcn & Bg).
    destruct (rotated_fields (xbumped (xlog x) (x_idx x) (x_tid x) (x_off x) req) n) as (Rc & Rl & Rcn & Rg).
    assert (Hg : same_geom (xlog x) (rotated (xbumped (xlog x) (x_idx x) (x_tid x) (x_off x) req) n)) by (eapply same_geom_trans; eassumption).
    rewrite !xlog_mk.
    split; [exact Hg|]. split; [congruence|]. split; [congruence|].
    destruct Hg as (G1 & G2 & G3 & G4 & G5).
    constructor; rewrite ?xlog_mk; cbn [x_pub ps_log x_idx x_tid x_begin x_off]; rewrite <- ?G1, <- ?G2.
    + eapply legal_same; [|exact Hleg]. repeat split; assumption.
    + lia.
    + reflexivity.
    + rewrite Htid. rewrite wrap32_add_wrap32. f_equal. ring.
    + rewrite Hbeg. ring.
    + lia.
    + exact Rc.
  - destruct (xbumped_fields (xlog x) (x_idx x) (x_tid x) (x_off x) req) as (Bc & Bl & Bcn & Bg).
    rewrite !xlog_mk.
    split; [exact Bg|]. split; [congruence|]. split; [congruence|]. right. split; [lia|].
    destruct Bg as (G1 & G2 & G3 & G4 & G5). split; [|reflexivity].
    constructor; rewrite ?xlog_mk; cbn [x_pub ps_log x_idx x_tid x_begin x_off]; rewrite <- ?G1, <- ?G2; auto.
    + eapply legal_same; [|exact Hleg]. repeat split; assumption.
    + lia.
Qed.

Lemma env_step_log s o : l_count (ps_log (fst (env_step s o))) = l_count (ps_log s) /\ same_geom (ps_log s) (ps_log (fst (env_step s o))).
Proof. destruct o; cbn [env_step fst]; try (split; [reflexivity|apply same_geom_refl]).
  - unfold pub_commit, claim_apply. destruct (ps_claim s) as [[[i o0] fl]|]; [|split; [reflexivity|apply same_geom_refl]].
    destruct (fl - HDR <? zlen body); cbn [fst ps_log]; split; try reflexivity; try apply same_geom_refl. apply same_geom_set_part.
  - unfold claim_apply. destruct (ps_claim s) as [[[i o0] fl]|]; cbn [fst ps_log]; split; try reflexivity; try apply same_geom_refl.
    apply same_geom_set_part.
  - split; [reflexivity|apply same_geom_set_limit].
  - split; [reflexivity|apply same_geom_set_connected].
  - split; [reflexivity|apply same_geom_set_part]. Qed.

Theorem xpub_step_inv m rv x n o : xpub_inv n x -> op_ok (xlog x) o ->
  exists n', xpub_inv n' (fst (xpub_step m rv x o)) /\ same_geom (xlog x) (xlog (fst (xpub_step m rv x o))).
Proof. intros Hinv Hok. destruct (is_xappend o) eqn:Ea.
  - assert (Hcase : (op_too_long (xlog x) o = true /\ fst (xpub_step m rv x o) = x) \/
        (exists r, 0 < op_required (xlog x) o <= l_tlen (xlog x) / 2 /\
           xtry_result x n (op_required (xlog x) o) (op_len o) false (fst (xpub_step m rv x o), r))).
    { pose proof (xi_legal _ _ Hinv) as Hleg. pose proof (legal_mpl _ Hleg) as (Hm1 & Hm2 & Hm3 & Hm4).
      destruct (xpub_step_cases m rv x n Hinv o Hok Ea) as [(len & -> & Hgt & E) | T].
      - left. rewrite E. split; [cbn; lia|reflexivity].
      - destruct (op_too_long (xlog x) o) eqn:Etl.
        + left. split; [reflexivity|]. inversion T; subst; try discriminate; reflexivity.
        + right. destruct (xpub_step m rv x o) as [x' r]. exists r. split; [|exact T].
          unfold op_required. destruct o; try discriminate; cbn [op_len op_too_long op_ok] in *.
          * apply required_half_term; auto; [apply zlen_nonneg|right; lia].
          * apply required_half_term; auto; [lia|left; lia]. }
    destruct Hcase as [[_ Hs] | (r & Hreq & T)].
    + rewrite Hs. exists n. split; [assumption|apply same_geom_refl].
    + destruct (xtry_result_inv x n _ _ _ _ r Hinv Hreq T) as (Hg & _ & _ & Hr).
      destruct r as [p|e| | |]; try (rewrite Hr; exists n; split; [assumption|apply same_geom_refl]).
      * eexists. split; [exact Hr|exact Hg].
      * destruct e; try (rewrite Hr; exists n; split; [assumption|apply same_geom_refl]).
        -- eexists. split; [exact Hr|exact Hg].
        -- destruct Hr as [Hr | (_ & Hr & _)]; [rewrite Hr; exists n; split; [assumption|apply same_geom_refl]|].
           eexists. split; [exact Hr|exact Hg].
  - assert (E : xpub_step m rv x o = (let '(p, r) := env_step (x_pub x) o in (x_with_pub x p, r)) \/ xpub_step m rv x o = (x, Ok 0)).
    { destruct o; try discriminate; auto. }
    destruct E as [E | E]; [|rewrite E; exists n; split; [assumption|apply same_geom_refl]].
    rewrite E. destruct (env_step_log (x_pub x) o) as [Hc Hg]. destruct (env_step (x_pub x) o) as [p r]. cbn [fst] in *.
    exists n. unfold x_with_pub, xlog in *. cbn [x_pub]. split; [|exact Hg].
    destruct Hinv as [Hleg Hn Hidx Htid Hbeg Hoff Hcnt]. destruct Hg as (G1 & G2 & G3 & G4 & G5).
    constructor; unfold xlog in *; cbn [x_pub x_idx x_tid x_begin x_off]; rewrite <- ?G1, <- ?G2; auto.
    + eapply legal_same; [|exact Hleg]. repeat split; assumption.
    + congruence.
Qed.

Theorem xpub_run_inv m rv ops : forall x n, xpub_inv n x -> hist_ok (xlog x) ops ->
  exists n', xpub_inv n' (xpub_run m rv x ops) /\ same_geom (xlog x) (xlog (xpub_run m rv x ops)).
Proof. induction ops as [|o r IH]; intros x n Hinv Hok.
  - exists n. split; [assumption|apply same_geom_refl].
  - inversion Hok as [|? ? Ho Hr]; subst. cbn [xpub_run].
    destruct (xpub_step_inv m rv x n o Hinv Ho) as (n1 & Hinv1 & Hg1).
    destruct (IH _ n1 Hinv1) as (n2 & Hinv2 & Hg2).
    + eapply Forall_impl; [|exact Hr]. intros a. apply op_ok_same. destruct Hg1 as (_ & H & _). exact H.
    + exists n2. split; [assumption|]. eapply same_geom_trans; eassumption.
Qed.

(* ---- the constructor (as repaired) on a handed-over log ---- *)
Lemma xpub_new_handed_over init tlen mtu ses str n0 off0 :
  geometry_ok init tlen mtu -> 0 <= n0 < two31 -> 0 <= off0 <= tlen ->
  exists x, xpub_new (handed_over init tlen mtu ses str n0 off0) = Ok x /\ xpub_inv n0 x /\
            xlog x = handed_over init tlen mtu ses str n0 off0 /\ xspec_pos x = n0 * tlen + off0.
Proof. intros Hg Hn Ho. pose proof (handed_over_inv init tlen mtu ses str n0 off0 Hg Hn Ho) as Hinv.
  set (l := handed_over init tlen mtu ses str n0 off0) in *.
  pose proof Hinv as [Hleg _ Hcount _ Htail _ _ _]. cbn [ps_log pub_init] in *.
  destruct (handed_over_fields init tlen mtu ses str n0 off0) as (F1 & F2 & F3 & F4 & F5 & F6). fold l in F1, F2, F3, F4, F5, F6.
  pose proof (legal_tlen _ Hleg) as [Htl _]. destruct (legal_bits _ Hleg) as (bits & Hb & Ht & Hbo).
  unfold xpub_new. rewrite Hcount. rewrite index_by_term_count_nonneg by assumption.
  pose proof (mod3_range n0). assert (E : (n0 mod 3 <? 0) = false) by lia. rewrite E.
  eexists. split; [reflexivity|]. rewrite Htail.
  rewrite raw_tid; [|apply wrap32_range|unfold two32; lia].
  unfold term_offset_of. rewrite raw_mod by (unfold two32; lia).
  assert (Hmin : Z.min off0 (l_tlen l) = off0) by lia. rewrite Hmin. rewrite wrap32_small by lia.
  rewrite Hbo. rewrite compute_term_begin_position_spec; try lia; try (apply legal_init; assumption).
  unfold spec_position. rewrite <- Ht.
  split; [|split; [reflexivity|]].
  - constructor; unfold xlog; cbn [x_pub pub_init ps_log x_idx x_tid x_begin x_off]; auto; lia.
  - unfold xspec_pos. cbn [x_begin x_off]. rewrite F2. ring.
Qed.

Lemma xpub_position_spec m x n : xpub_inv n x -> ps_closed (x_pub x) = false -> xpub_position m x = Ok (xspec_pos x).
Proof. intros Hinv Hc. unfold xpub_position. rewrite Hc. pose proof (xinv_bounds x n Hinv) as (Htl & Hb0 & Hb1).
  pose proof (xi_off _ _ Hinv). unfold xspec_pos. apply add64_ok. unfold in_i64, two63, two31 in *. lia. Qed.

Lemma xspec_pos_range x n : xpub_inv n x -> 0 <= xspec_pos x <= l_tlen (xlog x) * two31.
Proof. intros Hinv. pose proof (xinv_bounds x n Hinv) as (Htl & Hb0 & Hb1). pose proof (xi_off _ _ Hinv). unfold xspec_pos. lia. Qed.

(* ---- C04 for the exclusive publication ---- *)
Theorem xpub_accept m rv x n o x' p : xpub_inv n x -> op_ok (xlog x) o -> is_xappend o = true ->
  xpub_step m rv x o = (x', Ok p) ->
  ps_closed (x_pub x) = false /\ op_too_long (xlog x) o = false /\
  xpub_position m x = Ok (xspec_pos x) /\ xspec_pos x < l_limit (xlog x) /\
  p = xspec_pos x + op_required (xlog x) o /\ xpub_position m x' = Ok p /\ p <= l_tlen (xlog x) * two31 /\ xpub_inv n x'.
Proof. intros Hinv Hok Ha Hs. destruct (xpub_step_cases m rv x n Hinv o Hok Ha) as [(len & _ & _ & E) | T].
  - rewrite E in Hs. discriminate.
  - rewrite Hs in T. pose proof (xi_legal _ _ Hinv) as Hleg. pose proof (legal_mpl _ Hleg) as (Hm1 & Hm2 & Hm3 & Hm4).
    inversion T; subst.
    match goal with H : op_too_long _ _ = false |- _ => rename H into Htl end.
    assert (Hreq : 0 < op_required (xlog x) o <= l_tlen (xlog x) / 2).
    { unfold op_required. destruct o; try discriminate; cbn [op_len op_too_long op_ok] in *.
      - apply required_half_term; auto; [apply zlen_nonneg|right; lia].
      - apply required_half_term; auto; [lia|left; lia]. }
    destruct (xtry_result_inv x n _ _ _ _ _ Hinv Hreq T) as (Hg & _ & _ & Hinv').
    split; [assumption|]. split; [congruence|]. split; [apply (xpub_position_spec m x n); assumption|].
    split; [assumption|]. split; [reflexivity|].
    split; [|split; [|exact Hinv']].
    + rewrite (xpub_position_spec m _ n Hinv') by reflexivity. unfold xspec_pos. cbn [x_begin x_off]. f_equal. ring.
    + pose proof (xinv_bounds x n Hinv) as (Htl2 & Hb0 & Hb1). unfold xspec_pos. lia.
Qed.

Theorem xpub_refuse_pure m rv x n o x' e : xpub_inv n x -> op_ok (xlog x) o -> is_xappend o = true ->
  xpub_step m rv x o = (x', Err e) ->
  (e = BackPressured \/ e = NotConnected \/ e = Closed \/ e = TooLong) -> x' = x.
Proof. intros Hinv Hok Ha Hs He. destruct (xpub_step_cases m rv x n Hinv o Hok Ha) as [(len & _ & _ & E) | T].
  - rewrite E in Hs. congruence.
  - rewrite Hs in T. inversion T; subst; try reflexivity; destruct He as [He | [He | [He | He]]]; discriminate. Qed.

Theorem xpub_refuse_at_limit m rv x n o : xpub_inv n x -> op_ok (xlog x) o -> is_xappend o = true ->
  ps_closed (x_pub x) = false -> l_limit (xlog x) <= xspec_pos x ->
  xpub_step m rv x o =
    (x, Err (match o with
             | Claim len => if max_payload_length (xlog x) <? len then TooLong else status_of (xlog x) (xspec_pos x) len
             | _ => status_of (xlog x) (xspec_pos x) (op_len o) end)).
Proof. intros Hinv Hok Ha Hc Hl.
  destruct (xpub_step_cases m rv x n Hinv o Hok Ha) as [(len & -> & Hgt & E) | T].
  - rewrite E. assert (E2 : (max_payload_length (xlog x) <? len) = true) by lia. rewrite E2. reflexivity.
  - inversion T; subst; try congruence; try lia.
    destruct o; try discriminate; cbn [op_len]; try reflexivity.
    destruct (max_payload_length (xlog x) <? len) eqn:E; [|reflexivity].
    pose proof (xpub_claim_cases m x n Hinv len Hok) as T2. rewrite E in T2. cbn [xpub_step] in *.
    exfalso. match goal with H : (x, Err (status_of ?a ?b ?c)) = _ |- _ => rewrite T2 in H; unfold status_of in H;
      destruct (_ <=? _) in H; [discriminate|]; destruct (l_connected _) in H; discriminate end.
Qed.

Theorem xpub_closed m rv x n o : xpub_inv n x -> op_ok (xlog x) o -> is_xappend o = true -> ps_closed (x_pub x) = true ->
  xpub_step m rv x o = (x, Err Closed) \/ (exists len, o = Claim len /\ max_payload_length (xlog x) < len /\ xpub_step m rv x o = (x, Err TooLong)).
Proof. intros Hinv Hok Ha Hc. destruct (xpub_step_cases m rv x n Hinv o Hok Ha) as [(len & Ho & Hgt & E) | T].
  - right. exists len. auto.
  - left. inversion T; subst; try congruence. Qed.

Theorem xpub_too_long m rv x n o : xpub_inv n x -> op_ok (xlog x) o -> is_xappend o = true ->
  op_too_long (xlog x) o = true -> exists e, xpub_step m rv x o = (x, Err e).
Proof. intros Hinv Hok Ha Htl. destruct (xpub_step_cases m rv x n Hinv o Hok Ha) as [(len & Ho & Hgt & E) | T].
  - exists TooLong. exact E.
  - rewrite Htl in T. inversion T; subst; try discriminate; eexists; reflexivity. Qed.

Theorem xpub_trip m rv x n o x' e : xpub_inv n x -> op_ok (xlog x) o -> is_xappend o = true ->
  xpub_step m rv x o = (x', Err e) -> x' <> x ->
  ps_closed (x_pub x) = false /\ op_too_long (xlog x) o = false /\ xspec_pos x < l_limit (xlog x) /\
  l_tlen (xlog x) < x_off x + op_required (xlog x) o /\
  ((e = AdminAction /\ n < two31 - 1 /\
    x' = mkX (mkPub (rotated (xbumped (xlog x) (x_idx x) (x_tid x) (x_off x) (op_required (xlog x) o)) n) false (ps_claim (x_pub x)))
             0 (wrap32 (x_tid x + 1)) ((n + 1) mod 3) (x_begin x + l_tlen (xlog x))) \/
   (e = MaxPositionExceeded /\ n = two31 - 1 /\
    x' = mkX (mkPub (xbumped (xlog x) (x_idx x) (x_tid x) (x_off x) (op_required (xlog x) o)) false (ps_claim (x_pub x)))
             (x_off x) (x_tid x) (x_idx x) (x_begin x))).
Proof. intros Hinv Hok Ha Hs Hne. destruct (xpub_step_cases m rv x n Hinv o Hok Ha) as [(len & _ & _ & E) | T].
  - rewrite E in Hs. congruence.
  - rewrite Hs in T. pose proof (xi_n _ _ Hinv) as Hn.
    inversion T; subst; try congruence.
    + do 4 (split; [auto|]). left. split; [reflexivity|]. split; [assumption|reflexivity].
    + do 4 (split; [auto|]). right. split; [reflexivity|]. split; [lia|reflexivity]. Qed.

Theorem xpub_total m rv x n o : xpub_inv n x -> op_ok (xlog x) o -> is_xappend o = true ->
  match snd (xpub_step m rv x o) with
  | Ok _ | Err BackPressured | Err NotConnected | Err AdminAction | Err MaxPositionExceeded | Err Closed | Err TooLong => True
  | _ => False
  end.
Proof. intros Hinv Hok Ha. destruct (xpub_step_cases m rv x n Hinv o Hok Ha) as [(len & _ & _ & E) | T].
  - rewrite E. exact I.
  - inversion T; cbn [snd]; auto. unfold status_of. destruct (_ <=? _); [exact I|]. destruct (l_connected _); exact I. Qed.

(* ---- the constructor the repository had before fixes/C04-excl-new.diff ---- *)
(* on a log handed over at term count 2 (position 8192, active partition 2) it reports position 0 and its first offer
   goes to partition 0 with the stale term id left there, while the stream's real tail is untouched *)
Lemma xpub_new_asis_wrong :
  let l := handed_over 0 4096 512 11 22 2 0 in
  exists x, xpub_new_asis l = Ok x /\ xpub_position Debug x = Ok 0 /\ x_idx x = 0 /\
    (exists x1, xpub_new l = Ok x1 /\ xpub_position Debug x1 = Ok 8192 /\ x_idx x1 = 2) /\
    let x' := fst (xpub_step Debug harness_rv (fst (xpub_step Debug harness_rv x (SetLimit 100000))) (Offer [1; 2; 3])) in
    tail (xlog x') 2 = tail l 2 /\ tail (xlog x') 0 <> tail l 0 /\ part (xlog x') 0 <> [].
Proof. cbv zeta. eexists. split; [reflexivity|]. split; [reflexivity|]. split; [reflexivity|]. split.
  - eexists. split; [reflexivity|]. split; reflexivity.
  - vm_compute. repeat split; discriminate. Qed.
