(* The simulation between the manager's state and the book-keeping of the C15 oracle, preserved by
   every operation inside the API contract; from it: the oracle accepts every history of the model
   (all slot counts, all operation lists), and every reader accessor is total in every reachable state. *)
Require Import V.Base.MachineInt.
Require Import V.Generated.GenConsts.
Require Import V.Model.Counters.
Require Import V.Oracle.C15Oracle.
Require Import V.Proofs.CountersProofs.
From Coq Require Import ZifyBool Lia.
Open Scope Z_scope.

(* ---- the simulation between the manager's state and the history's book-keeping ---- *)
Definition Rid (s : mgr) (sp : spec) (id : Z) : Prop :=
  let r := meta s id in
  (r_state r = ST_ALLOCATED \/ r_state r = ST_RECLAIMED \/ r_state r = ST_UNUSED) /\
  (0 <= id < hwm s <-> r_state r <> ST_UNUSED) /\
  (In id (sp_live sp) <-> r_state r = ST_ALLOCATED) /\
  (In id (sp_freed sp) <-> r_state r = ST_RECLAIMED) /\
  (length (r_key r) = 112%nat /\ length (r_label r) = 380%nat /\ 0 <= r_llen r <= 380) /\
  (In id (sp_live sp) ->
     let i := sp_info sp id in
     r_type r = i_type i /\ firstn (length (i_key i)) (r_key r) = i_key i /\
     r_llen r = zlen (i_label i) /\ firstn (length (i_label i)) (r_label r) = i_label i /\
     vals s id = i_value i /\ r_deadline r = NOT_FREE) /\
  (In id (sp_freed sp) ->
     r_deadline r = sp_freed_at sp id + timeout s /\ 0 <= sp_freed_at sp id /\
     sp_freed_at sp id + timeout s < two63) /\
  (r_state r = ST_UNUSED -> vals s id = 0).

Record R (g : cfg) (s : mgr) (sp : spec) : Prop := mkR {
  R_geom : geom s;
  R_nm : nm s = g_nm g;
  R_nv : nv s = g_nv g;
  R_to : timeout s = g_timeout g;
  R_now : now s = sp_now sp;
  R_time : 0 <= now s /\ now s + timeout s < two63 /\ 0 <= timeout s;
  R_used : hwm s = sp_used sp;
  R_hwm : 0 <= hwm s <= g_n g;
  R_fl : free_list s = sp_freed sp;
  R_nodup : NoDup (sp_freed sp);
  R_id : forall id, Rid s sp id }.

Lemma R_init nm nv timeout :
  cfg_ok (mkcfg nm nv timeout) = true -> R (mkcfg nm nv timeout) (mgr0 nm nv timeout) spec0.
Proof.
  unfold cfg_ok. cbn [g_nm g_nv g_timeout]. cs. intros H.
  constructor; cbn; try reflexivity.
  - unfold geom. cbn. unfold two31 in *. lia.
  - unfold two63 in *. lia.
  - unfold g_n. cbn. lia.
  - constructor.
  - intros id. unfold Rid. cbn. cs. repeat split; try tauto; try lia; try discriminate; auto.
Qed.

Lemma Rid_frame s sp s1 sp1 j :
  meta s1 j = meta s j -> vals s1 j = vals s j -> timeout s1 = timeout s ->
  (0 <= j < hwm s1 <-> 0 <= j < hwm s) ->
  (In j (sp_live sp1) <-> In j (sp_live sp)) -> (In j (sp_freed sp1) <-> In j (sp_freed sp)) ->
  sp_info sp1 j = sp_info sp j -> sp_freed_at sp1 j = sp_freed_at sp j ->
  Rid s sp j -> Rid s1 sp1 j.
Proof.
  intros Hm Hv Ht Hh Hl Hf Hi Ha. unfold Rid. rewrite Hm, Hv, Ht, Hh, Hl, Hf, Hi, Ha. tauto.
Qed.

(* ids the book-keeping knows lie below the high water mark *)
Lemma R_live_range g s sp id : R g s sp -> In id (sp_live sp) -> 0 <= id < hwm s.
Proof.
  intros HR H. destruct (R_id _ _ _ HR id) as (_ & U & L & _). apply U. apply L in H. rewrite H. cs. lia.
Qed.
Lemma R_freed_range g s sp id : R g s sp -> In id (sp_freed sp) -> 0 <= id < hwm s.
Proof.
  intros HR H. destruct (R_id _ _ _ HR id) as (_ & U & _ & F & _). apply U. apply F in H. rewrite H. cs. lia.
Qed.
Lemma R_n g s sp : R g s sp -> g_n g = Z.min (nm s) (nv s).
Proof. intros HR. unfold g_n. rewrite (R_nm _ _ _ HR), (R_nv _ _ _ HR). reflexivity. Qed.

Lemma wrap64_small z : 0 <= z < two63 -> wrap64 z = z.
Proof. intros. apply wrap64_id. unfold in_i64, two63 in *. lia. Qed.

(* the manager's reuse test agrees with the history's notion of "cooled down" on freed ids *)
Lemma cooled_agree g s sp id : R g s sp -> In id (sp_freed sp) -> cooled_m s id = cooled g sp id.
Proof.
  intros HR H. destruct (R_id _ _ _ HR id) as (_ & _ & _ & _ & _ & _ & D & _).
  destruct (D H) as (D1 & D2 & D3). destruct (R_time _ _ _ HR) as (T1 & T2 & T3).
  unfold cooled_m, cooled. rewrite D1. rewrite !wrap64_small by lia.
  rewrite <- (R_now _ _ _ HR), <- (R_to _ _ _ HR). reflexivity.
Qed.


Definition lab_of (r : rec) : list Z := firstn (Z.to_nat (r_llen r)) (r_label r).
Definition entry_of (s : mgr) (id : Z) : entry := (id, r_type (meta s id), r_key (meta s id), lab_of (meta s id)).
Definition alloc_b (s : mgr) (id : Z) : bool := r_state (meta s id) =? ST_ALLOCATED.
Definition live_ids (s : mgr) : list Z := filter (alloc_b s) (zrange 0 (Z.to_nat (hwm s))).

Lemma get_label_ok s id :
  geom s -> 0 <= id < nm s -> 0 <= r_llen (meta s id) <= 380 ->
  get_label s id = COk (lab_of (meta s id)).
Proof.
  intros G Hid Hl. unfold get_label.
  rewrite meta_access_ok by (auto; cs; lia). cbn [bindC].
  replace ((r_llen (meta s id) <? 0) || (r_llen (meta s id) >? MAXLAB)) with false by (cs; lia).
  rewrite meta_access_ok by (auto; cs; lia). reflexivity.
Qed.

Lemma zrange_S a k : zrange a (S k) = a :: zrange (a + 1) k.
Proof. reflexivity. Qed.

Lemma in_zrange x a k : In x (zrange a k) <-> a <= x < a + Z.of_nat k.
Proof.
  revert a. induction k as [|k IH]; intros a; cbn [zrange In].
  - lia.
  - rewrite IH. lia.
Qed.

Lemma for_each_from_spec g s sp : R g s sp ->
  forall fuel id, 0 <= id <= hwm s -> id + Z.of_nat fuel = nm s ->
  for_each_from s fuel id =
  COk (map (entry_of s) (filter (alloc_b s) (zrange id (Z.to_nat (hwm s - id))))).
Proof.
  intros HR. pose proof (R_geom _ _ _ HR) as G. pose proof (R_hwm _ _ _ HR) as Hh.
  rewrite (R_n _ _ _ HR) in Hh.
  induction fuel as [|f IH]; intros id Hid Hf.
  - cbn [for_each_from]. replace (hwm s - id) with 0 by lia. reflexivity.
  - cbn [for_each_from]. rewrite meta_access_ok by (auto; cs; lia). cbn [bindC].
    destruct (R_id _ _ _ HR id) as (T & U & _ & _ & (_ & _ & LL) & _).
    destruct (Z.eq_dec id (hwm s)) as [E|E].
    + assert (S0 : r_state (meta s id) = ST_UNUSED).
      { destruct (Z.eq_dec (r_state (meta s id)) ST_UNUSED) as [X|X]; [exact X|]. apply U in X. lia. }
      rewrite S0, Z.eqb_refl. replace (hwm s - id) with 0 by lia. reflexivity.
    + assert (S1 : r_state (meta s id) <> ST_UNUSED) by (apply U; lia).
      replace (r_state (meta s id) =? ST_UNUSED) with false by lia.
      replace (Z.to_nat (hwm s - id)) with (S (Z.to_nat (hwm s - (id + 1)))) by lia.
      rewrite zrange_S. cbn [filter]. unfold alloc_b at 1.
      destruct (r_state (meta s id) =? ST_ALLOCATED) eqn:A.
      * rewrite meta_access_ok by (auto; cs; lia). cbn [bindC].
        rewrite get_label_ok by (auto; lia). cbn [bindC].
        rewrite IH by lia. cbn [bindC map]. reflexivity.
      * rewrite IH by lia. reflexivity.
Qed.

Lemma for_each_spec g s sp : R g s sp -> for_each s = COk (map (entry_of s) (live_ids s)).
Proof.
  intros HR. unfold for_each, live_ids.
  pose proof (R_hwm _ _ _ HR) as Hh. pose proof (R_geom _ _ _ HR) as (G1 & _).
  rewrite (for_each_from_spec _ _ _ HR) by lia. rewrite Z.sub_0_r. reflexivity.
Qed.

Lemma for_each_ids_spec g s sp : R g s sp -> for_each_ids s = COk (live_ids s).
Proof.
  intros HR. unfold for_each_ids. rewrite (for_each_spec _ _ _ HR). cbn [bindC].
  rewrite map_map. f_equal. apply map_id.
Qed.

Lemma in_live_ids g s sp id : R g s sp -> (In id (live_ids s) <-> In id (sp_live sp)).
Proof.
  intros HR. unfold live_ids. rewrite filter_In, in_zrange.
  destruct (R_id _ _ _ HR id) as (_ & U & L & _). unfold alloc_b. rewrite L.
  pose proof (R_hwm _ _ _ HR). split.
  - intros [_ H1]. lia.
  - intros H1. split; [|lia]. assert (0 <= id < hwm s) by (apply U; rewrite H1; cs; lia). lia.
Qed.

Lemma asc_cons_ge a l : asc l = true -> (forall x, In x l -> a < x) -> asc (a :: l) = true.
Proof. destruct l as [|b t]; intros H1 H2; [reflexivity|].
  change (asc (a :: b :: t)) with ((a <? b) && asc (b :: t)). rewrite H1. specialize (H2 b (or_introl eq_refl)). lia. Qed.

Lemma asc_filter_zrange p a k : asc (filter p (zrange a k)) = true.
Proof.
  revert a. induction k as [|k IH]; intros a; cbn [zrange filter]; [reflexivity|].
  destruct (p a); [|apply IH]. apply asc_cons_ge; [apply IH|].
  intros x Hx. apply filter_In in Hx as [Hx _]. apply in_zrange in Hx. lia.
Qed.

Lemma forallb_memb l1 l2 : (forall x, In x l1 -> In x l2) -> forallb (fun x => memb x l2) l1 = true.
Proof. intros H. apply forallb_forall. intros x Hx. apply memb_in. auto. Qed.

Lemma ids_ok_live g s sp live :
  R g s sp -> (forall x, In x live <-> In x (sp_live sp)) -> ids_ok (for_each_ids s) live = true.
Proof.
  intros HR Hl. rewrite (for_each_ids_spec _ _ _ HR). unfold ids_ok.
  unfold live_ids at 1. rewrite asc_filter_zrange. cbn [andb].
  rewrite forallb_memb by (intros x Hx; apply Hl; apply (in_live_ids _ _ _ _ HR); exact Hx).
  rewrite forallb_memb by (intros x Hx; apply (in_live_ids _ _ _ _ HR); apply Hl; exact Hx).
  reflexivity.
Qed.


Definition step_good (g : cfg) (m : mode) (o : op) (s : mgr) (sp : spec) : Prop :=
  let '(ob, s1) := step m o s in
  chk g o ob sp = true /\ obs_panicked ob = false /\ R g s1 (spec_step o ob sp).

Lemma chk_step g o r va ids sp :
  shape_ok o (OStep r va ids) = true -> c_unique g o (OStep r va ids) sp = true ->
  c_reuse g o (OStep r va ids) sp = true -> c_fail_closed g o (OStep r va ids) sp = true ->
  ids_ok ids (live_after o (OStep r va ids) sp) = true ->
  chk g o (OStep r va ids) sp = true.
Proof.
  intros A B C D E. unfold chk. rewrite A, B, C, D. cbn [c_enumerate c_total norm_ob andb]. rewrite E.
  destruct o; reflexivity.
Qed.

(* ---- SetClock ---- *)
Lemma step_setclock g m t s sp :
  R g s sp -> contract_step g (SetClock t) sp = true -> step_good g m (SetClock t) s sp.
Proof.
  intros HR HC. unfold step_good. cbn [step].
  cbn [contract_step norm_op norm_ob] in HC.
  assert (HR1 : R g (set_now s t) (spec_step (SetClock t) (OStep (COk 0) (COk 0) (for_each_ids (set_now s t))) sp)).
  { cbn [spec_step norm_op norm_ob]. destruct HR as [R_geom0 R_nm0 R_nv0 R_to0 R_now0 R_time0 R_used0 R_hwm0 R_fl0 R_nodup0 R_id0]. constructor; cbn; try assumption; try reflexivity.
    rewrite R_to0. destruct R_time0 as (_ & _ & T). unfold two63 in *. lia. }
  split; [|split; [reflexivity|exact HR1]].
  apply chk_step; try reflexivity.
  eapply ids_ok_live; [exact HR1|]. cbn. tauto.
Qed.

(* ---- SetVal ---- *)
Lemma step_setval g m id v s sp :
  R g s sp -> contract_step g (SetVal id v) sp = true -> step_good g m (SetVal id v) s sp.
Proof.
  intros HR HC. unfold step_good. cbn [step].
  cbn [contract_step norm_op norm_ob] in HC. apply andb_prop in HC as [HL HV].
  assert (Hr : 0 <= id < hwm s).
  { apply orb_prop in HL as [HL|HL]; apply memb_in in HL;
      [exact (R_live_range _ _ _ _ HR HL)|exact (R_freed_range _ _ _ _ HR HL)]. }
  pose proof (R_hwm _ _ _ HR) as Hh.
  rewrite (R_n _ _ _ HR) in Hh.
  unfold set_counter_value. rewrite put_val_ok by (try apply (R_geom _ _ _ HR); lia).
  assert (HR1 : R g (set_val s id v) (spec_step (SetVal id v) (OStep (COk 0) (COk 0) (for_each_ids (set_val s id v))) sp)).
  { cbn [spec_step norm_op norm_ob]. destruct HR as [R_geom0 R_nm0 R_nv0 R_to0 R_now0 R_time0 R_used0 R_hwm0 R_fl0 R_nodup0 R_id0]. constructor; cbn; try assumption; try reflexivity.
    intros j. destruct (Z.eq_dec j id) as [E|E].
    - subst j. specialize (R_id0 id). unfold Rid in *. cbn. rewrite !upd_eq. cbn.
      destruct R_id0 as (A & B & C & D & E & F & G & H).
      repeat split; try tauto; try (apply F; assumption).
    - eapply Rid_frame; try apply R_id0; cbn; try reflexivity; try tauto; rewrite upd_neq by assumption; reflexivity. }
  split; [|split; [reflexivity|exact HR1]].
  apply chk_step; try reflexivity.
  eapply ids_ok_live; [exact HR1|]. cbn. tauto.
Qed.

Lemma nodup_snoc (l : list Z) x : NoDup l -> ~ In x l -> NoDup (l ++ [x]).
Proof.
  induction l as [|a t IH]; intros ND NI; cbn.
  - constructor; [intros []|constructor].
  - inversion ND; subst. constructor.
    + rewrite in_app_iff. cbn. intros [H|[H|[]]]; [contradiction|]. subst. apply NI. left. reflexivity.
    + apply IH; [assumption|]. intro. apply NI. right. assumption.
Qed.

(* ---- Free ---- *)
Lemma free_ok m s id :
  geom s -> 0 <= id < nm s -> 0 <= now s -> 0 <= timeout s -> now s + timeout s < two63 ->
  free m id s = (COk tt,
    set_free_list (set_meta (set_meta s id (with_deadline (meta s id) (now s + timeout s))) id
                     (with_state (with_deadline (meta s id) (now s + timeout s)) ST_RECLAIMED))
                  (free_list s ++ [id])).
Proof.
  intros G Hid H1 H2 H3. unfold free, bindM, readM.
  unfold addu64, chku64. replace (in_u64 (now s + timeout s)) with true
    by (unfold in_u64, two64, two63 in *; lia).
  rewrite put_meta_ok by (auto; cs; lia).
  rewrite put_meta_ok by (try (apply geom_set_meta; exact G); cbn; auto; cs; lia).
  unfold modM. cbn [meta set_meta]. rewrite upd_eq. reflexivity.
Qed.

Lemma step_free g m id s sp :
  R g s sp -> contract_step g (Free id) sp = true -> step_good g m (Free id) s sp.
Proof.
  intros HR HC. unfold step_good. cbn [step].
  cbn [contract_step norm_op norm_ob] in HC. apply memb_in in HC.
  pose proof (R_live_range _ _ _ _ HR HC) as Hr. pose proof (R_hwm _ _ _ HR) as Hh.
  rewrite (R_n _ _ _ HR) in Hh. destruct (R_time _ _ _ HR) as (T1 & T2 & T3).
  rewrite free_ok by (try apply (R_geom _ _ _ HR); lia).
  match goal with |- context [for_each_ids ?x] => set (s1 := x) end.
  assert (HA : r_state (meta s id) = ST_ALLOCATED).
  { destruct (R_id _ _ _ HR id) as (_ & _ & L & _). apply L. exact HC. }
  assert (HNF : ~ In id (sp_freed sp)).
  { destruct (R_id _ _ _ HR id) as (_ & _ & _ & F & _). rewrite F, HA. cs. discriminate. }
  assert (HR1 : R g s1 (spec_step (Free id) (OStep (COk 0) (COk 0) (for_each_ids s1)) sp)).
  { cbn [spec_step norm_op norm_ob]. subst s1. destruct HR as [R_geom0 R_nm0 R_nv0 R_to0 R_now0 R_time0 R_used0 R_hwm0 R_fl0 R_nodup0 R_id0]. constructor; cbn; try assumption; try reflexivity.
    - rewrite R_fl0. reflexivity.
    - apply nodup_snoc; assumption.
    - intros j. destruct (Z.eq_dec j id) as [E|E].
      + subst j. specialize (R_id0 id). unfold Rid in *. cbn. rewrite !upd_eq. cbn.
        destruct R_id0 as (A & B & C & D & E & F & G & H).
        rewrite in_remove_all, in_app_iff. cbn [In].
        repeat split; try tauto; try lia; try (intros; cs; discriminate); try (cs; lia); auto.
      + eapply Rid_frame; try apply R_id0; cbn; try reflexivity; try (rewrite !upd_neq by assumption; reflexivity).
        * rewrite in_remove_all. tauto.
        * rewrite in_app_iff. cbn. intuition congruence. }
  split; [|split; [reflexivity|exact HR1]].
  apply chk_step; try reflexivity.
  eapply ids_ok_live; [exact HR1|]. cbn. tauto.
Qed.


Lemma length_overwrite (old new : list Z) :
  (length new <= length old)%nat -> length (overwrite old new) = length old.
Proof. intros H. unfold overwrite. rewrite app_length, skipn_length. lia. Qed.
Lemma firstn_overwrite (old new : list Z) : firstn (length new) (overwrite old new) = new.
Proof.
  unfold overwrite. rewrite firstn_app, Nat.sub_diag, firstn_all. cbn [firstn]. apply app_nil_r.
Qed.

Lemma geom_same s s1 : nm s1 = nm s -> nv s1 = nv s -> geom s -> geom s1.
Proof. unfold geom. intros -> ->. tauto. Qed.

Lemma remove_first_notin x l : ~ In x l -> remove_first x l = l.
Proof.
  induction l as [|a t IH]; intros H; cbn [remove_first]; [reflexivity|].
  destruct (a =? x) eqn:E.
  - exfalso. apply H. left. lia.
  - rewrite IH; [reflexivity|]. intro. apply H. right. assumption.
Qed.

Lemma args_good_facts ks label :
  args_bad ks label = false -> (match ks with KFunc k => zlen k <=? MAXKEY | _ => true end) = true ->
  has_nul label = false /\ (zlen label >? MAXLAB) = false /\ key_ambiguous ks = false /\
  key_too_long ks = false /\ zlen label <= 380 /\ key_fits ks.
Proof.
  unfold args_bad. intros H K.
  apply orb_false_elim in H as [H H4]. apply orb_false_elim in H as [H H3]. apply orb_false_elim in H as [H1 H2].
  repeat split; try assumption.
  - revert H2. cs. lia.
  - destruct ks as [|k|k|k1 k2]; cbn [key_fits key_too_long key_ambiguous] in *; try exact I; try discriminate;
      revert H4 K; cs; lia.
Qed.

(* the state after a successful allocation of [id] satisfies the simulation again *)
Lemma alloc_R g s sp s' s1 id t ks label freed1 used1 :
  R g s sp ->
  meta s' = meta s -> nm s' = nm s -> nv s' = nv s -> now s' = now s -> timeout s' = timeout s ->
  vals s' id = 0 -> (forall j, j <> id -> vals s' j = vals s j) ->
  free_list s' = freed1 -> hwm s' = used1 ->
  meta s1 id = newrec (meta s id) t ks label -> frame_meta s' s1 id ->
  0 <= id < used1 -> used1 <= g_n g -> r_state (meta s id) <> ST_ALLOCATED ->
  (forall j, j <> id -> (0 <= j < used1 <-> 0 <= j < hwm s)) ->
  NoDup freed1 -> (forall j, In j freed1 <-> In j (sp_freed sp) /\ j <> id) ->
  zlen label <= 380 -> key_fits ks ->
  R g s1 (mkspec (id :: sp_live sp) freed1 used1
                 (upd (sp_info sp) id (mkinfo t (stored_key ks) label 0)) (sp_freed_at sp) (sp_now sp)).
Proof.
  intros HR Em Enm Env Enow Eto Hv0 Hvj Efl Eh Hrec (Fm & Fv & Ffl & Fh & Fnow & Fto & Fnm & Fnv)
         Hid Hun Hna Hrange Hnd Hfreed Hlab Hkey.
  destruct HR as [R_geom0 R_nm0 R_nv0 R_to0 R_now0 R_time0 R_used0 R_hwm0 R_fl0 R_nodup0 R_id0].
  constructor; cbn [sp_live sp_freed sp_used sp_info sp_freed_at sp_now].
  - eapply geom_same; [| |exact R_geom0]; congruence.
  - congruence.
  - congruence.
  - congruence.
  - congruence.
  - rewrite Fnow, Fto, Enow, Eto. exact R_time0.
  - congruence.
  - rewrite Fh, Eh. lia.
  - congruence.
  - exact Hnd.
  - intros j. destruct (Z.eq_dec j id) as [E|E].
    + subst j. pose proof (R_id0 id) as (A & B & C & D & (S1 & S2 & S3) & F & G & H).
      assert (Hz : 0 <= zlen label) by (unfold zlen; lia).
      unfold Rid. cbn [In sp_live sp_freed sp_info sp_freed_at].
      rewrite Hrec. rewrite Fh, Eh, Fv, Hv0, upd_eq. rewrite Hfreed.
      assert (KL : length (r_key (key_apply ks (with_type_deadline (meta s id) t NOT_FREE))) = 112%nat /\
                   firstn (length (stored_key ks)) (r_key (key_apply ks (with_type_deadline (meta s id) t NOT_FREE))) = stored_key ks).
      { destruct ks as [|k|k|k1 k2]; cbn [key_apply stored_key key_fits with_key with_type_deadline r_key] in *.
        - split; [exact S1|reflexivity].
        - split; [rewrite length_overwrite; [exact S1|unfold zlen in Hkey; lia]|apply firstn_overwrite].
        - split; [rewrite length_overwrite; [exact S1|unfold zlen in Hkey; lia]|apply firstn_overwrite].
        - contradiction. }
      destruct KL as (K1 & K2).
      unfold newrec. cbn [with_state with_label r_state r_type r_deadline r_key r_llen r_label i_type i_key i_label i_value].
      assert (LL : length (r_label (key_apply ks (with_type_deadline (meta s id) t NOT_FREE))) = 380%nat).
      { destruct ks; cbn; exact S2. }
      assert (TT : r_type (key_apply ks (with_type_deadline (meta s id) t NOT_FREE)) = t /\
                   r_deadline (key_apply ks (with_type_deadline (meta s id) t NOT_FREE)) = NOT_FREE).
      { destruct ks; cbn; split; reflexivity. }
      destruct TT as (T1 & T2).
      repeat split; try (cs; lia); try tauto; try (intros; cs; discriminate).
      * rewrite length_overwrite; [exact LL|unfold zlen in Hlab; lia].
      * apply firstn_overwrite.
    + eapply Rid_frame; [| | | | | | | | exact (R_id0 j)]; cbn [sp_live sp_freed sp_info sp_freed_at].
      * rewrite Fm by assumption. rewrite Em. reflexivity.
      * rewrite Fv. apply Hvj. assumption.
      * congruence.
      * rewrite Fh, Eh. apply Hrange. assumption.
      * cbn [In]. split; [intros [X|X]; [congruence|exact X]|intros X; right; exact X].
      * rewrite Hfreed. tauto.
      * apply upd_neq. assumption.
      * reflexivity.
Qed.


Lemma allocate_bad_args t ks label s :
  args_bad ks label = true -> exists e, allocate_opt t ks label s = (CErr e, s).
Proof.
  unfold args_bad, allocate_opt. intros H.
  destruct (has_nul label); [eexists; reflexivity|].
  destruct (zlen label >? MAXLAB); [eexists; reflexivity|].
  destruct (key_ambiguous ks); [eexists; reflexivity|].
  destruct (key_too_long ks); [eexists; reflexivity|]. discriminate.
Qed.

Lemma counter_value_ok s id :
  geom s -> 0 <= id < Z.min (nm s) (nv s) -> counter_value s id = COk (vals s id).
Proof.
  intros G H. unfold counter_value, validate. rewrite max_counter_id_min.
  replace ((id <? 0) || (id >=? Z.min (nv s) (nm s))) with false by lia. cbn [bindC].
  apply val_access_ok; [exact G|lia].
Qed.

Lemma step_alloc g m t ks label s sp :
  R g s sp -> contract_step g (Alloc t ks label) sp = true -> step_good g m (Alloc t ks label) s sp.
Proof.
  intros HR HC. unfold step_good. cbn [step]. cbn [contract_step norm_op norm_ob] in HC.
  apply andb_prop in HC as [_ HK].
  pose proof (R_geom _ _ _ HR) as G. pose proof (R_hwm _ _ _ HR) as Hh.
  pose proof (R_n _ _ _ HR) as Hn.
  assert (Hfl : forall x, In x (free_list s) -> 0 <= x < nm s).
  { intros x Hx. rewrite (R_fl _ _ _ HR) in Hx. pose proof (R_freed_range _ _ _ _ HR Hx). lia. }
  destruct (args_bad ks label) eqn:AB.
  - (* an argument is rejected: nothing happens *)
    destruct (allocate_bad_args t ks label s AB) as (e & ->).
    split; [|split; [reflexivity|exact HR]].
    apply chk_step; try reflexivity.
    + cbn [c_fail_closed norm_op norm_ob]. rewrite AB. cbn [orb andb].
      eapply ids_ok_live; [exact HR|]. tauto.
    + cbn [live_after norm_op norm_ob]. eapply ids_ok_live; [exact HR|]. tauto.
  - destruct (args_good_facts _ _ AB HK) as (A1 & A2 & A3 & A4 & Hlab & Hkey).
    unfold allocate_opt. rewrite A1, A2, A3, A4. unfold bindM.
    destruct (find_split (cooled_m s) (free_list s)) as [[id rest]|] eqn:F.
    + (* a cooled-down id of the free list is reused *)
      destruct (find_split_some _ _ _ _ F) as (Pc & Pin & Prest).
      rewrite (R_fl _ _ _ HR) in Pin, Prest.
      pose proof (R_freed_range _ _ _ _ HR Pin) as Hr.
      rewrite (next_id_reuse s id rest) by (auto; lia).
      set (s' := set_val (set_free_list s rest) id 0).
      assert (G' : geom s') by (apply geom_set_val, geom_set_free_list; exact G).
      assert (Hid' : 0 <= id < nm s') by (cbn; lia).
      destruct (write_record_ok s' id t ks label G' Hid' Hlab Hkey) as (s1 & -> & Hrec & Hfr).
      assert (Hst : r_state (meta s id) = ST_RECLAIMED).
      { destruct (R_id _ _ _ HR id) as (_ & _ & _ & Fd & _). apply Fd. exact Pin. }
      assert (Hmf : memb id (sp_freed sp) = true) by (apply memb_in; exact Pin).
      assert (HR1 : R g s1 (spec_step (Alloc t ks label) (OStep (COk id) (counter_value s1 id) (for_each_ids s1)) sp)).
      { cbn [spec_step norm_op norm_ob]. rewrite Hmf.
        refine (alloc_R g s sp s' s1 id t ks label _ _ HR _ _ _ _ _ _ _ _ _ Hrec Hfr _ _ _ _ _ _ Hlab Hkey);
          try reflexivity.
        - cbn. apply upd_eq.
        - intros j Hj. cbn. apply upd_neq. exact Hj.
        - cbn. exact Prest.
        - cbn. exact (R_used _ _ _ HR).
        - rewrite <- (R_used _ _ _ HR). lia.
        - rewrite <- (R_used _ _ _ HR). lia.
        - rewrite Hst. cs. discriminate.
        - intros j _. rewrite <- (R_used _ _ _ HR). tauto.
        - apply nodup_remove_first. exact (R_nodup _ _ _ HR).
        - intros j. apply in_remove_first. exact (R_nodup _ _ _ HR). }
      assert (Hva : counter_value s1 id = COk 0).
      { destruct Hfr as (_ & Fv & _ & _ & _ & _ & Fnm & Fnv).
        rewrite counter_value_ok.
        - rewrite Fv. cbn. rewrite upd_eq. reflexivity.
        - exact (R_geom _ _ _ HR1).
        - rewrite Fnm, Fnv. cbn. lia. }
      split; [|split; [reflexivity|exact HR1]].
      apply chk_step; try reflexivity.
      * cbn [c_unique norm_op norm_ob]. replace (0 <=? id) with true by lia. replace (id <? g_n g) with true by lia.
        cbn [andb]. apply negb_true_iff. apply memb_false.
        destruct (R_id _ _ _ HR id) as (_ & _ & L & _). rewrite L, Hst. cs. discriminate.
      * cbn [c_reuse norm_op norm_ob]. rewrite Hmf, Hva. cbn [is_ok0]. rewrite andb_true_r.
        rewrite <- (cooled_agree _ _ _ _ HR Pin). exact Pc.
      * cbn [c_fail_closed norm_op norm_ob]. rewrite AB. cbn [negb andb]. unfold avail.
        apply orb_true_iff. right. apply existsb_exists. exists id. split; [exact Pin|].
        rewrite <- (cooled_agree _ _ _ _ HR Pin). exact Pc.
      * cbn [live_after norm_op norm_ob]. eapply ids_ok_live; [exact HR1|]. cbn. tauto.
    + destruct (Z.eq_dec (hwm s) (g_n g)) as [Efull|Efull].
      * (* no slot: error, nothing happens *)
        destruct (next_id_full s G Hfl F) as (e & ->); [lia|].
        split; [|split; [reflexivity|exact HR]].
        apply chk_step; try reflexivity.
        -- cbn [c_fail_closed norm_op norm_ob]. rewrite AB. cbn [orb]. unfold avail.
           replace (sp_used sp <? g_n g) with false by (rewrite <- (R_used _ _ _ HR); lia). cbn [orb].
           rewrite <- (existsb_ext_in (cooled_m s)).
           ++ rewrite <- (R_fl _ _ _ HR). rewrite (find_split_none _ _ F). cbn [negb andb].
              eapply ids_ok_live; [exact HR|]. tauto.
           ++ intros x Hx. apply (cooled_agree _ _ _ _ HR Hx).
        -- cbn [live_after norm_op norm_ob]. eapply ids_ok_live; [exact HR|]. tauto.
      * (* the slot at the high water mark is handed out *)
        rewrite (next_id_fresh s) by (auto; lia).
        set (id := hwm s). set (s' := set_hwm s (id + 1)).
        assert (G' : geom s') by (apply geom_set_hwm; exact G).
        assert (Hid' : 0 <= id < nm s') by (cbn; subst id; lia).
        destruct (write_record_ok s' id t ks label G' Hid' Hlab Hkey) as (s1 & -> & Hrec & Hfr).
        assert (Hst : r_state (meta s id) = ST_UNUSED).
        { destruct (R_id _ _ _ HR id) as (_ & U & _).
          destruct (Z.eq_dec (r_state (meta s id)) ST_UNUSED) as [X|X]; [exact X|]. apply U in X. subst id. lia. }
        assert (Hnf : ~ In id (sp_freed sp)).
        { intros X. pose proof (R_freed_range _ _ _ _ HR X). subst id. lia. }
        assert (Hmf : memb id (sp_freed sp) = false) by (apply memb_false; exact Hnf).
        assert (Hv0 : vals s id = 0).
        { destruct (R_id _ _ _ HR id) as (_ & _ & _ & _ & _ & _ & _ & Z0). apply Z0. exact Hst. }
        assert (HR1 : R g s1 (spec_step (Alloc t ks label) (OStep (COk id) (counter_value s1 id) (for_each_ids s1)) sp)).
        { cbn [spec_step norm_op norm_ob]. rewrite Hmf. rewrite (remove_first_notin _ _ Hnf).
          refine (alloc_R g s sp s' s1 id t ks label _ _ HR _ _ _ _ _ _ _ _ _ Hrec Hfr _ _ _ _ _ _ Hlab Hkey);
            try reflexivity.
          - cbn. exact Hv0.
          - cbn. exact (R_fl _ _ _ HR).
          - cbn. rewrite <- (R_used _ _ _ HR). reflexivity.
          - rewrite <- (R_used _ _ _ HR). subst id. lia.
          - rewrite <- (R_used _ _ _ HR). subst id. lia.
          - rewrite Hst. cs. discriminate.
          - intros j Hj. rewrite <- (R_used _ _ _ HR). subst id. lia.
          - exact (R_nodup _ _ _ HR).
          - intros j. split; [intros X; split; [exact X|intro; subst; contradiction]|tauto]. }
        assert (Hva : counter_value s1 id = COk 0).
        { destruct Hfr as (_ & Fv & _ & _ & _ & _ & Fnm & Fnv).
          rewrite counter_value_ok.
          - rewrite Fv. cbn. rewrite Hv0. reflexivity.
          - exact (R_geom _ _ _ HR1).
          - rewrite Fnm, Fnv. cbn. subst id. lia. }
        split; [|split; [reflexivity|exact HR1]].
        apply chk_step; try reflexivity.
        -- cbn [c_unique norm_op norm_ob]. replace (0 <=? id) with true by (subst id; lia).
           replace (id <? g_n g) with true by (subst id; lia).
           cbn [andb]. apply negb_true_iff. apply memb_false.
           destruct (R_id _ _ _ HR id) as (_ & _ & L & _). rewrite L, Hst. cs. discriminate.
        -- cbn [c_reuse norm_op norm_ob]. rewrite Hmf, Hva. cbn [is_ok0]. rewrite andb_true_r.
           rewrite <- (R_used _ _ _ HR). lia.
        -- cbn [c_fail_closed norm_op norm_ob]. rewrite AB. cbn [negb andb]. unfold avail.
           apply orb_true_iff. left. rewrite <- (R_used _ _ _ HR). lia.
        -- cbn [live_after norm_op norm_ob]. eapply ids_ok_live; [exact HR1|]. cbn. tauto.
Qed.


Definition item_of (s : mgr) (id : Z) : item := (r_type (meta s id), r_key (meta s id), lab_of (meta s id)).

Lemma iter_from_spec g s sp : R g s sp ->
  forall fuel pos, 0 <= pos <= hwm s -> pos + Z.of_nat fuel = nm s + 1 ->
  iter_from s fuel pos =
  COk (map (item_of s) (filter (alloc_b s) (zrange pos (Z.to_nat (hwm s - pos))))).
Proof.
  intros HR. pose proof (R_geom _ _ _ HR) as G. pose proof (R_hwm _ _ _ HR) as Hh.
  rewrite (R_n _ _ _ HR) in Hh. destruct G as (G1 & G2 & G3 & G4).
  induction fuel as [|f IH]; intros pos Hpos Hf.
  - exfalso. lia.
  - cbn [iter_from]. unfold imul. cs. rewrite (in_i32_true (pos * 512)) by (unfold two31 in *; lia).
    cbn [bindC]. unfold mcap. cs.
    destruct (Z.eq_dec pos (nm s)) as [E|E].
    + replace (pos * 512 >? nm s * 512 - 512) with true by lia.
      replace (hwm s - pos) with 0 by lia. reflexivity.
    + replace (pos * 512 >? nm s * 512 - 512) with false by lia.
      rewrite meta_access_ok by (try (repeat split; assumption); lia). cbn [bindC].
      destruct (R_id _ _ _ HR pos) as (T & U & _ & _ & (_ & _ & LL) & _).
      destruct (Z.eq_dec pos (hwm s)) as [E1|E1].
      * assert (S0 : r_state (meta s pos) = 0).
        { destruct (Z.eq_dec (r_state (meta s pos)) 0) as [X|X]; [exact X|]. apply U in X. lia. }
        rewrite S0. cbn [Z.eqb]. replace (hwm s - pos) with 0 by lia. reflexivity.
      * assert (S1 : r_state (meta s pos) <> 0) by (apply U; lia).
        replace (r_state (meta s pos) =? 0) with false by lia.
        replace (Z.to_nat (hwm s - pos)) with (S (Z.to_nat (hwm s - (pos + 1)))) by lia.
        rewrite zrange_S. cbn [filter]. unfold alloc_b at 1. cs.
        destruct T as [T|[T|T]]; try contradiction; rewrite T.
        -- cbn [Z.eqb]. rewrite meta_access_ok by (try (repeat split; assumption); lia). cbn [bindC].
           unfold iter_item. cs.
           replace ((r_llen (meta s pos) <? 0) || (r_llen (meta s pos) >? 380)) with false by lia.
           cbn [bindC]. rewrite IH by lia. cbn [bindC map]. reflexivity.
        -- cbn [Z.eqb]. rewrite IH by lia. reflexivity.
Qed.

Lemma iter_spec g s sp : R g s sp -> iter s = COk (map (item_of s) (live_ids s)).
Proof.
  intros HR. unfold iter, live_ids.
  pose proof (R_hwm _ _ _ HR) as Hh. pose proof (R_geom _ _ _ HR) as (G1 & _).
  rewrite (iter_from_spec _ _ _ HR) by lia. rewrite Z.sub_0_r. reflexivity.
Qed.

(* ---- trailing zeros ---- *)
Lemma strip0_cons b t :
  strip0 (b :: t) = match strip0 t with [] => if b =? 0 then [] else [b] | _ => b :: strip0 t end.
Proof. reflexivity. Qed.

Lemma hash_strip0 l : hash (strip0 l) = hash l.
Proof.
  induction l as [|b t IH]; [reflexivity|].
  rewrite strip0_cons. change (hash (b :: t)) with ((b + 257 * hash t) mod HP). rewrite <- IH.
  destruct (strip0 t) as [|c u] eqn:E.
  - destruct (b =? 0) eqn:B.
    + assert (b = 0) by lia. subst. reflexivity.
    + reflexivity.
  - reflexivity.
Qed.

Lemma length_strip0 l : (length (strip0 l) <= length l)%nat.
Proof.
  induction l as [|b t IH]; [cbn; lia|]. rewrite strip0_cons.
  destruct (strip0 t) as [|c u]; [destruct (b =? 0); cbn; lia|cbn in *; lia].
Qed.

Lemma nth_strip0 l i : nth i (strip0 l) 0 = nth i l 0.
Proof.
  revert i. induction l as [|b t IH]; intros i; [reflexivity|]. rewrite strip0_cons.
  destruct (strip0 t) as [|c u] eqn:E.
  - destruct (b =? 0) eqn:B.
    + assert (b = 0) by lia. subst. destruct i as [|i]; [reflexivity|].
      cbn [nth]. rewrite <- IH. destruct i; reflexivity.
    + destruct i as [|i]; [reflexivity|]. cbn [nth]. rewrite <- IH. destruct i; reflexivity.
  - destruct i as [|i]; [reflexivity|]. cbn [nth]. apply IH.
Qed.

Lemma prefix_pad_nth p k : (forall i, (i < length p)%nat -> nth i p 0 = nth i k 0) -> prefix_pad p k = true.
Proof.
  revert k. induction p as [|x p IH]; intros k H; cbn [prefix_pad]; [reflexivity|].
  apply andb_true_iff. split.
  - specialize (H 0%nat ltac:(cbn; lia)). cbn in H. destruct k; cbn in *; lia.
  - apply IH. intros i Hi. specialize (H (S i) ltac:(cbn; lia)). cbn [nth] in H.
    rewrite H. destruct k; cbn; [destruct i; reflexivity|reflexivity].
Qed.

Lemma nth_firstn_lt (l : list Z) n i : (i < n)%nat -> nth i (firstn n l) 0 = nth i l 0.
Proof.
  revert n i. induction l as [|a t IH]; intros n i H.
  - rewrite firstn_nil. reflexivity.
  - destruct n; [lia|]. destruct i; [reflexivity|]. cbn. apply IH. lia.
Qed.

Lemma prefix_pad_strip0 p l : firstn (length p) l = p -> prefix_pad p (strip0 l) = true.
Proof.
  intros H. apply prefix_pad_nth. intros i Hi. rewrite nth_strip0. rewrite <- H at 1.
  apply nth_firstn_lt. exact Hi.
Qed.

Lemma leqb_refl l : leqb l l = true.
Proof. induction l; cbn; [reflexivity|]. rewrite Z.eqb_refl. exact IHl. Qed.

(* le_bytes of the first eight bytes does not see trailing zeros either *)
Lemma le_bytes_nth l : forall n, le_bytes (firstn n l) = le_bytes (map (fun i => nth i l 0) (seq 0 n)).
Proof.
  induction l as [|a t IH]; intros n.
  - rewrite firstn_nil. cbn. induction (seq 0 n) as [|x u IHu]; [reflexivity|].
    cbn. rewrite <- IHu. destruct x; reflexivity.
  - destruct n; [reflexivity|]. cbn [firstn seq map le_bytes nth]. rewrite IH.
    rewrite <- seq_shift, map_map. reflexivity.
Qed.
Lemma le_bytes_strip0 l n : le_bytes (firstn n (strip0 l)) = le_bytes (firstn n l).
Proof.
  rewrite !le_bytes_nth. f_equal. apply map_ext. intros i. apply nth_strip0.
Qed.


Lemma lab_of_info g s sp id : R g s sp -> In id (sp_live sp) -> lab_of (meta s id) = i_label (sp_info sp id).
Proof.
  intros HR H. destruct (R_id _ _ _ HR id) as (_ & _ & _ & _ & _ & F & _).
  destruct (F H) as (_ & _ & L1 & L2 & _). unfold lab_of. rewrite L1. unfold zlen. rewrite Nat2Z.id. exact L2.
Qed.

Lemma validate_in s id : 0 <= id < Z.min (nm s) (nv s) -> validate s id = COk tt.
Proof. intros H. unfold validate. rewrite max_counter_id_min. replace ((id <? 0) || (id >=? Z.min (nv s) (nm s))) with false by lia. reflexivity. Qed.
Lemma validate_out s id : ~ (0 <= id < Z.min (nm s) (nv s)) -> validate s id = CErr IdOutOfRange.
Proof. intros H. unfold validate. rewrite max_counter_id_min. replace ((id <? 0) || (id >=? Z.min (nv s) (nm s))) with true by lia. reflexivity. Qed.

Lemma counter_state_ok s id : geom s -> 0 <= id < Z.min (nm s) (nv s) -> counter_state s id = COk (r_state (meta s id)).
Proof. intros G H. unfold counter_state. rewrite validate_in by exact H. cbn [bindC]. rewrite meta_access_ok by (auto; cs; lia). reflexivity. Qed.

(* every reader accessor answers for every id: the oracle's clause holds for any probe *)
Lemma probe_total g s sp id : R g s sp -> probe_ok g sp (probe_of s id) = true.
Proof.
  intros HR. pose proof (R_geom _ _ _ HR) as G. pose proof (R_hwm _ _ _ HR) as Hh.
  pose proof (R_n _ _ _ HR) as Hn. unfold probe_of, probe_ok.
  destruct (R_id _ _ _ HR id) as (T & U & L & F & (S1 & S2 & S3) & I & D & Z0).
  destruct (Z_lt_dec id 0) as [Hneg|Hpos]; [|destruct (Z_lt_dec id (g_n g)) as [Hin|Hout]].
  - (* negative *)
    unfold counter_value, counter_state, free_to_reuse_deadline, counter_label.
    rewrite validate_out by lia. cbn [bindC is_panic negb andb is_err cres_eqb].
    assert (ML' : memb id (sp_live sp) = false).
    { apply memb_false. intro X. pose proof (R_live_range _ _ _ _ HR X). lia. }
    assert (MF : memb id (sp_freed sp) = false).
    { apply memb_false. intro X. pose proof (R_freed_range _ _ _ _ HR X). lia. }
    rewrite ML', MF. replace ((0 <=? id) && (id <? g_n g)) with false by lia. reflexivity.
  - (* a slot of both buffers *)
    unfold counter_value, free_to_reuse_deadline, counter_label.
    rewrite counter_state_ok by (auto; lia).
    rewrite validate_in by lia. cbn [bindC].
    rewrite val_access_ok by (auto; lia). rewrite meta_access_ok by (auto; cs; lia).
    rewrite get_label_ok by (auto; lia). cbn [bindC is_panic negb andb is_err].
    replace ((0 <=? id) && (id <? g_n g)) with true by lia. rewrite andb_true_r.
    destruct (memb id (sp_live sp)) eqn:ML'.
    + apply memb_in in ML'. destruct (I ML') as (I1 & I2 & I3 & I4 & I5 & I6).
      rewrite (lab_of_info _ _ _ _ HR ML'). cbn [cres_eqb].
      apply L in ML'. rewrite I5, ML', I6, !Z.eqb_refl. reflexivity.
    + destruct (memb id (sp_freed sp)) eqn:MF.
      * apply memb_in in MF. destruct (D MF) as (D1 & _). apply F in MF. cbn [cres_eqb].
        rewrite MF, D1, (R_to _ _ _ HR), !Z.eqb_refl. reflexivity.
      * cbn [cres_eqb]. apply memb_false in ML'. apply negb_true_iff.
        destruct (r_state (meta s id) =? ST_ALLOCATED) eqn:E; [|reflexivity].
        exfalso. apply ML'. apply L. lia.
  - unfold counter_value, counter_state, free_to_reuse_deadline, counter_label.
    rewrite validate_out by lia. cbn [bindC is_panic negb andb is_err cres_eqb].
    assert (ML' : memb id (sp_live sp) = false).
    { apply memb_false. intro X. pose proof (R_live_range _ _ _ _ HR X). lia. }
    assert (MF : memb id (sp_freed sp) = false).
    { apply memb_false. intro X. pose proof (R_freed_range _ _ _ _ HR X). lia. }
    rewrite ML', MF. replace ((0 <=? id) && (id <? g_n g)) with false by lia. reflexivity.
Qed.

(* ---- the look-ups of heartbeat_timestamp.rs ---- *)
Lemma zrange_app a k1 k2 : zrange a (k1 + k2) = zrange a k1 ++ zrange (a + Z.of_nat k1) k2.
Proof.
  revert a. induction k1 as [|k IH]; intros a.
  - cbn. rewrite Z.add_0_r. reflexivity.
  - cbn [zrange Nat.add app]. rewrite IH. f_equal. f_equal. f_equal. lia.
Qed.

Lemma filter_none {A} (p : A -> bool) l : (forall x, In x l -> p x = false) -> filter p l = [].
Proof. induction l as [|a t IH]; intros H; cbn; [reflexivity|]. rewrite H by (left; reflexivity). apply IH. intros; apply H; right; assumption. Qed.

Lemma live_ids_upto g s sp : R g s sp ->
  filter (alloc_b s) (zrange 0 (Z.to_nat (g_n g))) = live_ids s.
Proof.
  intros HR. pose proof (R_hwm _ _ _ HR) as Hh. unfold live_ids.
  replace (Z.to_nat (g_n g)) with (Z.to_nat (hwm s) + Z.to_nat (g_n g - hwm s))%nat by lia.
  rewrite zrange_app, filter_app.
  match goal with |- _ ++ ?b = _ => assert (E : b = []) end; [|rewrite E; apply app_nil_r].
  apply filter_none. intros x Hx. apply in_zrange in Hx. unfold alloc_b.
  destruct (R_id _ _ _ HR x) as (_ & U & _).
  destruct (Z.eq_dec (r_state (meta s x)) ST_UNUSED) as [X|X].
  - rewrite X. reflexivity.
  - apply U in X. lia.
Qed.

Definition view_of (s : mgr) (id : Z) : entry := entry_view (entry_of s id).

Lemma find_from_spec g s sp t reg : R g s sp ->
  forall fuel i, 0 <= i -> i + Z.of_nat fuel = g_n g ->
  find_from s fuel i t reg =
  COk (first_match (map (view_of s) (filter (alloc_b s) (zrange i fuel))) t reg).
Proof.
  intros HR. pose proof (R_geom _ _ _ HR) as G. pose proof (R_n _ _ _ HR) as Hn.
  induction fuel as [|f IH]; intros i Hi Hf.
  - reflexivity.
  - cbn [find_from]. rewrite counter_state_ok by (auto; lia). cbn [bindC].
    rewrite zrange_S. cbn [filter]. unfold alloc_b at 1.
    destruct (r_state (meta s i) =? ST_ALLOCATED) eqn:A.
    + rewrite meta_access_ok by (auto; cs; lia). cbn [bindC map].
      unfold view_of at 1, entry_of, entry_view. cbn [first_match].
      unfold key_i64. rewrite le_bytes_strip0.
      rewrite (Z.eqb_sym reg).
      destruct (wrap64 (le_bytes (firstn 8 (r_key (meta s i)))) =? reg) eqn:K.
      * rewrite meta_access_ok by (auto; cs; lia). cbn [bindC].
        destruct (r_type (meta s i) =? t) eqn:T; cbn [andb]; [reflexivity|]. apply IH; lia.
      * rewrite andb_false_r. apply IH; lia.
    + apply IH; lia.
Qed.

Lemma find_spec g s sp t reg : R g s sp ->
  find_counter_id_by_registration_id s t reg = COk (first_match (map (view_of s) (live_ids s)) t reg).
Proof.
  intros HR. unfold find_counter_id_by_registration_id. rewrite max_counter_id_min, Z.min_comm.
  rewrite <- (R_n _ _ _ HR). pose proof (R_hwm _ _ _ HR).
  rewrite (find_from_spec _ _ _ _ _ HR) by lia. rewrite (live_ids_upto _ _ _ HR). reflexivity.
Qed.

Lemma is_active_own g s sp id : R g s sp -> In id (sp_live sp) ->
  is_active s id (r_type (meta s id)) (key_i64 (meta s id)) = COk true.
Proof.
  intros HR H. pose proof (R_geom _ _ _ HR) as G. pose proof (R_hwm _ _ _ HR) as Hh.
  pose proof (R_n _ _ _ HR) as Hn. pose proof (R_live_range _ _ _ _ HR H) as Hr.
  unfold is_active. rewrite meta_access_ok by (auto; cs; lia). cbn [bindC].
  rewrite Z.eqb_refl. rewrite meta_access_ok by (auto; cs; lia). cbn [bindC]. rewrite Z.eqb_refl.
  rewrite counter_state_ok by (auto; lia). cbn [bindC].
  destruct (R_id _ _ _ HR id) as (_ & _ & L & _). apply L in H. rewrite H, Z.eqb_refl. reflexivity.
Qed.

Lemma cres_eqb_refl x : cres_eqb (COk x) x = true.
Proof. cbn. apply Z.eqb_refl. Qed.

Lemma lookups_ok_model g s sp all : R g s sp ->
  (forall t reg, find_counter_id_by_registration_id s t reg = COk (first_match all t reg)) ->
  forall L, (forall id, In id L -> In id (sp_live sp)) ->
  lookups_ok all (map (view_of s) L)
    (map (fun e : entry => let '(id, t, k, _) := e in
            let reg := wrap64 (le_bytes (firstn 8 k)) in
            (find_counter_id_by_registration_id s t reg, is_active s id t reg)) (map (entry_of s) L)
     ++ [(find_counter_id_by_registration_id s 11 (-77), COk false)]) = true.
Proof.
  intros HR Hfind. induction L as [|id L IH]; intros HL.
  - cbn. rewrite Hfind. apply cres_eqb_refl.
  - cbn [map app]. unfold view_of at 1, entry_of at 1, entry_view. cbn [lookups_ok].
    change (entry_of s id) with (id, r_type (meta s id), r_key (meta s id), lab_of (meta s id)).
    cbv beta iota zeta.
    rewrite Hfind. rewrite le_bytes_strip0, cres_eqb_refl. cbn [andb].
    fold (key_i64 (meta s id)). rewrite (is_active_own _ _ _ _ HR) by (apply HL; left; reflexivity).
    cbn [andb]. apply IH. intros x Hx. apply HL. right. exact Hx.
Qed.


Lemma items_eqb_refl l : items_eqb l l = true.
Proof.
  induction l as [|[[t k] lb] l IH]; cbn; [reflexivity|]. rewrite !Z.eqb_refl. exact IH.
Qed.

Lemma entry_ok_model g s sp id : R g s sp -> In id (sp_live sp) -> entry_ok sp (view_of s id) = true.
Proof.
  intros HR H. unfold view_of, entry_of, entry_view, entry_ok.
  destruct (R_id _ _ _ HR id) as (_ & _ & _ & _ & (S1 & _ & _) & I & _).
  destruct (I H) as (I1 & I2 & _). rewrite (lab_of_info _ _ _ _ HR H).
  rewrite I1, Z.eqb_refl, leqb_refl, (prefix_pad_strip0 _ _ I2). cbn [andb]. rewrite andb_true_r.
  pose proof (length_strip0 (r_key (meta s id))). unfold zlen. cs. lia.
Qed.

Lemma step_dump g m s sp : R g s sp -> step_good g m Dump s sp.
Proof.
  intros HR. unfold step_good. cbn [step]. split; [|split; [reflexivity|exact HR]].
  unfold chk, dump_of, lookups. rewrite (for_each_spec _ _ _ HR), (iter_spec _ _ _ HR).
  cbn [bindC shape_ok c_unique c_reuse c_fail_closed c_enumerate c_total c_snapshot norm_op norm_ob andb].
  assert (EV : map entry_view (map (entry_of s) (live_ids s)) = map (view_of s) (live_ids s))
    by (rewrite map_map; reflexivity).
  rewrite EV.
  assert (E1 : map entry_id (map (view_of s) (live_ids s)) = live_ids s).
  { rewrite map_map. apply map_id. }
  rewrite E1.
  assert (E2 : ids_ok (COk (live_ids s)) (sp_live sp) = true).
  { rewrite <- (for_each_ids_spec _ _ _ HR). eapply ids_ok_live; [exact HR|]. tauto. }
  rewrite E2.
  assert (E3 : forallb (entry_ok sp) (map (view_of s) (live_ids s)) = true).
  { apply forallb_forall. intros e He. apply in_map_iff in He as (id & <- & Hid).
    apply (entry_ok_model _ _ _ _ HR). apply (in_live_ids _ _ _ _ HR). exact Hid. }
  rewrite E3.
  assert (E4 : map item_view (map (item_of s) (live_ids s)) = map entry_item (map (view_of s) (live_ids s))).
  { rewrite !map_map. apply map_ext. intros id. unfold item_view, item_of, entry_item, view_of, entry_of, entry_view.
    rewrite hash_strip0. reflexivity. }
  rewrite E4, items_eqb_refl.
  assert (E5 : forallb (probe_ok g sp) (map (probe_of s) (probe_ids s)) = true).
  { apply forallb_forall. intros p Hp. apply in_map_iff in Hp as (id & <- & _). apply (probe_total _ _ _ _ HR). }
  rewrite E5. cbn [andb]. rewrite andb_true_r.
  apply (lookups_ok_model _ _ _ _ HR).
  - intros t reg. apply (find_spec _ _ _ _ _ HR).
  - intros id Hid. apply (in_live_ids _ _ _ _ HR). exact Hid.
Qed.

Lemma chk_clauses g o ob sp : chk g o ob sp = true ->
  c_unique g o ob sp = true /\ c_reuse g o ob sp = true /\ c_fail_closed g o ob sp = true /\
  c_enumerate o ob sp = true /\ c_total g o ob sp = true /\ c_snapshot o ob sp = true.
Proof.
  unfold chk. intros H.
  apply andb_prop in H as [H H6]. apply andb_prop in H as [H H5]. apply andb_prop in H as [H H4]. apply andb_prop in H as [H H3].
  apply andb_prop in H as [H H2]. apply andb_prop in H as [_ H1]. auto 10.
Qed.

(* ---- a reader that runs during the key callback of an allocation ---- *)
Lemma get_label_ext s s1 id : nm s1 = nm s -> meta s1 id = meta s id -> get_label s1 id = get_label s id.
Proof.
  intros E M. unfold get_label. rewrite (meta_access_cong s s1 id OFF_LLEN 4 E).
  destruct (meta_access s id OFF_LLEN 4) as [r| |] eqn:A; cbn [bindC]; try reflexivity.
  apply meta_access_val in A. subst r. rewrite M.
  destruct ((r_llen (meta s id) <? 0) || (r_llen (meta s id) >? MAXLAB)); [reflexivity|].
  rewrite (meta_access_cong s s1 id _ _ E).
  destruct (meta_access s id (OFF_LLEN + 4) (r_llen (meta s id))); reflexivity.
Qed.

(* for_each only depends on the slot count, the state words and the content of the allocated records *)
Lemma for_each_from_ext s s1 : nm s1 = nm s ->
  (forall j, r_state (meta s1 j) = r_state (meta s j)) ->
  (forall j, r_state (meta s j) = ST_ALLOCATED -> meta s1 j = meta s j) ->
  forall fuel i, for_each_from s1 fuel i = for_each_from s fuel i.
Proof.
  intros E HS HA. induction fuel as [|f IH]; intros i; cbn [for_each_from]; [reflexivity|].
  rewrite (meta_access_cong s s1 i 0 4 E).
  destruct (meta_access s i 0 4) as [r| |] eqn:A; cbn [bindC]; try reflexivity.
  apply meta_access_val in A. subst r. rewrite HS.
  destruct (r_state (meta s i) =? ST_UNUSED); [reflexivity|].
  destruct (r_state (meta s i) =? ST_ALLOCATED) eqn:B; [|apply IH].
  assert (M : meta s1 i = meta s i) by (apply HA; lia).
  rewrite (meta_access_cong s s1 i 0 ML E). rewrite (get_label_ext s s1 i E M), IH, M.
  destruct (meta_access s i 0 ML); reflexivity.
Qed.

Lemma for_each_ids_ext s s1 : nm s1 = nm s ->
  (forall j, r_state (meta s1 j) = r_state (meta s j)) ->
  (forall j, r_state (meta s j) = ST_ALLOCATED -> meta s1 j = meta s j) ->
  for_each_ids s1 = for_each_ids s.
Proof.
  intros E HS HA. unfold for_each_ids, for_each. rewrite E, (for_each_from_ext s s1 E HS HA). reflexivity.
Qed.

Lemma write_tail_id i l s j s1 : write_tail i l s = (COk j, s1) -> j = i.
Proof.
  unfold write_tail, bindM, retM.
  destruct (put_meta i OFF_LLEN _ _ s) as [[[]|e|] s2]; try discriminate.
  destruct (put_meta i 0 4 _ s2) as [[[]|e|] s3]; try discriminate. congruence.
Qed.

(* the state in the middle of an allocation of [id0] (after next_counter_id gave s', header and key written):
   what a reader sees there is what it saw before the allocation started *)
Lemma mid_view g s sp s' sm id0 t k :
  R g s sp -> meta s' = meta s -> nm s' = nm s -> nv s' = nv s ->
  meta sm id0 = key_apply (KFunc k) (with_type_deadline (meta s' id0) t NOT_FREE) -> frame_meta s' sm id0 ->
  0 <= id0 < g_n g -> r_state (meta s id0) <> ST_ALLOCATED ->
  ids_ok (for_each_ids sm) (sp_live sp) = true /\ counter_state sm id0 = COk (r_state (meta s id0)).
Proof.
  intros HR Em Enm Env Hrec (Fm & Fv & Ffl & Fh & Fnow & Fto & Fnm & Fnv) Hid Hna.
  assert (E : nm sm = nm s) by congruence.
  assert (HS : forall j, r_state (meta sm j) = r_state (meta s j)).
  { intros j. destruct (Z.eq_dec j id0) as [->|N].
    - rewrite Hrec, Em. reflexivity.
    - rewrite Fm by exact N. rewrite Em. reflexivity. }
  assert (HA : forall j, r_state (meta s j) = ST_ALLOCATED -> meta sm j = meta s j).
  { intros j Hj. assert (N : j <> id0) by (intro; subst; contradiction).
    rewrite Fm by exact N. rewrite Em. reflexivity. }
  split.
  - rewrite (for_each_ids_ext s sm E HS HA). eapply ids_ok_live; [exact HR|]. tauto.
  - rewrite counter_state_ok.
    + rewrite HS. reflexivity.
    + eapply geom_same; [| |exact (R_geom _ _ _ HR)]; congruence.
    + rewrite E. replace (nv sm) with (nv s) by congruence. rewrite <- (R_n _ _ _ HR). exact Hid.
Qed.

Lemma alloc_mid_eq t ks label s id s' sm :
  has_nul label = false -> (zlen label >? MAXLAB) = false -> key_ambiguous ks = false -> key_too_long ks = false ->
  next_counter_id s = (COk id, s') -> write_head id t ks s' = (COk tt, sm) ->
  alloc_mid t ks label s = (COk id, sm).
Proof.
  intros A1 A2 A3 A4 N W. unfold alloc_mid. rewrite A1, A2, A3, A4. unfold bindM. rewrite N, W. reflexivity.
Qed.
Lemma alloc_mid_err t ks label s e :
  has_nul label = false -> (zlen label >? MAXLAB) = false -> key_ambiguous ks = false -> key_too_long ks = false ->
  next_counter_id s = (CErr e, s) -> alloc_mid t ks label s = (CErr e, s).
Proof.
  intros A1 A2 A3 A4 N. unfold alloc_mid. rewrite A1, A2, A3, A4. unfold bindM. rewrite N. reflexivity.
Qed.

Lemma step_allocsnap g m t k label s sp :
  R g s sp -> contract_step g (AllocSnap t k label) sp = true -> step_good g m (AllocSnap t k label) s sp.
Proof.
  intros HR HC.
  pose proof (step_alloc g m t (KFunc k) label s sp HR HC) as SA.
  unfold step_good in *. cbn [step] in *.
  destruct (allocate_opt t (KFunc k) label s) as [r s1] eqn:AL.
  destruct SA as (C & P & HR1).
  split; [|split; [exact P|exact HR1]].
  apply chk_clauses in C as (C1 & C2 & C3 & C4 & C5 & _).
  match goal with |- chk g ?o ?ob sp = true =>
    assert (Q1 : c_unique g o ob sp = true) by exact C1;
    assert (Q2 : c_reuse g o ob sp = true) by exact C2;
    assert (Q3 : c_fail_closed g o ob sp = true) by exact C3;
    assert (Q4 : c_enumerate o ob sp = true) by exact C4;
    assert (Q5 : c_total g o ob sp = true) by exact C5;
    unfold chk; rewrite Q1, Q2, Q3, Q4, Q5
  end.
  cbn [shape_ok andb]. clear C1 C2 C3 C4 C5 Q1 Q2 Q3 Q4 Q5 P HR1.
  (* the snapshot *)
  destruct r as [id|e|]; [|reflexivity|reflexivity].
  cbn [contract_step norm_op] in HC. apply andb_prop in HC as [_ HK].
  pose proof (R_geom _ _ _ HR) as G. pose proof (R_hwm _ _ _ HR) as Hh. pose proof (R_n _ _ _ HR) as Hn.
  assert (Hfl : forall x, In x (free_list s) -> 0 <= x < nm s).
  { intros x Hx. rewrite (R_fl _ _ _ HR) in Hx. pose proof (R_freed_range _ _ _ _ HR Hx). lia. }
  destruct (args_bad (KFunc k) label) eqn:AB.
  { destruct (allocate_bad_args t (KFunc k) label s AB) as (e & X). congruence. }
  destruct (args_good_facts _ _ AB HK) as (A1 & A2 & A3 & A4 & Hlab & Hkey).
  (* the id handed out, the state next_counter_id leaves, and whether the id was a freed one *)
  assert (MIDX : exists id0 s' sm,
     alloc_mid t (KFunc k) label s = (COk id0, sm) /\ meta s' = meta s /\ nm s' = nm s /\ nv s' = nv s /\
     meta sm id0 = key_apply (KFunc k) (with_type_deadline (meta s' id0) t NOT_FREE) /\ frame_meta s' sm id0 /\
     0 <= id0 < g_n g /\
     r_state (meta s id0) = (if memb id0 (sp_freed sp) then ST_RECLAIMED else ST_UNUSED)).
  { destruct (find_split (cooled_m s) (free_list s)) as [[id0 rest]|] eqn:F.
    - destruct (find_split_some _ _ _ _ F) as (Pc & Pin & Prest).
      rewrite (R_fl _ _ _ HR) in Pin.
      pose proof (R_freed_range _ _ _ _ HR Pin) as Hr.
      assert (Hv : 0 <= id0 < nv s) by lia. assert (Hm : 0 <= id0 < nm s) by lia.
      pose proof (next_id_reuse s id0 rest G Hfl F Hv) as NX.
      assert (G' : geom (set_val (set_free_list s rest) id0 0)) by (apply geom_set_val, geom_set_free_list; exact G).
      destruct (write_head_ok (set_val (set_free_list s rest) id0 0) id0 t (KFunc k) G' Hm Hkey) as (sm & WH & Hrec & Hfr).
      exists id0, (set_val (set_free_list s rest) id0 0), sm.
      split; [exact (alloc_mid_eq t (KFunc k) label s id0 _ sm A1 A2 A3 A4 NX WH)|].
      split; [reflexivity|]. split; [reflexivity|]. split; [reflexivity|].
      split; [exact Hrec|]. split; [exact Hfr|]. split; [lia|].
      replace (memb id0 (sp_freed sp)) with true by (symmetry; apply memb_in; exact Pin).
      destruct (R_id _ _ _ HR id0) as (_ & _ & _ & Fd & _). apply Fd. exact Pin.
    - destruct (Z.eq_dec (hwm s) (g_n g)) as [Efull|Efull].
      + exfalso. assert (Hf : hwm s = Z.min (nm s) (nv s)) by lia.
        destruct (next_id_full s G Hfl F Hf) as (e & X).
        rewrite allocate_opt_via_mid in AL. unfold bindM in AL.
        rewrite (alloc_mid_err t (KFunc k) label s e A1 A2 A3 A4 X) in AL. discriminate.
      + assert (Hf : 0 <= hwm s < Z.min (nm s) (nv s)) by lia.
        assert (Hm : 0 <= hwm s < nm s) by lia.
        pose proof (next_id_fresh s G Hfl F Hf) as NX.
        assert (G' : geom (set_hwm s (hwm s + 1))) by (apply geom_set_hwm; exact G).
        destruct (write_head_ok (set_hwm s (hwm s + 1)) (hwm s) t (KFunc k) G' Hm Hkey) as (sm & WH & Hrec & Hfr).
        exists (hwm s), (set_hwm s (hwm s + 1)), sm.
        split; [exact (alloc_mid_eq t (KFunc k) label s (hwm s) _ sm A1 A2 A3 A4 NX WH)|].
        split; [reflexivity|]. split; [reflexivity|]. split; [reflexivity|].
        split; [exact Hrec|]. split; [exact Hfr|]. split; [lia|].
        replace (memb (hwm s) (sp_freed sp)) with false.
        2:{ symmetry. apply memb_false. intros X. pose proof (R_freed_range _ _ _ _ HR X). lia. }
        destruct (R_id _ _ _ HR (hwm s)) as (_ & U & _).
        destruct (Z.eq_dec (r_state (meta s (hwm s))) ST_UNUSED) as [X|X]; [exact X|]. apply U in X. lia. }
  destruct MIDX as (id0 & s' & sm & MID & Em & Enm & Env & Hrec & Hfr & Hid0 & Hst).
  rewrite allocate_opt_via_mid in AL. unfold bindM in AL. rewrite MID in AL.
  apply write_tail_id in AL. subst id. rewrite MID.
  assert (Hna : r_state (meta s id0) <> ST_ALLOCATED).
  { rewrite Hst. destruct (memb id0 (sp_freed sp)); cs; discriminate. }
  destruct (mid_view g s sp s' sm id0 t k HR Em Enm Env Hrec Hfr Hid0 Hna) as (V1 & V2).
  cbn [c_snapshot]. rewrite V1, V2, Hst. cbn [andb cres_eqb]. apply Z.eqb_refl.
Qed.

Lemma step_all g m o s sp : R g s sp -> contract_step g o sp = true -> step_good g m o s sp.
Proof.
  intros HR HC. destruct o.
  - apply step_alloc; assumption.
  - apply step_free; assumption.
  - apply step_setval; assumption.
  - apply step_setclock; assumption.
  - apply step_dump; assumption.
  - apply step_allocsnap; assumption.
Qed.

(* the property's predicate holds on every history of the model, from any state that satisfies the simulation *)
Lemma holds_run g m ops : forall s sp, R g s sp -> holds_with g (chk g) ops (run m ops s) sp = true.
Proof.
  induction ops as [|o ops IH]; intros s sp HR; cbn [holds_with run]; [reflexivity|].
  destruct (contract_step g o sp) eqn:HC; [|reflexivity].
  pose proof (step_all g m o s sp HR HC) as SG. unfold step_good in SG.
  destruct (step m o s) as [ob s1]. destruct SG as (C & P & HR1).
  rewrite P, C. cbn [andb]. apply IH. exact HR1.
Qed.

Theorem holds_model m nm nv timeout ops :
  holds nm nv timeout ops (run m ops (mgr0 nm nv timeout)) = true.
Proof.
  unfold holds. destruct (cfg_ok (mkcfg nm nv timeout)) eqn:E; [|reflexivity].
  apply holds_run. apply R_init. exact E.
Qed.

(* a clause that follows from [chk] holds along every history as well *)
Lemma holds_with_weaken g (c1 c2 : op -> obs -> spec -> bool) ops :
  (forall o ob sp, c1 o ob sp = true -> c2 o ob sp = true) ->
  forall obs sp, holds_with g c1 ops obs sp = true -> holds_with g c2 ops obs sp = true.
Proof.
  intros W. induction ops as [|o ops IH]; intros obs sp H; cbn [holds_with] in *; [exact H|].
  destruct (contract_step g o sp); [|reflexivity].
  destruct obs as [|ob obs]; [exact H|]. apply andb_prop in H as [H1 H2].
  rewrite (W _ _ _ H1). cbn [andb]. apply IH. exact H2.
Qed.


(* ---- reachable states: histories inside the contract ---- *)
Fixpoint in_contract (g : cfg) (ops : list op) (obs : list obs) (sp : spec) : bool :=
  match ops, obs with
  | [], _ => true
  | o :: ops', ob :: obs' => contract_step g o sp && in_contract g ops' obs' (spec_step o ob sp)
  | _ :: _, [] => false
  end.
Fixpoint spec_after (ops : list op) (obs : list obs) (sp : spec) : spec :=
  match ops, obs with
  | o :: ops', ob :: obs' => spec_after ops' obs' (spec_step o ob sp)
  | _, _ => sp
  end.

Lemma reach_R g m ops : forall s sp, R g s sp ->
  in_contract g ops (run m ops s) sp = true ->
  R g (final m ops s) (spec_after ops (run m ops s) sp) /\
  length (run m ops s) = length ops /\ forallb (fun ob => negb (obs_panicked ob)) (run m ops s) = true.
Proof.
  induction ops as [|o ops IH]; intros s sp HR HC; cbn [run final in_contract spec_after] in *.
  - auto.
  - destruct (step m o s) as [ob s1] eqn:ST.
    destruct (obs_panicked ob) eqn:P.
    + cbn [in_contract] in HC. apply andb_prop in HC as [HC1 _].
      pose proof (step_all g m o s sp HR HC1) as SG. unfold step_good in SG. rewrite ST in SG.
      destruct SG as (_ & P' & _). congruence.
    + cbn [in_contract] in HC. apply andb_prop in HC as [HC1 HC2].
      pose proof (step_all g m o s sp HR HC1) as SG. unfold step_good in SG. rewrite ST in SG.
      destruct SG as (_ & _ & HR1). cbn [spec_after length forallb]. rewrite P. cbn [negb andb].
      destruct (IH s1 _ HR1 HC2) as (A & B & C). split; [exact A|]. split; [f_equal; exact B|exact C].
Qed.

(* ---- totality of the reader in every state the simulation covers ---- *)
Lemma is_panic_bind_hash (x : cres (list Z)) : is_panic (l <~ x ;; COk (hash l)) = is_panic x.
Proof. destruct x; reflexivity. Qed.

Lemma reader_total g s sp id : R g s sp ->
  is_panic (counter_value s id) = false /\ is_panic (counter_state s id) = false /\
  is_panic (free_to_reuse_deadline s id) = false /\ is_panic (counter_label s id) = false.
Proof.
  intros HR. pose proof (probe_total g s sp id HR) as H. unfold probe_of, probe_ok in H.
  apply andb_prop in H as [H _]. apply andb_prop in H as [H _].
  apply andb_prop in H as [H H4]. apply andb_prop in H as [H H3]. apply andb_prop in H as [H1 H2].
  rewrite is_panic_bind_hash in H4.
  repeat split; apply negb_true_iff; assumption.
Qed.

Lemma reader_range g s sp id : R g s sp ->
  if (0 <=? id) && (id <? g_n g)
  then exists v st d l, counter_value s id = COk v /\ counter_state s id = COk st /\
                        free_to_reuse_deadline s id = COk d /\ counter_label s id = COk l
  else counter_value s id = CErr IdOutOfRange /\ counter_state s id = CErr IdOutOfRange /\
       free_to_reuse_deadline s id = CErr IdOutOfRange /\ counter_label s id = CErr IdOutOfRange.
Proof.
  intros HR. pose proof (R_geom _ _ _ HR) as G. pose proof (R_n _ _ _ HR) as Hn.
  destruct ((0 <=? id) && (id <? g_n g)) eqn:E.
  - destruct (R_id _ _ _ HR id) as (_ & _ & _ & _ & (_ & _ & S3) & _).
    unfold counter_value, free_to_reuse_deadline, counter_label.
    rewrite counter_state_ok by (auto; lia). rewrite validate_in by lia. cbn [bindC].
    rewrite val_access_ok by (auto; lia). rewrite meta_access_ok by (auto; cs; lia).
    rewrite get_label_ok by (auto; lia). cbn [bindC]. eauto 10.
  - unfold counter_value, counter_state, free_to_reuse_deadline, counter_label.
    rewrite validate_out by lia. cbn [bindC]. auto.
Qed.

Lemma enumerate_total g s sp : R g s sp ->
  is_panic (for_each s) = false /\ is_panic (iter s) = false /\
  (forall t reg, is_panic (find_counter_id_by_registration_id s t reg) = false).
Proof.
  intros HR. rewrite (for_each_spec _ _ _ HR), (iter_spec _ _ _ HR). repeat split.
  intros t reg. rewrite (find_spec _ _ _ _ _ HR). reflexivity.
Qed.

(* what a live counter reads back: the type, key prefix and label given to allocate, the last value set *)
Lemma live_reads_back g s sp id : R g s sp -> In id (sp_live sp) ->
  counter_value s id = COk (i_value (sp_info sp id)) /\
  counter_state s id = COk ST_ALLOCATED /\
  counter_label s id = COk (i_label (sp_info sp id)) /\
  In (id, i_type (sp_info sp id), r_key (meta s id), i_label (sp_info sp id)) 
     (match for_each s with COk l => l | _ => [] end) /\
  firstn (length (i_key (sp_info sp id))) (r_key (meta s id)) = i_key (sp_info sp id).
Proof.
  intros HR H. pose proof (R_geom _ _ _ HR) as G. pose proof (R_n _ _ _ HR) as Hn.
  pose proof (R_live_range _ _ _ _ HR H) as Hr. pose proof (R_hwm _ _ _ HR) as Hh.
  destruct (R_id _ _ _ HR id) as (_ & _ & L & _ & (_ & _ & S3) & I & _).
  destruct (I H) as (I1 & I2 & I3 & I4 & I5 & I6).
  rewrite counter_value_ok by (auto; lia). rewrite counter_state_ok by (auto; lia).
  unfold counter_label. rewrite validate_in by lia. cbn [bindC]. rewrite get_label_ok by (auto; lia).
  rewrite (lab_of_info _ _ _ _ HR H), I5. apply L in H as H'. rewrite H'.
  repeat split; try assumption.
  rewrite (for_each_spec _ _ _ HR). apply in_map_iff. exists id. split.
  - unfold entry_of. rewrite (lab_of_info _ _ _ _ HR H), I1. reflexivity.
  - apply (in_live_ids _ _ _ _ HR). exact H.
Qed.

(* ---- the clauses one by one, along every history of the model ---- *)
Lemma clause_holds (c : cfg -> op -> obs -> spec -> bool) :
  (forall g o ob sp, chk g o ob sp = true -> c g o ob sp = true) ->
  forall m nm nv timeout ops, let g := mkcfg nm nv timeout in
  cfg_ok g = true -> holds_with g (c g) ops (run m ops (mgr0 nm nv timeout)) spec0 = true.
Proof.
  intros W m nm nv timeout ops g H. eapply holds_with_weaken; [|apply holds_run; apply R_init; exact H].
  intros o ob sp C. apply W. exact C.
Qed.
Lemma holds_unique : forall m nm nv timeout ops, let g := mkcfg nm nv timeout in
  cfg_ok g = true -> holds_with g (c_unique g) ops (run m ops (mgr0 nm nv timeout)) spec0 = true.
Proof. apply (clause_holds c_unique). intros g o ob sp C. apply chk_clauses in C. tauto. Qed.
Lemma holds_reuse : forall m nm nv timeout ops, let g := mkcfg nm nv timeout in
  cfg_ok g = true -> holds_with g (c_reuse g) ops (run m ops (mgr0 nm nv timeout)) spec0 = true.
Proof. apply (clause_holds c_reuse). intros g o ob sp C. apply chk_clauses in C. tauto. Qed.
Lemma holds_fail_closed : forall m nm nv timeout ops, let g := mkcfg nm nv timeout in
  cfg_ok g = true -> holds_with g (c_fail_closed g) ops (run m ops (mgr0 nm nv timeout)) spec0 = true.
Proof. apply (clause_holds c_fail_closed). intros g o ob sp C. apply chk_clauses in C. tauto. Qed.
Lemma holds_enumerate : forall m nm nv timeout ops, let g := mkcfg nm nv timeout in
  cfg_ok g = true -> holds_with g c_enumerate ops (run m ops (mgr0 nm nv timeout)) spec0 = true.
Proof. apply (clause_holds (fun _ => c_enumerate)). intros g o ob sp C. apply chk_clauses in C. tauto. Qed.
Lemma holds_total : forall m nm nv timeout ops, let g := mkcfg nm nv timeout in
  cfg_ok g = true -> holds_with g (c_total g) ops (run m ops (mgr0 nm nv timeout)) spec0 = true.
Proof. apply (clause_holds c_total). intros g o ob sp C. apply chk_clauses in C. tauto. Qed.

Lemma holds_snapshot : forall m nm nv timeout ops, let g := mkcfg nm nv timeout in
  cfg_ok g = true -> holds_with g c_snapshot ops (run m ops (mgr0 nm nv timeout)) spec0 = true.
Proof. apply (clause_holds (fun _ => c_snapshot)). intros g o ob sp C. apply chk_clauses in C. tauto. Qed.

Lemma no_panic_in_contract : forall m nm nv timeout ops, let g := mkcfg nm nv timeout in let s0 := mgr0 nm nv timeout in
  cfg_ok g = true -> in_contract g ops (run m ops s0) spec0 = true ->
  R g (final m ops s0) (spec_after ops (run m ops s0) spec0) /\
  length (run m ops s0) = length ops /\
  forallb (fun ob => negb (obs_panicked ob)) (run m ops s0) = true.
Proof. intros m nm nv timeout ops g s0 H C. apply reach_R; [apply R_init; exact H|exact C]. Qed.

Lemma reader_total_all : forall g s sp id, R g s sp ->
  (if (0 <=? id) && (id <? g_n g)
   then exists v st d l, counter_value s id = COk v /\ counter_state s id = COk st /\
                         free_to_reuse_deadline s id = COk d /\ counter_label s id = COk l
   else counter_value s id = CErr IdOutOfRange /\ counter_state s id = CErr IdOutOfRange /\
        free_to_reuse_deadline s id = CErr IdOutOfRange /\ counter_label s id = CErr IdOutOfRange)
  /\ is_panic (for_each s) = false /\ is_panic (iter s) = false
  /\ (forall t reg, is_panic (find_counter_id_by_registration_id s t reg) = false).
Proof. intros g s sp id HR. split; [apply (reader_range _ _ _ _ HR)|apply (enumerate_total _ _ _ HR)]. Qed.
