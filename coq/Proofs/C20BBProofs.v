(* C20 with the assembler's real BufferBuilders:
   - a run of the subscription model over real builders (run_sub_case_bb, what the implementation is compared with) that
     returns is the run over ideal byte lists (run_sub_case), so the oracle accepts it (sub_case_bb_judged);
   - the BufferBuilder oracle (holds_bb_case) accepts every run of the BufferBuilder model, and holds_find accepts
     find_suitable_capacity, in both build modes. *)
Require Import V.Base.MachineInt.
Require Import V.Generated.GenConsts.
Require Import V.Generated.GenBufferBuilder.
Require Import V.Model.LogBase.
Require Import V.Model.Descriptor.
Require Import V.Model.Reader.
Require Import V.Model.Image.
Require Import V.Model.Subscription.
Require Import V.Model.Assembler.
Require Import V.Model.BufferBuilder.
Require Import V.Model.AssemblerBB.
Require Import V.Oracle.C05Cases.
Require Import V.Oracle.C05Oracle.
Require Import V.Oracle.C20Cases.
Require Import V.Oracle.C20Oracle.
Require Import V.Proofs.BufferBuilderProofs.
Require Import V.Proofs.AssemblerBBProofs.
Require Import V.Proofs.C20HistoryProofs.
From Coq Require Import ZifyBool Lia.
Open Scope Z_scope.

(* ---- the subscription model over real builders refines the one over ideal byte lists ---- *)
Lemma sstep_builders_kept m nslots absent s bs o :
  (match o with SPoll _ => False | _ => True end) ->
  let '(_, st1) := sstep m nslots (absent, s, bs) o in let '(_, _, bs') := st1 in bs' = bs.
Proof. destruct o; intros Ho; try destruct Ho; cbn [sstep].
  - destruct (poll_inner (pk_cpoll salt tab) s limit) as [[[total s'] ds] polled]. reflexivity.
  - destruct (block_all (bk_block m bl) (s_images s)) as [[total imgs'] blocks]. reflexivity.
  - reflexivity.
  - destruct (find_slot slot absent) as [sl|]; [destruct (im_closed (slot_image sl))|]; reflexivity.
  - destruct (find_slot slot (s_images s)) as [sl|]; reflexivity.
  - reflexivity. Qed.

Theorem sstep_bb_refines m ibl nslots absent s bbs o ob absent' s' bbs' : builders_ok bbs ->
  sstep_bb m ibl nslots (absent, s, bbs) o = Ok (ob, (absent', s', bbs')) ->
  builders_ok bbs' /\ sstep m nslots (absent, s, ideal_of bbs) o = (ob, (absent', s', ideal_of bbs')).
Proof. intros Hok H. destruct o; cbn [sstep_bb] in H.
  - (* SPoll *) cbn [sstep]. destruct (poll_inner pk_poll s limit) as [[[total s1] ds] polled].
    destruct (assemble_bb m ibl bbs (map frag_of ds)) as [[bs1 out]| | | |] eqn:Ea; try discriminate. cbn [bind fst snd] in H.
    inversion H; subst. destruct (assemble_bb_refines m ibl _ _ _ _ Hok Ea) as (Hok' & Hi). rewrite Hi. cbn [all_slots].
    split; [assumption|reflexivity].
  - pose proof (sstep_builders_kept m nslots absent s (ideal_of bbs) (SCPoll limit salt tab) I) as Hk.
    destruct (sstep m nslots (absent, s, ideal_of bbs) (SCPoll limit salt tab)) as [ob1 [[a1 s1] b1]]. inversion H; subst. split; [assumption|reflexivity].
  - pose proof (sstep_builders_kept m nslots absent s (ideal_of bbs) (SBlock bl) I) as Hk.
    destruct (sstep m nslots (absent, s, ideal_of bbs) (SBlock bl)) as [ob1 [[a1 s1] b1]]. inversion H; subst. split; [assumption|reflexivity].
  - pose proof (sstep_builders_kept m nslots absent s (ideal_of bbs) (SGrow slot j) I) as Hk.
    destruct (sstep m nslots (absent, s, ideal_of bbs) (SGrow slot j)) as [ob1 [[a1 s1] b1]]. inversion H; subst. split; [assumption|reflexivity].
  - pose proof (sstep_builders_kept m nslots absent s (ideal_of bbs) (SAdd slot) I) as Hk.
    destruct (sstep m nslots (absent, s, ideal_of bbs) (SAdd slot)) as [ob1 [[a1 s1] b1]]. inversion H; subst. split; [assumption|reflexivity].
  - pose proof (sstep_builders_kept m nslots absent s (ideal_of bbs) (SRemove slot) I) as Hk.
    destruct (sstep m nslots (absent, s, ideal_of bbs) (SRemove slot)) as [ob1 [[a1 s1] b1]]. inversion H; subst. split; [assumption|reflexivity].
  - pose proof (sstep_builders_kept m nslots absent s (ideal_of bbs) (SRoll slot vis claim ss) I) as Hk.
    destruct (sstep m nslots (absent, s, ideal_of bbs) (SRoll slot vis claim ss)) as [ob1 [[a1 s1] b1]]. inversion H; subst. split; [assumption|reflexivity]. Qed.

Theorem srun_bb_refines m ibl nslots : forall ops absent s bbs obs, builders_ok bbs ->
  srun_bb m ibl nslots (absent, s, bbs) ops = Ok obs -> srun m nslots (absent, s, ideal_of bbs) ops = obs.
Proof. induction ops as [|o r IH]; intros absent s bbs obs Hok H; cbn [srun_bb srun] in *; [inversion H; reflexivity|].
  destruct (sstep_bb m ibl nslots (absent, s, bbs) o) as [[ob [[a1 s1] b1]]| | | |] eqn:E1; try discriminate. cbn [bind fst snd] in H.
  destruct (srun_bb m ibl nslots (a1, s1, b1) r) as [rest| | | |] eqn:E2; try discriminate. cbn [bind] in H. inversion H; subst.
  destruct (sstep_bb_refines m ibl nslots absent s bbs o ob a1 s1 b1 Hok E1) as (Hok1 & Hs). rewrite Hs.
  rewrite (IH a1 s1 b1 rest Hok1 E2). reflexivity. Qed.

Lemma add_initial_builders : forall ids (st : sstate), snd (add_initial st ids) = snd st.
Proof. induction ids as [|id r IH]; intros [[absent s] bs]; cbn [add_initial]; [reflexivity|].
  destruct (find_slot id absent); rewrite IH; reflexivity. Qed.

Theorem run_sub_case_bb_refines m ibl slots initial ops obs :
  run_sub_case_bb m ibl slots initial ops = Ok obs -> run_sub_case m slots initial ops = obs.
Proof. unfold run_sub_case_bb, run_sub_case. intros H.
  pose proof (add_initial_builders initial (build_slots 0 slots, mkSub [] 0, [])) as Hb. cbn [snd] in Hb.
  destruct (add_initial (build_slots 0 slots, mkSub [] 0, []) initial) as [[absent s] bs]. cbn [snd] in Hb. subst bs.
  apply (srun_bb_refines m (ibl_arg ibl) (length slots) ops absent s [] obs ltac:(constructor) H). Qed.

(* the oracle accepts every history of the model with real builders *)
Theorem sub_case_bb_judged m ibl slots initial ops obs : case_ok slots ops ->
  run_sub_case_bb m ibl slots initial ops = Ok obs -> holds_sub_case slots initial ops obs = true.
Proof. intros Hc H. rewrite <- (run_sub_case_bb_refines m ibl slots initial ops obs H). apply sub_case_judged. exact Hc. Qed.

(* ---- the BufferBuilder oracle ---- *)
Lemma payload_from_len k : forall c i, length (payload_from k i c) = c.
Proof. induction c; intros i; cbn [payload_from length]; [reflexivity|]. rewrite IHc. reflexivity. Qed.

Lemma spec_grow_eq c : spec_grow c = grow_spec c.
Proof. unfold spec_grow, SPEC_MAX. rewrite grow_spec_eq. reflexivity. Qed.

Lemma spec_consts : SPEC_MAX = BB_MAX_CAPACITY /\ SPEC_MIN = BB_MIN_CAPACITY /\ SPEC_SAFE = BB_SAFE.
Proof. repeat split; reflexivity. Qed.

Lemma first_cap_prescribed : forall fuel c r c', prescribed c r c' ->
  (forall k, (1 <= k)%nat -> c' = grow_iter k c -> (forall j, (1 <= j < k)%nat -> grow_iter j c < r) -> (k <= fuel)%nat) ->
  first_cap fuel c r = c'.
Proof. induction fuel as [|f IH]; intros c r c' (k & Hk & He & Hr & Hmin) Hf.
  - specialize (Hf k Hk He Hmin). lia.
  - cbn [first_cap]. rewrite spec_grow_eq. destruct (r <=? grow_spec c) eqn:E.
    + destruct k as [|[|k]]; [lia|exact (eq_sym He)|]. specialize (Hmin 1%nat ltac:(lia)). cbn [grow_iter] in Hmin. lia.
    + destruct k as [|[|k]]; [lia|cbn [grow_iter] in He; lia|].
      apply IH.
      * exists (S k). split; [lia|]. split; [exact He|]. split; [exact Hr|]. intros j Hj. apply (Hmin (S j)). lia.
      * intros k' Hk' He' Hmin'. assert (S k' <= S f)%nat; [|lia]. apply (Hf (S k')); [lia|exact He'|].
        intros j Hj. destruct j as [|j]; [lia|]. destruct j as [|j]; [cbn [grow_iter]; lia|]. apply (Hmin' (S j)). lia. Qed.

Lemma prescribed_expect cap req c' : 2 <= cap <= BB_MAX_CAPACITY -> cap < req <= BB_MAX_CAPACITY -> prescribed cap req c' ->
  first_cap 96 cap req = c'.
Proof. intros Hc Hr Hp. apply first_cap_prescribed; [exact Hp|]. intros k Hk He Hmin.
  destruct (Nat.le_gt_cases k 96) as [Hle|Hgt]; [exact Hle|]. exfalso.
  specialize (Hmin 95%nat ltac:(lia)).
  assert (BB_MAX_CAPACITY <= grow_iter 95 cap).
  { eapply Z.le_trans; [|apply grow_iter_mono with (a := 2); lia]. change (grow_iter 95 2) with (grow_iter 94 (grow_spec 2)).
    eapply Z.le_trans; [apply grow_iter_2_max|]. apply grow_iter_mono. vm_compute. discriminate. }
  lia. Qed.

(* relation between the oracle's bookkeeping and the model's builder *)
Definition bb_rel (st : ostate_bb) (b : bb) : Prop :=
  match st with
  | None => True
  | Some (cap, limit, content) => bb_ok b /\ bb_cap b = cap /\ bb_limit b = limit /\ bb_content b = content
  end.

Lemma out_eqb_ok0 : out_eqb (Ok 0) (Ok 0) = true. Proof. reflexivity. Qed.

Theorem bstep_judged m st b o : bb_rel st b ->
  let '(ob, b') := bstep m b o in let '(ok, st') := judge_bop st o ob in ok = true /\ bb_rel st' b'.
Proof. intros Hrel. destruct st as [[[cap limit] content]|]; [|destruct (bstep m b o); cbn [judge_bop]; split; [reflexivity|exact I]].
  destruct Hrel as (Hok & <- & <- & <-). pose proof Hok as ((Hl1 & Hl2) & Hc1 & Hc2). bbc.
  destruct o; cbn [bstep judge_bop bb_obs].
  - (* append *)
    change SPEC_SAFE with BB_SAFE.
    destruct ((0 <=? len) && (bb_limit b + len <=? BB_SAFE + 1)) eqn:Eg.
    2:{ destruct (bb_append m b (payload k len)); split; try reflexivity; exact I. }
    assert (Hlen : Z.of_nat (length (payload k len)) = len).
    { unfold payload. rewrite payload_from_len. lia. }
    destruct (append_succeeds m b (payload k len) Hok ltac:(rewrite Hlen; lia)) as (b' & Ea). rewrite Ea. cbn [unit_out].
    destruct (append_spec m b _ b' Hok Ea) as (A1 & A2 & A3 & A4 & A5). rewrite Hlen in *.
    assert (Hcap : bb_cap b' = expect_cap (bb_cap b) (bb_limit b + len)).
    { unfold expect_cap. destruct (bb_limit b + len <=? bb_cap b) eqn:El; [apply A4; lia|].
      symmetry. apply prescribed_expect; [lia|unfold BB_SAFE in *; lia|apply A5; lia]. }
    rewrite out_eqb_ok0, A2, A3, Hcap, !Z.eqb_refl. split; [reflexivity|]. cbn [bb_rel].
    split; [exact A1|]. split; [exact Hcap|]. split; [exact A2|exact A3].
  - (* reset *)
    destruct (reset_spec b Hok) as (R1 & R2 & R3 & R4). rewrite out_eqb_ok0, R2, R3, R4, !Z.eqb_refl.
    split; [reflexivity|]. cbn [bb_rel]. split; [exact R1|]. split; [exact R4|]. split; [exact R2|exact R3].
  - (* set_limit *)
    unfold bb_set_limit. destruct (limit >=? bb_cap b) eqn:El; cbn [unit_out is_illegal_arg].
    + rewrite !Z.eqb_refl. split; [reflexivity|]. cbn [bb_rel]. split; [exact Hok|]. split; [reflexivity|]. split; reflexivity.
    + cbn [bb_limit bb_cap]. rewrite out_eqb_ok0, !Z.eqb_refl. split; [reflexivity|exact I]. Qed.

Theorem brun_judged m : forall ops st b, bb_rel st b -> judge_bops st ops (brun m b ops) = true.
Proof. induction ops as [|o r IH]; intros st b Hrel; cbn [brun judge_bops]; [reflexivity|].
  pose proof (bstep_judged m st b o Hrel) as Hs. destruct (bstep m b o) as [ob b']. cbn [judge_bops].
  destruct (judge_bop st o ob) as [ok st']. destruct Hs as [-> Hrel']. cbn [andb]. apply IH. exact Hrel'. Qed.

Lemma is_pow2_pow k : 0 <= k -> is_pow2 (2 ^ k) = true.
Proof. intros H. unfold is_pow2. assert (0 < 2 ^ k) by (apply Z.pow_pos_nonneg; lia). rewrite Z.log2_pow2 by lia. lia. Qed.

(* the capacity `new` allocates: 64 or a power of two *)
Lemma new_cap_shape m initial b : initial_judged initial = true -> bb_new m initial = Ok b -> new_cap_ok initial (bb_cap b) = true.
Proof. intros Hj H. unfold initial_judged, two63 in Hj. pose proof (new_spec m initial b H) as (_ & _ & _ & Hmin & Hsmall). bbc.
  unfold bb_new, next_pow2_i64, sub64, add64, chk64 in H.
  assert (E1 : in_i64 (initial - 1) = true) by (unfold in_i64, two63; lia). rewrite E1 in H. cbn [bind] in H.
  unfold new_cap_ok, SPEC_MIN.
  (* p = fill_below (initial - 1) + 1 is 0 or a power of two <= 2^62 *)
  assert (Hp : fill_below (initial - 1) + 1 = 0 \/ exists k, 0 <= k <= 62 /\ fill_below (initial - 1) + 1 = 2 ^ k).
  { unfold fill_below. destruct (initial - 1 <? 0) eqn:A; [left; reflexivity|]. right.
    destruct (initial - 1 =? 0) eqn:B; [exists 0; split; [lia|reflexivity]|].
    exists (Z.log2 (initial - 1) + 1). pose proof (Z.log2_nonneg (initial - 1)).
    assert (Z.log2 (initial - 1) < 62) by (apply Z.log2_lt_pow2; lia). split; [lia|lia]. }
  assert (E2 : in_i64 (fill_below (initial - 1) + 1) = true).
  { destruct Hp as [->|(k & Hk & ->)]; [reflexivity|]. unfold in_i64, two63.
    assert (0 < 2 ^ k) by (apply Z.pow_pos_nonneg; lia). assert (2 ^ k <= 2 ^ 62) by (apply Z.pow_le_mono_r; lia).
    change (2 ^ 62) with 4611686018427387904 in *. lia. }
  rewrite E2 in H. inversion H; subst b. cbn [bb_cap] in *. rewrite ?Hmin0 in *.
  assert (Hshape : is_pow2 (Z.max (wrap32 (fill_below (initial - 1) + 1)) 64) = true /\
                   (wrap32 (fill_below (initial - 1) + 1) = fill_below (initial - 1) + 1 \/ wrap32 (fill_below (initial - 1) + 1) <= 0)).
  { destruct Hp as [->|(k & Hk & ->)]; [split; [reflexivity|right; vm_compute; discriminate]|].
    destruct (Z_le_gt_dec k 30) as [Hle|Hgt].
    - assert (2 ^ k <= 2 ^ 30) by (apply Z.pow_le_mono_r; lia). assert (0 < 2 ^ k) by (apply Z.pow_pos_nonneg; lia).
      change (2 ^ 30) with 1073741824 in *. rewrite wrap32_id by (unfold in_i32, two31; lia). split; [|left; reflexivity].
      destruct (Z_le_gt_dec k 6) as [H6|H6].
      + assert (2 ^ k <= 2 ^ 6) by (apply Z.pow_le_mono_r; lia). change (2 ^ 6) with 64 in *. rewrite Z.max_r by lia. reflexivity.
      + assert (2 ^ 6 <= 2 ^ k) by (apply Z.pow_le_mono_r; lia). change (2 ^ 6) with 64 in *. rewrite Z.max_l by lia. apply is_pow2_pow. lia.
    - assert (Hw : wrap32 (2 ^ k) <= 0).
      { destruct (Z.eq_dec k 31) as [->|N31]; [vm_compute; discriminate|].
        replace k with (32 + (k - 32)) by lia. rewrite Z.pow_add_r by lia. unfold wrap32, two31, two32. change (2 ^ 32) with 4294967296.
        rewrite Z.add_comm, Z.mul_comm, Z.mod_add by lia. vm_compute. discriminate. }
      split; [rewrite Z.max_r by lia; reflexivity|right; exact Hw]. }
  destruct Hshape as [Hpow Hw]. rewrite Hpow. cbn [andb].
  assert (Hge : 64 <=? Z.max (wrap32 (fill_below (initial - 1) + 1)) 64 = true) by lia.
  rewrite Hge. cbn [andb].
  destruct ((1 <=? initial) && (initial <=? 1073741824)) eqn:Es.
  - specialize (Hsmall ltac:(lia)). destruct Hsmall as [S1 S2].
    destruct (Z.max (wrap32 (fill_below (initial - 1) + 1)) 64 =? 64) eqn:E64; [lia|]. specialize (S2 ltac:(lia)). lia.
  - (* initial <= 0 or above 2^30: the capacity is the minimum *)
    destruct Hw as [Hw|Hw]; [|lia]. rewrite Hw.
    destruct (Z_le_gt_dec initial 0) as [Hneg|Hpos].
    + unfold fill_below. assert (A : initial - 1 <? 0 = true) by lia. rewrite A. lia.
    + exfalso. assert (1073741824 < initial) by lia.
      (* then p >= 2^31 does not fit an i32 unchanged *)
      pose proof (fill_below_range (initial - 1) ltac:(lia)) as Hf. pose proof (wrap32_range (fill_below (initial - 1) + 1)) as Hr.
      unfold in_i32, two31 in Hr. rewrite Hw in Hr.
      destruct Hp as [Hp|(k & Hk & Hp)]; [lia|]. rewrite Hp in *.
      assert (k <= 30 \/ 31 <= k) as [Hk30|Hk31] by lia.
      * assert (2 ^ k <= 2 ^ 30) by (apply Z.pow_le_mono_r; lia). change (2 ^ 30) with 1073741824 in *. lia.
      * assert (2 ^ 31 <= 2 ^ k) by (apply Z.pow_le_mono_r; lia). change (2 ^ 31) with 2147483648 in *. lia. Qed.

Theorem bb_case_judged m initial ops : holds_bb_case initial ops (run_bb_case m initial ops) = true.
Proof. unfold holds_bb_case, run_bb_case. destruct (initial_judged initial) eqn:Ej; [|reflexivity]. cbn [negb].
  assert (Hnew : is_ok (bb_new m initial) = true) by (unfold initial_judged, two63 in Ej; apply new_ok_small; unfold two63; lia).
  destruct (bb_new m initial) as [b| | | |] eqn:En; try discriminate.
  pose proof (new_spec m initial b En) as (Hok & Hl & Hc & _). cbn [bb_obs].
  rewrite out_eqb_ok0, Hl, Hc, !Z.eqb_refl, (new_cap_shape m initial b Ej En). cbn [andb].
  apply brun_judged. cbn [bb_rel]. split; [exact Hok|]. split; [reflexivity|]. split; [exact Hl|exact Hc]. Qed.

(* ---- find_suitable_capacity ---- *)
Theorem find_judged m cap req : holds_find cap req (find_suitable_capacity m cap req) = true.
Proof. unfold holds_find. change SPEC_MAX with BB_MAX_CAPACITY. change SPEC_SAFE with BB_SAFE.
  destruct ((2 <=? cap) && (cap <=? BB_MAX_CAPACITY) && (cap <? req)) eqn:Eg; cbn [negb]; [|reflexivity].
  assert (Hc : 2 <= cap <= BB_MAX_CAPACITY) by lia. assert (Hlt : cap < req) by lia. bbc.
  assert (Hdbg : forall P : outcome Z -> bool, P Panic = true -> P (find_suitable_capacity Release cap req) = true ->
                 P (find_suitable_capacity m cap req) = true).
  { intros P HP HR. destruct m; [|exact HR]. unfold find_suitable_capacity in *.
    destruct (fsc_debug_refines FSC_FUEL cap req) as [E|E]; rewrite E; assumption. }
  destruct (req <=? BB_SAFE + 1) eqn:E1.
  - destruct (fsc_complete m cap req ltac:(lia) Hlt ltac:(lia)) as (c' & Hf & Hp). rewrite Hf.
    rewrite (prescribed_expect cap req c' Hc ltac:(unfold BB_SAFE in *; lia) Hp). cbn [out_eqb]. apply Z.eqb_refl.
  - destruct (req <=? BB_MAX_CAPACITY) eqn:E2.
    + apply (Hdbg (fun r => match r with Ok c => c =? first_cap 96 cap req | Panic => true | _ => false end)); [reflexivity|].
      destruct (fsc_release_complete cap req ltac:(lia) Hlt ltac:(lia)) as (c' & Hf & Hp). rewrite Hf.
      rewrite (prescribed_expect cap req c' Hc ltac:(lia) Hp). apply Z.eqb_refl.
    + apply (Hdbg (fun r => match r with Err IllegalState => true | Panic => true | _ => false end)); [reflexivity|].
      rewrite (fsc_release_beyond_max cap req Hc ltac:(lia)). reflexivity. Qed.
