(* The whole-call theorems of C16: for every call (chains of views included), every window, every state,
   the model (a) logs only ranges inside the root region and never reaches undefined behaviour, (b) leaves
   memory untouched when it panics, (c) satisfies the oracle of Oracle/C16Oracle.v. *)
Require Import V.Base.MachineInt.
Require Import V.Generated.GenBounds.
Require Import V.Model.Buffer.
Require Import V.Proofs.BufferGuard.
Require Import V.Proofs.BufferProofs.
Require Import V.Oracle.C16Oracle.
From Coq Require Import ZifyBool.
Open Scope Z_scope.

(* ------------------------------------------------------------------ well-formed calls: every argument is an i32,
   sizes of element types are in [0, 2^31), slice lengths too unless the accessor converts them with a checked conversion *)
Fixpoint wf_call (c : call) : Prop :=
  match c with
  | CNop | CAsSlice => True
  | CView off len c' => i32 off /\ i32 len /\ wf_call c'
  | CGet sz pos | CGetVolatile sz pos | CAsRef sz pos | CGetBytes sz pos | COverlay sz pos
  | CPut sz pos | CPutOrdered sz pos | CCas sz pos _ _ => size32 sz /\ i32 pos
  | CPutAtomic off _ | CAddOrdered off _ | CGetAndAdd off _ | CGetString off | CGetStringLength off => i32 off
  | CSetMemory a b _ | CSubSlice a b | CGetStringWl a b => i32 a /\ i32 b
  | CPutBytes off n => i32 off /\ slice_ok gen_chk_put_bytes n
  | CPutString off n => i32 off /\ slice_ok gen_chk_put_string n
  | CPutStringWl off n => i32 off /\ slice_ok gen_chk_put_string_wl n
  | CWrite n => slice_ok gen_chk_put_bytes n
  | CCopyFrom off soff len => i32 off /\ i32 soff /\ i32 len
  | FNew sz fb => size32 sz /\ i32 fb
  | FStringGet _ off | FStringGetLength _ off => i32 off
  | FStringPut _ off n => i32 off /\ slice_ok gen_chk_put_string n
  | FPutBytes fb off n => i32 fb /\ i32 off /\ slice_ok gen_chk_put_bytes n
  | FGetBytes sz fb off | FPut sz fb off | FOverlay sz fb off => size32 sz /\ i32 fb /\ i32 off
  | FField sz fb foff flen => size32 sz /\ i32 fb /\ 0 <= foff /\ 0 <= flen /\ foff + flen <= sz
  end.

(* ------------------------------------------------------------------ lists, diff *)
Lemma list_eqb_refl l : list_eqb l l = true.
Proof. induction l; cbn; auto. rewrite Z.eqb_refl. auto. Qed.

Lemma diff_same n m : diff n m m = [].
Proof.
  unfold diff. induction (zseq 0 n); cbn; auto. rewrite Z.eqb_refl. auto.
Qed.

Lemma diff_in n m m' i v : In (i, v) (diff n m m') -> m i <> m' i /\ v = m' i.
Proof.
  unfold diff. intros H. apply in_flat_map in H. destruct H as (j & _ & H).
  destruct (m j =? m' j) eqn:E; cbn in H; [contradiction | ].
  destruct H as [H | []]. inversion H; subst. split; auto. lia.
Qed.

Lemma diff_frame n m m' lo hi : frame m m' lo hi -> within lo hi (diff n m m') = true.
Proof.
  intros F. unfold within. apply forallb_forall. intros [i v] Hin. cbn [fst].
  apply diff_in in Hin. destruct Hin as [Hne _].
  destruct ((lo <=? i) && (i <? hi)) eqn:E; auto.
  exfalso. apply Hne. symmetry. apply F. lia.
Qed.

Lemma nth_byte_map_zseq f o len k : 0 <= k < len -> nth_byte (map f (zseq o len)) k = f (o + k).
Proof.
  intros H. unfold nth_byte, zseq. rewrite map_map.
  rewrite nth_indep with (d' := f (o + Z.of_nat (Z.to_nat len))).
  - rewrite (map_nth (fun x => f (o + Z.of_nat x))). rewrite seq_nth by lia. f_equal. lia.
  - rewrite map_length, seq_length. lia.
Qed.

(* ------------------------------------------------------------------ the post of a whole call *)
Definition win_frame (e : env) (s s' : st) : Prop :=
  frame (s_mem s) (s_mem s') (e_base e) (e_base e + e_cap e).

Lemma frame_widen m m' lo hi lo' hi' : frame m m' lo hi -> lo' <= lo -> hi <= hi' -> frame m m' lo' hi'.
Proof. intros F ? ? i Hi. apply F. lia. Qed.

Lemma win_frame_same e s s' : s_mem s' = s_mem s -> win_frame e s s'.
Proof. intros H. unfold win_frame. rewrite H. apply frame_refl. Qed.

Lemma win_frame_range e s s' off len : inside (e_cap e) off len = true ->
  frame (s_mem s) (s_mem s') (e_base e + off) (e_base e + off + len) -> win_frame e s s'.
Proof. intros Hin F. apply inside_spec in Hin. eapply frame_widen; eauto; lia. Qed.

Definition run_post (e : env) (c : call) (s : st) (res : outcome rv * st) : Prop :=
  LI e (s_log (snd res)) /\ win_frame e s (snd res) /\
  match fst res with
  | Panic => s_mem (snd res) = s_mem s
  | Ok r => forall n, spec_ok (e_scap e) (e_src e) (s_mem s) (e_base e) (e_cap e) c r
                        (diff n (s_mem s) (s_mem (snd res))) = true
  | _ => False
  end.

(* wrappers *)
Lemma as_bytes_rd e off len s (acc : M (list Z)) :
  rdpost e off len s (acc s) ->
  LI e (s_log (snd (as_bytes acc s))) /\ win_frame e s (snd (as_bytes acc s)) /\
  match fst (as_bytes acc s) with
  | Panic => s_mem (snd (as_bytes acc s)) = s_mem s
  | Ok r => forall n, sp_reads (s_mem s) (e_base e) (e_cap e) r
                        (diff n (s_mem s) (s_mem (snd (as_bytes acc s)))) off len = true
  | _ => False
  end.
Proof.
  intros (L & Mm & R). unfold as_bytes.
  destruct (acc s) as [r s1] eqn:E. cbn [fst snd] in *.
  destruct R as [-> | [Hin ->]].
  - bpanic E. cbn [fst snd]. auto using win_frame_same.
  - bok E. cbn [ret fst snd]. split; auto. split; [apply win_frame_same; auto | ]. intros n. unfold sp_reads. cbn [snd].
    rewrite Hin, Mm, diff_same, list_eqb_refl. reflexivity.
Qed.

Lemma as_unit_w e off len s (acc : M unit) :
  wpost e off len s (acc s) ->
  LI e (s_log (snd (as_unit acc s))) /\ win_frame e s (snd (as_unit acc s)) /\
  match fst (as_unit acc s) with
  | Panic => s_mem (snd (as_unit acc s)) = s_mem s
  | Ok r => forall n, sp_writes (e_base e) (e_cap e) (diff n (s_mem s) (s_mem (snd (as_unit acc s)))) off len = true
  | _ => False
  end.
Proof.
  intros (L & R). unfold as_unit.
  destruct (acc s) as [r s1] eqn:E. cbn [fst snd] in *.
  destruct r as [[] | | | | ]; try contradiction.
  - bok E. cbn [ret fst snd]. split; auto. destruct R as [Hin F]. split; [eapply win_frame_range; eauto | ].
    intros n. unfold sp_writes. rewrite Hin, (diff_frame n _ _ _ _ F). reflexivity.
  - bpanic E. cbn [fst snd]. auto using win_frame_same.
Qed.

Lemma as_num_expose e sz pos s (acc : M Z) :
  (acc s = (Panic, s) \/
   (inside (e_cap e) pos sz = true /\ acc s = (Ok (e_base e + pos), add_log (0, e_base e + pos, sz) s))) ->
  wf_env e -> LI e (s_log s) ->
  LI e (s_log (snd (as_num acc s))) /\ win_frame e s (snd (as_num acc s)) /\
  match fst (as_num acc s) with
  | Panic => s_mem (snd (as_num acc s)) = s_mem s
  | Ok r => forall n, sp_exposes (e_base e) (e_cap e) r (diff n (s_mem s) (s_mem (snd (as_num acc s)))) pos sz = true
  | _ => False
  end.
Proof.
  intros [E | [Hin E]] W L; unfold as_num.
  - bpanic E. cbn [fst snd]. auto using win_frame_same.
  - bok E. cbn [ret fst snd add_log s_log s_mem]. split; [apply LI_add0; auto | ].
    split; [apply win_frame_same; reflexivity | ].
    intros n. unfold sp_exposes. cbn [fst]. rewrite Hin, diff_same. cbn. rewrite Z.eqb_refl. reflexivity.
Qed.

(* ------------------------------------------------------------------ Flyweight: base_offset + offset, then the accessor *)
Lemma fly_offset {A} e fb off (k : Z -> M A) s (P : outcome A * st -> Prop) :
  i32 fb -> i32 off ->
  P (Panic, s) ->
  (i32 (wrap32 (fb + off)) -> P (k (wrap32 (fb + off)) s)) ->
  P ((p <~ lift (add32 (e_m e) fb off) ;; k p) s).
Proof.
  intros Hf Ho Pp Pk.
  destruct (add32_cases (e_m e) fb off) as [(p & Hp & Hi & Heq & Hwr) | Hp].
  - rewrite (bind_lift_ok _ _ _ _ Hp).
    assert (p = wrap32 (fb + off)) as ->.
    { destruct (in_i32 (fb + off)) eqn:E; [rewrite (Heq eq_refl), wrap32_id; auto | auto]. }
    apply Pk. apply wrap32_range.
  - rewrite (bind_lift_panic _ _ _ Hp). exact Pp.
Qed.

(* ------------------------------------------------------------------ every call *)
Theorem run_spec : forall c e s, wf_env e -> wf_call c -> LI e (s_log s) -> run_post e c s (run e c s).
Proof.
  induction c; intros e s W Hc L; unfold run_post; cbn [run spec_ok wf_call] in *.
  - (* CNop *) cbn [ret fst snd]. split; auto. split; [apply win_frame_same; reflexivity | ]. intros n. rewrite diff_same, list_eqb_refl. reflexivity.
  - (* CView *)
    destruct Hc as (Ho & Hl & Hc).
    destruct (a_view_spec e off len s W Ho Hl) as [E | (Hin & W' & E)].
    + bpanic E. cbn [fst snd]. auto using win_frame_same.
    + bok E.
      assert (L' : LI (view_env e off len) (s_log (add_log (0, e_base e + off, len) s))).
      { cbn [view_env e_rcap e_scap add_log s_log]. apply LI_add0; auto. }
      pose proof (IHc (view_env e off len) _ W' Hc L') as (L2 & F2 & R2).
      unfold win_frame in *.
      cbn [view_env e_rcap e_scap e_base e_cap e_src add_log s_mem] in *.
      split; auto.
      split; [apply inside_spec in Hin; eapply frame_widen; eauto; lia | ].
      destruct (fst (run (view_env e off len) c (add_log (0, e_base e + off, len) s))); auto.
      intros n. rewrite Hin. apply R2.
  - (* CGet *) destruct Hc. apply as_bytes_rd. apply a_get_spec; auto.
  - (* CGetVolatile *) destruct Hc. apply as_bytes_rd. apply a_get_volatile_spec; auto.
  - (* CAsRef *) destruct Hc. apply as_bytes_rd. apply a_as_ref_spec; auto.
  - (* CGetBytes *) destruct Hc. apply as_bytes_rd. apply a_get_bytes_spec; auto.
  - (* COverlay *) destruct Hc. apply as_num_expose; auto. apply a_overlay_struct_spec; auto.
  - (* CPut *) destruct Hc. apply as_unit_w. eapply wrpost_wpost. apply a_put_spec; auto.
  - (* CPutOrdered *) destruct Hc. apply as_unit_w. eapply wrpost_wpost. apply a_put_ordered_spec; auto.
  - (* CPutAtomic *) apply as_unit_w. eapply wrpost_wpost. apply a_put_atomic_i64_spec; auto.
  - (* CCas *)
    destruct Hc as [Hsz Hp].
    pose proof (a_compare_and_set_spec e sz pos expd upd s W Hsz Hp L) as (L1 & R1).
    destruct (a_compare_and_set e sz pos expd upd s) as [r s1] eqn:E. cbn [fst snd] in *.
    destruct r as [b | | | | ]; try contradiction.
    + bok E. cbn [ret fst snd]. split; auto. destruct R1 as [Hin F]. split; [eapply win_frame_range; eauto | ].
      intros n. unfold sp_writes.
      rewrite Hin, (diff_frame n _ _ _ _ F). reflexivity.
    + bpanic E. cbn [fst snd]. auto using win_frame_same.
  - (* CAddOrdered *) apply as_unit_w. apply a_add_i64_ordered_spec; auto.
  - (* CGetAndAdd *)
    pose proof (a_get_and_add_i64_spec e off delta s W Hc L) as ((L1 & R1) & V1).
    unfold as_bytes.
    destruct (a_get_and_add_i64 e off delta s) as [r s1] eqn:E. cbn [fst snd] in *.
    destruct r as [b | | | | ]; try contradiction.
    + bok E. cbn [ret fst snd]. split; auto. destruct R1 as [Hin F]. split; [eapply win_frame_range; eauto | ].
      intros n. unfold sp_writes.
      rewrite Hin, (diff_frame n _ _ _ _ F), (V1 b eq_refl), list_eqb_refl. reflexivity.
    + bpanic E. cbn [fst snd]. auto using win_frame_same.
  - (* CSetMemory *) destruct Hc. apply as_unit_w. eapply wrpost_wpost. apply a_set_memory_spec; auto.
  - (* CPutBytes *) destruct Hc. apply as_unit_w. eapply wrpost_wpost. apply a_put_bytes_spec; auto.
  - (* CWrite *) apply as_unit_w. eapply wrpost_wpost. apply a_write_spec; auto.
  - (* CCopyFrom *)
    destruct Hc as (Ho & Hso & Hl).
    pose proof (a_copy_from_spec e off soff len s W Ho Hso Hl L) as (L1 & R1).
    unfold as_unit.
    destruct (a_copy_from e off soff len s) as [r s1] eqn:E. cbn [fst snd] in *.
    destruct r as [[] | | | | ]; try contradiction.
    + bok E. cbn [ret fst snd]. split; auto. destruct R1 as (Hin & Hin2 & Hm).
      assert (0 <= len) by (apply inside_spec in Hin; lia).
      assert (F : frame (s_mem s) (s_mem s1) (e_base e + off) (e_base e + off + len))
        by (rewrite Hm; apply frame_upd; lia).
      split; [eapply win_frame_range; eauto | ]. intros n.
      unfold sp_writes. rewrite Hin, Hin2.
      rewrite (diff_frame n _ _ _ _ F). cbn [andb].
      apply forallb_forall. intros [i v] Hi. cbn [fst snd].
      pose proof (diff_frame n _ _ _ _ F) as Wi. unfold within in Wi.
      rewrite forallb_forall in Wi. specialize (Wi _ Hi). cbn [fst] in Wi.
      apply diff_in in Hi. destruct Hi as [_ ->]. rewrite Hm. unfold Buffer.upd.
      replace ((e_base e + off <=? i) && (i <? e_base e + off + len)) with true by lia.
      rewrite nth_byte_map_zseq by lia. apply Z.eqb_refl.
    + bpanic E. cbn [fst snd]. auto using win_frame_same.
  - (* CAsSlice *)
    destruct (a_as_slice_spec e s W L) as [E Hin]. bok E.
    cbn [ret fst snd add_log s_log s_mem]. split; [apply LI_add0; auto | ].
    split; [apply win_frame_same; reflexivity | ].
    intros n. rewrite diff_same, !list_eqb_refl. reflexivity.
  - (* CSubSlice *) destruct Hc. apply as_bytes_rd. apply a_as_sub_slice_spec; auto.
  - (* CGetString *)
    pose proof (a_get_string_spec e off s W Hc L) as (L1 & M1 & R1).
    unfold as_bytes.
    destruct (a_get_string e off s) as [r s1] eqn:E. cbn [fst snd] in *.
    destruct R1 as [-> | (I1 & I2 & ->)].
    + bpanic E. cbn [fst snd]. auto using win_frame_same.
    + bok E. cbn [ret fst snd]. split; auto. split; [apply win_frame_same; auto | ]. intros n. unfold sp_string. cbn [snd].
      fold (string_len (s_mem s) (e_base e + off)).
      rewrite I1, I2, M1, diff_same, list_eqb_refl. reflexivity.
  - (* CGetStringWl *) destruct Hc. apply as_bytes_rd. apply a_get_string_without_length_spec; auto.
  - (* CGetStringLength *) apply as_bytes_rd. apply a_get_string_length_spec; auto.
  - (* CPutString *) destruct Hc. apply as_unit_w. apply a_put_string_spec; auto.
  - (* CPutStringWl *)
    destruct Hc as [Ho Hn].
    pose proof (a_put_string_without_length_spec e off n wbyte s W Ho Hn L) as (L1 & R1).
    unfold as_num.
    destruct (a_put_string_without_length e off n wbyte s) as [r s1] eqn:E. cbn [fst snd] in *.
    destruct r as [z | | | | ]; try contradiction.
    + bok E. cbn [ret fst snd]. split; auto. destruct R1 as [Hin F]. split; [exact F | ]. intros k.
      rewrite Hin, (diff_frame k _ _ _ _ F). reflexivity.
    + bpanic E. cbn [fst snd]. auto using win_frame_same.
  - (* FNew *) destruct Hc. apply as_num_expose; auto. apply a_overlay_struct_spec; auto.
  - (* FStringGet *)
    unfold f_string_get.
    pose proof (a_get_string_spec e off s W Hc L) as (L1 & M1 & R1).
    unfold as_bytes.
    destruct (a_get_string e off s) as [r s1] eqn:E. cbn [fst snd] in *.
    destruct R1 as [-> | (I1 & I2 & ->)].
    + bpanic E. cbn [fst snd]. auto using win_frame_same.
    + bok E. cbn [ret fst snd]. split; auto. split; [apply win_frame_same; auto | ]. intros n. unfold sp_string. cbn [snd].
      fold (string_len (s_mem s) (e_base e + off)).
      rewrite I1, I2, M1, diff_same, list_eqb_refl. reflexivity.
  - (* FStringGetLength *) apply as_bytes_rd. apply a_get_string_length_spec; auto.
  - (* FStringPut *) destruct Hc. apply as_unit_w. apply a_put_string_spec; auto.
  - (* FPutBytes *)
    destruct Hc as (Hf & Ho & Hn). apply as_unit_w. unfold f_put_bytes.
    apply (fly_offset e fb off (fun p => a_put_bytes e p n wbyte) s (wpost e (wrap32 (fb + off)) n s)); auto.
    + unfold wpost. cbn [fst snd]. auto.
    + intros Hi. eapply wrpost_wpost. apply a_put_bytes_spec; auto.
  - (* FGetBytes *)
    destruct Hc as (Hsz & Hf & Ho). apply as_bytes_rd. unfold f_get_bytes.
    apply (fly_offset e fb off (fun p => a_get_bytes e sz p) s (rdpost e (wrap32 (fb + off)) sz s)); auto.
    + unfold rdpost. cbn [fst snd]. auto.
    + intros Hi. apply a_get_bytes_spec; auto.
  - (* FPut *)
    destruct Hc as (Hsz & Hf & Ho). apply as_unit_w. unfold f_put.
    apply (fly_offset e fb off (fun p => a_put e sz p wbyte) s (wpost e (wrap32 (fb + off)) sz s)); auto.
    + unfold wpost. cbn [fst snd]. auto.
    + intros Hi. eapply wrpost_wpost. apply a_put_spec; auto.
  - (* FOverlay *)
    destruct Hc as (Hsz & Hf & Ho). apply as_num_expose; auto. unfold f_overlay_struct.
    apply (fly_offset e fb off (fun p => a_overlay_struct e sz p) s
             (fun res => res = (Panic, s) \/
                inside (e_cap e) (wrap32 (fb + off)) sz = true /\
                res = (Ok (e_base e + wrap32 (fb + off)), add_log (0, e_base e + wrap32 (fb + off), sz) s))); auto.
    intros Hi. apply a_overlay_struct_spec; auto.
  - (* FField *)
    destruct Hc as (Hsz & Hf & H1 & H2 & H3). unfold as_bytes.
    destruct (a_overlay_struct_spec e sz fb s W Hsz Hf) as [E | [Hin E]].
    + assert (E1 : f_field e sz fb foff flen s = (Panic, s)) by (unfold f_field, f_new; bpanic E; reflexivity).
      bpanic E1. cbn [fst snd]. auto using win_frame_same.
    + assert (Hin2 : inside (e_cap e) (fb + foff) flen = true)
        by (apply inside_spec in Hin; apply inside_spec; lia).
      assert (E1 : f_field e sz fb foff flen s =
                   (Ok (map (s_mem s) (zseq (e_base e + (fb + foff)) flen)),
                    add_log (0, e_base e + (fb + foff), flen) (add_log (0, e_base e + fb, sz) s))).
      { unfold f_field, f_new. bok E. rewrite (rd_ok e (fb + foff) flen _ W Hin2). reflexivity. }
      bok E1. cbn [ret fst snd add_log s_log s_mem]. split.
      * apply log_inside_app; [apply LI_add0; auto | ]. unfold range_ok. cbn. apply inside_root; auto.
      * split; [apply win_frame_same; reflexivity | ]. intros n. unfold sp_reads. cbn [snd]. rewrite Hin, Hin2, diff_same, list_eqb_refl. reflexivity.
Qed.

(* ------------------------------------------------------------------ consequences, as stated in Props/C16.v *)
Lemma run_safe e c s : wf_env e -> wf_call c -> LI e (s_log s) ->
  LI e (s_log (snd (run e c s))) /\
  (fst (run e c s) = Panic \/ exists r, fst (run e c s) = Ok r).
Proof.
  intros W Hc L. destruct (run_spec c e s W Hc L) as (L1 & _ & R1). split; auto.
  destruct (fst (run e c s)); try contradiction; eauto.
Qed.

Lemma run_panic_untouched e c s : wf_env e -> wf_call c -> LI e (s_log s) ->
  fst (run e c s) = Panic -> s_mem (snd (run e c s)) = s_mem s.
Proof.
  intros W Hc L HP. destruct (run_spec c e s W Hc L) as (_ & _ & R1). rewrite HP in R1. exact R1.
Qed.

(* only bytes of the buffer the call was applied to can change: in particular nothing outside the root region *)
Lemma run_frame e c s : wf_env e -> wf_call c -> LI e (s_log s) ->
  forall i, ~ (e_base e <= i < e_base e + e_cap e) -> s_mem (snd (run e c s)) i = s_mem s i.
Proof. intros W Hc L. destruct (run_spec c e s W Hc L) as (_ & F & _). exact F. Qed.

Lemma root_env_wf m rcap scap : size32 rcap -> size32 scap -> wf_env (root_env m rcap scap).
Proof.
  intros Hr Hs. constructor; cbn; try apply size32_i32; auto; unfold size32 in *; lia.
Qed.

Lemma touched_inside m rcap scap p w c : size32 rcap -> size32 scap -> wf_call c ->
  log_inside rcap scap (touched m rcap scap p w c).
Proof.
  intros Hr Hs Hc. unfold touched.
  apply (run_safe (root_env m rcap scap) c (mkSt (planted p w) []) (root_env_wf m rcap scap Hr Hs) Hc).
  constructor.
Qed.

Lemma oracle_model m rcap scap p w c : size32 rcap -> size32 scap -> wf_call c ->
  holds_call rcap scap p w c (observe m rcap scap p w c) = true.
Proof.
  intros Hr Hs Hc. unfold observe, holds_call.
  pose proof (run_spec c (root_env m rcap scap) (mkSt (planted p w) []) (root_env_wf m rcap scap Hr Hs) Hc
                ltac:(constructor)) as (_ & _ & R).
  destruct (run (root_env m rcap scap) c (mkSt (planted p w) [])) as [r s1]. cbn [fst snd s_mem] in *.
  cbn [no_change andb].
  destruct r; try contradiction.
  - apply R.
  - rewrite R. rewrite diff_same. reflexivity.
Qed.

Lemma oracle_batch_model m rcap scap cs : size32 rcap -> size32 scap ->
  Forall (fun x => wf_call (snd x)) cs ->
  holds_batch rcap scap cs (observe_batch m rcap scap cs) = true.
Proof.
  intros Hr Hs. induction 1 as [ | [[p w] c] cs Hc _ IH]; cbn; auto.
  rewrite oracle_model; auto.
Qed.

(* no accepted call wraps: offset + length stays below 2^31 *)
Lemma guard_no_wrap m cap idx len : 0 <= cap -> i32 cap -> i32 idx -> i32 len ->
  bounds_ok m cap idx len = Ok true -> idx + len < two31.
Proof.
  intros H0 Hc Hi Hl H. pose proof (bounds_ok_sound m cap idx len H0 Hc Hi Hl H).
  unfold i32, in_i32, two31 in *. lia.
Qed.

(* why wf_call restricts slices to less than 2^31 bytes while an accessor converts the length with `as Index`:
   the cast truncates, the check sees 4, and 2^32 + 4 bytes are copied.  With the checked conversion the same call
   is a panic that touches nothing. *)
Ltac by_form m H := destruct m; revert H; vm_compute; intro H; first [discriminate H | reflexivity].

Lemma long_slice_escapes m : gen_chk_put_bytes = false ->
  touched m 16 8 0 0 (CPutBytes 0 (two32 + 4)) = [(0, 0, two32 + 4)] /\
  fst (fst (observe m 16 8 0 0 (CPutBytes 0 (two32 + 4)))) = Crash /\
  ~ log_inside 16 8 (touched m 16 8 0 0 (CPutBytes 0 (two32 + 4))).
Proof.
  intros Hf.
  assert (T : touched m 16 8 0 0 (CPutBytes 0 (two32 + 4)) = [(0, 0, two32 + 4)]) by by_form m Hf.
  split; [exact T | split; [by_form m Hf | ]].
  rewrite T. intros H. inversion H as [ | ? ? Hr _]. vm_compute in Hr. discriminate.
Qed.

Lemma long_slice_rejected m : gen_chk_put_bytes = true ->
  observe m 16 8 (-1000000) 0 (CPutBytes 0 (two32 + 4)) = (Panic, [], []) /\
  touched m 16 8 (-1000000) 0 (CPutBytes 0 (two32 + 4)) = [].
Proof. intros Hf. split; by_form m Hf. Qed.
