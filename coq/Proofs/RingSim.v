(* After the store of a padding header the model's slot list still holds the swept claims one by one (the head
   slot with the padding header, then blank slots), whereas the invariant is stated for the description in which
   they are one padding slot (C07_after, C07_conc_step).  The two descriptions behave identically: every step of
   every thread that is still running emits the same event and leads to descriptions related in the same way, or
   to identical rings once the consumer has read past the padding (`sim_step`).  Hence *every* configuration
   reachable by any schedule of the live threads - any number of unblock() calls, successful or not, interleaved
   with survivors inside write - has the same memory, counters and thread states as a configuration that satisfies
   XInv (`xstep_inv'`, `xreach_all_inv`), provided each padding store covers only dead producers' uncommitted claims. *)
Require Import V.Base.MachineInt.
Require Import V.Generated.GenConsts.
Require Import V.Model.LogBase.
Require Import V.Model.Ring.
Require Import V.Model.RingThreads.
Require Import V.Model.RingAgent.
Require Import V.Spec.Fifo.
Require Import V.Proofs.RingArith.
Require Import V.Proofs.RingSeq.
Require Import V.Proofs.RingRender.
Require Import V.Proofs.RingSeqRun.
Require Import V.Proofs.RingConc.
Require Import V.Proofs.RingConcThm.
Require Import V.Proofs.RingUnblock.
Require Import V.Proofs.RingSweep.
Require Import V.Proofs.RingTrace.
Require Import V.Proofs.RingQuiet.
Require Import V.Proofs.RingAgentInv.
From Coq Require Import ZifyBool Lia.
Open Scope Z_scope.

(* steps that do not look at the slots commute with replacing the slot list *)
Lemma pstep_noslots m R sl tid ps :
  match p_pc ps with PPadHdr _ _ | PHdr _ | PCopy _ | PCommit _ => False | _ => True end ->
  (forall hd tl pd, p_pc ps = PCas hd tl pd -> r_tail R <> tl) ->
  pstep m (set_slots R sl) tid ps =
  let '(R', ps', oe) := pstep m R tid ps in (set_slots R' sl, ps', oe).
Proof. intros Hpc Hcas. unfold pstep. cbn [set_slots r_cap r_hc r_tail r_head r_slots].
  destruct (p_pc ps) eqn:Epc; try contradiction; destruct (cur m ps) as [[[[typ body] rl] rq] |]; try reflexivity.
  - destruct (lacks m (r_cap R) rq (r_tail R) hd) as [[|] | | | |]; reflexivity.
  - destruct (lacks m (r_cap R) rq tl (r_head R)) as [[|] | | | |]; reflexivity.
  - destruct (lacks_front (r_cap R) rq (r_head R)); reflexivity.
  - destruct (wrap_needed m (r_cap R) rq tl) as [[pd |] | | | |]; reflexivity.
  - destruct (new_tail m tl rq padding) as [t2 | | | |]; try reflexivity.
    replace (r_tail R =? tl) with false by (specialize (Hcas hd tl padding eq_refl); lia). reflexivity.
Qed.

(* the two descriptions of the region [h, e): `front` = the slots as the model holds them, `pad` = one padding slot *)
Record two_views (cp h e : Z) (front : list slot) (pad : slot) : Prop := mkViews {
  tv_in : Forall (fun s => h <= s_pos s /\ s_pos s + s_span s <= e /\ 0 < s_span s) front;
  tv_pad : s_pos pad = h /\ s_pos pad + s_span pad = e /\ 8 <= s_span pad;
  tv_hdr : pos_word front h = s_len pad /\ pos_word front (h + 4) = s_type pad;
  tv_render : flat_map (render_slot cp) front = render_slot cp pad
}.

Lemma find_slot_app_skip front suffix q e : Forall (fun s => s_pos s + s_span s <= e) front -> e <= q ->
  find_slot (front ++ suffix) q = find_slot suffix q.
Proof. intros F Hq. induction F as [| s front Hs F IH]; cbn [app find_slot]; [reflexivity |].
  replace ((s_pos s <=? q) && (q <? s_pos s + s_span s)) with false by lia. exact IH. Qed.

Lemma find_slot_app_in front suffix q e h : Forall (fun s => h <= s_pos s /\ s_pos s + s_span s <= e /\ 0 < s_span s) front ->
  Forall (fun s => e <= s_pos s) suffix -> h <= q < e -> find_slot (front ++ suffix) q = find_slot front q.
Proof. intros F Fs Hq. induction F as [| s front Hs F IH]; cbn [app find_slot].
  - induction Fs as [| x sf Hx Fs IHs]; cbn [find_slot]; [reflexivity |].
    replace ((s_pos x <=? q) && (q <? s_pos x + s_span x)) with false by lia. exact IHs.
  - destruct ((s_pos s <=? q) && (q <? s_pos s + s_span s)); [reflexivity | exact IH]. Qed.

Lemma upd_slot_app_skip front suffix p f e : Forall (fun s => s_pos s + s_span s <= e /\ 0 < s_span s) front -> e <= p ->
  upd_slot (front ++ suffix) p f = front ++ upd_slot suffix p f.
Proof. intros F Hp. induction F as [| s front (Hs & Hs0) F IH]; cbn [app upd_slot]; [reflexivity |].
  replace (s_pos s =? p) with false by lia. f_equal. exact IH. Qed.

Section Views.
Variables (cp h e : Z) (front : list slot) (pad : slot) (suffix : list slot).
Hypothesis V : two_views cp h e front pad.
Hypothesis Hsuf : Forall (fun s => e <= s_pos s) suffix.

Lemma tv_front_le : Forall (fun s => s_pos s + s_span s <= e) front.
Proof. eapply Forall_impl; [| exact (tv_in _ _ _ _ _ V)]. cbn. intros a (_ & A & _). exact A. Qed.
Lemma tv_front_le' : Forall (fun s => s_pos s + s_span s <= e /\ 0 < s_span s) front.
Proof. eapply Forall_impl; [| exact (tv_in _ _ _ _ _ V)]. cbn. intros a (_ & A & B). auto. Qed.

Lemma views_find q : e <= q -> find_slot (front ++ suffix) q = find_slot (pad :: suffix) q.
Proof. intros Hq. rewrite (find_slot_app_skip _ _ _ e tv_front_le Hq). cbn [find_slot].
  destruct (tv_pad _ _ _ _ _ V) as (A & B & C). replace ((s_pos pad <=? q) && (q <? s_pos pad + s_span pad)) with false by lia. reflexivity. Qed.

Lemma views_pos_word q : e <= q -> pos_word (front ++ suffix) q = pos_word (pad :: suffix) q.
Proof. intros Hq. unfold pos_word. rewrite (views_find q Hq). reflexivity. Qed.
Lemma views_hdr64 q : e <= q -> hdr64 (front ++ suffix) q = hdr64 (pad :: suffix) q.
Proof. intros Hq. unfold hdr64. rewrite (views_pos_word q Hq), (views_pos_word (q + 4) ltac:(lia)). reflexivity. Qed.
Lemma views_pos_bytes q n : e <= q -> pos_bytes (front ++ suffix) q n = pos_bytes (pad :: suffix) q n.
Proof. intros Hq. unfold pos_bytes. rewrite (views_find q Hq). reflexivity. Qed.
Lemma views_tag_at q : e <= q -> tag_at (front ++ suffix) q = tag_at (pad :: suffix) q.
Proof. intros Hq. unfold tag_at. rewrite (views_find q Hq). reflexivity. Qed.

Lemma views_upd p f : e <= p -> upd_slot (front ++ suffix) p f = front ++ upd_slot suffix p f /\
                                  upd_slot (pad :: suffix) p f = pad :: upd_slot suffix p f.
Proof. intros Hp. split; [apply (upd_slot_app_skip _ _ _ _ e tv_front_le' Hp) |].
  cbn [upd_slot]. destruct (tv_pad _ _ _ _ _ V) as (A & B & C). replace (s_pos pad =? p) with false by lia. reflexivity. Qed.

Lemma views_head_words : pos_word (front ++ suffix) h = pos_word (pad :: suffix) h /\
                         pos_word (front ++ suffix) (h + 4) = pos_word (pad :: suffix) (h + 4).
Proof. destruct (tv_hdr _ _ _ _ _ V) as (A & B). destruct (tv_pad _ _ _ _ _ V) as (Pp & Pe & Ps).
  assert (F : forall q, h <= q < e -> pos_word (front ++ suffix) q = pos_word front q).
  { intros q Hq. unfold pos_word. rewrite (find_slot_app_in _ _ q e h (tv_in _ _ _ _ _ V) Hsuf Hq). reflexivity. }
  rewrite (F h ltac:(lia)), (F (h + 4) ltac:(lia)), A, B.
  unfold pos_word. cbn [find_slot].
  replace ((s_pos pad <=? h) && (h <? s_pos pad + s_span pad)) with true by lia.
  replace ((s_pos pad <=? h + 4) && (h + 4 <? s_pos pad + s_span pad)) with true by lia.
  unfold slot_word. replace (h - s_pos pad) with 0 by lia. replace (h + 4 - s_pos pad) with 4 by lia. split; reflexivity. Qed.

(* consuming at least the region removes it from both descriptions *)
Lemma views_filter b : e <= h + b ->
  filter (fun s => negb (consumed h b s)) (front ++ suffix) = filter (fun s => negb (consumed h b s)) (pad :: suffix).
Proof. intros Hb. rewrite filter_app. cbn [filter]. destruct (tv_pad _ _ _ _ _ V) as (Pp & Pe & Ps).
  assert (E1 : negb (consumed h b pad) = false) by (unfold consumed; lia). rewrite E1.
  assert (E2 : filter (fun s => negb (consumed h b s)) front = []).
  { pose proof (tv_in _ _ _ _ _ V) as F. clear V. induction F as [| s fr (A & B & C) F IH]; cbn [filter]; [reflexivity |].
    assert (E3 : negb (consumed h b s) = false) by (unfold consumed; lia). rewrite E3. exact IH. }
  rewrite E2. reflexivity. Qed.

Lemma views_render R : r_cap R = cp ->
  render (set_slots R (front ++ suffix)) = render (set_slots R (pad :: suffix)).
Proof. intros Ec. unfold render. cbn [set_slots r_slots r_cap flat_map]. rewrite Ec. rewrite flat_map_app, (tv_render _ _ _ _ _ V). reflexivity. Qed.

(* appending new claims keeps the two descriptions related *)
Lemma views_app new : Forall (fun s => e <= s_pos s) new -> Forall (fun s => e <= s_pos s) (suffix ++ new).
Proof. intros F. apply Forall_app. split; assumption. Qed.
End Views.

Lemma set_slots_id R : set_slots R (r_slots R) = R.
Proof. destruct R; reflexivity. Qed.
Lemma set_slots_twice R a b : set_slots (set_slots R a) b = set_slots R b.
Proof. reflexivity. Qed.

Section Sim.
Variable lo : Z.
Variable dead : nat -> Prop.

Definition view (cp h : Z) (slu sld : list slot) : Prop :=
  slu = sld \/
  exists e front pad suffix, slu = front ++ suffix /\ sld = pad :: suffix /\ two_views cp h e front pad /\
     Forall (fun s => e <= s_pos s) suffix /\ 0 < s_len pad /\ s_seq pad < 0 /\ owner_dead dead pad.

(* ---- producers ---- *)
Lemma pstep_sim m Rd slu i ps Ru' ps' e prods cs :
  Inv lo (mkCfg Rd cs prods) -> nth_error prods i = Some ps ->
  view (r_cap Rd) (r_head Rd) slu (r_slots Rd) ->
  pstep m (set_slots Rd slu) (Z.of_nat (S i)) ps = (Ru', ps', Some e) ->
  exists Rd', pstep m Rd (Z.of_nat (S i)) ps = (Rd', ps', Some e) /\
    Ru' = set_slots Rd' (r_slots Ru') /\ view (r_cap Rd') (r_head Rd') (r_slots Ru') (r_slots Rd').
Proof.
  intros HI Hi Hv Hu.
  destruct Hv as [-> | (e0 & front & pad & suffix & Eu & Ed & V & Hsuf & Hlen & Hseq & Hdead)].
  { rewrite set_slots_id in Hu. exists Ru'. split; [exact Hu |]. split; [symmetry; apply set_slots_id | left; reflexivity]. }
  destruct (pstep m Rd (Z.of_nat (S i)) ps) as [[Rd' psd] oed] eqn:Ed'.
  (* the slots this producer may touch lie behind the region *)
  assert (Hbehind : forall s, In s (expect (Z.of_nat (S i)) ps) -> e0 <= s_pos s).
  { intros s Hs. destruct (i_prods _ _ HI i ps Hi) as (_ & _ & Pex). cbn [g_ring] in Pex. specialize (Pex s Hs). rewrite Ed in Pex.
    destruct Pex as [<- | Hin]; [destruct (expect_owner _ _ _ Hs); lia |]. rewrite Forall_forall in Hsuf. exact (Hsuf s Hin). }
  pose proof (i_prods _ _ HI i ps Hi) as (Pc & _ & _). cbn [g_ring] in Pc. unfold pc_ok in Pc.
  destruct (p_pc ps) eqn:Epc; try contradiction;
    try (destruct Pc as (typ & body & Aw & Pc); cbn zeta in Pc; pose proof Aw as (Aw1 & _)).
  - (* PDone *) unfold pstep in Hu. rewrite Epc in Hu. inversion Hu.
  - (* PReadHC *)
    rewrite pstep_noslots in Hu by (first [rewrite Epc; exact I | intros; congruence]). rewrite Ed' in Hu. inversion Hu; subst.
    exists Rd'. split; [reflexivity |]. cbn [set_slots r_slots]. split; [reflexivity |].
    unfold pstep in Ed'. rewrite Epc in Ed'. destruct (cur m ps); inversion Ed'; subst; right; exists e0, front, pad, suffix; auto 10.
  - rewrite pstep_noslots in Hu by (first [rewrite Epc; exact I | intros; congruence]). rewrite Ed' in Hu. inversion Hu; subst.
    exists Rd'. split; [reflexivity |]. cbn [set_slots r_slots]. split; [reflexivity |].
    unfold pstep in Ed'. rewrite Epc in Ed'. destruct (cur m ps) as [[[[t b] rl] rq] |]; [| inversion Ed'; subst; right; exists e0, front, pad, suffix; auto 10].
    destruct (lacks m (r_cap Rd) rq (r_tail Rd) hd) as [[|] | | | |]; inversion Ed'; subst; right; exists e0, front, pad, suffix; auto 10.
  - rewrite pstep_noslots in Hu by (first [rewrite Epc; exact I | intros; congruence]). rewrite Ed' in Hu. inversion Hu; subst.
    exists Rd'. split; [reflexivity |]. cbn [set_slots r_slots]. split; [reflexivity |].
    unfold pstep in Ed'. rewrite Epc in Ed'. destruct (cur m ps) as [[[[t b] rl] rq] |]; [| inversion Ed'; subst; right; exists e0, front, pad, suffix; auto 10].
    destruct (lacks m (r_cap Rd) rq tl (r_head Rd)) as [[|] | | | |]; inversion Ed'; subst; right; exists e0, front, pad, suffix; auto 10.
  - rewrite pstep_noslots in Hu by (first [rewrite Epc; exact I | intros; congruence]). rewrite Ed' in Hu. inversion Hu; subst.
    exists Rd'. split; [reflexivity |]. cbn [set_slots r_slots]. split; [reflexivity |].
    unfold pstep in Ed'. rewrite Epc in Ed'. destruct (cur m ps) as [[[[t b] rl] rq] |]; inversion Ed'; subst; right; exists e0, front, pad, suffix; auto 10.
  - rewrite pstep_noslots in Hu by (first [rewrite Epc; exact I | intros; congruence]). rewrite Ed' in Hu. inversion Hu; subst.
    exists Rd'. split; [reflexivity |]. cbn [set_slots r_slots]. split; [reflexivity |].
    unfold pstep in Ed'. rewrite Epc in Ed'. destruct (cur m ps) as [[[[t b] rl] rq] |]; [| inversion Ed'; subst; right; exists e0, front, pad, suffix; auto 10].
    destruct (lacks_front (r_cap Rd) rq (r_head Rd)); inversion Ed'; subst; right; exists e0, front, pad, suffix; auto 10.
  - rewrite pstep_noslots in Hu by (first [rewrite Epc; exact I | intros; congruence]). rewrite Ed' in Hu. inversion Hu; subst.
    exists Rd'. split; [reflexivity |]. cbn [set_slots r_slots]. split; [reflexivity |].
    unfold pstep in Ed'. rewrite Epc in Ed'. destruct (cur m ps) as [[[[t b] rl] rq] |]; [| inversion Ed'; subst; right; exists e0, front, pad, suffix; auto 10].
    destruct (wrap_needed m (r_cap Rd) rq tl) as [[pd |] | | | |]; inversion Ed'; subst; right; exists e0, front, pad, suffix; auto 10.
  - (* PCas *)
    pose proof Ed' as Ed''. unfold pstep in Hu, Ed'. rewrite Epc in Hu, Ed'. cbn [set_slots r_cap r_tail r_slots] in Hu.
    destruct (cur m ps) as [[[[t b] rl] rq] |]; [| inversion Hu].
    destruct (new_tail m tl rq padding) as [t2 | | | |]; try (inversion Hu; fail).
    destruct (r_tail Rd =? tl) eqn:Et; inversion Hu; subst; inversion Ed'; subst.
    + eexists. split; [reflexivity |]. cbn [set_slots set_tail r_slots r_cap r_head]. split; [reflexivity |].
      right. exists e0, front, pad, (suffix ++ claim_slots tl padding rq (Z.of_nat (S i)) (Z.of_nat (p_k ps))).
      rewrite Ed. split; [rewrite app_assoc; reflexivity |]. split; [reflexivity |]. split; [exact V |].
      split; [| auto]. apply Forall_app. split; [exact Hsuf |].
      (* the new claim starts at the tail, behind everything *)
      pose proof (i_tiled _ _ HI) as T. cbn [g_ring] in T. rewrite Ed in T. inversion T as [| h0 t0 s0 sl0 Hp0 G0 T0]; subst.
      pose proof (tiled_le _ _ _ _ T0) as Hle. destruct (tv_pad _ _ _ _ _ V) as (Pp & Pe & Ps).
      assert (e0 <= r_tail Rd) by lia.
      destruct Pc as (_ & _ & _ & Ppd & _). assert (0 <= padding) by (subst padding; unfold pad_of; pose proof (mod_range (r_cap Rd) tl (i_cap _ _ HI)); destruct (rq_of body >? r_cap Rd - tl mod r_cap Rd); lia).
      unfold claim_slots. destruct (padding =? 0); repeat constructor; cbn [s_pos]; lia.
    + eexists. split; [reflexivity |]. cbn [set_slots r_slots]. split; [reflexivity |]. right. exists e0, front, pad, suffix. auto 10.
  - (* PPadHdr *)
    pose proof Ed' as Ed''. unfold pstep in Hu, Ed'. rewrite Epc in Hu, Ed'. cbn [set_slots r_cap r_slots] in Hu.
    destruct (cur m ps) as [[[[t b] rl] rq] |]; [| inversion Hu]. inversion Hu; subst; inversion Ed'; subst.
    assert (Hp : e0 <= tl). { apply (Hbehind (mkSlot tl padding 0 0 [] (Z.of_nat (S i)) (- 1 - Z.of_nat (p_k ps)))). unfold expect. rewrite Aw1, Epc. left. reflexivity. }
    destruct (views_upd _ _ _ _ _ suffix V tl (set_hdr padding PAD) Hp) as (U1 & U2).
    eexists. split; [rewrite (views_hdr64 _ _ _ _ _ suffix V tl Hp), <- Ed; reflexivity |].
    cbn [set_slots r_slots r_cap r_head]. split; [reflexivity |]. right.
    exists e0, front, pad, (upd_slot suffix tl (set_hdr padding PAD)). unfold put_hdr. rewrite Ed, U1, U2.
    split; [reflexivity |]. split; [reflexivity |]. split; [exact V |]. split; [| auto].
    clear - Hsuf. induction Hsuf as [| x sf Hx F IH]; cbn [upd_slot]; [constructor |]. destruct (s_pos x =? tl); constructor; auto.
  - (* PHdr *)
    pose proof Ed' as Ed''. unfold pstep in Hu, Ed'. rewrite Epc in Hu, Ed'. cbn [set_slots r_cap r_slots] in Hu.
    destruct (cur m ps) as [[[[t b] rl] rq] |] eqn:Ecur; [| inversion Hu]. inversion Hu; subst; inversion Ed'; subst.
    assert (Hp : e0 <= p). { apply (Hbehind (mkSlot p (rq_of body) 0 0 [] (Z.of_nat (S i)) (Z.of_nat (p_k ps)))). unfold expect. rewrite Aw1, Epc. left. reflexivity. }
    destruct (views_upd _ _ _ _ _ suffix V p (set_hdr (- rl) t) Hp) as (U1 & U2).
    eexists. split; [rewrite (views_hdr64 _ _ _ _ _ suffix V p Hp), <- Ed; reflexivity |].
    cbn [set_slots r_slots r_cap r_head]. split; [reflexivity |]. right.
    exists e0, front, pad, (upd_slot suffix p (set_hdr (- rl) t)). unfold put_hdr. rewrite Ed, U1, U2.
    split; [reflexivity |]. split; [reflexivity |]. split; [exact V |]. split; [| auto].
    clear - Hsuf. induction Hsuf as [| x sf Hx F IH]; cbn [upd_slot]; [constructor |]. destruct (s_pos x =? p); constructor; auto.
  - (* PCopy *)
    pose proof Ed' as Ed''. unfold pstep in Hu, Ed'. rewrite Epc in Hu, Ed'. cbn [set_slots r_cap r_slots] in Hu.
    destruct (cur m ps) as [[[[t b] rl] rq] |] eqn:Ecur; [| inversion Hu]. inversion Hu; subst; inversion Ed'; subst.
    assert (Hp : e0 <= p). { apply (Hbehind (mkSlot p (rq_of body) (- rl_of body) typ [] (Z.of_nat (S i)) (Z.of_nat (p_k ps)))). unfold expect. rewrite Aw1, Epc. left. reflexivity. }
    destruct (views_upd _ _ _ _ _ suffix V p (set_body b) Hp) as (U1 & U2).
    eexists. split; [reflexivity |].
    cbn [set_slots r_slots r_cap r_head]. split; [reflexivity |]. right.
    exists e0, front, pad, (upd_slot suffix p (set_body b)). rewrite Ed, U1, U2.
    split; [reflexivity |]. split; [reflexivity |]. split; [exact V |]. split; [| auto].
    clear - Hsuf. induction Hsuf as [| x sf Hx F IH]; cbn [upd_slot]; [constructor |]. destruct (s_pos x =? p); constructor; auto.
  - (* PCommit *)
    pose proof Ed' as Ed''. unfold pstep in Hu, Ed'. rewrite Epc in Hu, Ed'. cbn [set_slots r_cap r_slots] in Hu.
    destruct (cur m ps) as [[[[t b] rl] rq] |] eqn:Ecur; [| inversion Hu]. inversion Hu; subst; inversion Ed'; subst.
    assert (Hp : e0 <= p). { apply (Hbehind (mkSlot p (rq_of body) (- rl_of body) typ body (Z.of_nat (S i)) (Z.of_nat (p_k ps)))). unfold expect. rewrite Aw1, Epc. left. reflexivity. }
    destruct (views_upd _ _ _ _ _ suffix V p (set_len rl) Hp) as (U1 & U2).
    eexists. split; [rewrite (views_pos_word _ _ _ _ _ suffix V p Hp), <- Ed; reflexivity |].
    cbn [set_slots r_slots r_cap r_head]. split; [reflexivity |]. right.
    exists e0, front, pad, (upd_slot suffix p (set_len rl)). rewrite Ed, U1, U2.
    split; [reflexivity |]. split; [reflexivity |]. split; [exact V |]. split; [| auto].
    clear - Hsuf. induction Hsuf as [| x sf Hx F IH]; cbn [upd_slot]; [constructor |]. destruct (s_pos x =? p); constructor; auto.
Qed.
End Sim.

Section Sim2.
Variable lo : Z.
Variable dead : nat -> Prop.

Lemma cstep_sim m Rd slu cs Ru' cs' e prods :
  Inv lo (mkCfg Rd cs prods) -> view dead (r_cap Rd) (r_head Rd) slu (r_slots Rd) ->
  cstep m (set_slots Rd slu) cs = (Ru', cs', Some e) ->
  exists Rd', cstep m Rd cs = (Rd', cs', Some e) /\
    Ru' = set_slots Rd' (r_slots Ru') /\ view dead (r_cap Rd') (r_head Rd') (r_slots Ru') (r_slots Rd').
Proof.
  intros HI Hv Hu.
  destruct Hv as [-> | (e0 & front & pad & suffix & Eu & Ed & V & Hsuf & Hlen & Hseq & Hdead)].
  { rewrite set_slots_id in Hu. exists Ru'. split; [exact Hu |]. split; [symmetry; apply set_slots_id | left; reflexivity]. }
  pose proof (i_cons _ _ HI) as Ics. cbn [g_ring g_cons g_prods] in Ics. unfold cons_ok in Ics.
  pose proof (i_tiled _ _ HI) as T. cbn [g_ring g_cons] in T.
  destruct (tv_pad _ _ _ _ _ V) as (Pp & Pe & Ps).
  assert (KEEP : forall R1, view dead (r_cap R1) (r_head R1) slu (r_slots R1) -> R1 = Rd ->
            set_slots Rd slu = set_slots R1 (r_slots (set_slots Rd slu)) /\ view dead (r_cap R1) (r_head R1) (r_slots (set_slots Rd slu)) (r_slots R1)).
  { intros R1 Hv1 ->. split; [reflexivity | exact Hv1]. }
  assert (Hv0 : view dead (r_cap Rd) (r_head Rd) slu (r_slots Rd)).
  { right. exists e0, front, pad, suffix. auto 10. }
  unfold cstep in Hu |- *. cbn [set_slots r_cap r_head r_slots] in Hu.
  destruct (c_pc cs) eqn:Epc; try (inversion Hu; fail); try contradiction.
  - (* CReadHead *)
    destruct (nth_error (c_limits cs) (c_k cs)) as [limit |]; [| inversion Hu]. inversion Hu; subst.
    exists Rd. split; [reflexivity |]. apply KEEP; auto.
  - (* CReadHdr *)
    destruct Ics as ((limit & El) & Ehd & used & ((rest & Es) & Uc & Us) & Eacc & Emsgs). rewrite El in Hu |- *. subst hd.
    assert (Hpos : bytes = 0 \/ e0 <= r_head Rd + bytes).
    { rewrite Ed in Es. destruct used as [| x u]; [left; cbn in Us; lia | right]. cbn [app] in Es. inversion Es; subst x.
      assert (Hh : head' Rd cs = r_head Rd) by (unfold head'; rewrite Epc; reflexivity). rewrite Hh, Ed in T.
      rewrite H1 in T. change (pad :: u ++ rest) with ((pad :: u) ++ rest) in T.
      destruct (tiled_split_sum _ _ _ _ _ T) as (Tu & _). inversion Tu as [| h0 t0 s0 sl0 Hp0 G0 T0]; subst.
      pose proof (span_sum_nonneg _ _ _ _ T0). cbn [span_sum] in *. lia. }
    assert (W : pos_word slu (r_head Rd + bytes) = pos_word (r_slots Rd) (r_head Rd + bytes) /\
                pos_word slu (r_head Rd + bytes + 4) = pos_word (r_slots Rd) (r_head Rd + bytes + 4)).
    { rewrite Eu, Ed. destruct Hpos as [-> | Hge].
      - rewrite Z.add_0_r. apply (views_head_words _ _ _ _ _ suffix V Hsuf).
      - split; apply (views_pos_word _ _ _ _ _ suffix V); lia. }
    destruct W as (W1 & W2). rewrite W1, W2 in Hu.
    destruct (pos_word (r_slots Rd) (r_head Rd + bytes) <=? 0); [inversion Hu; subst; exists Rd; split; [reflexivity | apply KEEP; auto] |].
    destruct (al <- ralign m (pos_word (r_slots Rd) (r_head Rd + bytes));; add32 m bytes al) as [b' | | | |];
      try (inversion Hu; subst; exists Rd; split; [reflexivity | apply KEEP; auto]; fail).
    destruct (pos_word (r_slots Rd) (r_head Rd + bytes + 4) =? PAD); [inversion Hu; subst; exists Rd; split; [reflexivity | apply KEEP; auto] |].
    destruct (valid_cmd (pos_word (r_slots Rd) (r_head Rd + bytes + 4))); [| inversion Hu; subst; exists Rd; split; [reflexivity | apply KEEP; auto]].
    destruct (add32 m msgs 1); inversion Hu; subst; exists Rd; (split; [reflexivity | apply KEEP; auto]).
  - (* CHandler *)
    destruct Ics as ((limit & El) & Ehd & used & s & ((rest & Es) & Uc & Us) & Eacc & Emsgs & Hp & Hlen' & Hty & Hrec). rewrite El in Hu |- *. subst hd.
    assert (Hpe : e0 <= p).
    { assert (Hin : In s (r_slots Rd)) by (rewrite Es; apply in_or_app; left; apply in_or_app; right; left; reflexivity).
      rewrite Ed in Hin. destruct Hin as [<- | Hin]; [unfold is_rec in Hrec; lia |]. rewrite Forall_forall in Hsuf. rewrite <- Hp. exact (Hsuf s Hin). }
    assert (W1 : tag_at slu p = tag_at (r_slots Rd) p) by (rewrite Eu, Ed; apply (views_tag_at _ _ _ _ _ suffix V); exact Hpe).
    assert (W2 : pos_bytes slu (p + HL) (len - HL) = pos_bytes (r_slots Rd) (p + HL) (len - HL)).
    { rewrite Eu, Ed. apply (views_pos_bytes _ _ _ _ _ suffix V). rewrite HL_eq. lia. }
    rewrite W1, W2 in Hu. destruct (tag_at (r_slots Rd) p) as [ow sq]. inversion Hu; subst. exists Rd. split; [reflexivity | apply KEEP; auto].
  - (* CZero: the region is consumed in both descriptions *)
    destruct Ics as ((limit & El) & Ehd & Hb & used & ((rest & Es) & Uc & Us) & Eacc). rewrite El in Hu |- *. subst hd.
    assert (Hge : e0 <= r_head Rd + bytes).
    { rewrite Ed in Es. destruct used as [| x u]; [cbn in Us; lia |]. cbn [app] in Es. inversion Es; subst x.
      assert (Hh : head' Rd cs = r_head Rd) by (unfold head'; rewrite Epc; reflexivity). rewrite Hh, Ed in T.
      rewrite H1 in T. change (pad :: u ++ rest) with ((pad :: u) ++ rest) in T.
      destruct (tiled_split_sum _ _ _ _ _ T) as (Tu & _). inversion Tu as [| h0 t0 s0 sl0 Hp0 G0 T0]; subst.
      pose proof (span_sum_nonneg _ _ _ _ T0). cbn [span_sum] in *. lia. }
    inversion Hu as [[E1 E2 E3]]; subst Ru' cs' e. eexists. split; [reflexivity |]. cbn [set_slots r_slots r_cap r_head].
    rewrite Eu, Ed. rewrite (views_filter _ _ _ _ _ suffix V bytes Hge). split; [reflexivity | left; reflexivity].
  - (* CPutHead: the padding is still in front, so nothing was zeroed yet - impossible *)
    exfalso. destruct Ics as (_ & Ehd & Hb). subst hd.
    assert (Hh : head' Rd cs = r_head Rd + bytes) by (unfold head'; rewrite Epc; reflexivity). rewrite Hh, Ed in T.
    inversion T; subst. lia.
Qed.
End Sim2.

Section Sim3.
Variable lo : Z.
Variable dead : nat -> Prop.

Lemma ustep_sim Rd slu u Ru' nxt e prods :
  Inv lo (qcfg Rd prods) -> unb_ok dead Rd u -> view dead (r_cap Rd) (r_head Rd) slu (r_slots Rd) ->
  ustep (set_slots Rd slu) u = (Ru', nxt, e) ->
  exists Rd', ustep Rd u = (Rd', nxt, e) /\
    Ru' = set_slots Rd' (r_slots Ru') /\ view dead (r_cap Rd') (r_head Rd') (r_slots Ru') (r_slots Rd').
Proof.
  intros HI HA Hv Hu.
  destruct Hv as [-> | (e0 & front & pad & suffix & Eu & Ed & V & Hsuf & Hlen & Hseq & Hdead)].
  { rewrite set_slots_id in Hu. exists Ru'. split; [exact Hu |]. split; [symmetry; apply set_slots_id | left; reflexivity]. }
  assert (Er : render (set_slots Rd slu) = render Rd).
  { rewrite Eu. rewrite (views_render _ _ _ _ _ suffix V Rd eq_refl). rewrite <- Ed. rewrite set_slots_id. reflexivity. }
  assert (Hv0 : view dead (r_cap Rd) (r_head Rd) slu (r_slots Rd)) by (right; exists e0, front, pad, suffix; auto 10).
  destruct (tv_pad _ _ _ _ _ V) as (Pp & Pe & Ps).
  destruct u as [| h | h tl | h limit i | h hit j | h L]; cbn [ustep] in Hu |- *; cbn [set_slots r_cap r_head r_tail r_slots] in Hu; try rewrite Er in Hu.
  - inversion Hu; subst. exists Rd. split; [reflexivity |]. split; [reflexivity | exact Hv0].
  - inversion Hu; subst. exists Rd. split; [reflexivity |]. split; [reflexivity | exact Hv0].
  - destruct (word_at (render Rd) (mask_idx (r_cap Rd) h) <? 0); [inversion Hu; subst; exists Rd; split; [reflexivity |]; split; [reflexivity | exact Hv0] |].
    destruct (word_at (render Rd) (mask_idx (r_cap Rd) h) =? 0); inversion Hu; subst; exists Rd; (split; [reflexivity |]; split; [reflexivity | exact Hv0]).
  - destruct (word_at (render Rd) i =? 0); [destruct (i + AL >=? limit) |]; inversion Hu; subst; exists Rd; (split; [reflexivity |]; split; [reflexivity | exact Hv0]).
  - destruct (word_at (render Rd) j =? 0); [destruct (j - AL >=? mask_idx (r_cap Rd) h) |]; inversion Hu; subst; exists Rd; (split; [reflexivity |]; split; [reflexivity | exact Hv0]).
  - (* the store: impossible while a padding is in front of the consumer *)
    exfalso. cbn [unb_ok] in HA. destruct HA as (-> & _ & HL & Hpre).
    assert (Hin : In pad (r_slots Rd)) by (rewrite Ed; left; reflexivity).
    destruct Hpre as [Hn | (_ & L8 & _ & Hsc & _)].
    + specialize (Hn pad Hin Pp Hdead). lia.
    + destruct (Hsc pad Hin ltac:(unfold idx; lia) Hdead) as (B & _). lia.
Qed.

(* ---- configurations ---- *)
Record sim (xu xd : aconfig) : Prop := mkSim {
  sm_agent : ag_agent xu = ag_agent xd;
  sm_ring : ag_ring xu = set_slots (ag_ring xd) (r_slots (ag_ring xu));
  sm_view : view dead (r_cap (ag_ring xd)) (r_head (ag_ring xd)) (r_slots (ag_ring xu)) (r_slots (ag_ring xd));
  sm_prods : forall i, nth_error (ag_prods xd) i = nth_error (ag_prods xu) i \/
                       (dead i /\ exists ps, nth_error (ag_prods xu) i = Some ps /\ nth_error (ag_prods xd) i = Some (set_pc ps PDone))
}.

Lemma sim_refl x : sim x x.
Proof. constructor; [reflexivity | symmetry; apply set_slots_id | left; reflexivity | intros; left; reflexivity]. Qed.

Theorem sim_step m xu xd tid xu' e :
  sim xu xd -> XInv lo dead xd -> xstep m xu tid = Some (xu', e) -> (forall i, tid = S i -> ~ dead i) ->
  exists xd', xstep m xd tid = Some (xd', e) /\ sim xu' xd'.
Proof.
  intros [Sa Sr Sv Sp] (HI & HA) Hs Hlive. unfold xstep in Hs |- *. destruct tid as [| i].
  - (* the agent *)
    rewrite <- Sa. rewrite Sr in Hs. unfold astep in Hs |- *. unfold cfg_of, cs_of in HI. unfold agent_ok in HA. rewrite <- Sa in HI, HA.
    destruct (a_mode (ag_agent xu)) as [| | cs | u] eqn:Em; try discriminate.
    + destruct (cstep m (set_slots (ag_ring xd) (r_slots (ag_ring xu))) cs) as [[R1 cs1] [ev1 |]] eqn:Ec; [| discriminate].
      destruct (cstep_sim lo dead m (ag_ring xd) _ cs R1 cs1 ev1 (ag_prods xd) HI Sv Ec) as (Rd1 & Ecd & Er1 & Ev1).
      rewrite Ecd.
      destruct (c_pc cs1); inversion Hs; subst xu' e; eexists; (split; [reflexivity |]); constructor; cbn [ag_ring ag_agent ag_prods]; auto.
    + destruct (ustep (set_slots (ag_ring xd) (r_slots (ag_ring xu))) u) as [[R1 nxt] ev1] eqn:Eu.
      assert (HIq : Inv lo (qcfg (ag_ring xd) (ag_prods xd))) by exact HI.
      destruct (ustep_sim (ag_ring xd) _ u R1 nxt ev1 (ag_prods xd) HIq HA Sv Eu) as (Rd1 & Eud & Er1 & Ev1).
      rewrite Eud.
      destruct nxt as [u' | b]; inversion Hs; subst xu' e; eexists; (split; [reflexivity |]); constructor; cbn [ag_ring ag_agent ag_prods]; auto.
  - (* a live producer *)
    destruct (nth_error (ag_prods xu) i) as [ps |] eqn:Ei; [| discriminate].
    assert (Eid : nth_error (ag_prods xd) i = Some ps).
    { destruct (Sp i) as [E | (Dd & _)]; [rewrite E; exact Ei | exfalso; exact (Hlive i eq_refl Dd)]. }
    rewrite Eid. rewrite Sr in Hs.
    destruct (pstep m (set_slots (ag_ring xd) (r_slots (ag_ring xu))) (Z.of_nat (S i)) ps) as [[R1 ps1] [ev1 |]] eqn:Ep; [| discriminate].
    destruct (pstep_sim lo dead m (ag_ring xd) _ i ps R1 ps1 ev1 (ag_prods xd) (cs_of (ag_agent xd)) HI Eid Sv Ep) as (Rd1 & Epd & Er1 & Ev1).
    rewrite Epd. inversion Hs; subst xu' e. eexists. split; [reflexivity |].
    constructor; cbn [ag_ring ag_agent ag_prods]; auto.
    intros j. destruct (Nat.eq_dec i j) as [<- | Hne].
    + left. rewrite (nth_set_nth_eq _ _ _ _ Ei), (nth_set_nth_eq _ _ _ _ Eid). reflexivity.
    + rewrite !nth_set_nth_neq by assumption. apply Sp.
Qed.
End Sim3.

Section Sim4.
Variable lo : Z.
Variable dead : nat -> Prop.

Lemma render_blank cp x : s_len x = 0 /\ s_type x = 0 /\ s_body x = [] -> render_slot cp x = [].
Proof. intros (A & B & C). unfold render_slot. rewrite A, B, C. reflexivity. Qed.

(* the store under put_safe, with the shape of the two descriptions *)
Lemma agent_put_shape R prods h L : Inv lo (qcfg R prods) -> unb_ok dead R (UPut h L) -> put_safe dead R h L ->
  exists s1 rest swept suffix pad,
    put_hdr (r_slots R) h L PAD = set_hdr L PAD s1 :: rest /\ pad_shape R s1 rest L swept suffix pad /\ 0 < L /\
    r_slots R = swept ++ suffix /\ Forall (fun s => s_len s <= 0 /\ owner_dead dead s) swept /\
    Inv lo (qcfg (set_slots R (pad :: suffix)) (retire swept prods)).
Proof.
  intros HI Hu Hsafe. destruct (put_facts lo dead R prods h L HI Hu Hsafe) as (s1 & rest & PF & Eput).
  destruct (after_pad_full lo (qcfg R prods) s1 rest L HI eq_refl (or_intror eq_refl) PF) as (swept & suffix & pad & Es & Hne & Hsw & Pt & Pp & Psp & Pq & (HI' & Er) & Sh).
  cbn [qcfg g_ring g_cons g_prods] in *. destruct Hu as (-> & _ & HL & _).
  exists s1, rest, swept, suffix, pad. split; [exact Eput |]. split; [exact Sh |]. split; [exact HL |]. split; [exact Es |]. split; [| exact HI'].
  apply Forall_forall. intros s Hs. rewrite Forall_forall in Hsw. destruct (Hsw s Hs) as (A & B). split; [exact A |].
  apply (Hsafe s); [rewrite Es; apply in_or_app; left; exact Hs | exact B]. Qed.

Lemma shape_view R s1 rest L swept suffix pad : cap_ok (r_cap R) -> 0 < L -> s_pos s1 = r_head R ->
  pad_shape R s1 rest L swept suffix pad -> Forall (fun s => owner_dead dead s) swept ->
  view dead (r_cap R) (r_head R) (set_hdr L PAD s1 :: rest) (pad :: suffix).
Proof.
  intros Hc HL Hp1 (pre & Esw & Erest & Hpre & Epad & Tsw & Tsuf) Hd.
  pose proof (align8_pos L HL) as HaL.
  right. exists (r_head R + align L 8), (set_hdr L PAD s1 :: pre), pad, suffix.
  split; [rewrite Erest; reflexivity |]. split; [reflexivity |].
  assert (Rg : Forall (fun s => r_head R <= s_pos s /\ s_pos s + s_span s <= r_head R + align L 8 /\ geo (r_cap R) s) swept) by (apply tiled_range; exact Tsw).
  rewrite Esw in Rg. inversion Rg as [| a l (A1 & A2 & G1) Rg']; subst a l.
  split; [| split; [| split; [| split]]].
  - constructor.
    + constructor; [cbn [set_hdr s_pos s_span]; destruct G1 as (_ & _ & ? & _); repeat split; lia |].
      eapply Forall_impl; [| exact Rg']. cbn. intros a (B1 & B2 & (_ & _ & ? & _)). repeat split; lia.
    + subst pad. cbn [s_pos s_span]. repeat split; lia.
    + subst pad. cbn [s_len s_type]. unfold pos_word. cbn [find_slot set_hdr s_pos s_span].
      destruct G1 as (_ & _ & Gs & _).
      replace ((s_pos s1 <=? r_head R) && (r_head R <? s_pos s1 + s_span s1)) with true by lia.
      replace ((s_pos s1 <=? r_head R + 4) && (r_head R + 4 <? s_pos s1 + s_span s1)) with true by lia.
      unfold slot_word. cbn [set_hdr s_pos s_len s_type]. replace (r_head R - s_pos s1) with 0 by lia. replace (r_head R + 4 - s_pos s1) with 4 by lia. split; reflexivity.
    + cbn [flat_map].
      assert (Epre : flat_map (render_slot (r_cap R)) pre = []).
      { clear - Hpre. induction Hpre as [| x pr Hx F IH]; cbn [flat_map]; [reflexivity |]. rewrite (render_blank _ _ Hx), IH. reflexivity. }
      rewrite Epre, app_nil_r. subst pad. unfold render_slot. cbn [set_hdr s_pos s_len s_type s_body]. rewrite Hp1. reflexivity.
  - pose proof (tiled_range _ _ _ _ Tsuf) as Rs. eapply Forall_impl; [| exact Rs]. cbn. intros a (B1 & _). exact B1.
  - subst pad. cbn [s_len]. exact HL.
  - subst pad. cbn [s_seq]. lia.
  - subst pad. rewrite Esw in Hd. inversion Hd as [| a l (j & Ej & Dj) _]; subst. exists j. cbn [s_owner]. auto.
Qed.

Definition XInv' (x : aconfig) : Prop := exists xd, sim dead x xd /\ XInv lo dead xd.

Lemma xinv'_of x : XInv lo dead x -> XInv' x.
Proof. intros H. exists x. split; [apply sim_refl | exact H]. Qed.

(* while a padding is in front of the consumer in the description, unblock is not at its store *)
Lemma put_collapsed x xd h L : sim dead x xd -> XInv lo dead xd -> a_mode (ag_agent x) = AUnblocking (UPut h L) ->
  ag_ring x = ag_ring xd.
Proof. intros [Sa Sr Sv Sp] (HI & HA) Em. destruct Sv as [E | (e0 & front & pad & suffix & Eu & Ed & V & Hsuf & Hlen & Hseq & Hdead)].
  - rewrite Sr, E. apply set_slots_id.
  - exfalso. unfold agent_ok in HA. rewrite <- Sa, Em in HA. cbn [unb_ok] in HA. destruct HA as (-> & _ & HL & Hpre).
    destruct (tv_pad _ _ _ _ _ V) as (Pp & Pe & Ps).
    assert (Hin : In pad (r_slots (ag_ring xd))) by (rewrite Ed; left; reflexivity).
    destruct Hpre as [Hn | (_ & L8 & _ & Hsc & _)].
    + specialize (Hn pad Hin Pp Hdead). lia.
    + destruct (Hsc pad Hin ltac:(unfold idx; lia) Hdead) as (B & _). lia. Qed.

Theorem xstep_inv' m x tid x' e :
  XInv' x -> xstep m x tid = Some (x', e) -> (forall i, tid = S i -> ~ dead i) -> in_xwindow x' ->
  (forall h L, a_mode (ag_agent x) = AUnblocking (UPut h L) -> tid = O -> put_safe dead (ag_ring x) h L) ->
  XInv' x'.
Proof.
  intros (xd & Hsim & HX) Hs Hlive Hw Hsafe.
  destruct (sim_step lo dead m x xd tid x' e Hsim HX Hs Hlive) as (xd' & Hsd & Hsim').
  assert (Hw' : in_xwindow xd').
  { unfold in_xwindow in *. destruct Hsim' as [_ Sr' _ _]. rewrite Sr' in Hw. exact Hw. }
  (* is this the store? *)
  destruct (a_mode (ag_agent x)) as [| | cs | [| h | h tl | h limit i | h hit j | h L]] eqn:Em;
    try (destruct (xstep_inv lo dead m xd tid xd' e HX Hsd Hlive Hw') as [OK | (h0 & L0 & _ & _ & _ & Em0 & _)];
         [intros h0 L0 Em0; destruct Hsim as [Sa _ _ _]; rewrite <- Sa, Em in Em0; discriminate
         | exists xd'; split; assumption
         | destruct Hsim as [Sa _ _ _]; rewrite <- Sa, Em in Em0; discriminate]).
  destruct tid as [| i].
  2: { destruct (xstep_inv lo dead m xd (S i) xd' e HX Hsd Hlive Hw') as [OK | (h0 & L0 & _ & _ & _ & _ & Et & _)]; [intros; discriminate | exists xd'; split; assumption | discriminate]. }
  (* the store: x and xd are the same ring *)
  pose proof (put_collapsed x xd h L Hsim HX Em) as Er.
  specialize (Hsafe h L eq_refl eq_refl). rewrite Er in Hsafe.
  destruct HX as (HI & HA). pose proof Hsim as [Sa Sr Sv Sp].
  unfold agent_ok in HA. rewrite <- Sa, Em in HA.
  assert (HIq : Inv lo (qcfg (ag_ring xd) (ag_prods xd))).
  { unfold cfg_of, cs_of in HI. rewrite <- Sa, Em in HI. exact HI. }
  destruct (agent_put_shape (ag_ring xd) (ag_prods xd) h L HIq HA Hsafe) as (s1 & rest & swept & suffix & pad & Eput & Sh & HL & Es & Hsw & HI').
  (* what the step does *)
  unfold xstep, astep in Hs. rewrite Em in Hs. cbn [ustep] in Hs. inversion Hs; subst x' e. clear Hs.
  exists (mkACfg (set_slots (ag_ring xd) (pad :: suffix)) (a_at (a_ops (ag_agent x)) (S (a_k (ag_agent x))) (a_res (ag_agent x) ++ [AUnb true])) (retire swept (ag_prods xd))).
  split.
  - constructor; cbn [ag_ring ag_agent ag_prods].
    + reflexivity.
    + rewrite Er. reflexivity.
    + cbn [set_slots r_slots r_cap r_head]. rewrite Er, Eput.
      destruct HA as (Eh & _).
      assert (Hp1 : s_pos s1 = r_head (ag_ring xd)).
      { destruct Sh as (pre & Esw & _ & _ & _ & Tsw & _). rewrite Esw in Tsw. inversion Tsw as [| h0 t0 s0 sl0 Hp0 G0 T0]. exact Hp0. }
      apply (shape_view (ag_ring xd) s1 rest L swept suffix pad (i_cap _ _ HIq) HL Hp1 Sh).
      eapply Forall_impl; [| exact Hsw]. cbn. intros a (_ & D). exact D.
    + intros i. rewrite nth_retire. destruct (Sp i) as [E | (Dd & ps & E1 & E2)].
      * rewrite E. destruct (nth_error (ag_prods x) i) as [ps |] eqn:Ei; cbn [option_map]; [| left; reflexivity].
        destruct (owned_by i swept) eqn:Ow; [| left; reflexivity]. right.
        unfold owned_by in Ow. apply existsb_exists in Ow. destruct Ow as (y & Hy & Oy).
        rewrite Forall_forall in Hsw. destruct (Hsw y Hy) as (_ & (j & Ej & Dj)). assert (j = i) by lia. subst j.
        split; [exact Dj |]. exists ps. auto.
      * rewrite E2. cbn [option_map]. right. split; [exact Dd |]. exists ps. split; [exact E1 |].
        destruct (owned_by i swept); reflexivity.
  - split.
    + unfold cfg_of. cbn [ag_ring ag_agent ag_prods]. apply (inv_switch lo _ _ idle_cs); [exact HI' | reflexivity | apply cs_of_at].
    + apply agent_ok_at.
Qed.
End Sim4.


Section SimReach.
Variable lo : Z.
Variable dead : nat -> Prop.

Lemma sim_render x xd : sim dead x xd -> render (ag_ring x) = render (ag_ring xd) /\
  r_head (ag_ring x) = r_head (ag_ring xd) /\ r_tail (ag_ring x) = r_tail (ag_ring xd) /\ ag_agent x = ag_agent xd.
Proof. intros [Sa Sr Sv Sp]. split; [| rewrite Sr; cbn [set_slots r_head r_tail]; auto].
  destruct Sv as [E | (e0 & front & pad & suffix & Eu & Ed & V & _)].
  - rewrite Sr, E, set_slots_id. reflexivity.
  - rewrite Sr, Eu. rewrite (views_render _ _ _ _ _ suffix V (ag_ring xd) eq_refl). rewrite <- Ed, set_slots_id. reflexivity. Qed.

(* configurations reachable by any schedule of the live threads, every padding store covering only dead claims *)
Inductive xreach_all (m : mode) (x0 : aconfig) : aconfig -> Prop :=
| xra_refl : xreach_all m x0 x0
| xra_step x tid x' e : xreach_all m x0 x -> xstep m x tid = Some (x', e) ->
    (forall i, tid = S i -> ~ dead i) -> in_xwindow x' ->
    (forall h L, a_mode (ag_agent x) = AUnblocking (UPut h L) -> tid = O -> put_safe dead (ag_ring x) h L) ->
    xreach_all m x0 x'.

Theorem xreach_all_inv m x0 x : XInv' lo dead x0 -> xreach_all m x0 x -> XInv' lo dead x.
Proof. intros H0 Hr. induction Hr as [| x tid x' e Hr IH Hs Hl Hw Hp]; [exact H0 |].
  eapply xstep_inv'; eassumption. Qed.
End SimReach.
