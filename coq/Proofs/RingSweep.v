(* C07_after: what the ring looks like to everybody after a successful unblock.  The memory
   produced by unblock is exactly the memory of a configuration that satisfies the invariant again:
   the claims the padding covers are described as one padding slot, and the dead producers that
   owned them are out of the game (program counter PDone).  Hence every later step of the consumer
   and of the other producers is covered by the C06 theorems. *)
Require Import V.Base.MachineInt.
Require Import V.Generated.GenConsts.
Require Import V.Model.LogBase.
Require Import V.Model.Ring.
Require Import V.Model.RingThreads.
Require Import V.Spec.Fifo.
Require Import V.Proofs.RingArith.
Require Import V.Proofs.RingSeq.
Require Import V.Proofs.RingRender.
Require Import V.Proofs.RingSeqRun.
Require Import V.Proofs.RingConc.
Require Import V.Proofs.RingConcThm.
Require Import V.Proofs.RingUnblock.
From Coq Require Import ZifyBool Lia.
Open Scope Z_scope.

Definition owned_by (j : nat) (swept : list slot) : bool :=
  existsb (fun s => s_owner s =? Z.of_nat (S j)) swept.

Fixpoint retire_from (swept : list slot) (j : nat) (prods : list pstate) : list pstate :=
  match prods with
  | [] => []
  | ps :: r => (if owned_by j swept then set_pc ps PDone else ps) :: retire_from swept (S j) r
  end.
Definition retire (swept : list slot) (prods : list pstate) : list pstate := retire_from swept O prods.

Lemma nth_retire_from swept : forall prods j i,
  nth_error (retire_from swept j prods) i =
  option_map (fun ps => if owned_by (j + i) swept then set_pc ps PDone else ps) (nth_error prods i).
Proof. induction prods as [| ps r IH]; intros j [| i]; cbn [retire_from nth_error option_map]; try reflexivity.
  - rewrite Nat.add_0_r. reflexivity.
  - rewrite IH. replace (S j + i)%nat with (j + S i)%nat by lia. reflexivity. Qed.

Lemma nth_retire swept prods i :
  nth_error (retire swept prods) i =
  option_map (fun ps => if owned_by i swept then set_pc ps PDone else ps) (nth_error prods i).
Proof. unfold retire. rewrite nth_retire_from. reflexivity. Qed.

Lemma ext_retire swept prods : ext prods (retire swept prods).
Proof. intros i ps Hi. rewrite nth_retire, Hi. cbn [option_map].
  destruct (owned_by i swept); eexists; (split; [reflexivity |]); cbn [set_pc p_prog p_k]; auto. Qed.

Lemma tiled_same_nil cp h sl : tiled cp h h sl -> sl = [].
Proof. intros T. destruct sl as [| s sl]; [reflexivity |]. inversion T as [| h0 t0 s0 sl0 Hp G T2]; subst.
  pose proof (tiled_le _ _ _ _ T2). destruct G as (_ & _ & ? & _). lia. Qed.

Lemma blank_render lo cfg l : Inv lo cfg -> (forall x, In x l -> In x (r_slots (g_ring cfg))) ->
  Forall (fun x => s_len x = 0) l -> flat_map (render_slot (r_cap (g_ring cfg))) l = [].
Proof. intros HI. induction l as [| x l IH]; intros Hin F; [reflexivity |]. cbn [flat_map]. inversion F; subst.
  destruct (slot_state lo cfg x HI (Hin x ltac:(left; reflexivity))) as [P | [(N & _) | (B1 & B2 & B3)]]; try lia.
  unfold render_slot at 1. rewrite B1, B2, B3. cbn [nz Z.eqb words_of_bytes nonzero filter app].
  apply IH; [| assumption]. intros y Hy. apply Hin. right. assumption. Qed.

(* what a padding header of length L stored over the slot at the consumer position must satisfy for the memory to be
   that of a well-formed configuration again (the facts unblock_spec establishes for the sequential unblock) *)
Definition pad_facts (R : ring) (s1 : slot) (rest : list slot) (L : Z) : Prop :=
  r_slots R = s1 :: rest /\ s_len s1 <= 0 /\
  0 < L /\ r_head R mod r_cap R + align L 8 <= r_cap R /\
  r_head R + align L 8 <= r_tail R /\
  (r_head R + align L 8 = r_tail R \/ exists s, In s rest /\ s_pos s = r_head R + align L 8) /\
  (forall x, In x rest -> s_pos x < r_head R + align L 8 -> s_len x = 0) /\
  (s_len s1 < 0 -> L = - s_len s1) /\
  (s_len s1 = 0 -> r_head R mod r_cap R + align L 8 < r_cap R).

(* the shape of the two descriptions: the slots as the model holds them after the store are the head slot with the
   padding header followed by blank slots `pre`, then `suffix`; the padding slot spans exactly head slot + `pre` *)
Definition pad_shape (R : ring) (s1 : slot) (rest : list slot) (L : Z) (swept suffix : list slot) (pad : slot) : Prop :=
  exists pre, swept = s1 :: pre /\ rest = pre ++ suffix /\ Forall (fun x => s_len x = 0 /\ s_type x = 0 /\ s_body x = []) pre /\
    pad = mkSlot (r_head R) (align L 8) L PAD (s_body s1) (s_owner s1) (-1) /\
    tiled (r_cap R) (r_head R) (r_head R + align L 8) swept /\
    tiled (r_cap R) (r_head R + align L 8) (r_tail R) suffix.

Theorem after_pad_full lo cfg s1 rest L : Inv lo cfg -> head' (g_ring cfg) (g_cons cfg) = r_head (g_ring cfg) ->
  (c_pc (g_cons cfg) = CReadHead \/ c_pc (g_cons cfg) = CDone) ->
  let R := g_ring cfg in
  pad_facts R s1 rest L ->
  exists swept suffix pad,
    r_slots R = swept ++ suffix /\ swept <> [] /\ Forall (fun s => s_len s <= 0 /\ s_pos s < r_head R + align L 8) swept /\
    s_type pad = PAD /\ s_pos pad = r_head R /\ s_span pad = span_sum swept /\ s_seq pad = -1 /\
    (let cfg' := mkCfg (set_slots R (pad :: suffix)) (g_cons cfg) (retire swept (g_prods cfg)) in
     Inv lo cfg' /\ render (g_ring cfg') = render (set_slots R (set_hdr L PAD s1 :: rest))) /\
    pad_shape R s1 rest L swept suffix pad.
Proof.
  intros HI Hh' Hid. cbn zeta. set (R := g_ring cfg). fold R in Hh'.
  intros (Es & Hneg & HL & Hfit & Hend & Hb & Hblank & Hnegl & Hstrict).
  assert (ER1 : set_slots R (set_hdr L PAD s1 :: rest) = set_slots R (set_hdr L PAD s1 :: rest)) by reflexivity.
  pose proof HI as [Icap Ilo Ihc Ih8 It8 Ihh Itl Isz Iwin Isl Ipr Ics]. fold R in Icap, Ihc, Ih8, It8, Ihh, Itl, Isz, Iwin, Isl, Ipr, Ics.
  rewrite Hh' in Itl, Ihh. pose proof (cap_ok_range _ Icap) as Hcr.
  rewrite Es in Itl. inversion Itl as [| h0 t0 s0 sl0 Hp1 G1 T2]; subst h0 t0 s0 sl0.
  pose proof G1 as (G10 & G18 & G1s & G1s8 & G1str & G1b).
  pose proof (align8_bounds L) as HaL. pose proof (align8_mod L) as HaL8.
  (* split the slots at the end of the padding *)
  assert (SPLIT : exists pre suffix, rest = pre ++ suffix /\
            tiled (r_cap R) (r_head R + s_span s1) (r_head R + align L 8) pre /\
            tiled (r_cap R) (r_head R + align L 8) (r_tail R) suffix).
  { destruct Hb as [Eend | (s & Hs & Hsq)].
    - exists rest, []. rewrite app_nil_r. split; [reflexivity |]. rewrite Eend. split; [exact T2 | constructor].
    - destruct (tiled_split_at _ _ _ _ s T2 Hs) as (pre & suf & E & Tp & Ts). exists pre, (s :: suf).
      rewrite <- Hsq. split; [exact E | split; assumption]. }
  destruct SPLIT as (pre & suffix & Erest & Tpre & Tsuf).
  set (swept := s1 :: pre).
  set (pad := mkSlot (r_head R) (align L 8) L PAD (s_body s1) (s_owner s1) (-1)).
  assert (Esw : r_slots R = swept ++ suffix) by (rewrite Es, Erest; reflexivity).
  assert (Tsw : tiled (r_cap R) (r_head R) (r_head R + align L 8) swept) by (constructor; assumption).
  assert (Hspan : span_sum swept = align L 8) by (rewrite (tiled_span_sum _ _ _ _ Tsw); lia).
  assert (Hpre0 : Forall (fun x => s_len x = 0) pre).
  { apply Forall_forall. intros x Hx. apply Hblank; [rewrite Erest; apply in_or_app; left; assumption |].
    pose proof (tiled_range _ _ _ _ Tpre) as Rg. rewrite Forall_forall in Rg. destruct (Rg x Hx) as (_ & A & (_ & _ & B & _)). lia. }
  assert (Hsw0 : Forall (fun s => s_len s <= 0) swept).
  { constructor; [assumption |]. eapply Forall_impl; [| exact Hpre0]. cbn. intros; lia. }
  assert (Hs1span : s_span s1 <= align L 8) by (pose proof (tiled_le _ _ _ _ Tpre); lia).
  assert (Gpad : geo (r_cap R) pad).
  { unfold geo, pad. cbn [s_pos s_span s_body]. repeat split; auto; try lia. }
  assert (Tnew : tiled (r_cap R) (r_head R) (r_tail R) (pad :: suffix)).
  { constructor; [reflexivity | exact Gpad | exact Tsuf]. }
  exists swept, suffix, pad.
  split; [exact Esw |]. split; [discriminate |]. split.
  { pose proof (tiled_range _ _ _ _ Tsw) as RgS. rewrite Forall_forall in Hsw0, RgS |- *. intros y Hy.
    split; [exact (Hsw0 y Hy) |]. destruct (RgS y Hy) as (_ & Yb & (_ & _ & Ys & _)). lia. }
  split; [reflexivity |]. split; [reflexivity |]. split; [cbn [pad s_span]; lia |]. split; [reflexivity |].
  assert (SHAPE : pad_shape R s1 rest L swept suffix pad).
  { exists pre. split; [reflexivity |]. split; [exact Erest |]. split.
    - apply Forall_forall. intros x Hx. rewrite Forall_forall in Hpre0. pose proof (Hpre0 x Hx) as H0.
      destruct (slot_state lo cfg x HI ltac:(fold R; rewrite Es, Erest; right; apply in_or_app; left; exact Hx)) as [P | [(N & _) | B]]; [lia | lia | exact B].
    - split; [reflexivity |]. split; [exact Tsw | exact Tsuf]. }
  split; [| exact SHAPE].
  cbn zeta.
  pose proof (ext_retire swept (g_prods cfg)) as X.
  (* every swept slot belongs to a producer in flight, and that producer owns nothing else *)
  assert (OWN : forall y, In y swept -> exists j ps, nth_error (g_prods cfg) j = Some ps /\ In y (expect (Z.of_nat (S j)) ps) /\ s_owner y = Z.of_nat (S j)).
  { intros y Hy. rewrite Forall_forall in Isl, Hsw0.
    destruct (Isl y ltac:(rewrite Esw; apply in_or_app; left; assumption)) as [C | (j & ps & Hj & Hin)].
    - pose proof (committed_len _ _ _ C). specialize (Hsw0 y Hy). lia.
    - exists j, ps. split; [assumption |]. split; [assumption |]. apply (expect_owner _ _ _ Hin). }
  assert (POS : forall x y, In x suffix -> In y swept -> s_pos y < s_pos x).
  { intros x y Hx Hy. pose proof (tiled_range _ _ _ _ Tsw) as R1. pose proof (tiled_range _ _ _ _ Tsuf) as R2.
    rewrite Forall_forall in R1, R2. destruct (R1 y Hy) as (_ & A & (_ & _ & B & _)). destruct (R2 x Hx) as (C & _). lia. }
  split.
  - constructor; cbn [g_ring g_cons g_prods set_slots r_cap r_head r_tail r_hc r_slots]; auto.
    + rewrite (idle_head' _ _ Hid). cbn [set_slots r_head]. lia.
    + rewrite (idle_head' _ _ Hid). cbn [set_slots r_head]. exact Tnew.
    + constructor.
      * left. unfold committed, pad. cbn [s_len s_type s_span s_seq]. split; [lia |]. left. repeat split; lia.
      * rewrite Forall_forall in Isl |- *. intros x Hx.
        destruct (Isl x ltac:(rewrite Esw; apply in_or_app; right; assumption)) as [C | (j & ps & Hj & Hin)].
        -- left. eapply committed_ext; eassumption.
        -- right. exists j. rewrite nth_retire, Hj. cbn [option_map].
           destruct (owned_by j swept) eqn:Ow; [| eexists; split; [reflexivity | assumption]].
           exfalso. unfold owned_by in Ow. apply existsb_exists in Ow. destruct Ow as (y & Hy & Oy).
           destruct (OWN y Hy) as (j' & ps' & Hj' & Hin' & Oy').
           assert (j' = j) by lia. subst j'. rewrite Hj in Hj'. inversion Hj'; subst ps'.
           pose proof (POS x y Hx Hy) as Hlt.
           (* a producer that owns two slots is at PPadHdr: padding piece swept, record piece kept *)
           destruct (Ipr j ps Hj) as (Pc & _ & _). unfold pc_ok in Pc.
           unfold expect in Hin, Hin'. destruct (nth_error (p_prog ps) (p_k ps)) as [[typ body] |] eqn:En; [| inversion Hin].
           destruct (p_pc ps) eqn:Epc; cbn [In] in Hin, Hin'; try contradiction;
             try (destruct Hin as [Hin | []]; destruct Hin' as [Hin' | []]; subst x y; cbn [s_pos] in Hlt; lia).
           destruct Pc as (typ' & body' & _ & Ppd & Ppe & Pt8). cbn zeta in *.
           destruct Hin as [Hin | [Hin | []]]; destruct Hin' as [Hin' | [Hin' | []]]; subst x y; cbn [s_pos] in Hlt; try lia.
           (* y = padding piece at tl, x = record piece at tl + pd; the swept region would end at a lap boundary *)
           pose proof (tiled_range _ _ _ _ Tsw) as R1. rewrite Forall_forall in R1.
           destruct (R1 _ Hy) as (Y1 & Y2 & _). cbn [s_pos s_span] in Y1, Y2.
           pose proof (tiled_range _ _ _ _ Tsuf) as R2. rewrite Forall_forall in R2.
           destruct (R2 _ Hx) as (X1 & _). cbn [s_pos] in X1.
           assert (Eend : tl + padding = r_head R + align L 8) by lia.
           pose proof (mod_range (r_cap R) tl Icap) as Htm. pose proof (mod_range (r_cap R) (r_head R) Icap) as Hhm.
           assert (Z0 : (tl + padding) mod r_cap R = 0).
           { rewrite Ppe. pose proof (Z.div_mod tl (r_cap R) ltac:(lia)).
             replace (tl + (r_cap R - tl mod r_cap R)) with ((tl / r_cap R + 1) * r_cap R) by lia. apply Z_mod_mult. }
           rewrite Eend in Z0.
           destruct (Z_lt_dec (r_head R mod r_cap R + align L 8) (r_cap R)) as [Lt | Ge];
             [rewrite (idx_inner (r_cap R) (r_head R) (align L 8)) in Z0 by lia; lia |].
           (* the padding piece is blank, so the head slot is blank too (or is the padding piece itself) *)
           assert (s_len s1 = 0).
           { destruct Hy as [Ey | Hy]; [rewrite Ey; reflexivity |].
             destruct (Z_lt_dec (s_len s1) 0) as [N | N]; [| lia]. exfalso.
             pose proof (Hnegl N) as EL. rewrite EL in Tpre.
             destruct (slot_state lo cfg s1 HI ltac:(fold R; rewrite Es; left; reflexivity)) as [P | [(_ & Sp) | (B & _)]]; try lia.
             rewrite <- Sp in Tpre. apply tiled_same_nil in Tpre. subst pre. inversion Hy. }
           specialize (Hstrict H). lia.
    + intros j q Hj. rewrite nth_retire in Hj. destruct (nth_error (g_prods cfg) j) as [ps |] eqn:Ej; [| discriminate].
      cbn [option_map] in Hj. destruct (Ipr j ps Ej) as (Pc & Pw & Pex).
      destruct (owned_by j swept) eqn:Ow; inversion Hj; subst q.
      * split; [exact I |]. split; [assumption |]. rewrite expect_set_pc_nil by exact I. intros s [].
      * split; [exact Pc |]. split; [assumption |]. intros s Hs. cbn [set_slots r_slots].
        specialize (Pex s Hs). rewrite Esw in Pex. apply in_app_or in Pex. destruct Pex as [Pex | Pex]; [| right; assumption].
        exfalso. destruct (expect_owner _ _ _ Hs) as (Os & _).
        assert (owned_by j swept = true); [| congruence].
        unfold owned_by. apply existsb_exists. exists s. split; [assumption | lia].
    + unfold cons_ok in *. destruct Hid as [E | E]; rewrite E in *; assumption.
  - (* the same memory *)
    cbn [g_ring]. unfold render. cbn [set_slots r_slots r_cap flat_map].
    assert (Epad : render_slot (r_cap R) pad = render_slot (r_cap R) (set_hdr L PAD s1)).
    { unfold render_slot, pad. cbn [set_hdr s_pos s_len s_type s_body]. rewrite Hp1. reflexivity. }
    rewrite Epad. rewrite Erest. rewrite flat_map_app.
    assert (Epre : flat_map (render_slot (r_cap R)) pre = []).
    { apply (blank_render lo cfg pre HI); [| exact Hpre0].
      intros x Hx. fold R. rewrite Es, Erest. right. apply in_or_app. left. assumption. }
    rewrite Epre. reflexivity.
Qed.

Theorem after_pad lo cfg s1 rest L : Inv lo cfg -> head' (g_ring cfg) (g_cons cfg) = r_head (g_ring cfg) ->
  (c_pc (g_cons cfg) = CReadHead \/ c_pc (g_cons cfg) = CDone) ->
  let R := g_ring cfg in
  pad_facts R s1 rest L ->
  exists swept suffix pad,
    r_slots R = swept ++ suffix /\ swept <> [] /\ Forall (fun s => s_len s <= 0 /\ s_pos s < r_head R + align L 8) swept /\
    s_type pad = PAD /\ s_pos pad = r_head R /\ s_span pad = span_sum swept /\ s_seq pad = -1 /\
    let cfg' := mkCfg (set_slots R (pad :: suffix)) (g_cons cfg) (retire swept (g_prods cfg)) in
    Inv lo cfg' /\ render (g_ring cfg') = render (set_slots R (set_hdr L PAD s1 :: rest)).
Proof. intros HI Hh Hid. cbn zeta. intros PF.
  destruct (after_pad_full lo cfg s1 rest L HI Hh Hid PF) as (swept & suffix & pad & A & B & C & D1 & D2 & D3 & D4 & D5 & _).
  exists swept, suffix, pad. auto 10. Qed.

Theorem after_unblock lo cfg : Inv lo cfg -> cons_idle (g_cons cfg) ->
  let R := g_ring cfg in
  snd (unblock R) = true ->
  exists swept suffix pad,
    r_slots R = swept ++ suffix /\ swept <> [] /\ Forall (fun s => s_len s <= 0) swept /\
    s_type pad = PAD /\ s_pos pad = r_head R /\ s_span pad = span_sum swept /\
    let cfg' := mkCfg (set_slots R (pad :: suffix)) (g_cons cfg) (retire swept (g_prods cfg)) in
    Inv lo cfg' /\ render (g_ring cfg') = render (fst (unblock R)).
Proof.
  intros HI Hid. cbn zeta. intros Hu.
  destruct (unblock_spec lo cfg HI Hid) as (_ & _ & _ & U4).
  destruct (U4 Hu) as (s1 & rest & L & Es & Hneg & ER1 & HL & Hfit & Hend & Hb & Hblank & Hnegl & Hstrict). clear U4.
  rewrite ER1. destruct (after_pad lo cfg s1 rest L HI (idle_head' _ _ Hid) Hid) as (swept & suffix & pad & A & B & C & D1 & D2 & D3 & _ & D).
  { unfold pad_facts. repeat split; assumption. }
  exists swept, suffix, pad. split; [exact A |]. split; [exact B |]. split; [| split; [exact D1 | split; [exact D2 | split; [exact D3 | exact D]]]].
  eapply Forall_impl; [| exact C]. cbn. intros a (Ha & _). exact Ha. Qed.
