(* Theorems about the conductor model: C09 (registration protocol) and C10 (faults, close). *)
Require Import V.Base.MachineInt.
Require Import V.Generated.GenConsts.
Require Import V.Model.Conductor.
Require Import V.Proofs.ConductorBase.
Require Import V.Proofs.ConductorInv.
From Coq Require Import ZifyBool.
Open Scope Z_scope.

(* =================================================================================================== *)
(* add_*                                                                                               *)
(* =================================================================================================== *)
Lemma add_accepted k a1 a2 a3 s s' r cbs cmds :
  do_add k a1 a2 a3 s = (s', (Ok r, cbs, cmds)) ->
  r = [next_corr s] /\ cbs = [] /\
  cmds = [Cmd (add_cmd_type k a1) (client_id s) (next_corr s) (add_cmd_args k a1 a2 a3)] /\
  lookup (next_corr s) (getm k s') = Some (new_entry (now s) a1 a2 a3) /\
  next_corr s' = next_corr s + 1 /\ driver_active s = true /\ closed s = false /\
  (forall k' id, k' <> k \/ id <> next_corr s -> lookup id (getm k' s') = lookup id (getm k' s)).
Proof. unfold do_add. destruct (driver_active s) eqn:Ea; cbn [negb]; [|intros H; inversion H].
  destruct (closed s) eqn:Ec; [intros H; inversion H|].
  destruct (add_illegal k a1 a2 a3); [intros H; inversion H|].
  destruct (ring_full s); [intros H; inversion H|].
  intros H. inversion H; subst. clear H. repeat split; auto.
  - rewrite getm_setm_same. apply lookup_ins_same.
  - rewrite setm_next_corr. reflexivity.
  - intros k' id Hne. rewrite getm_setm. destruct (kind_eqb k' k) eqn:E.
    + apply kind_eqb_eq in E. subst. rewrite getm_set_next_corr. apply lookup_ins_other. destruct Hne; congruence.
    + rewrite getm_set_next_corr. reflexivity. Qed.

(* a rejected add writes nothing; it changes nothing, except that a command refused by a full ring has used up its
   correlation id *)
Lemma add_rejected k a1 a2 a3 s s' e cbs cmds :
  do_add k a1 a2 a3 s = (s', (Err e, cbs, cmds)) ->
  (s' = s \/ (ring_full s = true /\ e = IllegalState /\ s' = set_next_corr (next_corr s + 1) s)) /\ cbs = [] /\ cmds = [].
Proof. unfold do_add. destruct (negb (driver_active s)); [intros H; inversion H; auto|].
  destruct (closed s); [intros H; inversion H; auto|].
  destruct (add_illegal k a1 a2 a3); [intros H; inversion H; auto|].
  destruct (ring_full s); intros H; inversion H; auto. Qed.

(* why an add is refused: the driver is inactive, the client closed, the arguments illegal (a counter key / label over its
   limit, a command that does not fit the 512-byte command buffer), or the ring refused the write *)
Lemma add_refused_why k a1 a2 a3 s s' e cbs cmds :
  do_add k a1 a2 a3 s = (s', (Err e, cbs, cmds)) ->
  (e = DriverInactive /\ driver_active s = false) \/ (e = Closed /\ closed s = true) \/
  (e = IllegalArg /\ add_illegal k a1 a2 a3 = true) \/ (e = IllegalState /\ ring_full s = true).
Proof. unfold do_add. destruct (driver_active s) eqn:Ea; cbn [negb]; [|intros H; inversion H; auto].
  destruct (closed s) eqn:Ec; [intros H; inversion H; auto|].
  destruct (add_illegal k a1 a2 a3) eqn:Ei; [intros H; inversion H; auto|].
  destruct (ring_full s) eqn:Er; intros H; inversion H; auto 6. Qed.

(* an add with legal arguments on an open client with an active driver and room in the ring is accepted *)
Lemma add_legal_accepted k a1 a2 a3 s :
  driver_active s = true -> closed s = false -> add_illegal k a1 a2 a3 = false -> ring_full s = false ->
  exists s', do_add k a1 a2 a3 s = (s', (Ok [next_corr s], [], [Cmd (add_cmd_type k a1) (client_id s) (next_corr s) (add_cmd_args k a1 a2 a3)])).
Proof. intros Ha Hc Hi Hr. unfold do_add. rewrite Ha, Hc, Hi, Hr. cbn [negb]. eauto. Qed.

Lemma add_result k a1 a2 a3 s :
  let r := fst (fst (snd (do_add k a1 a2 a3 s))) in
  r = Ok [next_corr s] \/ r = Err DriverInactive \/ r = Err Closed \/ r = Err IllegalArg \/ r = Err IllegalState.
Proof. unfold do_add. destruct (negb (driver_active s)); cbn; auto.
  destruct (closed s); cbn; auto.
  destruct (add_illegal k a1 a2 a3); cbn; auto.
  destruct (ring_full s); cbn; auto 6. Qed.

Lemma fresh_id s k : inv s -> lookup (next_corr s) (getm k s) = None /\ client_id s <> next_corr s.
Proof. intros I. split.
  - apply lookup_none_keys. intros Hin. pose proof (inv_map_ok s k I) as [_ F]. rewrite Forall_forall in F.
    unfold keys in Hin. apply in_map_iff in Hin. destruct Hin as (p & Hp & Hin). specialize (F p Hin). lia.
  - destruct I as (_ & I2 & _). lia. Qed.

(* =================================================================================================== *)
(* commands: every operation writes no command or exactly one, with the next correlation id            *)
(* =================================================================================================== *)
Definition cmd_id (c : cmd) : Z := match c with Cmd _ _ i _ => i end.
Definition cmd_client (c : cmd) : Z := match c with Cmd _ cid _ _ => cid end.
Definition cmd_ty (c : cmd) : Z := match c with Cmd t _ _ _ => t end.

(* no command (the correlation id is used up all the same when the ring refused the write), or exactly one *)
Definition one_or_none (s s' : st) (cmds : list cmd) : Prop :=
  client_id s' = client_id s /\
  ((cmds = [] /\ (next_corr s' = next_corr s \/ next_corr s' = next_corr s + 1)) \/
   (exists ty args, cmds = [Cmd ty (client_id s) (next_corr s) args] /\ next_corr s' = next_corr s + 1)).

Lemma close_all_ids s : next_corr (fst (fst (close_all s))) = next_corr s /\ client_id (fst (fst (close_all s))) = client_id s.
Proof. pose proof (close_all_scalars s) as H. cbn in H. tauto. Qed.

Lemma on_error_ids corr code s : next_corr (on_error corr code s) = next_corr s /\ client_id (on_error corr code s) = client_id s.
Proof. unfold on_error. repeat dmatch; rewrite ?setm_next_corr, ?setm_client_id; auto. Qed.

Lemma on_event_ids ev s : next_corr (fst (fst (on_event ev s))) = next_corr s /\ client_id (fst (fst (on_event ev s))) = client_id s.
Proof. destruct ev; cbn [on_event]; repeat dmatch; cbn [fst]; rewrite ?setm_next_corr, ?setm_client_id; auto.
  - apply on_error_ids.
  - pose proof (close_all_ids s) as H. rewrite Heqp in H. exact H. Qed.

Definition ids_eq (s s' : st) : Prop := next_corr s' = next_corr s /\ client_id s' = client_id s.
Lemma ids_eq_refl s : ids_eq s s. Proof. split; reflexivity. Qed.
Lemma ids_eq_trans a b c : ids_eq a b -> ids_eq b c -> ids_eq a c.
Proof. unfold ids_eq. intuition congruence. Qed.

Lemma close_all_ids' s s1 cbs hang : close_all s = (s1, cbs, hang) -> ids_eq s s1.
Proof. intros H. pose proof (close_all_ids s) as X. rewrite H in X. exact X. Qed.

Lemma hc_service_ids c t s : ids_eq s (fst (fst (hc_service c t s))).
Proof. unfold hc_service. dmatch; [|apply ids_eq_refl]. destruct (close_all s) as [[s1 cbs] hang] eqn:E. eapply close_all_ids'; eauto. Qed.
Lemma hc_driver_ids c t s : ids_eq s (fst (hc_driver c t s)).
Proof. unfold hc_driver. dmatch; split; reflexivity. Qed.
Lemma hc_heartbeat_ids s : ids_eq s (fst (fst (hc_heartbeat s))).
Proof. unfold hc_heartbeat. destruct (hb_bound s); destruct (hb_env s =? 1); try (split; reflexivity).
  destruct (close_all s) as [[s1 cbs] hang] eqn:E. eapply close_all_ids'; eauto. Qed.
Lemma hc_keepalive_ids c t s : ids_eq s (fst (fst (fst (hc_keepalive c t s)))).
Proof. unfold hc_keepalive. dmatch; [|apply ids_eq_refl].
  pose proof (hc_driver_ids c t s) as H1. destruct (hc_driver c t s) as [s' cbs']. cbn [fst] in H1.
  pose proof (hc_heartbeat_ids s') as H2. destruct (hc_heartbeat s') as [[s'' cbs''] hang'']. cbn [fst] in *.
  eapply ids_eq_trans; [exact H1|]. exact H2. Qed.
Lemma hc_resources_ids t s : ids_eq s (fst (hc_resources t s)).
Proof. unfold hc_resources. dmatch; split; reflexivity. Qed.

Lemma heartbeat_check_ids c s :
  next_corr (fst (fst (fst (heartbeat_check c s)))) = next_corr s /\ client_id (fst (fst (fst (heartbeat_check c s)))) = client_id s.
Proof. unfold heartbeat_check.
  pose proof (hc_service_ids c (now s) s) as H1. destruct (hc_service c (now s) s) as [[s1 cbs1] hang1]. cbn [fst] in H1.
  pose proof (hc_keepalive_ids c (now s) (set_t_work (now s) s1)) as H3.
  destruct (hc_keepalive c (now s) (set_t_work (now s) s1)) as [[[s3 cbs3] hang3] r3]. cbn [fst] in H3.
  pose proof (hc_resources_ids (now s) s3) as H4. destruct (hc_resources (now s) s3) as [s4 r4]. cbn [fst] in *.
  unfold ids_eq in *. cbn in *. intuition congruence. Qed.

Lemma do_release_cmds k r imgs s :
  one_or_none s (fst (do_release k r imgs s)) (snd (snd (do_release k r imgs s))).
Proof. unfold do_release, one_or_none. destruct (lookup r (getm k s)); [|cbn; auto].
  destruct (ring_full s); [destruct k|]; cbn [fst snd]; rewrite setm_client_id, setm_next_corr; cbn [client_id next_corr set_next_corr];
    (split; [reflexivity|]); try (left; split; [reflexivity|right; reflexivity]); right; eauto. Qed.

Lemma dtor_user_cmds k r o s : one_or_none s (fst (dtor_user k r o s)) (snd (snd (dtor_user k r o s))).
Proof. unfold dtor_user. destruct k; try apply do_release_cmds; destruct (o_closed o); try apply do_release_cmds;
  unfold one_or_none; cbn; auto. Qed.

Lemma step_cmds c s o : one_or_none s (fst (step c s o)) (snd (snd (step c s o))).
Proof. destruct o; cbn [step].
  - unfold do_add, one_or_none. repeat dmatch; cbn [fst snd]; auto.
    rewrite setm_client_id, setm_next_corr. cbn. split; auto. right. eauto.
  - unfold do_find, one_or_none. repeat dmatch; cbn; rewrite ?setm_client_id, ?setm_next_corr; auto.
  - unfold do_drop. destruct k; try (unfold one_or_none; cbn; tauto);
    (destruct (user_obj _ r s) as [o|]; [|unfold one_or_none; cbn; tauto]);
    match goal with |- context [dtor_user ?k r o s] =>
      pose proof (dtor_user_cmds k r o s) as H; destruct (dtor_user k r o s) as [s1 [cbs cmds]] end; exact H.
  - unfold do_peek, one_or_none. destruct (user_obj k r s); cbn; auto.
  - unfold do_close. pose proof (close_all_ids s) as H. destruct (close_all s) as [[s1 cbs] hang]. cbn [fst] in H.
    destruct H as [Hn Hc]. unfold one_or_none. destruct hang; cbn; [auto|]. destruct (close_sent s1); cbn; [auto|].
    split; auto. destruct (ring_full s1); [left; split; auto; right; lia|]. right. rewrite Hn, Hc. eauto.
  - unfold one_or_none. cbn. auto.
  - unfold one_or_none. cbn. auto.
  - unfold one_or_none. cbn. auto.
  - unfold one_or_none. cbn. auto.
  - unfold do_work, one_or_none. destruct b; cbn [fst snd]; auto.
    + pose proof (heartbeat_check_ids c s) as H. destruct (heartbeat_check c s) as [[[s2 cbs2] hang2] r]. cbn [fst] in H.
      cbn. destruct hang2; cbn; intuition.
    + pose proof (on_event_ids e s) as H1. destruct (on_event e s) as [[s1 cbs1] hang1]. cbn [fst] in H1.
      destruct hang1; cbn; [intuition|].
      pose proof (heartbeat_check_ids c s1) as H. destruct (heartbeat_check c s1) as [[[s2 cbs2] hang2] r]. cbn [fst] in H.
      destruct hang2; cbn; intuition congruence.
  - unfold do_close_handle, one_or_none. destruct k; try (cbn; tauto); destruct (user_obj _ r s); cbn; tauto. Qed.

(* strictly increasing, starting at n or above *)
Fixpoint increasing_from (n : Z) (l : list Z) : Prop :=
  match l with [] => True | x :: t => n <= x /\ increasing_from (x + 1) t end.

Lemma increasing_weaken n n' l : n' <= n -> increasing_from n l -> increasing_from n' l.
Proof. destruct l; cbn; auto. intros H [A B]. split; auto. lia. Qed.

Definition all_cmds (xs : list out) : list cmd := flat_map (fun x : out => snd x) xs.

(* over any history the correlation ids of the commands written are strictly increasing from next_corr on (consecutive
   as long as the ring refuses no write) and every command carries the client id *)
Lemma run_cmd_ids c ops : forall s,
  increasing_from (next_corr s) (map cmd_id (all_cmds (snd (run c s ops)))) /\
  Forall (fun x => cmd_client x = client_id s) (all_cmds (snd (run c s ops))) /\
  next_corr s + Z.of_nat (length (all_cmds (snd (run c s ops)))) <= next_corr (fst (run c s ops)).
Proof. induction ops as [|o ops IH]; intros s; cbn.
  - repeat split; auto. lia.
  - pose proof (step_cmds c s o) as H. destruct (step c s o) as [s1 [[r cbs] cmds]]. cbn [fst snd] in H.
    specialize (IH s1). destruct (run c s1 ops) as [s2 xs]. cbn [fst snd] in *. unfold all_cmds. cbn [flat_map snd].
    fold (all_cmds xs). destruct H as [Hc [[-> Hn]|(ty & args & -> & Hn)]]; cbn [app map length].
    + rewrite Hc in IH. destruct IH as (A & B & C). repeat split; auto; [|lia].
      eapply increasing_weaken; [|exact A]. lia.
    + rewrite Hc in IH. destruct IH as (A & B & C). cbn [cmd_id increasing_from]. split; [split|split].
      * lia.
      * rewrite <- Hn. exact A.
      * constructor; auto.
      * cbn [length]. lia. Qed.

(* increasing ids are pairwise distinct *)
Lemma increasing_lt n l : increasing_from n l -> Forall (fun x => n <= x) l /\ NoDup l.
Proof. revert n. induction l as [|x t IH]; intros n H; cbn in *.
  - split; constructor.
  - destruct H as [Hx H]. destruct (IH _ H) as [A B]. split.
    + constructor; [lia|]. eapply Forall_impl; [|exact A]. cbn. intros. lia.
    + constructor; auto. intros Hin. rewrite Forall_forall in A. specialize (A _ Hin). lia. Qed.

(* while the ring refuses nothing the ids are consecutive *)
Fixpoint consecutive_from (n : Z) (l : list Z) : Prop :=
  match l with [] => True | x :: t => x = n /\ consecutive_from (n + 1) t end.

(* =================================================================================================== *)
(* find_*                                                                                              *)
(* =================================================================================================== *)
Lemma find_awaiting c k r s e :
  closed s = false -> lookup r (getm k s) = Some e -> e_status e = Awaiting -> e_obj e = None ->
  do_find c k r s =
    (s, ((if e_treg e + c_tdrv c <? now s then Err NoResponse
          else match k with KDest => Ok [0] | _ => Err NotReady end), [], [])).
Proof. intros Hc Hl Hs Ho. unfold do_find, timed_out. rewrite Hc, Hl, Hs, Ho.
  destruct k; destruct (e_treg e + c_tdrv c <? now s); reflexivity. Qed.

Lemma find_unknown c k r s : closed s = false -> lookup r (getm k s) = None -> do_find c k r s = (s, (Err NotFound, [], [])).
Proof. intros Hc Hl. unfold do_find. rewrite Hc, Hl. reflexivity. Qed.

Lemma find_closed c k r s : closed s = true -> do_find c k r s = (s, (Err Closed, [], [])).
Proof. intros Hc. unfold do_find. rewrite Hc. reflexivity. Qed.

(* the handle (k, r) is in the user's hands under number h *)
Definition hobj (k : kind) (r : Z) (s : st) : option obj :=
  match lookup r (getm k s) with Some e => e_obj e | None => None end.
Definition held (k : kind) (r h : Z) (s : st) : Prop :=
  exists o, hobj k r s = Some o /\ o_user o = true /\ o_h o = h.

Lemma find_held c k r h s : k <> KDest -> closed s = false -> held k r h s -> do_find c k r s = (s, (Ok [h], [], [])).
Proof. intros Hk Hc (o & Ho & Hu & Hh). unfold hobj in Ho. unfold do_find. rewrite Hc.
  destruct (lookup r (getm k s)) as [e|]; [|discriminate]. rewrite Ho, Hu, Hh. destruct k; try reflexivity. congruence. Qed.

(* first lookup of a registered publication / of a cached subscription or counter: a new handle, then held *)
Definition first_obj (k : kind) (e : entry) (o' : obj) : Prop :=
  match e_obj e with
  | Some o => o_d1 o' = o_d1 o /\ o_d2 o' = o_d2 o /\ o_d3 o' = o_d3 o /\ o_closed o' = o_closed o /\ o_images o' = o_images o
  | None => o_d1 o' = e_d1 e /\ o_d2 o' = e_d3 e /\ o_d3 o' = (match k with KPub => e_d4 e | _ => 0 end) /\ o_closed o' = false /\ o_images o' = []
  end.

Lemma find_first c k r s e :
  k <> KDest -> closed s = false -> lookup r (getm k s) = Some e ->
  (match e_obj e with Some o => o_user o = false | None => e_status e = Registered /\ (k = KPub \/ k = KXPub) end) ->
  exists s', do_find c k r s = (s', (Ok [next_h s], [], [])) /\
             (exists o', hobj k r s' = Some o' /\ o_user o' = true /\ o_h o' = next_h s /\ first_obj k e o') /\
             next_h s' = next_h s + 1 /\
             (forall k' r', k' <> k \/ r' <> r -> lookup r' (getm k' s') = lookup r' (getm k' s)).
Proof. intros Hk Hc Hl Hsh. unfold do_find. rewrite Hc, Hl. unfold first_obj.
  destruct (e_obj e) as [o|] eqn:Eo.
  - rewrite Hsh. eexists. split; [destruct k; try reflexivity; congruence|]. split; [|split].
    + unfold hobj. rewrite getm_setm_same, getm_set_next_h, lookup_upd_same, Hl. cbn. eexists. split; [reflexivity|]. cbn. tauto.
    + rewrite setm_next_h. reflexivity.
    + intros k' r' Hne. rewrite getm_setm. destruct (kind_eqb k' k) eqn:E; rewrite getm_set_next_h; auto.
      apply kind_eqb_eq in E. subst. apply lookup_upd_other. destruct Hne; congruence.
  - destruct Hsh as [Hs Hkk]. rewrite Hs.
    assert (Hfr : forall k' r' (m : amap -> amap), (forall r2, r2 <> r -> lookup r2 (m (getm k s)) = lookup r2 (getm k s)) -> k' <> k \/ r' <> r ->
              lookup r' (getm k' (setm k (m (getm k (set_next_h (next_h s + 1) s))) (set_next_h (next_h s + 1) s))) = lookup r' (getm k' s)).
    { intros k' r' m Hm Hne. rewrite getm_setm. destruct (kind_eqb k' k) eqn:E; rewrite getm_set_next_h; auto.
      apply kind_eqb_eq in E. subst. apply Hm. destruct Hne; congruence. }
    destruct Hkk; subst k; (eexists; split; [reflexivity|]; split; [|split]);
      try (rewrite setm_next_h; reflexivity);
      try (unfold hobj; rewrite getm_setm_same, getm_set_next_h, lookup_upd_same, Hl; cbn; eexists; split; [reflexivity|]; cbn; tauto);
      intros k' r' Hne; apply (Hfr k' r' (upd r _)); auto; intros; apply lookup_upd_other; auto. Qed.

Lemma find_first_held c k r s e :
  k <> KDest -> closed s = false -> lookup r (getm k s) = Some e ->
  (match e_obj e with Some o => o_user o = false | None => e_status e = Registered /\ (k = KPub \/ k = KXPub) end) ->
  exists s', do_find c k r s = (s', (Ok [next_h s], [], [])) /\ held k r (next_h s) s' /\ next_h s' = next_h s + 1.
Proof. intros Hk Hc Hl Hsh. destruct (find_first c k r s e Hk Hc Hl Hsh) as (s' & A & (o' & B1 & B2 & B3 & _) & C & _).
  exists s'. repeat split; auto. exists o'. auto. Qed.

(* an errored registration: the error is reported by the first lookup and the registration is gone *)
Lemma find_errored c k r s e :
  k <> KDest -> closed s = false -> lookup r (getm k s) = Some e -> e_status e = Errored -> e_obj e = None ->
  exists s', do_find c k r s = (s', (Err (Registration (e_code e)), [], [])) /\ lookup r (getm k s') = None /\
             do_find c k r s' = (s', (Err NotFound, [], [])).
Proof. intros Hk Hc Hl Hs Ho. unfold do_find at 1. rewrite Hc, Hl, Hs, Ho.
  exists (setm k (remove r (getm k s)) s).
  assert (Hn : lookup r (getm k (setm k (remove r (getm k s)) s)) = None) by (rewrite getm_setm_same; apply lookup_remove_same).
  split; [destruct k; try reflexivity; congruence|]. split; auto.
  apply find_unknown; auto. rewrite setm_closed. auto. Qed.

Lemma find_dest_errored c r s e :
  closed s = false -> lookup r (dests s) = Some e -> e_status e = Errored ->
  do_find c KDest r s = (s, (Err (Registration (e_code e)), [], [])).
Proof. intros Hc Hl Hs. unfold do_find. cbn [getm]. rewrite Hc, Hl, Hs. reflexivity. Qed.

Lemma find_dest_registered c r s e :
  closed s = false -> lookup r (dests s) = Some e -> e_status e = Registered -> do_find c KDest r s = (s, (Ok [1], [], [])).
Proof. intros Hc Hl Hs. unfold do_find. cbn [getm]. rewrite Hc, Hl, Hs. reflexivity. Qed.

(* =================================================================================================== *)
(* a held handle stays the same handle until it is dropped or the client closes                        *)
(* =================================================================================================== *)
Definition obj_same (o o' : obj) : Prop :=
  o_user o' = o_user o /\ o_h o' = o_h o /\ o_closed o' = o_closed o /\ o_d1 o' = o_d1 o /\ o_d2 o' = o_d2 o /\ o_d3 o' = o_d3 o.

Lemma obj_same_refl o : obj_same o o. Proof. unfold obj_same. tauto. Qed.

Definition keeps (k : kind) (r : Z) (s s' : st) : Prop :=
  forall o, hobj k r s = Some o -> o_user o = true -> exists o', hobj k r s' = Some o' /\ obj_same o o'.

Lemma keeps_refl k r s : keeps k r s s.
Proof. intros o H _. exists o. split; auto. apply obj_same_refl. Qed.

Lemma keeps_trans k r s1 s2 s3 : keeps k r s1 s2 -> keeps k r s2 s3 -> keeps k r s1 s3.
Proof. intros A B o H Hu. destruct (A o H Hu) as (o2 & H2 & S2).
  assert (Hu2 : o_user o2 = true) by (unfold obj_same in S2; intuition congruence).
  destruct (B o2 H2 Hu2) as (o3 & H3 & S3).
  exists o3. split; auto. unfold obj_same in *. intuition congruence. Qed.

Lemma keeps_same_maps k r s s' : (forall k, getm k s' = getm k s) -> keeps k r s s'.
Proof. intros H o Ho _. exists o. split; [|apply obj_same_refl]. unfold hobj in *. rewrite H. exact Ho. Qed.

Lemma keeps_upd_at k r k' r' f s e :
  lookup r' (getm k' s) = Some e ->
  (forall o, e_obj e = Some o -> o_user o = true -> exists o', e_obj (f e) = Some o' /\ obj_same o o') ->
  keeps k r s (setm k' (upd r' f (getm k' s)) s).
Proof. intros Hl Hf o Ho Hu. unfold hobj in *. rewrite getm_setm. destruct (kind_eqb k k') eqn:E.
  - apply kind_eqb_eq in E. subst k'. destruct (Z.eq_dec r r') as [->|Hne].
    + rewrite lookup_upd_same, Hl. cbn. rewrite Hl in Ho. apply Hf; auto.
    + rewrite lookup_upd_other by auto. exists o. split; auto. apply obj_same_refl.
  - exists o. split; auto. apply obj_same_refl. Qed.

Lemma keeps_remove_other k r k' r' s : k' <> k \/ r' <> r -> keeps k r s (setm k' (remove r' (getm k' s)) s).
Proof. intros Hne o Ho _. unfold hobj in *. rewrite getm_setm. destruct (kind_eqb k k') eqn:E.
  - apply kind_eqb_eq in E. subst k'. rewrite lookup_remove_other by (destruct Hne; congruence).
    exists o. split; auto. apply obj_same_refl.
  - exists o. split; auto. apply obj_same_refl. Qed.

Lemma keeps_remove_noobj k r k' r' s e : lookup r' (getm k' s) = Some e -> e_obj e = None -> keeps k r s (setm k' (remove r' (getm k' s)) s).
Proof. intros Hl He. destruct (kind_eqb k k') eqn:E.
  - apply kind_eqb_eq in E. subst k'. destruct (Z.eq_dec r r') as [->|Hne].
    + intros o Ho. unfold hobj in Ho. rewrite Hl, He in Ho. discriminate.
    + apply keeps_remove_other. auto.
  - apply keeps_remove_other. left. apply kind_eqb_neq in E. congruence. Qed.

Lemma do_add_keeps k r k' a1 a2 a3 s : inv s -> keeps k r s (fst (do_add k' a1 a2 a3 s)).
Proof. intros I. unfold do_add. repeat dmatch; try apply keeps_refl;
    try (cbn [fst]; apply keeps_same_maps; intros; apply getm_set_next_corr; fail). cbn [fst].
  intros o Ho _. exists o. split; [|apply obj_same_refl]. unfold hobj in *. rewrite getm_setm.
  destruct (kind_eqb k k') eqn:E; rewrite getm_set_next_corr; auto. apply kind_eqb_eq in E. subst k'.
  destruct (lookup r (getm k s)) as [e|] eqn:El; [|discriminate].
  rewrite lookup_ins_other, El; auto. pose proof (inv_lookup _ _ _ _ I El). lia. Qed.

Lemma do_find_keeps c k r k' r' s : keeps k r s (fst (do_find c k' r' s)).
Proof. unfold do_find. destruct (closed s); [apply keeps_refl|].
  destruct (lookup r' (getm k' s)) as [e|] eqn:El; [|apply keeps_refl].
  assert (Hh : forall f, (forall o, e_obj e = Some o -> o_user o = true -> exists o', e_obj (f e) = Some o' /\ obj_same o o') ->
           keeps k r s (setm k' (upd r' f (getm k' (set_next_h (next_h s + 1) s))) (set_next_h (next_h s + 1) s))).
  { intros f Hf. eapply keeps_trans; [apply (keeps_same_maps k r s (set_next_h (next_h s + 1) s)); intros; apply getm_set_next_h|].
    eapply keeps_upd_at; [rewrite getm_set_next_h; exact El|exact Hf]. }
  destruct k'; repeat dmatch; cbn [fst]; try apply keeps_refl;
    try (eapply keeps_remove_noobj; eauto; fail);
    apply Hh; intros o1 Ho1 Hu1; congruence. Qed.

Lemma keeps_upd_other k r k' r' f s : k' <> k \/ r' <> r -> keeps k r s (setm k' (upd r' f (getm k' s)) s).
Proof. intros Hne o Ho _. unfold hobj in *. rewrite getm_setm. destruct (kind_eqb k k') eqn:E.
  - apply kind_eqb_eq in E. subst k'. rewrite lookup_upd_other by (destruct Hne; congruence).
    exists o. split; auto. apply obj_same_refl.
  - exists o. split; auto. apply obj_same_refl. Qed.

Lemma do_release_keeps k r k' r' imgs s : k' <> k \/ r' <> r -> keeps k r s (fst (do_release k' r' imgs s)).
Proof. intros Hne. unfold do_release. destruct (lookup r' (getm k' s)); [|apply keeps_refl].
  assert (H0 : keeps k r s (set_next_corr (next_corr s + 1) s)) by (apply keeps_same_maps; intros; apply getm_set_next_corr).
  destruct (ring_full s); [destruct k'|]; cbn [fst]; (eapply keeps_trans; [exact H0|]);
    try (apply keeps_remove_other; auto); apply keeps_upd_other; auto. Qed.

Lemma do_drop_eq k r s :
  do_drop k r s =
  match k with
  | KDest => (s, (Ok [0], [], []))
  | _ => match user_obj k r s with
         | None => (s, (Ok [0], [], []))
         | Some o => (set_orphans (remove_orphan k r (orphans (fst (dtor_user k r o s)))) (fst (dtor_user k r o s)),
                      (Ok [1], fst (snd (dtor_user k r o s)), snd (snd (dtor_user k r o s))))
         end
  end.
Proof. unfold do_drop. destruct k; auto; destruct (user_obj _ r s); auto; destruct (dtor_user _ r o s) as [s1 [cbs cmds]]; reflexivity. Qed.

Lemma do_drop_keeps k r k' r' s : k' <> k \/ r' <> r -> keeps k r s (fst (do_drop k' r' s)).
Proof. intros Hne. rewrite do_drop_eq.
  assert (Hd : forall o, keeps k r s (fst (dtor_user k' r' o s))).
  { intros o. unfold dtor_user. destruct k'; try (apply do_release_keeps; auto); destruct (o_closed o);
      try apply keeps_refl; apply do_release_keeps; auto. }
  assert (Hx : forall o, keeps k r s (set_orphans (remove_orphan k' r' (orphans (fst (dtor_user k' r' o s)))) (fst (dtor_user k' r' o s)))).
  { intros o. eapply keeps_trans; [apply Hd|]. apply keeps_same_maps. intros; apply getm_set_orphans. }
  destruct k'; try apply keeps_refl; destruct (user_obj _ r' s); try apply keeps_refl; apply Hx. Qed.

Lemma on_error_keeps k r corr code s : keeps k r s (on_error corr code s).
Proof. unfold on_error.
  assert (H : forall kk e, lookup corr (getm kk s) = Some e -> keeps k r s (setm kk (upd corr (set_error code) (getm kk s)) s)).
  { intros kk e El. apply (keeps_upd_at k r kk corr _ s e El). intros o Ho _. exists o. split; [rewrite set_error_obj; exact Ho|apply obj_same_refl]. }
  destruct (lookup corr (subs s)) eqn:E1. { apply (H KSub e E1). }
  destruct (lookup corr (pubs s)) eqn:E2. { apply (H KPub e E2). }
  destruct (lookup corr (xpubs s)) eqn:E3. { apply (H KXPub e E3). }
  destruct (lookup corr (ctrs s)) eqn:E4. { apply (H KCtr e E4). }
  destruct (lookup corr (dests s)) eqn:E5. { apply (H KDest e E5). }
  apply keeps_refl. Qed.

(* a channel endpoint error makes the conductor close and forget handles the user holds: it is the one event (besides the
   ones that close the client) after which a held handle is no longer the registered one (Proofs/ConductorChan.v) *)
Definition is_chan_error (ev : event) : bool := match ev with EvChanError _ => true | _ => false end.
Definition chan_op (o : op) : bool := match o with DoWork (BEvent (EvChanError _)) => true | _ => false end.
Definition no_chan (ops : list op) : Prop := forall x, ~ In (DoWork (BEvent (EvChanError x))) ops.

Lemma on_event_keeps k r ev s : inv s -> is_chan_error ev = false ->
  keeps k r s (fst (fst (on_event ev s))) \/ closed (fst (fst (on_event ev s))) = true.
Proof. intros I Hnc. destruct ev; cbn [on_event].
  - left. destruct (lookup corr (pubs s)) as [e|] eqn:El; [|apply keeps_refl]. destruct (is_awaiting e); [|apply keeps_refl].
    cbn [fst]. apply (keeps_upd_at k r KPub corr _ s e El). intros o Ho _. exists o. split; [exact Ho|apply obj_same_refl].
  - left. destruct (lookup id (xpubs s)) as [e|] eqn:El; [|apply keeps_refl]. destruct (is_awaiting e); [|apply keeps_refl].
    cbn [fst]. apply (keeps_upd_at k r KXPub id _ s e El). intros o Ho _. exists o. split; [exact Ho|apply obj_same_refl].
  - left. destruct (lookup corr (subs s)) as [e|] eqn:El; [|apply keeps_refl]. destruct (is_awaiting e) eqn:Ea; [|apply keeps_refl].
    cbn [fst]. apply (keeps_upd_at k r KSub corr _ s e El). intros o Ho _.
    destruct (inv_lookup s KSub corr e I El) as [_ He]. rewrite (is_awaiting_obj e He Ea) in Ho. discriminate.
  - left. destruct (lookup corr (dests s)) as [e|] eqn:El; [|apply keeps_refl]. destruct (is_awaiting e); [|apply keeps_refl].
    cbn [fst]. apply (keeps_upd_at k r KDest corr _ s e El). intros o Ho _. exists o. split; [exact Ho|apply obj_same_refl].
  - left. cbn [fst]. apply on_error_keeps.
  - left. destruct (lookup subreg (subs s)) as [e|] eqn:El; [|apply keeps_refl]. destruct (e_obj e) as [o|] eqn:Eo; [|apply keeps_refl].
    cbn [fst]. apply (keeps_upd_at k r KSub subreg _ s e El). intros o1 Ho1 _. rewrite Eo in Ho1. inversion Ho1; subst.
    eexists. split; [reflexivity|]. unfold obj_same. cbn. tauto.
  - left. destruct (lookup subreg (subs s)) as [e|] eqn:El; [|apply keeps_refl]. destruct (e_obj e) as [o|] eqn:Eo; [|apply keeps_refl].
    destruct (remove_first corr (o_images o)); [|apply keeps_refl].
    cbn [fst]. apply (keeps_upd_at k r KSub subreg _ s e El). intros o1 Ho1 _. rewrite Eo in Ho1. inversion Ho1; subst.
    eexists. split; [reflexivity|]. unfold obj_same. cbn. tauto.
  - left. destruct (lookup corr (ctrs s)) as [e|] eqn:El; [|apply keeps_refl]. destruct (is_awaiting e) eqn:Ea; [|apply keeps_refl].
    cbn [fst]. apply (keeps_upd_at k r KCtr corr _ s e El). intros o Ho _.
    destruct (inv_lookup s KCtr corr e I El) as [_ He]. rewrite (is_awaiting_obj e He Ea) in Ho. discriminate.
  - left. apply keeps_refl.
  - destruct ((cid =? client_id s) && negb (closed s)); [|left; apply keeps_refl].
    right. pose proof (close_all_closed s) as H. destruct (close_all s) as [[s1 cbs] hang]. exact H.
  - discriminate. Qed.

(* "stable": user-held handles keep their identity unless the client closes; closed is absorbing *)
Definition stable (s s' : st) : Prop :=
  (forall k r, keeps k r s s' \/ closed s' = true) /\ (closed s = true -> closed s' = true).

Lemma stable_refl s : stable s s.
Proof. split; auto. intros. left. apply keeps_refl. Qed.

Lemma stable_trans a b c : stable a b -> stable b c -> stable a c.
Proof. intros [A1 A2] [B1 B2]. split; auto. intros k r.
  destruct (A1 k r) as [A|A]; [|right; auto]. destruct (B1 k r) as [B|B]; [|right; auto]. left. eapply keeps_trans; eauto. Qed.

Lemma stable_same s s' : (forall k, getm k s' = getm k s) -> closed s' = closed s -> stable s s'.
Proof. intros H Hc. split; [|congruence]. intros. left. apply keeps_same_maps; auto. Qed.

Lemma close_all_stable s s1 cbs hang : close_all s = (s1, cbs, hang) -> stable s s1.
Proof. intros H. pose proof (close_all_closed s) as Hc. rewrite H in Hc. cbn in Hc. split; auto. Qed.

Lemma hc_service_stable c t s : stable s (fst (fst (hc_service c t s))).
Proof. unfold hc_service. dmatch; [|apply stable_refl]. destruct (close_all s) as [[s1 cbs] hang] eqn:E. eapply close_all_stable; eauto. Qed.
Lemma hc_driver_stable c t s : stable s (fst (hc_driver c t s)).
Proof. unfold hc_driver. dmatch; [|apply stable_refl]. apply stable_same; [intros k; destruct k|]; reflexivity. Qed.
Lemma hc_heartbeat_stable s : stable s (fst (fst (hc_heartbeat s))).
Proof. unfold hc_heartbeat. destruct (hb_bound s); destruct (hb_env s =? 1); try apply stable_refl.
  - destruct (close_all s) as [[s1 cbs] hang] eqn:E. eapply close_all_stable; eauto.
  - apply stable_same; [intros k; destruct k|]; reflexivity. Qed.
Lemma hc_keepalive_stable c t s : stable s (fst (fst (fst (hc_keepalive c t s)))).
Proof. unfold hc_keepalive. dmatch; [|apply stable_refl].
  pose proof (hc_driver_stable c t s) as H1. destruct (hc_driver c t s) as [s' cbs']. cbn [fst] in H1.
  pose proof (hc_heartbeat_stable s') as H2. destruct (hc_heartbeat s') as [[s'' cbs''] hang'']. cbn [fst] in *.
  eapply stable_trans; [exact H1|]. eapply stable_trans; [exact H2|]. apply stable_same; [intros k; destruct k|]; reflexivity. Qed.
Lemma hc_resources_stable t s : stable s (fst (hc_resources t s)).
Proof. unfold hc_resources. dmatch; [|apply stable_refl]. apply stable_same; [intros k; destruct k|]; reflexivity. Qed.

Lemma heartbeat_check_stable c s : stable s (fst (fst (fst (heartbeat_check c s)))).
Proof. unfold heartbeat_check.
  pose proof (hc_service_stable c (now s) s) as H1. destruct (hc_service c (now s) s) as [[s1 cbs1] hang1]. cbn [fst] in H1.
  pose proof (hc_keepalive_stable c (now s) (set_t_work (now s) s1)) as H3.
  destruct (hc_keepalive c (now s) (set_t_work (now s) s1)) as [[[s3 cbs3] hang3] r3]. cbn [fst] in H3.
  pose proof (hc_resources_stable (now s) s3) as H4. destruct (hc_resources (now s) s3) as [s4 r4]. cbn [fst] in *.
  eapply stable_trans; [exact H1|]. eapply stable_trans; [|eapply stable_trans; [exact H3|exact H4]].
  apply stable_same; [intros k; destruct k|]; reflexivity. Qed.

Lemma on_event_closed_mono ev s : closed s = true -> closed (fst (fst (on_event ev s))) = true.
Proof. intros Hc. destruct ev; cbn [on_event]; repeat dmatch; cbn [fst]; rewrite ?setm_closed; auto.
  - unfold on_error. repeat dmatch; rewrite ?setm_closed; auto.
  - pose proof (close_all_closed s) as H. rewrite Heqp in H. exact H. Qed.

Lemma on_event_stable ev s : inv s -> is_chan_error ev = false -> stable s (fst (fst (on_event ev s))).
Proof. intros I Hnc. split; [intros; apply on_event_keeps; auto|apply on_event_closed_mono]. Qed.

(* closed is absorbing under every duty cycle, channel endpoint errors included *)
Lemma do_work_closed_mono c b s : closed s = true -> closed (fst (do_work c b s)) = true.
Proof. intros Hc. unfold do_work. destruct b; auto.
  - destruct (heartbeat_check_stable c s) as [_ H]. cbn. destruct (heartbeat_check c s) as [[[s2 cbs2] hang2] r]. destruct hang2; cbn [fst] in *; auto.
  - pose proof (on_event_closed_mono e s Hc) as H1. destruct (on_event e s) as [[s1 cbs1] hang1]. cbn [fst] in *. destruct hang1; [exact H1|].
    destruct (heartbeat_check_stable c s1) as [_ H]. destruct (heartbeat_check c s1) as [[[s2 cbs2] hang2] r]. destruct hang2; cbn [fst] in *; auto. Qed.

Lemma do_work_stable c b s : inv s -> chan_op (DoWork b) = false -> stable s (fst (do_work c b s)).
Proof. intros I Hnc. unfold do_work. destruct b; try apply stable_refl.
  - pose proof (heartbeat_check_stable c s) as H. cbn. destruct (heartbeat_check c s) as [[[s2 cbs2] hang2] r]. destruct hang2; exact H.
  - assert (Hnc' : is_chan_error e = false) by (destruct e; auto).
    pose proof (on_event_stable e s I Hnc') as H1. pose proof (on_event_inv e s I) as I1.
    destruct (on_event e s) as [[s1 cbs1] hang1]. cbn [fst] in *. destruct hang1; [exact H1|].
    pose proof (heartbeat_check_stable c s1) as H. destruct (heartbeat_check c s1) as [[[s2 cbs2] hang2] r].
    destruct hang2; cbn [fst] in *; eapply stable_trans; eauto. Qed.

Lemma do_close_stable s : stable s (fst (do_close s)).
Proof. unfold do_close. destruct (close_all s) as [[s1 cbs] hang] eqn:E. pose proof (close_all_stable _ _ _ _ E) as H.
  destruct hang; [exact H|]. destruct (close_sent s1); [exact H|]. cbn [fst].
  eapply stable_trans; [exact H|]. apply stable_same; [intros k; destruct k|]; reflexivity. Qed.

Lemma do_release_closed_eq k r imgs s : closed (fst (do_release k r imgs s)) = closed s.
Proof. apply do_release_closed. Qed.

(* every operation except dropping (k, r) itself *)
Lemma step_stable c s o k r : inv s -> o <> DropHandle k r -> chan_op o = false ->
  (keeps k r s (fst (step c s o)) \/ closed (fst (step c s o)) = true) /\ (closed s = true -> closed (fst (step c s o)) = true).
Proof. intros I Hne Hnc. destruct o; cbn [step].
  - split; [left; apply do_add_keeps; auto|]. intros Hc. unfold do_add. rewrite Hc. repeat dmatch; auto.
  - split; [left; apply do_find_keeps|]. intros Hc. rewrite find_closed; auto.
  - split.
    + left. apply do_drop_keeps. destruct (kind_eqb k0 k) eqn:E; [|left; apply kind_eqb_neq; auto].
      apply kind_eqb_eq in E. subst. right. intros ->. apply Hne. reflexivity.
    + intros Hc. rewrite do_drop_eq. destruct k0; auto; destruct (user_obj _ r0 s); auto; cbn [fst];
        match goal with |- closed (set_orphans _ ?b) = true => change (closed b = true) end; rewrite dtor_user_closed; auto.
  - rewrite do_peek_state. split; auto. left. apply keeps_refl.
  - destruct (do_close_stable s) as [A B]. split; auto.
  - cbn [fst]. split; auto. left. apply keeps_same_maps. intros kk; destruct kk; reflexivity.
  - cbn [fst]. split; auto. left. apply keeps_same_maps. intros kk; destruct kk; reflexivity.
  - cbn [fst]. split; auto. left. apply keeps_same_maps. intros kk; destruct kk; reflexivity.
  - cbn [fst]. split; auto. left. apply keeps_same_maps. intros kk; destruct kk; reflexivity.
  - destruct (do_work_stable c b s I Hnc) as [A B]. split; auto.
  - unfold do_close_handle. destruct k0; try (split; [left; apply keeps_refl|auto]); destruct (user_obj _ r0 s); cbn [fst];
      try (split; [left; apply keeps_refl|auto]); (split; [left; apply keeps_same_maps; intros kk; destruct kk; reflexivity|auto]). Qed.

Lemma keeps_held k r h s s' : keeps k r s s' -> held k r h s -> held k r h s'.
Proof. intros K (o & Ho & Hu & Hh). destruct (K o Ho Hu) as (o' & Ho' & S). exists o'. unfold obj_same in S. intuition congruence. Qed.

(* C09: while the handle is held (no drop of it in the history), every lookup returns that same handle,
   or reports that the client has been closed *)
Lemma find_same_while_held c k r h : k <> KDest -> forall ops s,
  inv s -> (held k r h s \/ closed s = true) -> ~ In (DropHandle k r) ops -> no_chan ops ->
  Forall (fun p => fst p = Find k r -> snd p = (Ok [h], [], []) \/ snd p = (Err Closed, [], []))
         (combine ops (snd (run c s ops))).
Proof. intros Hk. induction ops as [|o ops IH]; intros s I Hh Hnd Hnch; cbn; [constructor|].
  assert (Hne : o <> DropHandle k r) by (intros ->; apply Hnd; left; reflexivity).
  assert (Hnc : chan_op o = false).
  { destruct o; auto. destruct b; auto. destruct e; auto. exfalso. apply (Hnch x). left. reflexivity. }
  pose proof (step_inv c s o I) as I1. pose proof (step_stable c s o k r I Hne Hnc) as [S1 S2].
  destruct (step c s o) as [s1 x] eqn:Es. cbn [fst] in *.
  assert (Hh1 : held k r h s1 \/ closed s1 = true).
  { destruct Hh as [Hh|Hc]; [|right; auto]. destruct S1 as [K|Hc]; [left; eapply keeps_held; eauto|right; auto]. }
  specialize (IH s1 I1 Hh1 (fun H => Hnd (or_intror H)) (fun x H => Hnch x (or_intror H))). destruct (run c s1 ops) as [s2 xs]. cbn [snd] in *.
  constructor; auto. cbn. intros ->. cbn [step] in Es.
  destruct (closed s) eqn:Ec.
  - rewrite find_closed in Es by auto. inversion Es. auto.
  - destruct Hh as [Hh|Hc]; [|congruence]. rewrite (find_held c k r h s Hk Ec Hh) in Es. inversion Es. auto. Qed.

(* =================================================================================================== *)
(* release: dropping a held handle of an open client                                                   *)
(* =================================================================================================== *)
Lemma user_obj_held k r h s : held k r h s -> exists o, user_obj k r s = Some o /\ hobj k r s = Some o /\ o_h o = h.
Proof. intros (o & Ho & Hu & Hh). unfold hobj in *. unfold user_obj. destruct (lookup r (getm k s)) as [e|]; [|discriminate].
  rewrite Ho, Hu. exists o. repeat split; auto. Qed.

Lemma release_held k r h s : k <> KDest -> inv s -> held k r h s -> ring_full s = false ->
  exists s' cbs,
    do_drop k r s = (s', (Ok [1], cbs, [Cmd (remove_cmd_type k) (client_id s) (next_corr s) [r]])) /\
    lookup r (getm k s') = None /\ next_corr s' = next_corr s + 1 /\
    (forall k' r', k' <> k \/ r' <> r -> lookup r' (getm k' s') = lookup r' (getm k' s)).
Proof. intros Hk I Hh Hrf. destruct (user_obj_held _ _ _ _ Hh) as (o & Hu & Ho & _).
  unfold hobj in Ho. destruct (lookup r (getm k s)) as [e|] eqn:El; [|discriminate].
  destruct (inv_lookup _ _ _ _ I El) as [_ [_ Hop]]. specialize (Hop o Ho).
  assert (Hrel : forall imgs, exists cbs, do_release k r imgs s =
             (setm k (remove r (getm k (set_next_corr (next_corr s + 1) s))) (set_next_corr (next_corr s + 1) s),
              (cbs, [Cmd (remove_cmd_type k) (client_id s) (next_corr s) [r]]))).
  { intros imgs. unfold do_release. rewrite El, Hrf. eauto. }
  assert (Hd : exists cbs, dtor_user k r o s =
             (setm k (remove r (getm k (set_next_corr (next_corr s + 1) s))) (set_next_corr (next_corr s + 1) s),
              (cbs, [Cmd (remove_cmd_type k) (client_id s) (next_corr s) [r]]))).
  { unfold dtor_user. destruct k; try congruence; rewrite ?Hop; apply Hrel. }
  destruct Hd as (cbs & Hd). rewrite do_drop_eq, Hu, Hd. cbn [fst snd].
  eexists. exists cbs. split; [destruct k; try congruence; reflexivity|]. split; [|split].
  - rewrite getm_set_orphans, getm_setm_same. apply lookup_remove_same.
  - cbn. rewrite setm_next_corr. reflexivity.
  - intros k' r' Hne. rewrite getm_set_orphans, getm_setm. destruct (kind_eqb k' k) eqn:E; rewrite getm_set_next_corr; auto.
    apply kind_eqb_eq in E. subst. apply lookup_remove_other. destruct Hne; congruence. Qed.

(* the same drop while the ring refuses the Remove command: no command; a subscription (exclusive publication) is
   released locally all the same - its images reported, the registration gone; a publication / counter keeps its
   registration with a dead handle (release_publication / release_counter return the error) *)
Lemma next_corr_set_orphans v s : next_corr (set_orphans v s) = next_corr s. Proof. reflexivity. Qed.

Lemma release_held_refused k r h s : k <> KDest -> inv s -> held k r h s -> ring_full s = true ->
  exists s' cbs, do_drop k r s = (s', (Ok [1], cbs, [])) /\ next_corr s' = next_corr s + 1 /\
    (forall k' r', k' <> k \/ r' <> r -> lookup r' (getm k' s') = lookup r' (getm k' s)) /\
    match k with
    | KPub | KCtr => exists e, lookup r (getm k s') = Some e /\ e_status e = Dropped /\ e_obj e = None
    | _ => lookup r (getm k s') = None
    end.
Proof. intros Hk I Hh Hrf. destruct (user_obj_held _ _ _ _ Hh) as (o & Hu & Ho & _).
  unfold hobj in Ho. destruct (lookup r (getm k s)) as [e|] eqn:El; [|discriminate].
  destruct (inv_lookup _ _ _ _ I El) as [_ [_ Hop]]. specialize (Hop o Ho).
  assert (Hfr : forall (m : amap -> amap), (forall r', r' <> r -> lookup r' (m (getm k s)) = lookup r' (getm k s)) ->
            forall k' r', k' <> k \/ r' <> r ->
            lookup r' (getm k' (setm k (m (getm k (set_next_corr (next_corr s + 1) s))) (set_next_corr (next_corr s + 1) s))) = lookup r' (getm k' s)).
  { intros m Hm k' r' Hne. rewrite getm_setm. destruct (kind_eqb k' k) eqn:E; rewrite getm_set_next_corr; auto.
    apply kind_eqb_eq in E. subst. apply Hm. destruct Hne; congruence. }
  assert (Hrem : forall cbs : list cb, exists s', (setm k (remove r (getm k (set_next_corr (next_corr s + 1) s))) (set_next_corr (next_corr s + 1) s)) = s' /\
            next_corr s' = next_corr s + 1 /\ (forall k' r', k' <> k \/ r' <> r -> lookup r' (getm k' s') = lookup r' (getm k' s)) /\
            lookup r (getm k s') = None).
  { intros _. eexists. split; [reflexivity|]. split; [rewrite setm_next_corr; reflexivity|]. split.
    - apply (Hfr (remove r)). intros. apply lookup_remove_other; auto.
    - rewrite getm_setm_same. apply lookup_remove_same. }
  assert (Hupd : exists s', (setm k (upd r (fun e => set_obj None (set_status Dropped e)) (getm k (set_next_corr (next_corr s + 1) s))) (set_next_corr (next_corr s + 1) s)) = s' /\
            next_corr s' = next_corr s + 1 /\ (forall k' r', k' <> k \/ r' <> r -> lookup r' (getm k' s') = lookup r' (getm k' s)) /\
            exists e', lookup r (getm k s') = Some e' /\ e_status e' = Dropped /\ e_obj e' = None).
  { eexists. split; [reflexivity|]. split; [rewrite setm_next_corr; reflexivity|]. split.
    - apply (Hfr (upd r _)). intros. apply lookup_upd_other; auto.
    - rewrite getm_setm_same, getm_set_next_corr, lookup_upd_same, El. cbn. eauto. }
  rewrite do_drop_eq, Hu. unfold dtor_user.
  destruct k; try congruence; rewrite ?Hop; unfold do_release; rewrite El, Hrf; cbn [fst snd].
  - destruct Hupd as (s' & <- & A & B & C). eexists. eexists. split; [reflexivity|]. rewrite next_corr_set_orphans. split; [exact A|]. split; [|exact C].
    intros k' r' Hne. rewrite getm_set_orphans. apply B; auto.
  - destruct (Hrem []) as (s' & <- & A & B & C). eexists. eexists. split; [reflexivity|]. rewrite next_corr_set_orphans. split; [exact A|]. split; [|rewrite getm_set_orphans; exact C].
    intros k' r' Hne. rewrite getm_set_orphans. apply B; auto.
  - destruct (Hrem []) as (s' & <- & A & B & C). eexists. eexists. split; [reflexivity|]. rewrite next_corr_set_orphans. split; [exact A|]. split; [|rewrite getm_set_orphans; exact C].
    intros k' r' Hne. rewrite getm_set_orphans. apply B; auto.
  - destruct Hupd as (s' & <- & A & B & C). eexists. eexists. split; [reflexivity|]. rewrite next_corr_set_orphans. split; [exact A|]. split; [|exact C].
    intros k' r' Hne. rewrite getm_set_orphans. apply B; auto. Qed.

(* =================================================================================================== *)
(* ClientClose: written by the first close, never again, by nothing else                               *)
(* =================================================================================================== *)
Definition is_client_close (c : cmd) : bool := cmd_ty c =? GenConsts.CMD_ClientClose.
Definition count_close (xs : list out) : nat := length (filter is_client_close (all_cmds xs)).

Lemma add_type_not_close k a1 : (add_cmd_type k a1 =? GenConsts.CMD_ClientClose) = false.
Proof. unfold add_cmd_type. destruct k; try reflexivity. repeat dmatch; reflexivity. Qed.
Lemma remove_type_not_close k : (remove_cmd_type k =? GenConsts.CMD_ClientClose) = false.
Proof. destruct k; reflexivity. Qed.

Lemma do_release_no_close k r imgs s : filter is_client_close (snd (snd (do_release k r imgs s))) = [].
Proof. unfold do_release. dmatch; [|reflexivity]. destruct (ring_full s); [destruct k; reflexivity|].
  cbn [snd filter]. unfold is_client_close, cmd_ty. rewrite remove_type_not_close. reflexivity. Qed.

Lemma close_all_cs s : close_sent (fst (fst (close_all s))) = close_sent s.
Proof. pose proof (close_all_scalars s) as H. cbn in H. tauto. Qed.
Lemma on_event_cs ev s : close_sent (fst (fst (on_event ev s))) = close_sent s.
Proof. destruct ev; cbn [on_event]; repeat dmatch; cbn [fst]; rewrite ?setm_close_sent; auto.
  - unfold on_error. repeat dmatch; rewrite ?setm_close_sent; auto.
  - pose proof (close_all_cs s) as H. rewrite Heqp in H. exact H. Qed.
Lemma close_all_cs' s s1 cbs hang : close_all s = (s1, cbs, hang) -> close_sent s1 = close_sent s.
Proof. intros H. pose proof (close_all_cs s) as X. rewrite H in X. exact X. Qed.
Lemma hc_service_cs c t s : close_sent (fst (fst (hc_service c t s))) = close_sent s.
Proof. unfold hc_service. dmatch; auto. destruct (close_all s) as [[s1 cbs] hang] eqn:E. eapply close_all_cs'; eauto. Qed.
Lemma hc_heartbeat_cs s : close_sent (fst (fst (hc_heartbeat s))) = close_sent s.
Proof. unfold hc_heartbeat. destruct (hb_bound s); destruct (hb_env s =? 1); auto.
  destruct (close_all s) as [[s1 cbs] hang] eqn:E. eapply close_all_cs'; eauto. Qed.
Lemma hc_keepalive_cs c t s : close_sent (fst (fst (fst (hc_keepalive c t s)))) = close_sent s.
Proof. unfold hc_keepalive. dmatch; auto.
  assert (H1 : close_sent (fst (hc_driver c t s)) = close_sent s) by (unfold hc_driver; dmatch; reflexivity).
  destruct (hc_driver c t s) as [s' cbs']. cbn [fst] in H1.
  pose proof (hc_heartbeat_cs s') as H2. destruct (hc_heartbeat s') as [[s'' cbs''] hang'']. cbn [fst] in *. cbn. congruence. Qed.
Lemma heartbeat_check_scalars_cs c s : close_sent (fst (fst (fst (heartbeat_check c s)))) = close_sent s.
Proof. unfold heartbeat_check.
  pose proof (hc_service_cs c (now s) s) as H1. destruct (hc_service c (now s) s) as [[s1 cbs1] hang1]. cbn [fst] in H1.
  pose proof (hc_keepalive_cs c (now s) (set_t_work (now s) s1)) as H3.
  destruct (hc_keepalive c (now s) (set_t_work (now s) s1)) as [[[s3 cbs3] hang3] r3]. cbn [fst] in H3.
  assert (H4 : close_sent (fst (hc_resources (now s) s3)) = close_sent s3) by (unfold hc_resources; dmatch; reflexivity).
  destruct (hc_resources (now s) s3) as [s4 r4]. cbn [fst] in *. cbn in H3. congruence. Qed.

Lemma close_all_rf s : ring_full (fst (fst (close_all s))) = ring_full s.
Proof. apply close_all_ring. Qed.
Lemma on_event_rf ev s : ring_full (fst (fst (on_event ev s))) = ring_full s.
Proof. destruct ev; cbn [on_event]; repeat dmatch; cbn [fst]; rewrite ?setm_ring_full; auto.
  - unfold on_error. repeat dmatch; rewrite ?setm_ring_full; auto.
  - pose proof (close_all_rf s) as H. rewrite Heqp in H. exact H. Qed.
Lemma close_all_rf' s s1 cbs hang : close_all s = (s1, cbs, hang) -> ring_full s1 = ring_full s.
Proof. intros H. pose proof (close_all_rf s) as X. rewrite H in X. exact X. Qed.
Lemma hc_service_rf c t s : ring_full (fst (fst (hc_service c t s))) = ring_full s.
Proof. unfold hc_service. dmatch; auto. destruct (close_all s) as [[s1 cbs] hang] eqn:E. eapply close_all_rf'; eauto. Qed.
Lemma hc_heartbeat_rf s : ring_full (fst (fst (hc_heartbeat s))) = ring_full s.
Proof. unfold hc_heartbeat. destruct (hb_bound s); destruct (hb_env s =? 1); auto.
  destruct (close_all s) as [[s1 cbs] hang] eqn:E. eapply close_all_rf'; eauto. Qed.
Lemma hc_keepalive_rf c t s : ring_full (fst (fst (fst (hc_keepalive c t s)))) = ring_full s.
Proof. unfold hc_keepalive. dmatch; auto.
  assert (H1 : ring_full (fst (hc_driver c t s)) = ring_full s) by (unfold hc_driver; dmatch; reflexivity).
  destruct (hc_driver c t s) as [s' cbs']. cbn [fst] in H1.
  pose proof (hc_heartbeat_rf s') as H2. destruct (hc_heartbeat s') as [[s'' cbs''] hang'']. cbn [fst] in *. cbn. congruence. Qed.
Lemma heartbeat_check_scalars_rf c s : ring_full (fst (fst (fst (heartbeat_check c s)))) = ring_full s.
Proof. unfold heartbeat_check.
  pose proof (hc_service_rf c (now s) s) as H1. destruct (hc_service c (now s) s) as [[s1 cbs1] hang1]. cbn [fst] in H1.
  pose proof (hc_keepalive_rf c (now s) (set_t_work (now s) s1)) as H3.
  destruct (hc_keepalive c (now s) (set_t_work (now s) s1)) as [[[s3 cbs3] hang3] r3]. cbn [fst] in H3.
  assert (H4 : ring_full (fst (hc_resources (now s) s3)) = ring_full s3) by (unfold hc_resources; dmatch; reflexivity).
  destruct (hc_resources (now s) s3) as [s4 r4]. cbn [fst] in *. cbn in H3. congruence. Qed.

Lemma step_close_sent c s o :
  match o with
  | Close => close_sent (fst (step c s o)) = true /\
             length (filter is_client_close (snd (snd (step c s o)))) = (if close_sent s then 0%nat else if ring_full s then 0%nat else 1%nat)
  | _ => close_sent (fst (step c s o)) = close_sent s /\ filter is_client_close (snd (snd (step c s o))) = []
  end.
Proof. destruct o; cbn [step].
  - unfold do_add. repeat dmatch; cbn [fst snd filter]; rewrite ?setm_close_sent; auto.
    unfold is_client_close, cmd_ty. rewrite add_type_not_close. auto.
  - unfold do_find. repeat dmatch; cbn [fst snd filter]; rewrite ?setm_close_sent; auto.
  - rewrite do_drop_eq. destruct k; cbn [fst snd filter]; auto; destruct (user_obj _ r s); cbn [fst snd filter]; auto;
    (split; [change (close_sent (set_orphans ?a ?b)) with (close_sent b);
             unfold dtor_user; try destruct (o_closed o); auto; unfold do_release; dmatch; auto;
             destruct (ring_full s); cbn [fst]; rewrite ?setm_close_sent; auto
            |unfold dtor_user; try destruct (o_closed o); auto; apply do_release_no_close]).
  - unfold do_peek. dmatch; cbn; auto.
  - unfold do_close. pose proof (close_all_scalars s) as H. pose proof (close_all_no_hang s) as Hh. pose proof (close_all_ring s) as Hr.
    destruct (close_all s) as [[s1 cbs] hang]. cbn in H, Hh, Hr. subst hang.
    destruct H as (_ & _ & _ & _ & Hcs & _). rewrite Hcs, Hr. destruct (close_sent s) eqn:E; cbn; auto. destruct (ring_full s); cbn; auto.
  - cbn. auto.
  - cbn. auto.
  - cbn. auto.
  - cbn. auto.
  - unfold do_work. destruct b; cbn [fst snd filter]; auto.
    + pose proof (heartbeat_check_scalars_cs c s) as H. destruct (heartbeat_check c s) as [[[s2 cbs2] hang2] r]. destruct hang2; cbn in *; auto.
    + pose proof (on_event_cs e s) as H1. destruct (on_event e s) as [[s1 cbs1] hang1]. cbn in H1. destruct hang1; cbn [fst snd filter]; auto.
      pose proof (heartbeat_check_scalars_cs c s1) as H. destruct (heartbeat_check c s1) as [[[s2 cbs2] hang2] r].
      destruct hang2; cbn [fst snd filter] in *; split; auto; congruence.
  - unfold do_close_handle. destruct k; cbn; auto; destruct (user_obj _ r s); cbn; auto.
Qed.

(* only SetRingFull changes the ring flag *)
Lemma step_ring_full c s o :
  ring_full (fst (step c s o)) = match o with SetRingFull b => b | _ => ring_full s end.
Proof. destruct o; cbn [step]; try reflexivity.
  - unfold do_add. repeat dmatch; cbn [fst]; rewrite ?setm_ring_full; auto.
  - unfold do_find. repeat dmatch; cbn [fst]; rewrite ?setm_ring_full; auto.
  - rewrite do_drop_eq. destruct k; auto; destruct (user_obj _ r s); auto; cbn [fst];
      change (ring_full (set_orphans ?a ?b)) with (ring_full b);
      unfold dtor_user; try destruct (o_closed o); auto; unfold do_release; dmatch; auto;
      destruct (ring_full s) eqn:E; cbn [fst]; rewrite ?setm_ring_full; cbn; auto.
  - rewrite do_peek_state. reflexivity.
  - unfold do_close. pose proof (close_all_ring s) as Hr. destruct (close_all s) as [[s1 cbs] hang]. cbn in Hr.
    destruct hang; [exact Hr|]. destruct (close_sent s1); cbn; exact Hr.
  - unfold do_work. destruct b; auto.
    + cbn. pose proof (heartbeat_check_scalars_rf c s) as H. destruct (heartbeat_check c s) as [[[s2 cbs2] hang2] r]. destruct hang2; exact H.
    + pose proof (on_event_rf e s) as H1. destruct (on_event e s) as [[s1 cbs1] hang1]. cbn in H1. destruct hang1; [exact H1|].
      pose proof (heartbeat_check_scalars_rf c s1) as H. destruct (heartbeat_check c s1) as [[[s2 cbs2] hang2] r]. cbn in *. destruct hang2; cbn; congruence.
  - unfold do_close_handle. destruct k; cbn; auto; destruct (user_obj _ r s); cbn; auto. Qed.

(* how many ClientClose commands a history writes: one, by its first close, unless the ring refuses it then *)
Fixpoint close_writes (sent full : bool) (ops : list op) : nat :=
  match ops with
  | [] => 0%nat
  | Close :: t => ((if sent then 0 else if full then 0 else 1) + close_writes true full t)%nat
  | SetRingFull b :: t => close_writes sent b t
  | _ :: t => close_writes sent full t
  end.

Lemma client_close_once c ops : forall s,
  count_close (snd (run c s ops)) = close_writes (close_sent s) (ring_full s) ops.
Proof. induction ops as [|o ops IH]; intros s; cbn [run close_writes]; [reflexivity|].
  pose proof (step_close_sent c s o) as H. pose proof (step_ring_full c s o) as Hr.
  destruct (step c s o) as [s1 [[r cbs] cmds]] eqn:Es. cbn [fst snd] in H, Hr.
  specialize (IH s1). destruct (run c s1 ops) as [s2 xs]. cbn [snd] in *.
  unfold count_close, all_cmds in *. cbn [flat_map snd]. rewrite filter_app, app_length. fold (all_cmds xs) in *.
  destruct o; destruct H as [H1 H2]; rewrite H2, IH, H1, Hr; reflexivity. Qed.

(* in particular: a history whose ring never refuses writes exactly one ClientClose iff it contains a close *)
Lemma close_writes_no_refusal ops : (forall b, In (SetRingFull b) ops -> b = false) ->
  forall sent, close_writes sent false ops =
    (if sent then 0%nat else if existsb (fun o => match o with Close => true | _ => false end) ops then 1%nat else 0%nat).
Proof. induction ops as [|o ops IH]; intros Hb sent; cbn [close_writes existsb]; [destruct sent; reflexivity|].
  assert (Hb' : forall b, In (SetRingFull b) ops -> b = false) by (intros; apply Hb; right; auto).
  destruct o; cbn [orb]; try (apply IH; auto).
  - rewrite (IH Hb' true). destruct sent; reflexivity.
  - rewrite (Hb b (or_introl eq_refl)). apply IH; auto. Qed.

(* =================================================================================================== *)
(* isolation: events for unknown / foreign ids change nothing; an event for r1 leaves every r2 <> r1   *)
(* =================================================================================================== *)
Definition ev_id (ev : event) : Z :=
  match ev with
  | EvPubReady corr _ _ _ _ _ => corr | EvXPubReady id _ _ _ _ => id | EvSubReady corr _ => corr | EvOpSuccess corr => corr
  | EvError corr _ => corr | EvAvailImage _ _ _ subreg => subreg | EvUnavailImage _ subreg => subreg
  | EvCounterReady corr _ => corr | EvUnavailCounter corr _ => corr | EvClientTimeout cid => cid
  | EvChanError x => x      (* a channel status indicator id, not a registration id: see is_chan_error *)
  end.
(* the map an event looks its id up in (None: all of them / none) *)
Definition ev_kind (ev : event) : option kind :=
  match ev with
  | EvPubReady _ _ _ _ _ _ => Some KPub | EvXPubReady _ _ _ _ _ => Some KXPub | EvSubReady _ _ => Some KSub
  | EvOpSuccess _ => Some KDest | EvAvailImage _ _ _ _ => Some KSub | EvUnavailImage _ _ => Some KSub
  | EvCounterReady _ _ => Some KCtr | _ => None
  end.
Definition is_client_timeout (ev : event) : bool := match ev with EvClientTimeout _ => true | _ => false end.
Definition counter_cbs (ev : event) : list cb :=
  match ev with EvCounterReady corr cid => [CbAvailCtr corr cid] | EvUnavailCounter corr cid => [CbUnavailCtr corr cid] | _ => [] end.

Lemma on_error_unknown corr code s : (forall k, lookup corr (getm k s) = None) -> on_error corr code s = s.
Proof. intros H. unfold on_error. pose proof (H KSub) as H1. pose proof (H KPub) as H2. pose proof (H KXPub) as H3.
  pose proof (H KCtr) as H4. pose proof (H KDest) as H5. cbn [getm] in *. rewrite H1, H2, H3, H4, H5. reflexivity. Qed.

(* an answer whose id is not registered in the map of its kind (unknown id, or the id of a registration of another
   kind) changes nothing; only the global counter callbacks fire, as they do for every counter of the driver *)
Lemma event_unknown ev s :
  is_client_timeout ev = false -> is_chan_error ev = false ->
  (match ev_kind ev with Some k => lookup (ev_id ev) (getm k s) = None | None => forall k, lookup (ev_id ev) (getm k s) = None end) ->
  on_event ev s = (s, counter_cbs ev, false).
Proof. intros Hct Hch H. destruct ev; cbn in *; try rewrite H; try reflexivity; try discriminate.
  rewrite on_error_unknown; auto. Qed.

Lemma on_error_other corr code s k r2 : r2 <> corr -> lookup r2 (getm k (on_error corr code s)) = lookup r2 (getm k s).
Proof. intros Hne. unfold on_error. repeat dmatch; rewrite ?getm_setm; try reflexivity;
  match goal with |- context [kind_eqb k ?kk] => destruct (kind_eqb k kk) eqn:E end; auto;
  apply kind_eqb_eq in E; subst; apply lookup_upd_other; auto. Qed.

(* an event about r1 leaves every registration r2 <> r1 of every kind exactly as it was *)
Lemma event_isolation ev s k r2 :
  is_client_timeout ev = false -> is_chan_error ev = false -> r2 <> ev_id ev ->
  lookup r2 (getm k (fst (fst (on_event ev s)))) = lookup r2 (getm k s).
Proof. intros Hct Hch Hne. destruct ev; cbn [on_event ev_id] in *; try discriminate;
  try (repeat dmatch; cbn [fst]; rewrite ?getm_setm; try reflexivity;
       match goal with |- context [kind_eqb k ?kk] => destruct (kind_eqb k kk) eqn:E end; auto;
       apply kind_eqb_eq in E; subst; apply lookup_upd_other; auto).
  cbn [fst]. apply on_error_other; auto. Qed.

(* =================================================================================================== *)
(* C10: no operation panics or hangs                                                                   *)
(* =================================================================================================== *)
Definition fine (r : res) : Prop := match r with Ok _ | Err _ => True | _ => False end.

Lemma close_all_no_hang' s s1 cbs hang : close_all s = (s1, cbs, hang) -> hang = false.
Proof. intros H. pose proof (close_all_no_hang s) as X. rewrite H in X. exact X. Qed.

(* the cached subscriptions a channel endpoint error makes the conductor drop were closed just before (close_and_remove_images):
   their destructor does not lock the conductor again *)
Lemma on_chan_error_no_hang x s : snd (on_chan_error x s) = false.
Proof. unfold on_chan_error. cbn [snd]. apply Bool.not_true_is_false. intros H. apply existsb_exists in H.
  destruct H as (o & Hin & Hd). unfold chan_dropped in Hin. apply in_flat_map in Hin. destruct Hin as ([r e] & _ & Hx).
  cbn [fst snd] in Hx. destruct (chan_hit KSub x e) as [o'|]; [|destruct Hx].
  destruct (chan_removed KSub x (r, e) && negb (o_user o')); [|destruct Hx]. destruct Hx as [<-|[]].
  unfold dtor_locked in Hd. rewrite chan_closed_obj_closed in Hd. discriminate. Qed.

Lemma on_event_no_hang ev s : snd (on_event ev s) = false.
Proof. destruct ev; cbn [on_event]; repeat dmatch; try reflexivity; [cbn; eapply close_all_no_hang'; eauto|apply on_chan_error_no_hang]. Qed.

Lemma hc_service_no_hang c t s : snd (hc_service c t s) = false.
Proof. unfold hc_service. dmatch; auto. destruct (close_all s) as [[s1 cbs] hang] eqn:E. apply close_all_no_hang' in E. subst. reflexivity. Qed.
Lemma hc_heartbeat_no_hang s : snd (hc_heartbeat s) = false.
Proof. unfold hc_heartbeat. destruct (hb_bound s); destruct (hb_env s =? 1); auto.
  destruct (close_all s) as [[s1 cbs] hang] eqn:E. apply close_all_no_hang' in E. subst. reflexivity. Qed.
Lemma hc_keepalive_no_hang c t s : snd (fst (hc_keepalive c t s)) = false.
Proof. unfold hc_keepalive. dmatch; auto. destruct (hc_driver c t s) as [s' cbs'].
  pose proof (hc_heartbeat_no_hang s') as H. destruct (hc_heartbeat s') as [[s'' cbs''] hang'']. cbn in *. auto. Qed.
Lemma heartbeat_check_no_hang c s : snd (fst (heartbeat_check c s)) = false.
Proof. unfold heartbeat_check.
  pose proof (hc_service_no_hang c (now s) s) as H1. destruct (hc_service c (now s) s) as [[s1 cbs1] hang1]. cbn in H1. subst.
  pose proof (hc_keepalive_no_hang c (now s) (set_t_work (now s) s1)) as H3.
  destruct (hc_keepalive c (now s) (set_t_work (now s) s1)) as [[[s3 cbs3] hang3] r3]. cbn in H3. subst.
  destruct (hc_resources (now s) s3) as [s4 r4]. reflexivity. Qed.

Lemma step_total c s o : fine (fst (fst (snd (step c s o)))).
Proof. destruct o; cbn [step].
  - unfold do_add. repeat dmatch; exact I.
  - unfold do_find. repeat dmatch; exact I.
  - rewrite do_drop_eq. repeat dmatch; exact I.
  - unfold do_peek. dmatch; exact I.
  - unfold do_close. destruct (close_all s) as [[s1 cbs] hang] eqn:E. apply close_all_no_hang' in E. subst. dmatch; exact I.
  - exact I.
  - exact I.
  - exact I.
  - exact I.
  - unfold do_work. destruct b; try exact I.
    + cbn. pose proof (heartbeat_check_no_hang c s) as H. destruct (heartbeat_check c s) as [[[s2 cbs2] hang2] r]. cbn in H. subst. exact I.
    + pose proof (on_event_no_hang e s) as H1. destruct (on_event e s) as [[s1 cbs1] hang1]. cbn in H1. subst.
      pose proof (heartbeat_check_no_hang c s1) as H. destruct (heartbeat_check c s1) as [[[s2 cbs2] hang2] r]. cbn in H. subst. exact I.
  - unfold do_close_handle. repeat dmatch; exact I. Qed.

Lemma run_total c ops : forall s, Forall (fun x : out => fine (fst (fst x))) (snd (run c s ops)).
Proof. induction ops as [|o ops IH]; intros s; cbn; [constructor|].
  pose proof (step_total c s o) as H. destruct (step c s o) as [s1 x]. specialize (IH s1). destruct (run c s1 ops) as [s2 xs].
  constructor; auto. Qed.

(* an overrun / oversize broadcast is reported as an error and changes nothing: the next duty cycle works on the
   same state as if the fault had not happened *)
Lemma lapped_no_effect c s : step c s (DoWork BLapped) = (s, (Err UnableToKeepUp, [], [])).
Proof. reflexivity. Qed.
Lemma oversize_no_effect c s : step c s (DoWork BOversize) = (s, (Err OtherErr, [], [])).
Proof. reflexivity. Qed.

(* =================================================================================================== *)
(* C10: faults are reported                                                                            *)
(* =================================================================================================== *)
Definition timers_eq (s s' : st) : Prop :=
  now s' = now s /\ t_work s' = t_work s /\ t_keep s' = t_keep s /\ t_res s' = t_res s /\
  driver_hb s' = driver_hb s /\ hb_env s' = hb_env s /\ hb_bound s' = hb_bound s.

Lemma close_all_timers s s1 cbs hang : close_all s = (s1, cbs, hang) -> timers_eq s s1.
Proof. intros H. pose proof (close_all_scalars s) as X. rewrite H in X. cbn in X. unfold timers_eq. tauto. Qed.

Lemma on_event_timers ev s : timers_eq s (fst (fst (on_event ev s))).
Proof. unfold timers_eq. destruct ev; cbn [on_event]; repeat dmatch; cbn [fst];
  rewrite ?setm_now, ?setm_t_work, ?setm_t_keep, ?setm_t_res, ?setm_driver_hb, ?setm_hb_env, ?setm_hb_bound; try tauto.
  - unfold on_error. repeat dmatch;
    rewrite ?setm_now, ?setm_t_work, ?setm_t_keep, ?setm_t_res, ?setm_driver_hb, ?setm_hb_env, ?setm_hb_bound; tauto.
  - apply close_all_timers in Heqp. exact Heqp. Qed.

Lemma in_cbs_service c t s : t_work s + c_tis c < t -> In (CbErr EServiceTimeout) (snd (fst (hc_service c t s))) /\ closed (fst (fst (hc_service c t s))) = true.
Proof. intros H. unfold hc_service. replace (t_work s + c_tis c <? t) with true by lia.
  destruct (close_all s) as [[s1 cbs] hang] eqn:E. cbn. split; [apply in_or_app; right; left; reflexivity|].
  pose proof (close_all_closed s) as X. rewrite E in X. exact X. Qed.

Lemma heartbeat_check_service c s :
  t_work s + c_tis c < now s ->
  In (CbErr EServiceTimeout) (snd (fst (fst (heartbeat_check c s)))) /\ closed (fst (fst (fst (heartbeat_check c s)))) = true.
Proof. intros H. unfold heartbeat_check.
  destruct (in_cbs_service c (now s) s H) as [A B]. destruct (hc_service c (now s) s) as [[s1 cbs1] hang1]. cbn [fst snd] in *.
  pose proof (hc_keepalive_stable c (now s) (set_t_work (now s) s1)) as [_ K].
  destruct (hc_keepalive c (now s) (set_t_work (now s) s1)) as [[[s3 cbs3] hang3] r3]. cbn [fst] in K.
  pose proof (hc_resources_stable (now s) s3) as [_ R]. destruct (hc_resources (now s) s3) as [s4 r4]. cbn [fst snd] in *.
  split; [apply in_or_app; auto|]. apply R, K. exact B. Qed.

(* a duty cycle that comes later than the inter-service time-out after the previous one reports it and closes *)
Lemma stall_reported c b s :
  b <> BLapped -> b <> BOversize -> t_work s + c_tis c < now s ->
  let '(s', (r, cbs, _)) := do_work c b s in In (CbErr EServiceTimeout) cbs /\ closed s' = true.
Proof. intros H1 H2 Ht. unfold do_work. destruct b; try congruence.
  - cbn. pose proof (heartbeat_check_service c s Ht) as H. pose proof (heartbeat_check_no_hang c s) as Hh.
    destruct (heartbeat_check c s) as [[[s2 cbs2] hang2] r]. cbn in *. subst. exact H.
  - pose proof (on_event_timers e s) as T. pose proof (on_event_no_hang e s) as Hh1.
    destruct (on_event e s) as [[s1 cbs1] hang1]. cbn in T, Hh1. subst.
    assert (Ht1 : t_work s1 + c_tis c < now s1) by (unfold timers_eq in T; destruct T as (-> & -> & _); exact Ht).
    pose proof (heartbeat_check_service c s1 Ht1) as H. pose proof (heartbeat_check_no_hang c s1) as Hh.
    destruct (heartbeat_check c s1) as [[[s2 cbs2] hang2] r]. cbn in *. subst. split; [apply in_or_app; tauto|tauto]. Qed.

(* the driver's client-time-out event for this client, while open: everything is closed and the error handler told *)
Lemma client_timeout_reported s :
  closed s = false ->
  let '(s', cbs, _) := on_event (EvClientTimeout (client_id s)) s in In (CbErr EClientTimeout) cbs /\ closed s' = true.
Proof. intros Hc. cbn [on_event]. rewrite Z.eqb_refl, Hc. cbn [andb negb].
  pose proof (close_all_closed s) as X. destruct (close_all s) as [[s1 cbs] hang]. cbn in *. split; auto.
  apply in_or_app. right. left. reflexivity. Qed.

Lemma client_timeout_foreign cid s : cid <> client_id s -> on_event (EvClientTimeout cid) s = (s, [], false).
Proof. intros H. cbn [on_event]. replace (cid =? client_id s) with false by lia. reflexivity. Qed.

(* a silent driver: reported by the keep-alive check, and add_* calls are refused from then on *)
Lemma hc_keepalive_driver c t s :
  t_keep s + KEEPALIVE_TIMEOUT_MS < t -> 0 <= driver_hb s -> driver_hb s + c_tdrv c < t ->
  In (CbErr EWasInactive) (snd (fst (fst (hc_keepalive c t s)))) /\ driver_active (fst (fst (fst (hc_keepalive c t s)))) = false.
Proof. intros H1 H2 H3. unfold hc_keepalive, hc_driver. replace (t_keep s + KEEPALIVE_TIMEOUT_MS <? t) with true by lia.
  replace ((0 <=? driver_hb s) && (driver_hb s + c_tdrv c <? t)) with true by lia.
  assert (Hd : driver_active (fst (fst (hc_heartbeat (set_driver_active false s)))) = false).
  { unfold hc_heartbeat. repeat dmatch; try reflexivity.
    pose proof (close_all_scalars (set_driver_active false s)) as X. rewrite Heqp in X. cbn in X. tauto. }
  destruct (hc_heartbeat (set_driver_active false s)) as [[s'' cbs''] hang'']. cbn in *. auto. Qed.

Lemma driver_silent_reported c s :
  t_keep s + KEEPALIVE_TIMEOUT_MS < now s -> 0 <= driver_hb s -> driver_hb s + c_tdrv c < now s ->
  In (CbErr EWasInactive) (snd (fst (fst (heartbeat_check c s)))) /\ driver_active (fst (fst (fst (heartbeat_check c s)))) = false.
Proof. intros H1 H2 H3. unfold heartbeat_check.
  assert (T : timers_eq s (fst (fst (hc_service c (now s) s)))).
  { unfold hc_service. dmatch; [|unfold timers_eq; tauto]. destruct (close_all s) as [[s1 cbs] hang] eqn:E. eapply close_all_timers; eauto. }
  destruct (hc_service c (now s) s) as [[s1 cbs1] hang1]. cbn [fst] in T. destruct T as (_ & _ & Tk & _ & Th & _).
  assert (K := hc_keepalive_driver c (now s) (set_t_work (now s) s1) ltac:(cbn; lia) ltac:(cbn; lia) ltac:(cbn; lia)).
  destruct (hc_keepalive c (now s) (set_t_work (now s) s1)) as [[[s3 cbs3] hang3] r3]. cbn [fst snd] in K. destruct K as [K1 K2].
  unfold hc_resources. destruct (t_res s3 + RESOURCE_TIMEOUT_MS <? now s); cbn [fst snd]; (split; [apply in_or_app; right; exact K1|exact K2]). Qed.

Lemma inactive_add_refused k a1 a2 a3 s : driver_active s = false -> do_add k a1 a2 a3 s = (s, (Err DriverInactive, [], [])).
Proof. intros H. unfold do_add. rewrite H. reflexivity. Qed.

(* the client's heartbeat counter is gone *)
Lemma heartbeat_lost_reported c s :
  t_keep s + KEEPALIVE_TIMEOUT_MS < now s -> hb_bound s = true -> hb_env s <> 1 ->
  In (CbErr EHeartbeatLost) (snd (fst (fst (heartbeat_check c s)))) /\ closed (fst (fst (fst (heartbeat_check c s)))) = true.
Proof. intros H1 H2 H3. unfold heartbeat_check.
  assert (T : timers_eq s (fst (fst (hc_service c (now s) s)))).
  { unfold hc_service. dmatch; [|unfold timers_eq; tauto]. destruct (close_all s) as [[s1 cbs] hang] eqn:E. eapply close_all_timers; eauto. }
  destruct (hc_service c (now s) s) as [[s1 cbs1] hang1]. cbn [fst] in T. destruct T as (_ & _ & Tk & _ & _ & Te & Tb).
  unfold hc_keepalive. cbn [t_keep set_t_work]. rewrite Tk. replace (t_keep s + KEEPALIVE_TIMEOUT_MS <? now s) with true by lia.
  assert (D : hb_bound (fst (hc_driver c (now s) (set_t_work (now s) s1))) = true /\ hb_env (fst (hc_driver c (now s) (set_t_work (now s) s1))) <> 1).
  { unfold hc_driver. dmatch; cbn; rewrite Te, Tb; auto. }
  destruct (hc_driver c (now s) (set_t_work (now s) s1)) as [s' cbs']. cbn [fst] in D. destruct D as [D1 D2].
  unfold hc_heartbeat. rewrite D1. replace (hb_env s' =? 1) with false by lia.
  pose proof (close_all_closed s') as X. destruct (close_all s') as [[sc cbs] hang]. cbn [fst snd] in *.
  unfold hc_resources. destruct (t_res _ + RESOURCE_TIMEOUT_MS <? now s); cbn [fst snd]; (split; [apply in_or_app; right; apply in_or_app; right; apply in_or_app; right; left; reflexivity|exact X]). Qed.

(* =================================================================================================== *)
(* the matching ready / error answer for an Awaiting registration                                      *)
(* =================================================================================================== *)
Lemma ready_answer_pub corr orig stream session limit chstat s e :
  lookup corr (pubs s) = Some e -> e_status e = Awaiting ->
  exists s', on_event (EvPubReady corr orig stream session limit chstat) s = (s', [CbNewPub corr stream session (e_a1 e)], false) /\
    lookup corr (pubs s') = Some (set_ready session limit chstat orig (e_obj e) e).
Proof. intros He Hs. cbn [on_event]. rewrite He. unfold is_awaiting. rewrite Hs. eexists. split; [reflexivity|].
  cbn [pubs setm]. rewrite lookup_upd_same, He. reflexivity. Qed.

Lemma ready_answer_sub corr chstat s e :
  lookup corr (subs s) = Some e -> e_status e = Awaiting ->
  exists s' e', on_event (EvSubReady corr chstat) s = (s', [CbNewSub corr (e_a2 e) (e_a1 e)], false) /\
    lookup corr (subs s') = Some e' /\ e_status e' = Registered /\
    e_obj e' = Some (mkObj false (-1) false [] chstat 0 0).
Proof. intros He Hs. cbn [on_event]. rewrite He. unfold is_awaiting. rewrite Hs. eexists. eexists. split; [reflexivity|].
  cbn [subs setm]. rewrite lookup_upd_same, He. cbn. auto. Qed.

Lemma ready_answer_counter corr cid s e :
  lookup corr (ctrs s) = Some e -> e_status e = Awaiting ->
  exists s' e', on_event (EvCounterReady corr cid) s = (s', [CbAvailCtr corr cid], false) /\
    lookup corr (ctrs s') = Some e' /\ e_status e' = Registered /\ e_obj e' = Some (mkObj false (-1) false [] cid 0 0).
Proof. intros He Hs. cbn [on_event]. rewrite He. unfold is_awaiting. rewrite Hs. eexists. eexists. split; [reflexivity|].
  cbn [ctrs setm]. rewrite lookup_upd_same, He. cbn. auto. Qed.

(* a duplicated or late ready answer (the registration is not Awaiting any more) changes nothing *)
Lemma ready_answer_not_awaiting_sub corr chstat s e :
  lookup corr (subs s) = Some e -> e_status e <> Awaiting -> on_event (EvSubReady corr chstat) s = (s, [], false).
Proof. intros He Hs. cbn [on_event]. rewrite He. unfold is_awaiting. destruct (e_status e); [congruence| | |]; reflexivity. Qed.
Lemma ready_answer_not_awaiting_pub corr orig stream session limit chstat s e :
  lookup corr (pubs s) = Some e -> e_status e <> Awaiting ->
  on_event (EvPubReady corr orig stream session limit chstat) s = (s, [], false).
Proof. intros He Hs. cbn [on_event]. rewrite He. unfold is_awaiting. destruct (e_status e); [congruence| | |]; reflexivity. Qed.
