(* C03, subscriber with poll flavours: every step keeps the invariant; the position only moves to frame boundaries. *)
Require Import V.Base.MachineInt.
Require Import V.Generated.GenConsts.
Require Import V.Model.LogBase.
Require Import V.Model.Descriptor.
Require Import V.Model.Sched.
Require Import V.Model.AppenderThreads.
Require Import V.Model.ReaderThreads.
Require Import V.Model.ExclThreads.
Require Import V.Model.PollThreads.
Require Import V.Model.ClaimThreads.
Require Import V.Proofs.TailArith.
Require Import V.Proofs.FragArith.
Require Import V.Proofs.ReaderInv.
Require Import V.Proofs.ExclDefs V.Proofs.ExclPub1 V.Proofs.ExclPub2 V.Proofs.ExclPub3 V.Proofs.ExclRd1 V.Proofs.ExclRd2 V.Proofs.ExclRd3.
From Coq Require Import ZifyBool.
Open Scope Z_scope.

Section R.
  Variable c : cfg.
  Hypothesis W : wf_cfg c.

  Lemma flav_hd l : forallb (flav_ok) (v_todo l) = true -> flav_ok (v_flav l) = true.
  Proof. unfold v_flav. destruct (v_todo l); cbn; [reflexivity | lia]. Qed.

  Theorem vstep_inv s gh ol l t s' l' e :
    VInv c gh l -> laidinv c gh -> memok c s gh ol -> (forall pl, ol = Some pl -> XPInv c gh pl) ->
    sub_ok c gh (sh_subpos s) -> adm_rd c s l -> vstep c t s l = Some (s', l', e) ->
    VInv c gh l' /\ sh_mem s' = sh_mem s /\ sub_ok c gh (sh_subpos s').
  Proof. intros [V1 V2 V3 V4 V5 V6] L M HI Hsub A Hstep.
    pose proof (flav_hd l V2) as Hfl. destruct (TL_bounds c W) as (TB & _).
    unfold vstep in Hstep. destruct (v_pc l) eqn:Hpc; try discriminate V1; try discriminate Hstep; inversion Hstep; subst s' l' e; clear Hstep.
    - (* VPos *)
      split; [|split; [reflexivity | assumption]].
      destruct Hsub as (S1 & S2 & S3). specialize (A Hpc). specialize (S3 A).
      pose proof (wf_n0 c W) as Hn0. unfold GB in Hn0.
      assert (Htoff : toff_of c (sh_subpos s) = sh_subpos s mod TL c) by (apply (land_mask c W); assumption).
      assert (Hidx : index_by_position (sh_subpos s) (c_bits c) = (sh_subpos s / TL c) mod 3) by (apply (idx_pos c W); [assumption | unfold two31; lia]).
      rewrite Htoff, Hidx.
      assert (P : forall endo sc, pollf c gh (vl_start l VPos ((sh_subpos s / TL c) mod 3) (sh_subpos s) (sh_subpos s mod TL c) endo sc (sh_subpos s mod TL c))).
      { intros endo sc. exists (sh_subpos s / TL c). cbn. split; [lia|]. split; [reflexivity|]. split; [|split; assumption].
        pose proof (Z.div_mod (sh_subpos s) (TL c) ltac:(lia)). lia. }
      destruct (v_flav l); try discriminate Hfl; apply VInv_vloop; try apply P; assumption.
    - (* VLen *)
      split; [|split; [reflexivity | assumption]].
      pose proof (V3 eq_refl) as P.
      destruct (s_len (sh_mem s (v_idx l) (v_off l)) <=? 0) eqn:El.
      + destruct (is_peek (v_flav l)) eqn:Ep; [destruct (v_flav l); discriminate|]. apply VInv_end; assumption.
      + destruct (len_at_bnd c W s gh ol (v_idx l) (v_off l) M HI ltac:(lia)) as (sl & Hk & Hm).
        destruct P as (g & G1 & G2 & G3 & G4 & G5).
        destruct (L (v_idx l)) as (L1 & _).
        assert (Hnext : bnd c gh (v_idx l) (v_off l + align (s_len sl) FA)) by (eapply isbnd_next; eauto).
        rewrite Hm. constructor; cbn; try assumption; try reflexivity; try (intros; discriminate); try (intros [X | X]; discriminate).
        * intros _. exists g. cbn. auto.
        * intros _. exists sl. cbn. auto.
    - (* VType *)
      split; [|split; [reflexivity | assumption]].
      pose proof (V3 eq_refl) as P. pose proof (V4 eq_refl) as Fr.
      destruct (s_type (sh_mem s (v_idx l) (v_foff l)) =? T_PAD) eqn:Ety.
      + destruct (is_peek (v_flav l)) eqn:Ep; [destruct (v_flav l); discriminate|]. apply VInv_vloop; assumption.
      + constructor; cbn; try assumption; try reflexivity; try (intros; discriminate); try (intros _; assumption).
        intros _. destruct Fr as (sl & F1 & _). exists sl. split; [assumption|]. rewrite M in Ety. unfold expect in Ety. rewrite F1 in Ety. lia.
    - (* VFlags *)
      split; [|split; [reflexivity | assumption]].
      pose proof (V3 eq_refl) as P. pose proof (V4 eq_refl) as Fr.
      constructor; cbn; try assumption; try reflexivity; try (intros; discriminate); try (intros _; assumption).
      + intros _. destruct Fr as (sl & F1 & _). exists sl. split; [assumption|]. rewrite M. unfold expect. rewrite F1. reflexivity.
      + intros _. apply V6. left. reflexivity.
    - (* VBody: the handler *)
      split; [|split; [reflexivity | assumption]].
      pose proof (V3 eq_refl) as P. pose proof (V4 eq_refl) as Fr.
      set (l1 := vl_handled l (v_foff l, v_flen l - HDR, v_flags l, pad_to (Z.to_nat (v_flen l - HDR)) (s_body (sh_mem s (v_idx l) (v_foff l))))).
      assert (P1 : pollf c gh l1) by (apply (pollf_same c gh l); auto).
      assert (Fl1 : forallb (flav_ok) (v_todo l1) = true) by exact V2.
      unfold after_handler. change (v_flav l1) with (v_flav l).
      destruct (v_flav l) eqn:Ef; try discriminate Hfl.
      + apply VInv_vloop; [apply (pollf_same c gh l1) | ]; auto.
      + apply VInv_vloop; [apply (pollf_same c gh l1) | ]; auto.
      + destruct (v_act l1).
        * (* Abort: back to the start of the frame *)
          apply VInv_end; [|assumption]. destruct P as (g & G1 & G2 & G3 & G4 & G5). destruct Fr as (sl & F1 & F2 & F3 & F4).
          exists g. cbn. auto.
        * apply VInv_end; [apply (pollf_same c gh l1) | ]; auto.
        * (* Commit *)
          destruct P as (g & G1 & G2 & G3 & G4 & G5).
          constructor; cbn; try assumption; try reflexivity; try (intros; discriminate); try (intros [X | X]; discriminate).
          intros _. exists g. cbn. unfold v_new_pos. cbn. repeat (split; [try assumption; try lia|]). assumption.
        * apply VInv_vloop; [apply (pollf_same c gh l1) | ]; auto.
      + destruct (v_act l1).
        * apply VInv_end; [|assumption]. destruct P as (g & G1 & G2 & G3 & G4 & G5). destruct Fr as (sl & F1 & F2 & F3 & F4).
          exists g. cbn. auto.
        * apply VInv_end; [apply (pollf_same c gh l1) | ]; auto.
        * destruct P as (g & G1 & G2 & G3 & G4 & G5).
          constructor; cbn; try assumption; try reflexivity; try (intros; discriminate); try (intros [X | X]; discriminate).
          intros _. exists g. cbn. unfold v_new_pos. cbn. repeat (split; [try assumption; try lia|]). assumption.
        * apply VInv_vloop; [apply (pollf_same c gh l1) | ]; auto.
    - (* VCommit *)
      pose proof (V3 eq_refl) as P.
      split; [apply VInv_vloop; assumption|]. split; [reflexivity|].
      destruct P as (g & G1 & G2 & G3 & G4 & G5). cbn [with_subpos sh_subpos]. rewrite G3. rewrite G2 in G4. apply sub_ok_bnd; assumption.
    - (* VSet *)
      pose proof (V3 eq_refl) as P.
      split; [apply VInv_finish; assumption|]. split; [reflexivity|].
      destruct P as (g & G1 & G2 & G3 & G4 & G5). cbn [with_subpos sh_subpos]. unfold v_new_pos. rewrite G3. rewrite G2 in G5.
      replace (g * TL c + v_toff0 l + (v_off l - v_toff0 l)) with (g * TL c + v_off l) by ring. apply sub_ok_bnd; assumption. Qed.
End R.
