(* C03, subscriber with all six poll flavours: every step keeps the invariant; the position only moves to frame boundaries. *)
Require Import V.Base.MachineInt.
Require Import V.Generated.GenConsts.
Require Import V.Model.LogBase.
Require Import V.Model.Descriptor.
Require Import V.Model.Sched.
Require Import V.Model.AppenderThreads.
Require Import V.Model.ReaderThreads.
Require Import V.Model.ExclThreads.
Require Import V.Model.PollThreads.
Require Import V.Model.ClaimThreads.
Require Import V.Proofs.TailArith.
Require Import V.Proofs.FragArith.
Require Import V.Proofs.ReaderInv.
Require Import V.Proofs.ExclDefs V.Proofs.ExclPub1 V.Proofs.ExclPub2 V.Proofs.ExclPub3 V.Proofs.ExclRd1.
Require Import V.Proofs.ExclRd2 V.Proofs.ExclRd3.
From Coq Require Import ZifyBool.
Open Scope Z_scope.

Section R.
  Variable c : cfg.
  Hypothesis W : wf_cfg c.

  Lemma vf_nread l n : v_flav (vl_nread l n) = v_flav l. Proof. reflexivity. Qed.
  Lemma vf_off l o : v_flav (vl_off l o) = v_flav l. Proof. reflexivity. Qed.
  Lemma vf_handled l f : v_flav (vl_handled l f) = v_flav l. Proof. reflexivity. Qed.
  Lemma vf_commit l : v_flav (vl_commit l) = v_flav l. Proof. reflexivity. Qed.
  Lemma vf_padv l b : v_flav (vl_padv l b) = v_flav l. Proof. reflexivity. Qed.
  Lemma vf_pc l pc : v_flav (vl_pc l pc) = v_flav l. Proof. reflexivity. Qed.
  Lemma vf_frame l pc a b d : v_flav (vl_frame l pc a b d) = v_flav l. Proof. reflexivity. Qed.
  Lemma vf_flags l pc a : v_flav (vl_flags l pc a) = v_flav l. Proof. reflexivity. Qed.
  Lemma vf_rpos l : v_flav (vl_rpos l) = v_flav l. Proof. reflexivity. Qed.
  Lemma vf_frags l pc a : v_flav (vl_frags l pc a) = v_flav l. Proof. reflexivity. Qed.
  Ltac vf1 := rewrite ?vf_nread, ?vf_off, ?vf_handled, ?vf_commit, ?vf_padv, ?vf_pc, ?vf_frame, ?vf_flags, ?vf_rpos, ?vf_frags.
  Ltac vf := vf1; vf1; vf1.

  (* a frame-reading state *)
  Lemma VInv_frame gh l sl : pollf c gh l -> pc_flav (v_pc l) (v_flav l) = true -> von_frame (v_pc l) = true ->
    lookup (v_foff l) (xg_fr gh (v_idx l)) = Some sl -> s_len sl = v_flen l -> bnd c gh (v_idx l) (v_foff l) ->
    v_off l = (if match v_pc l with VBType => true | _ => false end then v_foff l else v_foff l + align (v_flen l) FA) ->
    (v_pc l = VBody -> v_flags l = s_flags sl) -> (v_pc l = VFlags \/ v_pc l = VBody -> s_type sl <> T_PAD) -> VInv c gh l.
  Proof. intros P H0 H1 K1 K2 K3 K4 K5 K6. constructor; try assumption.
    - intros _. exact P.
    - intros _. exists sl. auto.
    - intros X. exists sl. auto.
    - intros X. exists sl. auto. Qed.

  Theorem vstep_inv s gh ol l t s' l' e :
    VInv c gh l -> laidinv c gh -> memok c s gh ol -> (forall pl, ol = Some pl -> XPInv c gh pl) ->
    sub_ok c gh (sh_subpos s) -> adm_rd c s l -> vstep c t s l = Some (s', l', e) ->
    VInv c gh l' /\ sh_mem s' = sh_mem s /\ sub_ok c gh (sh_subpos s').
  Proof. intros [V1 V3 V4 V5 V6] L M HI Hsub A Hstep. destruct (TL_bounds c W) as (TB & _).
    unfold vstep in Hstep. destruct (v_pc l) eqn:Hpc; try discriminate Hstep; inversion Hstep; subst s' l' e; clear Hstep; cbn [pc_flav] in V1.
    - (* VPos *)
      split; [|split; [reflexivity | assumption]].
      destruct Hsub as (S1 & S2 & S3). specialize (A Hpc). specialize (S3 A).
      pose proof (wf_n0 c W) as Hn0. unfold GB in Hn0.
      assert (Htoff : toff_of c (sh_subpos s) = sh_subpos s mod TL c) by (apply (land_mask c W); assumption).
      assert (Hidx : index_by_position (sh_subpos s) (c_bits c) = (sh_subpos s / TL c) mod 3) by (apply (idx_pos c W); [assumption | unfold two31; lia]).
      rewrite Htoff, Hidx.
      pose proof (Z.div_mod (sh_subpos s) (TL c) ltac:(lia)) as Hdm.
      assert (P : forall pc endo sc p0, (is_block (v_flav l) = true -> p0 = sh_subpos s mod TL c) ->
                    pollf c gh (vl_start l pc ((sh_subpos s / TL c) mod 3) (sh_subpos s) (sh_subpos s mod TL c) endo sc p0)).
      { intros pc endo sc p0 Hp0. exists (sh_subpos s / TL c). cbn. change (v_flav (vl_start l pc _ _ _ endo sc p0)) with (v_flav l).
        split; [lia|]. split; [reflexivity|]. split; [assumption|]. split; [assumption|]. split; [intros _; lia|].
        split; [intros _; split; [lia|]; exists (sh_subpos s mod TL c); split; [lia | assumption] | exact Hp0]. }
      destruct (v_flav l) eqn:Ef.
      + apply VInv_vloop; [apply P; intros; reflexivity | |]; cbn; change (v_flav (vl_start _ _ _ _ _ _ _ _)) with (v_flav l); rewrite Ef; reflexivity.
      + apply VInv_vloop; [apply P; intros; reflexivity | |]; cbn; change (v_flav (vl_start _ _ _ _ _ _ _ _)) with (v_flav l); rewrite Ef; reflexivity.
      + apply VInv_vloop; [apply P; intros; reflexivity | |]; cbn; change (v_flav (vl_start _ _ _ _ _ _ _ _)) with (v_flav l); rewrite Ef; reflexivity.
      + apply VInv_vloop; [apply P; intros; reflexivity | |]; cbn; change (v_flav (vl_start _ _ _ _ _ _ _ _)) with (v_flav l); rewrite Ef; reflexivity.
      + apply VInv_in; [apply P; intros X; discriminate X | cbn; change (v_flav (vl_start _ _ _ _ _ _ _ _)) with (v_flav l); rewrite Ef; reflexivity | reflexivity | reflexivity].
      + apply VInv_bloop; [apply P; intros; reflexivity |]; cbn; change (v_flav (vl_start _ _ _ _ _ _ _ _)) with (v_flav l); rewrite Ef; reflexivity.
    - (* VVal: controlled_peek validates the position it was given *)
      split; [|split; [reflexivity | assumption]]. pose proof (V3 eq_refl) as P.
      destruct (Image.validate_position _ _ _); [apply VInv_ploop; assumption | apply VInv_finish].
    - (* VLen *)
      split; [|split; [reflexivity | assumption]].
      pose proof (V3 eq_refl) as P.
      destruct (s_len (sh_mem s (v_idx l) (v_off l)) <=? 0) eqn:El.
      + destruct (is_peek (v_flav l)) eqn:Ep; [apply VInv_pend | apply VInv_end]; try assumption. destruct (is_block (v_flav l)); [discriminate | reflexivity].
      + destruct (len_at_bnd c W s gh ol (v_idx l) (v_off l) M HI ltac:(lia)) as (sl & Hk & Hm).
        pose proof P as (g & G1 & G2 & G3 & G4 & G5 & G6 & G7).
        destruct (L (v_idx l)) as (L1 & _).
        assert (Hnext : bnd c gh (v_idx l) (v_off l + align (s_len sl) FA)) by (eapply isbnd_next; eauto).
        rewrite Hm. apply (VInv_frame gh _ sl); cbn; try assumption; try reflexivity; try (intros; discriminate); try (intros [X | X]; discriminate).
        exists g. change (v_flav (vl_frame l VType _ _ _)) with (v_flav l). auto 10.
    - (* VType *)
      split; [|split; [reflexivity | assumption]].
      pose proof (V3 eq_refl) as P. destruct (V4 eq_refl) as (sl & F1 & F2 & F3 & F4). rewrite Hpc in F4. cbn in F4.
      assert (Eb : is_block (v_flav l) = false) by (destruct (is_block (v_flav l)); [discriminate | reflexivity]).
      destruct (s_type (sh_mem s (v_idx l) (v_foff l)) =? T_PAD) eqn:Ety.
      + destruct (is_peek (v_flav l)) eqn:Ep; [|apply VInv_vloop; assumption].
        (* controlled_peek steps over a padding frame: position and resulting position move to its end *)
        apply VInv_ploop; [|exact Ep]. destruct P as (g & G1 & G2 & G3 & G4 & G5 & G6 & G7). destruct (G6 Ep) as (Q1 & _).
        exists g. change (v_flav (vl_padv l true)) with (v_flav l). rewrite Ep, Eb. cbn.
        split; [assumption|]. split; [assumption|]. split; [assumption|]. split; [assumption|]. split; [intros X; discriminate X|].
        split; [intros _; split; [lia|]; exists (v_off l); split; [lia | assumption] | intros X; discriminate X].
      + apply (VInv_frame gh _ sl); cbn; try assumption; try reflexivity; try (intros; discriminate).
        all: try (change (v_flav (vl_pc l VFlags)) with (v_flav l); rewrite Eb; reflexivity).
        all: try (intros _; rewrite M in Ety; unfold expect in Ety; rewrite F1 in Ety; lia).
    - (* VFlags *)
      split; [|split; [reflexivity | assumption]].
      pose proof (V3 eq_refl) as P. destruct (V4 eq_refl) as (sl & F1 & F2 & F3 & F4). rewrite Hpc in F4. cbn in F4.
      apply (VInv_frame gh _ sl); cbn; try assumption; try reflexivity; try (intros; discriminate).
      all: try (intros _; rewrite M; unfold expect; rewrite F1; reflexivity).
      all: try (intros _; destruct (V6 (or_introl eq_refl)) as (sl2 & K1 & K2); congruence).
    - (* VBody: the handler *)
      split; [|split; [reflexivity | assumption]].
      pose proof (V3 eq_refl) as P. destruct (V4 eq_refl) as (sl & F1 & F2 & F3 & F4). rewrite Hpc in F4. cbn in F4.
      set (l1 := vl_handled l (v_foff l, v_flen l - HDR, v_flags l, pad_to (Z.to_nat (v_flen l - HDR)) (s_body (sh_mem s (v_idx l) (v_foff l))))).
      assert (P1 : pollf c gh l1) by (apply (pollf_same c gh l); auto).
      destruct P as (g & G1 & G2 & G3 & G4 & G5 & G6 & G7).
      unfold after_handler. change (v_flav l1) with (v_flav l).
      destruct (v_flav l) eqn:Ef; try discriminate V1.
      + apply VInv_vloop; try (vf; unfold l1; vf; rewrite Ef; reflexivity). apply (pollf_same c gh l1); auto.
      + apply VInv_vloop; try (vf; unfold l1; vf; rewrite Ef; reflexivity). apply (pollf_same c gh l1); auto.
      + destruct (v_act l1).
        * (* Abort: back to the start of the frame *)
          apply VInv_end; try (vf; unfold l1; vf; rewrite Ef; reflexivity). exists g. change (v_flav (vl_off l1 (v_foff l1))) with (v_flav l). rewrite Ef. cbn. auto 10.
        * apply VInv_end; try (vf; unfold l1; vf; rewrite Ef; reflexivity). apply (pollf_same c gh l1); auto.
        * (* Commit *)
          apply VInv_in; [|cbn; vf; unfold l1; vf; rewrite Ef; reflexivity | reflexivity | reflexivity].
          exists g. change (v_flav (vl_commit (vl_nread l1 (v_nread l1 + 1)))) with (v_flav l). rewrite Ef. cbn.
          specialize (G5 eq_refl). unfold v_new_pos. cbn.
          split; [assumption|]. split; [assumption|]. split; [assumption|]. split; [assumption|]. split; [intros _; lia|].
          split; intros X; discriminate X.
        * apply VInv_vloop; try (vf; unfold l1; vf; rewrite Ef; reflexivity). apply (pollf_same c gh l1); auto.
      + destruct (v_act l1).
        * apply VInv_end; try (vf; unfold l1; vf; rewrite Ef; reflexivity). exists g. change (v_flav (vl_off l1 (v_foff l1))) with (v_flav l). rewrite Ef. cbn. auto 10.
        * apply VInv_end; try (vf; unfold l1; vf; rewrite Ef; reflexivity). apply (pollf_same c gh l1); auto.
        * apply VInv_in; [|cbn; vf; unfold l1; vf; rewrite Ef; reflexivity | reflexivity | reflexivity].
          exists g. change (v_flav (vl_commit (vl_nread l1 (v_nread l1 + 1)))) with (v_flav l). rewrite Ef. cbn.
          specialize (G5 eq_refl). unfold v_new_pos. cbn.
          split; [assumption|]. split; [assumption|]. split; [assumption|]. split; [assumption|]. split; [intros _; lia|].
          split; intros X; discriminate X.
        * apply VInv_vloop; try (vf; unfold l1; vf; rewrite Ef; reflexivity). apply (pollf_same c gh l1); auto.
      + (* controlled_peek *)
        destruct (G6 eq_refl) as (Q1 & o_r & Q2 & Q3).
        assert (Pn : pollf c gh (vl_pc (vl_padv l1 false) VFlags2)).
        { exists g. change (v_flav (vl_pc (vl_padv l1 false) VFlags2)) with (v_flav l). rewrite Ef. cbn.
          split; [assumption|]. split; [assumption|]. split; [assumption|]. split; [assumption|]. split; [intros X; discriminate X|].
          split; [intros _; split; [lia|]; exists o_r; split; assumption | intros X; discriminate X]. }
        destruct (v_act l1) eqn:Ea; try (apply VInv_pend; [assumption | unfold l1; vf; rewrite Ef; reflexivity]);
          (apply (VInv_frame gh _ sl); cbn; try assumption; try reflexivity; try (intros; discriminate); try (intros [X | X]; discriminate));
          try (vf; unfold l1; vf; rewrite Ef; reflexivity).
    - (* VFlags2: controlled_peek looks at the flags again *)
      split; [|split; [reflexivity | assumption]].
      pose proof (V3 eq_refl) as P.
      set (l1 := if Z.land (s_flags (sh_mem s (v_idx l) (v_foff l))) F_END =? 0 then l else vl_rpos l).
      assert (Ef1 : v_flav l1 = v_flav l) by (unfold l1; destruct (_ =? 0); reflexivity).
      assert (P1 : pollf c gh l1).
      { unfold l1. destruct (_ =? 0); [assumption|]. destruct P as (g & G1 & G2 & G3 & G4 & G5 & G6 & G7). exists g. change (v_flav (vl_rpos l)) with (v_flav l).
        split; [assumption|]. split; [assumption|]. split; [assumption|]. split; [assumption|]. split; [assumption|]. split; [|assumption].
        intros X. destruct (G6 X) as (Q1 & _). split; [assumption|]. exists (v_toff0 l). split; assumption. }
      destruct (v_act l); try (apply VInv_ploop; [assumption | rewrite Ef1; assumption]). apply VInv_pend; [assumption | rewrite Ef1; assumption].
    - (* VCommit *)
      pose proof (V3 eq_refl) as P.
      assert (Ep : is_peek (v_flav l) = false /\ is_block (v_flav l) = false) by (destruct (v_flav l); try discriminate V1; split; reflexivity).
      destruct Ep as (Ep & Eb).
      split; [apply VInv_vloop; assumption|]. split; [reflexivity|].
      destruct P as (g & G1 & G2 & G3 & G4 & G5 & G6 & G7). cbn [with_subpos sh_subpos].
      rewrite (G5 Ep). rewrite G2 in G3. apply sub_ok_bnd; assumption.
    - (* VSet *)
      pose proof (V3 eq_refl) as P.
      assert (Ep : is_peek (v_flav l) = false) by (destruct (is_peek (v_flav l)); [discriminate | reflexivity]).
      split; [apply VInv_finish|]. split; [reflexivity|].
      destruct P as (g & G1 & G2 & G3 & G4 & G5 & G6 & G7). cbn [with_subpos sh_subpos]. unfold v_new_pos. rewrite (G5 Ep). rewrite G2 in G4.
      replace (g * TL c + v_toff0 l + (v_off l - v_toff0 l)) with (g * TL c + v_off l) by ring. apply sub_ok_bnd; assumption.
    - (* VVal2: set_position validates *)
      split; [|split; [reflexivity | assumption]]. pose proof (V3 eq_refl) as P.
      destruct (Image.validate_position _ _ _); [|apply VInv_finish]. apply VInv_in; [exact P | exact V1 | reflexivity | reflexivity].
    - (* VSetPos: the position a peek arrived at *)
      pose proof (V3 eq_refl) as P. split; [apply VInv_finish|]. split; [reflexivity|].
      destruct P as (g & G1 & G2 & G3 & G4 & G5 & G6 & G7). destruct (G6 V1) as (_ & o_r & Q2 & Q3). cbn [with_subpos sh_subpos].
      rewrite Q2. rewrite G2 in Q3. apply sub_ok_bnd; assumption.
    - (* VBLen: scan *)
      split; [|split; [reflexivity | assumption]]. pose proof (V3 eq_refl) as P.
      destruct (s_len (sh_mem s (v_idx l) (v_off l)) <=? 0) eqn:El; [apply VInv_bend; assumption|].
      destruct (len_at_bnd c W s gh ol (v_idx l) (v_off l) M HI ltac:(lia)) as (sl & Hk & Hm).
      pose proof P as (g & G1 & G2 & G3 & G4 & G5 & G6 & G7).
      rewrite Hm. apply (VInv_frame gh _ sl); cbn; try assumption; try reflexivity; try (intros; discriminate); try (intros [X | X]; discriminate).
    - (* VBType *)
      split; [|split; [reflexivity | assumption]].
      pose proof (V3 eq_refl) as P. destruct (V4 eq_refl) as (sl & F1 & F2 & F3 & F4). rewrite Hpc in F4. cbn in F4.
      destruct (L (v_idx l)) as (L1 & _).
      assert (Hnext : bnd c gh (v_idx l) (v_off l + align (v_flen l) FA)) by (rewrite F4, <- F2; eapply isbnd_next; eauto).
      assert (Padv : pollf c gh (vl_off l (v_off l + align (v_flen l) FA))).
      { destruct P as (g & G1 & G2 & G3 & G4 & G5 & G6 & G7). exists g. change (v_flav (vl_off l _)) with (v_flav l). auto 10. }
      destruct (_ =? T_PAD).
      + destruct (v_p0 l =? v_off l); apply VInv_bend; assumption.
      + destruct (v_end l <? v_off l + align (v_flen l) FA); [apply VInv_bend | apply VInv_bloop]; assumption.
    - (* VBTid *)
      split; [|split; [reflexivity | assumption]]. pose proof (V3 eq_refl) as P. apply VInv_in; [exact P | exact V1 | reflexivity | reflexivity].
    - (* VBRead *)
      split; [|split; [reflexivity | assumption]]. pose proof (V3 eq_refl) as P.
      apply VInv_in; [|exact V1 | reflexivity | reflexivity]. apply (pollf_same c gh l); auto.
    - (* VBSet *)
      pose proof (V3 eq_refl) as P. split; [apply VInv_finish|]. split; [reflexivity|].
      destruct P as (g & G1 & G2 & G3 & G4 & G5 & G6 & G7). cbn [with_subpos sh_subpos].
      assert (Ep : is_peek (v_flav l) = false) by (destruct (v_flav l); try discriminate V1; reflexivity).
      rewrite (G5 Ep), (G7 V1). rewrite G2 in G4.
      replace (g * TL c + v_toff0 l + (v_off l - v_toff0 l)) with (g * TL c + v_off l) by ring. apply sub_ok_bnd; assumption. Qed.
End R.
