Require Import V.Base.MachineInt V.Model.WireBytes V.Model.WireCodes V.Model.WireCommands.
Require Import V.Proofs.WireBytesProofs V.Proofs.WireCommandsProofs V.Oracle.C13Oracle.
From Coq Require Import ZifyBool.
Open Scope Z_scope.

Lemma request_eqb_refl r : request_eqb r r = true.
Proof. unfold request_eqb. destruct (request_eq_dec r r); congruence. Qed.
Lemma bytes_eqb_refl b : bytes_eqb b b = true.
Proof. unfold bytes_eqb. destruct (list_eq_dec Z.eq_dec b b); congruence. Qed.
Lemma records_eqb_refl l : records_eqb l l = true.
Proof. induction l as [|[t x] l IH]; cbn [records_eqb]. - reflexivity. - rewrite Z.eqb_refl, bytes_eqb_refl, IH. reflexivity. Qed.

Lemma wrap64_in z : in_i64 (wrap64 z) = true.
Proof. apply wrap64_range. Qed.

Lemma oracle_cmd_model c0 r :
  in_i64 c0 = true -> wf_request r = true ->
  let '(res, recs, tail, _) := proxy_call c0 r in holds_cmd c0 r res recs recs tail = true.
Proof. intros Hc W. unfold holds_cmd.
  destruct (spec_length r <=? CMD_BUF) eqn:E.
  - rewrite proxy_call_fits by lia.
    rewrite request_code, Z.eqb_refl. cbn [andb].
    rewrite decode_spec_encode_spec; try assumption; try lia.
    2: apply wire_correlation_id_range, wrap64_in.
    rewrite !Z.eqb_refl, request_eqb_refl. cbn [andb]. apply records_eqb_refl.
  - rewrite proxy_call_rejects by lia. reflexivity. Qed.
