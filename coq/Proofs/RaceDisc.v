(* C03, race detector soundness, part 2: the frame discipline (a trace in which every access to a watched region is a first
   (negative length) release write of a new frame, a plain write of the owner inside its uncommitted frame, the release write of the
   positive length, an acquire read of a length word at a frame boundary, or a plain read inside frames the thread has acquired
   committed), its ghost state, and the invariant GI that ties ghost state, detector state and the stamped past together. *)
Require Import V.Base.MachineInt.
Require Import V.Model.Sched.
Require Import V.Proofs.RaceFold.
From Coq Require Import Arith.PeanoNat ZifyBool.
Open Scope Z_scope.

Section Disc.
  Variable cls : accessor -> aclass.
  Variable watch : Z -> bool.

  Record dslot := mkDS { ds_ow : nat; ds_ext : Z; ds_com : bool }.
  Record dghost := mkDG { dg_slot : Z -> Z -> option dslot; dg_seen : nat -> Z -> Z -> bool; dg_acq : Z -> Z -> bool }.
  Definition dg0 : dghost := mkDG (fun _ _ => None) (fun _ _ _ => false) (fun _ _ => false).

  Inductive drole := DOther | DNeg (ext : Z) | DBurst (o : Z) | DCommit | DAcq (sees : bool) | DRead.

  Definition covered (g : dghost) (t : nat) (p lo len : Z) : Prop :=
    0 <= len /\
    (forall b, lo <= b < lo + len -> exists o d, dg_seen g t p o = true /\ dg_slot g p o = Some d /\ o <= b < o + ds_ext d) /\
    (len = 0 -> exists o d, dg_seen g t p o = true /\ dg_slot g p o = Some d /\ o <= lo <= o + ds_ext d).

  Definition role_ok (g : dghost) (e : event) (r : drole) : Prop :=
    let p := e_reg e in let o := e_off e in let t := e_tid e in
    match r with
    | DOther => watch p = false
    | DNeg ext => watch p = true /\ cls (e_acc e) = CRelW /\ e_len e = 4 /\ 8 <= ext /\ dg_slot g p o = None /\
        (forall o' d, dg_slot g p o' = Some d -> o' + ds_ext d <= o \/ o + ext <= o') /\
        (forall oa, dg_acq g p oa = true -> ~ (o < oa < o + ext))
    | DBurst so => watch p = true /\ cls (e_acc e) = CPlainW /\ 0 <= e_len e /\
        exists d, dg_slot g p so = Some d /\ ds_ow d = t /\ ds_com d = false /\ so + 4 <= o /\ o + e_len e <= so + ds_ext d
    | DCommit => watch p = true /\ cls (e_acc e) = CRelW /\ e_len e = 4 /\
        exists d, dg_slot g p o = Some d /\ ds_ow d = t /\ ds_com d = false
    | DAcq sees => watch p = true /\ cls (e_acc e) = CAcqR /\ e_len e = 4 /\
        (forall o' d, dg_slot g p o' = Some d -> ~ (o' < o < o' + ds_ext d)) /\
        (sees = true -> exists d, dg_slot g p o = Some d /\ ds_com d = true)
    | DRead => watch p = true /\ cls (e_acc e) = CPlainR /\ covered g t p o (e_len e)
    end.

  Definition upd2o {A} (f : Z -> Z -> A) (p o : Z) (v : A) : Z -> Z -> A :=
    fun p' o' => if (p' =? p) && (o' =? o) then v else f p' o'.

  Definition role_upd (g : dghost) (e : event) (r : drole) : dghost :=
    let p := e_reg e in let o := e_off e in let t := e_tid e in
    match r with
    | DNeg ext => mkDG (upd2o (dg_slot g) p o (Some (mkDS t ext false))) (dg_seen g) (dg_acq g)
    | DCommit => mkDG (upd2o (dg_slot g) p o (match dg_slot g p o with Some d => Some (mkDS (ds_ow d) (ds_ext d) true) | None => None end))
                      (dg_seen g) (dg_acq g)
    | DAcq sees => mkDG (dg_slot g)
                        (fun t' p' o' => if sees && Nat.eqb t' t && (p' =? p) && (o' =? o) then true else dg_seen g t' p' o')
                        (upd2o (dg_acq g) p o true)
    | _ => g
    end.

  (* a trace that follows the discipline, with the ghost state it leads to *)
  Inductive disc : dghost -> list event -> Prop :=
  | disc_nil : disc dg0 []
  | disc_snoc g tr e r : disc g tr -> role_ok g e r -> disc (role_upd g e r) (tr ++ [e]).

  (* ---- the invariant relating ghost state, detector state and the stamped events ---- *)
  Definition clk (clocks : list vc) (t : nat) : vc := nth t clocks [].

  Definition past_ok (g : dghost) (locs : locmap) (x : event * vc) : Prop :=
    let a := fst x in let va := snd x in
    (* a write of the owner into its slot *)
    ((cls (e_acc a) = CPlainW \/ cls (e_acc a) = CRelW) /\
     exists o d, dg_slot g (e_reg a) o = Some d /\ ds_ow d = e_tid a /\ o <= e_off a /\ e_off a + e_len a <= o + ds_ext d /\ 0 <= e_len a /\
       (cls (e_acc a) = CPlainW -> o + 4 <= e_off a) /\ (cls (e_acc a) = CRelW -> e_off a = o /\ e_len a = 4) /\
       (ds_com d = true -> exists C, loc_get locs (e_reg a) o = Some C /\ (vc_get va (e_tid a) <= vc_get C (e_tid a))%nat))
    \/ (* an acquire read of a length word *)
    (cls (e_acc a) = CAcqR /\ e_len a = 4 /\ dg_acq g (e_reg a) (e_off a) = true)
    \/ (* a plain read inside frames its thread has acquired *)
    (cls (e_acc a) = CPlainR /\ covered g (e_tid a) (e_reg a) (e_off a) (e_len a)).

  Record GI (g : dghost) (clocks : list vc) (locs : locmap) (st : list (event * vc)) : Prop := {
    gi_own : forall x, In x st -> (vc_get (snd x) (e_tid (fst x)) <= vc_get (clk clocks (e_tid (fst x))) (e_tid (fst x)))%nat;
    gi_past : forall x, In x st -> watch (e_reg (fst x)) = true -> past_ok g locs x;
    gi_watch : forall p o d, dg_slot g p o = Some d -> watch p = true /\ 8 <= ds_ext d;
    gi_disj : forall p o1 d1 o2 d2, dg_slot g p o1 = Some d1 -> dg_slot g p o2 = Some d2 -> o1 <> o2 ->
        o1 + ds_ext d1 <= o2 \/ o2 + ds_ext d2 <= o1;
    gi_acq : forall p oa o d, dg_acq g p oa = true -> dg_slot g p o = Some d -> ~ (o < oa < o + ds_ext d);
    gi_loc : forall p o d, dg_slot g p o = Some d -> ds_com d = true -> exists C, loc_get locs p o = Some C;
    gi_seen : forall t p o, dg_seen g t p o = true ->
        exists d C, dg_slot g p o = Some d /\ ds_com d = true /\ loc_get locs p o = Some C /\
                    (vc_get C (ds_ow d) <= vc_get (clk clocks t) (ds_ow d))%nat
  }.

  (* the ghost state only grows *)
  Definition gext (g g' : dghost) : Prop :=
    (forall p o d, dg_slot g p o = Some d -> exists d', dg_slot g' p o = Some d' /\ ds_ow d' = ds_ow d /\ ds_ext d' = ds_ext d /\
                                                     (ds_com d = true -> ds_com d' = true)) /\
    (forall t p o, dg_seen g t p o = true -> dg_seen g' t p o = true) /\
    (forall p o, dg_acq g p o = true -> dg_acq g' p o = true).

  Lemma gext_refl g : gext g g.
  Proof. split; [intros p o d H; exists d; auto | split; auto]. Qed.

  Lemma role_upd_ext g e r : role_ok g e r -> gext g (role_upd g e r).
  Proof. intros H. destruct r; cbn [role_upd]; try apply gext_refl; unfold gext.
    - destruct H as (_ & _ & _ & _ & Hn & _). split; [|split; auto].
      intros p o d Hs. cbn. unfold upd2o. destruct ((p =? e_reg e) && (o =? e_off e)) eqn:E.
      + assert (p = e_reg e /\ o = e_off e) as [-> ->] by lia. congruence.
      + exists d; auto.
    - destruct H as (_ & _ & _ & d0 & Hs0 & _). split; [|split; auto].
      intros p o d Hs. cbn. unfold upd2o. destruct ((p =? e_reg e) && (o =? e_off e)) eqn:E.
      + assert (p = e_reg e /\ o = e_off e) as [-> ->] by lia. rewrite Hs. eexists. repeat split; reflexivity.
      + exists d; auto.
    - split; [intros p o d Hs; exists d; auto|]. split.
      + intros t p o Hs. cbn. rewrite Hs. destruct (_ && _); reflexivity.
      + intros p o Ha. cbn. unfold upd2o. rewrite Ha. destruct (_ && _); reflexivity. Qed.

  Lemma covered_ext g g' t p lo len : gext g g' -> covered g t p lo len -> covered g' t p lo len.
  Proof. intros (E1 & E2 & _) (C0 & C1 & C2). split; [assumption|]. split.
    - intros b Hb. destruct (C1 b Hb) as (o & d & S1 & S2 & S3). destruct (E1 _ _ _ S2) as (d' & X1 & X2 & X3 & X4).
      exists o, d'. rewrite X3. auto.
    - intros Hl. destruct (C2 Hl) as (o & d & S1 & S2 & S3). destruct (E1 _ _ _ S2) as (d' & X1 & X2 & X3 & X4).
      exists o, d'. rewrite X3. auto. Qed.

  (* past events stay fine when the ghost state grows and the release clocks of committed frames are kept *)
  Lemma past_ok_ext g g' locs locs' x : gext g g' ->
    (forall p o d, dg_slot g p o = Some d -> ds_com d = true -> loc_get locs' p o = loc_get locs p o) ->
    (forall p o d d', dg_slot g p o = Some d -> ds_com d = false -> dg_slot g' p o = Some d' -> ds_com d' = true ->
       forall C, loc_get locs' p o = Some C -> e_reg (fst x) = p -> ds_ow d = e_tid (fst x) ->
       (vc_get (snd x) (e_tid (fst x)) <= vc_get C (e_tid (fst x)))%nat) ->
    (forall p o d', dg_slot g' p o = Some d' -> ds_com d' = true -> exists C, loc_get locs' p o = Some C) ->
    past_ok g locs x -> past_ok g' locs' x.
  Proof. intros E HL HN HC [H | [H | H]]; unfold past_ok.
    - left. destruct H as (Hc & o & d & S1 & S2 & S3 & S4 & S5 & S6 & S6' & S7). split; [assumption|].
      destruct E as (E1 & _). destruct (E1 _ _ _ S1) as (d' & X1 & X2 & X3 & X4).
      exists o, d'. rewrite X2, X3. repeat (split; [assumption|]). intros Hcom.
      destruct (ds_com d) eqn:Ed.
      + destruct (S7 eq_refl) as (C & L1 & L2). exists C. rewrite (HL _ _ _ S1 Ed). auto.
      + destruct (HC _ _ _ X1 Hcom) as (C & HCe). exists C. split; [assumption|].
        apply (HN _ _ d d' S1 Ed X1 Hcom C HCe eq_refl). assumption.
    - right; left. destruct H as (H1 & H2 & H3). destruct E as (_ & _ & E3). auto.
    - right; right. destruct H as (H1 & H2). split; [assumption|]. eapply covered_ext; eauto. Qed.

  (* ---- one more event ---- *)
  Lemma mine_ge e clocks locs u : (vc_get (clk clocks (e_tid e)) u <= vc_get (mine_of cls e clocks locs) u)%nat.
  Proof. unfold mine_of, clk. set (m0 := nth (e_tid e) clocks []).
    assert (A : (vc_get m0 u <= vc_get (vc_set m0 (e_tid e) (S (vc_get m0 (e_tid e)))) u)%nat).
    { destruct (Nat.eq_dec u (e_tid e)) as [-> | Hne]; [rewrite vc_get_set_same; lia | rewrite vc_get_set_other by assumption; lia]. }
    destruct (is_acquire_class _); [|exact A]. destruct (loc_get _ _ _); [|exact A]. rewrite vc_get_join. lia. Qed.

  Lemma mine_own e clocks locs : (S (vc_get (clk clocks (e_tid e)) (e_tid e)) <= vc_get (mine_of cls e clocks locs) (e_tid e))%nat.
  Proof. unfold mine_of, clk. set (m0 := nth (e_tid e) clocks []).
    assert (A : vc_get (vc_set m0 (e_tid e) (S (vc_get m0 (e_tid e)))) (e_tid e) = S (vc_get m0 (e_tid e))) by apply vc_get_set_same.
    destruct (is_acquire_class _); [|lia]. destruct (loc_get _ _ _); [|lia]. rewrite vc_get_join. lia. Qed.

  Lemma mine_acq e clocks locs C u : is_acquire_class (cls (e_acc e)) = true -> loc_get locs (e_reg e) (e_off e) = Some C ->
    (vc_get C u <= vc_get (mine_of cls e clocks locs) u)%nat.
  Proof. intros Ha Hl. unfold mine_of. rewrite Ha, Hl, vc_get_join. lia. Qed.

  Lemma clk_set_same clocks t x : clk (set_nth_vc clocks t x) t = x.
  Proof. apply nth_set_nth_same. Qed.
  Lemma clk_set_other clocks t t' x : t' <> t -> clk (set_nth_vc clocks t x) t' = clk clocks t'.
  Proof. apply nth_set_nth_other. Qed.

  Lemma conflict_inv a e : conflict cls watch a e = true ->
    e_tid a <> e_tid e /\ watch (e_reg a) = true /\ e_reg a = e_reg e /\ e_off a < e_off e + e_len e /\ e_off e < e_off a + e_len a /\
    (is_write_class (cls (e_acc a)) = true \/ is_write_class (cls (e_acc e)) = true) /\
    (is_plain_class (cls (e_acc a)) = true \/ is_plain_class (cls (e_acc e)) = true).
  Proof. unfold conflict, overlaps. intros H.
    repeat match type of H with _ && _ = true => apply andb_prop in H; destruct H as [H ?] end.
    repeat match goal with X : _ && _ = true |- _ => apply andb_prop in X; destruct X as [X ?] end.
    repeat match goal with X : _ || _ = true |- _ => apply orb_prop in X end.
    assert (e_tid a <> e_tid e) by (intros E; rewrite E, Nat.eqb_refl in H; discriminate).
    repeat split; try assumption; lia. Qed.

  (* the release clocks of committed frames survive every event of the discipline *)
  Lemma locs_keep g clocks locs st e r mine : GI g clocks locs st -> role_ok g e r ->
    forall p o d, dg_slot g p o = Some d -> ds_com d = true -> loc_get (locs_of cls e locs mine) p o = loc_get locs p o.
  Proof. intros I H p o d Hs Hc. unfold locs_of. destruct (gi_watch _ _ _ _ I _ _ _ Hs) as (Hw & He).
    destruct r; cbn [role_ok] in H.
    - (* elsewhere *)
      assert (Hne : e_reg e <> p) by (intros E; rewrite E in H; congruence).
      destruct (is_release_class _); [apply loc_get_set_other; congruence|].
      destruct (is_write_class _); [|reflexivity]. rewrite loc_get_kill.
      destruct ((p =? e_reg e) && _ && _) eqn:E; [lia | reflexivity].
    - destruct H as (_ & Hcl & _ & _ & Hn & _). rewrite Hcl. cbn. apply loc_get_set_other. congruence.
    - destruct H as (_ & Hcl & Hl & d0 & Hs0 & _ & Hc0 & H1 & H2). rewrite Hcl. cbn. rewrite loc_get_kill.
      destruct ((p =? e_reg e) && _ && _) eqn:E; [|reflexivity]. exfalso.
      assert (p = e_reg e) by lia. subst p.
      assert (o <> o0) by congruence.
      destruct (gi_disj _ _ _ _ I _ _ _ _ _ Hs Hs0 ltac:(assumption)); lia.
    - destruct H as (_ & Hcl & _ & d0 & Hs0 & _ & Hc0). rewrite Hcl. cbn. apply loc_get_set_other. congruence.
    - destruct H as (_ & Hcl & _). rewrite Hcl. reflexivity.
    - destruct H as (_ & Hcl & _). rewrite Hcl. reflexivity. Qed.
End Disc.
