(* Proofs about the image life-cycle / log-buffer registry model (Model/ImageLife.v): the resource check without
   overflow plumbing, well-formedness and totality on the domain, the exactly-once invariant of image
   notifications (Inv), the registry invariant (RInv: referenced => registered and not stamped), the linger
   guarantee and the release by the resource check.  Statements are collected in Props/C12.v. *)
Require Import V.Base.MachineInt V.Generated.GenConsts V.Model.CondTimers V.Model.ImageLife V.Oracle.C12Oracle.
From Coq Require Import ZifyBool.
Open Scope Z_scope.

Lemma in_lim_iff z : in_lim z = true <-> 0 <= z < LIM.
Proof. unfold in_lim, LIM. lia. Qed.

Lemma gt_sum_ok m now a b : 0 <= a < LIM -> 0 <= b < LIM -> gt_sum m now a b = Ok (now >? a + b).
Proof. unfold LIM, gt_sum, addu64, chku64, in_u64, two64. intros.
  replace ((0 <=? a + b) && (a + b <? 18446744073709551616)) with true by lia. reflexivity. Qed.

(* ---- the resource check without the overflow plumbing ---- *)
Definition stale (lg now t : Z) : bool := now >? t + lg.

Definition check_entry_p (lg now : Z) (s : st) (e : entry) : option entry :=
  if in_use s (e_key e) then Some e
  else if e_time e =? MAX_MOMENT then Some (mkEntry (e_key e) (e_file e) now)
  else if stale lg now (e_time e) then None else Some e.

Fixpoint check_registry_p (lg now : Z) (s : st) (r : list entry) : list entry :=
  match r with
  | [] => []
  | e :: rest => match check_entry_p lg now s e with
                 | Some e' => e' :: check_registry_p lg now s rest
                 | None => check_registry_p lg now s rest
                 end
  end.

Definition check_lingering_p (lg now : Z) (l : list (Z * list img)) : list (Z * list img) :=
  filter (fun x => negb (stale lg now (fst x))) l.

Definition check_p (lg now : Z) (s : st) : st :=
  upd_lingering (upd_registry s (check_registry_p lg now s (registry s))) (check_lingering_p lg now (lingering s)).

Definition due (now : Z) (s : st) : bool := now >? t_chk s + RESOURCE_TIMEOUT_MS.
Definition timers_p (lg now : Z) (s : st) : st := if due now s then upd_t_chk (check_p lg now s) now else s.

Definition time_ok (t : Z) : Prop := 0 <= t < LIM.
Definition etime_ok (e : entry) : Prop := e_time e = MAX_MOMENT \/ time_ok (e_time e).
Definition wf (s : st) : Prop :=
  time_ok (t_chk s) /\ Forall (fun l => time_ok (fst l)) (lingering s) /\ Forall etime_ok (registry s).

Lemma check_registry_eq m lg now s : time_ok lg -> forall r, Forall etime_ok r ->
  check_registry m lg now s r = Ok (check_registry_p lg now s r).
Proof.
  intros Hlg. induction r as [|e r IH]; intros Hr; [reflexivity|]. inversion Hr; subst.
  cbn [check_registry check_registry_p]. unfold check_entry, check_entry_p.
  destruct (in_use s (e_key e)); cbn [bind]; [rewrite IH by assumption; reflexivity|].
  destruct (e_time e =? MAX_MOMENT) eqn:E; cbn [bind]; [rewrite IH by assumption; reflexivity|].
  destruct H1 as [H1|H1]; [rewrite H1 in E; rewrite Z.eqb_refl in E; discriminate|].
  rewrite gt_sum_ok by assumption. cbn [bind]. rewrite IH by assumption. unfold stale.
  destruct (now >? e_time e + lg); reflexivity.
Qed.

Lemma check_lingering_eq m lg now : time_ok lg -> forall l, Forall (fun x => time_ok (fst x)) l ->
  check_lingering m lg now l = Ok (check_lingering_p lg now l).
Proof.
  intros Hlg. induction l as [|[t imgs] l IH]; intros Hl; [reflexivity|]. inversion Hl; subst. cbn in H1.
  cbn [check_lingering]. rewrite gt_sum_ok by assumption. cbn [bind]. rewrite IH by assumption.
  unfold check_lingering_p. cbn [filter fst]. unfold stale. destruct (now >? t + lg); reflexivity.
Qed.

Lemma timers_eq m lg now s : wf s -> time_ok lg -> timers m lg now s = Ok (timers_p lg now s).
Proof.
  intros (Hc & Hl & Hr) Hlg. unfold timers, timers_p, due.
  rewrite gt_sum_ok by (try assumption; unfold time_ok, RESOURCE_TIMEOUT_MS, LIM; lia). cbn [bind].
  destruct (now >? t_chk s + RESOURCE_TIMEOUT_MS); [|reflexivity].
  unfold check_resources. rewrite (check_registry_eq m lg now s Hlg _ Hr). cbn [bind].
  rewrite (check_lingering_eq m lg now Hlg _ Hl). reflexivity.
Qed.

(* what the timers leave alone *)
Lemma timers_p_fields lg now s :
  cclosed (timers_p lg now s) = cclosed s /\ nid (timers_p lg now s) = nid s /\ noid (timers_p lg now s) = noid s /\
  subs (timers_p lg now s) = subs s /\ pubs (timers_p lg now s) = pubs s /\ clones (timers_p lg now s) = clones s /\
  closed_oids (timers_p lg now s) = closed_oids s /\ cblog (timers_p lg now s) = cblog s.
Proof. unfold timers_p. destruct (due now s); cbn; repeat split; reflexivity. Qed.

Lemma check_registry_p_ok lg now s r : time_ok now -> Forall etime_ok r -> Forall etime_ok (check_registry_p lg now s r).
Proof.
  intros Hn. induction 1 as [|e r He Hr IH]; cbn; [constructor|].
  unfold check_entry_p. destruct (in_use s (e_key e)); [constructor; assumption|].
  destruct (e_time e =? MAX_MOMENT); [constructor; [right; exact Hn|assumption]|].
  destruct (stale lg now (e_time e)); [assumption|constructor; assumption].
Qed.

Lemma timers_p_wf lg now s : wf s -> time_ok now -> wf (timers_p lg now s).
Proof.
  intros (Hc & Hl & Hr) Hn. unfold timers_p. destruct (due now s); [|exact (conj Hc (conj Hl Hr))].
  split; [exact Hn|]. split; cbn.
  - unfold check_lingering_p. clear - Hl. induction Hl; cbn; [constructor|]. destruct (negb _); [constructor|]; assumption.
  - apply check_registry_p_ok; assumption.
Qed.

(* ---- one operation without the overflow plumbing ---- *)
Definition hold (s : st) (reg idx : Z) : st :=
  match find_sub reg (subs s) with
  | Some o => match (if idx <? 0 then None else nth_error (so_imgs o) (Z.to_nat idx)) with
              | Some i => upd_clones s (clones s ++ [i])
              | None => s
              end
  | None => s
  end.
Definition unhold (s : st) (j : Z) : st := if j <? 0 then s else upd_clones s (remove_nth (Z.to_nat j) (clones s)).
Definition subscribe_ev (s : st) : st := upd_subs (upd_nid s (nid s + 1)) (subs s ++ [mkSobj (nid s) [] false true]).
Definition pub_key (s : st) (share : Z) : Z := if share <? 0 then nid s else share.
Definition publish_ev (s : st) (share file : Z) : st :=
  upd_registry (upd_pubs (upd_nid s (nid s + 1)) (pubs s ++ [mkPobj (nid s) (pub_key s share) true true])) (acquire (registry s) (pub_key s share) file).

Definition step_p (lg : Z) (s : st) (o : op) : st * outcome Z :=
  match o with
  | Subscribe now => if cclosed s then (s, Err Closed) else if ringfull s then (upd_nid s (nid s + 1), Err IllegalState)
                     else (timers_p lg now (subscribe_ev s), Ok (nid s))
  | Publish now share file => if cclosed s then (s, Err Closed) else if ringfull s then (upd_nid s (nid s + 1), Err IllegalState)
                              else (timers_p lg now (publish_ev s share file), Ok (nid s))
  | Avail now corr reg file => (timers_p lg now (on_available s now corr reg file), Ok 0)
  | Unavail now corr reg => (timers_p lg now (on_unavailable s now corr reg), Ok 0)
  | Tick now => (timers_p lg now s, Ok 0)
  | DropSub now reg => (drop_sub s now reg, Ok 0)
  | DropPub now reg => (drop_pub s reg, Ok 0)
  | Hold reg idx => (hold s reg idx, Ok 0)
  | Unhold j => (unhold s j, Ok 0)
  | CloseClient now => (close_client s now, Ok 0)
  | Stall => (upd_full s true, Ok 0)
  | Drain => (upd_full s false, Ok 0)
  | ChanErr now => (timers_p lg now (chan_err s now), Ok 0)
  end.

Definition op_ok (o : op) : Prop :=
  match o with
  | Subscribe now | Publish now _ _ | Avail now _ _ _ | Unavail now _ _ | Tick now
  | DropSub now _ | DropPub now _ | CloseClient now | ChanErr now => time_ok now
  | Hold _ _ | Unhold _ | Stall | Drain => True
  end.

Lemma acquire_ok r k f : Forall etime_ok r -> Forall etime_ok (acquire r k f).
Proof.
  intros H. unfold acquire. destruct (has_key k r).
  - induction H; cbn; constructor; auto. destruct (e_key x =? k); [left; reflexivity|assumption].
  - apply Forall_app. split; [assumption|]. constructor; [left; reflexivity|constructor].
Qed.

Lemma linger_wf s now imgs : wf s -> time_ok now -> wf (linger s now imgs).
Proof. intros (Hc & Hl & Hr) Hn. split; [exact Hc|]. split; [|exact Hr]. cbn. apply Forall_app. split; [assumption|]. constructor; [exact Hn|constructor]. Qed.

Lemma wf_same s s' : t_chk s' = t_chk s -> lingering s' = lingering s -> registry s' = registry s -> wf s -> wf s'.
Proof. unfold wf. intros -> -> ->. auto. Qed.

Lemma on_available_wf s now corr reg file : wf s -> time_ok now -> wf (on_available s now corr reg file).
Proof.
  intros Hwf Hn. unfold on_available. destruct (find_sub reg (subs s)) as [o|]; [|assumption].
  destruct (live o); [|assumption]. apply linger_wf; [|assumption].
  destruct Hwf as (Hc & Hl & Hr). split; [exact Hc|]. split; [exact Hl|]. cbn. apply acquire_ok. assumption.
Qed.

Lemma on_unavailable_wf s now corr reg : wf s -> time_ok now -> wf (on_unavailable s now corr reg).
Proof.
  intros Hwf Hn. unfold on_unavailable. destruct (find_sub reg (subs s)) as [o|]; [|assumption].
  destruct (live o); [|assumption]. destruct (remove_first corr (so_imgs o)) as [[i rest]|]; [|assumption].
  apply linger_wf; [|assumption]. eapply wf_same; [| | |exact Hwf]; reflexivity.
Qed.

Lemma drop_sub_wf s now reg : wf s -> time_ok now -> wf (drop_sub s now reg).
Proof.
  intros Hwf Hn. unfold drop_sub. destruct (find_sub reg (subs s)) as [o|]; [|assumption].
  destruct (so_inmap o).
  - apply linger_wf; [|assumption]. eapply wf_same; [| | |exact Hwf]; reflexivity.
  - eapply wf_same; [| | |exact Hwf]; reflexivity.
Qed.

Lemma close_client_wf s now : wf s -> time_ok now -> wf (close_client s now).
Proof.
  intros Hwf Hn. unfold close_client. destruct (cclosed s); [assumption|].
  destruct Hwf as (Hc & Hl & Hr). split; [exact Hc|]. split; [|exact Hr]. cbn. apply Forall_app. split; [assumption|].
  unfold closing_lists. induction (subs s) as [|o l IH]; cbn; [constructor|].
  destruct (closing o); cbn; [constructor; [exact Hn|]|]; assumption.
Qed.

Lemma chan_err_wf s now : wf s -> time_ok now -> wf (chan_err s now).
Proof.
  intros Hwf Hn. unfold chan_err.
  destruct Hwf as (Hc & Hl & Hr). split; [exact Hc|]. split; [|exact Hr]. cbn. apply Forall_app. split; [assumption|].
  unfold closing_lists. induction (subs s) as [|o l IH]; cbn; [constructor|].
  destruct (closing o); cbn; [constructor; [exact Hn|]|]; assumption.
Qed.

Lemma step_p_wf lg s o : wf s -> op_ok o -> wf (fst (step_p lg s o)).
Proof.
  intros Hwf Ho. destruct o; cbn [step_p op_ok] in *.
  - destruct (cclosed s); [assumption|]. destruct (ringfull s); [cbn [fst]; (eapply wf_same; [| | |exact Hwf]; reflexivity)|].
    cbn [fst]. apply timers_p_wf; [|assumption]. eapply wf_same; [| | |exact Hwf]; reflexivity.
  - destruct (cclosed s); [assumption|]. destruct (ringfull s); [cbn [fst]; (eapply wf_same; [| | |exact Hwf]; reflexivity)|]. cbn [fst]. apply timers_p_wf; [|assumption].
    destruct Hwf as (Hc & Hl & Hr). split; [exact Hc|]. split; [exact Hl|]. cbn. apply acquire_ok. assumption.
  - cbn [fst]. apply timers_p_wf; [|assumption]. apply on_available_wf; assumption.
  - cbn [fst]. apply timers_p_wf; [|assumption]. apply on_unavailable_wf; assumption.
  - cbn [fst]. apply timers_p_wf; assumption.
  - cbn [fst]. apply drop_sub_wf; assumption.
  - cbn [fst]. unfold drop_pub. destruct (find _ _) as [p|]; [|assumption].
    destruct (p_inmap p); [destruct (ringfull s)|]; (eapply wf_same; [| | |exact Hwf]; reflexivity).
  - cbn [fst]. unfold hold. destruct (find_sub _ _) as [o|]; [|assumption].
    destruct (if idx <? 0 then None else _); [|assumption]. eapply wf_same; [| | |exact Hwf]; reflexivity.
  - cbn [fst]. unfold unhold. destruct (j <? 0); [assumption|]. eapply wf_same; [| | |exact Hwf]; reflexivity.
  - cbn [fst]. apply close_client_wf; assumption.
  - cbn [fst]. (eapply wf_same; [| | |exact Hwf]; reflexivity).
  - cbn [fst]. (eapply wf_same; [| | |exact Hwf]; reflexivity).
  - cbn [fst]. apply timers_p_wf; [|assumption]. apply chan_err_wf; assumption.
Qed.

Lemma step_eq m lg s o : wf s -> time_ok lg -> op_ok o -> step m lg s o = Ok (step_p lg s o).
Proof.
  intros Hwf Hlg Ho. destruct o; cbn [step step_p op_ok] in *.
  - destruct (cclosed s); [reflexivity|]. destruct (ringfull s); [reflexivity|]. fold (subscribe_ev s).
    rewrite timers_eq; [reflexivity| |assumption]. eapply wf_same; [| | |exact Hwf]; reflexivity.
  - destruct (cclosed s); [reflexivity|]. destruct (ringfull s); [reflexivity|]. fold (pub_key s share). fold (publish_ev s share file).
    rewrite timers_eq; [reflexivity| |assumption].
    destruct Hwf as (Hc & Hl & Hr). split; [exact Hc|]. split; [exact Hl|]. cbn. apply acquire_ok. assumption.
  - rewrite timers_eq; [reflexivity| |assumption]. apply on_available_wf; assumption.
  - rewrite timers_eq; [reflexivity| |assumption]. apply on_unavailable_wf; assumption.
  - rewrite timers_eq; [reflexivity|assumption|assumption].
  - reflexivity.
  - reflexivity.
  - unfold hold. destruct (find_sub _ _) as [o|]; [|reflexivity]. destruct (if idx <? 0 then None else _); reflexivity.
  - reflexivity.
  - reflexivity.
  - reflexivity.
  - reflexivity.
  - rewrite timers_eq; [reflexivity| |assumption]. apply chan_err_wf; assumption.
Qed.

Lemma init_wf t0 cid : time_ok t0 -> wf (init t0 cid).
Proof. intros H. split; [exact H|]. split; constructor. Qed.

(* in-domain histories never panic *)
Lemma run_no_panic m lg : time_ok lg -> forall ops s, wf s -> Forall op_ok ops ->
  ~ In OPanic (run m lg s ops) /\ length (run m lg s ops) = length ops.
Proof.
  intros Hlg. induction ops as [|o ops IH]; intros s Hwf Ho; [cbn; auto|].
  inversion Ho; subst. cbn [run]. rewrite step_eq by assumption.
  destruct (step_p lg s o) as [s' r] eqn:E.
  assert (Hwf' : wf s') by (change s' with (fst (s', r)); rewrite <- E; apply step_p_wf; assumption).
  destruct (IH s' Hwf' H2) as [A B]. split.
  - intros [H|H]; [discriminate|auto].
  - cbn. congruence.
Qed.

Lemma exec_eq m lg : time_ok lg -> forall ops s, wf s -> Forall op_ok ops ->
  exists s', exec m lg s ops = Some s' /\ wf s'.
Proof.
  intros Hlg. induction ops as [|o ops IH]; intros s Hwf Ho; [cbn; eauto|].
  inversion Ho; subst. cbn [exec]. rewrite step_eq by assumption.
  destruct (step_p lg s o) as [s' r] eqn:E.
  assert (Hwf' : wf s') by (change s' with (fst (s', r)); rewrite <- E; apply step_p_wf; assumption).
  apply IH; assumption.
Qed.

(* invariants proved on step_p transfer to exec *)
Lemma exec_inv m lg (I : st -> Prop) : time_ok lg ->
  (forall s o, wf s -> I s -> op_ok o -> I (fst (step_p lg s o))) ->
  forall ops s s', wf s -> Forall op_ok ops -> I s -> exec m lg s ops = Some s' -> I s'.
Proof.
  intros Hlg Hstep. induction ops as [|o ops IH]; intros s s' Hwf Ho HI He; cbn in He.
  - inversion He; subst; assumption.
  - inversion Ho; subst. rewrite step_eq in He by assumption.
    destruct (step_p lg s o) as [s1 r] eqn:E.
    assert (Hwf1 : wf s1) by (change s1 with (fst (s1, r)); rewrite <- E; apply step_p_wf; assumption).
    assert (HI1 : I s1) by (change s1 with (fst (s1, r)); rewrite <- E; apply Hstep; assumption).
    eapply IH; eauto.
Qed.

(* ================= exactly-once bookkeeping ================= *)
Fixpoint cnt (x : Z) (l : list Z) : Z :=
  match l with [] => 0 | y :: r => (if y =? x then 1 else 0) + cnt x r end.

Lemma cnt_app x l1 l2 : cnt x (l1 ++ l2) = cnt x l1 + cnt x l2.
Proof. induction l1; cbn; lia. Qed.
Lemma cnt_nonneg x l : 0 <= cnt x l.
Proof. induction l; cbn; try lia. destruct (a =? x); lia. Qed.
Lemma cnt_in x l : In x l <-> 1 <= cnt x l.
Proof. induction l as [|y l IH]; cbn; [lia|]. pose proof (cnt_nonneg x l). destruct (y =? x) eqn:E.
  - split; [lia|]. intros _. left. lia.
  - rewrite IH. split; [intros [H1|H1]; lia|auto]. Qed.

Definition oids (l : list img) : list Z := map i_oid l.
Definition loids (l : list sobj) : list Z := flat_map (fun o => oids (so_imgs o)) l.
Definition live_oids (s : st) : list Z := loids (subs s).
Definition is_unavail (c : cb) : bool := cb_kind c =? CB_UNAVAIL.
Definition notified (s : st) : list Z := map cb_oid (filter is_unavail (cblog s)).

Lemma loids_app l1 l2 : loids (l1 ++ l2) = loids l1 ++ loids l2.
Proof. unfold loids. apply flat_map_app. Qed.

Lemma set_sub_notin o' l : ~ In (so_reg o') (map so_reg l) -> set_sub o' l = l.
Proof. unfold set_sub. induction l as [|a l IH]; cbn [map]; [reflexivity|]. intros H.
  replace (so_reg a =? so_reg o') with false by (apply eq_sym, Z.eqb_neq; intro; apply H; left; assumption).
  rewrite IH; [reflexivity|]. intro; apply H; right; assumption. Qed.

Lemma find_sub_in reg l o : find_sub reg l = Some o -> In o l /\ so_reg o = reg.
Proof. unfold find_sub. intros H. apply find_some in H. destruct H. split; [assumption|lia]. Qed.

Lemma set_sub_cons o' a l : set_sub o' (a :: l) = (if so_reg a =? so_reg o' then o' else a) :: set_sub o' l.
Proof. reflexivity. Qed.
Lemma loids_cons a l : loids (a :: l) = oids (so_imgs a) ++ loids l.
Proof. reflexivity. Qed.

Lemma cnt_set_sub x reg o o' : forall l, NoDup (map so_reg l) -> find_sub reg l = Some o -> so_reg o' = reg ->
  cnt x (loids (set_sub o' l)) = cnt x (loids l) - cnt x (oids (so_imgs o)) + cnt x (oids (so_imgs o')).
Proof.
  induction l as [|a l IH]; intros Hnd Hf Hr; [discriminate|].
  cbn [map] in Hnd. inversion Hnd; subst. unfold find_sub in Hf. cbn [find] in Hf. rewrite set_sub_cons.
  destruct (so_reg a =? so_reg o') eqn:E.
  - inversion Hf; subst. rewrite set_sub_notin by (replace (so_reg o') with (so_reg o) by lia; assumption).
    rewrite !loids_cons, !cnt_app. lia.
  - fold (find_sub (so_reg o') l) in Hf. rewrite !loids_cons, !cnt_app. rewrite (IH H2 Hf eq_refl). lia.
Qed.

Lemma in_set_sub o' l a : In a (set_sub o' l) -> a = o' \/ (In a l /\ so_reg a <> so_reg o').
Proof. unfold set_sub. rewrite in_map_iff. intros (b & Hb & Hin). destruct (so_reg b =? so_reg o') eqn:E; subst; auto.
  right. split; [assumption|lia]. Qed.

Lemma regs_set_sub o' l : map so_reg (set_sub o' l) = map so_reg l.
Proof. induction l as [|a l IH]; [reflexivity|]. rewrite set_sub_cons. cbn [map]. rewrite IH.
  destruct (so_reg a =? so_reg o') eqn:E; [|reflexivity]. f_equal. lia. Qed.

Lemma cnt_filter_sub x reg o : forall l, NoDup (map so_reg l) -> find_sub reg l = Some o ->
  cnt x (loids (filter (fun y => negb (so_reg y =? reg)) l)) = cnt x (loids l) - cnt x (oids (so_imgs o)).
Proof.
  induction l as [|a l IH]; intros Hnd Hf; [discriminate|].
  cbn [map] in Hnd. inversion Hnd; subst. unfold find_sub in Hf. cbn [find] in Hf. cbn [filter].
  destruct (so_reg a =? reg) eqn:E; cbn [negb].
  - inversion Hf; subst.
    assert (Hid : filter (fun y => negb (so_reg y =? so_reg o)) l = l).
    { clear - H1. induction l as [|b l IH]; cbn [filter]; [reflexivity|].
      replace (so_reg b =? so_reg o) with false by (apply eq_sym, Z.eqb_neq; intro; apply H1; left; cbn; lia). cbn [negb].
      rewrite IH; [reflexivity|]. intro; apply H1; right; assumption. }
    replace reg with (so_reg o) by lia. rewrite Hid. rewrite loids_cons, cnt_app. lia.
  - fold (find_sub reg l) in Hf. rewrite !loids_cons, !cnt_app. rewrite (IH H2 Hf). lia.
Qed.

Lemma remove_first_cnt x corr : forall l i rest, remove_first corr l = Some (i, rest) ->
  cnt x (oids l) = cnt x (oids rest) + (if i_oid i =? x then 1 else 0) /\ i_corr i = corr.
Proof.
  induction l as [|a l IH]; intros i rest H; cbn in H; [discriminate|].
  destruct (i_corr a =? corr) eqn:E.
  - inversion H; subst. unfold oids. cbn [map cnt]. split; [destruct (i_oid i =? x); lia|lia].
  - destruct (remove_first corr l) as [[y r]|] eqn:Er; [|discriminate]. inversion H; subst.
    destruct (IH _ _ eq_refl) as [A B]. unfold oids in *. cbn [map cnt] in *. split; [|assumption].
    destruct (i_oid i =? x), (i_oid a =? x); lia.
Qed.

Lemma notified_app s c : map cb_oid (filter is_unavail (cblog s ++ c)) = notified s ++ map cb_oid (filter is_unavail c).
Proof. unfold notified. rewrite filter_app, map_app. reflexivity. Qed.

Lemma unavail_cbs_filter reg imgs : filter is_unavail (unavail_cbs reg imgs) = unavail_cbs reg imgs.
Proof. unfold unavail_cbs. induction imgs as [|a l IH]; [reflexivity|]. cbn [map filter].
  change (is_unavail (mkCb CB_UNAVAIL reg (i_corr a) 1 (i_oid a))) with true. cbv iota. rewrite IH. reflexivity. Qed.

Lemma unavail_cbs_oids reg imgs : map cb_oid (filter is_unavail (unavail_cbs reg imgs)) = oids imgs.
Proof. rewrite unavail_cbs_filter. unfold unavail_cbs, oids. rewrite map_map. reflexivity. Qed.

Definition Inv (s : st) : Prop :=
  (forall x, cnt x (live_oids s) + cnt x (notified s) = if (0 <=? x) && (x <? noid s) then 1 else 0) /\
  (forall x, cnt x (closed_oids s) = cnt x (notified s)) /\
  (forall o, In o (subs s) -> so_inmap o = false -> so_imgs o = []) /\
  (forall o, In o (subs s) -> so_closed o = true -> so_inmap o = false) /\
  NoDup (map so_reg (subs s)) /\ (forall o, In o (subs s) -> so_reg o < nid s) /\ 0 <= noid s.

Lemma Inv_init t0 cid : Inv (init t0 cid).
Proof. unfold Inv, init, live_oids, notified. cbn. repeat split; try constructor; try lia; try contradiction.
  intros x. replace ((0 <=? x) && (x <? 0)) with false by lia. reflexivity. Qed.

(* the invariant only looks at these fields *)
Lemma Inv_same s s' : subs s' = subs s -> cblog s' = cblog s -> closed_oids s' = closed_oids s -> noid s' = noid s -> nid s' = nid s ->
  Inv s -> Inv s'.
Proof. unfold Inv, live_oids, notified. intros -> -> -> -> ->. auto. Qed.

Lemma Inv_nid s s' : subs s' = subs s -> cblog s' = cblog s -> closed_oids s' = closed_oids s -> noid s' = noid s -> nid s <= nid s' ->
  Inv s -> Inv s'.
Proof. unfold Inv, live_oids, notified. intros -> -> -> -> Hn (A & B & C & D & E & F & G). repeat split; auto.
  intros o Ho. specialize (F o Ho). lia. Qed.

Lemma Inv_timers lg now s : Inv s -> Inv (timers_p lg now s).
Proof. intros H. destruct (timers_p_fields lg now s) as (_ & A & B & C & _ & _ & D & E). eapply Inv_same; eauto. Qed.

Lemma NoDup_snoc (l : list Z) x : NoDup l -> ~ In x l -> NoDup (l ++ [x]).
Proof. induction 1 as [|y l Hy Hl IH]; cbn; intros Hx; [constructor; [auto|constructor]|].
  constructor; [|apply IH; tauto]. intro Hin. apply in_app_or in Hin. destruct Hin as [Hin|[Hin|[]]]; [auto|subst; tauto]. Qed.

Lemma Inv_subscribe s : Inv s -> Inv (subscribe_ev s).
Proof.
  intros (A & B & C & D & E & F & G). unfold Inv, subscribe_ev, live_oids, notified.
  cbn [subs cblog closed_oids noid nid upd_subs upd_nid].
  split; [|split; [|split; [|split; [|split; [|split]]]]]; try assumption.
  - intros x. rewrite loids_app, cnt_app. cbn. rewrite Z.add_0_r. apply A.
  - intros o Ho Hi. apply in_app_or in Ho. destruct Ho as [Ho|[Ho|[]]]; [auto|subst; reflexivity].
  - intros o Ho Hc. apply in_app_or in Ho. destruct Ho as [Ho|[Ho|[]]]; [auto|subst; discriminate].
  - rewrite map_app. cbn [map so_reg]. apply NoDup_snoc; [assumption|].
    intro Hin. apply in_map_iff in Hin. destruct Hin as (o & Ho & Hin). specialize (F o Hin). lia.
  - intros o Ho. apply in_app_or in Ho. destruct Ho as [Ho|[Ho|[]]]; [specialize (F o Ho); lia|subst; cbn; lia].
Qed.

Lemma range_step x n : 0 <= n ->
  (if (0 <=? x) && (x <? n + 1) then 1 else 0) = (if (0 <=? x) && (x <? n) then 1 else 0) + (if n =? x then 1 else 0).
Proof. intros. destruct (n =? x) eqn:E.
  - replace ((0 <=? x) && (x <? n + 1)) with true by lia. replace ((0 <=? x) && (x <? n)) with false by lia. reflexivity.
  - replace ((0 <=? x) && (x <? n + 1)) with ((0 <=? x) && (x <? n)) by lia. lia. Qed.

Lemma filter_avail reg corr f oid : filter is_unavail [mkCb CB_AVAIL reg corr f oid] = [].
Proof. reflexivity. Qed.
Lemma filter_unavail1 reg corr f oid : filter is_unavail [mkCb CB_UNAVAIL reg corr f oid] = [mkCb CB_UNAVAIL reg corr f oid].
Proof. reflexivity. Qed.

Lemma Inv_available s now corr reg file : Inv s -> Inv (on_available s now corr reg file).
Proof.
  intros HI. unfold on_available. destruct (find_sub reg (subs s)) as [o|] eqn:Ef; [|assumption].
  destruct (live o) eqn:El; [|assumption]. destruct HI as (A & B & C & D & E & F & G).
  destruct (find_sub_in _ _ _ Ef) as [Hin Hreg].
  unfold Inv, linger, live_oids, notified, log_cb.
  cbn [subs cblog closed_oids noid nid upd_subs upd_registry upd_lingering].
  split; [|split; [|split; [|split; [|split; [|split]]]]].
  - intros x. erewrite cnt_set_sub; [|exact E|exact Ef|reflexivity]. cbn [so_imgs].
    rewrite filter_app, map_app, cnt_app, filter_avail. cbn [map cnt]. unfold oids. rewrite map_app, cnt_app. cbn [map cnt i_oid].
    rewrite (range_step x (noid s) G). specialize (A x). unfold live_oids, notified, oids in A.
    destruct (noid s =? x); lia.
  - intros x. rewrite filter_app, map_app, cnt_app, filter_avail. cbn [map cnt]. specialize (B x). unfold notified in B. lia.
  - intros a Ha Hi. apply in_set_sub in Ha. destruct Ha as [Ha|[Ha _]]; [subst; cbn in Hi; unfold live in El; congruence|auto].
  - intros a Ha Hc. apply in_set_sub in Ha. destruct Ha as [Ha|[Ha _]]; [subst; cbn in *; auto|auto].
  - rewrite regs_set_sub. assumption.
  - intros a Ha. apply in_set_sub in Ha. destruct Ha as [Ha|[Ha _]]; [subst; cbn; specialize (F o Hin); lia|auto].
  - lia.
Qed.

Lemma Inv_unavailable s now corr reg : Inv s -> Inv (on_unavailable s now corr reg).
Proof.
  intros HI. unfold on_unavailable. destruct (find_sub reg (subs s)) as [o|] eqn:Ef; [|assumption].
  destruct (live o) eqn:El; [|assumption].
  destruct (remove_first corr (so_imgs o)) as [[i rest]|] eqn:Er; [|assumption].
  destruct HI as (A & B & C & D & E & F & G). destruct (find_sub_in _ _ _ Ef) as [Hin Hreg].
  unfold Inv, linger, live_oids, notified, log_cb, close_imgs.
  cbn [subs cblog closed_oids noid nid upd_subs upd_registry upd_lingering].
  split; [|split; [|split; [|split; [|split; [|split]]]]].
  - intros x. erewrite cnt_set_sub; [|exact E|exact Ef|reflexivity]. cbn [so_imgs].
    rewrite filter_app, map_app, cnt_app, filter_unavail1. cbn [map cnt cb_oid].
    destruct (remove_first_cnt x corr _ _ _ Er) as [Hc _]. specialize (A x). unfold live_oids, notified in A.
    destruct (i_oid i =? x); lia.
  - intros x. rewrite cnt_app. rewrite filter_app, map_app, cnt_app, filter_unavail1. cbn [map cnt cb_oid i_oid]. specialize (B x). unfold notified in B.
    destruct (i_oid i =? x); lia.
  - intros a Ha Hi. apply in_set_sub in Ha. destruct Ha as [Ha|[Ha _]]; [subst; cbn in Hi; unfold live in El; congruence|auto].
  - intros a Ha Hc. apply in_set_sub in Ha. destruct Ha as [Ha|[Ha _]]; [subst; cbn in *; auto|auto].
  - rewrite regs_set_sub. assumption.
  - intros a Ha. apply in_set_sub in Ha. destruct Ha as [Ha|[Ha _]]; [subst; cbn; specialize (F o Hin); lia|auto].
  - assumption.
Qed.

Lemma Inv_drop_sub s now reg : Inv s -> Inv (drop_sub s now reg).
Proof.
  intros HI. unfold drop_sub. destruct (find_sub reg (subs s)) as [o|] eqn:Ef; [|assumption].
  destruct HI as (A & B & C & D & E & F & G). destruct (find_sub_in _ _ _ Ef) as [Hin Hreg].
  assert (Hsub : forall a, In a (filter (fun x => negb (so_reg x =? reg)) (subs s)) -> In a (subs s))
    by (intros a Ha; apply filter_In in Ha; tauto).
  assert (Hnd : NoDup (map so_reg (filter (fun x => negb (so_reg x =? reg)) (subs s)))).
  { clear - E. induction (subs s) as [|a l IH]; cbn [filter map]; [constructor|]. cbn [map] in E. inversion E; subst.
    destruct (negb (so_reg a =? reg)); [|auto]. cbn [map]. constructor; [|auto].
    intro Hi. apply H1. apply in_map_iff in Hi. destruct Hi as (b & Hb & Hi). apply filter_In in Hi. apply in_map_iff. exists b. tauto. }
  destruct (so_inmap o) eqn:Ei.
  - unfold Inv, linger, live_oids, notified, log_cb, close_imgs.
    cbn [subs cblog closed_oids noid nid upd_subs upd_registry upd_lingering upd_nid].
    split; [|split; [|split; [|split; [|split; [|split]]]]]; auto.
    + intros x. rewrite (cnt_filter_sub x reg o _ E Ef). rewrite notified_app, cnt_app, unavail_cbs_oids.
      specialize (A x). unfold live_oids in A. lia.
    + intros x. rewrite cnt_app. rewrite notified_app, cnt_app, unavail_cbs_oids. fold (oids (so_imgs o)).
      specialize (B x). lia.
    + intros a Ha. specialize (F a (Hsub a Ha)). lia.
  - unfold Inv, live_oids, notified. cbn [subs cblog closed_oids noid nid upd_subs].
    split; [|split; [|split; [|split; [|split; [|split]]]]]; auto.
    intros x. rewrite (cnt_filter_sub x reg o _ E Ef). rewrite (C o Hin Ei). cbn. specialize (A x). unfold live_oids, notified in A. lia.
Qed.

Lemma closing_cbs_oids l : map cb_oid (filter is_unavail (closing_cbs l)) = oids (closing_imgs l).
Proof. unfold closing_cbs, closing_imgs, oids. induction l as [|o l IH]; [reflexivity|]. cbn [flat_map].
  rewrite filter_app, !map_app, IH. destruct (closing o); [|reflexivity].
  fold (oids (so_imgs o)). rewrite unavail_cbs_oids. reflexivity. Qed.

Lemma closing_all l :
  (forall o, In o l -> so_inmap o = false -> so_imgs o = []) -> (forall o, In o l -> so_closed o = true -> so_inmap o = false) ->
  loids l = oids (closing_imgs l) /\ loids (map closed_sub l) = [].
Proof.
  induction l as [|o l IH]; intros C D; [split; reflexivity|].
  destruct IH as [IH1 IH2]; [intros; apply C; [right|]; assumption|intros; apply D; [right|]; assumption|].
  cbn [map]. rewrite !loids_cons. unfold closing_imgs. cbn [flat_map]. fold (closing_imgs l). unfold oids at 2. rewrite map_app.
  fold (oids (closing_imgs l)). rewrite <- IH1, IH2. unfold closed_sub, closing.
  destruct (so_inmap o) eqn:Ei; cbn [andb].
  - destruct (so_closed o) eqn:Ec; [rewrite (D o (or_introl eq_refl) Ec) in Ei; discriminate|]. cbn [negb so_imgs oids map]. split; reflexivity.
  - cbn [so_imgs]. rewrite (C o (or_introl eq_refl) Ei). split; reflexivity.
Qed.

Lemma Inv_close s now : Inv s -> Inv (close_client s now).
Proof.
  intros HI. unfold close_client. destruct (cclosed s); [assumption|].
  destruct HI as (A & B & C & D & E & F & G). destruct (closing_all (subs s) C D) as [H1 H2].
  unfold Inv, live_oids, notified. cbn [subs cblog closed_oids noid nid].
  split; [|split; [|split; [|split; [|split; [|split]]]]]; auto.
  - intros x. rewrite H2. rewrite filter_app, map_app, cnt_app, closing_cbs_oids. specialize (A x). unfold live_oids, notified in A.
    rewrite H1 in A. cbn [cnt]. lia.
  - intros x. rewrite cnt_app. rewrite filter_app, map_app, cnt_app, closing_cbs_oids. fold (oids (closing_imgs (subs s))).
    specialize (B x). unfold notified in B. lia.
  - intros a Ha _. apply in_map_iff in Ha. destruct Ha as (b & Hb & Hin). subst. unfold closed_sub.
    destruct (closing b) eqn:Ecl; [reflexivity|]. cbn [so_imgs]. apply C; [assumption|].
    unfold closing in Ecl. destruct (so_inmap b) eqn:Ei; [|reflexivity]. cbn [andb] in Ecl.
    destruct (so_closed b) eqn:Ec; [rewrite (D b Hin Ec) in Ei; discriminate|discriminate].
  - intros a Ha _. apply in_map_iff in Ha. destruct Ha as (b & Hb & Hin). subst. unfold closed_sub. destruct (closing b); reflexivity.
  - rewrite map_map. replace (map (fun x => so_reg (closed_sub x)) (subs s)) with (map so_reg (subs s)); [assumption|].
    apply map_ext. intros a. unfold closed_sub. destruct (closing a); reflexivity.
  - intros a Ha. apply in_map_iff in Ha. destruct Ha as (b & Hb & Hin). subst. specialize (F b Hin).
    unfold closed_sub. destruct (closing b); cbn; lia.
Qed.

(* in a reachable state a subscription that does not hand over images at a close is not registered any more: the conductor
   forgetting it (channel endpoint error) and the conductor clearing its maps (close) leave the same subscription objects *)
Lemma chan_sub_closed_sub s : Inv s -> map chan_sub (subs s) = map closed_sub (subs s).
Proof.
  intros (_ & _ & C & D & _). apply map_ext_in. intros a Ha. unfold chan_sub, closed_sub. destruct (closing a) eqn:Ecl; [reflexivity|].
  unfold closing in Ecl. destruct (so_inmap a) eqn:Ei.
  - cbn [andb] in Ecl. destruct (so_closed a) eqn:Ec; [rewrite (D a Ha Ec) in Ei; discriminate|discriminate].
  - destruct a; cbn in *; subst; reflexivity.
Qed.

Lemma Inv_chan s now : Inv s -> Inv (chan_err s now).
Proof.
  intros HI. unfold chan_err. rewrite (chan_sub_closed_sub s HI).
  destruct HI as (A & B & C & D & E & F & G). destruct (closing_all (subs s) C D) as [H1 H2].
  unfold Inv, live_oids, notified. cbn [subs cblog closed_oids noid nid].
  split; [|split; [|split; [|split; [|split; [|split]]]]]; auto.
  - intros x. rewrite H2. rewrite filter_app, map_app, cnt_app, closing_cbs_oids. specialize (A x). unfold live_oids, notified in A.
    rewrite H1 in A. cbn [cnt]. lia.
  - intros x. rewrite cnt_app. rewrite filter_app, map_app, cnt_app, closing_cbs_oids. fold (oids (closing_imgs (subs s))).
    specialize (B x). unfold notified in B. lia.
  - intros a Ha _. apply in_map_iff in Ha. destruct Ha as (b & Hb & Hin). subst. unfold closed_sub.
    destruct (closing b) eqn:Ecl; [reflexivity|]. cbn [so_imgs]. apply C; [assumption|].
    unfold closing in Ecl. destruct (so_inmap b) eqn:Ei; [|reflexivity]. cbn [andb] in Ecl.
    destruct (so_closed b) eqn:Ec; [rewrite (D b Hin Ec) in Ei; discriminate|discriminate].
  - intros a Ha _. apply in_map_iff in Ha. destruct Ha as (b & Hb & Hin). subst. unfold closed_sub. destruct (closing b); reflexivity.
  - rewrite map_map. replace (map (fun x => so_reg (closed_sub x)) (subs s)) with (map so_reg (subs s)); [assumption|].
    apply map_ext. intros a. unfold closed_sub. destruct (closing a); reflexivity.
  - intros a Ha. apply in_map_iff in Ha. destruct Ha as (b & Hb & Hin). subst. specialize (F b Hin).
    unfold closed_sub. destruct (closing b); cbn; lia.
Qed.

Lemma Inv_step lg s o : Inv s -> Inv (fst (step_p lg s o)).
Proof.
  intros HI. destruct o; cbn [step_p].
  - destruct (cclosed s); [assumption|]. destruct (ringfull s); [cbn [fst]; (eapply Inv_nid; [| | | | |exact HI]; cbn; try reflexivity; lia)|]. cbn [fst]. apply Inv_timers, Inv_subscribe. assumption.
  - destruct (cclosed s); [assumption|]. destruct (ringfull s); [cbn [fst]; (eapply Inv_nid; [| | | | |exact HI]; cbn; try reflexivity; lia)|]. cbn [fst]. apply Inv_timers. eapply Inv_nid; [| | | | |exact HI]; cbn; try reflexivity; lia.
  - cbn [fst]. apply Inv_timers, Inv_available. assumption.
  - cbn [fst]. apply Inv_timers, Inv_unavailable. assumption.
  - cbn [fst]. apply Inv_timers. assumption.
  - cbn [fst]. apply Inv_drop_sub. assumption.
  - cbn [fst]. unfold drop_pub. destruct (find _ _) as [p|]; [|assumption].
    destruct (p_inmap p); [destruct (ringfull s)|]; (eapply Inv_nid; [| | | | |exact HI]; cbn; try reflexivity; lia).
  - cbn [fst]. unfold hold. destruct (find_sub _ _) as [a|]; [|assumption].
    destruct (if idx <? 0 then None else _); [|assumption]. eapply Inv_same; [| | | | |exact HI]; reflexivity.
  - cbn [fst]. unfold unhold. destruct (j <? 0); [assumption|]. eapply Inv_same; [| | | | |exact HI]; reflexivity.
  - cbn [fst]. apply Inv_close. assumption.
  - cbn [fst]. eapply Inv_same; [| | | | |exact HI]; reflexivity.
  - cbn [fst]. eapply Inv_same; [| | | | |exact HI]; reflexivity.
  - cbn [fst]. apply Inv_timers, Inv_chan. assumption.
Qed.

(* ---- what the invariant says ---- *)
Theorem unavailable_at_most_once s x : Inv s -> cnt x (notified s) <= 1.
Proof. intros (A & _). specialize (A x). pose proof (cnt_nonneg x (live_oids s)). destruct ((0 <=? x) && (x <? noid s)); lia. Qed.

Theorem unavailable_exactly_once_when_gone s x : Inv s -> 0 <= x < noid s -> ~ In x (live_oids s) ->
  cnt x (notified s) = 1 /\ In x (closed_oids s).
Proof. intros (A & B & _) Hx Hn. specialize (A x). specialize (B x). rewrite cnt_in in Hn. pose proof (cnt_nonneg x (live_oids s)).
  replace ((0 <=? x) && (x <? noid s)) with true in A by lia. split; [lia|]. apply cnt_in. lia. Qed.

Theorem live_image_not_closed s x : Inv s -> In x (live_oids s) ->
  cnt x (live_oids s) = 1 /\ ~ In x (closed_oids s) /\ ~ In x (notified s) /\ 0 <= x < noid s.
Proof. intros (A & B & _) Hi. specialize (A x). specialize (B x). rewrite cnt_in in Hi. rewrite !cnt_in.
  pose proof (cnt_nonneg x (notified s)). destruct ((0 <=? x) && (x <? noid s)) eqn:E; lia. Qed.

(* ---- C12_available / ignored announcements ---- *)
Lemma find_set_sub reg o o' : forall l, find_sub reg l = Some o -> so_reg o' = reg -> find_sub reg (set_sub o' l) = Some o'.
Proof.
  induction l as [|a l IH]; intros Hf Hr; [discriminate|]. unfold find_sub in *. cbn [find] in Hf. rewrite set_sub_cons. cbn [find].
  destruct (so_reg a =? reg) eqn:E.
  - replace (so_reg a =? so_reg o') with true by lia. replace (so_reg o' =? reg) with true by lia. reflexivity.
  - replace (so_reg a =? so_reg o') with false by lia. rewrite E. apply IH; assumption.
Qed.

Lemma has_key_acquire r k f : has_key k (acquire r k f) = true.
Proof. unfold acquire. destruct (has_key k r) eqn:E.
  - unfold has_key in *. rewrite existsb_exists in *. destruct E as (e & He & Hk). exists (mkEntry (e_key e) (e_file e) MAX_MOMENT).
    split; [|cbn; assumption]. apply in_map_iff. exists e. rewrite Hk. auto.
  - unfold has_key. rewrite existsb_app. cbn. rewrite Z.eqb_refl. apply orb_true_r.
Qed.

Theorem available_live s now corr reg file o :
  find_sub reg (subs s) = Some o -> live o = true ->
  let s' := on_available s now corr reg file in
  cblog s' = cblog s ++ [mkCb CB_AVAIL reg corr 0 (noid s)] /\
  find_sub reg (subs s') = Some (mkSobj reg (so_imgs o ++ [mkImg corr (noid s)]) (so_closed o) (so_inmap o)) /\
  has_key corr (registry s') = true /\ closed_oids s' = closed_oids s.
Proof.
  intros Hf Hl. cbv zeta. unfold on_available. rewrite Hf, Hl. unfold linger, log_cb.
  cbn [cblog subs registry closed_oids upd_lingering upd_subs upd_registry].
  split; [reflexivity|]. split; [apply (find_set_sub reg o); [assumption|reflexivity]|]. split; [apply has_key_acquire|reflexivity].
Qed.

Theorem available_ignored s now corr reg file :
  (find_sub reg (subs s) = None \/ exists o, find_sub reg (subs s) = Some o /\ live o = false) ->
  on_available s now corr reg file = s.
Proof. intros [H|(o & H & Hl)]; unfold on_available; rewrite H; [reflexivity|]. rewrite Hl. reflexivity. Qed.

Lemma remove_first_none corr l : remove_first corr l = None <-> ~ In corr (map i_corr l).
Proof. induction l as [|a l IH]; cbn; [tauto|]. destruct (i_corr a =? corr) eqn:E.
  - split; [discriminate|]. intros H. exfalso. apply H. left. lia.
  - destruct (remove_first corr l) as [[y r]|]; split; try discriminate; try tauto.
    + intros H. exfalso. destruct IH as [_ IH]. assert (~ In corr (map i_corr l)) by tauto. specialize (IH H0). discriminate.
    + intros _ [H|H]; [lia|]. destruct IH as [IH _]. apply IH; auto.
Qed.

Theorem unavailable_ignored s now corr reg :
  (find_sub reg (subs s) = None \/
   exists o, find_sub reg (subs s) = Some o /\ (live o = false \/ ~ In corr (map i_corr (so_imgs o)))) ->
  on_unavailable s now corr reg = s.
Proof. intros [H|(o & H & [Hl|Hn])]; unfold on_unavailable; rewrite H; [reflexivity|rewrite Hl; reflexivity|].
  destruct (live o); [|reflexivity]. apply remove_first_none in Hn. rewrite Hn. reflexivity. Qed.

Theorem unavailable_live s now corr reg o i rest :
  find_sub reg (subs s) = Some o -> live o = true -> remove_first corr (so_imgs o) = Some (i, rest) ->
  let s' := on_unavailable s now corr reg in
  cblog s' = cblog s ++ [mkCb CB_UNAVAIL reg corr 1 (i_oid i)] /\
  find_sub reg (subs s') = Some (mkSobj reg rest (so_closed o) (so_inmap o)) /\
  In (i_oid i) (closed_oids s') /\ i_corr i = corr.
Proof.
  intros Hf Hl Hr. cbv zeta. unfold on_unavailable. rewrite Hf, Hl, Hr. unfold linger, log_cb, close_imgs.
  cbn [cblog subs registry closed_oids upd_lingering upd_subs]. split; [reflexivity|].
  split; [apply (find_set_sub reg o); [assumption|reflexivity]|]. split; [apply in_or_app; right; left; reflexivity|].
  destruct (remove_first_cnt 0 corr _ _ _ Hr) as [_ H]. exact H.
Qed.

(* a correlation id present once is absent after its withdrawal: a repeated withdrawal finds nothing *)
Lemma remove_first_absent corr : forall l i rest, NoDup (map i_corr l) -> remove_first corr l = Some (i, rest) ->
  ~ In corr (map i_corr rest).
Proof.
  induction l as [|a l IH]; intros i rest Hnd H; cbn in H; [discriminate|]. cbn [map] in Hnd. inversion Hnd; subst.
  destruct (i_corr a =? corr) eqn:E.
  - inversion H; subst. replace corr with (i_corr i) by lia. assumption.
  - destruct (remove_first corr l) as [[y r]|] eqn:Er; [|discriminate]. inversion H; subst. cbn [map].
    intros [Hc|Hc]; [lia|]. eapply IH; eauto.
Qed.

(* ================= the registry ================= *)
Definition holds_img (k : Z) (l : list img) : Prop := exists i, In i l /\ i_corr i = k.
Definition in_use_P (s : st) (k : Z) : Prop :=
  (exists o, In o (subs s) /\ holds_img k (so_imgs o)) \/
  (exists l, In l (lingering s) /\ holds_img k (snd l)) \/
  holds_img k (clones s) \/
  (exists p, In p (pubs s) /\ p_key p = k).

Lemma holds_img_iff k l : existsb (uses k) l = true <-> holds_img k l.
Proof. unfold holds_img, uses. rewrite existsb_exists. split; intros (i & A & B); exists i; split; auto; lia. Qed.

Lemma in_use_iff s k : in_use s k = true <-> in_use_P s k.
Proof.
  unfold in_use, in_use_P. rewrite !orb_true_iff. rewrite holds_img_iff. rewrite !existsb_exists.
  split.
  - intros [[[(o & A & B)|(l & A & B)]|A]|(p & A & B)].
    + left. exists o. rewrite <- holds_img_iff. auto.
    + right; left. exists l. rewrite <- holds_img_iff. auto.
    + right; right; left. assumption.
    + right; right; right. exists p. split; [assumption|lia].
  - intros [(o & A & B)|[(l & A & B)|[A|(p & A & B)]]].
    + left; left; left. exists o. rewrite holds_img_iff. auto.
    + left; left; right. exists l. rewrite holds_img_iff. auto.
    + left; right. assumption.
    + right. exists p. split; [assumption|lia].
Qed.

Lemma holds_img_app k l1 l2 : holds_img k (l1 ++ l2) <-> holds_img k l1 \/ holds_img k l2.
Proof. unfold holds_img. split.
  - intros (i & A & B). apply in_app_or in A. destruct A; [left|right]; exists i; auto.
  - intros [(i & A & B)|(i & A & B)]; exists i; split; auto; apply in_or_app; auto. Qed.

Definition RInv (s : st) : Prop :=
  (forall k, in_use_P s k -> has_key k (registry s) = true) /\
  (forall e, In e (registry s) -> in_use_P s (e_key e) -> e_time e = MAX_MOMENT) /\
  NoDup (map e_key (registry s)).

Lemma has_key_iff k r : has_key k r = true <-> In k (map e_key r).
Proof. unfold has_key. rewrite existsb_exists, in_map_iff. split; intros (e & A & B); exists e; split; auto; lia. Qed.

Lemma acquire_keys r k f : map e_key (acquire r k f) = if has_key k r then map e_key r else map e_key r ++ [k].
Proof. unfold acquire. destruct (has_key k r); [|rewrite map_app; reflexivity].
  rewrite map_map. apply map_ext. intros e. destruct (e_key e =? k); reflexivity. Qed.

Lemma acquire_has r k f k' : has_key k' r = true -> has_key k' (acquire r k f) = true.
Proof. rewrite !has_key_iff, acquire_keys. destruct (has_key k r); [auto|]. intros. apply in_or_app. auto. Qed.

Lemma acquire_nodup r k f : NoDup (map e_key r) -> NoDup (map e_key (acquire r k f)).
Proof. intros H. rewrite acquire_keys. destruct (has_key k r) eqn:E; [assumption|]. apply NoDup_snoc; [assumption|].
  rewrite <- has_key_iff. congruence. Qed.

Lemma acquire_time r k f e : In e (acquire r k f) -> (e_key e = k /\ e_time e = MAX_MOMENT) \/ (In e r /\ e_key e <> k).
Proof.
  unfold acquire. destruct (has_key k r) eqn:E.
  - rewrite in_map_iff. intros (a & Ha & Hin). destruct (e_key a =? k) eqn:Ek; subst; cbn; [left; split; [lia|reflexivity]|right; split; [assumption|lia]].
  - intros Hin. apply in_app_or in Hin. destruct Hin as [Hin|[Hin|[]]]; [|subst; left; auto].
    right. split; [assumption|]. intro Hk. assert (has_key k r = true); [|congruence].
    apply has_key_iff. apply in_map_iff. exists e. auto.
Qed.

(* RInv only looks at subs/lingering/clones/pubs (through in_use_P) and the registry *)
Lemma RInv_mono s s' : registry s' = registry s -> (forall k, in_use_P s' k -> in_use_P s k) -> RInv s -> RInv s'.
Proof. intros Hr Hu (A & B & C). unfold RInv. rewrite Hr. split; [|split]; auto. Qed.

Lemma RInv_acquire s s' k f : registry s' = acquire (registry s) k f -> (forall k', in_use_P s' k' -> in_use_P s k' \/ k' = k) ->
  RInv s -> RInv s'.
Proof.
  intros Hr Hu (A & B & C). unfold RInv. rewrite Hr. split; [|split].
  - intros k' Hk'. destruct (Hu k' Hk') as [H|H]; [apply acquire_has; auto|subst; apply has_key_acquire].
  - intros e He Hk. destruct (acquire_time _ _ _ _ He) as [[_ H]|[Hin Hne]]; [assumption|].
    destruct (Hu _ Hk) as [H|H]; [apply B; assumption|contradiction].
  - apply acquire_nodup. assumption.
Qed.

Lemma remove_first_incl corr : forall l i rest, remove_first corr l = Some (i, rest) -> In i l /\ forall x, In x rest -> In x l.
Proof.
  induction l as [|a l IH]; intros i rest H; cbn in H; [discriminate|]. destruct (i_corr a =? corr).
  - inversion H; subst. split; [left; reflexivity|]. intros; right; assumption.
  - destruct (remove_first corr l) as [[y r]|] eqn:Er; [|discriminate]. inversion H; subst.
    destruct (IH _ _ eq_refl) as [A B]. split; [right; assumption|]. intros x [Hx|Hx]; [left; assumption|right; auto].
Qed.

Lemma use_sub s k o : In o (subs s) -> holds_img k (so_imgs o) -> in_use_P s k.
Proof. intros. left. exists o. auto. Qed.

Lemma in_use_subscribe s k : in_use_P (subscribe_ev s) k -> in_use_P s k.
Proof.
  unfold subscribe_ev, in_use_P. cbn [subs lingering clones pubs upd_subs upd_nid].
  intros [(o & A & B)|H]; [|right; exact H]. apply in_app_or in A. destruct A as [A|[A|[]]].
  - left. exists o. auto.
  - subst. destruct B as (i & [] & _).
Qed.

Lemma in_use_publish s share file k : in_use_P (publish_ev s share file) k -> in_use_P s k \/ k = pub_key s share.
Proof.
  unfold publish_ev, in_use_P. cbn [subs lingering clones pubs upd_subs upd_nid upd_pubs upd_registry].
  intros [H|[H|[H|(p & A & B)]]]; [left; left; exact H|left; right; left; exact H|left; right; right; left; exact H|].
  apply in_app_or in A. destruct A as [A|[A|[]]]; [left; right; right; right; exists p; auto|]. subst. right. reflexivity.
Qed.

Lemma in_use_available s now corr reg file k : in_use_P (on_available s now corr reg file) k -> in_use_P s k \/ k = corr.
Proof.
  unfold on_available. destruct (find_sub reg (subs s)) as [o|] eqn:Ef; [|auto]. destruct (live o); [|auto].
  destruct (find_sub_in _ _ _ Ef) as [Hin _].
  unfold in_use_P, linger, log_cb. cbn [subs lingering clones pubs upd_subs upd_registry upd_lingering].
  intros [(a & A & B)|[(l & A & B)|[H|H]]].
  - apply in_set_sub in A. destruct A as [A|[A _]].
    + subst. cbn [so_imgs] in B. apply holds_img_app in B. destruct B as [B|(i & [Hi|[]] & Hc)].
      * left. left. exists o. auto.
      * subst. right. reflexivity.
    + left. left. exists a. auto.
  - apply in_app_or in A. destruct A as [A|[A|[]]].
    + left. right. left. exists l. auto.
    + subst. cbn [snd] in B. left. left. exists o. auto.
  - left. right. right. left. exact H.
  - left. right. right. right. exact H.
Qed.

Lemma in_use_unavailable s now corr reg k : in_use_P (on_unavailable s now corr reg) k -> in_use_P s k.
Proof.
  unfold on_unavailable. destruct (find_sub reg (subs s)) as [o|] eqn:Ef; [|auto]. destruct (live o); [|auto].
  destruct (remove_first corr (so_imgs o)) as [[i rest]|] eqn:Er; [|auto].
  destruct (find_sub_in _ _ _ Ef) as [Hin _]. destruct (remove_first_incl _ _ _ _ Er) as [_ Hsub].
  unfold in_use_P, linger, log_cb, close_imgs. cbn [subs lingering clones pubs upd_subs upd_lingering].
  intros [(a & A & B)|[(l & A & B)|[H|H]]].
  - apply in_set_sub in A. destruct A as [A|[A _]].
    + subst. cbn [so_imgs] in B. destruct B as (x & Hx & Hc). left. exists o. split; [assumption|]. exists x. auto.
    + left. exists a. auto.
  - apply in_app_or in A. destruct A as [A|[A|[]]].
    + right. left. exists l. auto.
    + subst. cbn [snd] in B. left. exists o. auto.
  - right. right. left. exact H.
  - right. right. right. exact H.
Qed.

Lemma in_use_drop_sub s now reg k : in_use_P (drop_sub s now reg) k -> in_use_P s k.
Proof.
  unfold drop_sub. destruct (find_sub reg (subs s)) as [o|] eqn:Ef; [|auto].
  destruct (find_sub_in _ _ _ Ef) as [Hin _]. destruct (so_inmap o).
  - unfold in_use_P, linger, log_cb, close_imgs. cbn [subs lingering clones pubs upd_subs upd_lingering upd_nid].
    intros [(a & A & B)|[(l & A & B)|[H|H]]].
    + apply filter_In in A. left. exists a. tauto.
    + apply in_app_or in A. destruct A as [A|[A|[]]]; [right; left; exists l; auto|]. subst. left. exists o. auto.
    + right. right. left. exact H.
    + right. right. right. exact H.
  - unfold in_use_P. cbn [subs lingering clones pubs upd_subs].
    intros [(a & A & B)|H]; [|right; exact H]. apply filter_In in A. left. exists a. tauto.
Qed.

Lemma in_use_close s now k : in_use_P (close_client s now) k -> in_use_P s k.
Proof.
  unfold close_client. destruct (cclosed s); [auto|].
  unfold in_use_P. cbn [subs lingering clones pubs].
  intros [(a & A & B)|[(l & A & B)|[H|(p & A & B)]]].
  - apply in_map_iff in A. destruct A as (b & Hb & Hin). subst. unfold closed_sub in B.
    destruct (closing b); cbn [so_imgs] in B; [destruct B as (i & [] & _)|]. left. exists b. auto.
  - apply in_app_or in A. destruct A as [A|A]; [right; left; exists l; auto|].
    unfold closing_lists in A. apply in_flat_map in A. destruct A as (b & Hb & Hin).
    destruct (closing b); [|destruct Hin]. destruct Hin as [Hin|[]]. subst. left. exists b. auto.
  - right. right. left. exact H.
  - apply in_map_iff in A. destruct A as (q & Hq & Hin). subst. apply filter_In in Hin. right. right. right. exists q. tauto.
Qed.

Lemma in_use_chan s now k : in_use_P (chan_err s now) k -> in_use_P s k.
Proof.
  unfold chan_err, in_use_P. cbn [subs lingering clones pubs].
  intros [(a & A & B)|[(l & A & B)|[H|H]]].
  - apply in_map_iff in A. destruct A as (b & Hb & Hin). subst. unfold chan_sub in B.
    destruct (closing b); cbn [so_imgs] in B; [destruct B as (i & [] & _)|]. left. exists b. auto.
  - apply in_app_or in A. destruct A as [A|A]; [right; left; exists l; auto|].
    unfold closing_lists in A. apply in_flat_map in A. destruct A as (b & Hb & Hin).
    destruct (closing b); [|destruct Hin]. destruct Hin as [Hin|[]]. subst. left. exists b. auto.
  - right. right. left. exact H.
  - right. right. right. exact H.
Qed.

Lemma in_use_drop_pub s reg k : in_use_P (drop_pub s reg) k -> in_use_P s k.
Proof.
  unfold drop_pub. destruct (find _ _) as [p|]; [|auto].
  assert (H : in_use_P (upd_pubs s (filter (fun x => negb (is_held_pub reg x)) (pubs s))) k -> in_use_P s k).
  { unfold in_use_P. cbn [subs lingering clones pubs upd_pubs]. intros [H|[H|[H|(q & A & B)]]]; auto.
    apply filter_In in A. right. right. right. exists q. tauto. }
  assert (H2 : in_use_P (upd_pubs s (map (fun x => if is_held_pub reg x then mkPobj (p_reg x) (p_key x) true false else x) (pubs s))) k -> in_use_P s k).
  { unfold in_use_P. cbn [subs lingering clones pubs upd_pubs]. intros [H0|[H0|[H0|(q & A & B)]]]; auto.
    apply in_map_iff in A. destruct A as (x & Hx & Hin). right. right. right. exists x. split; [assumption|].
    destruct (is_held_pub reg x); subst; auto. }
  destruct (p_inmap p); [destruct (ringfull s)|]; auto.
Qed.

Lemma in_use_hold s reg idx k : in_use_P (hold s reg idx) k -> in_use_P s k.
Proof.
  unfold hold. destruct (find_sub reg (subs s)) as [o|] eqn:Ef; [|auto]. destruct (find_sub_in _ _ _ Ef) as [Hin _].
  destruct (idx <? 0); [auto|]. destruct (nth_error (so_imgs o) (Z.to_nat idx)) as [i|] eqn:En; [|auto].
  apply nth_error_In in En. unfold in_use_P. cbn [subs lingering clones pubs upd_clones].
  intros [H|[H|[H|H]]]; auto. apply holds_img_app in H. destruct H as [H|(x & [Hx|[]] & Hc)]; [auto|]. subst.
  left. exists o. split; [assumption|]. exists x. auto.
Qed.

Lemma remove_nth_incl {A} (l : list A) : forall n x, In x (remove_nth n l) -> In x l.
Proof. induction l as [|a l IH]; intros [|n] x H; cbn in *; auto. destruct H; auto. right. eauto. Qed.

Lemma in_use_unhold s j k : in_use_P (unhold s j) k -> in_use_P s k.
Proof.
  unfold unhold. destruct (j <? 0); [auto|]. unfold in_use_P. cbn [subs lingering clones pubs upd_clones].
  intros [H|[H|[(i & A & B)|H]]]; auto. apply remove_nth_incl in A. right. right. left. exists i. auto.
Qed.

(* the resource check *)
Lemma in_use_check lg now s k : in_use_P (check_p lg now s) k -> in_use_P s k.
Proof.
  unfold check_p, in_use_P. cbn [subs lingering clones pubs upd_lingering upd_registry].
  intros [H|[(l & A & B)|[H|H]]]; auto. unfold check_lingering_p in A. apply filter_In in A. right. left. exists l. tauto.
Qed.

Lemma check_registry_in lg now s : forall r e', In e' (check_registry_p lg now s r) ->
  exists e, In e r /\ e_key e' = e_key e /\ (in_use s (e_key e) = true -> e' = e).
Proof.
  induction r as [|e r IH]; intros e' H; cbn in H; [destruct H|].
  unfold check_entry_p in H. destruct (in_use s (e_key e)) eqn:Eu.
  - destruct H as [H|H]; [subst; exists e'; split; [left; reflexivity|auto]|].
    destruct (IH _ H) as (a & A & B). exists a. split; [right; assumption|assumption].
  - destruct (e_time e =? MAX_MOMENT).
    + destruct H as [H|H]; [subst; exists e; split; [left; reflexivity|]; split; [reflexivity|congruence]|].
      destruct (IH _ H) as (a & A & B). exists a. split; [right; assumption|assumption].
    + destruct (stale lg now (e_time e)).
      * destruct (IH _ H) as (a & A & B). exists a. split; [right; assumption|assumption].
      * destruct H as [H|H]; [subst; exists e'; split; [left; reflexivity|auto]|].
        destruct (IH _ H) as (a & A & B). exists a. split; [right; assumption|assumption].
Qed.

Lemma check_registry_keeps lg now s : forall r e, In e r -> in_use s (e_key e) = true -> In e (check_registry_p lg now s r).
Proof.
  induction r as [|a r IH]; intros e H Hu; [destruct H|]. cbn. destruct H as [H|H].
  - subst. unfold check_entry_p. rewrite Hu. left. reflexivity.
  - destruct (check_entry_p lg now s a); [right|]; apply IH; assumption.
Qed.

Lemma check_registry_nodup lg now s : forall r, NoDup (map e_key r) -> NoDup (map e_key (check_registry_p lg now s r)).
Proof.
  induction r as [|a r IH]; intros H; [constructor|]. cbn [map] in H. inversion H; subst. cbn.
  assert (Hn : forall e', In e' (check_registry_p lg now s r) -> e_key e' <> e_key a).
  { intros e' He' Hk. destruct (check_registry_in _ _ _ _ _ He') as (e & A & B & _). apply H2. apply in_map_iff. exists e. split; [congruence|assumption]. }
  destruct (check_entry_p lg now s a) as [a'|] eqn:Ec; [|auto]. cbn [map]. constructor; [|auto].
  assert (e_key a' = e_key a).
  { unfold check_entry_p in Ec. destruct (in_use s (e_key a)); [inversion Ec; reflexivity|].
    destruct (e_time a =? MAX_MOMENT); [inversion Ec; reflexivity|]. destruct (stale lg now (e_time a)); inversion Ec; reflexivity. }
  intro Hi. apply in_map_iff in Hi. destruct Hi as (e' & A & B). apply (Hn e' B). congruence.
Qed.

Lemma RInv_check lg now s : RInv s -> RInv (check_p lg now s).
Proof.
  intros (A & B & C). unfold RInv. split; [|split].
  - intros k Hk. apply in_use_check in Hk. pose proof (A k Hk) as Hh. apply has_key_iff in Hh. apply in_map_iff in Hh.
    destruct Hh as (e & He & Hin). apply has_key_iff. apply in_map_iff. exists e. split; [assumption|].
    cbn. apply check_registry_keeps; [assumption|]. apply in_use_iff. rewrite He. assumption.
  - intros e' He' Hk. cbn in He'. apply in_use_check in Hk. destruct (check_registry_in _ _ _ _ _ He') as (e & Hin & Hkey & Hsame).
    rewrite Hkey in Hk. rewrite (Hsame (proj2 (in_use_iff s (e_key e)) Hk)). apply B; assumption.
  - cbn. apply check_registry_nodup. assumption.
Qed.

Lemma RInv_timers lg now s : RInv s -> RInv (timers_p lg now s).
Proof. intros H. unfold timers_p. destruct (due now s); [|assumption].
  apply RInv_check with (lg := lg) (now := now) in H. eapply RInv_mono; [| |exact H]; [reflexivity|auto]. Qed.

Lemma RInv_init t0 cid : RInv (init t0 cid).
Proof. unfold RInv, init, in_use_P. cbn. split; [|split]; [|intros e []|constructor].
  intros k [(o & [] & _)|[(l & [] & _)|[(i & [] & _)|(p & [] & _)]]]. Qed.

Lemma RInv_step lg s o : RInv s -> RInv (fst (step_p lg s o)).
Proof.
  intros HI. destruct o; cbn [step_p].
  - destruct (cclosed s); [assumption|]. destruct (ringfull s); [cbn [fst]; (eapply RInv_mono; [| |exact HI]; [reflexivity|auto])|].
    cbn [fst]. apply RInv_timers. eapply RInv_mono; [| |exact HI]; [reflexivity|apply in_use_subscribe].
  - destruct (cclosed s); [assumption|]. destruct (ringfull s); [cbn [fst]; (eapply RInv_mono; [| |exact HI]; [reflexivity|auto])|]. cbn [fst]. apply RInv_timers.
    eapply (RInv_acquire s _ (pub_key s share) file); [reflexivity| |exact HI]. apply in_use_publish.
  - cbn [fst]. apply RInv_timers. unfold on_available at 1.
    destruct (find_sub reg (subs s)) as [o|] eqn:Ef; [|assumption]. destruct (live o) eqn:El; [|assumption].
    eapply (RInv_acquire s _ corr file); [reflexivity| |exact HI].
    intros k Hk. apply (in_use_available s now corr reg file k). unfold on_available. rewrite Ef, El. exact Hk.
  - cbn [fst]. apply RInv_timers. eapply RInv_mono; [| |exact HI]; [|apply in_use_unavailable].
    unfold on_unavailable. destruct (find_sub _ _) as [o|]; [|reflexivity]. destruct (live o); [|reflexivity].
    destruct (remove_first _ _) as [[i rest]|]; reflexivity.
  - cbn [fst]. apply RInv_timers. assumption.
  - cbn [fst]. eapply RInv_mono; [| |exact HI]; [|apply in_use_drop_sub].
    unfold drop_sub. destruct (find_sub _ _) as [o|]; [|reflexivity]. destruct (so_inmap o); reflexivity.
  - cbn [fst]. eapply RInv_mono; [| |exact HI]; [|apply in_use_drop_pub].
    unfold drop_pub. destruct (find _ _) as [p|]; [|reflexivity]. destruct (p_inmap p); [destruct (ringfull s)|]; reflexivity.
  - cbn [fst]. eapply RInv_mono; [| |exact HI]; [|apply in_use_hold].
    unfold hold. destruct (find_sub _ _) as [o|]; [|reflexivity]. destruct (if idx <? 0 then None else _); reflexivity.
  - cbn [fst]. eapply RInv_mono; [| |exact HI]; [|apply in_use_unhold]. unfold unhold. destruct (j <? 0); reflexivity.
  - cbn [fst]. eapply RInv_mono; [| |exact HI]; [|apply in_use_close]. unfold close_client. destruct (cclosed s); reflexivity.
  - cbn [fst]. (eapply RInv_mono; [| |exact HI]; [reflexivity|auto]).
  - cbn [fst]. (eapply RInv_mono; [| |exact HI]; [reflexivity|auto]).
  - cbn [fst]. apply RInv_timers. eapply RInv_mono; [| |exact HI]; [reflexivity|apply in_use_chan].
Qed.

(* ---- the linger guarantee ---- *)
Definition fresh_since (t0 k : Z) (s : st) : Prop :=
  exists e, In e (registry s) /\ e_key e = k /\ (e_time e = MAX_MOMENT \/ t0 <= e_time e).

Definition op_time (o : op) : option Z :=
  match o with
  | Subscribe now | Publish now _ _ | Avail now _ _ _ | Unavail now _ _ | Tick now
  | DropSub now _ | DropPub now _ | CloseClient now | ChanErr now => Some now
  | Hold _ _ | Unhold _ | Stall | Drain => None
  end.
Definition within (t0 lg : Z) (o : op) : Prop := match op_time o with Some now => t0 <= now <= t0 + lg | None => True end.

Lemma fresh_acquire t0 k r k' f : (exists e, In e r /\ e_key e = k /\ (e_time e = MAX_MOMENT \/ t0 <= e_time e)) ->
  exists e, In e (acquire r k' f) /\ e_key e = k /\ (e_time e = MAX_MOMENT \/ t0 <= e_time e).
Proof.
  intros (e & A & B & C). unfold acquire. destruct (has_key k' r).
  - exists (if e_key e =? k' then mkEntry (e_key e) (e_file e) MAX_MOMENT else e). split.
    + apply in_map_iff. exists e. auto.
    + destruct (e_key e =? k'); cbn; auto.
  - exists e. split; [apply in_or_app; auto|auto].
Qed.

Lemma fresh_same t0 k s s' : registry s' = registry s -> fresh_since t0 k s -> fresh_since t0 k s'.
Proof. unfold fresh_since. intros ->. auto. Qed.

Lemma fresh_check t0 lg k now s : t0 <= now <= t0 + lg -> fresh_since t0 k s -> fresh_since t0 k (check_p lg now s).
Proof.
  intros Hn (e & A & B & C). unfold fresh_since, check_p. cbn [registry upd_lingering upd_registry].
  induction (registry s) as [|a r IH]; [destruct A|]. cbn [check_registry_p]. destruct A as [A|A].
  - subst a. unfold check_entry_p. destruct (in_use s (e_key e)).
    + exists e. split; [left; reflexivity|auto].
    + destruct (e_time e =? MAX_MOMENT) eqn:Em.
      * exists (mkEntry (e_key e) (e_file e) now). split; [left; reflexivity|]. cbn. split; [assumption|right; lia].
      * destruct C as [C|C]; [rewrite C, Z.eqb_refl in Em; discriminate|].
        unfold stale. replace (now >? e_time e + lg) with false by lia. exists e. split; [left; reflexivity|auto].
  - destruct (IH A) as (e' & A' & B' & C'). exists e'. split; [|auto]. destruct (check_entry_p lg now s a); [right|]; assumption.
Qed.

Lemma fresh_timers t0 lg k now s : t0 <= now <= t0 + lg -> fresh_since t0 k s -> fresh_since t0 k (timers_p lg now s).
Proof. intros Hn H. unfold timers_p. destruct (due now s); [|assumption].
  apply (fresh_same t0 k (check_p lg now s)); [reflexivity|]. apply fresh_check; assumption. Qed.

Lemma registry_on_available s now corr reg file :
  registry (on_available s now corr reg file) = registry s \/ registry (on_available s now corr reg file) = acquire (registry s) corr file.
Proof. unfold on_available. destruct (find_sub _ _) as [o|]; [|auto]. destruct (live o); [right; reflexivity|auto]. Qed.

Lemma fresh_step t0 lg k s o : within t0 lg o -> fresh_since t0 k s -> fresh_since t0 k (fst (step_p lg s o)).
Proof.
  intros Hw H. destruct o; cbn [step_p]; unfold within in Hw; cbn [op_time] in Hw.
  - destruct (cclosed s); [assumption|]. destruct (ringfull s); [cbn [fst]; eapply fresh_same; [|exact H]; reflexivity|].
    cbn [fst]. apply fresh_timers; [assumption|]. eapply fresh_same; [|exact H]. reflexivity.
  - destruct (cclosed s); [assumption|]. destruct (ringfull s); [cbn [fst]; eapply fresh_same; [|exact H]; reflexivity|]. cbn [fst]. apply fresh_timers; [assumption|].
    unfold fresh_since, publish_ev. cbn [registry upd_registry]. apply fresh_acquire. exact H.
  - cbn [fst]. apply fresh_timers; [assumption|]. unfold fresh_since.
    destruct (registry_on_available s now corr reg file) as [E|E]; rewrite E; [exact H|apply fresh_acquire; exact H].
  - cbn [fst]. apply fresh_timers; [assumption|]. eapply fresh_same; [|exact H].
    unfold on_unavailable. destruct (find_sub _ _) as [a|]; [|reflexivity]. destruct (live a); [|reflexivity].
    destruct (remove_first _ _) as [[i rest]|]; reflexivity.
  - cbn [fst]. apply fresh_timers; assumption.
  - cbn [fst]. eapply fresh_same; [|exact H]. unfold drop_sub. destruct (find_sub _ _) as [a|]; [|reflexivity]. destruct (so_inmap a); reflexivity.
  - cbn [fst]. eapply fresh_same; [|exact H]. unfold drop_pub. destruct (find _ _) as [p|]; [|reflexivity]. destruct (p_inmap p); [destruct (ringfull s)|]; reflexivity.
  - cbn [fst]. eapply fresh_same; [|exact H]. unfold hold. destruct (find_sub _ _) as [a|]; [|reflexivity]. destruct (if idx <? 0 then None else _); reflexivity.
  - cbn [fst]. eapply fresh_same; [|exact H]. unfold unhold. destruct (j <? 0); reflexivity.
  - cbn [fst]. eapply fresh_same; [|exact H]. unfold close_client. destruct (cclosed s); reflexivity.
  - cbn [fst]. eapply fresh_same; [|exact H]. reflexivity.
  - cbn [fst]. eapply fresh_same; [|exact H]. reflexivity.
  - cbn [fst]. apply fresh_timers; [assumption|]. eapply fresh_same; [|exact H]. reflexivity.
Qed.

Lemma fresh_has_key t0 k s : fresh_since t0 k s -> has_key k (registry s) = true.
Proof. intros (e & A & B & _). apply has_key_iff. apply in_map_iff. exists e. auto. Qed.

(* a log some handle refers to now stays mapped through every operation whose clock is within `linger` of now:
   whatever happens to the handles in between, including the loss of the last one *)
Theorem linger_guarantee m lg t0 k : time_ok lg -> forall ops s s',
  wf s -> RInv s -> in_use_P s k -> Forall op_ok ops -> Forall (within t0 lg) ops ->
  exec m lg s ops = Some s' -> has_key k (registry s') = true.
Proof.
  intros Hlg ops s s' Hwf (A & B & C) Hu Hok Hw He.
  assert (Hf : fresh_since t0 k s).
  { pose proof (A k Hu) as Hh. apply has_key_iff in Hh. apply in_map_iff in Hh. destruct Hh as (e & Hk & Hin).
    exists e. split; [assumption|]. split; [assumption|]. left. apply B; [assumption|]. rewrite Hk. assumption. }
  apply (fresh_has_key t0). clear A B C Hu. revert s s' Hwf Hf Hok Hw He.
  induction ops as [|o ops IH]; intros s s' Hwf Hf Hok Hw He; cbn in He.
  - inversion He; subst. assumption.
  - inversion Hok; subst. inversion Hw; subst. rewrite step_eq in He by assumption.
    destruct (step_p lg s o) as [s1 r] eqn:E.
    assert (Hwf1 : wf s1) by (change s1 with (fst (s1, r)); rewrite <- E; apply step_p_wf; assumption).
    assert (Hf1 : fresh_since t0 k s1) by (change s1 with (fst (s1, r)); rewrite <- E; apply fresh_step; assumption).
    eapply IH; eauto.
Qed.

(* ---- stamping and release by the resource check ---- *)
Lemma check_stamps lg now s : forall r e, In e r -> in_use s (e_key e) = false -> e_time e = MAX_MOMENT ->
  In (mkEntry (e_key e) (e_file e) now) (check_registry_p lg now s r).
Proof.
  induction r as [|a r IH]; intros e H Hu Ht; [destruct H|]. cbn. destruct H as [H|H].
  - subst. unfold check_entry_p. rewrite Hu, Ht, Z.eqb_refl. left. reflexivity.
  - destruct (check_entry_p lg now s a); [right|]; apply IH; assumption.
Qed.

Lemma check_releases lg now s : forall r e, NoDup (map e_key r) -> In e r -> in_use s (e_key e) = false ->
  e_time e <> MAX_MOMENT -> now > e_time e + lg -> has_key (e_key e) (check_registry_p lg now s r) = false.
Proof.
  intros r e Hnd Hin Hu Ht Hs. destruct (has_key (e_key e) (check_registry_p lg now s r)) eqn:Eh; [|reflexivity]. exfalso.
  apply has_key_iff in Eh. apply in_map_iff in Eh. destruct Eh as (e' & Hk & Hin').
  revert Hnd Hin Hin'. induction r as [|a r IH]; intros Hnd Hin Hin'; [destruct Hin|]. cbn [map] in Hnd. inversion Hnd; subst.
  cbn in Hin'. destruct Hin as [Hin|Hin].
  - subst a. unfold check_entry_p in Hin'. rewrite Hu in Hin'. replace (e_time e =? MAX_MOMENT) with false in Hin' by lia.
    unfold stale in Hin'. replace (now >? e_time e + lg) with true in Hin' by lia.
    destruct (check_registry_in _ _ _ _ _ Hin') as (e0 & A & B & _). apply H1. apply in_map_iff. exists e0. split; [congruence|assumption].
  - assert (Hne : e_key a <> e_key e) by (intro Hq; apply H1; apply in_map_iff; exists e; auto).
    destruct (check_entry_p lg now s a) as [a'|] eqn:Ec; [|auto].
    destruct Hin' as [Hq|Hq]; [|auto]. subst a'.
    assert (e_key e' = e_key a).
    { unfold check_entry_p in Ec. destruct (in_use s (e_key a)); [inversion Ec; reflexivity|].
      destruct (e_time a =? MAX_MOMENT); [inversion Ec; reflexivity|]. destruct (stale lg now (e_time a)); inversion Ec; reflexivity. }
    congruence.
Qed.

(* a duty cycle whose resource check is due: an unreferenced entry seen for the first time is stamped with `now` and stays;
   one stamped t with now > t + linger is removed (the mapping is released); one with now <= t + linger stays *)
Theorem linger_release lg now s e :
  RInv s -> In e (registry s) -> in_use s (e_key e) = false -> due now s = true ->
  let s' := timers_p lg now s in
  (e_time e = MAX_MOMENT -> In (mkEntry (e_key e) (e_file e) now) (registry s')) /\
  (e_time e <> MAX_MOMENT -> now > e_time e + lg -> has_key (e_key e) (registry s') = false) /\
  (e_time e <> MAX_MOMENT -> now <= e_time e + lg -> In e (registry s')).
Proof.
  intros (_ & _ & C) Hin Hu Hd. cbv zeta. unfold timers_p. rewrite Hd. cbn [registry upd_t_chk check_p upd_lingering upd_registry].
  split; [|split].
  - intros Ht. apply check_stamps; assumption.
  - intros Ht Hs. apply check_releases; assumption.
  - intros Ht Hs. clear C. induction (registry s) as [|a r IH]; [destruct Hin|]. cbn. destruct Hin as [Hin|Hin].
    + subst. unfold check_entry_p. rewrite Hu. replace (e_time e =? MAX_MOMENT) with false by lia.
      unfold stale. replace (now >? e_time e + lg) with false by lia. left. reflexivity.
    + destruct (check_entry_p lg now s a); [right|]; auto.
Qed.

(* no resource check, no change of the registry by the timers *)
Lemma not_due_registry lg now s : due now s = false -> registry (timers_p lg now s) = registry s.
Proof. unfold timers_p. intros ->. reflexivity. Qed.
