(* C06, interleavings: the trace oracle `holds_conc` of Oracle/C06Oracle.v - the predicate with which the
   check judges a scheduled run of the implementation - is true of every run of the thread model in which
   all threads ran to completion and the epilogue drained the ring: for any capacity, any sequential prelude,
   any number of producers with any programs (every write of the case with its own type id), any read
   limits of the consumer, every schedule. *)
Require Import V.Base.MachineInt.
Require Import V.Generated.GenConsts.
Require Import V.Model.LogBase.
Require Import V.Model.Ring.
Require Import V.Model.RingThreads.
Require Import V.Spec.Fifo.
Require Import V.Oracle.C06Oracle.
Require Import V.Proofs.RingArith.
Require Import V.Proofs.RingSeq.
Require Import V.Proofs.RingRender.
Require Import V.Proofs.RingSeqRun.
Require Import V.Proofs.C06OracleProofs.
Require Import V.Proofs.RingConc.
Require Import V.Proofs.RingConcThm.
Require Import V.Proofs.RingLog.
Require Import V.Proofs.RingUnblock.
Require Import V.Proofs.RingSweep.
Require Import V.Proofs.RingTrace.
Require Import V.Proofs.RingClaims.
Require Import V.Proofs.RingData.
Require Import V.Proofs.RingQuiet.
From Coq Require Import ZifyBool Lia.
Open Scope Z_scope.

(* ---- head and tail as the observations of a sequential run report them ---- *)
Definition ht_upd (ht : Z * Z) (x : out) : Z * Z :=
  match x with OW _ h t | OR _ _ h t | OU _ h t => (h, t) | _ => ht end.

Definition moves (o : op) : bool := match o with OpWrite _ _ | OpRead _ | OpUnblock => true | _ => false end.

Lemma step_ht m st o : let '(st', x) := Ring.step m st o in
  (moves o = true -> forall ht, ht_upd ht x = (r_head st', r_tail st')) /\
  (moves o = false -> r_head st' = r_head st /\ r_tail st' = r_tail st /\ forall ht, ht_upd ht x = ht).
Proof. destruct o; cbn [Ring.step moves].
  - destruct (write m st typ body) as [st' r]. split; [intros _ ht; reflexivity | discriminate].
  - destruct (read m st limit) as [st' r]. split; [intros _ ht; reflexivity | discriminate].
  - destruct (unblock st) as [st' b]. split; [intros _ ht; reflexivity | discriminate].
  - split; [discriminate | intros _; repeat split; reflexivity].
  - unfold next_correlation_id. split; [discriminate | intros _; repeat split; reflexivity].
  - split; [discriminate | intros _; repeat split; reflexivity].
  - split; [discriminate | intros _; repeat split; reflexivity]. Qed.

Lemma run_ht m : forall ops st ht, (ht = (r_head st, r_tail st) \/ existsb moves ops = true) ->
  fold_left ht_upd (snd (run m st ops)) ht = (r_head (fst (run m st ops)), r_tail (fst (run m st ops))).
Proof. induction ops as [| o r IH]; intros st ht H.
  - cbn [run fst snd fold_left]. destruct H as [-> | H]; [reflexivity | discriminate].
  - rewrite run_cons. cbn [fst snd fold_left]. pose proof (step_ht m st o) as S. destruct (Ring.step m st o) as [st1 x]. cbn [fst snd].
    destruct S as (S1 & S2). destruct (moves o) eqn:M.
    + rewrite (S1 eq_refl ht). apply IH. left. reflexivity.
    + destruct (S2 eq_refl) as (A & B & C). rewrite C. apply IH. destruct H as [-> | H].
      * left. rewrite A, B. reflexivity.
      * right. cbn [existsb] in H. rewrite M in H. exact H. Qed.

Lemma last_ht_fold p0 outs : last_ht p0 outs = fold_left ht_upd outs (p0, p0).
Proof. reflexivity. Qed.

(* the tail position after a sequential run *)
Lemma run_tail_bound m c0 : forall ops st s n,
  wf st -> rel c0 n st s -> r_tail st + 2 * r_cap st * Z.of_nat (length ops) <= two62 ->
  Forall op_ok ops -> Z.of_nat (n + length ops) < two64 ->
  r_tail (fst (run m st ops)) <= r_tail st + 2 * r_cap st * Z.of_nat (length ops).
Proof. induction ops as [| o r IH]; intros st s n W R Hb Hok Hn.
  - cbn [run fst length]. lia.
  - rewrite run_cons. cbn [fst length] in *. inversion Hok as [| o' r' Ho Hr]; subst.
    pose proof (cap_ok_range _ (wf_cap _ W)) as Hcr.
    destruct (step_ok m c0 n st s o W R ltac:(nia) Ho ltac:(lia)) as (s1 & C1 & W1 & R1 & Ec & Et).
    specialize (IH (fst (Ring.step m st o)) s1 (S n) W1 R1 ltac:(rewrite Ec; nia) Hr ltac:(lia)). rewrite Ec in IH. nia. Qed.

(* ---- the epilogue: reads and dumps on a quiescent ring ---- *)
Definition post_ok (o : op) : Prop := match o with OpRead _ | OpDump => True | _ => False end.

Lemma delivered_in_cons x r : delivered_in (x :: r) = (match x with OR _ msgs _ _ => msgs | _ => [] end) ++ delivered_in r.
Proof. destruct x; reflexivity. Qed.

Lemma run_post lo m prods : forall post R, Inv lo (qcfg R prods) -> Forall post_ok post ->
  exists used rest, r_slots R = used ++ rest /\
    delivered_in (snd (run m R post)) = map (fun x => cmsg (untag x)) (msgs_of used) /\
    let R' := fst (run m R post) in
    r_slots R' = rest /\ r_head R' = r_head R + span_sum used /\ r_tail R' = r_tail R /\ Inv lo (qcfg R' prods).
Proof. induction post as [| o r IH]; intros R HI Hok.
  - exists [], (r_slots R). cbn [run fst snd delivered_in msgs_of filter map app span_sum].
    split; [reflexivity |]. split; [reflexivity |]. split; [reflexivity |]. split; [lia |]. split; [reflexivity | exact HI].
  - inversion Hok as [| o' r' Ho Hr]; subst. rewrite run_cons. cbn [fst snd]. destruct o; try contradiction; cbn [Ring.step].
    + destruct (read_quiet lo m R prods limit HI) as (u1 & r1 & Es & _ & ER & HI1 & Es1 & Eh1 & Et1 & _ & _ & _).
      rewrite ER. cbn [fst snd].
      destruct (IH (after_read R u1 r1) HI1 Hr) as (u2 & r2 & Es2 & Ed2 & Es3 & Eh3 & Et3 & HI3).
      exists (u1 ++ u2), r2. rewrite Es1 in Es2. split; [rewrite Es, Es2, app_assoc; reflexivity |].
      split.
      * rewrite delivered_in_cons. cbn [omap]. rewrite Ed2. rewrite msgs_of_app, !map_app. rewrite map_map. reflexivity.
      * cbn zeta. rewrite span_sum_app. split; [exact Es3 |]. split; [lia |]. split; [lia | exact HI3].
    + cbn [fst snd]. destruct (IH R HI Hr) as (u2 & r2 & Es2 & Ed2 & X). exists u2, r2. split; [exact Es2 |]. split; [| exact X].
      rewrite delivered_in_cons. cbn [app]. exact Ed2. Qed.

(* ---- small list facts ---- *)
Lemma fold_left_add l a : fold_left Z.add l a = a + fold_right Z.add 0 l.
Proof. revert a. induction l as [| x l IH]; intros a; cbn [fold_left fold_right]; [lia |]. rewrite IH. lia. Qed.

Lemma filter_partition_length {A} (f : A -> bool) l : length l = (length (filter f l) + length (filter (fun x => negb (f x)) l))%nat.
Proof. induction l as [| a l IH]; cbn [filter length]; [reflexivity |]. destruct (f a); cbn [negb length]; lia. Qed.

Lemma is_prefix_refl l : is_prefix l l = true.
Proof. induction l as [| [[t n] p] l IH]; cbn [is_prefix]; [reflexivity |]. rewrite IH, Bool.andb_true_r.
  unfold cmsg_eqb. rewrite !Z.eqb_refl. cbn [andb]. induction p; cbn [zs_eqb]; [reflexivity | rewrite Z.eqb_refl; assumption]. Qed.

Lemma ok_indices_count res : forall k, length (ok_indices res k) = length (filter (fun r => is_okz r 0) res).
Proof. induction res as [| r res IH]; intros k; cbn [ok_indices filter]; [reflexivity |].
  rewrite app_length, IH. destruct r as [z | | | |]; cbn [is_okz length]; try lia.
  destruct z; cbn [Z.eqb length]; lia. Qed.

Lemma of_owner_filter_other o o' (L : list ltag) : o <> o' ->
  of_owner o (filter (fun t : ltag => negb (fst t =? o')) L) = of_owner o L.
Proof. intros H. unfold of_owner. induction L as [| t L IH]; cbn [filter]; [reflexivity |].
  destruct (fst t =? o') eqn:E; cbn [negb filter].
  - replace (fst t =? o) with false by lia. exact IH.
  - destruct (fst t =? o); [f_equal |]; exact IH. Qed.

(* the tags of a log whose owners are the threads j+1 .. j+n, counted per owner *)
Lemma count_by_owner (cnt : pstate -> Z) : forall prods j (L : list ltag),
  (forall t, In t L -> exists i, (i < length prods)%nat /\ fst t = Z.of_nat (S (j + i))) ->
  (forall i ps, nth_error prods i = Some ps -> Z.of_nat (length (of_owner (Z.of_nat (S (j + i))) L)) = cnt ps) ->
  Z.of_nat (length L) = fold_right Z.add 0 (map cnt prods).
Proof. induction prods as [| ps prods IH]; intros j L Hown Hcnt.
  - destruct L as [| t L]; [reflexivity |]. destruct (Hown t ltac:(left; reflexivity)) as (i & Hi & _). cbn in Hi. lia.
  - cbn [map fold_right].
    assert (P : Z.of_nat (length L) = Z.of_nat (length (filter (fun t : ltag => fst t =? Z.of_nat (S j)) L))
                + Z.of_nat (length (filter (fun t : ltag => negb (fst t =? Z.of_nat (S j))) L))).
    { rewrite <- Nat2Z.inj_add. f_equal. apply filter_partition_length. }
    rewrite P.
    pose proof (Hcnt O ps eq_refl) as H0. rewrite Nat.add_0_r in H0.
    assert (E0 : Z.of_nat (length (filter (fun t : ltag => fst t =? Z.of_nat (S j)) L)) = cnt ps) by (exact H0).
    rewrite E0. f_equal.
    apply (IH (S j)).
    + intros t Ht. apply filter_In in Ht. destruct Ht as (Ht & Hne). destruct (Hown t Ht) as (i & Hi & Ei).
      destruct i as [| i]; [rewrite Nat.add_0_r in Ei; lia |]. exists i. cbn [length] in Hi. split; [lia |]. rewrite Ei. f_equal. lia.
    + intros i q Hq. rewrite <- (Hcnt (S i) q Hq). replace (S j + i)%nat with (j + S i)%nat by lia.
      rewrite of_owner_filter_other by lia. reflexivity.
Qed.

(* ---- the claims of a run in which every producer has returned ---- *)
Definition entry_of (prods : list pstate) (tg : ltag) (w : wreq) : Prop :=
  exists i ps, fst tg = Z.of_nat (S i) /\ nth_error prods i = Some ps /\ nth_error (p_prog ps) (Z.to_nat (snd tg)) = Some w.

Lemma entry_fun prods tg w1 w2 : entry_of prods tg w1 -> entry_of prods tg w2 -> w1 = w2.
Proof. intros (i & ps & A & B & C) (j & q & A' & B' & C'). assert (i = j) by lia. subst j. rewrite B in B'. inversion B'; subst q.
  rewrite C in C'. inversion C'. reflexivity. Qed.

Lemma find_write_nodup l w : NoDup (map fst l) -> In w l -> find_write l (fst w) = Some w.
Proof. induction l as [| a l IH]; intros ND Hin; [inversion Hin |]. cbn [map] in ND. inversion ND as [| x xs Hni ND']; subst.
  cbn [find_write]. destruct Hin as [-> | Hin].
  - rewrite Z.eqb_refl. reflexivity.
  - destruct (fst a =? fst w) eqn:E; [| apply IH; assumption].
    exfalso. apply Hni. replace (fst a) with (fst w) by lia. apply in_map. assumption. Qed.

Lemma in_concat_of {A} (ls : list (list A)) l x : In l ls -> In x l -> In x (concat ls).
Proof. intros H1 H2. apply in_concat. exists l. auto. Qed.

Lemma committed_cmds_done progs prods : forall cl tl,
  Forall2 (crel prods) cl tl -> (forall i ps, nth_error prods i = Some ps -> p_pc ps = PDone) ->
  map p_prog prods = progs -> NoDup (map fst (concat progs)) ->
  forallb (fun c => k_done c) cl = true /\
  exists ws, committed_cmds progs cl = Some (map cmsg ws) /\ Forall2 (fun w tg => entry_of prods tg w) ws tl.
Proof. intros cl tl F Hdone Hprogs ND. induction F as [| c tg cl tl Hc F IH].
  - split; [reflexivity |]. exists []. split; [reflexivity | constructor].
  - destruct IH as (IH1 & ws & IH2 & IH3).
    destruct Hc as (A & B & i & ps & typ & body & Eo & Hi & Hn & Hv & Hcase).
    destruct Hcase as [(C1 & C2 & C3 & C4) | (C1 & C2 & C3)]; [| rewrite (Hdone i ps Hi) in C3; contradiction].
    cbn [forallb committed_cmds]. rewrite C4, IH1. split; [reflexivity |].
    assert (Hin : In (typ, body) (concat progs)).
    { eapply in_concat_of; [| eapply nth_error_In; exact Hn]. rewrite <- Hprogs.
      apply in_map_iff. exists ps. split; [reflexivity | eapply nth_error_In; exact Hi]. }
    rewrite C2. pose proof (find_write_nodup _ _ ND Hin) as FW. cbn [fst] in FW. rewrite FW, IH2.
    rewrite C3. unfold len_of, rl_of. cbn [snd]. rewrite Z.eqb_refl.
    exists ((typ, body) :: ws). split; [reflexivity |]. constructor; [| exact IH3].
    exists i, ps. auto. Qed.

Lemma entries_unique prods : forall tl ws (dt : list tmsg),
  Forall2 (fun w tg => entry_of prods tg w) ws tl -> Forall2 (fun x tg => entry_of prods tg (untag x)) dt tl ->
  ws = map untag dt.
Proof. induction tl as [| tg tl IH]; intros ws dt F1 F2; inversion F1; subst; inversion F2; subst; [reflexivity |].
  cbn [map]. f_equal; [eapply entry_fun; eassumption | apply IH; assumption]. Qed.

Lemma Forall2_len {A B} (R : A -> B -> Prop) l1 l2 : Forall2 R l1 l2 -> length l1 = length l2.
Proof. induction 1; cbn [length]; congruence. Qed.

Lemma Forall2_map_l {A B C} (R : B -> C -> Prop) (f : A -> B) l1 l2 :
  Forall2 (fun a c => R (f a) c) l1 l2 -> Forall2 R (map f l1) l2.
Proof. induction 1; constructor; auto. Qed.

(* which threads ran to completion, as the results say *)
Definition finished (t : tres) : bool := match t with TCons _ | TProd _ => true | _ => false end.

Definition conc_domain (cp p0 hc0 c0 : Z) (pre : list op) (progs : list (list wreq)) (post : list op) : Prop :=
  seq_domain cp p0 hc0 c0 pre /\ Forall (Forall wreq_ok) progs /\ NoDup (map fst (concat progs)) /\
  Forall post_ok post /\ existsb moves post = true /\
  p0 + 2 * cp * (Z.of_nat (length pre) + Z.of_nat (length (concat progs)) + 1) <= two62.

Lemma steps_progs lo m c tr c' : Inv lo c -> steps lo m c tr c' -> map p_prog (g_prods c') = map p_prog (g_prods c).
Proof. intros HI Hs. induction Hs as [c | c tid c1 e tr c2 Hst Hw Hs IH]; [reflexivity |].
  rewrite (IH (step_inv lo m c tid c1 e HI Hst Hw)). clear IH Hs.
  unfold step in Hst. destruct tid as [| i].
  - destruct (cstep m (g_ring c) (g_cons c)) as [[R cs] [evt |]]; [| discriminate]. inversion Hst; subst. reflexivity.
  - destruct (nth_error (g_prods c) i) as [ps |] eqn:Ei; [| discriminate].
    destruct (pstep m (g_ring c) (Z.of_nat (S i)) ps) as [[R ps'] [evt |]] eqn:E; [| discriminate]. inversion Hst; subst c1 e.
    destruct (pstep_cases lo m c i ps R ps' evt HI Ei E) as (typ & body & _ & Ep & _). cbn [g_prods].
    clear - Ei Ep. revert i Ei. induction (g_prods c) as [| a l IH]; intros [| i] Ei; cbn in Ei; try discriminate; cbn [set_nth map].
    + inversion Ei; subst. rewrite Ep. reflexivity.
    + rewrite (IH i Ei). reflexivity. Qed.

Lemma start_progs R limits progs : map p_prog (g_prods (start R limits progs)) = progs.
Proof. unfold start. cbn [g_prods]. rewrite map_map. rewrite <- (map_id progs) at 2. apply map_ext. intros prog. unfold pstart.
  destruct (enter_le (r_cap R) (S (length prog)) (mkP PDone prog O []) ltac:(cbn; lia)) as (_ & B & _). exact B. Qed.

Theorem oracle_conc_model m cp p0 hc0 c0 pre limits progs sched stops post :
  conc_domain cp p0 hc0 c0 pre progs post ->
  let obs := run_conc m (init cp p0 hc0 c0) pre limits progs sched stops post in
  forallb finished (snd (fst obs)) = true ->
  (let '(h3, t3) := last_ht p0 (fst (fst (fst obs)) ++ snd obs) in h3 = t3) ->
  holds_conc_core cp p0 pre progs post obs = true.
Proof.
  intros (Dseq & Dprogs & Dnd & Dpost & Dmoves & Dwin). cbn zeta. unfold run_conc.
  destruct (run m (init cp p0 hc0 c0) pre) as [R1 o1] eqn:E1.
  destruct (run_sched m (start R1 limits progs) (repeat 0 (S (length progs))) stops sched) as [[cfg1 counts] tr1] eqn:E2.
  match goal with |- context [drain m ?f cfg1 counts stops O ?n] => destruct (drain m f cfg1 counts stops O n) as [cfg2 tr2] eqn:E3 end.
  destruct (run m (g_ring cfg2) post) as [R3 o3] eqn:E4.
  cbn [fst snd]. intros Hfin Hdrain.
  (* the prelude *)
  pose proof Dseq as (Hc & Hh & H8 & Hi64 & Hb & Hok).
  pose proof (cap_ok_range _ Hc) as Hcr.
  assert (L : Z.of_nat (length pre) < two64) by (unfold two62, two64 in *; nia).
  destruct (run_ok m c0 pre (init cp p0 hc0 c0) (mkOst [] p0 p0 []) 0
              (wf_init _ _ _ _ Hc Hh H8) (rel_init _ _ _ _ Hi64) Hb Hok L) as (W1 & Ecap1 & s1 & C1 & Rel1).
  pose proof (run_tail_bound m c0 pre (init cp p0 hc0 c0) (mkOst [] p0 p0 []) 0
              (wf_init _ _ _ _ Hc Hh H8) (rel_init _ _ _ _ Hi64) Hb Hok L) as Tb1.
  rewrite E1 in W1, Ecap1, C1, Rel1, Tb1. cbn [fst snd init r_cap r_tail] in W1, Ecap1, C1, Rel1, Tb1.
  destruct Rel1 as [Rq Rh Rt _].
  assert (Hht1 : last_ht p0 o1 = (r_head R1, r_tail R1)).
  { rewrite last_ht_fold. pose proof (run_ht m pre (init cp p0 hc0 c0) (p0, p0) ltac:(left; reflexivity)) as H. rewrite E1 in H. exact H. }
  (* the threads *)
  set (cfg0 := start R1 limits progs) in *.
  set (lo := r_hc R1).
  assert (HI0 : Inv lo cfg0) by (apply inv_start; [exact W1 | exact Dprogs | rewrite Ecap1; nia]).
  assert (HL0 : LogInv cfg0) by (apply loginv_start; assumption).
  assert (HC0 : ClInv cfg0 []) by (apply clinv_start; assumption).
  pose proof (kinv_start R1 limits progs) as HK0.
  pose proof (potential_start R1 limits progs ltac:(lia)) as HP0. fold cfg0 in HK0, HP0.
  pose proof (usteps_app m _ _ _ _ _ (run_sched_usteps m stops _ _ _ _ _ _ E2) (drain_usteps m stops _ _ _ _ _ _ _ E3)) as HU.
  fold cfg0 in HU.
  destruct (usteps_steps lo m cfg0 (tr1 ++ tr2) cfg2 HI0 HK0 ltac:(unfold cfg0, start; cbn [g_ring]; unfold cfg0, start in HP0; cbn [g_ring] in HP0; rewrite Ecap1 in *; nia) HU)
    as (HS & _ & _ & Ecap2).
  destruct (steps_claims lo m cfg0 (tr1 ++ tr2) cfg2 [] HI0 HL0 HS HC0) as (HC2 & HL2 & HI2).
  destruct (steps_positions lo m cfg0 (tr1 ++ tr2) cfg2 HI0 HS) as (Hpos & _ & _).
  pose proof (steps_grows lo m cfg0 (tr1 ++ tr2) cfg2 HI0 HS) as (G1 & extra & G2 & G3).
  pose proof (steps_progs lo m cfg0 (tr1 ++ tr2) cfg2 HI0 HS) as Hprogs. unfold cfg0 in Hprogs. rewrite start_progs in Hprogs.
  unfold cfg0, start in Hpos, HC2, Ecap2. cbn [g_ring] in Hpos, HC2, Ecap2. rewrite Ecap1 in Hpos, HC2, Ecap2.
  (* every thread has returned *)
  unfold results in Hfin. cbn [forallb] in Hfin. apply andb_prop in Hfin. destruct Hfin as (Hfc & Hfp).
  assert (Hcd : c_pc (g_cons cfg2) = CDone).
  { unfold cons_result in Hfc. destruct (c_pc (g_cons cfg2)); try discriminate; reflexivity. }
  assert (Hpd : forall i ps, nth_error (g_prods cfg2) i = Some ps -> p_pc ps = PDone).
  { intros i ps Hi. rewrite forallb_forall in Hfp. specialize (Hfp (prod_result ps) ltac:(apply in_map; eapply nth_error_In; exact Hi)).
    unfold prod_result in Hfp. destruct (p_pc ps); try discriminate; reflexivity. }
  (* the claims *)
  set (cl := claims_of cp (tr1 ++ tr2)).
  assert (HC2' : Forall2 (crel (g_prods cfg2)) cl (tlog cfg2)) by exact HC2.
  destruct (committed_cmds_done progs (g_prods cfg2) cl (tlog cfg2) HC2' Hpd Hprogs Dnd) as (Hdone & ws & Hcm & Hws).
  (* the log: prelude commands, then the threads' *)
  assert (Hlog0 : log cfg0 = pending R1).
  { unfold log, cfg0, start. cbn [g_ring g_cons]. unfold delivered, cstart. destruct limits; reflexivity. }
  destruct (abs_msgs R1 W1) as (Habs & Hown0).
  assert (Hd0 : dlog cfg0 = msgs_of (r_slots R1)).
  { unfold dlog, cfg0, start. cbn [g_ring g_cons]. unfold delivered, cstart. destruct limits; reflexivity. }
  assert (Hnt : Forall (fun t => is_thread t = false) (log cfg0)).
  { rewrite <- dlog_tags, Hd0. apply Forall_forall. intros t Ht. apply in_map_iff in Ht. destruct Ht as (x & <- & Hx).
    rewrite Forall_forall in Hown0. specialize (Hown0 x Hx). unfold own0 in Hown0. unfold is_thread. rewrite Hown0. reflexivity. }
  destruct (split_by_tags (dlog cfg2) (log cfg0) extra ltac:(rewrite dlog_tags; exact G2) Hnt G3) as (d0 & dt & Ed & Ed0 & Edt & Ef).
  assert (Ed0' : d0 = msgs_of (r_slots R1)).
  { rewrite <- Ef, G1, Hd0. apply filter_own0_all. exact Hown0. }
  assert (Etl : tlog cfg2 = extra).
  { unfold tlog. rewrite G2, filter_app.
    assert (F0 : filter is_thread (log cfg0) = []).
    { clear - Hnt. induction Hnt; cbn [filter]; [reflexivity |]. rewrite H. assumption. }
    rewrite F0. cbn [app]. clear - G3. induction G3; cbn [filter]; [reflexivity |]. rewrite H. f_equal. assumption. }
  (* every thread message in the log carries what its producer's program passed to write *)
  assert (Hdt : Forall2 (fun x tg => entry_of (g_prods cfg2) tg (untag x)) dt (tlog cfg2)).
  { rewrite Etl, <- Edt. clear Hws Hcm. 
    assert (Hall : forall x, In x dt -> entry_of (g_prods cfg2) (tag2 x) (untag x)).
    { intros x Hx.
      assert (Hth : is_thread (tag2 x) = true).
      { rewrite Forall_forall in G3. apply G3. rewrite <- Edt. apply in_map. exact Hx. }
      assert (Hin : In x (dlog cfg2)) by (rewrite Ed; apply in_or_app; right; exact Hx).
      unfold dlog in Hin. apply in_app_or in Hin. destruct x as [[[o k] ty] b]. unfold is_thread in Hth. cbn [tag2 fst] in Hth.
      destruct Hin as [Hin | Hin].
      - destruct (l_intact _ HL2 o k ty b Hin) as [-> | (i & ps & Eo & Hi & Hk & Hn)]; [discriminate |].
        exists i, ps. cbn [tag2 fst snd untag]. auto.
      - unfold msgs_of in Hin. apply in_map_iff in Hin. destruct Hin as (s & Es & Hs). apply filter_In in Hs. destruct Hs as (Hs & Hr).
        unfold tag_of in Es. inversion Es; subst o k ty b.
        pose proof (i_slots _ _ HI2) as Fsl. rewrite Forall_forall in Fsl.
        destruct (Fsl s Hs) as [Cm | (j & q & Hj & Hex)].
        + destruct (committed_intact _ _ _ Cm Hr) as [O0 | (i & ps & Eo & Hi & Hk & Hn)]; [rewrite O0 in Hth; discriminate |].
          exists i, ps. cbn [tag2 fst snd untag]. auto.
        + exfalso. rewrite (expect_nil_pc _ q) in Hex; [inversion Hex | rewrite (Hpd j q Hj); exact I]. }
    clear - Hall. induction dt as [| x dt IH]; cbn [map]; constructor.
    - apply Hall. left. reflexivity.
    - apply IH. intros y Hy. apply Hall. right. exact Hy. }
  pose proof (entries_unique _ _ _ _ Hws Hdt) as Ews.
  (* the epilogue *)
  assert (HIq : Inv lo (qcfg (g_ring cfg2) (g_prods cfg2))).
  { destruct cfg2 as [R2 cs2 prods2]. cbn [g_ring g_cons g_prods] in *.
    pose proof HI2 as [Icap Ilo Ihc Ih8 It8 Ihh Itl Isz Iwin Isl Ipr Ics]. cbn [g_ring g_cons g_prods] in *.
    assert (Hh2 : head' R2 cs2 = r_head R2) by (unfold head'; rewrite Hcd; reflexivity). rewrite Hh2 in *.
    constructor; cbn [qcfg g_ring g_cons g_prods]; rewrite ?qcfg_head'; auto. exact I. }
  destruct (run_post lo m (g_prods cfg2) post (g_ring cfg2) HIq Dpost) as (used & rest & Esl & Edel & Erest & Eh3 & Et3 & HI3).
  rewrite E4 in Edel, Erest, Eh3, Et3, HI3. cbn [fst snd] in Edel, Erest, Eh3, Et3, HI3.
  assert (Hht3 : last_ht p0 (o1 ++ o3) = (r_head R3, r_tail R3)).
  { rewrite last_ht_fold, fold_left_app. pose proof (run_ht m post (g_ring cfg2) (fold_left ht_upd o1 (p0, p0)) ltac:(right; exact Dmoves)) as H.
    rewrite E4 in H. exact H. }
  rewrite Hht3 in Hdrain.
  assert (Hrest : rest = []).
  { pose proof (i_tiled _ _ HI3) as T3. cbn [qcfg g_ring g_cons] in T3. rewrite qcfg_head' in T3. rewrite Erest, Hdrain in T3.
    eapply tiled_same_nil. exact T3. }
  rewrite Hrest, app_nil_r in Esl.
  (* what was delivered *)
  assert (Hdeliv : match cons_result (g_cons cfg2) with TCons l => Some (concat (map snd l)) | _ => None end
                   = Some (map (fun x => cmsg (untag x)) (delivered (g_cons cfg2)))).
  { unfold cons_result, delivered. rewrite Hcd, app_nil_r. f_equal. rewrite map_map. cbn [snd].
    induction (c_res (g_cons cfg2)) as [| r l IH]; cbn [map concat]; [reflexivity |]. rewrite map_app. f_equal. exact IH. }
  (* putting the oracle together *)
  unfold holds_conc_core. rewrite Hht1. fold cl. unfold results.
  unfold delivered_by. rewrite Hdeliv, Hcm, C1, Hht3.
  rewrite Hpos. rewrite Hdone. cbn [andb].
  assert (Hcount : fold_left Z.add (map (fun r => match r with TProd l => count_ok l | _ => -1000000 end) (map prod_result (g_prods cfg2))) 0
                   = Z.of_nat (length cl)).
  { rewrite fold_left_add, Z.add_0_l. rewrite map_map.
    rewrite (Forall2_len _ _ _ HC2').
    symmetry. apply (count_by_owner (fun ps => match prod_result ps with TProd l => count_ok l | _ => -1000000 end) (g_prods cfg2) O (tlog cfg2)).
    - intros [o k] Ht.
      assert (exists c, crel (g_prods cfg2) c (o, k)) as (c & Hc').
      { clear - HC2' Ht. induction HC2' as [| c tg cl tl Hc F IH]; [inversion Ht |]. destruct Ht as [-> | Ht]; [exists c; exact Hc | apply IH; exact Ht]. }
      destruct Hc' as (_ & _ & i & ps & _ & _ & Eo & Hi & _). exists i. split; [apply nth_error_Some; congruence | exact Eo].
    - intros i ps Hi. cbn [Nat.add]. unfold tlog. rewrite of_owner_tlog by lia. rewrite (l_own _ HL2 i ps Hi). rewrite map_length.
      unfold claimed, prod_result. rewrite (Hpd i ps Hi). cbn [after_cas]. rewrite app_nil_r. unfold count_ok. f_equal. apply ok_indices_count. }
  rewrite Hcount, Z.eqb_refl. cbn [andb].
  replace (r_head R3 =? r_tail R3) with true by lia. cbn [andb].
  assert (Hsame : map (fun x => cmsg (untag x)) (delivered (g_cons cfg2)) ++ delivered_in o3 = map cmsg (o_q s1) ++ map cmsg ws).
  { rewrite Edel, <- map_app. rewrite <- Esl. fold (dlog cfg2). rewrite Ed, map_app. f_equal.
    - rewrite Ed0', Rq, Habs, map_map. reflexivity.
    - rewrite Ews, map_map. reflexivity. }
  rewrite Hsame. rewrite is_prefix_refl. cbn [andb]. apply Nat.eqb_refl.
Qed.

(* ---- what holds after the scheduled phase of any case, crash points or not ---- *)
Lemma run_conc_facts m cp p0 hc0 c0 pre limits progs sched stops R1 o1 cfg1 counts tr1 fuel cfg2 tr2 :
  seq_domain cp p0 hc0 c0 pre -> Forall (Forall wreq_ok) progs ->
  p0 + 2 * cp * (Z.of_nat (length pre) + Z.of_nat (length (concat progs)) + 1) <= two62 ->
  run m (init cp p0 hc0 c0) pre = (R1, o1) ->
  run_sched m (start R1 limits progs) (repeat 0 (S (length progs))) stops sched = (cfg1, counts, tr1) ->
  drain m fuel cfg1 counts stops O (S (length progs)) = (cfg2, tr2) ->
  let cfg0 := start R1 limits progs in
  let lo := r_hc R1 in
  wf R1 /\ r_cap R1 = cp /\
  (exists s1, check_to cp (mkOst [] p0 p0 []) pre o1 = Some s1 /\ o_q s1 = abs R1) /\
  last_ht p0 o1 = (r_head R1, r_tail R1) /\
  Inv lo cfg0 /\ LogInv cfg0 /\ steps lo m cfg0 (tr1 ++ tr2) cfg2 /\
  Inv lo cfg2 /\ LogInv cfg2 /\ ClInv cfg2 (claims_rev cp (tr1 ++ tr2) []) /\
  positions_ok cp (tr1 ++ tr2) (r_head R1) (r_tail R1) = true /\
  C07Oracle.trace_ht cp (tr1 ++ tr2) (r_head R1) (r_tail R1) = (r_head (g_ring cfg2), r_tail (g_ring cfg2)) /\
  r_cap (g_ring cfg2) = cp /\ grows cfg0 cfg2 /\ map p_prog (g_prods cfg2) = progs.
Proof.
  intros Dseq Dprogs Dwin E1 E2 E3. cbn zeta.
  pose proof Dseq as (Hc & Hh & H8 & Hi64 & Hb & Hok).
  pose proof (cap_ok_range _ Hc) as Hcr.
  assert (L : Z.of_nat (length pre) < two64) by (unfold two62, two64 in *; nia).
  destruct (run_ok m c0 pre (init cp p0 hc0 c0) (mkOst [] p0 p0 []) 0
              (wf_init _ _ _ _ Hc Hh H8) (rel_init _ _ _ _ Hi64) Hb Hok L) as (W1 & Ecap1 & s1 & C1 & Rel1).
  pose proof (run_tail_bound m c0 pre (init cp p0 hc0 c0) (mkOst [] p0 p0 []) 0
              (wf_init _ _ _ _ Hc Hh H8) (rel_init _ _ _ _ Hi64) Hb Hok L) as Tb1.
  rewrite E1 in W1, Ecap1, C1, Rel1, Tb1. cbn [fst snd init r_cap r_tail] in W1, Ecap1, C1, Rel1, Tb1.
  destruct Rel1 as [Rq Rh Rt _].
  assert (Hht1 : last_ht p0 o1 = (r_head R1, r_tail R1)).
  { rewrite last_ht_fold. pose proof (run_ht m pre (init cp p0 hc0 c0) (p0, p0) ltac:(left; reflexivity)) as H. rewrite E1 in H. exact H. }
  set (cfg0 := start R1 limits progs) in *.
  set (lo := r_hc R1).
  assert (HI0 : Inv lo cfg0) by (apply inv_start; [exact W1 | exact Dprogs | rewrite Ecap1; nia]).
  assert (HL0 : LogInv cfg0) by (apply loginv_start; assumption).
  assert (HC0 : ClInv cfg0 []) by (apply clinv_start; assumption).
  pose proof (kinv_start R1 limits progs) as HK0.
  pose proof (potential_start R1 limits progs ltac:(lia)) as HP0. fold cfg0 in HK0, HP0.
  pose proof (usteps_app m _ _ _ _ _ (run_sched_usteps m stops _ _ _ _ _ _ E2) (drain_usteps m stops _ _ _ _ _ _ _ E3)) as HU.
  fold cfg0 in HU.
  destruct (usteps_steps lo m cfg0 (tr1 ++ tr2) cfg2 HI0 HK0 ltac:(unfold cfg0, start; cbn [g_ring]; unfold cfg0, start in HP0; cbn [g_ring] in HP0; rewrite Ecap1 in *; nia) HU)
    as (HS & _ & _ & Ecap2).
  destruct (steps_claims lo m cfg0 (tr1 ++ tr2) cfg2 [] HI0 HL0 HS HC0) as (HC2 & HL2 & HI2).
  destruct (steps_positions lo m cfg0 (tr1 ++ tr2) cfg2 HI0 HS) as (Hpos & Htr & _).
  pose proof (steps_grows lo m cfg0 (tr1 ++ tr2) cfg2 HI0 HS) as G.
  pose proof (steps_progs lo m cfg0 (tr1 ++ tr2) cfg2 HI0 HS) as Hprogs. unfold cfg0 in Hprogs. rewrite start_progs in Hprogs.
  unfold cfg0, start in Hpos, Htr, HC2, Ecap2. cbn [g_ring] in Hpos, Htr, HC2, Ecap2. rewrite Ecap1 in Hpos, Htr, HC2, Ecap2.
  split; [exact W1 |]. split; [exact Ecap1 |]. split; [exists s1; split; assumption |]. split; [exact Hht1 |].
  split; [exact HI0 |]. split; [exact HL0 |]. split; [exact HS |]. split; [exact HI2 |]. split; [exact HL2 |]. split; [exact HC2 |].
  split; [exact Hpos |]. split; [exact Htr |]. split; [exact Ecap2 |]. split; [exact G | exact Hprogs].
Qed.
