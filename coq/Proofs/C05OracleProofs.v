(* The oracle of C05 accepts what the model does, on the whole domain; and what every accepted
   observation implies in plain terms. *)
Require Import V.Base.MachineInt.
Require Import V.Generated.GenConsts.
Require Import V.Model.LogBase.
Require Import V.Model.Descriptor.
Require Import V.Model.Reader.
Require Import V.Model.Image.
Require Import V.Oracle.C05Cases.
Require Import V.Oracle.C05Oracle.
Require Import V.Proofs.DescriptorProofs.
Require Import V.Proofs.ReaderProofs.
Require Import V.Proofs.ImageProofs.
From Coq Require Import ZifyBool.
Open Scope Z_scope.

(* ---- selecting the partition and the offset ---- *)
Lemma land_mask pos bits : 0 <= bits <= 32 -> Z.land (wrap32 pos) (2 ^ bits - 1) = pos mod 2 ^ bits.
Proof. intros Hb. rewrite Z.sub_1_r, <- Z.ones_equiv, Z.land_ones by lia.
  destruct (wrap32_eqm pos) as [k Hk]. rewrite Hk.
  assert (E : two32 = 2 ^ (32 - bits) * 2 ^ bits).
  { rewrite <- Z.pow_add_r by lia. replace (32 - bits + bits) with 32 by lia. reflexivity. }
  rewrite E. replace (pos + k * (2 ^ (32 - bits) * 2 ^ bits)) with (pos + (k * 2 ^ (32 - bits)) * 2 ^ bits) by ring.
  apply Z_mod_plus_full. Qed.

Lemma pow2_pos bits : 0 <= bits -> 0 < 2 ^ bits.
Proof. intros. apply Z.pow_pos_nonneg; lia. Qed.

Lemma sel_spec l bits pos :
  l_tlen l = 2 ^ bits -> 0 <= bits <= 31 -> 0 <= pos -> pos / 2 ^ bits < two31 ->
  sel l pos = Ok (view (part l ((pos / 2 ^ bits) mod 3)) (pos mod 2 ^ bits), pos mod 2 ^ bits).
Proof. intros Htl Hb Hp Hn. unfold sel, term_offset_of_pos, bits_of. rewrite Htl.
  rewrite land_mask by lia. rewrite Z.log2_pow2 by lia.
  pose proof (pow2_pos bits ltac:(lia)) as H2.
  assert (Hq : 0 <= pos / 2 ^ bits) by (apply Z.div_pos; lia).
  assert (Hm : 0 <= (pos / 2 ^ bits) mod 3 < 3) by (apply Z.mod_pos_bound; lia).
  assert (Hi : index_by_position pos bits = (pos / 2 ^ bits) mod 3).
  { unfold index_by_position, shr64, PARTITION_COUNT, GenConsts.PARTITION_COUNT. rewrite rem3_nonneg by assumption.
    apply wrap32_id. unfold in_i32, two31. lia. }
  rewrite Hi. unfold PARTITION_COUNT, GenConsts.PARTITION_COUNT.
  assert (Hc : (0 <=? (pos / 2 ^ bits) mod 3) && ((pos / 2 ^ bits) mod 3 <? 3) = true) by lia.
  rewrite Hc. reflexivity. Qed.

(* ---- well-formed frames ---- *)
Lemma wf_frames_pos tid cap : forall fs off, wf_frames tid cap off fs = true -> frames_pos fs.
Proof. induction fs as [|f r IH]; intros off H; [constructor|]. cbn [wf_frames] in H.
  repeat (apply andb_prop in H as [H ?]). constructor; [rewrite HDR_32 in H; lia|]. eapply IH; eauto. Qed.

Lemma wf_frames_in tid cap : forall fs off, wf_frames tid cap off fs = true -> off mod 32 = 0 -> 0 <= off ->
  forall o f, In (o, f) (place off fs) ->
  32 <= f_len f /\ f_term_id f = tid /\ o + span f <= cap /\ o mod 32 = 0 /\ 0 <= o.
Proof. induction fs as [|f r IH]; intros off H Ha H0 o g Hin; [destruct Hin|]. cbn [wf_frames] in H.
  repeat (apply andb_prop in H as [H ?]). rewrite HDR_32 in H. cbn [place] in Hin. destruct Hin as [E|Hin].
  - inversion E; subst. repeat split; lia.
  - pose proof (span_bounds f ltac:(lia)) as (_ & Hs & Hm).
    eapply IH; eauto; [|lia]. rewrite Z.add_mod, Ha, Hm by lia. reflexivity. Qed.

Lemma nth_error_skipn {A} : forall k (l : list A) x, nth_error l k = Some x -> exists r, skipn k l = x :: r.
Proof. induction k; intros [|a l] x H; cbn in H; try discriminate.
  - inversion H; subst. exists l. reflexivity.
  - cbn [skipn]. apply IHk. assumption. Qed.

Lemma place_split off fs k :
  place off fs = place off (firstn k fs) ++ place (off + span_sum (firstn k fs)) (skipn k fs).
Proof. rewrite <- (firstn_skipn k fs) at 1. apply place_app. Qed.

Lemma frags_incl off fs k d : In d (frags off fs k) -> In d (place off fs).
Proof. intros H. destruct d as [o f]. apply data_of_In in H as [H _]. rewrite (place_split off fs k).
  apply in_or_app. left. exact H. Qed.

Lemma aborted_incl off fs k ab d : In d (aborted off fs k ab) -> In d (place off fs).
Proof. unfold aborted. destruct ab; [|intros []]. destruct (nth_error fs k) eqn:E; [|intros []].
  intros [Hd|[]]. subst d. apply nth_error_skipn in E as [r Hr]. rewrite (place_split off fs k).
  apply in_or_app. right. unfold reached, consumed. rewrite Hr. left. reflexivity. Qed.

Lemma handed_incl off fs k ab d : In d (frags off fs k ++ aborted off fs k ab) -> In d (place off fs).
Proof. intros H. apply in_app_or in H as [H|H]; [eapply frags_incl|eapply aborted_incl]; eauto. Qed.

(* ---- what the handler reads is what the property says it must read ---- *)
Lemma frag_obs_exp m l bits init n tid o f :
  l_tlen l = 2 ^ bits -> l_init l = init -> 5 <= bits <= 30 -> in_i32 init = true -> 0 <= n < two31 ->
  tid = wrap32 (init + n) ->
  32 <= f_len f -> f_term_id f = tid -> o + span f <= 2 ^ bits -> o mod 32 = 0 -> 0 <= o ->
  frag_obs m l (o, f) = exp_frag (n * 2 ^ bits) (o, f).
Proof. intros Htl Hi Hb Hii Hn Ht Hl Hft Hfit Ha Ho. unfold frag_obs, exp_frag. rewrite Htl, Hi.
  unfold bits_of. rewrite Z.log2_pow2 by lia. rewrite Hft, Ht.
  unfold span in *. rewrite FA_32 in *.
  rewrite (header_position_spec m init n bits o (f_len f)) by (assumption || lia).
  unfold spec_position. repeat f_equal. Qed.

Lemma out_eqb_refl_ok v : out_eqb (Ok v) (Ok v) = true.
Proof. cbn. apply Z.eqb_refl. Qed.

Lemma fobs_eqb_exp_refl base d : fobs_eqb (exp_frag base d) (exp_frag base d) = true.
Proof. destruct d as [o f]. unfold exp_frag, fobs_eqb. rewrite !Z.eqb_refl, out_eqb_refl_ok. reflexivity. Qed.

Lemma list_eqb_map_exp (g : dlv -> fobs) base : forall ds,
  (forall d, In d ds -> g d = exp_frag base d) ->
  list_eqb fobs_eqb (map g ds) (map (exp_frag base) ds) = true.
Proof. induction ds as [|d r IH]; intros H; [reflexivity|]. cbn [map list_eqb].
  rewrite (H d (or_introl eq_refl)), fobs_eqb_exp_refl. cbn [andb]. apply IH. intros; apply H; right; assumption. Qed.

Lemma any_upto_intro p : forall n k, (k <= n)%nat -> p k = true -> any_upto n p = true.
Proof. induction n; intros k Hk Hp; cbn [any_upto].
  - assert (k = 0)%nat by lia. subst. assumption.
  - destruct (Nat.eq_dec k (S n)); [subst; rewrite Hp; reflexivity|].
    rewrite (IHn k) by (lia || assumption). apply orb_true_r. Qed.

Lemma any_upto_elim p : forall n, any_upto n p = true -> exists k, (k <= n)%nat /\ p k = true.
Proof. induction n; cbn [any_upto]; intros H.
  - exists 0%nat. split; [lia|assumption].
  - apply orb_prop in H as [H|H]; [exists (S n); split; [lia|assumption]|].
    destruct (IHn H) as (k & A & B). exists k. split; [lia|assumption]. Qed.

(* ---- the writes of a run ---- *)
Lemma commit_offs_nil D : commit_offs D [] = [].
Proof. induction D as [|[o f] D IH]; [reflexivity|]. cbn [commit_offs hd tl is_commit app]. exact IH. Qed.

Lemma last_map_add base : forall co d, last (map (Z.add base) co) (base + d) = base + last co d.
Proof. induction co as [|c co IH]; intros d; [reflexivity|]. cbn [map]. rewrite !last_cons. apply IH. Qed.

(* commit points of a run lie between the start offset and the offset reached, in order *)
Lemma commit_offs_sorted base : forall k fs sc off lo fin,
  frames_pos fs -> lo <= off ->
  (forall x, x <= reached off fs k -> nondecr (base + x) fin = true) ->
  nondecr (base + lo) (map (Z.add base) (commit_offs (frags off fs k) sc) ++ fin) = true.
Proof. induction k; intros fs sc off lo fin Hp Hlo Hfin.
  - rewrite frags_0. cbn [commit_offs map app]. apply Hfin. rewrite reached_0. assumption.
  - destruct fs as [|f r].
    { unfold frags, consumed. cbn [firstn place data_of filter commit_offs map app]. apply Hfin.
      unfold reached, consumed. cbn [firstn span_sum]. lia. }
    apply frames_pos_inv in Hp as [Hf Hr]. pose proof (span_bounds f Hf) as Hs.
    destruct (is_pad f) eqn:Ep.
    + rewrite frags_cons_pad by assumption. apply IHk; [assumption|lia|]. intros x Hx. apply Hfin. rewrite reached_cons. assumption.
    + rewrite frags_cons_data by assumption. cbn [commit_offs]. rewrite map_app, <- app_assoc.
      assert (Hfin' : forall x, x <= reached (off + span f) r k -> nondecr (base + x) fin = true)
        by (intros x Hx; apply Hfin; rewrite reached_cons; assumption).
      destruct (is_commit (hd Continue sc)).
      * cbn [map app nondecr]. rewrite (IHk r (tl sc) (off + span f) (off + span f) fin Hr ltac:(lia) Hfin').
        assert (base + lo <=? base + (off + span f) = true) by lia. rewrite H. reflexivity.
      * cbn [map app]. apply IHk; [assumption|lia|assumption]. Qed.

Lemma last_commit_range : forall k fs sc off lo, frames_pos fs -> lo <= off ->
  lo <= last (commit_offs (frags off fs k) sc) lo <= reached off fs k.
Proof. induction k; intros fs sc off lo Hp Hlo.
  - rewrite frags_0, reached_0. cbn [commit_offs last]. lia.
  - destruct fs as [|f r].
    { unfold frags, reached, consumed. cbn [firstn place data_of filter commit_offs last span_sum]. lia. }
    apply frames_pos_inv in Hp as [Hf Hr]. pose proof (span_bounds f Hf) as Hs. rewrite reached_cons.
    destruct (is_pad f) eqn:Ep.
    + rewrite frags_cons_pad by assumption. apply IHk; [assumption|lia].
    + rewrite frags_cons_data by assumption. cbn [commit_offs].
      destruct (is_commit (hd Continue sc)); cbn [app].
      * rewrite last_cons. pose proof (IHk r (tl sc) (off + span f) (off + span f) Hr ltac:(lia)). lia.
      * apply IHk; [assumption|lia]. Qed.

Lemma reached_ge off fs k : frames_pos fs -> off <= reached off fs k.
Proof. intros H. unfold reached, consumed. pose proof (span_sum_nonneg _ (frames_pos_firstn k fs H)). lia. Qed.

Lemma nondecr_single a b : a <= b -> nondecr a [b] = true.
Proof. intros. cbn [nondecr]. assert (a <=? b = true) by lia. rewrite H0. reflexivity. Qed.

(* the writes the model makes in a run, and that they satisfy writes_ok *)
Definition run_writes (base off : Z) (fs : list frame) (sc : list action) (k : nat) : list Z :=
  let co := commit_offs (frags off fs k) sc in
  map (Z.add base) co ++ (if base + reached off fs k >? base + last co off then [base + reached off fs k] else []).

Lemma run_writes_ok base off fs sc k : frames_pos fs ->
  let ws := run_writes base off fs sc k in
  writes_ok (base + off) (base + reached off fs k) (map (Z.add base) (commit_offs (frags off fs k) sc)) ws
            (last ws (base + off)) = true.
Proof. intros Hp ws. unfold writes_ok.
  pose proof (last_commit_range k fs sc off off Hp ltac:(lia)) as Hl.
  set (co := commit_offs (frags off fs k) sc) in *.
  assert (Hnd : nondecr (base + off) ws = true).
  { unfold ws, run_writes. fold co. apply commit_offs_sorted; [assumption|lia|]. intros x Hx.
    destruct (base + reached off fs k >? base + last co off); [apply nondecr_single; lia|reflexivity]. }
  assert (Hlast : last ws (base + off) = base + reached off fs k).
  { unfold ws, run_writes. fold co. destruct (base + reached off fs k >? base + last co off) eqn:E.
    - apply last_last.
    - rewrite app_nil_r, last_map_add. lia. }
  rewrite Hnd, Hlast, !Z.eqb_refl. cbn [andb].
  apply forallb_forall. intros v Hv. apply existsb_exists. exists v. split; [|apply Z.eqb_refl].
  unfold ws, run_writes. fold co. apply in_or_app. left. assumption. Qed.

(* cfinish applied to the exact result of a run *)
Lemma cfinish_cres im fs sc off base k ab :
  cfinish im (cres fs sc off 0 off base k ab)
  = (Ok (Z.of_nat (length (frags off fs k))), frags off fs k ++ aborted off fs k ab,
     run_writes base off fs sc k, after_writes im (run_writes base off fs sc k)).
Proof. unfold cfinish, cres, run_writes. cbv zeta.
  replace (base + last (commit_offs (frags off fs k) sc) off + (reached off fs k - last (commit_offs (frags off fs k) sc) off))
    with (base + reached off fs k) by lia.
  rewrite Z.add_0_l. reflexivity. Qed.

(* ---- the bound ---- *)
Lemma limit_offset_below cap B pos off o :
  0 <= off <= cap -> 0 <= cap < two31 -> 0 <= o -> o < limit_offset cap B pos off -> pos - off + o < B.
Proof. intros Hoff Hcap Ho H. unfold limit_offset in H.
  rewrite wrap32_id in H by (unfold in_i32, two31 in *; lia).
  unfold sat64, two63, two31 in *. lia. Qed.

(* ---- the context in which the property speaks ---- *)
Record ctx (bits init pos : Z) (l : log) (fs : list frame) : Prop := {
  cx_tl : l_tlen l = 2 ^ bits;
  cx_init : l_init l = init;
  cx_wf : wf_call bits init pos fs = true;
  cx_fs : fs = view (part l ((pos / 2 ^ bits) mod 3)) (pos mod 2 ^ bits)
}.

Lemma wf_call_facts bits init pos fs : wf_call bits init pos fs = true ->
  16 <= bits <= 30 /\ in_i32 init = true /\ 0 <= pos /\ 0 <= pos / 2 ^ bits < two31 /\
  0 <= pos mod 2 ^ bits < 2 ^ bits /\ (pos mod 2 ^ bits) mod 32 = 0 /\
  wf_frames (wrap32 (init + pos / 2 ^ bits)) (2 ^ bits) (pos mod 2 ^ bits) fs = true /\
  pos - pos mod 2 ^ bits = pos / 2 ^ bits * 2 ^ bits.
Proof. unfold wf_call. intros H. repeat (apply andb_prop in H as [H ?]). rewrite FA_32 in *.
  assert (Hb : 16 <= bits <= 30) by lia. pose proof (pow2_pos bits ltac:(lia)) as Hpw.
  pose proof (Z.mod_pos_bound pos (2 ^ bits) Hpw) as Hmb. pose proof (Z.div_mod pos (2 ^ bits) ltac:(lia)) as Hdm.
  assert (Hq : 0 <= pos / 2 ^ bits) by (apply Z.div_pos; lia).
  repeat split; try assumption; try lia. Qed.

Lemma handed_exp m l bits init pos fs k ab : ctx bits init pos l fs ->
  forall d, In d (frags (pos mod 2 ^ bits) fs k ++ aborted (pos mod 2 ^ bits) fs k ab) ->
  frag_obs m l d = exp_frag (pos - pos mod 2 ^ bits) d.
Proof. intros [Htl Hi Hwf _] d Hin. destruct (wf_call_facts _ _ _ _ Hwf) as (Hb & Hii & Hp & Hn & Ho & Ha & Hf & Hbase).
  destruct d as [o f]. apply handed_incl in Hin.
  destruct (wf_frames_in _ _ _ _ Hf Ha ltac:(lia) o f Hin) as (A & B & C & D & E).
  rewrite Hbase. eapply frag_obs_exp; eauto; lia. Qed.

(* ---- controlled_poll and bounded_controlled_poll are judged acceptable ---- *)
Lemma judge_run_model m l bits init pos fs bnd limit sc im k ab :
  ctx bits init pos l fs -> im_pos im = pos ->
  (k <= length fs)%nat ->
  adm (below bnd (pos - pos mod 2 ^ bits)) fs sc (pos mod 2 ^ bits) limit k ab = true ->
  judge_poll bnd limit sc pos (pos mod 2 ^ bits) fs
    (fst (obs_of m l im (Ok (cfinish im (cres fs sc (pos mod 2 ^ bits) 0 (pos mod 2 ^ bits) (pos - pos mod 2 ^ bits) k ab))))) = true.
Proof. intros Hc Hpos Hk Ha. pose proof Hc as [Htl Hi Hwf _].
  destruct (wf_call_facts _ _ _ _ Hwf) as (Hb & Hii & Hp & Hn & Ho & Hal & Hf & Hbase).
  pose proof (wf_frames_pos _ _ _ _ Hf) as Hfp.
  set (off := pos mod 2 ^ bits) in *. set (base := pos - off) in *.
  unfold judge_poll. apply (any_upto_intro _ _ k Hk).
  assert (Hj : judge_run bnd limit sc pos off fs
            (fst (obs_of m l im (Ok (cfinish im (cres fs sc off 0 off base k ab))))) k ab = true).
  { rewrite cfinish_cres. unfold obs_of, fst, after_writes, set_pos. cbn [im_pos]. rewrite Hpos.
    unfold judge_run. fold base.
    assert (Hposb : pos = base + off) by (unfold base; lia).
    pose proof (run_writes_ok base off fs sc k Hfp) as Hw. cbv zeta in Hw. rewrite <- Hposb in Hw.
    assert (Hctr : last (run_writes base off fs sc k) pos = base + reached off fs k).
    { unfold writes_ok in Hw. repeat (apply andb_prop in Hw as [Hw ?]). lia. }
    rewrite Hctr, Z.eqb_refl, out_eqb_refl_ok, Ha. rewrite <- Hctr at 2. rewrite Hw.
    apply list_eqb_map_exp. intros d Hd. unfold base, off. eapply handed_exp; eauto. }
  destruct ab; rewrite Hj; [apply orb_true_r|reflexivity]. Qed.

Lemma ctx_sel bits init pos l fs : ctx bits init pos l fs ->
  sel l pos = Ok (fs, pos mod 2 ^ bits).
Proof. intros [Htl Hi Hwf Hfs]. destruct (wf_call_facts _ _ _ _ Hwf) as (Hb & Hii & Hp & Hn & Ho & Ha & Hf & Hbase).
  rewrite (sel_spec l bits pos) by (assumption || lia). rewrite <- Hfs. reflexivity. Qed.

Theorem controlled_poll_judged m l bits init im fs limit sc :
  ctx bits init (im_pos im) l fs -> im_closed im = false ->
  exists r, image_controlled_poll l im limit sc = Ok r /\
    judge_poll None limit sc (im_pos im) (im_pos im mod 2 ^ bits) fs (fst (obs_of m l im (Ok r))) = true.
Proof. intros Hc Hcl. unfold image_controlled_poll. rewrite Hcl, (ctx_sel _ _ _ _ _ Hc). cbn [bind].
  pose proof Hc as [Htl Hi Hwf _].
  destruct (wf_call_facts _ _ _ _ Hwf) as (Hb & Hii & Hp & Hn & Ho & Hal & Hf & Hbase).
  set (pos := im_pos im) in *. set (off := pos mod 2 ^ bits) in *.
  destruct (cloop_spec (l_tlen l) limit (pos - off) fs sc off 0 off) as (k & ab & Hk & Ha & He).
  replace (pos - off + off) with pos in He by lia. rewrite Z.sub_0_r in Ha.
  eexists. split; [reflexivity|]. rewrite He.
  apply (judge_run_model m l bits init pos fs None limit sc im k ab); try assumption; try reflexivity.
  eapply adm_weaken; [eapply wf_frames_pos; eauto| |exact Ha]. reflexivity. Qed.

Theorem bounded_controlled_poll_judged m l bits init im fs B limit sc :
  ctx bits init (im_pos im) l fs -> im_closed im = false ->
  exists r, image_bounded_controlled_poll l im B limit sc = Ok r /\
    judge_poll (Some B) limit sc (im_pos im) (im_pos im mod 2 ^ bits) fs (fst (obs_of m l im (Ok r))) = true.
Proof. intros Hc Hcl. unfold image_bounded_controlled_poll. rewrite Hcl, (ctx_sel _ _ _ _ _ Hc). cbn [bind].
  pose proof Hc as [Htl Hi Hwf _].
  destruct (wf_call_facts _ _ _ _ Hwf) as (Hb & Hii & Hp & Hn & Ho & Hal & Hf & Hbase).
  set (pos := im_pos im) in *. set (off := pos mod 2 ^ bits) in *.
  destruct (cloop_spec (limit_offset (l_tlen l) B pos off) limit (pos - off) fs sc off 0 off) as (k & ab & Hk & Ha & He).
  replace (pos - off + off) with pos in He by lia. rewrite Z.sub_0_r in Ha.
  eexists. split; [reflexivity|]. rewrite He.
  apply (judge_run_model m l bits init pos fs (Some B) limit sc im k ab); try assumption; try reflexivity.
  eapply adm_weaken; [eapply wf_frames_pos; eauto| |exact Ha].
  intros o Hoo Hlt. cbn [below]. rewrite Htl in Hlt.
  assert (H30 : 2 ^ bits <= 2 ^ 30) by (apply Z.pow_le_mono_r; lia). change (2 ^ 30) with 1073741824 in H30.
  pose proof (limit_offset_below (2 ^ bits) B pos off o ltac:(lia) ltac:(unfold two31; lia) ltac:(lia) ltac:(lia)). lia. Qed.

(* the uncontrolled flavours are the controlled ones with a handler that always answers Continue *)
Lemma poll_as_controlled l im limit : image_poll l im limit = image_controlled_poll l im limit [].
Proof. unfold image_poll, image_controlled_poll, term_read. destruct (im_closed im); [reflexivity|].
  destruct (sel l (im_pos im)) as [[fs off]| | | |]; try reflexivity. cbn [bind].
  rewrite read_loop_cloop. destruct (read_loop (l_tlen l) limit fs off 0) as [[o n] ds].
  unfold cfinish. cbn [app]. replace (im_pos im + (o - off) >? im_pos im) with (im_pos im + (o - off) >? im_pos im) by reflexivity.
  reflexivity. Qed.

Lemma bounded_as_controlled l im B limit : image_bounded_poll l im B limit = image_bounded_controlled_poll l im B limit [].
Proof. unfold image_bounded_poll, image_bounded_controlled_poll. destruct (im_closed im); [reflexivity|].
  destruct (sel l (im_pos im)) as [[fs off]| | | |]; try reflexivity. cbn [bind].
  rewrite read_loop_cloop. destruct (read_loop (limit_offset (l_tlen l) B (im_pos im) off) limit fs off 0) as [[o n] ds].
  reflexivity. Qed.

Theorem poll_judged m l bits init im fs limit :
  ctx bits init (im_pos im) l fs -> im_closed im = false ->
  exists r, image_poll l im limit = Ok r /\
    judge_poll None limit [] (im_pos im) (im_pos im mod 2 ^ bits) fs (fst (obs_of m l im (Ok r))) = true.
Proof. rewrite poll_as_controlled. apply controlled_poll_judged. Qed.

Theorem bounded_poll_judged m l bits init im fs B limit :
  ctx bits init (im_pos im) l fs -> im_closed im = false ->
  exists r, image_bounded_poll l im B limit = Ok r /\
    judge_poll (Some B) limit [] (im_pos im) (im_pos im mod 2 ^ bits) fs (fst (obs_of m l im (Ok r))) = true.
Proof. rewrite bounded_as_controlled. apply bounded_controlled_poll_judged. Qed.

(* ---- validate_position is the arithmetic statement ---- *)
Lemma validate_spec bits cur p : 0 <= bits -> validate_position (2 ^ bits) cur p = valid_new_position (2 ^ bits) cur p.
Proof. intros Hb. unfold validate_position, valid_new_position. rewrite FA_32.
  pose proof (pow2_pos bits Hb) as H2.
  assert (E1 : Z.land cur (2 ^ bits - 1) = cur mod 2 ^ bits).
  { rewrite Z.sub_1_r, <- Z.ones_equiv. apply Z.land_ones. assumption. }
  assert (E2 : Z.land p (32 - 1) = p mod 32).
  { change (32 - 1) with (Z.ones 5). rewrite Z.land_ones by lia. reflexivity. }
  rewrite E1, E2. pose proof (Z.div_mod cur (2 ^ bits) ltac:(lia)).
  replace (cur - cur mod 2 ^ bits + (2 ^ bits - 1) + 1) with ((cur / 2 ^ bits + 1) * 2 ^ bits) by lia.
  destruct (p <? cur) eqn:A; destruct (p >? (cur / 2 ^ bits + 1) * 2 ^ bits) eqn:B; cbn [orb negb andb];
  destruct (cur <=? p) eqn:C; destruct (p <=? (cur / 2 ^ bits + 1) * 2 ^ bits) eqn:D; cbn [andb]; try reflexivity; lia. Qed.

(* ---- controlled_peek ---- *)
Theorem controlled_peek_judged m l bits init im fs ipos lp sc :
  ctx bits init ipos l fs -> im_closed im = false -> valid_new_position (2 ^ bits) (im_pos im) ipos = true ->
  exists r, image_controlled_peek l im ipos lp sc = Ok r /\
    judge_peek lp sc (im_pos im) ipos (ipos mod 2 ^ bits) fs (fst (obs_of m l im (Ok r))) = true.
Proof. intros Hc Hcl Hv. unfold image_controlled_peek. pose proof Hc as [Htl Hi Hwf _].
  destruct (wf_call_facts _ _ _ _ Hwf) as (Hb & Hii & Hp & Hn & Ho & Hal & Hf & Hbase).
  rewrite Hcl, Htl, validate_spec, Hv by lia. cbn [negb]. rewrite (ctx_sel _ _ _ _ _ Hc). cbn [bind].
  set (off := ipos mod 2 ^ bits) in *.
  destruct (ploop_spec (2 ^ bits) lp (ipos - off) fs sc off ipos) as (k & ab & Hk & Ha & He).
  replace (ipos - off + off) with ipos in He by lia. rewrite He.
  eexists. split; [reflexivity|]. unfold obs_of, fst. unfold judge_peek.
  apply (any_upto_intro _ _ k Hk).
  assert (Hj : judge_peek_run lp sc (im_pos im) ipos off fs
     (Ok (last_complete (ipos - off) fs off k ipos), map (frag_obs m l) (frags off fs k ++ aborted off fs k ab), [], im_pos im) k ab = true).
  { unfold judge_peek_run. rewrite out_eqb_refl_ok. change (below (Some lp) (ipos - off)) with (fun o => ipos - off + o <? lp).
    rewrite Ha, Z.eqb_refl. cbn [andb]. apply list_eqb_map_exp. intros d Hd. unfold off. eapply handed_exp; eauto. }
  destruct ab; rewrite Hj; [apply orb_true_r|reflexivity]. Qed.

(* ---- block_poll ---- *)
Lemma badm_of_scan blimit off limit fs k :
  frames_pos fs -> limit <= off + blimit -> (k <= length fs)%nat ->
  ((k = 0)%nat \/ (k = 1%nat /\ exists f r, fs = f :: r /\ is_pad f = true)
     \/ (forallb (fun f => negb (is_pad f)) (firstn k fs) = true /\ off + span_sum (firstn k fs) <= limit)) ->
  badm blimit fs k = true.
Proof. intros Hp Hl Hk H. destruct k; [reflexivity|]. unfold badm.
  assert (Nat.leb (S k) (length fs) = true) by (apply Nat.leb_le; assumption). rewrite H0. cbn [andb].
  destruct H as [H|[[H1 (f & r & E & Hpad)]|[Hd Hs]]]; [discriminate| |].
  - inversion H1; subst. rewrite Hpad. reflexivity.
  - unfold consumed. rewrite Hd. assert (span_sum (firstn (S k) fs) <=? blimit = true) by lia. rewrite H. cbn [andb]. apply orb_true_r. Qed.

Lemma block_lo' off blimit cap : 0 <= off -> cap < two31 -> in_i32 blimit = true ->
  Z.min (sat_add32 off blimit) cap = Z.min (off + blimit) cap.
Proof. unfold sat_add32, in_i32, two31. intros Ho Hc H. lia. Qed.

Theorem block_poll_judged m l bits init im fs blimit :
  ctx bits init (im_pos im) l fs -> im_closed im = false -> in_i32 blimit = true ->
  let off := im_pos im mod 2 ^ bits in
  exists ret ds ws im', image_block_poll m l im blimit = Ok (ret, ds, ws, im') /\
    judge_block (im_session im) blimit (im_pos im) off fs
      (ret, map (block_obs im (match ret with Ok v => v | _ => 0 end)) ds, ws, im_pos im') = true.
Proof. intros Hc Hcl Hbl off. pose proof Hc as [Htl Hi Hwf _].
  destruct (wf_call_facts _ _ _ _ Hwf) as (Hb & Hii & Hp & Hn & Ho & Hal & Hf & Hbase).
  pose proof (wf_frames_pos _ _ _ _ Hf) as Hfp. fold off in Ho, Hal, Hf, Hbase.
  assert (H30 : 2 ^ bits <= 2 ^ 30) by (apply Z.pow_le_mono_r; lia). change (2 ^ 30) with 1073741824 in H30.
  unfold image_block_poll. rewrite Hcl, (ctx_sel _ _ _ _ _ Hc). cbn [bind]. fold off.
  rewrite Htl. rewrite (block_lo' off blimit (2 ^ bits)) by (unfold two31; lia || assumption).
  destruct (term_scan_spec (Z.min (off + blimit) (2 ^ bits)) fs off Hfp) as (k & Hk & Hcase & He).
  rewrite He. set (len := span_sum (firstn k fs)) in *.
  replace (off + len - off) with len by lia.
  pose proof (span_sum_nonneg _ (frames_pos_firstn k fs Hfp)) as Hlen. fold len in Hlen.
  assert (Hbadm : badm blimit fs k = true).
  { eapply (badm_of_scan blimit off (Z.min (off + blimit) (2 ^ bits))); eauto. lia. }
  destruct (off + len >? off) eqn:Eg.
  + (* a block is handed over *)
    destruct k as [|k']; [unfold len in Eg; cbn [firstn span_sum] in Eg; lia|].
    destruct fs as [|f r]; [cbn in Hk; lia|].
    do 4 eexists. split; [reflexivity|]. unfold judge_block.
    apply (any_upto_intro _ _ (S k') Hk). unfold judge_block_run, consumed. fold len.
    rewrite out_eqb_refl_ok, Hbadm. cbn [andb map block_obs list_eqb]. unfold fobs_eqb.
    rewrite !Z.eqb_refl, out_eqb_refl_ok. cbn [andb].
    unfold after_writes, set_pos. cbn [last im_pos]. unfold writes_ok. cbn [nondecr last forallb].
    rewrite !Z.eqb_refl. assert (im_pos im <=? im_pos im + len = true) by lia. rewrite H. reflexivity.
  + (* nothing *)
    assert (len = 0) by lia.
    do 4 eexists. split; [reflexivity|]. unfold judge_block.
    apply (any_upto_intro _ _ 0%nat ltac:(lia)). unfold judge_block_run, consumed. cbn [firstn span_sum map].
    rewrite H. rewrite out_eqb_refl_ok. cbn [badm andb]. unfold writes_ok. cbn [nondecr last forallb].
    rewrite Z.add_0_r, !Z.eqb_refl. reflexivity. Qed.

(* ---- one step of a history ---- *)
Definition static_eq (im im' : image) : Prop :=
  im_closed im' = im_closed im /\ im_final im' = im_final im /\ im_session im' = im_session im.

Lemma static_eq_refl im : static_eq im im. Proof. repeat split. Qed.
Lemma static_eq_set_pos im p : static_eq im (set_pos im p). Proof. repeat split. Qed.
Lemma static_eq_after im ws : static_eq im (after_writes im ws). Proof. repeat split. Qed.

Lemma controlled_static l im limit sc r : image_controlled_poll l im limit sc = Ok r ->
  let '(_, _, _, im') := r in static_eq im im'.
Proof. unfold image_controlled_poll. destruct (im_closed im).
  - intros H; inversion H; subst. apply static_eq_refl.
  - destruct (sel l (im_pos im)) as [[fs off]| | | |]; cbn [bind]; try discriminate.
    intros H; inversion H; subst. unfold cfinish.
    destruct (cloop (l_tlen l) limit fs sc off 0 (im_pos im) off) as [[[[[a b] c] d] e] g]. apply static_eq_after. Qed.

Lemma bcontrolled_static l im B limit sc r : image_bounded_controlled_poll l im B limit sc = Ok r ->
  let '(_, _, _, im') := r in static_eq im im'.
Proof. unfold image_bounded_controlled_poll. destruct (im_closed im).
  - intros H; inversion H; subst. apply static_eq_refl.
  - destruct (sel l (im_pos im)) as [[fs off]| | | |]; cbn [bind]; try discriminate.
    intros H; inversion H; subst. unfold cfinish.
    destruct (cloop (limit_offset (l_tlen l) B (im_pos im) off) limit fs sc off 0 (im_pos im) off) as [[[[[a b] c] d] e] g].
    apply static_eq_after. Qed.

Lemma peek_static l im ip lp sc r : image_controlled_peek l im ip lp sc = Ok r ->
  let '(_, _, _, im') := r in im' = im.
Proof. unfold image_controlled_peek. destruct (im_closed im); [intros H; inversion H; reflexivity|].
  destruct (negb (validate_position (l_tlen l) (im_pos im) ip)); [intros H; inversion H; reflexivity|].
  destruct (sel l ip) as [[fs off]| | | |]; cbn [bind]; try discriminate.
  destruct (ploop (l_tlen l) lp fs sc off ip off ip) as [rp ds]. intros H; inversion H; reflexivity. Qed.

Lemma block_static m l im bl r : image_block_poll m l im bl = Ok r ->
  let '(_, _, _, im') := r in static_eq im im'.
Proof. unfold image_block_poll. destruct (im_closed im); [intros H; inversion H; apply static_eq_refl|].
  destruct (sel l (im_pos im)) as [[fs off]| | | |]; cbn [bind]; try discriminate.
  destruct (term_scan fs off (Z.min (sat_add32 off bl) (l_tlen l)) >? off); intros H; inversion H; subst;
    [apply static_eq_after|apply static_eq_refl]. Qed.

Lemma part_mk_log bits init session segs i : 0 <= i < 3 -> part (mk_log bits init session segs) i = part_of segs i.
Proof. intros H. unfold part, mk_log. cbn [l_p0 l_p1 l_p2].
  destruct (i =? 0) eqn:E0; [replace i with 0 by lia; reflexivity|].
  destruct (i =? 1) eqn:E1; [replace i with 1 by lia; reflexivity|]. replace i with 2 by lia. reflexivity. Qed.

Lemma ctx_of_case bits init session segs pos :
  wf_call bits init pos (frames_at bits segs pos) = true ->
  ctx bits init pos (mk_log bits init session segs) (frames_at bits segs pos).
Proof. intros H. constructor; try reflexivity; try assumption.
  unfold frames_at. rewrite part_mk_log; [reflexivity|]. apply Z.mod_pos_bound. lia. Qed.

(* the oracle's knowledge agrees with the model's state *)
Definition rel (session : Z) (st : ostate) (ms : list seg * image) : Prop :=
  st = (fst ms, im_pos (snd ms), im_closed (snd ms), im_final (snd ms)) /\ im_session (snd ms) = session.

Definition op_ok (o : cop) : Prop := match o with CBlock bl => in_i32 bl = true | _ => True end.

Lemma judge_idle_intro v pos : out_eqb v v = true -> judge_idle v pos (v, [], [], pos) = true.
Proof. intros H. unfold judge_idle. rewrite H, Z.eqb_refl. reflexivity. Qed.

Lemma rel_next session segs im im' o ob p c f :
  p = im_pos im -> c = im_closed im -> f = im_final im ->
  im_session im = session -> static_eq im im' -> ctr_of ob = im_pos im' ->
  match o with CGrow _ _ | CClose => False | _ => True end ->
  rel session (onext (segs, p, c, f) o ob) (segs, im').
Proof. intros -> -> -> Hs (A & B & C) Hc Ho. unfold rel, onext. cbn [fst snd]. rewrite Hc, A, B, C.
  destruct o; try destruct Ho; split; (reflexivity || assumption). Qed.

Theorem step_judged m bits init session st ms o :
  16 <= bits <= 30 -> rel session st ms -> op_ok o ->
  let '(ob, ms') := step m bits init session ms o in
  judge_op bits init session st o ob = true /\ rel session (onext st o ob) ms'.
Proof. intros Hb [Hst Hse] Hok. destruct ms as [segs im]. cbn [fst snd] in *. subst st.
  set (l := mk_log bits init session segs).
  set (pos := im_pos im). set (fs := frames_at bits segs pos).
  assert (Hctx : wf_call bits init pos fs = true -> ctx bits init pos l fs) by (apply ctx_of_case).
  destruct o; cbn [step]; fold l.
  - (* poll *)
    destruct (im_closed im) eqn:Hcl.
    + unfold image_poll. rewrite Hcl. cbn [obs_of map]. split.
      * cbn [judge_op]. apply judge_idle_intro. reflexivity.
      * apply (rel_next session segs im); auto using static_eq_refl.
    + destruct (wf_call bits init pos fs) eqn:Hwf.
      * destruct (poll_judged m l bits init im fs limit (Hctx eq_refl) Hcl) as ([[[ret ds] ws] im'] & He & Hj).
        rewrite He. pose proof He as He'. rewrite poll_as_controlled in He'. apply controlled_static in He'.
        cbn [obs_of]. split.
        -- cbn [judge_op]. fold fs. rewrite Hwf. cbn [negb]. exact Hj.
        -- apply (rel_next session segs im); auto.
      * destruct (image_poll l im limit) as [[[[ret ds] ws] im']| | | |] eqn:He; cbn [obs_of].
        1:{ split; [cbn [judge_op]; fold fs; rewrite Hwf; reflexivity|].
            rewrite poll_as_controlled in He. apply controlled_static in He. apply (rel_next session segs im); auto. }
        all: split; [cbn [judge_op]; fold fs; rewrite Hwf; reflexivity|apply (rel_next session segs im); auto using static_eq_refl].
  - (* bounded_poll *)
    destruct (im_closed im) eqn:Hcl.
    + unfold image_bounded_poll. rewrite Hcl. cbn [obs_of map]. split.
      * cbn [judge_op]. apply judge_idle_intro. reflexivity.
      * apply (rel_next session segs im); auto using static_eq_refl.
    + destruct (wf_call bits init pos fs) eqn:Hwf.
      * destruct (bounded_poll_judged m l bits init im fs (resolve pos bound) limit (Hctx eq_refl) Hcl) as ([[[ret ds] ws] im'] & He & Hj).
        fold pos. rewrite He. pose proof He as He'. rewrite bounded_as_controlled in He'. apply bcontrolled_static in He'.
        cbn [obs_of]. split.
        -- cbn [judge_op]. fold fs. rewrite Hwf. cbn [negb]. exact Hj.
        -- apply (rel_next session segs im); auto.
      * fold pos. destruct (image_bounded_poll l im (resolve pos bound) limit) as [[[[ret ds] ws] im']| | | |] eqn:He; cbn [obs_of].
        1:{ split; [cbn [judge_op]; fold fs; rewrite Hwf; reflexivity|].
            rewrite bounded_as_controlled in He. apply bcontrolled_static in He. apply (rel_next session segs im); auto. }
        all: split; [cbn [judge_op]; fold fs; rewrite Hwf; reflexivity|apply (rel_next session segs im); auto using static_eq_refl].
  - (* controlled_poll *)
    destruct (im_closed im) eqn:Hcl.
    + unfold image_controlled_poll. rewrite Hcl. cbn [obs_of map]. split.
      * cbn [judge_op]. apply judge_idle_intro. reflexivity.
      * apply (rel_next session segs im); auto using static_eq_refl.
    + destruct (wf_call bits init pos fs) eqn:Hwf.
      * destruct (controlled_poll_judged m l bits init im fs limit sc (Hctx eq_refl) Hcl) as ([[[ret ds] ws] im'] & He & Hj).
        rewrite He. pose proof He as He'. apply controlled_static in He'.
        cbn [obs_of]. split.
        -- cbn [judge_op]. fold fs. rewrite Hwf. cbn [negb]. exact Hj.
        -- apply (rel_next session segs im); auto.
      * destruct (image_controlled_poll l im limit sc) as [[[[ret ds] ws] im']| | | |] eqn:He; cbn [obs_of].
        1:{ split; [cbn [judge_op]; fold fs; rewrite Hwf; reflexivity|].
            apply controlled_static in He. apply (rel_next session segs im); auto. }
        all: split; [cbn [judge_op]; fold fs; rewrite Hwf; reflexivity|apply (rel_next session segs im); auto using static_eq_refl].
  - (* bounded_controlled_poll *)
    destruct (im_closed im) eqn:Hcl.
    + unfold image_bounded_controlled_poll. rewrite Hcl. cbn [obs_of map]. split.
      * cbn [judge_op]. apply judge_idle_intro. reflexivity.
      * apply (rel_next session segs im); auto using static_eq_refl.
    + destruct (wf_call bits init pos fs) eqn:Hwf.
      * destruct (bounded_controlled_poll_judged m l bits init im fs (resolve pos bound) limit sc (Hctx eq_refl) Hcl) as ([[[ret ds] ws] im'] & He & Hj).
        fold pos. rewrite He. pose proof He as He'. apply bcontrolled_static in He'.
        cbn [obs_of]. split.
        -- cbn [judge_op]. fold fs. rewrite Hwf. cbn [negb]. exact Hj.
        -- apply (rel_next session segs im); auto.
      * fold pos. destruct (image_bounded_controlled_poll l im (resolve pos bound) limit sc) as [[[[ret ds] ws] im']| | | |] eqn:He; cbn [obs_of].
        1:{ split; [cbn [judge_op]; fold fs; rewrite Hwf; reflexivity|].
            apply bcontrolled_static in He. apply (rel_next session segs im); auto. }
        all: split; [cbn [judge_op]; fold fs; rewrite Hwf; reflexivity|apply (rel_next session segs im); auto using static_eq_refl].
  - (* controlled_peek *)
    fold pos. set (ip := resolve pos ipos). set (lp := resolve pos limitpos).
    destruct (im_closed im) eqn:Hcl.
    + unfold image_controlled_peek. rewrite Hcl. cbn [obs_of map]. split.
      * cbn [judge_op]. fold ip. apply judge_idle_intro. apply out_eqb_refl_ok.
      * apply (rel_next session segs im); auto using static_eq_refl.
    + destruct (valid_new_position (2 ^ bits) pos ip) eqn:Hv.
      * destruct (wf_call bits init ip (frames_at bits segs ip)) eqn:Hwf.
        -- destruct (controlled_peek_judged m l bits init im (frames_at bits segs ip) ip lp sc
                       (ctx_of_case _ _ session _ _ Hwf) Hcl Hv) as ([[[ret ds] ws] im'] & He & Hj).
           rewrite He. pose proof He as He'. apply peek_static in He'. subst im'. cbn [obs_of]. split.
           ++ cbn [judge_op]. fold ip lp. rewrite Hv, Hwf. cbn [negb]. exact Hj.
           ++ apply (rel_next session segs im); auto using static_eq_refl.
        -- destruct (image_controlled_peek l im ip lp sc) as [[[[ret ds] ws] im']| | | |] eqn:He; cbn [obs_of].
           1:{ apply peek_static in He. subst im'.
               split; [cbn [judge_op]; fold ip lp; rewrite Hv, Hwf; reflexivity|apply (rel_next session segs im); auto using static_eq_refl]. }
           all: split; [cbn [judge_op]; fold ip lp; rewrite Hv, Hwf; reflexivity|apply (rel_next session segs im); auto using static_eq_refl].
      * unfold image_controlled_peek. rewrite Hcl. change (l_tlen l) with (2 ^ bits). rewrite validate_spec by lia.
        fold pos. rewrite Hv. cbn [negb obs_of map]. split.
        -- cbn [judge_op]. fold ip. rewrite Hv. cbn [negb]. apply judge_idle_intro. reflexivity.
        -- apply (rel_next session segs im); auto using static_eq_refl.
  - (* block_poll *)
    destruct (im_closed im) eqn:Hcl.
    + unfold image_block_poll. rewrite Hcl. cbn [map]. split.
      * cbn [judge_op]. apply judge_idle_intro. reflexivity.
      * apply (rel_next session segs im); auto using static_eq_refl.
    + destruct (wf_call bits init pos fs) eqn:Hwf.
      * pose proof (block_poll_judged m l bits init im fs blimit (Hctx eq_refl) Hcl Hok) as Hbp. cbv zeta in Hbp.
        fold pos in Hbp. destruct Hbp as (ret & ds & ws & im' & He & Hj). rewrite He. pose proof He as He'. apply block_static in He'.
        split.
        -- cbn [judge_op]. fold fs. rewrite Hwf. cbn [negb]. rewrite Hse in Hj. exact Hj.
        -- apply (rel_next session segs im); auto.
      * destruct (image_block_poll m l im blimit) as [[[[ret ds] ws] im']| | | |] eqn:He.
        1:{ split; [cbn [judge_op]; fold fs; rewrite Hwf; reflexivity|].
            apply block_static in He. apply (rel_next session segs im); auto. }
        all: split; [cbn [judge_op]; fold fs; rewrite Hwf; reflexivity|apply (rel_next session segs im); auto using static_eq_refl].
  - (* set_position *)
    fold pos. set (q := resolve pos p). unfold image_set_position.
    destruct (im_closed im) eqn:Hcl.
    + cbn [obs_of map]. split; [cbn [judge_op]; apply judge_idle_intro; reflexivity|apply (rel_next session segs im); auto using static_eq_refl].
    + change (l_tlen l) with (2 ^ bits). rewrite validate_spec by lia. fold pos.
      destruct (valid_new_position (2 ^ bits) pos q) eqn:Hv; cbn [obs_of map].
      * split.
        -- cbn [judge_op]. fold q. rewrite Hv. cbn [out_eqb last nondecr set_pos im_pos]. rewrite !Z.eqb_refl.
           unfold valid_new_position in Hv. assert (pos <=? q = true) by lia. rewrite H. reflexivity.
        -- apply (rel_next session segs im); auto using static_eq_set_pos.
      * split; [|apply (rel_next session segs im); auto using static_eq_refl].
        cbn [judge_op]. fold q. rewrite Hv. apply judge_idle_intro. reflexivity.
  - (* close *)
    split; [cbn [judge_op]; apply judge_idle_intro; reflexivity|].
    unfold rel, onext, image_close. cbn [fst snd ctr_of]. destruct (im_closed im) eqn:Hcl; cbn [im_pos im_closed im_final im_session].
    + rewrite Hcl. split; [reflexivity|assumption].
    + split; [reflexivity|assumption].
  - (* grow *)
    split; [cbn [judge_op]; apply judge_idle_intro; reflexivity|].
    unfold rel, onext. cbn [fst snd ctr_of]. split; [reflexivity|assumption].
  - (* position *)
    split.
    + cbn [judge_op]. unfold image_position. fold pos. apply judge_idle_intro. apply out_eqb_refl_ok.
    + apply (rel_next session segs im); auto using static_eq_refl.
Qed.

(* ---- a whole history ---- *)
Theorem run_judged m bits init session : forall ops st ms,
  16 <= bits <= 30 -> rel session st ms -> Forall op_ok ops ->
  judge_all bits init session st ops (run m bits init session ms ops) = true.
Proof. induction ops as [|o r IH]; intros st ms Hb Hrel Hok; [reflexivity|].
  inversion Hok as [|? ? Ho Hr]; subst. cbn [run].
  pose proof (step_judged m bits init session st ms o Hb Hrel Ho) as Hs.
  destruct (step m bits init session ms o) as [ob ms']. destruct Hs as [Hj Hrel'].
  cbn [judge_all]. rewrite Hj. cbn [andb]. apply IH; assumption. Qed.

Theorem case_judged m bits init session pos0 segs ops :
  16 <= bits <= 30 -> Forall op_ok ops ->
  holds_case bits init session pos0 segs ops (run_case m bits init session pos0 segs ops) = true.
Proof. intros Hb Hok. unfold holds_case, run_case. apply run_judged; try assumption.
  split; reflexivity. Qed.
