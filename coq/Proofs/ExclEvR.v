(* C03, exclusive publisher + subscriber: what every step of the subscriber reports. *)
Require Import V.Base.MachineInt.
Require Import V.Generated.GenConsts.
Require Import V.Generated.GenOrdering.
Require Import V.Model.LogBase.
Require Import V.Model.Descriptor.
Require Import V.Model.Sched.
Require Import V.Model.AppenderThreads.
Require Import V.Model.ReaderThreads.
Require Import V.Model.ExclThreads.
Require Import V.Model.PollThreads.
Require Import V.Model.ClaimThreads.
Require Import V.Oracle.C03Oracle.
Require Import V.Proofs.OrderingProofs.
Require Import V.Proofs.TailArith.
Require Import V.Proofs.FragArith.
Require Import V.Proofs.ExclDefs V.Proofs.ExclRd2 V.Proofs.ExclRd3 V.Proofs.ExclRd4.
Require Import V.Proofs.ExclEv.
From Coq Require Import ZifyBool.
Open Scope Z_scope.

Section E.
  Variable c : cfg.

  Lemma nof_finish r l : von_frame (v_pc (v_finish r l)) = false.
  Proof. unfold v_finish, v_begin. cbn. destruct (tl (v_todo l)); reflexivity. Qed.
  Lemma nof_end l : von_frame (v_pc (v_end_poll l)) = false.
  Proof. unfold v_end_poll. destruct (_ <? _); [reflexivity | apply nof_finish]. Qed.
  Lemma nof_loop l : von_frame (v_pc (v_loop l)) = false.
  Proof. unfold v_loop. destruct (_ && _); [reflexivity | apply nof_end]. Qed.

  Definition vfacts (s : shared) (l l' : vlocal) (e : event) : Prop :=
    match v_pc l with
    | VLen => e_acc e = GetVolatile /\ e_reg e = v_idx l /\ e_off e = v_off l /\ e_len e = 4 /\
              ((0 < s_len (sh_mem s (v_idx l) (v_off l)) /\ v_pc l' = VType /\ v_idx l' = v_idx l /\ v_foff l' = v_off l) \/
               (s_len (sh_mem s (v_idx l) (v_off l)) <= 0 /\ von_frame (v_pc l') = false))
    | VType => e_acc e = Get /\ e_reg e = v_idx l /\ e_off e = v_foff l + 6 /\ e_len e = 2 /\
               (von_frame (v_pc l') = true -> v_idx l' = v_idx l /\ v_foff l' = v_foff l)
    | VFlags => e_acc e = Get /\ e_reg e = v_idx l /\ e_off e = v_foff l + 5 /\ e_len e = 1 /\
                (von_frame (v_pc l') = true -> v_idx l' = v_idx l /\ v_foff l' = v_foff l)
    | VBody => e_acc e = RegionRead /\ e_reg e = v_idx l /\ e_off e = v_foff l + 32 /\ e_len e = v_flen l - 32 /\
               von_frame (v_pc l') = false
    | _ => term_region (e_reg e) = false /\ von_frame (v_pc l') = false
    end.

  Lemma vstep_event s l t s' l' e : vstep c t s l = Some (s', l', e) -> vpc_ok (v_pc l) = true -> flav_ok (v_flav l) = true ->
    e_tid e = t /\ narrow e = e /\ vfacts s l l' e.
  Proof. intros Hstep Hok Hfl. unfold vfacts, vstep in *.
    destruct (v_pc l) eqn:Hpc; try discriminate Hok; inversion Hstep; subst s' l' e; clear Hstep;
      (split; [reflexivity|]); (split; [reflexivity|]).
    - (* VPos *) split; [reflexivity|]. destruct (v_flav l); try discriminate Hfl; apply nof_loop.
    - (* VLen *)
      repeat (split; [reflexivity|]). destruct (s_len (sh_mem s (v_idx l) (v_off l)) <=? 0) eqn:E.
      + right. split; [lia|]. destruct (is_peek (v_flav l)) eqn:Ep; [destruct (v_flav l); discriminate | apply nof_end].
      + left. split; [lia|]. cbn. auto.
    - (* VType *)
      repeat (split; [reflexivity|]). destruct (_ =? T_PAD).
      + destruct (is_peek (v_flav l)) eqn:Ep; [destruct (v_flav l); discriminate|]. rewrite nof_loop. discriminate.
      + cbn. auto.
    - (* VFlags *) repeat (split; [reflexivity|]). cbn. auto.
    - (* VBody *)
      repeat (split; [reflexivity|]). unfold after_handler.
      set (l1 := vl_handled l _). change (v_flav l1) with (v_flav l).
      destruct (v_flav l); try discriminate Hfl; try apply nof_loop; destruct (v_act l1); try apply nof_loop; try apply nof_end; reflexivity.
    - (* VCommit *) split; [reflexivity | apply nof_loop].
    - (* VSet *) split; [reflexivity | apply nof_finish]. Qed.
End E.
