(* C03, exclusive publisher + subscriber: what every step of the subscriber (any flavour) reports. *)
Require Import V.Base.MachineInt.
Require Import V.Generated.GenConsts.
Require Import V.Generated.GenOrdering.
Require Import V.Model.LogBase.
Require Import V.Model.Descriptor.
Require Import V.Model.Sched.
Require Import V.Model.AppenderThreads.
Require Import V.Model.ReaderThreads.
Require Import V.Model.ExclThreads.
Require Import V.Model.PollThreads.
Require Import V.Model.ClaimThreads.
Require Import V.Oracle.C03Oracle.
Require Import V.Proofs.OrderingProofs.
Require Import V.Proofs.TailArith.
Require Import V.Proofs.FragArith.
Require Import V.Proofs.ExclDefs V.Proofs.ExclEv.
Require Import V.Proofs.ExclRd2 V.Proofs.ExclRd3 V.Proofs.ExclRd4.
From Coq Require Import ZifyBool.
Open Scope Z_scope.

Section E.
  Variable c : cfg.

  Definition in_block (pc : vpc) : bool := match pc with VBLen | VBType | VBTid | VBRead | VBSet => true | _ => false end.

  Lemma nof_finish r l : von_frame (v_pc (v_finish r l)) = false /\ in_block (v_pc (v_finish r l)) = false.
  Proof. unfold v_finish, v_begin. cbn. destruct (tl (v_todo l)); split; reflexivity. Qed.
  Lemma nof_end l : von_frame (v_pc (v_end_poll l)) = false /\ in_block (v_pc (v_end_poll l)) = false.
  Proof. unfold v_end_poll. destruct (_ <? _); [split; reflexivity | apply nof_finish]. Qed.
  Lemma nof_loop l : von_frame (v_pc (v_loop l)) = false /\ in_block (v_pc (v_loop l)) = false.
  Proof. unfold v_loop. destruct (_ && _); [split; reflexivity | apply nof_end]. Qed.
  Lemma nof_pend l : von_frame (v_pc (v_pend l)) = false /\ in_block (v_pc (v_pend l)) = false.
  Proof. unfold v_pend. destruct (_ <? _); [split; reflexivity | apply nof_finish]. Qed.
  Lemma nof_ploop l : von_frame (v_pc (v_ploop c l)) = false /\ in_block (v_pc (v_ploop c l)) = false.
  Proof. unfold v_ploop. destruct (_ && _); [split; reflexivity | apply nof_pend]. Qed.
  Lemma nof_bend l : von_frame (v_pc (v_bend l)) = false.
  Proof. unfold v_bend. destruct (_ <? _); [reflexivity | apply nof_finish]. Qed.
  Lemma nof_bloop l : von_frame (v_pc (v_bloop l)) = false.
  Proof. unfold v_bloop. destruct (_ <? _); [reflexivity | apply nof_bend]. Qed.

  (* block_poll: the scan keeps its start, its partition and - but for the step over a frame - its offset *)
  Definition bsame (l l' : vlocal) : Prop := v_p0 l' = v_p0 l /\ v_idx l' = v_idx l /\ v_off l' = v_off l.
  Lemma bs_bend l : in_block (v_pc (v_bend l)) = true -> bsame l (v_bend l).
  Proof. unfold v_bend. destruct (_ <? _); [intros _; repeat split | intros H; destruct (nof_finish (Ok (v_off l - v_p0 l)) l) as (_ & X); congruence]. Qed.
  Lemma bs_bloop l : in_block (v_pc (v_bloop l)) = true -> bsame l (v_bloop l).
  Proof. unfold v_bloop. destruct (_ <? _); [intros _; repeat split | apply bs_bend]. Qed.

  Definition vfacts (s : shared) (l l' : vlocal) (e : event) : Prop :=
    match v_pc l with
    | VLen => e_acc e = GetVolatile /\ e_reg e = v_idx l /\ e_off e = v_off l /\ e_len e = 4 /\
              ((0 < s_len (sh_mem s (v_idx l) (v_off l)) /\ v_pc l' = VType /\ v_idx l' = v_idx l /\ v_foff l' = v_off l) \/
               (s_len (sh_mem s (v_idx l) (v_off l)) <= 0 /\ von_frame (v_pc l') = false)) /\ in_block (v_pc l') = false
    | VType => e_acc e = Get /\ e_reg e = v_idx l /\ e_off e = v_foff l + 6 /\ e_len e = 2 /\
               (von_frame (v_pc l') = true -> v_idx l' = v_idx l /\ v_foff l' = v_foff l) /\ in_block (v_pc l') = false
    | VFlags => e_acc e = Get /\ e_reg e = v_idx l /\ e_off e = v_foff l + 5 /\ e_len e = 1 /\
                (von_frame (v_pc l') = true -> v_idx l' = v_idx l /\ v_foff l' = v_foff l) /\ in_block (v_pc l') = false
    | VBody => e_acc e = RegionRead /\ e_reg e = v_idx l /\ e_off e = v_foff l + 32 /\ e_len e = v_flen l - 32 /\
               (von_frame (v_pc l') = true -> v_idx l' = v_idx l /\ v_foff l' = v_foff l) /\ in_block (v_pc l') = false
    | VFlags2 => e_acc e = Get /\ e_reg e = v_idx l /\ e_off e = v_foff l + 5 /\ e_len e = 1 /\
                 von_frame (v_pc l') = false /\ in_block (v_pc l') = false
    | VBLen => e_acc e = GetVolatile /\ e_reg e = v_idx l /\ e_off e = v_off l /\ e_len e = 4 /\
               ((0 < s_len (sh_mem s (v_idx l) (v_off l)) /\ v_pc l' = VBType /\ v_foff l' = v_off l /\ bsame l l') \/
                (s_len (sh_mem s (v_idx l) (v_off l)) <= 0 /\ von_frame (v_pc l') = false /\ (in_block (v_pc l') = true -> bsame l l')))
    | VBType => e_acc e = Get /\ e_reg e = v_idx l /\ e_off e = v_off l + 6 /\ e_len e = 2 /\ von_frame (v_pc l') = false /\
                (in_block (v_pc l') = true -> v_p0 l' = v_p0 l /\ v_idx l' = v_idx l /\
                                                (v_off l' = v_off l \/ v_off l' = v_off l + align (v_flen l) FA))
    | VBTid => e_acc e = Get /\ e_reg e = v_idx l /\ e_off e = v_p0 l + 20 /\ e_len e = 4 /\ von_frame (v_pc l') = false /\ bsame l l'
    | VBRead => e_acc e = RegionRead /\ e_reg e = v_idx l /\ e_off e = v_p0 l /\ e_len e = v_off l - v_p0 l /\
                von_frame (v_pc l') = false /\ bsame l l'
    | VPos => term_region (e_reg e) = false /\ von_frame (v_pc l') = false /\ (in_block (v_pc l') = true -> v_p0 l' = v_off l')
    | _ => term_region (e_reg e) = false /\ von_frame (v_pc l') = false /\ in_block (v_pc l') = false
    end.

  Lemma vstep_event s l t s' l' e : vstep c t s l = Some (s', l', e) -> pc_flav (v_pc l) (v_flav l) = true ->
    e_tid e = t /\ narrow e = e /\ vfacts s l l' e.
  Proof. intros Hstep Hpf. unfold vfacts, vstep in *.
    destruct (v_pc l) eqn:Hpc; inversion Hstep; subst s' l' e; clear Hstep; cbn [pc_flav] in Hpf;
      (split; [reflexivity|]); (split; [reflexivity|]).
    - (* VPos *) split; [reflexivity|]. destruct (v_flav l); cbn.
      + split; [apply nof_loop|]. intros X. destruct (nof_loop (vl_start l VPos (index_by_position (sh_subpos s) (c_bits c)) (sh_subpos s) (toff_of c (sh_subpos s)) (TL c) [] (toff_of c (sh_subpos s)))) as (_ & Y). congruence.
      + split; [apply nof_loop|]. intros X. match type of X with in_block (v_pc (v_loop ?a)) = true => destruct (nof_loop a) as (_ & Y) end. congruence.
      + split; [apply nof_loop|]. intros X. match type of X with in_block (v_pc (v_loop ?a)) = true => destruct (nof_loop a) as (_ & Y) end. congruence.
      + split; [apply nof_loop|]. intros X. match type of X with in_block (v_pc (v_loop ?a)) = true => destruct (nof_loop a) as (_ & Y) end. congruence.
      + split; [reflexivity | intros X; discriminate X].
      + split; [apply nof_bloop|]. intros X. match type of X with in_block (v_pc (v_bloop ?a)) = true => destruct (bs_bloop a X) as (B1 & _ & B3) end.
        rewrite B1, B3. reflexivity.
    - (* VVal *) split; [reflexivity|]. destruct (Image.validate_position _ _ _); [apply nof_ploop | apply nof_finish].
    - (* VLen *)
      repeat (split; [reflexivity|]). destruct (s_len (sh_mem s (v_idx l) (v_off l)) <=? 0) eqn:E.
      + destruct (is_peek (v_flav l)).
        * split; [right; split; [lia | apply nof_pend] | apply nof_pend].
        * split; [right; split; [lia | apply nof_end] | apply nof_end].
      + split; [left; split; [lia|]; cbn; auto | reflexivity].
    - (* VType *)
      repeat (split; [reflexivity|]). destruct (_ =? T_PAD).
      + destruct (is_peek (v_flav l)).
        * destruct (nof_ploop (vl_padv l true)) as (X & Y). split; [rewrite X; discriminate | exact Y].
        * destruct (nof_loop l) as (X & Y). split; [rewrite X; discriminate | exact Y].
      + cbn. auto.
    - (* VFlags *) repeat (split; [reflexivity|]). cbn. auto.
    - (* VBody *)
      repeat (split; [reflexivity|]). unfold after_handler.
      set (l1 := vl_handled l _). change (v_flav l1) with (v_flav l).
      assert (K : forall a, (von_frame (v_pc a) = false /\ in_block (v_pc a) = false) ->
                  (von_frame (v_pc a) = true -> v_idx a = v_idx l /\ v_foff a = v_foff l) /\ in_block (v_pc a) = false).
      { intros a (X & Y). split; [rewrite X; discriminate | exact Y]. }
      destruct (v_flav l); try discriminate Hpf; try (apply K; apply nof_loop);
        destruct (v_act l1); try (apply K; apply nof_loop); try (apply K; apply nof_end); try (apply K; apply nof_pend);
        try (apply K; split; reflexivity); cbn; auto.
    - (* VFlags2 *)
      repeat (split; [reflexivity|]). destruct (v_act l); try apply nof_ploop; apply nof_pend.
    - (* VCommit *) split; [reflexivity | apply nof_loop].
    - (* VSet *) split; [reflexivity | apply nof_finish].
    - (* VVal2 *) split; [reflexivity|]. destruct (Image.validate_position _ _ _); [split; reflexivity | apply nof_finish].
    - (* VSetPos *) split; [reflexivity | apply nof_finish].
    - (* VBLen *)
      repeat (split; [reflexivity|]). destruct (s_len (sh_mem s (v_idx l) (v_off l)) <=? 0) eqn:E.
      + right. split; [lia|]. split; [apply nof_bend | apply bs_bend].
      + left. split; [lia|]. cbn. repeat split; reflexivity.
    - (* VBType *)
      repeat (split; [reflexivity|]). destruct (_ =? T_PAD).
      + split; [apply nof_bend|]. intros X. destruct (v_p0 l =? v_off l); destruct (bs_bend _ X) as (B1 & B2 & B3); rewrite B1, B2, B3; cbn; auto.
      + destruct (v_end l <? _).
        * split; [apply nof_bend|]. intros X. destruct (bs_bend _ X) as (B1 & B2 & B3). rewrite B1, B2, B3. auto.
        * split; [apply nof_bloop|]. intros X. destruct (bs_bloop _ X) as (B1 & B2 & B3). rewrite B1, B2, B3. cbn. auto.
    - (* VBTid *) repeat (split; [reflexivity|]). repeat split; reflexivity.
    - (* VBRead *) repeat (split; [reflexivity|]). repeat split; reflexivity.
    - (* VBSet *) split; [reflexivity | apply nof_finish]. Qed.

  Lemma bend_lt x : v_pc (v_bend x) = VBTid -> v_p0 (v_bend x) < v_off (v_bend x).
  Proof. unfold v_bend. destruct (v_p0 x <? v_off x) eqn:E; [intros _; cbn; lia|]. unfold v_finish, v_begin. cbn. destruct (tl (v_todo x)); discriminate. Qed.
  Lemma bloop_lt x : v_pc (v_bloop x) = VBTid -> v_p0 (v_bloop x) < v_off (v_bloop x).
  Proof. unfold v_bloop. destruct (_ <? _); [discriminate | apply bend_lt]. Qed.

  Ltac notblk H :=
    exfalso;
    match type of H with
    | v_pc (v_loop ?y) = _ => let Y := fresh "Y" in destruct (nof_loop y) as (_ & Y); rewrite H in Y; discriminate Y
    | v_pc (v_end_poll ?y) = _ => let Y := fresh "Y" in destruct (nof_end y) as (_ & Y); rewrite H in Y; discriminate Y
    | v_pc (v_finish ?r ?y) = _ => let Y := fresh "Y" in destruct (nof_finish r y) as (_ & Y); rewrite H in Y; discriminate Y
    | v_pc (v_pend ?y) = _ => let Y := fresh "Y" in destruct (nof_pend y) as (_ & Y); rewrite H in Y; discriminate Y
    | v_pc (v_ploop c ?y) = _ => let Y := fresh "Y" in destruct (nof_ploop y) as (_ & Y); rewrite H in Y; discriminate Y
    end.

  (* the block handler is only called for a non-empty block *)
  Lemma btid_lt s l t s' l' e : vstep c t s l = Some (s', l', e) -> v_pc l' = VBTid -> v_p0 l' < v_off l'.
  Proof. intros Hstep. unfold vstep in Hstep.
    destruct (v_pc l) eqn:Hpc; inversion Hstep; subst s' l' e; clear Hstep; intros H;
      try (cbn in H; discriminate H); try (notblk H).
    - destruct (v_flav l); try (notblk H); try (cbn in H; discriminate H). apply bloop_lt. exact H.
    - destruct (Image.validate_position _ _ _); notblk H.
    - destruct (_ <=? 0); [destruct (is_peek _); notblk H | cbn in H; discriminate H].
    - destruct (_ =? T_PAD); [destruct (is_peek _); notblk H | cbn in H; discriminate H].
    - unfold after_handler in H. destruct (v_flav _); try (notblk H); destruct (v_act _); try (notblk H); cbn in H; discriminate H.
    - destruct (v_act l); notblk H.
    - destruct (Image.validate_position _ _ _); [cbn in H; discriminate H | notblk H].
    - destruct (_ <=? 0); [apply bend_lt; exact H | cbn in H; discriminate H].
    - destruct (_ =? T_PAD); [destruct (_ =? _); apply bend_lt; exact H|]. destruct (_ <? _); [apply bend_lt | apply bloop_lt]; exact H. Qed.

  Lemma bread_from s l t s' l' e : vstep c t s l = Some (s', l', e) -> v_pc l' = VBRead ->
    v_pc l = VBTid /\ v_p0 l' = v_p0 l /\ v_off l' = v_off l.
  Proof. intros Hstep. unfold vstep in Hstep.
    assert (Kb : forall x, v_pc (v_bend x) = VBRead -> False).
    { intros x. unfold v_bend. destruct (v_p0 x <? v_off x); [intros X; cbn in X; discriminate X|]. unfold v_finish, v_begin. cbn. destruct (tl (v_todo x)); intros X; cbn in X; discriminate X. }
    assert (Kl : forall x, v_pc (v_bloop x) = VBRead -> False) by (intros x; unfold v_bloop; destruct (v_off x <? v_end x); [intros X; cbn in X; discriminate X | apply Kb]).
    destruct (v_pc l) eqn:Hpc; inversion Hstep; subst s' l' e; clear Hstep; intros H;
      try (cbn in H; discriminate H); try (notblk H); try (cbn; auto; fail).
    - destruct (v_flav l); try (notblk H); try (cbn in H; discriminate H). exfalso. eapply Kl; eauto.
    - destruct (Image.validate_position _ _ _); notblk H.
    - destruct (_ <=? 0); [destruct (is_peek _); notblk H | cbn in H; discriminate H].
    - destruct (_ =? T_PAD); [destruct (is_peek _); notblk H | cbn in H; discriminate H].
    - unfold after_handler in H. destruct (v_flav _); try (notblk H); destruct (v_act _); try (notblk H); cbn in H; discriminate H.
    - destruct (v_act l); notblk H.
    - destruct (Image.validate_position _ _ _); [cbn in H; discriminate H | notblk H].
    - destruct (_ <=? 0); [exfalso; eapply Kb; eauto | cbn in H; discriminate H].
    - exfalso. destruct (_ =? T_PAD); [destruct (_ =? _); eapply Kb; eauto|]. destruct (_ <? _); [eapply Kb | eapply Kl]; eauto. Qed.
End E.
