(* Word lists (sparse dumps of a term partition): lookup, lists with increasing offsets, the zero filter,
   little-endian decoding of the bytes packed by LogBase.words_of_bytes.  Used by the render / decode round
   trip between the slot-level state of Model/AppenderThreads.v and the dump Oracle/C02Oracle.v reads. *)
Require Import V.Base.MachineInt.
Require Import V.Generated.GenConsts.
Require Import V.Model.LogBase.
Require Import V.Model.Descriptor.
Require Import V.Model.Sched.
Require Import V.Model.AppenderThreads.
Require Import V.Oracle.C02Oracle.
From Coq Require Import ZifyBool.
Open Scope Z_scope.

(* offsets strictly increasing, all inside [lo, hi) *)
Fixpoint inc (lo : Z) (ws : words) (hi : Z) : Prop :=
  match ws with
  | [] => lo <= hi
  | w :: r => lo <= fst w /\ inc (fst w + 1) r hi
  end.

Lemma inc_le lo ws hi : inc lo ws hi -> lo <= hi.
Proof. revert lo. induction ws as [|w r IH]; intros lo H; cbn [inc] in H; [assumption|].
  destruct H as (H1 & H2). apply IH in H2. lia. Qed.

Lemma inc_weaken lo lo' ws hi hi' : lo' <= lo -> hi <= hi' -> inc lo ws hi -> inc lo' ws hi'.
Proof. revert lo lo'. induction ws as [|w r IH]; intros lo lo' H1 H2 H; cbn [inc] in *; [lia|].
  destruct H as (Ha & Hb). split; [lia|]. eapply IH; [| |exact Hb]; lia. Qed.

Lemma inc_app lo a mid b hi : inc lo a mid -> inc mid b hi -> inc lo (a ++ b) hi.
Proof. revert lo. induction a as [|w r IH]; intros lo Ha Hb; cbn [inc app] in *.
  - eapply inc_weaken; [| |exact Hb]; lia.
  - destruct Ha as (H1 & H2). split; [assumption|]. apply IH; assumption. Qed.

Lemma inc_bounds lo ws hi o v : inc lo ws hi -> In (o, v) ws -> lo <= o < hi.
Proof. revert lo. induction ws as [|w r IH]; intros lo H Hin; [destruct Hin|].
  cbn [inc] in H. destruct H as (H1 & H2). destruct Hin as [-> | Hin].
  - cbn [fst] in *. apply inc_le in H2. lia.
  - specialize (IH _ H2 Hin). lia. Qed.

Lemma inc_filter f lo ws hi : inc lo ws hi -> inc lo (filter f ws) hi.
Proof. revert lo. induction ws as [|w r IH]; intros lo H; cbn [inc filter] in *; [assumption|].
  destruct H as (H1 & H2). destruct (f w); cbn [inc].
  - split; [assumption | apply IH; assumption].
  - apply IH. eapply inc_weaken; [| |exact H2]; lia. Qed.

Lemma word_at_none ws x : (forall o v, In (o, v) ws -> o <> x) -> word_at ws x = 0.
Proof. induction ws as [|[o v] r IH]; intros H; [reflexivity|]. cbn [word_at].
  destruct (o =? x) eqn:E.
  - exfalso. apply (H o v (or_introl eq_refl)). lia.
  - apply IH. intros o' v' Hin. apply (H o' v'). right. assumption. Qed.

Lemma word_at_out lo ws hi x : inc lo ws hi -> x < lo \/ hi <= x -> word_at ws x = 0.
Proof. intros H Hx. apply word_at_none. intros o v Hin E. subst. pose proof (inc_bounds _ _ _ _ _ H Hin). lia. Qed.

Lemma word_at_in lo ws hi x v : inc lo ws hi -> In (x, v) ws -> word_at ws x = v.
Proof. revert lo. induction ws as [|[o w] r IH]; intros lo H Hin; [destruct Hin|].
  cbn [inc fst] in H. destruct H as (H1 & H2). cbn [word_at]. destruct Hin as [E | Hin].
  - inversion E; subst. rewrite Z.eqb_refl. reflexivity.
  - pose proof (inc_bounds _ _ _ _ _ H2 Hin). replace (o =? x) with false by lia. eapply IH; eauto. Qed.

Lemma word_at_app_r a b x : (forall o v, In (o, v) a -> o <> x) -> word_at (a ++ b) x = word_at b x.
Proof. induction a as [|[o v] r IH]; intros H; [reflexivity|]. cbn [app word_at].
  destruct (o =? x) eqn:E.
  - exfalso. apply (H o v (or_introl eq_refl)). lia.
  - apply IH. intros o' v' Hin. apply (H o' v'). right. assumption. Qed.

Lemma word_at_app_l a b x : (forall o v, In (o, v) b -> o <> x) -> word_at (a ++ b) x = word_at a x.
Proof. intros H. induction a as [|[o v] r IH]; cbn [app word_at]; [apply word_at_none; assumption|].
  destruct (o =? x); [reflexivity | assumption]. Qed.

Lemma word_at_nonzero lo ws hi x : inc lo ws hi -> word_at (nonzero ws) x = word_at ws x.
Proof. revert lo. induction ws as [|[o v] r IH]; intros lo H; [reflexivity|].
  cbn [inc fst] in H. destruct H as (H1 & H2). unfold nonzero in *. cbn [filter snd].
  destruct (negb (v =? 0)) eqn:E; cbn [word_at].
  - destruct (o =? x); [reflexivity | eapply IH; eauto].
  - destruct (o =? x) eqn:E2.
    + assert (v = 0) by lia. subst v. apply (word_at_out (o + 1) _ hi); [apply inc_filter; assumption | lia].
    + eapply IH; eauto. Qed.

Lemma nonzero_app a b : nonzero (a ++ b) = nonzero a ++ nonzero b.
Proof. apply filter_app. Qed.

Lemma nonzero_in ws o v : In (o, v) (nonzero ws) -> In (o, v) ws.
Proof. unfold nonzero. intros H. apply filter_In in H. tauto. Qed.

(* ---- bytes ---- *)
Definition byte (b : Z) : Prop := 0 <= b < 256.

Lemma wrap32_mod z : wrap32 z mod two32 = z mod two32.
Proof. unfold wrap32. rewrite Zminus_mod, Zmod_mod, <- Zminus_mod. f_equal. ring. Qed.

Lemma byte_at_eq ws ws' x : word_at ws (x - x mod 4) = word_at ws' (x - x mod 4) -> byte_at ws x = byte_at ws' x.
Proof. intros H. unfold byte_at. rewrite H. reflexivity. Qed.

Lemma word_bytes b0 b1 b2 b3 : byte b0 -> byte b1 -> byte b2 -> byte b3 ->
  let w := word_of b0 b1 b2 b3 mod two32 in
  (w / 2 ^ (8 * 0)) mod 256 = b0 /\ (w / 2 ^ (8 * 1)) mod 256 = b1 /\
  (w / 2 ^ (8 * 2)) mod 256 = b2 /\ (w / 2 ^ (8 * 3)) mod 256 = b3.
Proof. unfold byte. intros H0 H1 H2 H3. cbn zeta. unfold word_of. rewrite wrap32_mod.
  rewrite (Z.mod_small (b0 + 256 * b1 + 65536 * b2 + 16777216 * b3) two32) by (unfold two32; lia).
  change (2 ^ (8 * 0)) with 1. change (2 ^ (8 * 1)) with 256. change (2 ^ (8 * 2)) with 65536. change (2 ^ (8 * 3)) with 16777216.
  repeat split; Z.div_mod_to_equations; lia. Qed.

Lemma list_ind4 {A} (P : list A -> Prop) :
  P [] -> (forall a, P [a]) -> (forall a b, P [a; b]) -> (forall a b c, P [a; b; c]) ->
  (forall a b c d r, P r -> P (a :: b :: c :: d :: r)) -> forall l, P l.
Proof. intros H0 H1 H2 H3 H4. fix IH 1. intros l. destruct l as [|a [|b [|c [|d r]]]].
  - exact H0.
  - apply H1.
  - apply H2.
  - apply H3.
  - apply H4. apply IH. Qed.

Lemma wob_inc bs : forall off, inc off (words_of_bytes off bs) (off + Z.of_nat (length bs)).
Proof. induction bs as [| a | a b | a b c | a b c d r IH] using list_ind4; intros off; cbn [words_of_bytes inc fst length]; try lia.
  split; [lia|]. eapply inc_weaken; [| |apply (IH (off + 4))]; cbn [length]; lia. Qed.

Lemma mod4_split off j : off mod 4 = 0 -> 0 <= j -> (off + j) mod 4 = j mod 4 /\ (off + j) - (off + j) mod 4 = off + 4 * (j / 4).
Proof. intros. Z.div_mod_to_equations. lia. Qed.

(* byte j of the packed list *)
Lemma wob_byte bs : Forall byte bs -> forall off j, off mod 4 = 0 -> (j < length bs)%nat ->
  byte_at (words_of_bytes off bs) (off + Z.of_nat j) = nth j bs 0.
Proof. induction bs as [| a | a b | a b c | a b c d r IH] using list_ind4; intros HB off j Hoff Hj; cbn [length] in Hj; try lia.
  - inversion HB as [|? ? Ba _]; subst.
    destruct (mod4_split off (Z.of_nat j) Hoff ltac:(lia)) as (M1 & M2). unfold byte_at. rewrite M2, M1. cbn [words_of_bytes word_at].
    replace (off =? off + 4 * (Z.of_nat j / 4)) with true by (Z.div_mod_to_equations; lia).
    pose proof (word_bytes a 0 0 0 Ba ltac:(unfold byte; lia) ltac:(unfold byte; lia) ltac:(unfold byte; lia)) as (W0 & _).
    destruct j as [|j]; [exact W0 | lia].
  - inversion HB as [|? ? Ba HB1]; subst. inversion HB1 as [|? ? Bb _]; subst.
    destruct (mod4_split off (Z.of_nat j) Hoff ltac:(lia)) as (M1 & M2). unfold byte_at. rewrite M2, M1. cbn [words_of_bytes word_at].
    replace (off =? off + 4 * (Z.of_nat j / 4)) with true by (Z.div_mod_to_equations; lia).
    pose proof (word_bytes a b 0 0 Ba Bb ltac:(unfold byte; lia) ltac:(unfold byte; lia)) as (W0 & W1 & _).
    destruct j as [|[|j]]; [exact W0 | exact W1 | lia].
  - inversion HB as [|? ? Ba HB1]; subst. inversion HB1 as [|? ? Bb HB2]; subst. inversion HB2 as [|? ? Bc _]; subst.
    destruct (mod4_split off (Z.of_nat j) Hoff ltac:(lia)) as (M1 & M2). unfold byte_at. rewrite M2, M1. cbn [words_of_bytes word_at].
    replace (off =? off + 4 * (Z.of_nat j / 4)) with true by (Z.div_mod_to_equations; lia).
    pose proof (word_bytes a b c 0 Ba Bb Bc ltac:(unfold byte; lia)) as (W0 & W1 & W2 & _).
    destruct j as [|[|[|j]]]; [exact W0 | exact W1 | exact W2 | lia].
  - inversion HB as [|? ? Ba HB1]; subst. inversion HB1 as [|? ? Bb HB2]; subst. inversion HB2 as [|? ? Bc HB3]; subst.
    inversion HB3 as [|? ? Bd HB4]; subst.
    destruct (Nat.lt_ge_cases j 4) as [Hlt | Hge].
    + destruct (mod4_split off (Z.of_nat j) Hoff ltac:(lia)) as (M1 & M2). unfold byte_at. rewrite M2, M1. cbn [words_of_bytes word_at].
      replace (off =? off + 4 * (Z.of_nat j / 4)) with true by (Z.div_mod_to_equations; lia).
      pose proof (word_bytes a b c d Ba Bb Bc Bd) as (W0 & W1 & W2 & W3).
      destruct j as [|[|[|[|j]]]]; [exact W0 | exact W1 | exact W2 | exact W3 | lia].
    + set (j' := (j - 4)%nat).
      replace (off + Z.of_nat j) with ((off + 4) + Z.of_nat j') by (unfold j'; lia).
      replace (nth j (a :: b :: c :: d :: r) 0) with (nth j' r 0)
        by (replace j with (S (S (S (S j')))) by (unfold j'; lia); reflexivity).
      rewrite <- (IH HB4 (off + 4) j'); [| Z.div_mod_to_equations; lia | unfold j'; lia].
      apply byte_at_eq. cbn [words_of_bytes word_at].
      destruct (mod4_split (off + 4) (Z.of_nat j') ltac:(Z.div_mod_to_equations; lia) ltac:(lia)) as (_ & M2). rewrite M2.
      replace (off =? off + 4 + 4 * (Z.of_nat j' / 4)) with false by (Z.div_mod_to_equations; lia). reflexivity. Qed.

Lemma bytes_from_eq ws : forall n o bs, length bs = n ->
  (forall j, (j < n)%nat -> byte_at ws (o + Z.of_nat j) = nth j bs 0) -> bytes_from ws o n = bs.
Proof. induction n as [|n IH]; intros o bs Hl H; destruct bs as [|b r]; try discriminate; [reflexivity|].
  cbn [bytes_from]. f_equal.
  - specialize (H O ltac:(lia)). cbn in H. rewrite Z.add_0_r in H. exact H.
  - apply IH; [cbn in Hl; lia|]. intros j Hj. specialize (H (S j) ltac:(lia)). cbn [nth] in H.
    rewrite <- H. f_equal. lia. Qed.

(* a dump that agrees with the packed bytes on their range decodes to them *)
Lemma bytes_from_wob ws bs off : Forall byte bs -> off mod 4 = 0 ->
  (forall x, off <= x < off + Z.of_nat (length bs) -> word_at ws x = word_at (words_of_bytes off bs) x) ->
  bytes_from ws off (length bs) = bs.
Proof. intros HB Hoff Hag. apply bytes_from_eq; [reflexivity|]. intros j Hj.
  rewrite <- (wob_byte bs HB off j Hoff Hj). apply byte_at_eq. apply Hag.
  destruct (mod4_split off (Z.of_nat j) Hoff ltac:(lia)) as (_ & M2). rewrite M2. Z.div_mod_to_equations. lia. Qed.

(* a byte / half-word field of a header word *)
Lemma field_bytes ws x v0 v1 v2 : x mod 4 = 0 -> byte v0 -> byte v1 -> 0 <= v2 < 65536 ->
  word_at ws x = wrap32 (v0 + 256 * v1 + 65536 * v2) ->
  byte_at ws x = v0 /\ byte_at ws (x + 1) = v1 /\ byte_at ws (x + 2) + 256 * byte_at ws (x + 3) = v2.
Proof. unfold byte. intros Hx H0 H1 H2 Hw.
  assert (M : forall k, 0 <= k < 4 -> (x + k) mod 4 = k /\ x + k - (x + k) mod 4 = x) by (intros; Z.div_mod_to_equations; lia).
  unfold byte_at.
  destruct (M 0 ltac:(lia)) as (A0 & B0). rewrite Z.add_0_r in A0, B0. rewrite B0, A0.
  destruct (M 1 ltac:(lia)) as (A1 & B1). rewrite B1, A1.
  destruct (M 2 ltac:(lia)) as (A2 & B2). rewrite B2, A2.
  destruct (M 3 ltac:(lia)) as (A3 & B3). rewrite B3, A3.
  rewrite Hw, wrap32_mod. rewrite (Z.mod_small (v0 + 256 * v1 + 65536 * v2) two32) by (unfold two32; lia).
  change (2 ^ (8 * 0)) with 1. change (2 ^ (8 * 1)) with 256. change (2 ^ (8 * 2)) with 65536. change (2 ^ (8 * 3)) with 16777216.
  repeat split; Z.div_mod_to_equations; lia. Qed.
