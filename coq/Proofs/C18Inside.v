(* C18, inside part on rendered words: the oracle's `twin_inside` (and with `twin_equal` the whole `holds_twin`) is true on the
   model's own observations of a vectored offer, and `holds_xapp` on the exclusive appender's vectored append. *)
Require Import V.Base.MachineInt.
Require Import V.Generated.GenConsts.
Require Import V.Model.Descriptor.
Require Import V.Model.LogBase.
Require Import V.Model.LogDelta.
Require Import V.Model.Appender.
Require Import V.Model.ExclAppender.
Require Import V.Model.Publication.
Require Import V.Model.PubCases.
Require Import V.Proofs.DescriptorProofs.
Require Import V.Proofs.AppenderProofs.
Require Import V.Proofs.PublicationProofs.
Require Import V.Proofs.BulkProofs.
Require Import V.Proofs.C04Proofs.
Require Import V.Proofs.C04Statements.
Require Import V.Oracle.C04Oracle.
Require Import V.Oracle.C18Oracle.
Require Import V.Proofs.C04OracleProofs.
Require Import V.Proofs.RenderWords.
Require Import V.Proofs.C04Bytes.
Require Import V.Proofs.C18Statements.
From Coq Require Import ZifyBool.
Open Scope Z_scope.

Lemma words_eqb_eq (a b : words) : words_eqb a b = true -> a = b.
Proof. revert b. induction a as [|[o v] a IH]; intros [|[o' v'] b] H; try discriminate; [reflexivity|].
  cbn in H. unfold pair_eqb in H. cbn [fst snd] in H. assert (o = o' /\ v = v' /\ words_eqb a b = true) as (-> & -> & H') by lia.
  rewrite (IH b H'). reflexivity. Qed.

Lemma pad_words_offs g off tid : offs_in off (off + HDR) (pad_words g off tid).
Proof. unfold pad_words. apply offs_in_nonzero. rewrite HDR_eq. apply header_words_offs. Qed.

(* a trip writes at most the header of the padding frame *)
Lemma tripped_inside g p c : tripped_words g p c = true ->
  forallb (fun w => (tail_off p <=? fst w) && (fst w <? tail_off p + HDR)) (d_part c (active p)) &&
  words_eqb (d_part c ((active p + 1) mod 3)) [] && words_eqb (d_part c ((active p + 2) mod 3)) [] = true.
Proof. unfold tripped_words. intros H.
  apply Bool.andb_true_iff in H. destruct H as [H H2]. apply Bool.andb_true_iff in H. destruct H as [H0 H1].
  rewrite H1, H2. rewrite !Bool.andb_true_r. apply words_eqb_eq in H0. rewrite H0.
  destruct (tail_off p <? g_tlen g); [|reflexivity]. apply offs_in_forallb. apply pad_words_offs. Qed.

(* the vectored offer (in fact every offer / claim / bulk offer) writes nothing outside the range claimed for the message *)
Theorem twin_inside_model m rv s n off o s0 r0 n0 off0 :
  pub_inv n off s -> content_inv (ps_log s) n off -> mtu_aligned (ps_log s) -> op_ok (ps_log s) o -> is_append o = true ->
  twin_inside (geom_of (ps_log s) n0 off0) (op_len o) (pub_obs m s0 s r0)
              (pub_obs m s (fst (pub_step m rv s o)) (snd (pub_step m rv s o))) = true.
Proof. intros Hinv Hc Hal Hok Ha.
  assert (Hsame : forall e, e <> AdminAction ->
            twin_inside (geom_of (ps_log s) n0 off0) (op_len o) (pub_obs m s0 s r0) (pub_obs m s s (Err e)) = true).
  { intros e He. unfold twin_inside. rewrite c_res.
    assert (Hnw : no_words (o_dump (pub_obs m s s (Err e))) = true) by (unfold pub_obs, o_dump; cbn [fst snd]; apply no_words_same).
    assert (Hparts : forall i, 0 <= i < 3 -> d_part (o_dump (pub_obs m s s (Err e))) i = []).
    { intros i Hi. unfold pub_obs, o_dump. cbn [fst snd]. rewrite d_part_delta by assumption. apply words_diff_same. }
    pose proof (Z.mod_pos_bound (d_count (o_dump (pub_obs m s0 s r0))) 3 ltac:(lia)) as A0.
    pose proof (Z.mod_pos_bound (active (o_dump (pub_obs m s0 s r0)) + 1) 3 ltac:(lia)) as A1.
    pose proof (Z.mod_pos_bound (active (o_dump (pub_obs m s0 s r0)) + 2) 3 ltac:(lia)) as A2.
    destruct e; try exact Hnw; try (exfalso; apply He; reflexivity).
    rewrite !Hparts by (try assumption; unfold active; assumption). reflexivity. }
  destruct (pub_step_cases m rv s n off o Hinv Hok Ha) as [(len & _ & _ & E) | T].
  { rewrite E. cbn [fst snd]. apply Hsame. discriminate. }
  destruct (pub_step m rv s o) as [s' r] eqn:Es. cbn [fst snd].
  inversion T; subst.
  - apply Hsame. discriminate.
  - apply Hsame. unfold status_of. destruct (_ <=? _); [discriminate|]. destruct (l_connected _); discriminate.
  - apply Hsame. discriminate.
  - unfold twin_inside. rewrite c_res. rewrite (p_tail_off m s n off Hinv). rewrite required_geom. fold (op_required (ps_log s) o).
    eapply accept_appended_words; eassumption.
  - match goal with H : op_too_long _ _ = false |- _ => rename H into Htl end.
    assert (Hreq := required_ok s n off o Hinv Hok Ha Htl).
    assert (Hne : s' <> s) by (eapply trip_changes; [exact Hinv| |left; eassumption]; lia).
    pose proof (oracle_words_trip2 m rv s n off o s0 r0 n0 off0 AdminAction Hinv Hc Hok Ha) as Htw.
    rewrite Es in Htw. cbn [fst snd] in Htw. specialize (Htw eq_refl Hne).
    unfold twin_inside. rewrite c_res. apply tripped_inside in Htw. exact Htw.
  - match goal with H : op_too_long _ _ = false |- _ => rename H into Htl end.
    assert (Hreq := required_ok s n off o Hinv Hok Ha Htl).
    assert (Hne : s' <> s) by (eapply trip_changes; [exact Hinv| |right; eassumption]; lia).
    pose proof (oracle_words_trip2 m rv s n off o s0 r0 n0 off0 MaxPositionExceeded Hinv Hc Hok Ha) as Htw.
    rewrite Es in Htw. cbn [fst snd] in Htw. specialize (Htw eq_refl Hne).
    unfold twin_inside. rewrite c_res. apply tripped_inside in Htw. exact Htw.
Qed.

(* the whole twin predicate, from every state reachable under the cleaning contract *)
Theorem holds_twin_model m rv s bufs s0 r0 n0 off0 : creachable m rv s -> total bufs <= 1073741824 ->
  holds_twin (geom_of (ps_log s) n0 off0) (total bufs) (pub_obs m s0 s r0)
             (pub_obs m s (fst (pub_step m rv s (Bulk bufs))) (snd (pub_step m rv s (Bulk bufs))))
             (pub_obs m s (fst (pub_step m rv s (Offer (concat bufs)))) (snd (pub_step m rv s (Offer (concat bufs))))) = true.
Proof. intros Hr Ht. destruct (creachable_inv m rv s Hr) as (n & off & Hinv & Hc & Hal).
  unfold holds_twin. destruct (twin_equal_model m rv s bufs (creachable_reachable m rv s Hr) Ht) as [_ ->].
  apply (twin_inside_model m rv s n off (Bulk bufs) s0 r0 n0 off0 Hinv Hc Hal Ht eq_refl). Qed.

(* ---- the exclusive appender's vectored append from the hand-over state (case kind xapp) ---- *)
Lemma xapp_obs_delta l a : xapp_obs l (Ok a) = (Ok (a_result a), log_delta l (a_log a)). Proof. reflexivity. Qed.

Theorem holds_xapp_model m rv h bufs :
  handover_ok h -> h_off0 h mod 32 = 0 -> total bufs <= h_mtu h - 32 ->
  let l := handover_log h in
  let idx := index_by_term_count (h_n0 h) in
  let tid := wrap32 (h_init h + h_n0 h) in
  holds_xapp (geom_of_handover h) (total bufs)
             (xapp_obs l (eta_append_unfragmented_bulk m rv l idx tid (h_off0 h) bufs (total bufs)))
             (xapp_obs l (eta_append_unfragmented m rv l idx tid (h_off0 h) (concat bufs))) = true.
Proof. intros Hh Ho32 Hlen. cbv zeta. rewrite eta_unfrag_bulk_eq.
  pose proof Hh as (Hg & Hn & Ho).
  pose proof (handed_over_inv (h_init h) (h_tlen h) (h_mtu h) (h_session h) (h_stream h) (h_n0 h) (h_off0 h) Hg Hn Ho) as Hinv.
  pose proof (pi_legal _ _ _ Hinv) as Hleg. cbn [ps_log pub_init] in Hleg. fold (handover_log h) in Hleg.
  pose proof (legal_tlen _ Hleg) as [Htl _]. pose proof (legal_mpl _ Hleg) as (Hm1 & Hm2 & Hm3 & Hm4).
  change (l_tlen (handover_log h)) with (h_tlen h) in *.
  assert (Hmpl : max_payload_length (handover_log h) = h_mtu h - 32) by reflexivity. rewrite Hmpl in *.
  assert (Hd : h_tlen h / 8 <= h_tlen h) by (apply Z.div_le_upper_bound; lia).
  pose proof (mod3_range (h_n0 h)) as M0. pose proof (mod3_range (h_n0 h + 1)) as M1. pose proof (mod3_range (h_n0 h + 2)) as M2.
  pose proof (mod3_distinct (h_n0 h)) as (D1 & D2 & D3). destruct (mod3_succ (h_n0 h)) as [S1 S2].
  rewrite index_by_term_count_nonneg by assumption.
  pose proof (total_nonneg bufs) as Ht0. fold (total bufs) in *.
  set (msg := concat bufs). assert (Hz : zlen msg = total bufs) by reflexivity.
  pose proof (align_bounds (total bufs + 32) ltac:(lia)) as [Hab _].
  assert (Hcontent : term_end (part (handover_log h) (h_n0 h mod 3)) = h_off0 h /\ spans_nonneg (part (handover_log h) (h_n0 h mod 3))).
  { assert (Hp : part (handover_log h) (h_n0 h mod 3) = if 0 <? h_off0 h then [Unknown (h_off0 h)] else []).
    { unfold handover_log, handed_over. cbv zeta. assert (Hc : h_n0 h mod 3 = 0 \/ h_n0 h mod 3 = 1 \/ h_n0 h mod 3 = 2) by lia.
      destruct Hc as [-> | [-> | ->]]; reflexivity. }
    rewrite Hp. destruct (0 <? h_off0 h) eqn:E; cbn [term_end entry_span]; (split; [lia|]); repeat constructor. cbn [entry_span]. lia. }
  destruct Hcontent as [Hend Hsp].
  unfold eta_append_unfragmented. rewrite Hz. rewrite unfrag_lengths_ok by lia. cbn [bind].
  rewrite add32_ok by (unfold in_i32, two31; lia). cbn [bind].
  change (l_tlen (put_raw_tail (handover_log h) (h_n0 h mod 3) (wrap32 (h_init h + h_n0 h)) (h_off0 h + align (total bufs + 32) 32))) with (h_tlen h).
  change (l_tlen (handover_log h)) with (h_tlen h).
  unfold holds_xapp, geom_of_handover. cbn [g_off0 g_n0].
  destruct (h_tlen h <? h_off0 h + align (total bufs + 32) 32) eqn:Efit.
  - (* does not fit: at most the padding header *)
    unfold excl_end_of_log. rewrite !xapp_obs_delta. cbn [fst snd a_result a_log].
    rewrite res_eqb_refl by exact I. rewrite dump_same_refl. cbn [andb].
    unfold TERM_APPENDER_FAILED, GenConsts.TERM_APPENDER_FAILED. cbn [Z.ltb Z.compare].
    rewrite S1, S2. rewrite !d_part_delta by assumption.
    unfold put_padding. change (l_tlen (put_raw_tail ?a ?b ?c ?d)) with (l_tlen a). change (l_tlen (handover_log h)) with (h_tlen h).
    destruct (h_off0 h <? h_tlen h) eqn:Eoff.
    + rewrite part_set_part_same by assumption. rewrite !part_set_part_other by auto.
      unfold put_raw_tail. rewrite !part_set_tail. rewrite !words_eqb_nil_same. rewrite !Bool.andb_true_r.
      rewrite (term_put_at _ _ _ Hend Hsp). unfold render_term. rewrite render_from_app. rewrite words_diff_appended.
      rewrite Z.add_0_l, Hend. unfold padding_entries. change (l_tlen (set_tail ?a ?b ?c)) with (l_tlen a).
      change (l_tlen (handover_log h)) with (h_tlen h). rewrite Eoff. cbn [render_from f_len f_body data_frame words_of_bytes].
      rewrite !app_nil_r. apply offs_in_forallb. apply offs_in_nonzero. rewrite HDR_eq. apply header_words_offs.
    + unfold put_raw_tail. rewrite !part_set_tail. rewrite !words_eqb_nil_same. rewrite words_diff_same. reflexivity.
  - (* fits: the one frame *)
    rewrite !xapp_obs_delta. cbn [fst snd a_result a_log].
    rewrite res_eqb_refl by exact I. rewrite dump_same_refl. cbn [andb].
    assert (Epos : (0 <? h_off0 h + align (total bufs + 32) 32) = true) by lia. rewrite Epos.
    rewrite S1, S2. rewrite !d_part_delta by assumption.
    rewrite part_set_part_same by assumption. rewrite !part_set_part_other by auto.
    unfold put_raw_tail. rewrite !part_set_tail. rewrite !words_eqb_nil_same. rewrite !Bool.andb_true_r.
    match goal with |- context [term_put _ _ ?es] =>
      assert (Hwf : Forall entry_wf es) by (constructor; [cbn [entry_wf data_frame f_len f_body]; rewrite HDR_eq; fold msg; lia|constructor]);
      destruct (appended_render _ _ es Hend Hsp Hwf) as [E1 E2]; rewrite E1;
      cbn [term_end entry_span data_frame f_len] in E2 end.
    rewrite FA_eq, Z.add_0_r in E2.
    unfold required, g_mpl. cbn [g_mtu]. rewrite HDR_eq, FA_eq.
    assert (El : (total bufs <=? h_mtu h - 32) = true) by lia. rewrite El.
    apply offs_in_forallb. exact E2.
Qed.
