(* C01, part 6: from the refinement to the statements.  The hand-over state is related to the empty abstract stream;
   every history that keeps the contract ends in a related pair (sys_run_rep); the four clauses of C01 are read off
   the relation. *)
Require Import V.Base.MachineInt.
Require Import V.Generated.GenConsts.
Require Import V.Model.Descriptor.
Require Import V.Model.LogBase.
Require Import V.Model.Appender.
Require Import V.Model.Publication.
Require Import V.Model.ExclPublication.
Require Import V.Model.Reader.
Require Import V.Model.Image.
Require Import V.Model.Assembler.
Require Import V.Model.StreamSys.
Require Import V.Spec.Stream.
Require Import V.Proofs.DescriptorProofs.
Require Import V.Proofs.AppenderProofs.
Require Import V.Proofs.PublicationProofs.
Require Import V.Proofs.C04Proofs.
Require Import V.Proofs.ReaderProofs.
Require Import V.Proofs.StreamFrames.
Require Import V.Proofs.StreamLog.
Require Import V.Proofs.StreamHist.
Require Import V.Proofs.StreamRefine.
Require Import V.Proofs.StreamShared.
Require Import V.Proofs.ExclPublicationProofs.
Require Import V.Proofs.StreamExcl.
From Coq Require Import ZifyBool.
Open Scope Z_scope.

(* ---- histories ---- *)
Lemma sys_run_app F m rv : forall a b s, sys_run F m rv s (a ++ b) = sys_run F m rv (sys_run F m rv s a) b.
Proof. induction a as [|o a IH]; intros b s; [reflexivity|]. cbn [app sys_run]. apply IH. Qed.

Lemma sys_events_app F m rv : forall a b s,
  sys_events F m rv s (a ++ b) = sys_events F m rv s a ++ sys_events F m rv (sys_run F m rv s a) b.
Proof. induction a as [|o a IH]; intros b s; [reflexivity|]. cbn [app sys_events sys_run]. f_equal. apply IH. Qed.

Lemma contract_app F m rv : forall a b s,
  contract F m rv s (a ++ b) = contract F m rv s a && contract F m rv (sys_run F m rv s a) b.
Proof. induction a as [|o a IH]; intros b s; [reflexivity|]. cbn [app contract sys_run]. rewrite IH, andb_assoc. reflexivity. Qed.

Lemma spec_run_app g sp a b : spec_run g sp (a ++ b) = spec_run g (spec_run g sp a) b.
Proof. unfold spec_run. apply fold_left_app. Qed.

(* ---- the abstract machine: a refused operation and an aborted claim add no fragment and accept nothing ---- *)
Lemma frags_pad_to_term_end g s : frags (pad_to_term_end g s) = [].
Proof. unfold pad_to_term_end. destruct (_ =? 0); reflexivity. Qed.

Lemma frags_pad_to_reported g s q : frags (pad_to_reported g s q) = [].
Proof. unfold pad_to_reported. destruct q; try reflexivity. destruct (_ <? _); reflexivity. Qed.

Lemma spec_refused g sp e :
  match e with
  | EvOffer _ (Ok _) _ | EvClaim _ (Ok _) _ | EvCommit _ | EvPoll _ => False
  | _ => True
  end ->
  sp_acc (spec_step g sp e) = sp_acc sp /\ sp_del (spec_step g sp e) = sp_del sp /\
  frags (sp_stream (spec_step g sp e)) = frags (sp_stream sp).
Proof. intros H. destruct e as [msg r q|len r q| | | |]; try contradiction; cbn [spec_step].
  - destruct r as [p|e| | |]; try contradiction; try (repeat split; reflexivity).
    destruct e; cbn [on_result sp_acc sp_del sp_stream]; repeat split; try reflexivity;
      rewrite frags_app, ?frags_pad_to_term_end, ?frags_pad_to_reported, app_nil_r; reflexivity.
  - destruct r as [p|e| | |]; try contradiction; try (repeat split; reflexivity).
    destruct e; cbn [on_result sp_acc sp_del sp_stream]; repeat split; try reflexivity;
      rewrite frags_app, ?frags_pad_to_term_end, ?frags_pad_to_reported, app_nil_r; reflexivity.
  - destruct (sp_open sp) as [[len p]|]; cbn [sp_acc sp_del sp_stream]; repeat split; try reflexivity.
    rewrite frags_app. cbn [frags]. apply app_nil_r.
  - repeat split; reflexivity. Qed.

Lemma is_prefix_full {A} (a ms : list A) : is_prefix (a ++ ms) a -> ms = [].
Proof. intros [r Hr]. apply (f_equal (@length A)) in Hr. rewrite !app_length in Hr. destruct ms; [reflexivity|]. cbn [length] in Hr. lia. Qed.

(* ---- the hand-over state ---- *)
Lemma handed_over_part init tlen mtu ses str n0 off0 i : 0 <= i < 3 ->
  part (handed_over init tlen mtu ses str n0 off0) i = if (i =? n0 mod 3) && (0 <? off0) then [Unknown off0] else [].
Proof. intros Hi. unfold handed_over, part. cbn [l_p0 l_p1 l_p2].
  assert (Hc : i = 0 \/ i = 1 \/ i = 2) by lia. destruct Hc as [-> | [-> | ->]]; reflexivity. Qed.

Section Top.
Variables (init tlen mtu ses str n0 off0 : Z).
Hypothesis Hgeo : geometry_ok init tlen mtu.
Hypothesis Hmtu32 : mtu mod 32 = 0.
Hypothesis Hn0 : 0 <= n0 < two31.
Hypothesis Hoff0 : 0 <= off0 <= tlen.
Hypothesis Hoff0al : off0 mod 32 = 0.

Let l0 := handed_over init tlen mtu ses str n0 off0.
Let gg := sgeom_of tlen mtu n0 off0.

Lemma l0_geom : geom_ok tlen mtu ses l0.
Proof. pose proof (handed_over_inv init tlen mtu ses str n0 off0 Hgeo Hn0 Hoff0) as [Hleg _ _ _ _ _ _ _].
  split; [exact Hleg|]. repeat split. Qed.

Lemma l0_log_rep : log_rep n0 off0 l0 n0 off0 (fun _ => []) None n0.
Proof. destruct Hgeo as (Hb & _). pose proof (mod3_range n0) as Hm.
  constructor.
  - exact Hb.
  - lia.
  - intros; constructor.
  - reflexivity.
  - intros k Hk. lia.
  - cbn [span_sum pend_span]. unfold start. rewrite Z.eqb_refl. lia.
  - unfold l0. cbn. lia.
  - exact Logic.I.
  - intros k Hk. assert (k = n0) by lia. subst k. unfold l0. rewrite handed_over_part by assumption.
    unfold term_image, pre. rewrite !Z.eqb_refl. cbn [map pend_entries app]. rewrite app_nil_r. reflexivity.
  - lia.
  - intros _. unfold l0. rewrite handed_over_part by (apply Z.mod_pos_bound; lia).
    pose proof (mod3_distinct n0) as (D1 & _). assert (E : ((n0 + 1) mod 3 =? n0 mod 3) = false) by lia. rewrite E. reflexivity. Qed.

Lemma init_core (F : flavour) (pinv : Z -> Z -> fl_state F -> Prop) (p : fl_state F) :
  ps_log (fl_pub F p) = l0 -> ps_claim (fl_pub F p) = ps_claim (fl_pub F p) -> pinv n0 off0 p ->
  sys_rep tlen mtu ses n0 off0 F pinv (mkSys p (image0 tlen n0 off0 ses) [] false) spec0.
Proof. intros Hl _ Hp.
  apply (SysRep tlen mtu ses n0 off0 F pinv _ spec0 n0 off0 (fun _ => []) None n0 0%nat []);
    cbn [sy_pub sy_img sy_asm sy_open]; unfold sys_log; cbn [sy_pub]; rewrite ?Hl.
  - exact Hp.
  - exact l0_geom.
  - exact l0_log_rep.
  - constructor; [cbn; lia| |reflexivity]. unfold boff, start. rewrite Z.eqb_refl. cbn [firstn span_sum image0 im_pos join_position].
    unfold l0, join_position. cbn [handed_over l_tlen]. ring.
  - constructor; try reflexivity; try constructor.
    unfold g, sgeom_of, pos_after, join_position. cbn [spec0 sp_stream pend_span span_of sg_p0 sg_tlen]. ring.
  - unfold l0, join_position. cbn [handed_over l_limit image0 im_pos]. unfold join_position. nia.
  - cbn [image0 im_pos]. unfold join_position. destruct Hgeo as ((bits & Hb & Ht) & _). pose proof (pow2_bounds bits ltac:(lia)). nia.
  - reflexivity. Qed.

Lemma init_rep_shared :
  sys_rep tlen mtu ses n0 off0 shared spinv (sys0_shared init tlen mtu ses str n0 off0) spec0.
Proof. unfold sys0_shared. apply init_core; [reflexivity|reflexivity|].
  exists off0. split; [apply handed_over_inv; assumption|]. cbn [pub_init ps_log handed_over l_tlen]. lia. Qed.

Lemma init_rep_exclusive :
  exists s0, sys0_exclusive init tlen mtu ses str n0 off0 = Ok s0 /\
             sys_rep tlen mtu ses n0 off0 exclusive xinv s0 spec0.
Proof. destruct (xpub_new_handed_over init tlen mtu ses str n0 off0 Hgeo Hn0 Hoff0) as (x & Hx & Hinv & Hlog & Hpos).
  unfold sys0_exclusive. rewrite Hx. cbn [bind]. eexists. split; [reflexivity|].
  apply init_core; [exact Hlog|reflexivity|]. split; [exact Hinv|].
  unfold xspec_pos in Hpos. rewrite (xi_begin _ _ Hinv), Hlog in Hpos. unfold l0 in *. cbn [handed_over l_tlen] in Hpos. lia. Qed.
End Top.

(* ---- the statements, for any publisher flavour that satisfies flavour_ok ---- *)
Section Fidelity.
Variables (tlen mtu ses n0 off0 : Z).
Hypothesis Hn0 : 0 <= n0.
Hypothesis Hoff0 : 0 <= off0.
Hypothesis Hoff0al : off0 mod 32 = 0.
Hypothesis Hmtu32 : mtu mod 32 = 0.
Variables (F : flavour) (pinv : Z -> Z -> fl_state F -> Prop).
Hypothesis FK : flavour_ok F pinv.
Variables (m : mode) (rv : Z -> Z -> list Z -> Z) (s0 : sys F).
Hypothesis H0 : sys_rep tlen mtu ses n0 off0 F pinv s0 spec0.

Let gg := sgeom_of tlen mtu n0 off0.

Definition final_spec (ops : list sop) : spec := spec_run gg spec0 (sys_events F m rv s0 ops).

Lemma run_rep ops : contract F m rv s0 ops = true ->
  sys_rep tlen mtu ses n0 off0 F pinv (sys_run F m rv s0 ops) (final_spec ops).
Proof. intros Hc. apply (sys_run_rep tlen mtu ses n0 off0 Hn0 Hoff0 Hoff0al Hmtu32 F pinv FK m rv ops s0 spec0 H0 Hc). Qed.

(* (1) delivered is a prefix of accepted; (3) every returned position was the position just after the message,
   is a multiple of 32, and the positions increase strictly *)
Theorem fidelity_generic ops : contract F m rv s0 ops = true ->
  let sp := final_spec ops in
  is_prefix (sp_del sp) (map fst (sp_acc sp)) /\
  sp_ok sp = true /\ Forall (fun mp => snd mp mod 32 = 0) (sp_acc sp) /\ increasing (map snd (sp_acc sp)).
Proof. intros Hc. cbv zeta. pose proof (run_rep ops Hc) as Hrep. split.
  - apply (rep_prefix tlen mtu ses n0 off0 F pinv _ _ Hrep).
  - destruct Hrep as [n off Fr pend k j D _ _ _ _ Hh _ _ _]. destruct Hh as [_ _ _ _ _ _ I L K]. auto. Qed.

(* (4) a poll with a positive fragment limit that leaves the subscriber where it was, with no claim open:
   everything accepted has been delivered and the two positions agree *)
Theorem drained_generic ops limit : contract F m rv s0 (ops ++ [SPoll limit]) = true -> 0 < limit ->
  let s1 := sys_run F m rv s0 ops in
  let s2 := sys_run F m rv s0 (ops ++ [SPoll limit]) in
  im_pos (sy_img s2) = im_pos (sy_img s1) -> sy_open s1 = false ->
  let sp := final_spec (ops ++ [SPoll limit]) in
  sp_del sp = map fst (sp_acc sp) /\
  fl_position F m (sy_pub s2) = (if ps_closed (fl_pub F (sy_pub s2)) then Err Closed else Ok (im_pos (sy_img s2))) /\
  im_pos (sy_img s2) = pos_after (sg_p0 gg) (sp_stream sp).
Proof. intros Hc Hlim. cbv zeta. rewrite sys_run_app. cbn [sys_run]. intros Hsame Hopen.
  rewrite contract_app in Hc. apply andb_prop in Hc as [Hc1 Hc2]. cbn [contract] in Hc2. rewrite andb_true_r in Hc2.
  pose proof (run_rep ops Hc1) as Hrep1.
  destruct (poll_drained tlen mtu ses n0 off0 Hn0 Hoff0 F pinv FK m rv _ _ limit Hrep1 Hlim Hsame Hopen) as (Hd & Hpos & Hend).
  pose proof (sys_step_rep tlen mtu ses n0 off0 Hn0 Hoff0 Hoff0al Hmtu32 F pinv FK m rv _ _ (SPoll limit) Hrep1 Hc2) as Hrep2.
  pose proof (rep_prefix tlen mtu ses n0 off0 F pinv _ _ Hrep2) as Hpre.
  unfold final_spec. rewrite sys_events_app, spec_run_app. cbn [sys_events]. unfold step_event in *.
  fold (final_spec ops) in *. set (s1 := sys_run F m rv s0 ops) in *.
  assert (Hpub : sy_pub (fst (sys_step F m rv s1 (SPoll limit))) = sy_pub s1).
  { cbn [sys_step]. destruct (image_poll _ _ _) as [[[[r ds] ws] im']| | | |]; try reflexivity.
    destruct (assemble _ _). reflexivity. }
  destruct (sys_step F m rv s1 (SPoll limit)) as [s2 x] eqn:Est. cbn [fst snd] in *. cbn [spec_run fold_left].
  destruct x as [[r ds] ms]. cbn [event_of spec_step sp_del sp_acc sp_stream] in *.
  rewrite Hd in Hpre. apply is_prefix_full in Hpre. rewrite Hpre, app_nil_r.
  split; [exact Hd|]. rewrite Hpub, Hsame. split; [exact Hpos|exact Hend]. Qed.
End Fidelity.

(* ---- shared Publication ---- *)
Definition handover_ok (init tlen mtu n0 off0 : Z) : Prop :=
  geometry_ok init tlen mtu /\ mtu mod 32 = 0 /\ 0 <= n0 < two31 /\ 0 <= off0 <= tlen /\ off0 mod 32 = 0.

Section SharedTop.
Variables (init tlen mtu ses str n0 off0 : Z) (m : mode) (rv : Z -> Z -> list Z -> Z).
Hypothesis HO : handover_ok init tlen mtu n0 off0.

Let s0 := sys0_shared init tlen mtu ses str n0 off0.
Let gg := sgeom_of tlen mtu n0 off0.

Theorem shared_fidelity ops : contract shared m rv s0 ops = true ->
  let sp := spec_run gg spec0 (sys_events shared m rv s0 ops) in
  is_prefix (sp_del sp) (map fst (sp_acc sp)) /\
  sp_ok sp = true /\ Forall (fun mp => snd mp mod 32 = 0) (sp_acc sp) /\ increasing (map snd (sp_acc sp)).
Proof. destruct HO as (Hg & Hm32 & Hn & Ho & Hal).
  apply (fidelity_generic tlen mtu ses n0 off0 ltac:(lia) ltac:(lia) Hal Hm32 shared spinv shared_flavour_ok m rv s0).
  apply init_rep_shared; assumption. Qed.

Theorem shared_drained ops limit : contract shared m rv s0 (ops ++ [SPoll limit]) = true -> 0 < limit ->
  let s1 := sys_run shared m rv s0 ops in
  let s2 := sys_run shared m rv s0 (ops ++ [SPoll limit]) in
  im_pos (sy_img s2) = im_pos (sy_img s1) -> sy_open s1 = false ->
  let sp := spec_run gg spec0 (sys_events shared m rv s0 (ops ++ [SPoll limit])) in
  sp_del sp = map fst (sp_acc sp) /\
  pub_position m (sy_pub s2) = (if ps_closed (sy_pub s2) then Err Closed else Ok (im_pos (sy_img s2))) /\
  im_pos (sy_img s2) = pos_after (sg_p0 gg) (sp_stream sp).
Proof. destruct HO as (Hg & Hm32 & Hn & Ho & Hal).
  apply (drained_generic tlen mtu ses n0 off0 ltac:(lia) ltac:(lia) Hal Hm32 shared spinv shared_flavour_ok m rv s0).
  apply init_rep_shared; assumption. Qed.
End SharedTop.

(* ---- ExclusivePublication ---- *)
Section ExclTop.
Variables (init tlen mtu ses str n0 off0 : Z) (m : mode) (rv : Z -> Z -> list Z -> Z).
Hypothesis HO : handover_ok init tlen mtu n0 off0.
Variable s0 : sys exclusive.
Hypothesis Hs0 : sys0_exclusive init tlen mtu ses str n0 off0 = Ok s0.

Let gg := sgeom_of tlen mtu n0 off0.

Lemma s0_rep : sys_rep tlen mtu ses n0 off0 exclusive xinv s0 spec0.
Proof. destruct HO as (Hg & Hm32 & Hn & Ho & Hal).
  destruct (init_rep_exclusive init tlen mtu ses str n0 off0 Hg Hn Ho) as (s & Hs & Hrep). congruence. Qed.

Theorem exclusive_fidelity ops : contract exclusive m rv s0 ops = true ->
  let sp := spec_run gg spec0 (sys_events exclusive m rv s0 ops) in
  is_prefix (sp_del sp) (map fst (sp_acc sp)) /\
  sp_ok sp = true /\ Forall (fun mp => snd mp mod 32 = 0) (sp_acc sp) /\ increasing (map snd (sp_acc sp)).
Proof. destruct HO as (Hg & Hm32 & Hn & Ho & Hal).
  apply (fidelity_generic tlen mtu ses n0 off0 ltac:(lia) ltac:(lia) Hal Hm32 exclusive xinv exclusive_flavour_ok m rv s0).
  exact s0_rep. Qed.

Theorem exclusive_drained ops limit : contract exclusive m rv s0 (ops ++ [SPoll limit]) = true -> 0 < limit ->
  let s1 := sys_run exclusive m rv s0 ops in
  let s2 := sys_run exclusive m rv s0 (ops ++ [SPoll limit]) in
  im_pos (sy_img s2) = im_pos (sy_img s1) -> sy_open s1 = false ->
  let sp := spec_run gg spec0 (sys_events exclusive m rv s0 (ops ++ [SPoll limit])) in
  sp_del sp = map fst (sp_acc sp) /\
  xpub_position m (sy_pub s2) = (if ps_closed (x_pub (sy_pub s2)) then Err Closed else Ok (im_pos (sy_img s2))) /\
  im_pos (sy_img s2) = pos_after (sg_p0 gg) (sp_stream sp).
Proof. destruct HO as (Hg & Hm32 & Hn & Ho & Hal).
  apply (drained_generic tlen mtu ses n0 off0 ltac:(lia) ltac:(lia) Hal Hm32 exclusive xinv exclusive_flavour_ok m rv s0).
  exact s0_rep. Qed.
End ExclTop.

Lemma exclusive_starts init tlen mtu ses str n0 off0 : handover_ok init tlen mtu n0 off0 ->
  exists s0, sys0_exclusive init tlen mtu ses str n0 off0 = Ok s0.
Proof. intros (Hg & Hm32 & Hn & Ho & Hal).
  destruct (init_rep_exclusive init tlen mtu ses str n0 off0 Hg Hn Ho) as (s & Hs & _). exists s. exact Hs. Qed.
