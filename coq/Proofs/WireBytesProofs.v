(* Lemmas about Model/WireBytes.v: little-endian codecs are inverse on the machine ranges,
   random access into concatenations, the field-list layout engine, read-over-write. *)
Require Import V.Base.MachineInt V.Model.WireBytes.
From Coq Require Import ZifyBool.
Open Scope Z_scope.

Lemma Zlength_nonneg {A} (l : list A) : 0 <= Zlength l.
Proof. rewrite Zlength_correct. lia. Qed.

Lemma Zlength_app {A} (a b : list A) : Zlength (a ++ b) = Zlength a + Zlength b.
Proof. rewrite !Zlength_correct, app_length. lia. Qed.

Lemma Zlength_le_enc n v : Zlength (le_enc n v) = Z.of_nat n.
Proof. revert v. induction n; intros v; cbn [le_enc].
  - reflexivity.
  - rewrite Zlength_cons, IHn. lia. Qed.

Lemma Zlength_enc_i32 v : Zlength (enc_i32 v) = 4.
Proof. unfold enc_i32. rewrite Zlength_le_enc. reflexivity. Qed.
Lemma Zlength_enc_i64 v : Zlength (enc_i64 v) = 8.
Proof. unfold enc_i64. rewrite Zlength_le_enc. reflexivity. Qed.

Lemma le_dec_le_enc n v : le_dec (le_enc n v) = v mod 256 ^ Z.of_nat n.
Proof. revert v. induction n; intros v.
  - cbn [le_enc le_dec]. change (256 ^ Z.of_nat 0) with 1. rewrite Z.mod_1_r. reflexivity.
  - cbn [le_enc le_dec]. rewrite IHn.
    replace (Z.of_nat (S n)) with (1 + Z.of_nat n) by lia.
    rewrite Z.pow_add_r by lia. change (256 ^ 1) with 256.
    assert (Hp : 0 < 256 ^ Z.of_nat n) by (apply Z.pow_pos_nonneg; lia).
    rewrite (Z.rem_mul_r v 256 (256 ^ Z.of_nat n)) by lia. reflexivity. Qed.

Lemma all_bytes_le_enc n v : all_bytes (le_enc n v) = true.
Proof. revert v. induction n; intros v; cbn [le_enc all_bytes forallb]; [reflexivity|].
  fold (all_bytes (le_enc n (v / 256))). rewrite IHn.
  pose proof (Z.mod_pos_bound v 256 ltac:(lia)). unfold is_byte. lia. Qed.

Lemma dec_enc_i32 v : in_i32 v = true -> dec_i32 (enc_i32 v) = v.
Proof. intros H. unfold dec_i32, enc_i32. rewrite le_dec_le_enc.
  change (256 ^ Z.of_nat 4) with 4294967296.
  unfold in_i32, two31 in H. unfold wrap32, two31, two32.
  pose proof (Z.div_mod v 4294967296 ltac:(lia)).
  pose proof (Z.mod_pos_bound v 4294967296 ltac:(lia)).
  pose proof (Z.div_mod (v mod 4294967296 + 2147483648) 4294967296 ltac:(lia)).
  pose proof (Z.mod_pos_bound (v mod 4294967296 + 2147483648) 4294967296 ltac:(lia)).
  lia. Qed.

Lemma dec_enc_i64 v : in_i64 v = true -> dec_i64 (enc_i64 v) = v.
Proof. intros H. unfold dec_i64, enc_i64. rewrite le_dec_le_enc.
  change (256 ^ Z.of_nat 8) with 18446744073709551616.
  unfold in_i64, two63 in H. unfold wrap64, two63, two64.
  pose proof (Z.div_mod v 18446744073709551616 ltac:(lia)).
  pose proof (Z.mod_pos_bound v 18446744073709551616 ltac:(lia)).
  pose proof (Z.div_mod (v mod 18446744073709551616 + 9223372036854775808) 18446744073709551616 ltac:(lia)).
  pose proof (Z.mod_pos_bound (v mod 18446744073709551616 + 9223372036854775808) 18446744073709551616 ltac:(lia)).
  lia. Qed.

(* ---- slices of concatenations ---- *)
Lemma to_nat_Zlength {A} (l : list A) : Z.to_nat (Zlength l) = length l.
Proof. rewrite Zlength_correct. apply Nat2Z.id. Qed.

Lemma slice_here a r : slice (a ++ r) 0 (Zlength a) = a.
Proof. unfold slice. change (Z.to_nat 0) with O. cbn [skipn].
  rewrite to_nat_Zlength. rewrite firstn_app, Nat.sub_diag, firstn_all. cbn [firstn]. apply app_nil_r. Qed.

Lemma slice_skip pre r off len : 0 <= off -> slice (pre ++ r) (Zlength pre + off) len = slice r off len.
Proof. intros H. unfold slice. f_equal.
  rewrite Z2Nat.inj_add by (try apply Zlength_nonneg; lia). rewrite to_nat_Zlength.
  rewrite skipn_app. rewrite skipn_all2 by (apply Nat.le_add_r). cbn [app]. f_equal.
  rewrite Nat.add_comm. apply Nat.add_sub. Qed.

Lemma slice_here' a r n : n = Zlength a -> slice (a ++ r) 0 n = a.
Proof. intros ->. apply slice_here. Qed.

Lemma get_i32_here v r : in_i32 v = true -> get_i32 (enc_i32 v ++ r) 0 = v.
Proof. intros H. unfold get_i32. rewrite slice_here' by (rewrite Zlength_enc_i32; reflexivity).
  apply dec_enc_i32, H. Qed.
Lemma get_i64_here v r : in_i64 v = true -> get_i64 (enc_i64 v ++ r) 0 = v.
Proof. intros H. unfold get_i64. rewrite slice_here' by (rewrite Zlength_enc_i64; reflexivity).
  apply dec_enc_i64, H. Qed.
Lemma get_i32_skip pre r off : 0 <= off -> get_i32 (pre ++ r) (Zlength pre + off) = get_i32 r off.
Proof. intros. unfold get_i32. rewrite slice_skip by assumption. reflexivity. Qed.
Lemma get_i64_skip pre r off : 0 <= off -> get_i64 (pre ++ r) (Zlength pre + off) = get_i64 r off.
Proof. intros. unfold get_i64. rewrite slice_skip by assumption. reflexivity. Qed.

Lemma Zlength_zeros n : Zlength (zeros n) = Z.max 0 n.
Proof. unfold zeros. rewrite Zlength_correct, repeat_length. lia. Qed.

Lemma Zlength_enc_str s : Zlength (enc_str s) = 4 + Zlength s.
Proof. unfold enc_str. rewrite Zlength_app, Zlength_enc_i32. reflexivity. Qed.

(* ---- alignment ---- *)
Lemma align4_pad v : 0 <= v -> align4 v = v + pad4 v.
Proof. intros H. unfold align4, align, pad4.
  pose proof (Z.div_mod (v + (4 - 1)) 4 ltac:(lia)). pose proof (Z.mod_pos_bound (v + (4 - 1)) 4 ltac:(lia)).
  pose proof (Z.div_mod v 4 ltac:(lia)). pose proof (Z.mod_pos_bound v 4 ltac:(lia)).
  pose proof (Z.div_mod (4 - v mod 4) 4 ltac:(lia)). pose proof (Z.mod_pos_bound (4 - v mod 4) 4 ltac:(lia)).
  lia. Qed.
Lemma pad4_range v : 0 <= pad4 v < 4.
Proof. unfold pad4. apply Z.mod_pos_bound. lia. Qed.
Lemma align4_mod v : 0 <= v -> (align4 v) mod 4 = 0.
Proof. intros. unfold align4, align. apply Z.mod_mul. lia. Qed.

(* ---- field lists ---- *)
Lemma Zlength_fenc f : Zlength (fenc f) = fsize f.
Proof. destruct f; cbn [fenc fsize].
  - apply Zlength_enc_i32. - apply Zlength_enc_i64. - apply Zlength_enc_str. - reflexivity. - apply Zlength_zeros. Qed.

Lemma fsize_nonneg f : 0 <= fsize f.
Proof. rewrite <- Zlength_fenc. apply Zlength_nonneg. Qed.

Lemma foff_nonneg fs k : 0 <= foff fs k.
Proof. revert k. induction fs; intros [|k]; cbn [foff]; try lia.
  pose proof (fsize_nonneg a). pose proof (IHfs k). lia. Qed.

Lemma Zlength_fencs fs : Zlength (fencs fs) = fsizes fs.
Proof. unfold fsizes. induction fs; cbn [fencs foff length]; [reflexivity|].
  rewrite Zlength_app, Zlength_fenc, IHfs. reflexivity. Qed.

Lemma slice_field fs k f :
  nth_error fs k = Some f -> slice (fencs fs) (foff fs k) (fsize f) = fenc f.
Proof. revert k. induction fs; intros [|k] H; cbn [nth_error] in H; try discriminate.
  - inversion H; subst. cbn [fencs foff]. apply slice_here'. symmetry. apply Zlength_fenc.
  - cbn [fencs foff]. rewrite <- Zlength_fenc. rewrite slice_skip by apply foff_nonneg. apply IHfs, H. Qed.

(* a read at offset (foff fs k + d) of length n inside field k *)
Lemma slice_in_field fs k f d n :
  nth_error fs k = Some f -> 0 <= d -> 0 <= n -> d + n <= fsize f ->
  slice (fencs fs) (foff fs k + d) n = slice (fenc f) d n.
Proof. revert k. induction fs; intros [|k] H Hd Hn Hs; cbn [nth_error] in H; try discriminate.
  - inversion H; subst. cbn [fencs foff]. rewrite Z.add_0_l. unfold slice.
    rewrite skipn_app. rewrite firstn_app.
    assert (E : (Z.to_nat n - length (skipn (Z.to_nat d) (fenc f)) = 0)%nat).
    { rewrite skipn_length. rewrite <- to_nat_Zlength, Zlength_fenc. lia. }
    rewrite E. cbn [firstn]. apply app_nil_r.
  - cbn [fencs foff]. rewrite <- Zlength_fenc. rewrite <- Z.add_assoc.
    rewrite slice_skip by (pose proof (foff_nonneg fs k); lia). apply IHfs; assumption. Qed.

Lemma fencs_get_i32 fs k v :
  nth_error fs k = Some (FI32 v) -> in_i32 v = true -> get_i32 (fencs fs) (foff fs k) = v.
Proof. intros H Hv. unfold get_i32. change 4 with (fsize (FI32 v)). rewrite (slice_field _ _ _ H).
  apply dec_enc_i32, Hv. Qed.
Lemma fencs_get_i64 fs k v :
  nth_error fs k = Some (FI64 v) -> in_i64 v = true -> get_i64 (fencs fs) (foff fs k) = v.
Proof. intros H Hv. unfold get_i64. change 8 with (fsize (FI64 v)). rewrite (slice_field _ _ _ H).
  apply dec_enc_i64, Hv. Qed.

Lemma slice_all a : slice a 0 (Zlength a) = a.
Proof. rewrite <- (app_nil_r a) at 1. apply slice_here. Qed.

Lemma fencs_get_strlen fs k s :
  nth_error fs k = Some (FStr s) -> in_i32 (Zlength s) = true -> get_i32 (fencs fs) (foff fs k) = Zlength s.
Proof. intros H Hv. unfold get_i32. replace (foff fs k) with (foff fs k + 0) by lia.
  rewrite (slice_in_field _ _ _ 0 4 H) by (cbn [fsize]; pose proof (Zlength_nonneg s); lia).
  cbn [fenc]. unfold enc_str. rewrite slice_here' by (rewrite Zlength_enc_i32; reflexivity).
  apply dec_enc_i32, Hv. Qed.
Lemma fencs_get_strbody fs k s :
  nth_error fs k = Some (FStr s) -> slice (fencs fs) (foff fs k + 4) (Zlength s) = s.
Proof. intros H. rewrite (slice_in_field _ _ _ 4 (Zlength s) H) by (cbn [fsize]; pose proof (Zlength_nonneg s); lia).
  cbn [fenc]. unfold enc_str. rewrite <- (Zlength_enc_i32 (Zlength s)) at 1.
  replace (Zlength (enc_i32 (Zlength s))) with (Zlength (enc_i32 (Zlength s)) + 0) by lia.
  rewrite slice_skip by lia. apply slice_all. Qed.
Lemma fencs_get_raw fs k s :
  nth_error fs k = Some (FRaw s) -> slice (fencs fs) (foff fs k) (Zlength s) = s.
Proof. intros H. change (Zlength s) with (fsize (FRaw s)). rewrite (slice_field _ _ _ H). reflexivity. Qed.

Lemma slice_pad_exact bs off len : Zlength (slice bs off len) = len -> slice_pad bs off len = slice bs off len.
Proof. intros H. unfold slice_pad. rewrite H, Z.sub_diag. unfold zeros. cbn [Z.to_nat repeat]. apply app_nil_r. Qed.

(* ---- writes into a buffer laid out as a field list ---- *)
Lemma put_bytes_here old r new : Zlength old = Zlength new -> put_bytes (old ++ r) 0 new = new ++ r.
Proof. intros H. unfold put_bytes. change (Z.to_nat 0) with O. cbn [firstn app].
  rewrite Z.add_0_l, <- H, to_nat_Zlength. rewrite skipn_app, skipn_all, Nat.sub_diag. reflexivity. Qed.

Lemma to_nat_len_add {A} (a : list A) x : 0 <= x -> Z.to_nat (Zlength a + x) = (length a + Z.to_nat x)%nat.
Proof. intros. rewrite Z2Nat.inj_add by (try apply Zlength_nonneg; lia). rewrite to_nat_Zlength. reflexivity. Qed.

Lemma put_bytes_skip a r off new : 0 <= off -> put_bytes (a ++ r) (Zlength a + off) new = a ++ put_bytes r off new.
Proof. intros H. unfold put_bytes. pose proof (Zlength_nonneg new) as Hn.
  rewrite <- Z.add_assoc. rewrite (to_nat_len_add a off) by lia. rewrite (to_nat_len_add a (off + Zlength new)) by lia.
  rewrite firstn_app. rewrite firstn_all2 by (apply Nat.le_add_r).
  replace (length a + Z.to_nat off - length a)%nat with (Z.to_nat off) by (rewrite Nat.add_comm; symmetry; apply Nat.add_sub).
  rewrite <- app_assoc. f_equal. f_equal. f_equal.
  rewrite skipn_app. rewrite skipn_all2 by (apply Nat.le_add_r). cbn [app]. f_equal.
  rewrite Nat.add_comm. apply Nat.add_sub. Qed.

Lemma put_field fs k g f :
  nth_error fs k = Some g -> fsize g = fsize f ->
  put_bytes (fencs fs) (foff fs k) (fenc f) = fencs (upd k f fs).
Proof. revert k. induction fs; intros [|k] H E; cbn [nth_error] in H; try discriminate.
  - inversion H; subst. cbn [fencs foff upd]. apply put_bytes_here. rewrite !Zlength_fenc. exact E.
  - cbn [fencs foff upd]. rewrite <- Zlength_fenc. rewrite put_bytes_skip by apply foff_nonneg.
    f_equal. apply IHfs; assumption. Qed.

Lemma nth_error_upd_same {A} k (x : A) l : (k < length l)%nat -> nth_error (upd k x l) k = Some x.
Proof. revert k. induction l; intros [|k] H; cbn [length] in H; try lia; cbn [upd nth_error].
  - reflexivity. - apply IHl. lia. Qed.

Lemma fencs_app a b : fencs (a ++ b) = fencs a ++ fencs b.
Proof. induction a; cbn [app fencs]. - reflexivity. - rewrite IHa. apply app_assoc. Qed.

Lemma slice_prefix a b : slice (fencs (a ++ b)) 0 (fsizes a) = fencs a.
Proof. rewrite fencs_app. rewrite <- Zlength_fencs. apply slice_here. Qed.

Lemma zeros_app a b : 0 <= a -> 0 <= b -> zeros (a + b) = zeros a ++ zeros b.
Proof. intros. unfold zeros. rewrite Z2Nat.inj_add by lia. apply repeat_app. Qed.

Lemma get_lstr_len bs off : Zlength (slice bs off 0) = 0.
Proof. unfold slice. change (Z.to_nat 0) with O. reflexivity. Qed.

Lemma field_fits fs k f : nth_error fs k = Some f -> foff fs k + fsize f <= fsizes fs.
Proof. unfold fsizes. revert k. induction fs; intros [|k] H; cbn [nth_error] in H; try discriminate.
  - inversion H; subst. cbn [foff length]. pose proof (foff_nonneg fs (length fs)). lia.
  - cbn [foff length]. specialize (IHfs k H). lia. Qed.


Lemma foff_succ fs k f : nth_error fs k = Some f -> foff fs (S k) = foff fs k + fsize f.
Proof. revert k. induction fs; intros [|k] H; cbn [nth_error] in H; try discriminate.
  - inversion H; subst. cbn [foff]. destruct fs; cbn [foff]; lia.
  - change (foff (a :: fs) (S (S k))) with (fsize a + foff fs (S k)).
    change (foff (a :: fs) (S k)) with (fsize a + foff fs k). rewrite (IHfs k H). lia. Qed.
