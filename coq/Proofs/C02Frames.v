(* The frames of a claim as the oracle sees them: every slot a publisher commits is well inside its field
   widths (so the dump decodes back to it), the fragments of one message reassemble to the message, and the
   claims of one generation - laid back to back by the invariant - give one list of frames laid back to back. *)
Require Import V.Base.MachineInt.
Require Import V.Generated.GenConsts.
Require Import V.Model.LogBase.
Require Import V.Model.Descriptor.
Require Import V.Model.Sched.
Require Import V.Model.AppenderThreads.
Require Import V.Oracle.C02Oracle.
Require Import V.Proofs.TailArith.
Require Import V.Proofs.FragArith.
Require Import V.Proofs.AppenderInv.
Require Import V.Proofs.AppenderLemmas.
Require Import V.Proofs.C02Quiescent.
Require Import V.Proofs.C02Words.
Require Import V.Proofs.C02Render.
From Coq Require Import ZifyBool.
Open Scope Z_scope.

Lemma firstn_skipn_firstn {A} (l : list A) : forall n k, firstn n l ++ firstn k (skipn n l) = firstn (n + k) l.
Proof. induction l as [|x r IH]; intros n k.
  - rewrite skipn_nil, !firstn_nil. reflexivity.
  - destruct n as [|n]; [reflexivity|]. cbn [firstn skipn plus app]. f_equal. apply IH. Qed.

Lemma Forall_firstn {A} (P : A -> Prop) n (l : list A) : Forall P l -> Forall P (firstn n l).
Proof. revert n. induction l as [|x r IH]; intros n H; destruct n; cbn [firstn]; try constructor; inversion H; subst; auto. Qed.
Lemma Forall_skipn {A} (P : A -> Prop) n (l : list A) : Forall P l -> Forall P (skipn n l).
Proof. revert n. induction l as [|x r IH]; intros n H; destruct n; cbn [skipn]; try assumption. inversion H; subst. auto. Qed.

Lemma flag_unfrag : (Z.land F_UNFRAG F_BEGIN =? F_BEGIN) = true /\ (Z.land F_UNFRAG F_END =? F_END) = true.
Proof. split; reflexivity. Qed.
Lemma flag_begin : (Z.land F_BEGIN F_BEGIN =? F_BEGIN) = true /\ (Z.land F_BEGIN F_END =? F_END) = false.
Proof. split; reflexivity. Qed.
Lemma flag_end : (Z.land (Z.lor 0 F_END) F_BEGIN =? F_BEGIN) = false /\ (Z.land (Z.lor 0 F_END) F_END =? F_END) = true.
Proof. split; reflexivity. Qed.
Lemma flag_mid : (Z.land 0 F_BEGIN =? F_BEGIN) = false /\ (Z.land 0 F_END =? F_END) = false.
Proof. split; reflexivity. Qed.

Ltac consts := unfold F_BEGIN, F_END, F_UNFRAG, T_DATA, T_PAD, GenConsts.BEGIN_FRAG, GenConsts.END_FRAG, GenConsts.UNFRAGMENTED,
  GenConsts.HDR_TYPE_DATA, GenConsts.HDR_TYPE_PAD, GenConsts.CURRENT_VERSION in *.

Section Frames.
  Variable c : cfg.
  Hypothesis W : wf_cfg c.
  Variable tid : Z.
  Variable msg : list Z.
  Hypothesis MB : Forall byte msg.

  Lemma st6_fields foff rem fl :
    let sl := st6 c tid msg foff rem fl in
    s_len sl = flen c rem /\ s_ver sl = GenConsts.CURRENT_VERSION /\ s_type sl = T_DATA /\ s_resv sl = 0 /\
    s_body sl = fbody c msg rem /\
    s_flags sl = (if is_fragmented c (zlen msg) then fflags c rem fl else F_UNFRAG).
  Proof. cbn zeta. unfold st6, st5, st4, st3, st2, st1. destruct (is_fragmented c (zlen msg)); cbn; repeat split; reflexivity. Qed.

  Lemma fbody_length rem : 0 <= rem <= zlen msg -> length (fbody c msg rem) = Z.to_nat (fbytes c rem).
  Proof. intros Hr. pose proof (mp_pos c W) as [Hmp _]. unfold fbody. rewrite firstn_length, skipn_length. unfold fbytes, zlen in *. lia. Qed.

  Lemma st6_good foff rem fl : 0 <= rem <= zlen msg -> fl = F_BEGIN \/ fl = 0 -> good_slot (st6 c tid msg foff rem fl).
  Proof. intros Hr Hfl. pose proof (mp_pos c W) as [Hmp _].
    destruct (st6_fields foff rem fl) as (E1 & E2 & E3 & E4 & E5 & E6).
    constructor; rewrite ?E1, ?E2, ?E3, ?E4, ?E5, ?E6.
    - unfold flen, fbytes. change HDR with 32. lia.
    - unfold byte. consts. lia.
    - unfold byte, fflags. destruct (is_fragmented c (zlen msg)); [|consts; lia].
      destruct (rem <=? max_payload c); destruct Hfl as [-> | ->]; consts; cbn [Z.lor Pos.lor]; lia.
    - consts. lia.
    - reflexivity.
    - unfold fbody. apply Forall_firstn, Forall_skipn. assumption.
    - rewrite fbody_length by assumption. unfold flen, fbytes. lia.
    - intros X. discriminate X. Qed.

  (* loop state of the fragment loop when `rem` bytes are left *)
  Definition acc_of (rem : Z) : option (list Z) :=
    if rem =? zlen msg then None else Some (firstn (Z.to_nat (zlen msg - rem)) msg).
  Definition fl_of (rem : Z) : Z := if rem =? zlen msg then F_BEGIN else 0.

  Lemma frags_good : forall fuel foff rem, 0 <= rem <= zlen msg -> forall o sl,
    In (o, sl) (frags_from c tid msg fuel foff rem (fl_of rem)) -> good_slot sl /\ s_type sl = T_DATA.
  Proof. pose proof (mp_pos c W) as [Hmp _].
    assert (A : forall foff rem, 0 <= rem <= zlen msg -> good_slot (st6 c tid msg foff rem (fl_of rem)) /\ s_type (st6 c tid msg foff rem (fl_of rem)) = T_DATA).
    { intros foff rem Hr. split; [apply st6_good; [assumption | unfold fl_of; destruct (_ =? _); auto] | apply st6_fields]. }
    induction fuel as [|f IH]; intros foff rem Hr o sl Hin; cbn [frags_from] in Hin.
    - destruct (_ <=? 0); destruct Hin as [E | []]; inversion E; subst; apply A; assumption.
    - destruct (rem - fbytes c rem <=? 0) eqn:E.
      + destruct Hin as [E' | []]; inversion E'; subst; apply A; assumption.
      + destruct Hin as [E' | Hin]; [inversion E'; subst; apply A; assumption|].
        assert (Hr' : 0 <= rem - fbytes c rem <= zlen msg) by (unfold fbytes in *; lia).
        assert (Hfl : fl_of (rem - fbytes c rem) = 0).
        { unfold fl_of. replace (rem - fbytes c rem =? zlen msg) with false; [reflexivity|]. unfold fbytes in *. lia. }
        rewrite <- Hfl in Hin. eapply IH; eauto. Qed.

  (* the fragments written from loop state `rem` on complete the message *)
  Lemma reassemble_frags ws rest : forall fuel foff rem,
    0 <= rem <= zlen msg -> (rem < zlen msg -> 0 < rem /\ is_fragmented c (zlen msg) = true) ->
    (Z.to_nat rem <= fuel)%nat ->
    (forall o sl, In (o, sl) (frags_from c tid msg fuel foff rem (fl_of rem)) ->
       bytes_from ws (o + HDR) (length (s_body sl)) = s_body sl) ->
    reassemble ws (map dec (frags_from c tid msg fuel foff rem (fl_of rem)) ++ rest) (acc_of rem) =
    match reassemble ws rest None with Some l => Some ((foff + span c fuel rem, msg) :: l) | None => None end.
  Proof. pose proof (mp_pos c W) as [Hmp _].
    (* one frame: what reassemble does with it *)
    assert (ONE : forall foff rem tl, 0 <= rem <= zlen msg ->
              bytes_from ws (foff + HDR) (length (s_body (st6 c tid msg foff rem (fl_of rem)))) = s_body (st6 c tid msg foff rem (fl_of rem)) ->
              reassemble ws (dec (foff, st6 c tid msg foff rem (fl_of rem)) :: tl) (acc_of rem) =
              let body := fbody c msg rem in
              let b := Z.land (s_flags (st6 c tid msg foff rem (fl_of rem))) F_BEGIN =? F_BEGIN in
              let e := Z.land (s_flags (st6 c tid msg foff rem (fl_of rem))) F_END =? F_END in
              match acc_of rem, b, e with
              | None, true, true => match reassemble ws tl None with Some l => Some ((foff + align (flen c rem) FA, body) :: l) | None => None end
              | None, true, false => reassemble ws tl (Some body)
              | Some a, false, false => reassemble ws tl (Some (a ++ body))
              | Some a, false, true => match reassemble ws tl None with Some l => Some ((foff + align (flen c rem) FA, a ++ body) :: l) | None => None end
              | _, _, _ => None
              end).
    { intros foff rem tl Hr Hb. destruct (st6_fields foff rem (fl_of rem)) as (E1 & E2 & E3 & E4 & E5 & E6).
      unfold dec. cbn [fst snd reassemble]. rewrite E1, E3. replace (T_DATA =? T_PAD) with false by reflexivity.
      replace (Z.to_nat (flen c rem - HDR)) with (length (s_body (st6 c tid msg foff rem (fl_of rem)))).
      - rewrite Hb, E5. reflexivity.
      - rewrite E5, fbody_length by assumption. unfold flen. f_equal. lia. }
    induction fuel as [|f IH]; intros foff rem Hr Hlt Hf Hb.
    - (* no fuel: rem = 0 *)
      assert (rem = 0) by lia. subst rem.
      assert (Hz : zlen msg = 0) by (destruct (Z.eq_dec (zlen msg) 0); [assumption | lia]).
      cbn [frags_from span] in *. replace (0 - fbytes c 0 <=? 0) with true in * by (unfold fbytes; lia).
      cbn [map app]. rewrite ONE; [|lia | apply Hb; left; reflexivity]. cbn zeta.
      destruct (st6_fields foff 0 (fl_of 0)) as (_ & _ & _ & _ & _ & E6). rewrite E6.
      assert (Hnf : is_fragmented c (zlen msg) = false) by (unfold is_fragmented; lia). rewrite Hnf.
      unfold acc_of. rewrite Hz. cbn [Z.eqb]. destruct flag_unfrag as (-> & ->).
      assert (Hnil : msg = []) by (apply length_zero_iff_nil; unfold zlen in Hz; lia).
      replace (fbody c msg 0) with msg; [reflexivity|]. unfold fbody. rewrite Hnil. rewrite skipn_nil, firstn_nil. reflexivity.
    - cbn [frags_from span] in *. destruct (rem - fbytes c rem <=? 0) eqn:E.
      + (* last fragment *)
        cbn [map app]. rewrite ONE; [|lia | apply Hb; left; reflexivity]. cbn zeta.
        destruct (st6_fields foff rem (fl_of rem)) as (_ & _ & _ & _ & _ & E6). rewrite E6.
        assert (Hle : rem <= max_payload c) by (unfold fbytes in E; lia).
        unfold acc_of, fl_of. destruct (rem =? zlen msg) eqn:E2.
        * assert (Hnf : is_fragmented c (zlen msg) = false) by (unfold is_fragmented; lia). rewrite Hnf.
          destruct flag_unfrag as (-> & ->).
          replace (fbody c msg rem) with msg; [reflexivity|].
          unfold fbody, fbytes. replace (zlen msg - rem) with 0 by lia. cbn [Z.to_nat skipn]. rewrite firstn_all2; [reflexivity|]. unfold zlen in *. lia.
        * destruct (Hlt ltac:(lia)) as (Hpos & Hfr). rewrite Hfr. unfold fflags. replace (rem <=? max_payload c) with true by lia.
          destruct flag_end as (-> & ->).
          replace (firstn (Z.to_nat (zlen msg - rem)) msg ++ fbody c msg rem) with msg; [reflexivity|].
          unfold fbody, fbytes. rewrite firstn_skipn_firstn. rewrite firstn_all2; [reflexivity|]. unfold zlen in *. lia.
      + (* more fragments follow *)
        assert (Hgt : max_payload c < rem) by (unfold fbytes in E; lia).
        assert (Hfr : is_fragmented c (zlen msg) = true) by (unfold is_fragmented; lia).
        assert (Hfb : fbytes c rem = max_payload c) by (unfold fbytes; lia).
        set (rem' := rem - fbytes c rem) in *.
        assert (Hr' : 0 <= rem' <= zlen msg) by (unfold rem'; lia).
        assert (Hfl' : fl_of rem' = 0) by (unfold fl_of; replace (rem' =? zlen msg) with false by (unfold rem'; lia); reflexivity).
        cbn [map app]. rewrite ONE; [|lia | apply Hb; left; reflexivity]. cbn zeta.
        destruct (st6_fields foff rem (fl_of rem)) as (_ & _ & _ & _ & _ & E6). rewrite E6, Hfr.
        unfold fflags. replace (rem <=? max_payload c) with false by lia.
        assert (Hacc' : acc_of rem' = Some (firstn (Z.to_nat (zlen msg - rem')) msg))
          by (unfold acc_of; replace (rem' =? zlen msg) with false by (unfold rem'; lia); reflexivity).
        assert (IHr : reassemble ws (map dec (frags_from c tid msg f (foff + align (flen c rem) FA) rem' 0) ++ rest) (acc_of rem') =
                      match reassemble ws rest None with Some l => Some ((foff + align (flen c rem) FA + span c f rem', msg) :: l) | None => None end).
        { rewrite <- Hfl'. apply IH; [assumption | intros _; split; [unfold rem'; lia | assumption] | unfold rem'; lia |].
          intros o sl Hin. apply Hb. right. rewrite <- Hfl'. assumption. }
        rewrite Hacc' in IHr. rewrite <- Z.add_assoc in IHr.
        unfold acc_of, fl_of. destruct (rem =? zlen msg) eqn:E2.
        * destruct flag_begin as (-> & ->). rewrite <- IHr. do 2 f_equal.
          unfold fbody. rewrite Hfb. replace (zlen msg - rem) with 0 by lia. cbn [Z.to_nat skipn]. f_equal. unfold rem'. lia.
        * destruct flag_mid as (-> & ->). rewrite <- IHr. do 2 f_equal.
          unfold fbody. rewrite firstn_skipn_firstn. f_equal. unfold rem'. unfold zlen in *. lia. Qed.
End Frames.
