(* Consequences of AppInv that property C02 states: claims are disjoint and tile, one padder per term,
   committed frames never change, and at quiescence every live partition is a gap-free sequence of
   well-formed frames holding exactly the frames of the accepted messages. *)
Require Import V.Base.MachineInt.
Require Import V.Generated.GenConsts.
Require Import V.Model.LogBase.
Require Import V.Model.Descriptor.
Require Import V.Proofs.DescriptorProofs.
Require Import V.Model.Sched.
Require Import V.Model.AppenderThreads.
Require Import V.Proofs.TailArith.
Require Import V.Proofs.FragArith.
Require Import V.Proofs.AppenderInv.
Require Import V.Proofs.AppenderLemmas.
Require Import V.Proofs.AppenderFrame.
Require Import V.Proofs.AppenderSteps.
Require Import V.Proofs.AppenderFaa.
Require Import V.Proofs.AppenderRotate.
Require Import V.Proofs.AppenderSystem.
Require Import V.Proofs.AppenderInv2.
From Coq Require Import ZifyBool.
Open Scope Z_scope.

Definition wf_slot (c : cfg) (tid o : Z) (sl : slot) : Prop :=
  0 < s_len sl /\ s_toff sl = o /\ s_tid sl = tid /\ s_sess sl = c_sess c /\ s_strm sl = c_strm c /\
  s_ver sl = GenConsts.CURRENT_VERSION /\ s_resv sl = 0 /\ (s_type sl = T_DATA \/ s_type sl = T_PAD).

(* [a, b) of one partition is exactly covered by committed, well-formed frames *)
Inductive tiles (c : cfg) (m : Z -> slot) (tid : Z) : Z -> Z -> Prop :=
| tiles_nil o : tiles c m tid o o
| tiles_cons o e : wf_slot c tid o (m o) -> tiles c m tid (o + align (s_len (m o)) FA) e -> tiles c m tid o e.

Lemma tiles_app c m tid a b d : tiles c m tid a b -> tiles c m tid b d -> tiles c m tid a d.
Proof. induction 1; [auto | intros; econstructor; eauto]. Qed.

Lemma laid_tiles c m tid a l b : laid c a l b -> (forall o sl, In (o, sl) l -> m o = sl /\ wf_slot c tid o sl) -> tiles c m tid a b.
Proof. induction 1 as [o | o sl r e Hl Hr IH]; intros H; [constructor|].
  destruct (H o sl (or_introl eq_refl)) as (E & Wf). econstructor.
  - rewrite E. assumption.
  - rewrite E. apply IH. intros o' sl' Hin. apply H. right. assumption. Qed.

Section Q.
  Variable c : cfg.
  Hypothesis W : wf_cfg c.

  Lemma frags_from_wf tid msg : forall fuel foff rem fl o sl, 0 <= rem ->
    In (o, sl) (frags_from c tid msg fuel foff rem fl) -> wf_slot c tid o sl.
  Proof. pose proof (mp_pos c W) as [Hmp _].
    assert (A : forall foff rem fl, 0 <= rem -> wf_slot c tid foff (st6 c tid msg foff rem fl)).
    { intros foff rem fl Hr. unfold wf_slot, st6, st5, st4, st3, st2, st1.
      destruct (is_fragmented c (zlen msg)); cbn; unfold flen, fbytes; rewrite HDR_32; repeat split; auto; lia. }
    induction fuel as [|f IH]; intros foff rem fl o sl Hr Hin; cbn [frags_from] in Hin.
    - destruct (_ <=? 0); destruct Hin as [E | []]; inversion E; subst; apply A; assumption.
    - destruct (rem - fbytes c rem <=? 0) eqn:E.
      + destruct Hin as [E' | []]; inversion E'; subst; apply A; assumption.
      + destruct Hin as [E' | Hin]; [inversion E'; subst; apply A; assumption|].
        eapply IH; [|exact Hin]. lia. Qed.

  Lemma efrags_wf g e o sl : 0 <= e_a e -> In (o, sl) (efrags c g e) -> wf_slot c (tid_of c g) o sl.
  Proof. intros Ha Hin. unfold efrags in Hin. destruct (e_b e <=? TL c).
    - eapply frags_from_wf; [|exact Hin]. unfold zlen. lia.
    - destruct (e_a e <? TL c) eqn:E; [|destruct Hin]. destruct Hin as [E' | []]. inversion E'; subst.
      unfold wf_slot, pd4, pd3, pd2, pd1. cbn. repeat split; auto. lia. Qed.

  (* ---- claims are pairwise disjoint; at most one of them straddles the term end ---- *)
  Theorem claims_disjoint s gh P p e e' : AppInv c s gh P -> 0 <= p < 3 -> c_n0 c <= tg c s p ->
    In e (g_claims gh (tg c s p)) -> In e' (g_claims gh (tg c s p)) ->
    e = e' \/ e_b e <= e_a e' \/ e_b e' <= e_a e.
  Proof. intros I Hp Hn0 He He'. eapply chain_disjoint; eauto. apply (iv_chain c s gh (iv_A c s gh P I) p Hp Hn0). Qed.

  Theorem single_padder s gh P p e e' : AppInv c s gh P -> 0 <= p < 3 -> c_n0 c <= tg c s p ->
    In e (g_claims gh (tg c s p)) -> In e' (g_claims gh (tg c s p)) ->
    e_a e < TL c < e_b e -> e_a e' < TL c < e_b e' -> e = e'.
  Proof. intros I Hp Hn0 He He' H1 H2. destruct (claims_disjoint s gh P p e e' I Hp Hn0 He He') as [E | [D | D]]; [assumption | lia | lia]. Qed.

  (* ---- a publisher never writes over a committed frame ---- *)
  Theorem committed_never_change s gh P t l s' l' ev p o :
    AppInv c s gh P -> P t = Some l -> pstep c t s l = Some (s', l', ev) ->
    0 < s_len (sh_mem s p o) -> sh_mem s' p o = sh_mem s p o.
  Proof. intros I HP Hstep Hlen. pose proof (iv_thr c s gh P I t l HP) as HT. pose proof (iv_A c s gh P I) as A.
    assert (Hw : forall sl, writing (p_pc l) = true -> sh_mem (with_mem s (mupd (sh_mem s) (r_idx l) (p_foff l) sl)) p o = sh_mem s p o).
    { intros sl Hwr. cbn [with_mem sh_mem]. apply mupd_other. intros E. inversion E; subst p o.
      rewrite (cur_slot_w c W s gh P t l I HP Hwr) in Hlen. unfold stage in Hlen.
      pose proof (mp_pos c W) as [Hmp _].
      destruct (wr_clauses c s gh t l HT Hwr) as (_ & _ & _ & _ & _ & (R0 & _)).
      destruct (p_pc l); try discriminate Hwr; cbn in Hlen; unfold st4 in Hlen; try destruct (is_fragmented c _);
        cbn in Hlen; unfold flen, fbytes in Hlen; rewrite ?HDR_32 in Hlen; lia. }
    assert (Hpd : forall sl, padding (p_pc l) = true -> sh_mem (with_mem s (mupd (sh_mem s) (r_idx l) (f_off l) sl)) p o = sh_mem s p o).
    { intros sl Hwr. cbn [with_mem sh_mem]. apply mupd_other. intros E. inversion E; subst p o.
      rewrite (cur_slot_p c W s gh P t l I HP Hwr) in Hlen. unfold stage in Hlen.
      destruct (pad_clauses c s gh t l HT Hwr) as (_ & _ & _ & _ & B & _).
      destruct (p_pc l); try discriminate Hwr; cbn in Hlen; lia. }
    unfold pstep in Hstep.
    destruct (p_pc l) eqn:Hpc; try discriminate Hstep; inversion Hstep; subst s' l' ev; clear Hstep;
      try reflexivity; try (apply Hw; reflexivity); try (apply Hpd; reflexivity).
    - destruct (_ =? _); reflexivity.
    - destruct (_ =? _); reflexivity. Qed.

  (* ---- quiescence ---- *)
  Definition quiescent (P : nat -> option plocal) : Prop := forall t l, P t = Some l -> p_pc l = PDone.

  Lemma quiescent_complete s gh P g e : AppInv c s gh P -> quiescent P -> In e (g_claims gh g) ->
    exists l, P (e_t e) = Some l /\ (e_j e < length (p_res l))%nat /\
      nth (e_j e) (p_res l) Panic = (if e_b e <=? TL c then Ok (g * TL c + e_b e) else Err AdminAction) /\
      (live c s gh g -> forall o sl, In (o, sl) (efrags c g e) -> sh_mem s (g mod 3) o = sl).
  Proof. intros I Q He. destruct (iv_ent c s gh P I g e He) as (_ & _ & _ & _ & l & HP & Hj & Hin & Hdone).
    exists l. split; [assumption|].
    assert (Hlt : (e_j e < length (p_res l))%nat).
    { destruct (Nat.eq_dec (e_j e) (length (p_res l))) as [E | E]; [|lia].
      destruct (Hin E) as (Hi & _). rewrite (Q _ _ HP) in Hi. discriminate. }
    split; [assumption|]. apply Hdone. assumption. Qed.

  Lemma chain_tiles s gh P g : AppInv c s gh P -> quiescent P -> live c s gh g -> c_n0 c <= g ->
    forall l b0 hi, (forall e, In e l -> In e (g_claims gh g)) -> chain b0 l hi -> 0 <= b0 ->
    tiles c (sh_mem s (g mod 3)) (tid_of c g) (Z.min b0 (TL c)) (Z.min hi (TL c)).
  Proof. intros I Q L Hn0. induction l as [|e r IH]; intros b0 hi Hsub Hc Hb0; cbn [chain] in Hc.
    - subst. constructor.
    - destruct Hc as (Ha & Hlt & Hc). subst b0.
      assert (He : In e (g_claims gh g)) by (apply Hsub; left; reflexivity).
      destruct (quiescent_complete s gh P g e I Q He) as (l0 & _ & _ & _ & Hmem). specialize (Hmem L).
      destruct (iv_ent c s gh P I g e He) as (_ & Ha & Ham & Hb & _).
      apply (tiles_app c _ _ _ (Z.min (e_b e) (TL c))).
      + destruct (Z_le_gt_dec (e_b e) (TL c)) as [Hle | Hgt].
        * rewrite !Z.min_l by lia. apply (laid_tiles c _ _ _ (efrags c g e)).
          -- apply efrags_data_laid; assumption.
          -- intros o sl Hin. split; [apply Hmem; assumption | eapply efrags_wf; eauto].
        * rewrite (Z.min_r (e_b e)) by lia. destruct (Z_lt_ge_dec (e_a e) (TL c)) as [Hlt2 | Hge2].
          -- rewrite Z.min_l by lia.
             assert (Hef : efrags c g e = [(e_a e, pd4 c (tid_of c g) (e_a e))]).
             { unfold efrags. replace (e_b e <=? TL c) with false by lia. replace (e_a e <? TL c) with true by lia. reflexivity. }
             assert (Hm : sh_mem s (g mod 3) (e_a e) = pd4 c (tid_of c g) (e_a e)) by (apply Hmem; rewrite Hef; left; reflexivity).
             destruct (TL_bounds c W) as (_ & T2).
             assert (Hal : align (TL c - e_a e) 32 = TL c - e_a e).
             { apply align_mult; [lia|]. rewrite Zminus_mod, T2, Ham. reflexivity. }
             econstructor.
             ++ rewrite Hm. eapply efrags_wf; [exact Ha | rewrite Hef; left; reflexivity].
             ++ rewrite Hm. cbn [pd4 set_len s_len]. rewrite FA_32, Hal. replace (e_a e + (TL c - e_a e)) with (TL c) by ring. constructor.
          -- rewrite Z.min_r by lia. constructor.
      + apply IH; [intros; apply Hsub; right; assumption | assumption | lia]. Qed.

  Lemma tg_mod3 s gh p : TailInv c s gh -> 0 <= p < 3 -> tg c s p mod 3 = p.
  Proof. intros A Hp. pose proof (iv_act c s gh A) as H1. pose proof (iv_prev c s gh A) as H2. pose proof (iv_next c s gh A) as H3.
    destruct (part_cases (sh_count s) p Hp) as [-> | [-> | ->]].
    - rewrite H1. reflexivity.
    - destruct H3 as [X | X]; rewrite X; [rewrite <- (mod3_shift (sh_count s - 2) 1) | ]; f_equal; ring.
    - rewrite H2. rewrite <- (mod3_shift (sh_count s - 1) 1). f_equal. ring. Qed.

  (* every live partition is gap-free up to min(tail, term length) and zero from there on *)
  Theorem quiescent_tiles s gh P p : AppInv c s gh P -> quiescent P -> 0 <= p < 3 ->
    c_n0 c <= tg c s p -> g_cleaned gh (tg c s p) = false ->
    tiles c (sh_mem s p) (tid_of c (tg c s p)) (base c (tg c s p)) (Z.min (toff s p) (TL c)) /\
    (forall o, Z.min (toff s p) (TL c) <= o -> sh_mem s p o = zslot).
  Proof. intros I Q Hp Hn0 Hcl. pose proof (iv_A c s gh P I) as A. set (g := tg c s p) in *.
    destruct (iv_tail c s gh A p Hp) as (_ & _ & _ & Hgok). fold g in Hgok.
    assert (Hpg : g mod 3 = p) by (apply (tg_mod3 s gh p A Hp)).
    assert (L : live c s gh g) by (split; [rewrite Hpg; reflexivity | assumption]).
    pose proof (iv_chain c s gh A p Hp Hn0) as Hc. fold g in Hc.
    pose proof (wf_off0 c W) as (Ho0 & _). pose proof (TL_bounds c W) as (TB & _).
    assert (Hb : 0 <= base c g <= TL c) by (unfold base; destruct (g =? c_n0 c); lia).
    split.
    - pose proof (chain_tiles s gh P g I Q L Hn0 (g_claims gh g) (base c g) (toff s p) (fun e H => H) Hc ltac:(lia)) as T.
      rewrite Hpg in T. rewrite Z.min_l in T by lia. exact T.
    - intros o Ho. destruct (Z_le_gt_dec (toff s p) o) as [Hle | Hgt]; [apply (zero_above_tail c W s gh P p o I Hp Hle)|].
      destruct (slot_eq_dec (sh_mem s p o) zslot) as [|Hne]; [assumption|]. exfalso.
      destruct (iv_mem c s gh P I p Hp) as (_ & M2). fold g in M2.
      destruct (M2 Hn0 Hcl o Hne) as (e & He & Hin).
      destruct (iv_ent c s gh P I _ _ He) as (_ & Ha & Ham & Hbe & _).
      apply in_map_iff in Hin. destruct Hin as ([o1 sl] & E1 & Hin). cbn in E1. subst o1.
      destruct (efrags_range c g e o sl W Ha Ham Hbe Hin) as (_ & _ & R3 & _). lia. Qed.

  (* the result a publisher was given for a claim: the position at the end of its own message, or AdminAction *)
  Theorem claim_result s gh P g e : AppInv c s gh P -> In e (g_claims gh g) ->
    exists l, P (e_t e) = Some l /\
      ((e_j e < length (p_res l))%nat ->
         nth (e_j e) (p_res l) Panic = (if e_b e <=? TL c then Ok (g * TL c + e_b e) else Err AdminAction)).
  Proof. intros I He. destruct (iv_ent c s gh P I g e He) as (_ & _ & _ & _ & l & HP & _ & _ & Hdone).
    exists l. split; [assumption|]. intros Hlt. apply (Hdone Hlt). Qed.

  (* ---- with the second layer ---- *)

  (* an accepted offer has a claim inside a term, and the returned position is the end of that claim *)
  Theorem accepted_has_claim s gh P t l j pos : AppInv c s gh P -> AppInv2 c s gh P -> P t = Some l ->
    nth_error (p_res l) j = Some (Ok pos) ->
    exists g e, In e (g_claims gh g) /\ e_t e = t /\ e_j e = j /\ e_b e <= TL c /\ pos = g * TL c + e_b e.
  Proof. intros I J HP Hn. destruct (r_okent c s gh P J t l j pos HP Hn) as (g & e & He & Ht & Hj).
    exists g, e. split; [assumption|]. split; [assumption|]. split; [assumption|].
    destruct (iv_ent c s gh P I g e He) as (_ & _ & _ & _ & l0 & HP0 & _ & _ & Hdone).
    rewrite Ht, HP in HP0. inversion HP0; subst l0.
    assert (Hlt : (j < length (p_res l))%nat) by (apply nth_error_Some; congruence).
    rewrite Hj in Hdone. destruct (Hdone Hlt) as (D & _).
    rewrite (nth_error_nth _ _ _ Hn) in D. destruct (e_b e <=? TL c) eqn:E; [|discriminate].
    inversion D. split; [lia | reflexivity]. Qed.

  (* every answer is a position, a retry (AdminAction) or back pressure; nobody panicked *)
  Theorem answers_ok s gh P t l r : AppInv2 c s gh P -> P t = Some l -> (In r (p_res l) -> res_okP r) /\ p_pc l <> PPanicked.
  Proof. intros J HP. split; [apply (r_resok c s gh P J t l r HP) | apply (r_nopanic c s gh P J t l HP)]. Qed.

  (* the positions one publisher was given increase in its offer order *)
  Theorem positions_increasing s gh P t l j j' pos pos' : AppInv c s gh P -> AppInv2 c s gh P -> P t = Some l ->
    (j < j')%nat -> nth_error (p_res l) j = Some (Ok pos) -> nth_error (p_res l) j' = Some (Ok pos') -> pos < pos'.
  Proof. intros I J HP Hlt Hn Hn'.
    destruct (accepted_has_claim s gh P t l j pos I J HP Hn) as (g & e & He & Ht & Hj & Hb & ->).
    destruct (accepted_has_claim s gh P t l j' pos' I J HP Hn') as (g' & e' & He' & Ht' & Hj' & Hb' & ->).
    apply (r_order c s gh P J g g' e e'); auto; congruence. Qed.

  (* two different claims inside a term (of any two publishers, any generations) end at different positions *)
  Theorem positions_distinct s gh P g g' e e' : AppInv c s gh P ->
    In e (g_claims gh g) -> In e' (g_claims gh g') -> e_b e <= TL c -> e_b e' <= TL c ->
    g * TL c + e_b e = g' * TL c + e_b e' -> g = g' /\ e = e'.
  Proof. intros I He He' Hb Hb' Heq. pose proof (iv_A c s gh P I) as A.
    destruct (iv_ent c s gh P I g e He) as (Hn0 & Ha & _ & Hbe & _).
    destruct (iv_ent c s gh P I g' e' He') as (Hn0' & Ha' & _ & Hbe' & _).
    pose proof (required_pos c (zlen (e_msg e)) W ltac:(unfold zlen; lia)) as (R1 & _).
    pose proof (required_pos c (zlen (e_msg e')) W ltac:(unfold zlen; lia)) as (R1' & _).
    destruct (TL_bounds c W) as (TB & _).
    assert (g = g') by nia. subst g'. split; [reflexivity|].
    destruct (iv_chain_all c s gh A g Hn0) as (hi & Hc & _).
    destruct (chain_disjoint _ _ _ e e' Hc He He') as [E | [D | D]]; [assumption | |];
      destruct (chain_le _ _ _ Hc) as (_ & L); destruct (L e He) as (_ & X & _); destruct (L e' He') as (_ & X' & _); lia. Qed.

  (* at quiescence the log is not mid-rotation, the active term has not been tripped, and the generations that
     were filled (tripped) are exactly those before the active term count: each filled term rotated exactly once *)
  Theorem quiescent_rotation s gh P : AppInv c s gh P -> AppInv2 c s gh P -> quiescent P ->
    tg c s ((sh_count s + 1) mod 3) = sh_count s - 2 /\
    toff s (sh_count s mod 3) <= TL c /\
    (forall g, c_n0 c <= g -> (tripped c gh g <-> g < sh_count s)) /\
    (forall g, sh_count s < g -> g_claims gh g = []).
  Proof. intros I J Q. pose proof (iv_A c s gh P I) as A.
    assert (Hnr : tg c s ((sh_count s + 1) mod 3) = sh_count s - 2).
    { destruct (iv_next c s gh A) as [X | X]; [assumption|]. exfalso.
      destruct (r_rot c s gh P J X) as (t & l & HP & Hpc & _). rewrite (Q t l HP) in Hpc. discriminate. }
    assert (Hnt : ~ tripped c gh (sh_count s)).
    { intros X. destruct (r_trip c s gh P J X) as (t & l & HP & _ & [Hp | Hp]); rewrite (Q t l HP) in Hp; discriminate. }
    pose proof (iv_count c s gh A) as Hc.
    assert (Ha : 0 <= sh_count s mod 3 < 3) by (apply Z.mod_pos_bound; lia).
    split; [assumption|]. split; [|split].
    - destruct (Z_le_gt_dec (toff s (sh_count s mod 3)) (TL c)); [assumption|]. exfalso. apply Hnt.
      pose proof (iv_chain c s gh A _ Ha) as Hch. rewrite (iv_act c s gh A) in Hch. specialize (Hch ltac:(lia)).
      pose proof (wf_off0 c W) as (Ho0 & _).
      assert (Hb : base c (sh_count s) <= TL c) by (unfold base; destruct (_ =? _); destruct (TL_bounds c W); lia).
      destruct (chain_last _ _ _ Hch ltac:(lia)) as (e & He & Hbe). exists e. split; [assumption | lia].
    - intros g Hg. split.
      + intros X. destruct (Z_lt_ge_dec g (sh_count s)); [assumption|]. exfalso.
        destruct (Z.eq_dec g (sh_count s)) as [-> | Hne]; [contradiction|].
        destruct X as (e & He & _). rewrite (r_future c s gh P J g) in He by lia. destruct He.
      + intros X. apply (iv_trip c s gh A). lia.
    - apply (r_future c s gh P J). Qed.
End Q.
