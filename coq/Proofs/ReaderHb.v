(* C03, the happens-before part, on the model with ghost time stamps.

   Every step gets a time (its index in the interleaving). For every frame slot the ghost state records
     wlast / wwho  : time and thread of the last write of the publisher burst into the slot (negative length, header
                     burst, payload copy, flags, type, reserved value);
     lenlast       : time of the last write to the slot's length word;
     wrel / relwho : time and thread of the last release write of a positive length (the commit);
   and for every subscriber thread
     racq          : time of its last acquire read of a length word that returned a positive value.

   happens-before chain of the protocol, for every plain read the subscriber makes of a frame it is on:
       last burst write  --program order-->  release write of +length  --reads-from-->  acquire read  --program order-->  this read
   i.e.  wlast < wrel,  wwho = relwho (same thread: program order),  lenlast = wrel (no later write to the length word:
   the acquire read read from that release write),  wrel < racq <= now (the acquire read is earlier in the subscriber's
   program order).  HbInv proves the chain for every reachable state of the system of C03. *)
Require Import V.Base.MachineInt.
Require Import V.Generated.GenConsts.
Require Import V.Model.LogBase.
Require Import V.Model.Descriptor.
Require Import V.Model.Sched.
Require Import V.Model.AppenderThreads.
Require Import V.Model.ReaderThreads.
Require Import V.Proofs.TailArith.
Require Import V.Proofs.FragArith.
Require Import V.Proofs.AppenderInv.
Require Import V.Proofs.AppenderLemmas.
Require Import V.Proofs.AppenderFrame.
Require Import V.Proofs.AppenderSteps.
Require Import V.Proofs.AppenderSystem.
Require Import V.Proofs.C02Quiescent.
Require Import V.Proofs.ReaderInv.
Require Import V.Proofs.C03Proofs.
From Coq Require Import ZifyBool.
Open Scope Z_scope.

Record stamps := mkSt {
  now : nat;
  wlast : Z -> Z -> nat; wwho : Z -> Z -> nat;
  lenlast : Z -> Z -> nat;
  wrel : Z -> Z -> nat; relwho : Z -> Z -> nat;
  racq : nat -> nat
}.
Definition stamps0 : stamps := mkSt O (fun _ _ => O) (fun _ _ => O) (fun _ _ => O) (fun _ _ => O) (fun _ _ => O) (fun _ => O).

Definition upd2 {A} (f : Z -> Z -> A) (p o : Z) (v : A) : Z -> Z -> A :=
  fun p' o' => if (p' =? p) && (o' =? o) then v else f p' o'.
Definition upd1 {A} (f : nat -> A) (t : nat) (v : A) : nat -> A := fun t' => if Nat.eqb t' t then v else f t'.

Section Hb.
  Variable c : cfg.
  Hypothesis W : wf_cfg c.

  (* the slot a publisher's next access goes to, and what kind of access it is *)
  Inductive wkind := WBurst | WNeg | WCommit | WNone.
  Definition pub_access (l : plocal) : wkind * Z * Z :=
    match p_pc l with
    | PNegLen => (WNeg, AppenderThreads.r_idx l, p_foff l)
    | PHdr | PBody | PFlags | PResv => (WBurst, AppenderThreads.r_idx l, p_foff l)
    | PPosLen => (WCommit, AppenderThreads.r_idx l, p_foff l)
    | ENegLen => (WNeg, AppenderThreads.r_idx l, f_off l)
    | EHdr | EType => (WBurst, AppenderThreads.r_idx l, f_off l)
    | EPosLen => (WCommit, AppenderThreads.r_idx l, f_off l)
    | _ => (WNone, 0, 0)
    end.

  Definition tick (t : nat) (s : shared) (x : rthread) (h : stamps) : stamps :=
    let n := S (now h) in
    match x with
    | RApp (TPub l) =>
        let '(k, p, o) := pub_access l in
        match k with
        | WNeg => mkSt n (upd2 (wlast h) p o n) (upd2 (wwho h) p o t) (upd2 (lenlast h) p o n) (wrel h) (relwho h) (racq h)
        | WBurst => mkSt n (upd2 (wlast h) p o n) (upd2 (wwho h) p o t) (lenlast h) (wrel h) (relwho h) (racq h)
        | WCommit => mkSt n (wlast h) (wwho h) (upd2 (lenlast h) p o n) (upd2 (wrel h) p o n) (upd2 (relwho h) p o t) (racq h)
        | WNone => mkSt n (wlast h) (wwho h) (lenlast h) (wrel h) (relwho h) (racq h)
        end
    | RRd l =>
        match r_pc l with
        | RLen => if 0 <? s_len (sh_mem s (r_idx c l) (r_off l))
                  then mkSt n (wlast h) (wwho h) (lenlast h) (wrel h) (relwho h) (upd1 (racq h) t n)
                  else mkSt n (wlast h) (wwho h) (lenlast h) (wrel h) (relwho h) (racq h)
        | _ => mkSt n (wlast h) (wwho h) (lenlast h) (wrel h) (relwho h) (racq h)
        end
    | _ => mkSt n (wlast h) (wwho h) (lenlast h) (wrel h) (relwho h) (racq h)
    end.

  (* reachability with time stamps; the environment does not zero partitions here (no partition is written in two
     generations) *)
  Definition no_clean (x : rthread) : Prop :=
    match x with RApp (TEnv l) => match e_ops l with Clean _ :: _ => False | _ => True end | _ => True end.

  Inductive reach3h : shared -> (nat -> rthread) -> ghost -> stamps -> Prop :=
  | reach3h_init limit th :
      (forall t, init_thread3 (th t)) -> (forall t t' l l', th t = RRd l -> th t' = RRd l' -> t = t') ->
      reach3h (init_shared c limit) th ghost0 stamps0
  | reach3h_step s th gh h t s' x' e :
      reach3h s th gh h -> adm3 c s gh th t -> no_clean (th t) -> rtstep c t s (th t) = Some (s', x', e) ->
      reach3h s' (upd_thread th t x') (gstep3 c t s (th t) gh) (tick t s (th t) h).

  Lemma reach3h_reach3 s th gh h : reach3h s th gh h -> reach3 c s th gh.
  Proof. induction 1; [apply reach3_init; assumption | eapply reach3_step; eauto]. Qed.

  (* the chain for committed slots, the writers in progress, and the subscribers *)
  Record HbInv (s : shared) (th : nat -> rthread) (h : stamps) : Prop := {
    hb_commit : forall p o, 0 < s_len (sh_mem s p o) ->
        (wlast h p o < wrel h p o)%nat /\ wwho h p o = relwho h p o /\ lenlast h p o = wrel h p o /\ (wrel h p o <= now h)%nat;
    hb_writer : forall t l, th t = RApp (TPub l) ->
        match pub_access l with
        | (WBurst, p, o) | (WCommit, p, o) => wwho h p o = t /\ (wlast h p o <= now h)%nat
        | _ => True
        end;
    hb_reader : forall t l, th t = RRd l -> on_frame (r_pc l) = true ->
        (wrel h (rd_gen c l mod 3) (r_foff l) < racq h t)%nat /\ (racq h t <= now h)%nat
  }.

  (* the publisher's current slot is not committed *)
  Lemma cur_slot_uncommitted s gh P t l k p o : AppInv c s gh P -> P t = Some l -> pub_access l = (k, p, o) -> k <> WNone ->
    s_len (sh_mem s p o) <= 0.
  Proof. intros I HP Ha Hk. unfold pub_access in Ha. pose proof (iv_thr c s gh P I t l HP) as HT.
    pose proof (mp_pos c W) as [Hmp _].
    destruct (p_pc l) eqn:Hpc; inversion Ha; subst k p o; try congruence;
      try (assert (Hw : writing (p_pc l) = true) by (rewrite Hpc; reflexivity);
           rewrite (cur_slot_w c W s gh P t l I HP Hw); unfold stage; rewrite Hpc;
           destruct (wr_clauses c s gh t l HT Hw) as (_ & _ & _ & _ & _ & (R0 & _));
           cbn; unfold st4; try destruct (is_fragmented c _); cbn; unfold flen, fbytes; rewrite ?HDR_32; lia);
      try (assert (Hw : padding (p_pc l) = true) by (rewrite Hpc; reflexivity);
           rewrite (cur_slot_p c W s gh P t l I HP Hw); unfold stage; rewrite Hpc;
           destruct (pad_clauses c s gh t l HT Hw) as (_ & _ & _ & _ & B & _); cbn; lia). Qed.

  (* a publisher step writes at most the slot pub_access names *)
  Lemma pstep_mem_other t s l s' l' e p o p' o' : pstep c t s l = Some (s', l', e) -> snd (fst (pub_access l)) = p -> snd (pub_access l) = o ->
    (fst (fst (pub_access l)) = WNone \/ (p', o') <> (p, o)) -> sh_mem s' p' o' = sh_mem s p' o'.
  Proof. intros Hstep Hp Ho Hne. unfold pstep in Hstep. unfold pub_access in *.
    destruct (p_pc l) eqn:Hpc; try discriminate Hstep; inversion Hstep; subst s' l' e; clear Hstep; cbn in *; try reflexivity;
      try (destruct Hne as [X | X]; [discriminate X | subst p o; apply mupd_other; assumption]);
      try (destruct (_ =? _); reflexivity). Qed.

  (* inside a frame burst the publisher stays on the same slot *)
  Lemma burst_succ t s l s' l' e k' p' o' : pstep c t s l = Some (s', l', e) ->
    pub_access l' = (k', p', o') -> k' = WBurst \/ k' = WCommit ->
    exists k, pub_access l = (k, p', o') /\ (k = WNeg \/ k = WBurst).
  Proof. intros Hstep Ha Hk. unfold pstep in Hstep.
    assert (Fin : forall r l0, fst (fst (pub_access (finish r l0))) = WNone).
    { intros r l0. unfold finish, p_start, pub_access. destruct (match r with Ok _ => _ | _ => _ end); destruct (p_budget l0); reflexivity. }
    destruct (p_pc l) eqn:Hpc; try discriminate Hstep; inversion Hstep; subst s' l' e; clear Hstep.
    - unfold pub_access in Ha. cbn in Ha. inversion Ha; subst. destruct Hk; discriminate.
    - unfold pub_access in Ha. cbn in Ha. inversion Ha; subst. destruct Hk; discriminate.
    - exfalso. unfold after_read_tail in Ha.
      repeat match type of Ha with context [if ?b then _ else _] => destruct b end;
        try (match type of Ha with pub_access (finish ?r ?l0) = _ => pose proof (Fin r l0) as X end; rewrite Ha in X; cbn in X; subst k'; destruct Hk; discriminate);
        unfold pub_access in Ha; cbn in Ha; inversion Ha; subst; destruct Hk; discriminate.
    - exfalso. pose proof (Fin (Err (if sh_conn s =? 1 then BackPressured else NotConnected)) l) as X. rewrite Ha in X. cbn in X. subst k'. destruct Hk; discriminate.
    - exfalso. unfold after_faa, after_eol in Ha.
      repeat match type of Ha with context [if ?b then _ else _] => destruct b end;
        try (match type of Ha with pub_access (finish ?r ?l0) = _ => pose proof (Fin r l0) as X end; rewrite Ha in X; cbn in X; subst k'; destruct Hk; discriminate);
        unfold pub_access, p_panic in Ha; cbn in Ha; inversion Ha; subst; destruct Hk; discriminate.
    - unfold pub_access in *. rewrite Hpc. cbn in Ha. inversion Ha; subst. eexists. split; [reflexivity | left; reflexivity].
    - unfold pub_access in *. rewrite Hpc. cbn in Ha. inversion Ha; subst. eexists. split; [reflexivity | right; reflexivity].
    - unfold pub_access in *. rewrite Hpc. destruct (is_fragmented c (mlen l)); cbn in Ha; inversion Ha; subst; eexists; (split; [reflexivity | right; reflexivity]).
    - unfold pub_access in *. rewrite Hpc. cbn in Ha. inversion Ha; subst. eexists. split; [reflexivity | right; reflexivity].
    - unfold pub_access in *. rewrite Hpc. cbn in Ha. inversion Ha; subst. eexists. split; [reflexivity | right; reflexivity].
    - exfalso. unfold after_commit in Ha. destruct (_ <=? 0).
      + pose proof (Fin (ok_position c l) l) as X. rewrite Ha in X. cbn in X. subst k'. destruct Hk; discriminate.
      + unfold pub_access in Ha. cbn in Ha. inversion Ha; subst. destruct Hk; discriminate.
    - unfold pub_access in *. rewrite Hpc. cbn in Ha. inversion Ha; subst. eexists. split; [reflexivity | left; reflexivity].
    - unfold pub_access in *. rewrite Hpc. cbn in Ha. inversion Ha; subst. eexists. split; [reflexivity | right; reflexivity].
    - unfold pub_access in *. rewrite Hpc. cbn in Ha. inversion Ha; subst. eexists. split; [reflexivity | right; reflexivity].
    - exfalso. unfold after_eol in Ha. destruct (_ <? _).
      + pose proof (Fin (Err MaxPositionExceeded) l) as X. rewrite Ha in X. cbn in X. subst k'. destruct Hk; discriminate.
      + unfold pub_access in Ha. cbn in Ha. inversion Ha; subst. destruct Hk; discriminate.
    - exfalso. unfold pub_access in Ha. cbn in Ha. destruct (_ =? _); cbn in Ha; inversion Ha; subst; destruct Hk; discriminate.
    - exfalso. unfold pub_access in Ha. cbn in Ha. destruct (_ =? _); cbn in Ha; inversion Ha; subst; destruct Hk; discriminate.
    - exfalso. pose proof (Fin (Err AdminAction) l) as X. rewrite Ha in X. cbn in X. subst k'. destruct Hk; discriminate. Qed.

  (* two publishers never work on the same slot *)
  Lemma distinct_slots s gh P t1 t2 l1 l2 k1 k2 p o : AppInv c s gh P -> P t1 = Some l1 -> P t2 = Some l2 -> t1 <> t2 ->
    pub_access l1 = (k1, p, o) -> pub_access l2 = (k2, p, o) -> k1 <> WNone -> k2 <> WNone -> False.
  Proof. intros I H1 H2 Hne A1 A2 K1 K2. pose proof (iv_A c s gh P I) as A.
    assert (Q : forall t l k, P t = Some l -> pub_access l = (k, p, o) -> k <> WNone ->
              p = p_count l mod 3 /\ live c s gh (p_count l) /\ In (my_entry c t l) (g_claims gh (p_count l)) /\
              In o (map fst (efrags c (p_count l) (my_entry c t l)))).
    { intros t l k HP Ha Hk. pose proof (iv_thr c s gh P I t l HP) as HT. unfold pub_access in Ha.
      destruct (writing (p_pc l)) eqn:Ew.
      - assert (A1' : after_count (p_pc l) = true) by (destruct (p_pc l); try discriminate; reflexivity).
        destruct (idx_of_count c W s gh t l A HT A1') as (Hidx & _).
        destruct (wr_clauses c s gh t l HT Ew) as (_ & _ & (_ & _ & _ & Hin) & L & _ & Wr).
        pose proof (wr_offsets c W s t l Wr) as Ho.
        destruct (p_pc l); try discriminate Ew; inversion Ha; subst; rewrite Hidx; auto.
      - destruct (padding (p_pc l)) eqn:Ep; [|destruct (p_pc l); try discriminate; inversion Ha; subst; congruence].
        assert (A1' : after_count (p_pc l) = true) by (destruct (p_pc l); try discriminate; reflexivity).
        destruct (idx_of_count c W s gh t l A HT A1') as (Hidx & _).
        destruct (pad_clauses c s gh t l HT Ep) as (_ & _ & (_ & _ & _ & Hin) & L & B & _).
        pose proof (pad_efrags c t l B) as Hef.
        destruct (p_pc l); try discriminate Ep; inversion Ha; subst; rewrite Hidx; (split; [reflexivity|]); (split; [assumption|]); (split; [assumption|]); rewrite Hef; left; reflexivity. }
    destruct (Q t1 l1 k1 H1 A1 K1) as (P1 & L1 & E1 & O1). destruct (Q t2 l2 k2 H2 A2 K2) as (P2 & L2 & E2 & O2).
    assert (Hg : p_count l1 = p_count l2).
    { destruct L1 as (X1 & _). destruct L2 as (X2 & _). rewrite <- P1 in X1. rewrite <- P2 in X2. congruence. }
    rewrite Hg in *.
    apply (offs_disjoint c W s gh P (p_count l2) (my_entry c t1 l1) (my_entry c t2 l2) o A (iv_ent c s gh P I)); auto.
    - destruct L2; assumption.
    - intros E. apply (f_equal e_t) in E. cbn in E. contradiction. Qed.

  Lemma burst_next t s l s' l' e k p o : pstep c t s l = Some (s', l', e) -> pub_access l = (k, p, o) -> k = WNeg \/ k = WBurst ->
    exists k2, pub_access l' = (k2, p, o) /\ k2 <> WNone.
  Proof. intros Hstep Ha Hk. unfold pstep in Hstep. unfold pub_access in Ha.
    destruct (p_pc l) eqn:Hpc; try discriminate Hstep; inversion Hstep; subst s' l' e; clear Hstep;
      inversion Ha; subst k p o; try (destruct Hk; discriminate);
      try (eexists; split; [reflexivity | discriminate]).
    destruct (is_fragmented c (mlen l)); eexists; (split; [reflexivity | discriminate]). Qed.

  Lemma tick_now t s x h : now (tick t s x h) = S (now h).
  Proof. unfold tick. destruct x as [[l| |]|l]; try reflexivity.
    - destruct (pub_access l) as [[k p] o]. destruct k; reflexivity.
    - destruct (r_pc l); try reflexivity. destruct (_ <? _); reflexivity. Qed.

  Theorem reach3h_hb s th gh h : reach3h s th gh h -> HbInv s th h.
  Proof. induction 1 as [limit th Hinit Hone | s th gh h t s' x' e Hr IH Hadm Hnc Hstep].
    - constructor.
      + intros p o X. cbn in X. lia.
      + intros t l Ht. specialize (Hinit t). rewrite Ht in Hinit. destruct Hinit as (m & b & ->).
        unfold pub_access, p_start. destruct m; destruct b; exact I.
      + intros t l Ht Hon. specialize (Hinit t). rewrite Ht in Hinit. destruct Hinit as (polls & lim & ->).
        unfold r_start in Hon. destruct polls; discriminate.
    - pose proof (reach3_inv c W s th gh (reach3h_reach3 _ _ _ _ Hr)) as [I Isub Ird Ione].
      assert (Hr' : reach3 c s' (upd_thread th t x') (gstep3 c t s (th t) gh)) by (eapply reach3_step; eauto; eapply reach3h_reach3; eauto).
      pose proof (reach3_inv c W _ _ _ Hr') as [I' Isub' Ird' Ione'].
      destruct IH as [Hc Hw Hrd]. unfold rtstep in Hstep.
      destruct (th t) as [x | rl] eqn:Eth.
      + destruct (tstep c t s x) as [[[s1 x1] e1]|] eqn:Et; try discriminate. inversion Hstep; subst s' x' e. clear Hstep.
        unfold tstep in Et. destruct x as [l | l |]; try discriminate.
        * (* a publisher *)
          destruct (pstep c t s l) as [[[s2 l2] e2]|] eqn:Ep; try discriminate. inversion Et; subst s1 x1 e1. clear Et.
          assert (HP : pubs3 th t = Some l) by (unfold pubs3; rewrite Eth; reflexivity).
          assert (HP' : pubs3 (upd_thread th t (RApp (TPub l2))) t = Some l2) by (unfold pubs3, upd_thread; rewrite Nat.eqb_refl; reflexivity).
          destruct (pub_access l) as [[k p] o] eqn:Ea.
          assert (Hunc : k <> WNone -> s_len (sh_mem s p o) <= 0) by (intros X; eapply cur_slot_uncommitted; eauto).
          assert (Hother : forall p' o', (k = WNone \/ (p', o') <> (p, o)) -> sh_mem s2 p' o' = sh_mem s p' o').
          { intros p' o' X. apply (pstep_mem_other t s l s2 l2 e2 p o p' o' Ep); [rewrite Ea; reflexivity | rewrite Ea; reflexivity | rewrite Ea; exact X]. }
          assert (Hnow : now (tick t s (RApp (TPub l)) h) = S (now h)) by apply tick_now.
          assert (Hst : forall p' o', (k = WNone \/ (p', o') <> (p, o)) ->
                    wlast (tick t s (RApp (TPub l)) h) p' o' = wlast h p' o' /\ wwho (tick t s (RApp (TPub l)) h) p' o' = wwho h p' o' /\
                    lenlast (tick t s (RApp (TPub l)) h) p' o' = lenlast h p' o' /\ wrel (tick t s (RApp (TPub l)) h) p' o' = wrel h p' o' /\
                    relwho (tick t s (RApp (TPub l)) h) p' o' = relwho h p' o').
          { intros p' o' X. unfold tick. rewrite Ea. destruct k; cbn; unfold upd2;
              try (destruct X as [X | X]; [discriminate X|]; destruct ((p' =? p) && (o' =? o)) eqn:E;
                   [exfalso; apply X; f_equal; lia | repeat split; reflexivity]); repeat split; reflexivity. }
          assert (Hracq : racq (tick t s (RApp (TPub l)) h) = racq h) by (unfold tick; rewrite Ea; destruct k; reflexivity).
          assert (Keep : forall p' o', 0 < s_len (sh_mem s2 p' o') -> (k = WNone \/ (p', o') <> (p, o)) ->
                    (wlast (tick t s (RApp (TPub l)) h) p' o' < wrel (tick t s (RApp (TPub l)) h) p' o')%nat /\
                    wwho (tick t s (RApp (TPub l)) h) p' o' = relwho (tick t s (RApp (TPub l)) h) p' o' /\
                    lenlast (tick t s (RApp (TPub l)) h) p' o' = wrel (tick t s (RApp (TPub l)) h) p' o' /\
                    (wrel (tick t s (RApp (TPub l)) h) p' o' <= S (now h))%nat).
          { intros p' o' Hlen Hn. rewrite Hother in Hlen by assumption. destruct (Hst p' o' Hn) as (S1 & S2 & S3 & S4 & S5).
            rewrite S1, S2, S3, S4, S5. destruct (Hc p' o' Hlen) as (X1 & X2 & X3 & X4). repeat split; try assumption; lia. }
          assert (Stay : k = WNeg \/ k = WBurst -> s_len (sh_mem s2 p o) <= 0).
          { intros Hk. destruct (burst_next t s l s2 l2 e2 k p o Ep Ea Hk) as (k2 & Ea2 & Hk2).
            eapply (cur_slot_uncommitted _ _ _ t l2 k2 p o I' HP' Ea2 Hk2). }
          constructor.
          -- intros p' o' Hlen. rewrite Hnow.
             destruct (Z.eq_dec p' p) as [-> | Hpp]; [destruct (Z.eq_dec o' o) as [-> | Hoo]|].
             ++ destruct k.
                ** exfalso. specialize (Stay (or_intror eq_refl)). lia.
                ** exfalso. specialize (Stay (or_introl eq_refl)). lia.
                ** unfold tick. rewrite Ea. cbn. unfold upd2. rewrite !Z.eqb_refl. cbn.
                   specialize (Hw t l Eth). rewrite Ea in Hw. destruct Hw as (Hw1 & Hw2). repeat split; try lia; try assumption.
                ** apply Keep; auto.
             ++ apply Keep; auto. right. intros E. inversion E. contradiction.
             ++ apply Keep; auto. right. intros E. inversion E. contradiction.
          -- intros t' l' Ht'. unfold upd_thread in Ht'. rewrite Hnow. destruct (Nat.eqb t' t) eqn:E.
             ++ apply Nat.eqb_eq in E. subst t'. inversion Ht'; subst l'.
                destruct (pub_access l2) as [[k2 p2] o2] eqn:Ea2.
                assert (B : k2 = WBurst \/ k2 = WCommit -> wwho (tick t s (RApp (TPub l)) h) p2 o2 = t /\ (wlast (tick t s (RApp (TPub l)) h) p2 o2 <= S (now h))%nat).
                { intros Hk2. destruct (burst_succ t s l s2 l2 e2 k2 p2 o2 Ep Ea2 Hk2) as (k0 & Ea0 & Hk0).
                  rewrite Ea in Ea0. inversion Ea0; subst k0 p2 o2.
                  unfold tick. rewrite Ea. destruct Hk0 as [-> | ->]; cbn; unfold upd2; rewrite !Z.eqb_refl; cbn; split; [reflexivity | lia | reflexivity | lia]. }
                destruct k2; try exact Logic.I; apply B; auto.
             ++ assert (Ht2 : th t' = RApp (TPub l')) by exact Ht'.
                pose proof (Hw t' l' Ht2) as Hw'. destruct (pub_access l') as [[k' p'] o'] eqn:Ea'.
                assert (Hd : k' = WBurst \/ k' = WCommit -> k = WNone \/ (p', o') <> (p, o)).
                { intros Hk'. destruct k eqn:Ek; try (left; reflexivity); right; intros Eq; inversion Eq; subst p' o';
                    (eapply (distinct_slots s gh (pubs3 th) t' t l' l k' _ p o I);
                     [unfold pubs3; rewrite Ht2; reflexivity | exact HP | apply Nat.eqb_neq; assumption | exact Ea' | exact Ea
                      | destruct Hk' as [-> | ->]; discriminate | discriminate]). }
                destruct k'; try exact Logic.I.
                ** destruct (Hst p' o' (Hd (or_introl eq_refl))) as (S1 & S2 & _). rewrite S1, S2. destruct Hw'. split; [assumption | lia].
                ** destruct (Hst p' o' (Hd (or_intror eq_refl))) as (S1 & S2 & _). rewrite S1, S2. destruct Hw'. split; [assumption | lia].
          -- intros t' l' Ht' Hon. unfold upd_thread in Ht'. destruct (Nat.eqb t' t) eqn:E; [discriminate|]. rewrite Hnow, Hracq.
             destruct (Hrd t' l' Ht' Hon) as (X1 & X2).
             destruct (Ird t' l' Ht') as (_ & R2 & _). destruct (R2 Hon) as (_ & B2 & B3 & _).
             assert (Hn : k = WNone \/ (rd_gen c l' mod 3, r_foff l') <> (p, o)).
             { destruct k; try (left; reflexivity); right; intros Eq; inversion Eq; subst p o;
                 (assert (Y : s_len (sh_mem s (rd_gen c l' mod 3) (r_foff l')) <= 0) by (apply Hunc; discriminate)); lia. }
             destruct (Hst _ _ Hn) as (_ & _ & _ & S4 & _). rewrite S4. split; [assumption | lia].
        * (* the environment: only the limit *)
          unfold estep in Et. destruct (e_ops l) as [|op r] eqn:Eops; try discriminate.
          destruct op as [v | pp]; [|cbn in Hnc; rewrite Eops in Hnc; destruct Hnc].
          inversion Et; subst s1 x1 e1. clear Et.
          change (tick t s (RApp (TEnv l)) h) with (mkSt (S (now h)) (wlast h) (wwho h) (lenlast h) (wrel h) (relwho h) (racq h)).
          constructor.
          -- intros p' o' Hlen. cbn in Hlen. destruct (Hc p' o' Hlen) as (X1 & X2 & X3 & X4). cbn. repeat split; try assumption; lia.
          -- intros t' l' Ht'. unfold upd_thread in Ht'. destruct (Nat.eqb t' t) eqn:E; [discriminate|].
             pose proof (Hw t' l' Ht') as Hw'. destruct (pub_access l') as [[k' p'] o']. cbn.
             destruct k'; try exact Logic.I; destruct Hw'; split; try assumption; lia.
          -- intros t' l' Ht' Hon. unfold upd_thread in Ht'. destruct (Nat.eqb t' t) eqn:E; [discriminate|].
             destruct (Hrd t' l' Ht' Hon). cbn. split; [assumption | lia].
      + (* the subscriber *)
        destruct (rstep c t s rl) as [[[s1 l1] e1]|] eqn:Er; try discriminate. inversion Hstep; subst s' x' e. clear Hstep.
        assert (Hmem : sh_mem s1 = sh_mem s).
        { unfold rstep in Er. destruct (r_pc rl); try discriminate Er; inversion Er; subst; reflexivity. }
        assert (Hsl : forall p o, wlast (tick t s (RRd rl) h) p o = wlast h p o /\ wwho (tick t s (RRd rl) h) p o = wwho h p o /\
                  lenlast (tick t s (RRd rl) h) p o = lenlast h p o /\ wrel (tick t s (RRd rl) h) p o = wrel h p o /\
                  relwho (tick t s (RRd rl) h) p o = relwho h p o).
        { intros p o. unfold tick. destruct (r_pc rl); try (repeat split; reflexivity). destruct (_ <? _); repeat split; reflexivity. }
        pose proof (tick_now t s (RRd rl) h) as Hnow.
        constructor.
        -- intros p o Hlen. rewrite Hmem in Hlen. destruct (Hsl p o) as (S1 & S2 & S3 & S4 & S5). rewrite S1, S2, S3, S4, S5, Hnow.
           destruct (Hc p o Hlen) as (X1 & X2 & X3 & X4). repeat split; try assumption; lia.
        -- intros t' l' Ht'. unfold upd_thread in Ht'. destruct (Nat.eqb t' t) eqn:E; [discriminate|].
           pose proof (Hw t' l' Ht') as Hw'. destruct (pub_access l') as [[k' p'] o']. destruct (Hsl p' o') as (S1 & S2 & _). rewrite Hnow.
           destruct k'; try exact Logic.I; rewrite S1, S2; destruct Hw'; split; try assumption; lia.
        -- intros t' l' Ht' Hon. unfold upd_thread in Ht'. destruct (Nat.eqb t' t) eqn:E.
           ++ apply Nat.eqb_eq in E. subst t'. inversion Ht'; subst l'. rewrite Hnow.
              destruct (Hsl (rd_gen c l1 mod 3) (r_foff l1)) as (_ & _ & _ & S4 & _). rewrite S4.
              pose proof (Ird t rl Eth) as Hrl.
              unfold rstep in Er. destruct (r_pc rl) eqn:Hpc; try discriminate Er; inversion Er; subst s1 l1 e1; clear Er.
              ** (* RPos: the loop head is never on a frame *)
                 exfalso. unfold r_loop, r_end, r_finish, r_start, rl_pc in Hon.
                 repeat match type of Hon with context [if ?b then _ else _] => destruct b end; try destruct (pred _); cbn in Hon; discriminate.
              ** (* RLen *)
                 destruct Hrl as (R1 & _). rewrite Hpc in R1. destruct (R1 eq_refl) as (_ & _ & A3 & _).
                 destruct (s_len (sh_mem s (r_idx c rl) (r_off rl)) <=? 0) eqn:El.
                 --- exfalso. unfold r_end, r_finish, r_start, rl_pc in Hon.
                     repeat match type of Hon with context [if ?b then _ else _] => destruct b end; try destruct (pred _); cbn in Hon; discriminate.
                 --- cbn [rl_pc r_foff r_pos]. change (rd_gen c (rl_pc _ RType)) with (rd_gen c rl). cbn [r_foff rl_pc].
                     unfold tick. rewrite Hpc. replace (0 <? s_len (sh_mem s (r_idx c rl) (r_off rl))) with true by lia.
                     cbn [racq now]. unfold upd1. rewrite Nat.eqb_refl. rewrite <- A3.
                     destruct (Hc (r_idx c rl) (r_off rl) ltac:(lia)) as (_ & _ & _ & X4). split; lia.
              ** (* RType *)
                 assert (Hon0 : on_frame (r_pc rl) = true) by (rewrite Hpc; reflexivity). destruct (Hrd t rl Eth Hon0) as (X1 & X2).
                 destruct (_ =? T_PAD).
                 --- exfalso. unfold r_loop, r_end, r_finish, r_start, rl_pc in Hon.
                     repeat match type of Hon with context [if ?b then _ else _] => destruct b end; try destruct (pred _); cbn in Hon; discriminate.
                 --- change (rd_gen c (rl_pc rl RFlags)) with (rd_gen c rl). cbn [rl_pc r_foff]. unfold tick. rewrite Hpc. cbn [racq]. split; [assumption | lia].
              ** (* RFlags *)
                 assert (Hon0 : on_frame (r_pc rl) = true) by (rewrite Hpc; reflexivity). destruct (Hrd t rl Eth Hon0) as (X1 & X2).
                 unfold rd_gen in *. cbn [r_pos r_foff]. unfold tick. rewrite Hpc. cbn [racq]. split; [assumption | lia].
              ** (* RBody: back to the loop head *)
                 exfalso. unfold r_loop, r_end, r_finish, r_start, rl_pc in Hon.
                 repeat match type of Hon with context [if ?b then _ else _] => destruct b end; try destruct (pred _); cbn in Hon; discriminate.
              ** exfalso. unfold r_finish, r_start in Hon. destruct (pred _); cbn in Hon; discriminate.
           ++ apply Nat.eqb_neq in E. exfalso. apply E. eapply Ione; eauto. Qed.

  (* ---- the statements ---- *)

  (* every plain read the subscriber makes of a frame it is on is ordered after every write that produced the frame:
       last burst write (wlast) --po--> release write of the length (wrel, same thread) --rf--> the subscriber's acquire
       read (racq; no write to the length word in between: lenlast = wrel) --po--> now *)
  Theorem hb_chain s th gh h t l : reach3h s th gh h -> th t = RRd l -> on_frame (r_pc l) = true ->
    let p := rd_gen c l mod 3 in let o := r_foff l in
    (wlast h p o < wrel h p o)%nat /\ wwho h p o = relwho h p o /\ lenlast h p o = wrel h p o /\
    (wrel h p o < racq h t)%nat /\ (racq h t <= now h)%nat.
  Proof. intros Hr Ht Hon. destruct (reach3h_hb s th gh h Hr) as [Hc _ Hrd].
    destruct (reach3_inv c W s th gh (reach3h_reach3 _ _ _ _ Hr)) as [_ _ Ird _].
    destruct (Ird t l Ht) as (_ & R2 & _). destruct (R2 Hon) as (_ & B2 & B3 & _).
    cbn zeta. destruct (Hc (rd_gen c l mod 3) (r_foff l) ltac:(lia)) as (X1 & X2 & X3 & _).
    destruct (Hrd t l Ht Hon) as (Y1 & Y2). auto. Qed.

  (* two publishers are never inside the same frame slot: plain writes of different publishers never touch a common byte *)
  Theorem single_writer s th gh h t1 t2 l1 l2 k1 k2 p o : reach3h s th gh h ->
    th t1 = RApp (TPub l1) -> th t2 = RApp (TPub l2) -> t1 <> t2 ->
    pub_access l1 = (k1, p, o) -> pub_access l2 = (k2, p, o) -> k1 <> WNone -> k2 <> WNone -> False.
  Proof. intros Hr H1 H2 Hne A1 A2 K1 K2.
    destruct (reach3_inv c W s th gh (reach3h_reach3 _ _ _ _ Hr)) as [I _ _ _].
    apply (distinct_slots s gh (pubs3 th) t1 t2 l1 l2 k1 k2 p o I); auto; unfold pubs3; [rewrite H1 | rewrite H2]; reflexivity. Qed.

  (* a publisher never writes into a frame the subscriber is on (nor into any committed frame) *)
  Theorem no_write_under_reader s th gh h t l tw lw k p o : reach3h s th gh h ->
    th t = RRd l -> on_frame (r_pc l) = true -> th tw = RApp (TPub lw) -> pub_access lw = (k, p, o) -> k <> WNone ->
    (p, o) <> (rd_gen c l mod 3, r_foff l).
  Proof. intros Hr Ht Hon Hw Ha Hk E. inversion E; subst p o.
    destruct (reach3_inv c W s th gh (reach3h_reach3 _ _ _ _ Hr)) as [I _ Ird _].
    destruct (Ird t l Ht) as (_ & R2 & _). destruct (R2 Hon) as (_ & B2 & B3 & _).
    assert (HP : pubs3 th tw = Some lw) by (unfold pubs3; rewrite Hw; reflexivity).
    pose proof (cur_slot_uncommitted s gh (pubs3 th) tw lw k _ _ I HP Ha Hk). lia. Qed.
End Hb.
