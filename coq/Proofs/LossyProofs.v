(* Theorems about the lossy-channel specification (Spec/Lossy.v) alone: order, completeness
   while never lapped, report and restart when lapped.  No byte memory here. *)
Require Import V.Base.MachineInt.
Require Import V.Generated.GenConsts.
Require Import V.Model.Broadcast.
Require Import V.Spec.Lossy.
Require Import V.Proofs.BroadcastMem.
Require Import V.Proofs.BroadcastInv.
From Coq Require Import ZifyBool Znumtheory.
Open Scope Z_scope.

(* ---- subsequences ---- *)
Lemma subseq_refl {A} (l : list A) : subseq l l.
Proof. induction l; constructor; auto. Qed.
Lemma subseq_app {A} (a a' b b' : list A) : subseq a a' -> subseq b b' -> subseq (a ++ b) (a' ++ b').
Proof.
  intros H1 H2. induction H1; cbn.
  - induction l; cbn; auto. constructor; auto.
  - constructor; auto.
  - constructor; auto.
Qed.
Lemma subseq_trans {A} (a b c : list A) : subseq a b -> subseq b c -> subseq a c.
Proof.
  intros H1 H2. revert a H1. induction H2; intros a H1.
  - inversion H1; subst. constructor.
  - inversion H1; subst.
    + constructor.
    + constructor. auto.
    + constructor. auto.
  - constructor. auto.
Qed.
Lemma subseq_filter_map {A B} (h : A -> B) (f g : A -> bool) l :
  (forall x, In x l -> f x = true -> g x = true) -> subseq (map h (filter f l)) (map h (filter g l)).
Proof.
  induction l as [|x l IH]; intros H; cbn; [constructor|].
  assert (IH' : subseq (map h (filter f l)) (map h (filter g l))) by (apply IH; intros; apply H; auto; now right).
  destruct (f x) eqn:F.
  - rewrite (H x (or_introl eq_refl) F). cbn. constructor; auto.
  - destruct (g x); cbn; auto. constructor; auto.
Qed.
Lemma subseq_length {A} (a b : list A) : subseq a b -> (length a <= length b)%nat.
Proof. induction 1; cbn; lia. Qed.

Lemma find_split {A} (f : A -> bool) l e :
  find f l = Some e -> exists l1 l2, l = l1 ++ e :: l2 /\ Forall (fun x => f x = false) l1 /\ f e = true.
Proof.
  induction l as [|x l IH]; cbn; [discriminate|]. destruct (f x) eqn:F.
  - intros E. injection E as <-. exists [], l. auto.
  - intros E. destruct (IH E) as (l1 & l2 & -> & F1 & F2). exists (x :: l1), l2. auto.
Qed.
Lemma filter_nil {A} (f : A -> bool) l : (forall x, In x l -> f x = false) -> filter f l = [].
Proof. induction l as [|x l IH]; intros H; cbn; auto. rewrite (H x (or_introl eq_refl)). apply IH. intros; apply H; now right. Qed.
Lemma find_none_filter {A} (f : A -> bool) l : find f l = None -> filter f l = [].
Proof. induction l as [|x l IH]; cbn; auto. destruct (f x); [discriminate|auto]. Qed.

(* ---- the channel ---- *)
Definition msg (e : ent) : Z * list Z := (e_ty e, e_bs e).
Definition fsel (n : Z) (e : ent) : bool := (n <=? e_pos e) && negb (is_pad e).
Definition pending (ch : chan) (n : Z) : list (Z * list Z) := map msg (filter (fsel n) (c_log ch)).

Record sinv (ch : chan) : Prop := {
  si_chain : exists a, chain a (c_log ch) (c_tail ch);
  si_al : c_tail ch mod 8 = 0;
  si_pos : Forall (fun e => e_pos e < e_end e) (c_log ch);
  si_len : Forall (fun e => is_pad e = false -> e_len e = 8 + Z.of_nat (length (e_bs e))) (c_log ch)
}.

Lemma chain_bounds' l : forall a b, Forall (fun e => e_pos e < e_end e) l -> chain a l b ->
  a <= b /\ Forall (fun e => a <= e_pos e /\ e_end e <= b) l.
Proof.
  induction l as [|e r IH]; intros a b W C; cbn in C.
  - subst. split; [lia|constructor].
  - destruct C as [E C]. inversion W; subst. destruct (IH _ _ H2 C) as [Le F].
    split; [lia|]. constructor; [lia|]. eapply Forall_impl; [|exact F]. cbn. intros x ?. lia.
Qed.

Lemma pending_tail ch : sinv ch -> pending ch (c_tail ch) = [].
Proof.
  intros [[a C] _ P _]. unfold pending. destruct (chain_bounds' _ _ _ P C) as [_ F].
  rewrite filter_nil; auto. rewrite Forall_forall in *. intros x Hx.
  unfold fsel. apply andb_false_intro1. pose proof (F x Hx). pose proof (P x Hx). lia.
Qed.

Lemma pending_mono ch n n' : n <= n' -> subseq (pending ch n') (pending ch n).
Proof.
  intros H. apply subseq_filter_map. intros x _. unfold fsel. intros F.
  apply andb_prop in F. destruct F as [F1 F2]. rewrite F2. rewrite andb_true_r. lia.
Qed.

Section Spec.
Variable cap : Z.
Hypothesis Hcap : 0 < cap.
Hypothesis Hcap8 : cap mod 8 = 0.

Lemma sinv_init c0 : c0 mod 8 = 0 -> sinv (chan_init c0).
Proof. intros H. constructor; cbn; [exists c0; reflexivity|auto|constructor|constructor]. Qed.

(* what an accepted transmit does to the channel *)
Lemma spec_transmit_accepted ch ty bs :
  sinv ch -> accepted cap ty bs = true ->
  let ch' := fst (spec_transmit cap ch ty bs) in
  snd (spec_transmit cap ch ty bs) = TxOk /\ sinv ch' /\ c_tail ch <= c_tail ch' /\
  forall n, n <= c_tail ch -> pending ch' n = pending ch n ++ [(ty, bs)].
Proof.
  intros [[a C] T8 P L] Acc. unfold accepted in Acc. apply andb_prop in Acc. destruct Acc as [A1 A2].
  apply negb_true_iff in A1. apply negb_true_iff in A2. apply Z.ltb_ge in A1.
  unfold spec_transmit. rewrite A2. replace (ty <? 1) with false by lia. cbn zeta.
  pose proof (Z.mod_pos_bound (c_tail ch) cap Hcap) as Hm.
  pose proof (align8_bounds (Z.of_nat (length bs) + 8)) as AB.
  unfold new_ents. set (T := c_tail ch) in *. set (te := cap - T mod cap).
  assert (Np : forall t, 1 <= t -> (t =? -1) = false) by (intros; lia).
  destruct (te <? align (Z.of_nat (length bs) + 8) 8) eqn:Pad; cbn [fst snd last]; unfold e_end; cbn [c_tail c_log e_pos e_len].
  - assert (AT : align te 8 = te).
    { apply align8_id. subst te. rewrite Zminus_mod, Hcap8, <- (Zmod_div_mod 8 cap T), T8 by (try lia; apply Z.mod_divide; auto; lia). reflexivity. }
    assert (te8 : te mod 8 = 0) by (rewrite <- AT; pose proof (align8_bounds te); lia).
    split; [reflexivity|]. split; [constructor; cbn [c_tail c_log]|split].
    + exists a. apply chain_app. exists T. split; auto. cbn [chain]. unfold e_end; cbn [e_pos e_len]. rewrite AT. repeat split; lia.
    + rewrite Z.add_mod, (Z.add_mod T), T8, te8 by lia.
      replace (align (Z.of_nat (length bs) + 8) 8 mod 8) with 0 by lia. reflexivity.
    + apply Forall_app. split; auto. repeat constructor; unfold e_end; cbn [e_pos e_len]; lia.
    + apply Forall_app. split; auto. repeat constructor; unfold is_pad; cbn [e_ty e_len e_bs]; intros; lia.
    + lia.
    + intros n Hn. unfold pending. cbn [c_log]. rewrite filter_app, map_app. f_equal.
      cbn [filter]. unfold fsel, is_pad. cbn [e_pos e_ty]. rewrite (Np ty A1).
      replace (-1 =? -1) with true by reflexivity. cbn [negb]. rewrite andb_false_r.
      replace (n <=? T + te) with true by lia. reflexivity.
  - split; [reflexivity|]. split; [constructor; cbn [c_tail c_log]|split].
    + exists a. apply chain_app. exists T. split; auto. cbn [chain]. unfold e_end; cbn [e_pos e_len]. repeat split; lia.
    + rewrite Z.add_mod, T8 by lia. replace (align (Z.of_nat (length bs) + 8) 8 mod 8) with 0 by lia. reflexivity.
    + apply Forall_app. split; auto. repeat constructor; unfold e_end; cbn [e_pos e_len]; lia.
    + apply Forall_app. split; auto. repeat constructor; unfold is_pad; cbn [e_ty e_len e_bs]; intros; lia.
    + lia.
    + intros n Hn. unfold pending. cbn [c_log]. rewrite filter_app, map_app. f_equal.
      cbn [filter]. unfold fsel, is_pad. cbn [e_pos e_ty]. rewrite (Np ty A1).
      replace (n <=? T) with true by lia. reflexivity.
Qed.

Lemma spec_transmit_rejected ch ty bs :
  accepted cap ty bs = false -> fst (spec_transmit cap ch ty bs) = ch /\ exists e, snd (spec_transmit cap ch ty bs) = TxErr e.
Proof.
  unfold accepted, spec_transmit. intros A. destruct (ty <? 1); [cbn; split; eauto|].
  destruct (Z.of_nat (length bs) >? cap / 8); [cbn; split; eauto|]. discriminate A.
Qed.

(* a receiver position is sane when it does not lie beyond the tail *)
Definition rx_ok (s : sst) : Prop := sinv (s_ch s) /\ s_next (s_rx s) <= c_tail (s_ch s).

(* the three outcomes of a receive *)
Lemma spec_receive_cases ch r :
  sinv ch -> s_next r <= c_tail ch ->
  (backlog ch r <= 0 /\ spec_receive cap ch r = Some (r, RNone) /\ pending ch (s_next r) = []) \/
  (cap <= backlog ch r /\
   spec_receive cap ch r = Some ({| s_next := c_tail ch; s_lapped := s_lapped r + 1 |}, RErr UnableToKeepUp)) \/
  (0 < backlog ch r < cap /\
   ((spec_receive cap ch r = Some (r, RNone) /\ pending ch (s_next r) = []) \/
    exists e, In e (c_log ch) /\ is_pad e = false /\ s_next r <= e_pos e /\ e_end e <= c_tail ch /\
      pending ch (s_next r) = msg e :: pending ch (e_end e) /\
      spec_receive cap ch r =
        (let r' := {| s_next := e_end e; s_lapped := s_lapped r |} in
         if Z.of_nat (length (e_bs e)) >? SCRATCH then Some (r', RErr InsufficientCapacity)
         else if negb (known_type (e_ty e)) then None else Some (r', RMsg (e_ty e) (e_bs e))))).
Proof.
  intros SI Le. pose proof SI as [[a C] _ P L]. unfold spec_receive.
  destruct (backlog ch r <=? 0) eqn:B0.
  { left. repeat split; auto; try lia. unfold backlog in B0.
    replace (s_next r) with (c_tail ch) by lia. now apply pending_tail. }
  right. destruct (cap <=? backlog ch r) eqn:B1.
  { left. split; [lia|reflexivity]. }
  right. split; [lia|]. unfold next_msg. fold (fsel (s_next r)).
  destruct (find (fsel (s_next r)) (c_log ch)) as [e|] eqn:F.
  - right. exists e. destruct (find_split _ _ _ F) as (l1 & l2 & E & F1 & F2).
    unfold fsel in F2. apply andb_prop in F2. destruct F2 as [G1 G2]. apply negb_true_iff in G2.
    rewrite E in C, P, L. apply chain_app in C. destruct C as [c [C1 [Pe C2]]].
    apply Forall_app in P. destruct P as [P1 P2]. inversion P2 as [|? ? Pe' P2']; subst.
    destruct (chain_bounds' _ _ _ P1 C1) as [_ B1'].
    destruct (chain_bounds' _ _ _ P2' C2) as [Le2 B2'].
    apply Forall_app in L. destruct L as [_ L2]. inversion L2 as [|? ? Le' _]; subst. specialize (Le' G2).
    repeat split; auto.
    + rewrite E. apply in_or_app. right. now left.
    + lia.
    + unfold pending. rewrite E, !filter_app, !map_app. cbn [filter].
      rewrite (filter_nil (fsel (s_next r)) l1) by (rewrite Forall_forall in F1; exact F1).
      rewrite (filter_nil (fsel (e_end e)) l1).
      2:{ rewrite Forall_forall in B1', P1. intros x Hx. unfold fsel. apply andb_false_intro1. pose proof (B1' x Hx). pose proof (P1 x Hx). lia. }
      assert (Fe : fsel (s_next r) e = true) by (unfold fsel; rewrite G2; cbn; lia).
      assert (Fe' : fsel (e_end e) e = false) by (unfold fsel; apply andb_false_intro1; lia).
      rewrite Fe, Fe'. cbn [app map]. f_equal. f_equal.
      apply filter_ext_in. rewrite Forall_forall in B2'. intros x Hx. unfold fsel. pose proof (B2' x Hx). f_equal. lia.
    + cbn zeta. rewrite Le'. replace (8 + Z.of_nat (length (e_bs e)) - 8) with (Z.of_nat (length (e_bs e))) by lia.
      reflexivity.
  - left. split; auto. unfold pending. now rewrite (find_none_filter _ _ F).
Qed.

(* ---- order: whatever is delivered is a subsequence of what is still pending plus what is transmitted later ---- *)
Lemma delivered_erase os : delivered (map (fun o => match o with Words _ => Words [] | x => x end) os) = delivered os.
Proof. induction os as [|o os IH]; cbn; auto. destruct o; cbn; auto. destruct r; cbn; auto. now rewrite IH. Qed.

Theorem spec_order h : forall s, rx_ok s ->
  subseq (delivered (spec_run cap s h)) (pending (s_ch s) (s_next (s_rx s)) ++ transmitted cap h).
Proof.
  induction h as [|o h IH]; intros [ch r] [SI Le]; cbn [s_ch s_rx] in *; [constructor|].
  cbn [spec_run]. destruct o as [ty bs| |]; unfold spec_step; cbn [s_ch s_rx transmitted].
  - destruct (accepted cap ty bs) eqn:Acc.
    + destruct (spec_transmit_accepted ch ty bs SI Acc) as (S & SI' & LeT & Pn).
      destruct (spec_transmit cap ch ty bs) as [ch' ob]. cbn [fst snd] in *. subst ob. cbn [delivered].
      specialize (IH {| s_ch := ch'; s_rx := r |}). cbn [s_ch s_rx] in IH.
      rewrite Pn in IH by lia. rewrite <- app_assoc in IH. apply IH. split; auto. cbn. lia.
    + destruct (spec_transmit_rejected ch ty bs Acc) as (E & e & S).
      destruct (spec_transmit cap ch ty bs) as [ch' ob]. cbn [fst snd] in *. subst. cbn [delivered].
      apply (IH {| s_ch := ch; s_rx := r |}). split; auto.
  - destruct (spec_receive_cases ch r SI Le) as [(B & E & Pn)|[(B & E)|(B & [(E & Pn)|(e & In & Np & Pe & Ee & Pn & E)])]]; rewrite E.
    + cbn [delivered]. apply (IH {| s_ch := ch; s_rx := r |}). split; auto.
    + cbn [delivered]. eapply subseq_trans.
      * apply (IH {| s_ch := ch; s_rx := {| s_next := c_tail ch; s_lapped := s_lapped r + 1 |} |}). split; auto. cbn. lia.
      * cbn [s_ch s_rx s_next]. apply subseq_app; [|apply subseq_refl]. now apply pending_mono.
    + cbn [delivered]. apply (IH {| s_ch := ch; s_rx := r |}). split; auto.
    + cbn zeta. rewrite Pn.
      assert (IH' := IH {| s_ch := ch; s_rx := {| s_next := e_end e; s_lapped := s_lapped r |} |}).
      cbn [s_ch s_rx s_next] in IH'.
      destruct (Z.of_nat (length (e_bs e)) >? SCRATCH).
      * cbn [delivered app]. constructor. apply IH'. split; auto.
      * destruct (negb (known_type (e_ty e))); [cbn; constructor|].
        cbn [delivered app]. unfold msg. constructor. apply IH'. split; auto.
  - cbn [delivered]. apply (IH {| s_ch := ch; s_rx := r |}). split; auto.
Qed.

(* ---- completeness while never lapped ---- *)
Fixpoint never_lapped (s : sst) (h : list op) : Prop :=
  match h with
  | [] => True
  | o :: rest =>
      (match o with Receive => backlog (s_ch s) (s_rx s) < cap | _ => True end) /\
      match spec_step cap s o with (Some s', _) => never_lapped s' rest | (None, _) => True end
  end.

Fixpoint spec_final (s : sst) (h : list op) : sst :=
  match h with
  | [] => s
  | o :: rest => match spec_step cap s o with (Some s', _) => spec_final s' rest | (None, _) => s end
  end.

(* fits the copying receiver's scratch buffer and names an event the client knows *)
Definition deliverable (p : Z * list Z) : Prop :=
  known_type (fst p) = true /\ Z.of_nat (length (snd p)) <= SCRATCH.

Definition clean (o : obs) : Prop :=
  match o with Rx _ (RErr _) => False | OPanic => False | OCrash => False | _ => True end.

Theorem spec_complete h : forall s, rx_ok s -> never_lapped s h ->
  Forall deliverable (pending (s_ch s) (s_next (s_rx s))) -> Forall deliverable (transmitted cap h) ->
  Forall clean (spec_run cap s h) /\
  delivered (spec_run cap s h) ++ pending (s_ch (spec_final s h)) (s_next (s_rx (spec_final s h)))
    = pending (s_ch s) (s_next (s_rx s)) ++ transmitted cap h /\
  s_lapped (s_rx (spec_final s h)) = s_lapped (s_rx s).
Proof.
  induction h as [|o h IH]; intros [ch r] [SI Le] NL Dp Dt; cbn [s_ch s_rx] in *.
  { cbn. rewrite app_nil_r. auto. }
  cbn [never_lapped] in NL. destruct NL as [NL1 NL2].
  cbn [spec_run spec_final]. destruct o as [ty bs| |]; unfold spec_step in *; cbn [s_ch s_rx transmitted] in *.
  - destruct (accepted cap ty bs) eqn:Acc.
    + destruct (spec_transmit_accepted ch ty bs SI Acc) as (S & SI' & LeT & Pn).
      destruct (spec_transmit cap ch ty bs) as [ch' ob]. cbn [fst snd] in *. subst ob. cbn [delivered].
      apply Forall_cons_iff in Dt. destruct Dt as [D1 D2].
      destruct (IH {| s_ch := ch'; s_rx := r |}) as (A & B & C); cbn [s_ch s_rx]; auto.
      * split; auto. cbn. lia.
      * rewrite Pn by lia. apply Forall_app. split; auto.
      * split; [constructor; [exact Logic.I|exact A]|]. split; auto.
        cbn [s_ch s_rx] in B. rewrite B, Pn by lia. now rewrite <- app_assoc.
    + destruct (spec_transmit_rejected ch ty bs Acc) as (E & e & S).
      destruct (spec_transmit cap ch ty bs) as [ch' ob]. cbn [fst snd] in *. subst. cbn [delivered].
      assert (ROK : rx_ok {| s_ch := ch; s_rx := r |}) by (split; auto).
      destruct (IH _ ROK NL2 Dp Dt) as (A & B & C).
      split; [constructor; [exact Logic.I|exact A]|]. auto.
  - assert (ROK : rx_ok {| s_ch := ch; s_rx := r |}) by (split; auto).
    destruct (spec_receive_cases ch r SI Le) as [(B & E & Pn)|[(B & E)|(B & [(E & Pn)|(e & In & Np & Pe & Ee & Pn & E)])]];
      try lia; rewrite E in *.
    + cbn [delivered]. destruct (IH _ ROK NL2 Dp Dt) as (A & B' & C).
      split; [constructor; [exact Logic.I|exact A]|]. auto.
    + cbn [delivered]. destruct (IH _ ROK NL2 Dp Dt) as (A & B' & C).
      split; [constructor; [exact Logic.I|exact A]|]. auto.
    + cbn zeta in *. rewrite Pn in Dp. apply Forall_cons_iff in Dp. destruct Dp as [[K S] Dp'].
      unfold msg in K, S. cbn [fst snd] in K, S.
      replace (Z.of_nat (length (e_bs e)) >? SCRATCH) with false in * by lia. rewrite K in *. cbn [negb] in *.
      cbn [delivered].
      assert (ROK' : rx_ok {| s_ch := ch; s_rx := {| s_next := e_end e; s_lapped := s_lapped r |} |}) by (split; auto).
      destruct (IH _ ROK' NL2 Dp' Dt) as (A & B' & C). cbn [s_ch s_rx s_next s_lapped] in *.
      split; [constructor; [exact Logic.I|exact A]|]. split; auto.
      rewrite Pn. cbn [app]. unfold msg. f_equal. exact B'.
  - cbn [delivered]. assert (ROK : rx_ok {| s_ch := ch; s_rx := r |}) by (split; auto).
    destruct (IH _ ROK NL2 Dp Dt) as (A & B' & C).
    split; [constructor; [exact Logic.I|exact A]|]. auto.
Qed.

(* a receive that finds nothing means nothing transmitted so far is outstanding *)
Theorem spec_drained ch r r' :
  sinv ch -> s_next r <= c_tail ch -> spec_receive cap ch r = Some (r', RNone) -> pending ch (s_next r) = [].
Proof.
  intros SI Le E.
  destruct (spec_receive_cases ch r SI Le) as [(B & E' & Pn)|[(B & E')|(B & [(E' & Pn)|(e & In & Np & Pe & Ee & Pn & E')])]]; auto.
  - rewrite E' in E. discriminate E.
  - rewrite E' in E. cbn zeta in E. destruct (Z.of_nat (length (e_bs e)) >? SCRATCH); [discriminate E|].
    destruct (negb (known_type (e_ty e))); discriminate E.
Qed.

(* lapped: the loss is reported, nothing is delivered, and the receiver restarts behind everything
   transmitted so far - whatever it delivers afterwards was transmitted afterwards *)
Theorem spec_overrun ch r h :
  sinv ch -> s_next r <= c_tail ch -> cap <= backlog ch r ->
  let r' := {| s_next := c_tail ch; s_lapped := s_lapped r + 1 |} in
  spec_receive cap ch r = Some (r', RErr UnableToKeepUp) /\
  pending ch (s_next r') = [] /\
  subseq (delivered (spec_run cap {| s_ch := ch; s_rx := r' |} h)) (transmitted cap h).
Proof.
  intros SI Le B r'.
  destruct (spec_receive_cases ch r SI Le) as [(B' & _)|[(_ & E)|(B' & _)]]; try lia.
  split; auto. assert (P : pending ch (s_next r') = []) by (apply pending_tail; auto). split; auto.
  pose proof (spec_order h {| s_ch := ch; s_rx := r' |}) as O. cbn [s_ch s_rx] in O. rewrite P in O.
  apply O. split; auto. cbn. lia.
Qed.

(* invariants of the initial state of a history *)
Lemma spec_pre_inv pre : forall ch, sinv ch -> c_latest ch <= c_tail ch ->
  sinv (spec_pre cap ch pre) /\ c_latest (spec_pre cap ch pre) <= c_tail (spec_pre cap ch pre).
Proof.
  induction pre as [|[ty bs] pre IH]; intros ch SI Le; cbn [spec_pre]; auto.
  destruct (accepted cap ty bs) eqn:Acc.
  - destruct (spec_transmit_accepted ch ty bs SI Acc) as (_ & SI' & _ & _).
    apply IH; auto. clear IH. unfold spec_transmit, accepted in *. apply andb_prop in Acc. destruct Acc as [A1 A2].
    apply negb_true_iff in A1. apply negb_true_iff in A2. rewrite A1, A2. cbn [fst c_latest c_tail].
    unfold e_end. pose proof (align8_bounds (e_len (last (new_ents cap (c_tail ch) ty bs) {| e_pos := 0; e_len := 0; e_ty := 0; e_bs := [] |}))).
    unfold new_ents in *. destruct (cap - c_tail ch mod cap <? align (Z.of_nat (length bs) + 8) 8); cbn [last e_len e_pos] in *; lia.
  - destruct (spec_transmit_rejected ch ty bs Acc) as (E & _). rewrite E. auto.
Qed.

Lemma spec_init_ok c0 pre : c0 mod 8 = 0 -> rx_ok (spec_init cap c0 pre).
Proof.
  intros H8. unfold spec_init, rx_ok. cbn [s_ch s_rx s_next].
  apply spec_pre_inv. - now apply sinv_init. - cbn. lia.
Qed.

End Spec.
