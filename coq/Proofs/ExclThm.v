(* C03, exclusive publisher + subscriber: the statements of the property. *)
Require Import V.Base.MachineInt.
Require Import V.Generated.GenConsts.
Require Import V.Model.LogBase.
Require Import V.Model.Descriptor.
Require Import V.Model.Sched.
Require Import V.Model.AppenderThreads.
Require Import V.Model.ReaderThreads.
Require Import V.Model.ExclThreads.
Require Import V.Model.PollThreads.
Require Import V.Model.ClaimThreads.
Require Import V.Proofs.TailArith.
Require Import V.Proofs.FragArith.
Require Import V.Proofs.ExclDefs V.Proofs.ExclPub1 V.Proofs.ExclPub2 V.Proofs.ExclPub3 V.Proofs.ExclPub7.
Require Import V.Proofs.ExclRd1.
Require Import V.Proofs.ExclRd2 V.Proofs.ExclRd3 V.Proofs.ExclRd4 V.Proofs.ExclSys.
From Coq Require Import ZifyBool.
Open Scope Z_scope.

Section T.
  Variable c : cfg.
  Hypothesis W : wf_cfg c.
  Variable tp : nat.

  (* a frame whose length word the subscriber saw positive is a committed frame: the memory holds exactly the frame the
     publisher's item dictated when it committed it (an entry of the ghost list), with a well-formed header *)
  Theorem x_never_torn s th gh t l : reachx c tp s th gh -> th t = XV l -> von_frame (v_pc l) = true ->
    exists sl, In (v_foff l, sl) (xg_fr gh (v_idx l)) /\ sh_mem s (v_idx l) (v_foff l) = sl /\ s_len sl = v_flen l /\ 0 < v_flen l /\
               xwf_slot c (tid_of c (pgen c (v_idx l))) (v_foff l) sl.
  Proof. intros Hr Ht Hon. destruct (reachx_inv c W tp s th gh Hr) as [(pl & _ & _ & M) L _ Hrd _ _].
    destruct (vi_frame c gh l (Hrd t l Ht) Hon) as (sl & K1 & K2 & _). exists sl.
    pose proof (lookup_in _ _ _ K1) as Hin. destruct (L (v_idx l)) as (_ & _ & _ & Lw). pose proof (Lw _ _ Hin) as Hw.
    split; [assumption|]. split; [rewrite M; unfold expect; rewrite K1; reflexivity|]. split; [assumption|].
    split; [destruct Hw as (Hh & _); rewrite HDR_32 in Hh; lia | assumption]. Qed.

  (* committed frames never change *)
  Theorem x_committed_stable s th gh p o sl : reachx c tp s th gh -> In (o, sl) (xg_fr gh p) -> sh_mem s p o = sl.
  Proof. intros Hr Hin. destruct (reachx_inv c W tp s th gh Hr) as [(pl & _ & _ & M) L _ _ _ _].
    destruct (L p) as (L1 & _). rewrite M. unfold expect. rewrite (laid_in_lookup c _ _ _ _ _ L1 Hin). reflexivity. Qed.

  Lemma xgstep_mono pl gh p o sl : In (o, sl) (xg_fr gh p) -> In (o, sl) (xg_fr (xgstep c pl gh) p).
  Proof. intros H. unfold xgstep. destruct (x_pc pl); try assumption; cbn [xg_add xg_fr]; (destruct (p =? x_idx pl) eqn:E; [|assumption]);
    assert (p = x_idx pl) as -> by lia; apply in_or_app; left; assumption. Qed.

  Theorem x_committed_kept s th gh t s' x' e p o sl : reachx c tp s th gh -> admx c s th t -> xtstep c t s (th t) = Some (s', x', e) ->
    In (o, sl) (xg_fr gh p) -> In (o, sl) (xg_fr (xgstepx c (th t) gh) p) /\ sh_mem s' p o = sl.
  Proof. intros Hr Ha Hs Hin. assert (Hin' : In (o, sl) (xg_fr (xgstepx c (th t) gh) p)).
    { unfold xgstepx. destruct (th t); try assumption. apply xgstep_mono. assumption. }
    split; [assumption|]. eapply x_committed_stable; [eapply reachx_step; eauto | assumption]. Qed.

  (* the subscriber position is a frame boundary of the committed frames: it never passes a frame that is not committed *)
  Theorem x_position_behind_commit s th gh : reachx c tp s th gh -> sub_ok c gh (sh_subpos s).
  Proof. intros Hr. apply (xi_sub c tp s gh th (reachx_inv c W tp s th gh Hr)). Qed.

  (* what the handler is given *)
  Lemma frags_finish r l : v_frags (v_finish r l) = v_frags l. Proof. reflexivity. Qed.
  Lemma frags_end l : v_frags (v_end_poll l) = v_frags l.
  Proof. unfold v_end_poll. destruct (_ <? _); reflexivity. Qed.
  Lemma frags_loop l : v_frags (v_loop l) = v_frags l.
  Proof. unfold v_loop. destruct (_ && _); [reflexivity | apply frags_end]. Qed.
  Lemma frags_pend l : v_frags (v_pend l) = v_frags l.
  Proof. unfold v_pend. destruct (_ <? _); reflexivity. Qed.
  Lemma frags_after l : v_frags (after_handler c l) = v_frags l.
  Proof. unfold after_handler. destruct (v_flav l); try (rewrite frags_loop; reflexivity);
    destruct (v_act l); rewrite ?frags_loop, ?frags_end, ?frags_pend; reflexivity. Qed.

  Theorem x_delivered_fragment s th gh t l s' l' e : reachx c tp s th gh -> th t = XV l -> v_pc l = VBody ->
    vstep c t s l = Some (s', l', e) ->
    exists sl, In (v_foff l, sl) (xg_fr gh (v_idx l)) /\ sh_mem s (v_idx l) (v_foff l) = sl /\ s_type sl <> T_PAD /\
      v_frags l' = v_frags l ++ [(v_foff l, s_len sl - HDR, s_flags sl, pad_to (Z.to_nat (s_len sl - HDR)) (s_body sl))].
  Proof. intros Hr Ht Hpc Hstep. destruct (reachx_inv c W tp s th gh Hr) as [(pl & _ & _ & M) L _ Hrd _ _].
    pose proof (Hrd t l Ht) as V.
    destruct (vi_frame c gh l V ltac:(rewrite Hpc; reflexivity)) as (sl & K1 & K2 & _).
    destruct (vi_flags c gh l V Hpc) as (sl1 & K3 & K4). destruct (vi_data c gh l V (or_intror Hpc)) as (sl2 & K5 & K6).
    assert (sl1 = sl) by congruence. assert (sl2 = sl) by congruence. subst sl1 sl2.
    assert (Hm : sh_mem s (v_idx l) (v_foff l) = sl) by (rewrite M; unfold expect; rewrite K1; reflexivity).
    exists sl. split; [eapply lookup_in; eassumption|]. split; [assumption|]. split; [assumption|].
    unfold vstep in Hstep. rewrite Hpc in Hstep. inversion Hstep; subst s' l' e. rewrite frags_after. cbn [v_frags vl_handled].
    rewrite Hm, <- K2, K4. reflexivity. Qed.

  (* an aborted claim becomes padding, whatever the claimant wrote into its header: it is never one of the frames delivered *)
  Lemma aborted_is_padding pl n : item_abort (x_item pl) = true -> s_type (set_len (cpre c pl) n) = T_PAD.
  Proof. intros H. unfold cpre. rewrite H. reflexivity. Qed.
End T.
