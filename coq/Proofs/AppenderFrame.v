(* Frame reasoning for AppInv: extensionality in the shared state, disjointness of the frames of different
   claims, and the generic "all but thread t" / closing lemmas every step case goes through. *)
Require Import V.Base.MachineInt.
Require Import V.Generated.GenConsts.
Require Import V.Model.LogBase.
Require Import V.Model.Descriptor.
Require Import V.Proofs.DescriptorProofs.
Require Import V.Model.Sched.
Require Import V.Model.AppenderThreads.
Require Import V.Proofs.TailArith.
Require Import V.Proofs.FragArith.
Require Import V.Proofs.AppenderInv.
Require Import V.Proofs.AppenderLemmas.
From Coq Require Import ZifyBool.
Open Scope Z_scope.

Section Frame.
  Variable c : cfg.
  Hypothesis W : wf_cfg c.

  (* same term memory, tails and count: every component of the invariant is unchanged *)
  Definition same_log (s s' : shared) : Prop :=
    sh_mem s' = sh_mem s /\ sh_tail s' = sh_tail s /\ sh_count s' = sh_count s.

  Lemma same_log_refl s : same_log s s. Proof. repeat split. Qed.

  Lemma TailInv_ext s s' gh : same_log s s' -> TailInv c s gh -> TailInv c s' gh.
  Proof. intros (Hm & Ht & Hc) H. destruct s, s'. cbn in *. subst. destruct H. constructor; assumption. Qed.
  Lemma thr_ok_ext s s' gh t l : same_log s s' -> thr_ok c s gh t l -> thr_ok c s' gh t l.
  Proof. intros (Hm & Ht & Hc) H. destruct s, s'. cbn in *. subst. exact H. Qed.
  Lemma ent_ok_ext s s' gh P g e : same_log s s' -> ent_ok c s gh P g e -> ent_ok c s' gh P g e.
  Proof. intros (Hm & Ht & Hc) H. destruct s, s'. cbn in *. subst. exact H. Qed.
  Lemma mem_ok_ext s s' gh p : same_log s s' -> mem_ok c s gh p -> mem_ok c s' gh p.
  Proof. intros (Hm & Ht & Hc) H. destruct s, s'. cbn in *. subst. exact H. Qed.
  Lemma AppInv_ext s s' gh P : same_log s s' -> AppInv c s gh P -> AppInv c s' gh P.
  Proof. intros E [A B C D]. constructor.
    - eapply TailInv_ext; eauto.
    - intros. eapply ent_ok_ext; eauto.
    - intros. eapply thr_ok_ext; eauto.
    - intros. eapply mem_ok_ext; eauto. Qed.

  (* ---- frames of two different claims of a live generation never share an offset ---- *)
  Lemma offs_disjoint s gh P g e e' o :
    TailInv c s gh -> (forall g e, In e (g_claims gh g) -> ent_ok c s gh P g e) ->
    tg c s (g mod 3) = g -> In e (g_claims gh g) -> In e' (g_claims gh g) -> e <> e' ->
    In o (map fst (efrags c g e)) -> In o (map fst (efrags c g e')) -> False.
  Proof. intros A HE Hg He He' Hne Ho Ho'.
    destruct (HE g e He) as (Hn0 & Ha & Ham & Hb & _).
    destruct (HE g e' He') as (_ & Ha' & Ham' & Hb' & _).
    assert (Hp : 0 <= g mod 3 < 3) by (apply Z.mod_pos_bound; lia).
    pose proof (iv_chain c s gh A (g mod 3) Hp) as Hc. rewrite Hg in Hc. specialize (Hc Hn0).
    apply in_map_iff in Ho. destruct Ho as ([o1 sl] & E1 & I1). cbn in E1. subst o1.
    apply in_map_iff in Ho'. destruct Ho' as ([o2 sl'] & E2 & I2). cbn in E2. subst o2.
    pose proof (efrags_range c g e o sl W Ha Ham Hb I1) as (R1 & R2 & _).
    pose proof (efrags_range c g e' o sl' W Ha' Ham' Hb' I2) as (R1' & R2' & _).
    destruct (chain_disjoint _ _ _ e e' Hc He He') as [Heq | [D | D]]; [contradiction | lia | lia]. Qed.

  (* ---- everything but thread t ---- *)
  Record AppInvX (s : shared) (gh : ghost) (P : nat -> option plocal) (t : nat) : Prop := {
    ix_A : TailInv c s gh;
    ix_ent : forall g e, In e (g_claims gh g) -> e_t e <> t -> ent_ok c s gh P g e;
    ix_thr : forall t' l, t' <> t -> P t' = Some l -> thr_ok c s gh t' l;
    ix_mem : forall p, 0 <= p < 3 -> mem_ok c s gh p
  }.

  Lemma ent_ok_pupd_other s gh P g e t l : e_t e <> t -> ent_ok c s gh P g e -> ent_ok c s gh (pupd P t l) g e.
  Proof. intros Hne (H1 & H2 & H3 & H4 & l0 & HP & H5). repeat (split; [assumption|]).
    exists l0. split; [|assumption]. unfold pupd. destruct (Nat.eqb (e_t e) t) eqn:E; [|assumption].
    apply Nat.eqb_eq in E. contradiction. Qed.

  Lemma close s gh P t l' :
    AppInvX s gh P t ->
    (forall g e, In e (g_claims gh g) -> e_t e = t -> ent_ok c s gh (pupd P t l') g e) ->
    thr_ok c s gh t l' ->
    AppInv c s gh (pupd P t l').
  Proof. intros [A B C D] HE HT. constructor.
    - assumption.
    - intros g e He. destruct (Nat.eq_dec (e_t e) t) as [Heq | Hne].
      + apply HE; assumption.
      + apply ent_ok_pupd_other; [assumption | apply B; assumption].
    - intros t' l0 HP. unfold pupd in HP. destruct (Nat.eqb t' t) eqn:E.
      + apply Nat.eqb_eq in E. subst t'. inversion HP; subst. assumption.
      + apply Nat.eqb_neq in E. apply C; assumption.
    - assumption. Qed.

  Lemma AppInv_X s gh P t : AppInv c s gh P -> AppInvX s gh P t.
  Proof. intros [A B C D]. constructor; auto. Qed.

  (* an entry of thread t when t takes a step inside the same attempt (or before it has claimed) *)
  Lemma own_ent_nofinish s s' gh gh' P g e t l l' :
    ent_ok c s gh P g e -> e_t e = t -> P t = Some l ->
    p_res l' = p_res l ->
    (inflight (p_pc l) = true -> inflight (p_pc l') = true /\ my_entry c t l' = my_entry c t l /\ p_count l' = p_count l) ->
    ((e_j e < length (p_res l))%nat -> live c s' gh' g ->
       live c s gh g /\ forall o sl, In (o, sl) (efrags c g e) -> sh_mem s' (g mod 3) o = sh_mem s (g mod 3) o) ->
    ent_ok c s' gh' (pupd P t l') g e.
  Proof. intros (H1 & H2 & H3 & H4 & l0 & HP & Hj & Hin & Hdone) Ht HPt Hres Hinf Hmem.
    rewrite Ht in HP. rewrite HPt in HP. inversion HP; subst l0. clear HP.
    repeat (split; [assumption|]). exists l'. split.
    { unfold pupd. rewrite Ht, Nat.eqb_refl. reflexivity. }
    rewrite Hres. split; [assumption|]. split.
    - intros Hj'. destruct (Hin Hj') as (I1 & I2 & I3). destruct (Hinf I1) as (J1 & J2 & J3).
      rewrite Ht in *. rewrite J2, J3. auto.
    - intros Hlt. destruct (Hdone Hlt) as (D1 & D2). split; [assumption|].
      intros Hl o sl Ho. destruct (Hmem Hlt Hl) as (M1 & M2). rewrite (M2 o sl Ho). apply D2; assumption. Qed.

  (* an entry of thread t when t finishes its attempt with result r *)
  Lemma own_ent_finish s s' gh gh' P g e t l l' r :
    ent_ok c s gh P g e -> e_t e = t -> P t = Some l ->
    p_res l' = p_res l ++ [r] ->
    ((e_j e < length (p_res l))%nat -> live c s' gh' g ->
       live c s gh g /\ forall o sl, In (o, sl) (efrags c g e) -> sh_mem s' (g mod 3) o = sh_mem s (g mod 3) o) ->
    (e_j e = length (p_res l) -> inflight (p_pc l) = true -> e = my_entry c t l -> g = p_count l ->
       r = (if e_b e <=? TL c then Ok (g * TL c + e_b e) else Err AdminAction) /\
       (live c s' gh' g -> forall o sl, In (o, sl) (efrags c g e) -> sh_mem s' (g mod 3) o = sl)) ->
    ent_ok c s' gh' (pupd P t l') g e.
  Proof. intros (H1 & H2 & H3 & H4 & l0 & HP & Hj & Hin & Hdone) Ht HPt Hres Hmem Hnew.
    rewrite Ht in HP. rewrite HPt in HP. inversion HP; subst l0. clear HP.
    repeat (split; [assumption|]). exists l'. split.
    { unfold pupd. rewrite Ht, Nat.eqb_refl. reflexivity. }
    rewrite Hres, app_length. cbn [length]. split; [lia|]. split; [intros; lia|].
    intros _. destruct (Nat.eq_dec (e_j e) (length (p_res l))) as [Heq | Hne].
    - destruct (Hin Heq) as (I1 & I2 & I3). rewrite Ht in I2.
      destruct (Hnew Heq I1 (eq_sym I2) (eq_sym I3)) as (N1 & N2). split; [|assumption].
      rewrite Heq, nth_middle. assumption.
    - assert (Hlt : (e_j e < length (p_res l))%nat) by lia.
      destruct (Hdone Hlt) as (D1 & D2). split.
      + rewrite app_nth1 by assumption. assumption.
      + intros Hl o sl Ho. destruct (Hmem Hlt Hl) as (M1 & M2). rewrite (M2 o sl Ho). apply D2; assumption. Qed.
End Frame.
