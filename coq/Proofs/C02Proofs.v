(* C02: the system of publisher and environment threads, reachability under admissible steps,
   AppInv for every reachable configuration and for every admissible executable run. *)
Require Import V.Base.MachineInt.
Require Import V.Generated.GenConsts.
Require Import V.Model.LogBase.
Require Import V.Model.Descriptor.
Require Import V.Proofs.DescriptorProofs.
Require Import V.Model.Sched.
Require Import V.Model.AppenderThreads.
Require Import V.Proofs.TailArith.
Require Import V.Proofs.FragArith.
Require Import V.Proofs.AppenderInv.
Require Import V.Proofs.AppenderLemmas.
Require Import V.Proofs.AppenderFrame.
Require Import V.Proofs.AppenderSteps.
Require Import V.Proofs.AppenderFaa.
Require Import V.Proofs.AppenderRotate.
Require Import V.Proofs.AppenderSystem.
Require Import V.Proofs.AppenderInv2.
From Coq Require Import ZifyBool.
Open Scope Z_scope.

Definition pubs (th : nat -> thread) : nat -> option plocal :=
  fun t => match th t with TPub l => Some l | _ => None end.

Section C02.
  Variable c : cfg.
  Hypothesis W : wf_cfg c.

  (* what the theorems assume about one step of thread t *)
  Definition sys_adm (s : shared) (th : nat -> thread) (t : nat) : Prop :=
    match th t with
    | TPub l => adm_pub c s (pubs th) l
    | TEnv l => match e_ops l with op :: _ => adm_env c s (pubs th) op | [] => True end
    | TIdle => True
    end.

  Definition sys_gstep (t : nat) (s : shared) (x : thread) (gh : ghost) : ghost :=
    match x with
    | TPub l => gstep_pub c t s l gh
    | TEnv l => match e_ops l with op :: _ => gstep_env c s op gh | [] => gh end
    | TIdle => gh
    end.

  Definition init_thread (x : thread) : Prop :=
    match x with
    | TPub l => exists msgs b, l = p_start msgs b []
    | _ => True
    end.

  (* every interleaving of admissible steps of any number of threads *)
  Inductive reach : shared -> (nat -> thread) -> ghost -> Prop :=
  | reach_init limit th : (forall t, init_thread (th t)) -> reach (init_shared c limit) th ghost0
  | reach_step s th gh t s' x' e :
      reach s th gh -> sys_adm s th t -> tstep c t s (th t) = Some (s', x', e) ->
      reach s' (upd_thread th t x') (sys_gstep t s (th t) gh).

  Lemma AppInv_Pext s gh P P' : (forall t, P t = P' t) -> AppInv c s gh P -> AppInv c s gh P'.
  Proof. intros E [A B C D]. constructor; auto.
    - intros g e He. destruct (B g e He) as (H1 & H2 & H3 & H4 & l0 & HP0 & R). repeat (split; [assumption|]).
      exists l0. rewrite <- E. auto.
    - intros t l HP. apply C. rewrite E. assumption. Qed.

  Lemma pubs_upd_pub th t l : forall t', pupd (pubs th) t l t' = pubs (upd_thread th t (TPub l)) t'.
  Proof. intros t'. unfold pupd, pubs, upd_thread. destruct (Nat.eqb t' t); reflexivity. Qed.

  Lemma pubs_upd_env th t l0 l : th t = TEnv l0 -> forall t', pubs th t' = pubs (upd_thread th t (TEnv l)) t'.
  Proof. intros H t'. unfold pubs, upd_thread. destruct (Nat.eqb t' t) eqn:E; [|reflexivity].
    apply Nat.eqb_eq in E. subst. rewrite H. reflexivity. Qed.

  (* ---- the initial configuration ---- *)
  Lemma init_tails limit :
    let s := init_shared c limit in let n0 := c_n0 c in
    sh_tail s (n0 mod 3) = mk_raw c n0 (c_off0 c) /\
    sh_tail s ((n0 + 1) mod 3) = mk_raw c (n0 - 2) 0 /\
    sh_tail s ((n0 + 2) mod 3) = mk_raw c (n0 - 1) 0.
  Proof. cbn zeta. unfold init_shared. cbn [sh_tail]. set (n0 := c_n0 c).
    pose proof (mod3_succ_ne n0) as N1. pose proof (mod3_succ2_ne n0) as N2. pose proof (mod3_succ12_ne n0) as N3.
    assert (E : (n0 mod 3 + 1) mod 3 = (n0 + 1) mod 3) by (rewrite Zplus_mod_idemp_l; reflexivity).
    rewrite E. rewrite Z.eqb_refl.
    replace ((n0 + 1) mod 3 =? n0 mod 3) with false by lia. rewrite Z.eqb_refl.
    replace ((n0 + 2) mod 3 =? n0 mod 3) with false by lia. replace ((n0 + 2) mod 3 =? (n0 + 1) mod 3) with false by lia.
    unfold mk_raw, raw_of, tid_of. fold n0. repeat split.
    - f_equal. f_equal. replace (wrap32 (c_init c + n0) + 1 - 3) with (wrap32 (c_init c + n0) + (1 - 3)) by ring.
      rewrite wrap32_add_wrap32. f_equal. ring.
    - f_equal. f_equal. replace (wrap32 (c_init c + n0) + 2 - 3) with (wrap32 (c_init c + n0) + (2 - 3)) by ring.
      rewrite wrap32_add_wrap32. f_equal. ring. Qed.

  Lemma init_inv limit P : (forall t l, P t = Some l -> exists msgs b, l = p_start msgs b []) ->
    AppInv c (init_shared c limit) ghost0 P.
  Proof. intros HPi. set (s := init_shared c limit). set (n0 := c_n0 c).
    destruct (init_tails limit) as (T0 & T1 & T2). fold s n0 in T0, T1, T2.
    pose proof (wf_n0 c W) as Hn0. pose proof (wf_off0 c W) as (Ho0 & Hom). fold n0 in Hn0.
    destruct (TL_bounds c W) as (TB & _).
    assert (G0 : gen_ok n0 /\ gen_ok (n0 - 2) /\ gen_ok (n0 - 1)) by (unfold gen_ok, GB in *; lia).
    destruct G0 as (G0 & G1 & G2).
    assert (R0 : 0 <= c_off0 c < two32) by (unfold two32; lia).
    assert (R1 : 0 <= 0 < two32) by (unfold two32; lia).
    assert (Tg0 : tg c s (n0 mod 3) = n0) by (unfold tg; rewrite T0; apply gen_of_mk_raw; assumption).
    assert (Tg1 : tg c s ((n0 + 1) mod 3) = n0 - 2) by (unfold tg; rewrite T1; apply gen_of_mk_raw; assumption).
    assert (Tg2 : tg c s ((n0 + 2) mod 3) = n0 - 1) by (unfold tg; rewrite T2; apply gen_of_mk_raw; assumption).
    assert (To0 : toff s (n0 mod 3) = c_off0 c) by (unfold toff; rewrite T0; apply lo32u_mk_raw; assumption).
    assert (To1 : toff s ((n0 + 1) mod 3) = 0) by (unfold toff; rewrite T1; apply lo32u_mk_raw; assumption).
    assert (To2 : toff s ((n0 + 2) mod 3) = 0) by (unfold toff; rewrite T2; apply lo32u_mk_raw; assumption).
    assert (Hcnt : sh_count s = n0) by reflexivity.
    constructor.
    - constructor; rewrite ?Hcnt.
      + unfold GB in *. fold n0. lia.
      + intros p Hp. destruct (part_cases n0 p Hp) as [-> | [-> | ->]].
        * rewrite Tg0, To0. repeat split; try assumption; lia.
        * rewrite Tg1, To1. repeat split; try assumption; try lia.
        * rewrite Tg2, To2. repeat split; try assumption; try lia.
      + assumption.
      + assumption.
      + left. assumption.
      + rewrite Tg1. intros; lia.
      + intros g Hg. fold n0 in Hg. lia.
      + intros g Hg. exists (base c g). split; [reflexivity|]. intros p Hp Hq.
        destruct (part_cases n0 p Hp) as [-> | [-> | ->]].
        * rewrite Tg0 in Hq. subst g. rewrite To0. unfold base. fold n0. rewrite Z.eqb_refl. reflexivity.
        * rewrite Tg1 in Hq. fold n0 in Hg. lia.
        * rewrite Tg2 in Hq. fold n0 in Hg. lia.
      + intros g _. split; reflexivity.
      + intros p Hp X. discriminate X.
    - intros g e [].
    - intros t l HP. destruct (HPi t l HP) as (msgs & b & ->). apply thr_ok_start.
    - intros p Hp. split; [intros _ o; reflexivity | intros _ _ o Hnz; exfalso; apply Hnz; reflexivity]. Qed.

  Theorem reach_inv s th gh : reach s th gh -> AppInv c s gh (pubs th).
  Proof. induction 1 as [limit th Hinit | s th gh t s' x' e Hr IH Hadm Hstep].
    - apply init_inv. intros t l HP. unfold pubs in HP. specialize (Hinit t). destruct (th t); try discriminate.
      inversion HP; subst. exact Hinit.
    - unfold sys_adm in Hadm. unfold sys_gstep. unfold tstep in Hstep.
      destruct (th t) as [l | l |] eqn:Eth; try discriminate.
      + destruct (pstep c t s l) as [[[s1 l1] e1]|] eqn:Ep; try discriminate. inversion Hstep; subst s' x' e.
        apply (AppInv_Pext _ _ (pupd (pubs th) t l1)); [apply pubs_upd_pub|].
        eapply pub_step_inv; eauto. unfold pubs. rewrite Eth. reflexivity.
      + unfold estep in Hstep. destruct (e_ops l) as [|op r] eqn:Eops; try discriminate.
        destruct op as [v | p]; inversion Hstep; subst s' x' e.
        * apply (AppInv_Pext _ _ (pubs th)); [eapply pubs_upd_env; eauto|].
          apply (env_step_inv c s gh (pubs th) (SetLimit v)); assumption.
        * apply (AppInv_Pext _ _ (pubs th)); [eapply pubs_upd_env; eauto|].
          apply (env_step_inv c s gh (pubs th) (Clean p)); assumption. Qed.

  Lemma init_inv2 limit P : (forall t l, P t = Some l -> exists msgs b, l = p_start msgs b []) ->
    AppInv2 c (init_shared c limit) ghost0 P.
  Proof. intros HPi. constructor.
    - intros t l H. destruct (HPi t l H) as (m & b & ->). unfold p_start. destruct m; destruct b; cbn; discriminate.
    - intros t l j pos H Hn. destruct (HPi t l H) as (m & b & ->). rewrite p_res_start in Hn. destruct j; discriminate.
    - intros t l r H Hin. destruct (HPi t l H) as (m & b & ->). rewrite p_res_start in Hin. destruct Hin.
    - intros X. exfalso. destruct (init_tails limit) as (_ & T1 & _).
      pose proof (wf_n0 c W) as Hn0. change (sh_count (init_shared c limit)) with (c_n0 c) in X.
      unfold tg in X. rewrite T1 in X. rewrite gen_of_mk_raw in X; [lia | unfold gen_ok, GB in *; lia | unfold two32; lia].
    - intros (e & [] & _).
    - reflexivity.
    - intros g g' e e' []. Qed.

  Theorem reach_inv2 s th gh : reach s th gh -> AppInv2 c s gh (pubs th).
  Proof. induction 1 as [limit th Hinit | s th gh t s' x' e Hr IH Hadm Hstep].
    - apply init_inv2. intros t l HP. unfold pubs in HP. specialize (Hinit t). destruct (th t); try discriminate.
      inversion HP; subst. exact Hinit.
    - pose proof (reach_inv s th gh Hr) as I.
      assert (Pext : forall P P', (forall t, P t = P' t) -> forall s0 gh0, AppInv2 c s0 gh0 P -> AppInv2 c s0 gh0 P').
      { intros P P' E s0 gh0 [R1 R2 R3 R4 R5 R6 R7]. constructor; auto.
        - intros t0 l0 H0. rewrite <- E in H0. eapply R1; eauto.
        - intros t0 l0 j pos H0. rewrite <- E in H0. eapply R2; eauto.
        - intros t0 l0 r H0. rewrite <- E in H0. eapply R3; eauto.
        - intros X. destruct (R4 X) as (t0 & l0 & H0 & Y). exists t0, l0. rewrite <- E. auto.
        - intros X. destruct (R5 X) as (t0 & l0 & H0 & Y). exists t0, l0. rewrite <- E. auto. }
      unfold sys_adm in Hadm. unfold sys_gstep. unfold tstep in Hstep.
      destruct (th t) as [l | l |] eqn:Eth; try discriminate.
      + destruct (pstep c t s l) as [[[s1 l1] e1]|] eqn:Ep; try discriminate. inversion Hstep; subst s' x' e.
        apply (Pext (pupd (pubs th) t l1)); [apply pubs_upd_pub|].
        eapply pub_step_inv2; eauto. unfold pubs. rewrite Eth. reflexivity.
      + unfold estep in Hstep. destruct (e_ops l) as [|op r] eqn:Eops; try discriminate.
        destruct op as [v | p]; inversion Hstep; subst s' x' e.
        * apply (Pext (pubs th)); [eapply pubs_upd_env; eauto|]. apply (env_step_inv2 c s gh (pubs th) (SetLimit v)); assumption.
        * apply (Pext (pubs th)); [eapply pubs_upd_env; eauto|]. apply (env_step_inv2 c s gh (pubs th) (Clean p)); assumption. Qed.

  (* ---- the executable run of Sched.run follows reach when its steps are admissible ---- *)
  Definition rs_ok (r : @rstate shared thread) (gh : ghost) : Prop :=
    let '(s, th, g, tr) := r in reach s th gh.

  (* admissibility of every step an executable schedule takes (crash points only remove steps) *)
  Fixpoint adm_sched (stop : nat -> option nat) (sched : list nat) (r : @rstate shared thread) : Prop :=
    match sched with
    | [] => True
    | t :: rest =>
        match grant (tstep c) stop t r with
        | Some r' => (let '(s, th, g, tr) := r in sys_adm s th t) /\ adm_sched stop rest r'
        | None => adm_sched stop rest r
        end
    end.

  Lemma grant_reach stop t r r' gh : rs_ok r gh -> grant (tstep c) stop t r = Some r' ->
    (let '(s, th, g, tr) := r in sys_adm s th t) ->
    exists gh', rs_ok r' gh'.
  Proof. destruct r as [[[s th] g] tr]. unfold grant, rs_ok, step_cfg. cbn [fst snd].
    destruct (stopped stop g t); [discriminate|].
    destruct (tstep c t s (th t)) as [[[s1 x1] e1]|] eqn:E; [|discriminate].
    intros Hr Hg Hadm. inversion Hg; subst r'. eexists. eapply reach_step; eauto. Qed.

  Theorem run_sched_reach stop sched r gh : rs_ok r gh -> adm_sched stop sched r ->
    exists gh', rs_ok (run_sched (tstep c) stop sched r) gh'.
  Proof. revert r gh. induction sched as [|t rest IH]; intros r gh Hr Ha; cbn [run_sched adm_sched] in *.
    - exists gh. assumption.
    - destruct (grant (tstep c) stop t r) as [r'|] eqn:E.
      + destruct Ha as (Ha1 & Ha2). destruct (grant_reach stop t r r' gh Hr E Ha1) as (gh1 & Hr1). eapply IH; eauto.
      + eapply IH; eauto. Qed.

  Corollary run_sched_inv stop sched limit th :
    (forall t, init_thread (th t)) ->
    adm_sched stop sched (init_shared c limit, th, (fun _ => O), []) ->
    let '(s, th', g, tr) := run_sched (tstep c) stop sched (init_shared c limit, th, (fun _ => O), []) in
    exists gh, AppInv c s gh (pubs th').
  Proof. intros Hinit Ha.
    destruct (run_sched_reach stop sched (init_shared c limit, th, (fun _ => O), []) ghost0) as (gh & Hr); auto.
    - cbn. apply reach_init. assumption.
    - destruct (run_sched _ _ _ _) as [[[s th'] g] tr]. exists gh. apply reach_inv. exact Hr. Qed.
End C02.
