(* C07_stuck: exactly when unblock() answers false although a claim that was never committed sits at the
   consumer position.  With the head slot uncommitted, unblock = false iff its header was never written (length
   word 0) and every length word the forward scan looks at is zero: the words at consumer index + 8, + 16, ...
   below the scan limit (the producer index when it is ahead of the consumer index, the capacity otherwise), the
   first of them even when it is not below the limit.  In particular a dead *wrapped* claim whose padding header was
   not written - and any run of blank dead claims that reaches the end of the data area - keeps unblock = false. *)
Require Import V.Base.MachineInt.
Require Import V.Generated.GenConsts.
Require Import V.Model.LogBase.
Require Import V.Model.Ring.
Require Import V.Model.RingThreads.
Require Import V.Spec.Fifo.
Require Import V.Proofs.RingArith.
Require Import V.Proofs.RingSeq.
Require Import V.Proofs.RingRender.
Require Import V.Proofs.RingSeqRun.
Require Import V.Proofs.RingConc.
Require Import V.Proofs.RingConcThm.
Require Import V.Proofs.RingUnblock.
From Coq Require Import ZifyBool Lia.
Open Scope Z_scope.

(* the length words the forward scan reads, starting at i0: i0 itself, then i0 + 8, .. while below the limit *)
Definition visited (i0 limit k : Z) : Prop := i0 <= k /\ (k - i0) mod 8 = 0 /\ (k = i0 \/ k < limit).

Lemma scan_back_true ws limit : forall fuel i,
  (forall k, limit <= k <= i -> (i - k) mod 8 = 0 -> word_at ws k = 0) -> scan_back fuel ws i limit = true.
Proof. induction fuel as [| f IH]; intros i H; cbn [scan_back]; [reflexivity |].
  destruct (i >=? limit) eqn:G; [| reflexivity].
  rewrite (H i ltac:(lia) ltac:(rewrite Z.sub_diag; reflexivity)). cbn [Z.eqb]. rewrite AL_eq. apply IH.
  intros k Hk Hm. apply H; [lia |]. replace (i - k) with ((i - 8 - k) + 1 * 8) by lia. rewrite Z_mod_plus_full. exact Hm. Qed.

Lemma scan_fwd_none bf ws limit ci : forall fuel i0,
  limit - i0 <= 8 * Z.of_nat fuel -> (0 < fuel)%nat ->
  scan_fwd bf fuel ws i0 limit ci = None ->
  (forall k, visited i0 limit k -> word_at ws k = 0) \/
  (exists i, i0 <= i /\ (i - i0) mod 8 = 0 /\ word_at ws i <> 0 /\
             (forall k, i0 <= k < i -> (k - i0) mod 8 = 0 -> word_at ws k = 0) /\ scan_back bf ws (i - AL) ci = false).
Proof. induction fuel as [| f IH]; intros i0 Hf Hp H; [lia |]. cbn [scan_fwd] in H.
  destruct (word_at ws i0 =? 0) eqn:Z0.
  - rewrite AL_eq in H. destruct (i0 + 8 >=? limit) eqn:L.
    + left. intros k (K1 & K2 & K3). destruct (Z.eq_dec k i0) as [-> | Ne]; [lia |].
      exfalso. pose proof (Z.div_mod (k - i0) 8 ltac:(lia)). lia.
    + destruct f as [| f']; [lia |].
      destruct (IH (i0 + 8) ltac:(lia) ltac:(lia) H) as [A | (i & A1 & A2 & A3 & A4 & A5)].
      * left. intros k (K1 & K2 & K3). destruct (Z.eq_dec k i0) as [-> | Ne]; [lia |].
        assert (i0 + 8 <= k) by (pose proof (Z.div_mod (k - i0) 8 ltac:(lia)); lia).
        apply A. split; [lia |]. split; [replace (k - (i0 + 8)) with ((k - i0) + (-1) * 8) by lia; rewrite Z_mod_plus_full; exact K2 | lia].
      * right. exists i. split; [lia |]. split; [replace (i - i0) with ((i - (i0 + 8)) + 1 * 8) by lia; rewrite Z_mod_plus_full; exact A2 |].
        split; [exact A3 |]. split; [| exact A5].
        intros k Hk Hm. destruct (Z.eq_dec k i0) as [-> | Ne]; [lia |].
        assert (i0 + 8 <= k) by (pose proof (Z.div_mod (k - i0) 8 ltac:(lia)); lia).
        apply A4; [lia |]. replace (k - (i0 + 8)) with ((k - i0) + (-1) * 8) by lia. rewrite Z_mod_plus_full. exact Hm.
  - right. exists i0. split; [lia |]. split; [rewrite Z.sub_diag; reflexivity |]. split; [lia |]. split; [intros; lia |].
    destruct (scan_back bf ws (i0 - AL) ci); [discriminate | reflexivity]. Qed.

Lemma scan_fwd_zero bf ws limit ci : forall fuel i0,
  (forall k, visited i0 limit k -> word_at ws k = 0) -> scan_fwd bf fuel ws i0 limit ci = None.
Proof. induction fuel as [| f IH]; intros i0 H; cbn [scan_fwd]; [reflexivity |].
  rewrite (H i0 ltac:(split; [lia | split; [rewrite Z.sub_diag; reflexivity | left; reflexivity]])). cbn [Z.eqb].
  rewrite AL_eq. destruct (i0 + 8 >=? limit) eqn:L; [reflexivity |]. apply IH.
  intros k (K1 & K2 & K3). apply H. split; [lia |]. split; [replace (k - i0) with ((k - (i0 + 8)) + 1 * 8) by lia; rewrite Z_mod_plus_full; exact K2 | right; lia]. Qed.

Definition scan_limit (R : ring) : Z :=
  let ci := r_head R mod r_cap R in let pi := r_tail R mod r_cap R in if pi >? ci then pi else r_cap R.

Theorem stuck_iff lo cfg s1 rest : Inv lo cfg -> cons_idle (g_cons cfg) ->
  let R := g_ring cfg in
  r_slots R = s1 :: rest -> s_len s1 <= 0 ->
  (snd (unblock R) = false <->
   s_len s1 = 0 /\ forall k, visited (r_head R mod r_cap R + 8) (scan_limit R) k -> word_at (render R) k = 0).
Proof.
  intros HI Hid. cbn zeta. set (R := g_ring cfg). intros Es Hneg.
  pose proof (idle_head' R _ Hid) as Hh'. fold R in Hh'.
  pose proof (i_cap _ _ HI) as Hc. fold R in Hc. pose proof (cap_ok_range _ Hc) as Hcr.
  pose proof (tiledR lo cfg HI Hh') as T. fold R in T.
  pose proof (mod_range (r_cap R) (r_head R) Hc) as Hci.
  assert (Hne : r_tail R =? r_head R = false).
  { rewrite Es in T. inversion T as [| h0 t0 s0 sl0 Hp0 G0 T0]; subst. pose proof (tiled_le _ _ _ _ T0). destruct G0 as (_ & _ & ? & _). lia. }
  assert (Hw1 : word_at (render R) (r_head R mod r_cap R) = s_len s1).
  { rewrite Es in T. inversion T as [| h0 t0 s0 sl0 Hp0 G0 T0]; subst. rewrite <- Hp0. apply (word_len lo cfg HI Hh' [] s1 rest). exact Es. }
  unfold unblock, unblock_lim. fold R. rewrite Hne. rewrite !mask_idx_mod by exact Hc. rewrite Hw1.
  destruct (s_len s1 <? 0) eqn:N.
  - cbn [snd]. split; [discriminate | intros (E & _); lia].
  - assert (E0 : s_len s1 = 0) by lia. rewrite E0. cbn [Z.eqb]. rewrite AL_eq.
    fold (scan_limit R).
    set (fuel := S (Z.to_nat ((r_cap R + TRAILER) / 8))).
    destruct (scan_fwd fuel fuel (render R) (r_head R mod r_cap R + 8) (scan_limit R) (r_head R mod r_cap R)) as [i |] eqn:Sc; cbn [snd].
    + split; [discriminate |]. intros (_ & Hz). rewrite (scan_fwd_zero _ _ _ _ _ _ Hz) in Sc. discriminate.
    + split; [| reflexivity]. intros _. split; [reflexivity |].
      assert (Hlim : scan_limit R <= r_cap R).
      { unfold scan_limit. pose proof (mod_range (r_cap R) (r_tail R) Hc). destruct (r_tail R mod r_cap R >? r_head R mod r_cap R); lia. }
      assert (Hfuel : scan_limit R - (r_head R mod r_cap R + 8) <= 8 * Z.of_nat fuel).
      { unfold fuel. rewrite Nat2Z.inj_succ, Z2Nat.id.
        - pose proof (Z.div_mod (r_cap R + TRAILER) 8 ltac:(lia)). pose proof (Z.mod_pos_bound (r_cap R + TRAILER) 8 ltac:(lia)).
          unfold TRAILER, GenConsts.RB_TRAILER_LENGTH in *. lia.
        - apply Z.div_pos; unfold TRAILER, GenConsts.RB_TRAILER_LENGTH; lia. }
      destruct (scan_fwd_none _ _ _ _ fuel _ Hfuel ltac:(unfold fuel; lia) Sc) as [A | (i & A1 & A2 & A3 & A4 & A5)]; [exact A |].
      exfalso. rewrite AL_eq in A5.
      rewrite scan_back_true in A5; [discriminate |].
      intros k Hk Hm. destruct (Z.eq_dec k (r_head R mod r_cap R)) as [-> | Ne]; [rewrite Hw1; exact E0 |].
      assert (Hi8 : (i - 8 - k) mod 8 = 0) by exact Hm.
      assert (r_head R mod r_cap R + 8 <= k).
      { assert ((k - r_head R mod r_cap R) mod 8 = 0).
        { replace (k - r_head R mod r_cap R) with ((i - (r_head R mod r_cap R + 8)) + (- ((i - 8 - k) / 8)) * 8 - (i - 8 - k) mod 8 + 0).
          - rewrite Hi8. rewrite Z.sub_0_r, Z.add_0_r. rewrite Z_mod_plus_full. exact A2.
          - pose proof (Z.div_mod (i - 8 - k) 8 ltac:(lia)). lia. }
        pose proof (Z.div_mod (k - r_head R mod r_cap R) 8 ltac:(lia)). lia. }
      apply A4; [lia |].
      replace (k - (r_head R mod r_cap R + 8)) with ((i - (r_head R mod r_cap R + 8)) + (- ((i - 8 - k) / 8) - 1) * 8 - (i - 8 - k) mod 8).
      * rewrite Hi8, Z.sub_0_r, Z_mod_plus_full. exact A2.
      * pose proof (Z.div_mod (i - 8 - k) 8 ltac:(lia)). lia.
Qed.
