(* Which message a claim carries: the i-th accepted offer of a publisher carries the i-th message of the list the
   publisher was started with (messages appear in the publisher's offer order, none skipped, none repeated). *)
Require Import V.Base.MachineInt.
Require Import V.Generated.GenConsts.
Require Import V.Model.LogBase.
Require Import V.Model.Descriptor.
Require Import V.Model.Sched.
Require Import V.Model.AppenderThreads.
Require Import V.Proofs.TailArith.
Require Import V.Proofs.FragArith.
Require Import V.Proofs.AppenderInv.
Require Import V.Proofs.AppenderLemmas.
Require Import V.Proofs.AppenderFrame.
Require Import V.Proofs.AppenderSteps.
Require Import V.Proofs.AppenderFaa.
Require Import V.Proofs.AppenderSystem.
Require Import V.Proofs.AppenderInv2.
Require Import V.Proofs.C02Proofs.
Require Import V.Proofs.C02Quiescent.
From Coq Require Import ZifyBool.
Open Scope Z_scope.

Fixpoint count_ok (res : list (outcome Z)) : nat :=
  match res with [] => O | Ok _ :: r => S (count_ok r) | _ :: r => count_ok r end.

Lemma count_ok_app a b : count_ok (a ++ b) = (count_ok a + count_ok b)%nat.
Proof. induction a as [|x a IH]; [reflexivity|]. cbn. destruct x; cbn; rewrite IH; reflexivity. Qed.

Lemma hd_skipn {A} (d : A) k (l : list A) : hd d (skipn k l) = nth k l d.
Proof. revert l. induction k; intros [|x l]; cbn; auto. Qed.
Lemma tl_skipn {A} k (l : list A) : tl (skipn k l) = skipn (S k) l.
Proof. revert l. induction k as [|k IH]; intros l.
  - destruct l; reflexivity.
  - destruct l as [|x l]; [reflexivity|]. change (skipn (S k) (x :: l)) with (skipn k l).
    change (skipn (S (S k)) (x :: l)) with (skipn (S k) l). apply IH. Qed.

Section Msgs.
  Variable c : cfg.
  Hypothesis W : wf_cfg c.
  Variable orig : nat -> list (list Z).

  Record MsgInv (gh : ghost) (P : nat -> option plocal) : Prop := {
    m_todo : forall t l, P t = Some l -> p_todo l = skipn (count_ok (p_res l)) (orig t);
    m_claim : forall g e l, In e (g_claims gh g) -> P (e_t e) = Some l ->
        e_msg e = nth (count_ok (firstn (e_j e) (p_res l))) (orig (e_t e)) []
  }.

  Lemma start_tr todo b res : p_todo (p_start todo b res) = todo /\ p_res (p_start todo b res) = res.
  Proof. unfold p_start. destruct todo; destruct b; split; reflexivity. Qed.

  (* how one step changes the message list and the results *)
  Lemma pstep_todo_res t s l s' l' e : pstep c t s l = Some (s', l', e) ->
    (p_todo l' = p_todo l /\ p_res l' = p_res l) \/
    (exists r, p_res l' = p_res l ++ [r] /\ p_todo l' = match r with Ok _ => tl (p_todo l) | _ => p_todo l end).
  Proof. intros Hstep. unfold pstep in Hstep.
    assert (Fin : forall r l0, p_todo l0 = p_todo l -> p_res l0 = p_res l ->
              exists r0, p_res (finish r l0) = p_res l ++ [r0] /\ p_todo (finish r l0) = match r0 with Ok _ => tl (p_todo l) | _ => p_todo l end).
    { intros r l0 E1 E2. exists r. unfold finish. destruct (start_tr (match r with Ok _ => tl (p_todo l0) | _ => p_todo l0 end) (p_budget l0) (p_res l0 ++ [r])) as (-> & ->).
      rewrite E1, E2. split; reflexivity. }
    destruct (p_pc l) eqn:Hpc; try discriminate Hstep; inversion Hstep; subst s' l' e; clear Hstep;
      unfold after_read_tail, after_faa, after_eol, after_commit, p_panic;
      repeat match goal with |- context [if ?b then _ else _] => destruct b end;
      first [ left; split; reflexivity | right; apply Fin; reflexivity | right; exists Panic; split; reflexivity ]. Qed.

  Lemma firstn_app_le {A} n (a b : list A) : (n <= length a)%nat -> firstn n (a ++ b) = firstn n a.
  Proof. intros H. rewrite firstn_app. replace (n - length a)%nat with O by lia. cbn. apply app_nil_r. Qed.

  Theorem pub_step_msgs s gh P t l s' l' e :
    AppInv c s gh P -> MsgInv gh P -> P t = Some l -> pstep c t s l = Some (s', l', e) ->
    MsgInv (gstep_pub c t s l gh) (pupd P t l').
  Proof. intros I [M1 M2] HP Hstep. pose proof (pstep_todo_res t s l s' l' e Hstep) as Htr.
    assert (Hcnt : p_todo l' = skipn (count_ok (p_res l')) (orig t)).
    { destruct Htr as [(E1 & E2) | (r & E2 & E1)]; rewrite E1, E2.
      - apply M1. assumption.
      - rewrite count_ok_app, (M1 t l HP). destruct r; cbn [count_ok]; rewrite ?Nat.add_0_r, ?Nat.add_1_r; try reflexivity.
        apply tl_skipn. }
    assert (Hold : forall g e0 l0, In e0 (g_claims gh g) -> pupd P t l' (e_t e0) = Some l0 ->
              e_msg e0 = nth (count_ok (firstn (e_j e0) (p_res l0))) (orig (e_t e0)) []).
    { intros g e0 l0 He0 HP0. unfold pupd in HP0. destruct (Nat.eqb (e_t e0) t) eqn:E; [|eapply M2; eauto].
      apply Nat.eqb_eq in E. inversion HP0; subst l0. rewrite E in *.
      destruct (iv_ent c s gh P I g e0 He0) as (_ & _ & _ & _ & l1 & HP1 & Hj & _). rewrite E, HP in HP1. inversion HP1; subst l1.
      rewrite (M2 g e0 l He0) by (rewrite E; assumption). rewrite E.
      destruct Htr as [(_ & E2) | (r & E2 & _)]; rewrite E2; [reflexivity|]. rewrite firstn_app_le by assumption. reflexivity. }
    constructor.
    - intros t' l0 H0. unfold pupd in H0. destruct (Nat.eqb t' t) eqn:E; [|apply M1; assumption].
      apply Nat.eqb_eq in E. subst t'. inversion H0; subst l0. assumption.
    - intros g e0 l0 He0 HP0. unfold gstep_pub in He0. destruct (p_pc l) eqn:Hpc; try (exact (Hold g e0 l0 He0 HP0)).
      apply claims_add_inv in He0. destruct He0 as [He0 | (_ & ->)]; [exact (Hold g e0 l0 He0 HP0)|].
      cbn [e_t e_j e_msg] in *. unfold pupd in HP0. rewrite Nat.eqb_refl in HP0. inversion HP0; subst l0.
      destruct Htr as [(_ & E2) | (r & E2 & _)]; rewrite E2.
      + rewrite firstn_all. unfold cur_msg. rewrite (M1 t l HP). apply hd_skipn.
      + rewrite firstn_app_le by lia. rewrite firstn_all. unfold cur_msg. rewrite (M1 t l HP). apply hd_skipn. Qed.

  (* ---- reachability from publishers started with the message lists `orig` ---- *)
  Inductive reachm : shared -> (nat -> thread) -> ghost -> Prop :=
  | reachm_init limit th :
      (forall t, match th t with TPub l => exists b, l = p_start (orig t) b [] | _ => True end) ->
      reachm (init_shared c limit) th ghost0
  | reachm_step s th gh t s' x' e :
      reachm s th gh -> sys_adm c s th t -> tstep c t s (th t) = Some (s', x', e) ->
      reachm s' (upd_thread th t x') (sys_gstep c t s (th t) gh).

  Lemma reachm_reach s th gh : reachm s th gh -> reach c s th gh.
  Proof. induction 1 as [limit th Hi | ]; [|eapply reach_step; eauto].
    apply reach_init. intros t. specialize (Hi t). unfold init_thread. destruct (th t); auto. destruct Hi as (b & ->). eauto. Qed.

  Theorem reachm_msgs s th gh : reachm s th gh -> MsgInv gh (pubs th).
  Proof. induction 1 as [limit th Hi | s th gh t s' x' e Hr IH Hadm Hstep].
    - constructor.
      + intros t l HP. unfold pubs in HP. specialize (Hi t). destruct (th t); try discriminate. inversion HP; subst.
        destruct Hi as (b & ->). destruct (start_tr (orig t) b []) as (-> & ->). reflexivity.
      + intros g e l [].
    - pose proof (reach_inv c W s th gh (reachm_reach _ _ _ Hr)) as I.
      assert (Pext : forall P P' gh0, (forall t, P t = P' t) -> MsgInv gh0 P -> MsgInv gh0 P').
      { intros P P' gh0 E [M1 M2]. constructor; intros; [apply M1; rewrite E; assumption | eapply M2; eauto; rewrite E; assumption]. }
      unfold sys_gstep. unfold tstep in Hstep. destruct (th t) as [l | l |] eqn:Eth; try discriminate.
      + destruct (pstep c t s l) as [[[s1 l1] e1]|] eqn:Ep; try discriminate. inversion Hstep; subst s' x' e.
        apply (Pext (pupd (pubs th) t l1)); [apply pubs_upd_pub|].
        eapply pub_step_msgs; eauto. unfold pubs. rewrite Eth. reflexivity.
      + unfold estep in Hstep. destruct (e_ops l) as [|op r] eqn:Eops; try discriminate.
        assert (Hg : g_claims (gstep_env c s op gh) = g_claims gh) by (destruct op; cbn; [reflexivity | destruct (_ <=? _); reflexivity]).
        destruct IH as [M1 M2].
        assert (K : MsgInv (gstep_env c s op gh) (pubs th)) by (constructor; [exact M1 | intros g e0 l0 He0; rewrite Hg in He0; eapply M2; eauto]).
        destruct op; inversion Hstep; subst s' x' e; apply (Pext (pubs th)); try assumption; eapply pubs_upd_env; eauto. Qed.

  (* the j-th attempt of publisher t, if accepted at position pos, wrote its own claim, and that claim carries the message
     number (accepted offers before attempt j) of the list the publisher was started with *)
  Theorem accepted_message s th gh t l j pos : reachm s th gh -> th t = TPub l -> nth_error (p_res l) j = Some (Ok pos) ->
    exists g e, In e (g_claims gh g) /\ e_t e = t /\ e_j e = j /\ e_b e <= TL c /\ pos = g * TL c + e_b e /\
      e_msg e = nth (count_ok (firstn j (p_res l))) (orig t) [].
  Proof. intros Hr Ht Hn. pose proof (reachm_reach _ _ _ Hr) as Hr0.
    pose proof (reach_inv c W s th gh Hr0) as I. pose proof (reach_inv2 c W s th gh Hr0) as J. destruct (reachm_msgs s th gh Hr) as [_ M2].
    assert (HP : pubs th t = Some l) by (unfold pubs; rewrite Ht; reflexivity).
    destruct (accepted_has_claim c s gh (pubs th) t l j pos I J HP Hn) as (g & e & He & Et & Ej & Hb & Hpos).
    exists g, e. repeat (split; [assumption|]). rewrite <- Ej, <- Et. apply (M2 g e l He). rewrite Et. assumption. Qed.
End Msgs.
