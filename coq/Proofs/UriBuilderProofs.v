(* C19 - the table interpreter (Model/UriBuilder.v) refines the abstract builder of the specification
   (Model/UriSpec.v) for *every* pair of tables that passes `tables_ok`, and what it builds parses to
   exactly the expected prefix, media and parameters. *)
From Coq Require Import Permutation.
Require Import V.Base.MachineInt.
Require Import V.Generated.GenConsts.
Require Import V.Model.UriTypes.
Require Import V.Generated.GenUriTables.
Require Import V.Model.UriSpec.
Require Import V.Model.Uri.
Require Import V.Model.UriBuilder.
Require Import V.Proofs.UriProofs.
Open Scope Z_scope.

(* ---- reflection of the boolean helpers ------------------------------------------------------------ *)

Lemma eqb_of_true {A} (d : forall a b : A, {a = b} + {a <> b}) a b : eqb_of d a b = true -> a = b.
Proof. unfold eqb_of. destruct (d a b); congruence. Qed.

Lemma eqb_of_refl {A} (d : forall a b : A, {a = b} + {a <> b}) a : eqb_of d a a = true.
Proof. unfold eqb_of. destruct (d a a); congruence. Qed.

Lemma memb_In {A} (d : forall a b : A, {a = b} + {a <> b}) x l : memb d x l = true -> In x l.
Proof.
  unfold memb. intros H. apply existsb_exists in H. destruct H as [y [Hin E]].
  apply eqb_of_true in E. now subst.
Qed.

Lemma nodupb_NoDup {A} (d : forall a b : A, {a = b} + {a <> b}) l : nodupb d l = true -> NoDup l.
Proof.
  induction l as [|x r IH]; cbn; intros H; [constructor|].
  apply andb_true_iff in H. destruct H as [H1 H2]. constructor; auto.
  intros Hin. apply negb_true_iff in H1.
  assert (X : existsb (eqb_of d x) r = true) by (apply existsb_exists; exists x; split; auto; apply eqb_of_refl).
  congruence.
Qed.

Lemma NoDup_map_inj {A B} (f : A -> B) l x y : NoDup (map f l) -> In x l -> In y l -> f x = f y -> x = y.
Proof.
  induction l as [|z l IH]; cbn; intros Hd Hx Hy E; [contradiction|].
  inversion Hd as [|? ? Hn Hd']; subst.
  destruct Hx as [->|Hx]; destruct Hy as [->|Hy]; auto.
  - exfalso. apply Hn. rewrite E. now apply in_map.
  - exfalso. apply Hn. rewrite <- E. now apply in_map.
Qed.

(* ---- what tables_ok gives ---------------------------------------------------------------------------- *)

Definition row_spec (T : tables) (n : string) (t : argty) (cks : list check) (asg : list (string * rhs)) : Prop :=
  exists r, find_setter (t_setters T) n = Some r /\ s_arg r = t /\ s_checks r = cks /\ s_assigns r = asg.

Lemma row_is_spec T n t cks asg : row_is T n t cks asg = true -> row_spec T n t cks asg.
Proof.
  unfold row_is, row_spec, find_row, find_setter. destruct (find _ _) as [r|]; [|discriminate].
  intros H. repeat (apply andb_true_iff in H; destruct H as [H ?]).
  exists r. repeat split; auto; eapply eqb_of_true; eauto.
Qed.

Definition fpar (T : tables) (p : prow) : string := field_of T (p_setter p).

Record tok (T : tables) : Prop := {
  tk_known : forall r, In r (t_setters T) -> In (s_name r) all_setter_names;
  tk_param : forall p, In p spec_params ->
             row_spec T (p_setter p) (p_ty p) (spec_checks (p_setter p)) [(fpar T p, rhs_of (p_kind p))];
  tk_prefix : row_spec T "prefix" TStr (spec_checks "prefix") [(t_prefix_field T, RSomeStrArg)];
  tk_reset_prefix : row_spec T "reset_prefix" TUnit [] [(t_prefix_field T, RNone)];
  tk_media : row_spec T "media" TStr (spec_checks "media") [(t_media_field T, RSomeStrArg)];
  tk_flag : row_spec T "is_session_tagged" TBool [] [(flag_field T, RBoolArg)];
  tk_reset_reliable : row_spec T "reset_reliable" TUnit [] [(field_of T "reliable", RNone)];
  tk_reset_rejoin : row_spec T "reset_rejoin" TUnit [] [(field_of T "rejoin", RNone)];
  tk_clear : clear_ok T = true;
  tk_fields : NoDup (all_fields T);
  tk_emit1 : forall e, In e (t_emits T) -> exists p, In p spec_params /\ e = emit_row_of T p;
  tk_emit2 : forall p, In p spec_params -> In (emit_row_of T p) (t_emits T);
  tk_names : NoDup (map e_name (t_emits T));
  tk_scheme : t_scheme T = P_AERON
}.

Lemma tables_ok_tok T : tables_ok T = true -> tok T.
Proof.
  unfold tables_ok. intros H.
  repeat (apply andb_true_iff in H; let X := fresh "C" in destruct H as [H X]).
  constructor.
  - intros r Hin. eapply forallb_forall in H; eauto. eapply memb_In; eauto.
  - intros p Hin. eapply forallb_forall in C11; eauto. now apply row_is_spec.
  - now apply row_is_spec.
  - now apply row_is_spec.
  - now apply row_is_spec.
  - now apply row_is_spec.
  - now apply row_is_spec.
  - now apply row_is_spec.
  - auto.
  - eapply nodupb_NoDup; eauto.
  - intros e Hin. eapply forallb_forall in C2; eauto. apply memb_In in C2. apply in_map_iff in C2.
    destruct C2 as [p [E Hp]]. eauto.
  - intros p Hin. eapply forallb_forall in C1; eauto. eapply memb_In; eauto.
  - eapply nodupb_NoDup; eauto.
  - eapply eqb_of_true; eauto.
Qed.

(* ---- facts about the specification itself (finite, by computation) -------------------------------------- *)

Lemma spec_setters_distinct : NoDup (map p_setter spec_params).
Proof. apply (nodupb_NoDup string_dec). reflexivity. Qed.

Lemma spec_names_distinct : NoDup (map p_name spec_params).
Proof. apply (nodupb_NoDup (list_eq_dec Z.eq_dec)). reflexivity. Qed.

Lemma spec_names_ok : forallb (fun p => name_ok (p_name p)) spec_params = true.
Proof. reflexivity. Qed.

Lemma spec_special_not_param : forallb (fun q => match find_param (fst q) with None => true | Some _ => false end) special_setters = true.
Proof. reflexivity. Qed.

Lemma find_param_some n p : find_param n = Some p -> In p spec_params /\ p_setter p = n.
Proof.
  unfold find_param. intros H. apply find_some in H. destruct H as [H1 H2]. apply String.eqb_eq in H2. auto.
Qed.

Lemma find_param_in p : In p spec_params -> find_param (p_setter p) = Some p.
Proof.
  intros Hin. destruct (find_param (p_setter p)) as [q|] eqn:E.
  - apply find_param_some in E. destruct E as [Hq E]. f_equal.
    apply (NoDup_map_inj p_setter spec_params); auto. apply spec_setters_distinct.
  - unfold find_param in E. eapply find_none in E; eauto. rewrite String.eqb_refl in E. discriminate.
Qed.

Lemma reliable_param : exists p, In p spec_params /\ p_setter p = "reliable"%string.
Proof. destruct (find_param "reliable") as [p|] eqn:E; [|discriminate]. apply find_param_some in E. eauto. Qed.

Lemma rejoin_param : exists p, In p spec_params /\ p_setter p = "rejoin"%string.
Proof. destruct (find_param "rejoin") as [p|] eqn:E; [|discriminate]. apply find_param_some in E. eauto. Qed.

(* ---- the early-return checks say exactly `legal` ------------------------------------------------------------ *)

Lemma land_31 z : Z.land z 31 = z mod 32.
Proof. change 31 with (Z.ones 5). rewrite Z.land_ones by lia. reflexivity. Qed.

Lemma term_length_ok_spec z : term_length_ok z = spec_term_length_ok z.
Proof. reflexivity. Qed.

Lemma checks_legal s x n : existsb (check_fires s x) (spec_checks n) = negb (legal n x).
Proof.
  unfold spec_checks, legal.
  destruct (String.eqb n "prefix").
  { cbn. rewrite orb_false_r. now rewrite negb_orb. }
  destruct (String.eqb n "media").
  { cbn. rewrite orb_false_r. now rewrite negb_orb. }
  destruct (String.eqb n "control_mode").
  { cbn. rewrite orb_false_r. now rewrite negb_orb. }
  destruct (String.eqb n "mtu").
  { cbn [existsb check_fires ceval ieval not_in_frame_alignment]. rewrite orb_false_r.
    change (wrapu32 (32 - 1)) with 31. rewrite land_31.
    rewrite !negb_andb. reflexivity. }
  destruct (String.eqb n "term_length").
  { cbn [existsb check_fires ceval ieval]. rewrite orb_false_r. now rewrite term_length_ok_spec. }
  destruct (String.eqb n "term_offset").
  { cbn [existsb check_fires ceval ieval not_in_frame_alignment]. rewrite orb_false_r.
    change (wrapu32 (32 - 1)) with 31. change (wrapu32 1073741824) with 1073741824. rewrite land_31.
    rewrite negb_andb. f_equal. unfold Z.gtb, Z.leb. destruct (arg_int x ?= 1073741824); reflexivity. }
  destruct (String.eqb n "linger").
  { cbn [existsb check_fires ceval ieval]. rewrite orb_false_r.
    unfold Z.ltb, Z.leb. rewrite (Z.compare_antisym (arg_int x) 0). destruct (arg_int x ?= 0); reflexivity. }
  reflexivity.
Qed.

(* ---- the refinement relation ----------------------------------------------------------------------------------- *)

Definition conv (k : pkind) (x : arg) : fval :=
  match k with
  | KStr => VS (arg_str x)
  | KInt | KTagged => VI (arg_int x)
  | KBool => VI (match x with ABool true => 1 | _ => 0 end)
  end.

Lemma rhs_val_conv x k : rhs_val x (rhs_of k) = Some (conv k x).
Proof. destruct k; reflexivity. Qed.

Record R (T : tables) (s : bstate) (a : sstate) : Prop := {
  R_prefix : s (t_prefix_field T) = option_map VS (sp_prefix a);
  R_media : s (t_media_field T) = option_map VS (sp_media a);
  R_flag : flag_set s (flag_field T) = sp_tagged a;
  R_param : forall p, In p spec_params -> s (fpar T p) = option_map (conv (p_kind p)) (sp_vals a (p_setter p))
}.

Lemma upd_same s f v : upd s f v f = v.
Proof. unfold upd. now rewrite String.eqb_refl. Qed.

Lemma upd_other s f v g : g <> f -> upd s f v g = s g.
Proof. unfold upd. intros H. apply String.eqb_neq in H. now rewrite H. Qed.

Section WithTables.
Variable T : tables.
Hypothesis HT : tok T.

Lemma fpar_in_fields p : In p spec_params -> In (fpar T p) (param_fields T).
Proof. intros H. unfold param_fields. apply in_map_iff. exists p. auto. Qed.

Lemma fields_nodup_parts :
  ~ In (t_prefix_field T) (t_media_field T :: flag_field T :: param_fields T)
  /\ ~ In (t_media_field T) (flag_field T :: param_fields T)
  /\ ~ In (flag_field T) (param_fields T)
  /\ NoDup (param_fields T).
Proof.
  pose proof (tk_fields T HT) as H. unfold all_fields in H.
  inversion H as [|? ? H1 H2]; subst. inversion H2 as [|? ? H3 H4]; subst. inversion H4 as [|? ? H5 H6]; subst.
  auto.
Qed.

Lemma fpar_ne_prefix p : In p spec_params -> t_prefix_field T <> fpar T p.
Proof.
  intros Hp E. destruct fields_nodup_parts as [H _]. apply H. right. right. rewrite E. now apply fpar_in_fields.
Qed.
Lemma fpar_ne_media p : In p spec_params -> t_media_field T <> fpar T p.
Proof.
  intros Hp E. destruct fields_nodup_parts as [_ [H _]]. apply H. right. rewrite E. now apply fpar_in_fields.
Qed.
Lemma fpar_ne_flag p : In p spec_params -> flag_field T <> fpar T p.
Proof.
  intros Hp E. destruct fields_nodup_parts as [_ [_ [H _]]]. apply H. rewrite E. now apply fpar_in_fields.
Qed.
Lemma prefix_ne_media : t_prefix_field T <> t_media_field T.
Proof. intros E. destruct fields_nodup_parts as [H _]. apply H. now left. Qed.
Lemma prefix_ne_flag : t_prefix_field T <> flag_field T.
Proof. intros E. destruct fields_nodup_parts as [H _]. apply H. right. now left. Qed.
Lemma media_ne_flag : t_media_field T <> flag_field T.
Proof. intros E. destruct fields_nodup_parts as [_ [H _]]. apply H. now left. Qed.

Lemma fpar_inj p q : In p spec_params -> In q spec_params -> fpar T p = fpar T q -> p = q.
Proof.
  intros Hp Hq E. destruct fields_nodup_parts as [_ [_ [_ H]]]. unfold param_fields in H.
  eapply (NoDup_map_inj (fun p => field_of T (p_setter p))); eauto.
Qed.

Lemma flag_set_upd_other s f v : flag_field T <> f -> flag_set (upd s f v) (flag_field T) = flag_set s (flag_field T).
Proof. intros H. unfold flag_set. now rewrite upd_other. Qed.

(* assigning (or clearing) the field of parameter p is setting (or clearing) p in the abstract state *)
Lemma R_upd_param s a p v :
  In p spec_params -> R T s a ->
  R T (upd s (fpar T p) (option_map (conv (p_kind p)) v)) (set_val a (p_setter p) v).
Proof.
  intros Hp HR. constructor; cbn.
  - rewrite upd_other by (now apply fpar_ne_prefix). apply HR.
  - rewrite upd_other by (now apply fpar_ne_media). apply HR.
  - rewrite flag_set_upd_other by (now apply fpar_ne_flag). apply HR.
  - intros q Hq. destruct (String.eqb (p_setter q) (p_setter p)) eqn:E.
    + apply String.eqb_eq in E.
      assert (q = p) by (apply (NoDup_map_inj p_setter spec_params); auto; apply spec_setters_distinct).
      subst q. now rewrite upd_same.
    + rewrite upd_other. { now apply (R_param _ _ _ HR). }
      intros X. apply fpar_inj in X; auto. subst q. rewrite String.eqb_refl in E. discriminate.
Qed.

Lemma step_row s n x r :
  find_setter (t_setters T) n = Some r ->
  step T s (n, x) = if existsb (check_fires s x) (s_checks r) then (s, false)
                    else (fold_left (assign x) (s_assigns r) s, true).
Proof. intros H. unfold step. cbn [fst snd]. now rewrite H. Qed.

Lemma step_unknown s n x : ~ In n all_setter_names -> step T s (n, x) = (s, false).
Proof.
  intros Hn. unfold step. cbn [fst]. destruct (find_setter (t_setters T) n) as [r|] eqn:E; auto.
  unfold find_setter in E. apply find_some in E. destruct E as [Hin E]. apply String.eqb_eq in E.
  exfalso. apply Hn. rewrite <- E. now apply (tk_known T HT).
Qed.

(* clear() *)
Lemma fold_assign_clear x asg : forall s f,
  (forall fr, In fr asg -> rhs_val x (snd fr) = None) ->
  fold_left (assign x) asg s f = if existsb (eqb_of string_dec f) (map fst asg) then None else s f.
Proof.
  induction asg as [|[g r] asg IH]; intros s f H; cbn [fold_left map existsb]; auto.
  rewrite IH by (intros fr Hin; apply H; now right).
  destruct (existsb (eqb_of string_dec f) (map fst asg)); [now rewrite orb_true_r|].
  rewrite orb_false_r. unfold assign. cbn [fst snd].
  pose proof (H (g, r) (or_introl eq_refl)) as Hg. cbn [snd] in Hg. rewrite Hg.
  unfold upd, eqb_of. destruct (string_dec f g) as [->|Hne].
  - now rewrite String.eqb_refl.
  - apply String.eqb_neq in Hne. now rewrite Hne.
Qed.

Lemma clear_step s x :
  exists s', step T s ("clear"%string, x) = (s', true) /\ forall f, In f (all_fields T) -> s' f = None.
Proof.
  pose proof (tk_clear T HT) as H. unfold clear_ok, find_row in H.
  destruct (find _ (t_setters T)) as [r|] eqn:E; [|discriminate].
  repeat (apply andb_true_iff in H; let X := fresh "C" in destruct H as [H X]).
  apply eqb_of_true in C1.
  erewrite step_row by (unfold find_setter; exact E). rewrite C1. cbn [existsb].
  eexists. split; [reflexivity|]. intros f Hf.
  rewrite fold_assign_clear.
  - eapply forallb_forall in C; eauto. unfold memb in C. now rewrite C.
  - intros fr Hin. eapply forallb_forall in C0; eauto. apply andb_true_iff in C0. destruct C0 as [_ C0].
    apply orb_true_iff in C0. destruct C0 as [C0|C0].
    + apply eqb_of_true in C0. now rewrite C0.
    + apply andb_true_iff in C0. destruct C0 as [_ C0]. apply eqb_of_true in C0. now rewrite C0.
Qed.

Lemma R_init_of_none s : (forall f, In f (all_fields T) -> s f = None) -> R T s s_init.
Proof.
  intros H. constructor; cbn.
  - apply H. now left.
  - apply H. right. now left.
  - unfold flag_set. rewrite H; auto. right. right. now left.
  - intros p Hp. apply H. right. right. right. now apply fpar_in_fields.
Qed.

Lemma R_empty : R T empty_state s_init.
Proof. apply R_init_of_none. reflexivity. Qed.

(* ---- one setter call --------------------------------------------------------------------------------------------- *)

Lemma special_name_not_param n : In n (map fst special_setters) -> find_param n = None.
Proof.
  intros H. apply in_map_iff in H. destruct H as [q [E Hq]]. subst n.
  pose proof spec_special_not_param as X. eapply forallb_forall in X; eauto.
  destruct (find_param (fst q)); [discriminate|reflexivity].
Qed.

Lemma step_single s n x f rh cks :
  (exists r, find_setter (t_setters T) n = Some r /\ s_checks r = cks /\ s_assigns r = [(f, rh)]) ->
  step T s (n, x) = if existsb (check_fires s x) cks then (s, false) else (upd s f (rhs_val x rh), true).
Proof. intros [r [Hf [Hc Ha]]]. rewrite (step_row _ _ _ _ Hf), Hc, Ha. reflexivity. Qed.

Lemma row_spec_single n t cks f rh :
  row_spec T n t cks [(f, rh)] ->
  exists r, find_setter (t_setters T) n = Some r /\ s_checks r = cks /\ s_assigns r = [(f, rh)].
Proof. intros [r [A [_ [B C]]]]. eauto. Qed.

Ltac simp_R := cbn [sp_prefix sp_media sp_vals sp_tagged option_map rhs_val fst snd negb].

Lemma step_refines s a o :
  R T s a ->
  snd (step T s o) = snd (sstep a o) /\ R T (fst (step T s o)) (fst (sstep a o)).
Proof.
  intros HR. destruct o as [n x]. unfold sstep. cbn [fst snd].
  destruct (String.eqb n "prefix") eqn:E1.
  { apply String.eqb_eq in E1. subst n.
    rewrite (step_single _ _ _ _ _ _ (row_spec_single _ _ _ _ _ (tk_prefix T HT))), checks_legal.
    destruct (legal "prefix" x); simp_R; split; auto.
    constructor; simp_R.
    - now rewrite upd_same.
    - rewrite upd_other by (intros X; apply prefix_ne_media; auto). apply HR.
    - rewrite flag_set_upd_other by (intros X; apply prefix_ne_flag; auto). apply HR.
    - intros p Hp. rewrite upd_other by (intros X; eapply fpar_ne_prefix; eauto). now apply (R_param _ _ _ HR). }
  destruct (String.eqb n "reset_prefix") eqn:E2.
  { apply String.eqb_eq in E2. subst n.
    rewrite (step_single _ _ _ _ _ _ (row_spec_single _ _ _ _ _ (tk_reset_prefix T HT))).
    cbn [existsb]. simp_R. split; auto.
    constructor; simp_R.
    - now rewrite upd_same.
    - rewrite upd_other by (intros X; apply prefix_ne_media; auto). apply HR.
    - rewrite flag_set_upd_other by (intros X; apply prefix_ne_flag; auto). apply HR.
    - intros p Hp. rewrite upd_other by (intros X; eapply fpar_ne_prefix; eauto). now apply (R_param _ _ _ HR). }
  destruct (String.eqb n "media") eqn:E3.
  { apply String.eqb_eq in E3. subst n.
    rewrite (step_single _ _ _ _ _ _ (row_spec_single _ _ _ _ _ (tk_media T HT))), checks_legal.
    destruct (legal "media" x); simp_R; split; auto.
    constructor; simp_R.
    - rewrite upd_other by apply prefix_ne_media. apply HR.
    - now rewrite upd_same.
    - rewrite flag_set_upd_other by (intros X; apply media_ne_flag; auto). apply HR.
    - intros p Hp. rewrite upd_other by (intros X; eapply fpar_ne_media; eauto). now apply (R_param _ _ _ HR). }
  destruct (String.eqb n "clear") eqn:E4.
  { apply String.eqb_eq in E4. subst n. destruct (clear_step s x) as [s' [Hs Hn]]. rewrite Hs. simp_R. split; auto.
    now apply R_init_of_none. }
  destruct (String.eqb n "is_session_tagged") eqn:E5.
  { apply String.eqb_eq in E5. subst n.
    rewrite (step_single _ _ _ _ _ _ (row_spec_single _ _ _ _ _ (tk_flag T HT))).
    cbn [existsb]. simp_R. split; auto.
    constructor; simp_R.
    - rewrite upd_other by apply prefix_ne_flag. apply HR.
    - rewrite upd_other by apply media_ne_flag. apply HR.
    - unfold flag_set. rewrite upd_same. destruct x as [| |[|]|]; reflexivity.
    - intros p Hp. rewrite upd_other by (intros X; eapply fpar_ne_flag; eauto). now apply (R_param _ _ _ HR). }
  destruct (String.eqb n "reset_reliable") eqn:E6.
  { apply String.eqb_eq in E6. subst n.
    rewrite (step_single _ _ _ _ _ _ (row_spec_single _ _ _ _ _ (tk_reset_reliable T HT))).
    cbn [existsb]. simp_R. split; auto.
    destruct reliable_param as [p [Hp Ep]].
    pose proof (R_upd_param s a p None Hp HR) as X. unfold fpar in X. rewrite Ep in X. exact X. }
  destruct (String.eqb n "reset_rejoin") eqn:E7.
  { apply String.eqb_eq in E7. subst n.
    rewrite (step_single _ _ _ _ _ _ (row_spec_single _ _ _ _ _ (tk_reset_rejoin T HT))).
    cbn [existsb]. simp_R. split; auto.
    destruct rejoin_param as [p [Hp Ep]].
    pose proof (R_upd_param s a p None Hp HR) as X. unfold fpar in X. rewrite Ep in X. exact X. }
  destruct (find_param n) as [p|] eqn:EP.
  - apply find_param_some in EP. destruct EP as [Hp En]. subst n.
    rewrite (step_single _ _ _ _ _ _ (row_spec_single _ _ _ _ _ (tk_param T HT p Hp))), checks_legal.
    destruct (legal (p_setter p) x); simp_R; split; auto.
    rewrite rhs_val_conv.
    exact (R_upd_param s a p (Some x) Hp HR).
  - rewrite step_unknown; simp_R; auto.
    intros Hin. unfold all_setter_names in Hin. apply in_app_or in Hin. destruct Hin as [Hin|Hin].
    + cbn in Hin. apply String.eqb_neq in E1, E2, E3, E4, E5, E6, E7.
      repeat (destruct Hin as [Hin|Hin]; [symmetry in Hin; contradiction|]). contradiction.
    + apply in_map_iff in Hin. destruct Hin as [p [E Hp]]. subst n. rewrite find_param_in in EP by auto. discriminate.
Qed.

Lemma run_refines ops : forall s a,
  R T s a -> snd (run T s ops) = snd (srun a ops) /\ R T (fst (run T s ops)) (fst (srun a ops)).
Proof.
  induction ops as [|o r IH]; intros s a HR; cbn; auto.
  destruct (step_refines s a o HR) as [E1 HR1].
  destruct (step T s o) as [s1 ok] eqn:Es. destruct (sstep a o) as [a1 ok'] eqn:Ea. cbn in E1, HR1. subst ok'.
  destruct (IH s1 a1 HR1) as [E2 HR2].
  destruct (run T s1 r) as [s2 oks]. destruct (srun a1 r) as [a2 oks']. cbn in *. subst. auto.
Qed.

(* ---- the abstract builder only ever holds legal prefix / media and bar-free strings ---------------------- *)

Record sinv (a : sstate) : Prop := {
  si_prefix : forall p, sp_prefix a = Some p -> p = [] \/ p = SPY_QUALIFIER;
  si_media : forall m, sp_media a = Some m -> m = UDP_MEDIA \/ m = IPC_MEDIA;
  si_vals : forall n x, sp_vals a n = Some x -> has_bar (arg_str x) = false
}.

Lemma sinv_init : sinv s_init.
Proof. constructor; cbn; intros; discriminate. Qed.

Lemma sinv_set_val a n v : sinv a -> (forall x, v = Some x -> has_bar (arg_str x) = false) -> sinv (set_val a n v).
Proof.
  intros H Hv. constructor; cbn; try apply H.
  intros m x. destruct (String.eqb m n); [apply Hv | apply H].
Qed.

Lemma sstep_sinv a o : sinv a -> op_no_bar o = true -> sinv (fst (sstep a o)).
Proof.
  intros H Hb. destruct o as [n x]. unfold op_no_bar in Hb. cbn [snd] in Hb. apply negb_true_iff in Hb.
  unfold sstep. cbn [fst snd].
  destruct (String.eqb n "prefix") eqn:E1.
  { destruct (legal n x) eqn:EL; cbn; auto. apply String.eqb_eq in E1. subst n. unfold legal in EL. cbn in EL.
    constructor; cbn; try apply H. intros p Hp. injection Hp as <-.
    apply orb_true_iff in EL. destruct EL as [EL|EL].
    - left. destruct (arg_str x); [auto|discriminate].
    - right. apply str_eqb_eq in EL. rewrite EL. apply spec_consts. }
  destruct (String.eqb n "reset_prefix"). { cbn. constructor; cbn; try apply H. discriminate. }
  destruct (String.eqb n "media") eqn:E3.
  { destruct (legal n x) eqn:EL; cbn; auto. apply String.eqb_eq in E3. subst n. unfold legal in EL. cbn in EL.
    constructor; cbn; try apply H. intros m Hm. injection Hm as <-.
    destruct spec_consts as [_ [U [I _]]].
    apply orb_true_iff in EL. destruct EL as [EL|EL]; apply str_eqb_eq in EL; rewrite EL; auto. }
  destruct (String.eqb n "clear"). { cbn. apply sinv_init. }
  destruct (String.eqb n "is_session_tagged"). { cbn. constructor; cbn; apply H. }
  destruct (String.eqb n "reset_reliable"). { cbn. apply sinv_set_val; auto. discriminate. }
  destruct (String.eqb n "reset_rejoin"). { cbn. apply sinv_set_val; auto. discriminate. }
  destruct (find_param n); cbn; auto.
  destruct (legal n x); cbn; auto. apply sinv_set_val; auto. intros y Hy. injection Hy as <-. auto.
Qed.

Lemma srun_sinv ops : forall a, sinv a -> forallb op_no_bar ops = true -> sinv (fst (srun a ops)).
Proof.
  induction ops as [|o r IH]; intros a H Hb; cbn; auto.
  cbn in Hb. apply andb_true_iff in Hb. destruct Hb as [Hb1 Hb2].
  pose proof (sstep_sinv a o H Hb1) as H1. destruct (sstep a o) as [a1 ok]. cbn in H1.
  specialize (IH a1 H1 Hb2). destruct (srun a1 r) as [a2 oks]. auto.
Qed.

(* ---- build() -------------------------------------------------------------------------------------------------------- *)

Definition emitted (s : bstate) (e : emit_row) : params :=
  match s (e_field e) with Some v => [(e_name e, fmt_val s (e_fmt e) v)] | None => [] end.

Lemma emit_seg s et : List.concat (map (emit s) et) = List.concat (map seg (flat_map (emitted s) et)).
Proof.
  induction et as [|e et IH]; auto. cbn [map List.concat flat_map]. rewrite map_app, concat_app, IH. f_equal.
  unfold emit, emitted. destruct (s (e_field e)); cbn; [|reflexivity].
  unfold seg. cbn [fst snd]. now rewrite app_nil_r.
Qed.

Lemma concat_seg_last kvs : kvs <> [] -> exists y, List.concat (map seg kvs) = y ++ [CH_BAR].
Proof.
  induction kvs as [|kv r IH]; intros H; [contradiction|]. cbn [map List.concat].
  destruct r as [|kv2 r'].
  - cbn. rewrite app_nil_r. unfold seg. exists (fst kv ++ [CH_EQ] ++ snd kv). now repeat rewrite <- app_assoc.
  - destruct IH as [y Hy]; [discriminate|]. rewrite Hy. exists (seg kv ++ y). now rewrite app_assoc.
Qed.

Lemma pop_if_sep_last z c : (c = CH_BAR \/ c = CH_QMARK) -> pop_if_sep (z ++ [c]) = removelast (z ++ [c]).
Proof. intros H. unfold pop_if_sep. rewrite rev_unit. destruct H as [-> | ->]; reflexivity. Qed.

Lemma build_print s a m :
  R T s a -> sinv a -> sp_media a = Some m ->
  build T s = Ok (print (expected_prefix a) m (flat_map (emitted s) (t_emits T))).
Proof.
  intros HR HS Hm. unfold build. rewrite (R_media _ _ _ HR), Hm. cbn [option_map].
  change (fval_str (Some (VS m))) with m.
  rewrite (R_prefix _ _ _ HR), (tk_scheme T HT). rewrite emit_seg.
  set (kvs := flat_map (emitted s) (t_emits T)).
  assert (Hpre : match option_map VS (sp_prefix a) with
                 | Some p => if is_empty (fval_str (Some p)) then [] else fval_str (Some p) ++ [CH_COLON]
                 | None => [] end = prefix_part (expected_prefix a)).
  { unfold expected_prefix. destruct (sp_prefix a) as [p|] eqn:Ep; cbn; auto.
    destruct (si_prefix _ HS _ Ep) as [-> | ->]; reflexivity. }
  rewrite Hpre. f_equal.
  pose proof (proj1 (proj2 (proj2 (proj2 spec_consts)))) as EA.
  destruct kvs as [|kv r] eqn:Ek.
  - cbn [map List.concat]. rewrite app_nil_r.
    replace (prefix_part (expected_prefix a) ++ P_AERON ++ [CH_COLON] ++ m ++ [CH_QMARK])
      with ((prefix_part (expected_prefix a) ++ (P_AERON ++ [CH_COLON]) ++ m) ++ [CH_QMARK])
      by (repeat rewrite <- app_assoc; reflexivity).
    rewrite pop_if_sep_last by now right. rewrite removelast_last. rewrite EA. unfold print, prefix_part. reflexivity.
  - destruct (concat_seg_last (kv :: r)) as [y Hy]; [discriminate|].
    unfold print. fold (prefix_part (expected_prefix a)).
    replace (prefix_part (expected_prefix a) ++ P_AERON ++ [CH_COLON] ++ m ++ [CH_QMARK] ++ List.concat (map seg (kv :: r)))
      with ((prefix_part (expected_prefix a) ++ (P_AERON ++ [CH_COLON]) ++ m) ++ [CH_QMARK] ++ List.concat (map seg (kv :: r)))
      by (repeat rewrite <- app_assoc; reflexivity).
    rewrite Hy.
    replace ((prefix_part (expected_prefix a) ++ (P_AERON ++ [CH_COLON]) ++ m) ++ [CH_QMARK] ++ y ++ [CH_BAR])
      with (((prefix_part (expected_prefix a) ++ (P_AERON ++ [CH_COLON]) ++ m) ++ [CH_QMARK] ++ y) ++ [CH_BAR])
      by (repeat rewrite <- app_assoc; reflexivity).
    rewrite pop_if_sep_last by now left. f_equal. rewrite EA. unfold prefix_part.
    repeat rewrite <- app_assoc. reflexivity.
Qed.

Lemma build_no_media s a : R T s a -> sp_media a = None -> build T s = Panic.
Proof. intros HR Hm. unfold build. now rewrite (R_media _ _ _ HR), Hm. Qed.

(* what a field prints is what the specification renders *)
Lemma fmt_render s a p x :
  R T s a -> fmt_val s (fmt_of (flag_field T) (p_kind p)) (conv (p_kind p) x) = render (p_kind p) (sp_tagged a) x.
Proof.
  intros HR. destruct (p_kind p); cbn; auto.
  - unfold bool_to_string. destruct x as [| |[|]|]; reflexivity.
  - rewrite (R_flag _ _ _ HR). destruct (proj1 (proj2 (proj2 (proj2 (proj2 (proj2 spec_consts)))))). reflexivity.
Qed.

Lemma emitted_of_param s a p :
  R T s a -> In p spec_params -> emitted s (emit_row_of T p) = expected_entry a p.
Proof.
  intros HR Hp. unfold emitted, expected_entry, emit_row_of. cbn [e_field e_name e_fmt].
  fold (fpar T p). rewrite (R_param _ _ _ HR p Hp). destruct (sp_vals a (p_setter p)) as [x|]; cbn; auto.
  now rewrite (fmt_render s a p x HR).
Qed.

Lemma in_emitted_expected s a kv :
  R T s a -> (In kv (flat_map (emitted s) (t_emits T)) <-> In kv (expected_params a)).
Proof.
  intros HR. unfold expected_params. rewrite !in_flat_map. split.
  - intros [e [He Hin]]. destruct (tk_emit1 T HT e He) as [p [Hp ->]].
    exists p. split; auto. now rewrite <- (emitted_of_param s a p HR Hp).
  - intros [p [Hp Hin]]. exists (emit_row_of T p). split; [now apply (tk_emit2 T HT)|].
    now rewrite (emitted_of_param s a p HR Hp).
Qed.

Lemma keys_flat_map_sub {A} (f : A -> params) (g : A -> str) l :
  (forall x, In x l -> keys (f x) = [] \/ keys (f x) = [g x]) -> NoDup (map g l) -> NoDup (keys (flat_map f l)).
Proof.
  induction l as [|x l IH]; intros H Hd; cbn; [constructor|].
  inversion Hd as [|? ? Hn Hd']; subst.
  unfold keys. rewrite map_app. fold (keys (f x)). fold (keys (flat_map f l)).
  assert (IHl : NoDup (keys (flat_map f l))) by (apply IH; auto; intros y Hy; apply H; now right).
  destruct (H x (or_introl eq_refl)) as [E|E]; rewrite E; cbn; auto.
  constructor; auto. intros Hin. apply Hn.
  unfold keys in Hin. apply in_map_iff in Hin. destruct Hin as [[k v] [Ek Hin]]. cbn in Ek. subst k.
  apply in_flat_map in Hin. destruct Hin as [y [Hy Hin]].
  apply in_map_iff. exists y. split; auto.
  destruct (H y (or_intror Hy)) as [E2|E2].
  - exfalso. assert (X : In (g x) (keys (f y))) by (apply in_map_iff; exists (g x, v); auto). rewrite E2 in X. contradiction.
  - assert (X : In (g x) (keys (f y))) by (apply in_map_iff; exists (g x, v); auto). rewrite E2 in X.
    destruct X as [X|[]]. auto.
Qed.

Lemma emitted_keys_nodup s : NoDup (keys (flat_map (emitted s) (t_emits T))).
Proof.
  apply (keys_flat_map_sub (emitted s) e_name).
  - intros e _. unfold emitted. destruct (s (e_field e)); cbn; auto.
  - apply (tk_names T HT).
Qed.

Lemma expected_keys_nodup a : NoDup (keys (expected_params a)).
Proof.
  apply (keys_flat_map_sub (expected_entry a) p_name).
  - intros p _. unfold expected_entry. destruct (sp_vals a (p_setter p)); cbn; auto.
  - apply spec_names_distinct.
Qed.

Lemma NoDup_of_keys (ps : params) : NoDup (keys ps) -> NoDup ps.
Proof.
  induction ps as [|kv r IH]; cbn; intros H; [constructor|].
  inversion H; subst. constructor; auto. intros Hin. apply H2. now apply in_map.
Qed.

Lemma render_no_bar k t x : has_bar (arg_str x) = false -> has_bar (render k t x) = false.
Proof.
  intros H. destruct k; unfold render; auto.
  - apply no_bar_in_decimal.
  - destruct x as [| |[|]|]; reflexivity.
  - destruct t; [|apply no_bar_in_decimal]. rewrite has_bar_app, no_bar_in_decimal. reflexivity.
Qed.

Lemma expected_entries_ok a : sinv a -> forallb entry_ok (expected_params a) = true.
Proof.
  intros HS. apply forallb_forall. intros kv Hin. unfold expected_params in Hin.
  apply in_flat_map in Hin. destruct Hin as [p [Hp Hin]]. unfold expected_entry in Hin.
  destruct (sp_vals a (p_setter p)) as [x|] eqn:E; [|contradiction]. destruct Hin as [<-|[]].
  unfold entry_ok. cbn [fst snd].
  pose proof spec_names_ok as X. eapply forallb_forall in X; eauto. rewrite X.
  rewrite render_no_bar; auto. eapply si_vals; eauto.
Qed.

(* C19_builder *)
Theorem builder_correct ops :
  forallb op_no_bar ops = true ->
  let s := fst (run T empty_state ops) in
  let a := fst (srun s_init ops) in
  snd (run T empty_state ops) = snd (srun s_init ops)
  /\ match sp_media a with
     | None => build T s = Panic
     | Some m => exists b ps, build T s = Ok b
                   /\ parse b = POk (mkUri (expected_prefix a) m ps)
                   /\ Permutation ps (expected_params a)
     end.
Proof.
  intros Hb s a.
  destruct (run_refines ops empty_state s_init R_empty) as [E HR]. fold s a in HR.
  pose proof (srun_sinv ops s_init sinv_init Hb) as HS. fold a in HS.
  split; auto.
  destruct (sp_media a) as [m|] eqn:Em; [|now apply (build_no_media s a)].
  exists (print (expected_prefix a) m (flat_map (emitted s) (t_emits T))), (flat_map (emitted s) (t_emits T)).
  split; [now apply build_print|].
  assert (Hperm : Permutation (flat_map (emitted s) (t_emits T)) (expected_params a)).
  { apply NoDup_Permutation.
    - apply NoDup_of_keys, emitted_keys_nodup.
    - apply NoDup_of_keys, expected_keys_nodup.
    - intros kv. now apply in_emitted_expected. }
  split; auto.
  rewrite parse_print.
  - now rewrite fold_ins_NoDup by apply emitted_keys_nodup.
  - unfold expected_prefix, prefix_ok. destruct (sp_prefix a) as [p|] eqn:Ep; auto. eapply si_prefix; eauto.
  - destruct (si_media _ HS _ Em) as [-> | ->]; apply media_consts_ok.
  - apply forallb_forall. intros kv Hin. pose proof (expected_entries_ok a HS) as X.
    eapply forallb_forall in X; eauto. eapply Permutation_in; eauto.
  - intros _. eapply si_media; eauto.
Qed.

End WithTables.

(* ---- the specification itself: a parameter setter changes its own parameter and nothing else ------------- *)

Lemma sstep_param a n x p :
  find_param n = Some p ->
  sstep a (n, x) = if legal n x then (set_val a n (Some x), true) else (a, false).
Proof.
  intros H. unfold sstep. cbn [fst snd].
  destruct (String.eqb n "prefix") eqn:E1; [apply String.eqb_eq in E1; subst n; discriminate|].
  destruct (String.eqb n "reset_prefix") eqn:E2; [apply String.eqb_eq in E2; subst n; discriminate|].
  destruct (String.eqb n "media") eqn:E3; [apply String.eqb_eq in E3; subst n; discriminate|].
  destruct (String.eqb n "clear") eqn:E4; [apply String.eqb_eq in E4; subst n; discriminate|].
  destruct (String.eqb n "is_session_tagged") eqn:E5; [apply String.eqb_eq in E5; subst n; discriminate|].
  destruct (String.eqb n "reset_reliable") eqn:E6; [apply String.eqb_eq in E6; subst n; discriminate|].
  destruct (String.eqb n "reset_rejoin") eqn:E7; [apply String.eqb_eq in E7; subst n; discriminate|].
  now rewrite H.
Qed.

Lemma setter_own_parameter a n x p :
  find_param n = Some p -> legal n x = true ->
  let a' := fst (sstep a (n, x)) in
  snd (sstep a (n, x)) = true
  /\ expected_entry a' p = [(p_name p, render (p_kind p) (sp_tagged a) x)]
  /\ (forall q, In q spec_params -> q <> p -> expected_entry a' q = expected_entry a q)
  /\ sp_prefix a' = sp_prefix a /\ sp_media a' = sp_media a /\ sp_tagged a' = sp_tagged a.
Proof.
  intros H HL. rewrite (sstep_param a n x p H), HL. cbn [fst snd].
  apply find_param_some in H. destruct H as [Hp <-].
  repeat split; auto.
  - unfold expected_entry, set_val. cbn [sp_vals sp_tagged]. now rewrite String.eqb_refl.
  - intros q Hq Hne. unfold expected_entry, set_val. cbn [sp_vals sp_tagged].
    destruct (String.eqb (p_setter q) (p_setter p)) eqn:E; auto.
    apply String.eqb_eq in E. exfalso. apply Hne.
    apply (NoDup_map_inj p_setter spec_params); auto. apply spec_setters_distinct.
Qed.

Lemma rejected_changes_nothing a n x p :
  find_param n = Some p -> legal n x = false -> sstep a (n, x) = (a, false).
Proof. intros H HL. now rewrite (sstep_param a n x p H), HL. Qed.
