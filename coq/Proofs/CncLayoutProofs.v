(* Proofs about Model/CncLayout.v: for non-negative lengths whose sum fits an Index the five regions follow each
   other after the aligned meta data, are pairwise disjoint and lie inside a file of the summed size. *)
From Coq Require Import ZArith List Bool Lia Arith.
From Coq Require Import ZifyBool.
Require Import V.Base.MachineInt V.Generated.GenConsts V.Model.Connect V.Model.CncLayout V.Model.Agent V.Oracle.C10CncOracle.
Import ListNotations.
Open Scope Z_scope.

Definition zsum (l : list Z) : Z := fold_right Z.add 0 l.

Lemma zsum_app a b : zsum (a ++ b) = zsum a + zsum b.
Proof. unfold zsum. induction a; cbn [app fold_right]; lia. Qed.

Lemma zsum_nonneg l : (forall x, In x l -> 0 <= x) -> 0 <= zsum l.
Proof. induction l; intros H; [unfold zsum; cbn; lia |]. pose proof (H a (or_introl eq_refl)). assert (0 <= zsum l) by (apply IHl; intros; apply H; right; assumption). unfold zsum in *. cbn [fold_right]. lia. Qed.

Lemma zsum_firstn_le l i : (forall x, In x l -> 0 <= x) -> zsum (firstn i l) <= zsum l.
Proof.
  intros H. rewrite <- (firstn_skipn i l) at 2. rewrite zsum_app.
  assert (0 <= zsum (skipn i l)); [| lia].
  apply zsum_nonneg. intros x Hx. apply H. rewrite <- (firstn_skipn i l). apply in_or_app. right. exact Hx.
Qed.

Lemma sum32_ok m l : forall acc, (forall x, In x l -> 0 <= x) -> 0 <= acc -> acc + zsum l < two31 ->
  sum32 m acc l = Ok (acc + zsum l).
Proof.
  induction l as [|x r IH]; intros acc Hn Ha Hs; cbn [sum32 zsum fold_right].
  - f_equal. lia.
  - pose proof (Hn x (or_introl eq_refl)).
    assert (0 <= zsum r) by (apply zsum_nonneg; intros; apply Hn; right; assumption).
    unfold zsum in *. cbn [fold_right] in Hs.
    unfold add32, chk32. assert (in_i32 (acc + x) = true) as -> by (unfold in_i32, two31 in *; lia).
    cbn [bind]. rewrite IH; [f_equal; lia | intros; apply Hn; right; assumption | lia | lia].
Qed.

Lemma lay_pre_parts flen c : lay_pre flen c = true ->
  (forall x, In x (lens c) -> 0 <= x) /\ CncLayout.META + zsum (lens c) < two31 /\ CncLayout.META_FIELDS <= flen < two31.
Proof.
  unfold lay_pre. intros H.
  apply andb_prop in H as [H H4]. apply andb_prop in H as [H H3]. apply andb_prop in H as [H1 H2].
  repeat split; try lia.
  - intros x Hx. rewrite forallb_forall in H1. specialize (H1 x Hx). lia.
  - unfold zsum. lia.
Qed.

Lemma meta_pos : 0 <= CncLayout.META.
Proof. unfold CncLayout.META, CNC_META_DATA_LENGTH. lia. Qed.

Lemma region_ok m flen c i : lay_pre flen c = true ->
  region m (wrap32 flen) c i = Ok (CncLayout.META + zsum (firstn i (lens c)), nth i (lens c) 0).
Proof.
  intros Hp. destruct (lay_pre_parts _ _ Hp) as (Hn & Hs & Hf).
  unfold region, read_meta. rewrite wrap32_id by (unfold in_i32, two31, CncLayout.META_FIELDS, CNC_META_DATA_FIELDS_END in *; lia).
  assert ((CncLayout.META_FIELDS <=? flen) = true) as -> by lia. cbn [bind].
  pose proof (zsum_firstn_le (lens c) i Hn). pose proof meta_pos.
  rewrite sum32_ok; [reflexivity | | assumption | lia].
  intros x Hx. apply Hn. rewrite <- (firstn_skipn i (lens c)). apply in_or_app. left. exact Hx.
Qed.

Theorem regions_ok m flen c : lay_pre flen c = true ->
  regions m (wrap32 flen) c =
    let M := CncLayout.META in
    [Ok (M, m_td c); Ok (M + m_td c, m_tc c); Ok (M + m_td c + m_tc c, m_cm c);
     Ok (M + m_td c + m_tc c + m_cm c, m_cv c); Ok (M + m_td c + m_tc c + m_cm c + m_cv c, m_el c)].
Proof.
  intros Hp. unfold regions. cbn [map]. rewrite !region_ok by assumption.
  cbn [lens firstn nth zsum fold_right]. cbn zeta.
  repeat (apply f_equal2; [apply f_equal; apply f_equal2; [lia | reflexivity] |]); reflexivity.
Qed.

(* geometry of a consecutive list of regions *)
Lemma consecutive_geometry : forall rs ls from,
  consecutive from rs ls = true -> (forall x, In x ls -> 0 <= x) ->
  forall i j oi ci oj cj, (i < j)%nat ->
    nth_error rs i = Some (Ok (oi, ci)) -> nth_error rs j = Some (Ok (oj, cj)) ->
    from <= oi /\ 0 <= ci /\ oi + ci <= oj /\ 0 <= cj /\ oj + cj <= from + zsum ls.
Proof.
  induction rs as [|r rs IH]; intros ls from Hc Hn i j oi ci oj cj Hij Hi Hj.
  - destruct i; discriminate.
  - destruct r as [[off cap]| | | |]; try discriminate. destruct ls as [|l ls]; [discriminate |].
    cbn [consecutive] in Hc. apply andb_prop in Hc as [Hc Hr]. apply andb_prop in Hc as [Ho Hcap].
    assert (Hl : 0 <= l) by (apply Hn; left; reflexivity).
    assert (Hn' : forall x, In x ls -> 0 <= x) by (intros; apply Hn; right; assumption).
    pose proof (zsum_nonneg ls Hn') as Hz. cbn [zsum fold_right]. fold (zsum ls).
    destruct j; [lia |]. cbn [nth_error] in Hj.
    destruct i.
    + cbn in Hi. injection Hi as -> ->.
      (* region j lies in the rest, which starts at from + l *)
      assert (Hrest : forall rs ls from j oj cj, consecutive from rs ls = true -> (forall x, In x ls -> 0 <= x) ->
                 nth_error rs j = Some (Ok (oj, cj)) -> from <= oj /\ 0 <= cj /\ oj + cj <= from + zsum ls).
      { clear. induction rs as [|r rs IH]; intros ls from j oj cj Hc Hn Hj; [destruct j; discriminate |].
        destruct r as [[off cap]| | | |]; try discriminate. destruct ls as [|l ls]; [discriminate |].
        cbn [consecutive] in Hc. apply andb_prop in Hc as [Hc Hr]. apply andb_prop in Hc as [Ho Hcap].
        assert (Hl : 0 <= l) by (apply Hn; left; reflexivity).
        assert (Hn' : forall x, In x ls -> 0 <= x) by (intros; apply Hn; right; assumption).
        pose proof (zsum_nonneg ls Hn') as Hz. cbn [zsum fold_right]. fold (zsum ls).
        destruct j.
        - cbn in Hj. injection Hj as -> ->. lia.
        - cbn [nth_error] in Hj. specialize (IH _ _ _ _ _ Hr Hn' Hj). lia. }
      specialize (Hrest _ _ _ _ _ _ Hr Hn' Hj). lia.
    + cbn [nth_error] in Hi. specialize (IH _ _ Hr Hn' i j oi ci oj cj ltac:(lia) Hi Hj). lia.
Qed.

Theorem holds_lay_model m flen c : holds_lay flen c (layout m flen c) = true.
Proof.
  unfold holds_lay. destruct (lay_pre flen c) eqn:Hp; [| reflexivity]. cbn [negb].
  unfold layout. rewrite regions_ok by assumption. cbn zeta.
  destruct (lay_pre_parts _ _ Hp) as (Hn & Hs & Hf).
  unfold getters. rewrite wrap32_id by (unfold in_i32, two31, CncLayout.META_FIELDS, CNC_META_DATA_FIELDS_END in *; lia).
  assert ((4 <=? flen) && (CncLayout.META_FIELDS <=? flen) = true) as -> by (unfold CncLayout.META_FIELDS, CNC_META_DATA_FIELDS_END in *; lia).
  cbn [consecutive lens].
  rewrite !Z.eqb_refl. cbn [andb].
  reflexivity.
Qed.
