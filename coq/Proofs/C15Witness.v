(* The code before the repairs of fixes/C15-*.diff (Model/Counters.v, definitions ending in _v0):
   concrete histories on which the property fails.  These are the refutations the check found on the
   unrepaired tree, kept as lemmas. *)
Require Import V.Base.MachineInt.
Require Import V.Generated.GenConsts.
Require Import V.Model.Counters.
Require Import V.Oracle.C15Oracle.
Open Scope Z_scope.

(* validate_counter_id accepted id = slot count: the accessor then runs into bounds_check *)
Lemma v0_validate_accepts_slot_count :
  counter_value_v0 (mgr0 2 2 10) 2 = CPanic /\ counter_state_v0 (mgr0 2 2 10) 2 = CPanic /\
  counter_value (mgr0 2 2 10) 2 = CErr IdOutOfRange.
Proof. vm_compute. auto. Qed.

(* with fewer metadata records than value slots the ids in between were accepted as well *)
Lemma v0_validate_ignores_metadata_capacity :
  counter_state_v0 (mgr0 1 3 10) 1 = CPanic /\ counter_state (mgr0 1 3 10) 1 = CErr IdOutOfRange.
Proof. vm_compute. auto. Qed.

(* an allocation that fails on its label had already taken an id: the slot stays UNUSED below the
   high water mark, for_each stops there and no longer shows the counters allocated after it *)
Lemma v0_failed_allocate_leaks_slot :
  let '(r1, s1) := allocate_opt_v0 1 KNone (mk_label 381 0 (-1)) (mgr0 2 2 10) in
  let '(r2, s2) := allocate_opt_v0 1 KNone (mk_label 3 0 (-1)) s1 in
  r1 = CErr LabelTooLong /\ hwm s1 = 1 /\ r2 = COk 1 /\ counter_state s2 1 = COk ST_ALLOCATED /\
  for_each_ids s2 = COk [].
Proof. vm_compute. auto 10. Qed.

(* ... and a cooled-down id popped from the free list by a failing allocation is lost for good:
   on one slot nothing is live and allocation fails from then on *)
Lemma v0_failed_allocate_leaks_freed_id :
  let s0 := mgr0 1 1 0 in
  let '(_, s1) := allocate_opt_v0 1 KNone (mk_label 3 0 (-1)) s0 in
  let '(_, s2) := free Debug 0 s1 in
  let '(r3, s3) := allocate_opt_v0 1 (KOpt (mk_key 113 1)) (mk_label 3 0 (-1)) s2 in
  let '(r4, s4) := allocate_opt_v0 1 KNone (mk_label 3 0 (-1)) s3 in
  r3 = CErr KeyTooLong /\ free_list s3 = [] /\ for_each_ids s3 = COk [] /\ r4 = CErr ValuesFull /\
  (* the repaired code hands the id out again *)
  fst (allocate_opt 1 KNone (mk_label 3 0 (-1)) (snd (allocate_opt 1 (KOpt (mk_key 113 1)) (mk_label 3 0 (-1)) s2))) = COk 0.
Proof. vm_compute. auto 10. Qed.

(* the iterator stopped at the first reclaimed record *)
Lemma v0_iter_stops_at_reclaimed :
  let s := final Debug [Alloc 1 KNone (mk_label 1 0 (-1)); Alloc 2 KNone (mk_label 2 0 (-1)); Free 0] (mgr0 2 2 10) in
  iter_v0 s = COk [] /\ for_each_ids s = COk [1] /\ (exists i, iter s = COk [i]).
Proof. vm_compute. split; [reflexivity|]. split; [reflexivity|]. eexists. reflexivity. Qed.

(* a history used as the non-vacuity example of Props/C15.v *)
Definition example_ops : list op :=
  [Alloc 5 (KOpt (mk_key 8 3)) (mk_label 4 1 (-1)); Alloc 7 KNone (mk_label 380 2 (-1)); SetVal 0 77;
   Free 0; SetClock 9; SetVal 0 99;                         (* late write of the former owner during the cool-down *)
   Alloc 1 (KFunc (mk_key 112 4)) (mk_label 0 0 (-1));
   Alloc 1 KNone (mk_label 2 2 (-1));                       (* full: id 0 still cooling *)
   SetClock 10; Alloc 2 KNone (mk_label 381 2 (-1)); Alloc 2 (KOpt (mk_key 113 1)) (mk_label 2 2 (-1));
   Alloc 2 KNone (mk_label 3 2 1);
   Alloc 2 KNone (mk_label_u 382 7 2);                      (* 191 two-byte characters = 382 bytes *)
   AllocSnap 9 (mk_key 8 2) (mk_label_u 380 7 3); Dump].               (* 380 bytes of UTF-8; reuses id 0, which reads 0; its key callback looks at the counters *)
