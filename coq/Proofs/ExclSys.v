(* C03, the system exclusive publisher + subscriber (poll, bounded_poll, controlled_poll, bounded_controlled_poll) + limit
   updates: reachability under admissible steps (all interleavings, crash points = threads never scheduled again) and the invariant. *)
Require Import V.Base.MachineInt.
Require Import V.Generated.GenConsts.
Require Import V.Model.LogBase.
Require Import V.Model.Descriptor.
Require Import V.Model.Sched.
Require Import V.Model.AppenderThreads.
Require Import V.Model.ReaderThreads.
Require Import V.Model.ExclThreads.
Require Import V.Model.PollThreads.
Require Import V.Model.ClaimThreads.
Require Import V.Proofs.TailArith.
Require Import V.Proofs.FragArith.
Require Import V.Proofs.ReaderInv.
Require Import V.Proofs.ExclDefs V.Proofs.ExclPub1 V.Proofs.ExclPub2 V.Proofs.ExclPub3 V.Proofs.ExclPub7 V.Proofs.ExclRd1.
Require Import V.Proofs.ExclRd2 V.Proofs.ExclRd3 V.Proofs.ExclRd4.
From Coq Require Import ZifyBool.
Open Scope Z_scope.

Section S.
  Variable c : cfg.
  Hypothesis W : wf_cfg c.

  (* the system: the exclusive publisher (thread tp), one subscriber (any of the six poll flavours), environment threads that move the publication limit *)
  Variable tp : nat.

  Definition env_ok (l : elocal) : Prop := forall op, In op (e_ops l) -> exists v, op = SetLimit v.
  Definition kind_ok (x : xthread) : Prop :=
    match x with
    | XV _ => True
    | XOld (RApp (TEnv l)) => env_ok l
    | XOld (RApp TIdle) => True
    | _ => False
    end.
  Definition init_x (x : xthread) : Prop :=
    match x with
    | XV l => exists limit polls, l = viewer limit polls
    | _ => kind_ok x
    end.
  Definition admx (s : shared) (th : nat -> xthread) (t : nat) : Prop :=
    match th t with XPub l => adm_xpub c l | XV l => adm_rd c s l | _ => True end.
  Definition xgstepx (x : xthread) (gh : xghost) : xghost := match x with XPub l => xgstep c l gh | _ => gh end.

  Definition one_rd (th : nat -> xthread) : Prop := forall t t' l l', th t = XV l -> th t' = XV l' -> t = t'.

  Inductive reachx : shared -> (nat -> xthread) -> xghost -> Prop :=
  | reachx_init limit th items budget :
      th tp = XPub (x_init c items budget) -> (forall t, t <> tp -> init_x (th t)) -> one_rd th ->
      reachx (init_shared c limit) th (xg0 c)
  | reachx_step s th gh t s' x' e :
      reachx s th gh -> admx s th t -> xtstep c t s (th t) = Some (s', x', e) ->
      reachx s' (upd_thread th t x') (xgstepx (th t) gh).

  Record XInv (s : shared) (gh : xghost) (th : nat -> xthread) : Prop := {
    xi_pub : exists l, th tp = XPub l /\ XPInv c gh l /\ memok c s gh (Some l);
    xi_laid : laidinv c gh;
    xi_sub : sub_ok c gh (sh_subpos s);
    xi_rd : forall t l, th t = XV l -> VInv c gh l;
    xi_kind : forall t, t <> tp -> kind_ok (th t);
    xi_oner : one_rd th
  }.

  Lemma x_init_inv items budget : XPInv c (xg0 c) (x_init c items budget).
  Proof. unfold x_init. pose proof (wf_n0 c W) as Hn0. pose proof (wf_off0 c W) as (Ho0 & Hom). unfold GB in Hn0.
    destruct (TL_bounds c W) as (TB & _). pose proof (wf_bits c W) as Hb.
    assert (Hto : term_offset_of (raw_of (wrap32 (c_init c + c_n0 c)) (c_off0 c)) (TL c) = c_off0 c).
    { unfold term_offset_of, raw_of. rewrite Z.add_comm, Z_mod_plus_full. rewrite Z.mod_small by (unfold two32; lia).
      rewrite Z.min_l by lia. apply wrap32_id. unfold in_i32, two31. lia. }
    rewrite Hto. apply begin_inv; try assumption.
    - exists (c_n0 c). split; [lia|]. split; [apply (begin_pos c (c_n0 c)); [apply (wf_init c W) | unfold two31; lia | lia]|].
      split; [apply idx_count; unfold two31; lia|]. split; [reflexivity|].
      intros g' Hg. cbn. split; [reflexivity | apply (xbase_later c); lia].
    - cbn. rewrite idx_count by (unfold two31; lia). unfold xbase. rewrite Z.eqb_refl. reflexivity. Qed.

  Lemma xg0_laid : laidinv c (xg0 c).
  Proof. intros p. cbn. pose proof (wf_off0 c W) as (Ho0 & Hom). destruct (TL_bounds c W) as (TB & _).
    split; [constructor|]. unfold xbase. destruct (_ =? _); (split; [lia|]); (split; [assumption || reflexivity|]); intros o sl []. Qed.

  Lemma upd_other (th : nat -> xthread) t x t' : t' <> t -> upd_thread th t x t' = th t'.
  Proof. intros H. unfold upd_thread. destruct (Nat.eqb t' t) eqn:E; [apply Nat.eqb_eq in E; contradiction | reflexivity]. Qed.
  Lemma upd_same (th : nat -> xthread) t x : upd_thread th t x t = x.
  Proof. unfold upd_thread. rewrite Nat.eqb_refl. reflexivity. Qed.

  Theorem reachx_inv s th gh : reachx s th gh -> XInv s gh th.
  Proof. induction 1 as [limit th items budget Hpub Hinit Hr | s th gh t s' x' e Hreach IH Hadm Hstep].
    - (* the initial configuration *)
      constructor; try assumption.
      + exists (x_init c items budget). split; [assumption|]. split; [apply x_init_inv|].
        intros p o. cbn. unfold expect. cbn. unfold x_init. rewrite cur_begin. reflexivity.
      + apply xg0_laid.
      + cbn [init_shared sh_subpos]. pose proof (wf_n0 c W). apply (sub_ok_bnd c W); [apply xg0_laid | lia|].
        unfold bnd. cbn. unfold xbase. rewrite Z.eqb_refl. left. reflexivity.
      + intros t l Ht. assert (Hne : t <> tp) by (intros ->; congruence). specialize (Hinit t Hne). rewrite Ht in Hinit.
        destruct Hinit as (limit0 & polls & ->). apply VInv_idle; cbn; destruct polls; reflexivity.
      + intros t Hne. specialize (Hinit t Hne). destruct (th t) as [x | l | l | l]; cbn in *; auto.
    - (* a step *)
      destruct IH as [(pl & Hpl & I & M) L Hsub Hrd Hk Hr]. unfold admx in Hadm. unfold xtstep in Hstep. unfold xgstepx.
      destruct (Nat.eq_dec t tp) as [-> | Hntp].
      + (* the exclusive publisher *)
        rewrite Hpl in *.
        destruct (xstep c tp s pl) as [[[s1 l1] e1]|] eqn:Ex; [|discriminate]. inversion Hstep; subst s' x' e. clear Hstep.
        destruct (xstep_inv c W s gh pl tp s1 l1 e1 I M L Hadm Ex) as (I' & M' & L' & Hs').
        constructor; try assumption.
        * exists l1. split; [apply upd_same | split; assumption].
        * rewrite Hs'. apply sub_ok_xgstep. assumption.
        * intros t0 l0 Ht0. destruct (Nat.eq_dec t0 tp) as [-> | Hne]; [rewrite upd_same in Ht0; discriminate | rewrite upd_other in Ht0 by assumption].
          apply VInv_xgstep. eauto.
        * intros t0 Hne. rewrite upd_other by assumption. apply Hk. assumption.
        * intros t1 t2 l2 l3 H1 H2. destruct (Nat.eq_dec t1 tp) as [-> | N1]; [rewrite upd_same in H1; discriminate|].
          destruct (Nat.eq_dec t2 tp) as [-> | N2]; [rewrite upd_same in H2; discriminate|]. rewrite upd_other in H1, H2 by assumption. eauto.
      + pose proof (Hk t Hntp) as Hkt.
        assert (Hpl' : forall x, upd_thread th t x tp = XPub pl) by (intros x; rewrite upd_other by congruence; assumption).
        destruct (th t) as [x | l | l | l] eqn:Eth; try contradiction.
        * (* environment *)
          destruct x as [[l0 | el |] | rl]; try contradiction.
          -- cbn in Hstep. unfold estep in Hstep. destruct (e_ops el) as [|op r] eqn:Eops; [discriminate|].
             destruct (Hkt op ltac:(rewrite Eops; left; reflexivity)) as (v & ->). inversion Hstep; subst s' x' e. clear Hstep.
             constructor; try assumption.
             ++ exists pl. split; [apply Hpl' | split; [assumption | exact M]].
             ++ intros t0 l0 Ht0. destruct (Nat.eq_dec t0 t) as [-> | Hne]; [rewrite upd_same in Ht0; discriminate | rewrite upd_other in Ht0 by assumption; eauto].
             ++ intros t0 Hne0. destruct (Nat.eq_dec t0 t) as [-> | Hne]; [rewrite upd_same | rewrite upd_other by assumption; apply Hk; assumption].
                cbn. intros op Hin. apply Hkt. rewrite Eops. right. assumption.
             ++ intros t1 t2 l1 l2 H1 H2. destruct (Nat.eq_dec t1 t) as [-> | N1]; [rewrite upd_same in H1; discriminate|].
                destruct (Nat.eq_dec t2 t) as [-> | N2]; [rewrite upd_same in H2; discriminate|]. rewrite upd_other in H1, H2 by assumption. eauto.
          -- cbn in Hstep. discriminate.
        * (* the subscriber *)
          destruct (vstep c t s l) as [[[s1 l1] e1]|] eqn:Ev; [|discriminate]. inversion Hstep; subst s' x' e. clear Hstep.
          assert (HI : forall pl0, Some pl = Some pl0 -> XPInv c gh pl0) by (intros pl0 E; inversion E; subst; assumption).
          destruct (vstep_inv c W s gh (Some pl) l t s1 l1 e1 (Hrd t l Eth) L M HI Hsub Hadm Ev) as (V' & Hm & Hs').
          constructor; try assumption.
          -- exists pl. split; [apply Hpl' | split; [assumption | intros p o; rewrite Hm; apply M]].
          -- intros t0 l0 Ht0. destruct (Nat.eq_dec t0 t) as [-> | Hne]; [rewrite upd_same in Ht0; inversion Ht0; subst; assumption | rewrite upd_other in Ht0 by assumption; eauto].
          -- intros t0 Hne0. destruct (Nat.eq_dec t0 t) as [-> | Hne]; [rewrite upd_same; exact Logic.I | rewrite upd_other by assumption; apply Hk; assumption].
          -- intros t1 t2 l2 l3 H1 H2. destruct (Nat.eq_dec t1 t) as [-> | N1]; destruct (Nat.eq_dec t2 t) as [-> | N2]; try reflexivity.
             ++ rewrite upd_other in H2 by assumption. symmetry. eapply Hr; eauto.
             ++ rewrite upd_other in H1 by assumption. eapply Hr; eauto.
             ++ rewrite upd_other in H1, H2 by assumption. eauto. Qed.
End S.
