(* Interleavings: runs with their traces.  One granted step of a thread in a configuration that satisfies
   the invariant, classified by the event it emits (the form the trace oracles of Oracle/C06Oracle.v and
   Oracle/C07Oracle.v look at); multi-step runs (`steps`), the schedule replay functions `run_sched` and
   `drain` as such runs; a potential that keeps every position of a bounded run below 2^62; and the first
   two ingredients of the trace oracles proved for every run: `positions_ok` and `trace_ht`. *)
Require Import V.Base.MachineInt.
Require Import V.Generated.GenConsts.
Require Import V.Model.LogBase.
Require Import V.Model.Ring.
Require Import V.Model.RingThreads.
Require Import V.Spec.Fifo.
Require Import V.Oracle.C06Oracle.
Require Import V.Oracle.C07Oracle.
Require Import V.Proofs.RingArith.
Require Import V.Proofs.RingSeq.
Require Import V.Proofs.RingRender.
Require Import V.Proofs.RingSeqRun.
Require Import V.Proofs.RingConc.
Require Import V.Proofs.RingConcThm.
Require Import V.Proofs.RingLog.
From Coq Require Import ZifyBool Lia.
Open Scope Z_scope.

(* ================================================================== one producer step, by cases *)
Definition quiet_kind (cp : Z) (e : event) : Prop :=
  let '(tid, k, off, len, v, v2, before) := e in
  (k = GetVolatile) \/ (k = PutOrdered /\ off = cp + HC_OFF).

Lemma pstep_cases lo m cfg i ps R' ps' e :
  Inv lo cfg -> nth_error (g_prods cfg) i = Some ps ->
  pstep m (g_ring cfg) (Z.of_nat (S i)) ps = (R', ps', Some e) ->
  let R := g_ring cfg in
  let cp := r_cap R in
  let tid := Z.of_nat (S i) in
  exists typ body, at_write cp ps typ body /\ p_prog ps' = p_prog ps /\ r_cap R' = cp /\ r_head R' = r_head R /\
  let rq := rq_of body in let rl := rl_of body in
  ( (* a read, or a refresh of the head cache: nothing the oracles look at *)
    (quiet_kind cp e /\ r_tail R' = r_tail R /\ r_slots R' = r_slots R /\
     p_k ps' = p_k ps /\ p_res ps' = p_res ps /\ after_cas (p_pc ps) = false /\ after_cas (p_pc ps') = false)
  \/ (* the call gives up *)
    (quiet_kind cp e /\ R' = R /\ ps' = finish cp ps (Err InsufficientCapacity) /\ after_cas (p_pc ps) = false)
  \/ (* compare-and-set lost *)
    (exists hd tl pd t2, p_pc ps = PCas hd tl pd /\ e = ev tid CompareAndSetI64 (cp + TAIL_OFF) 8 tl t2 (r_tail R) /\
       r_tail R <> tl /\ R' = R /\ ps' = set_pc ps (PReadTail hd))
  \/ (* compare-and-set won *)
    (exists hd tl pd, p_pc ps = PCas hd tl pd /\ r_tail R = tl /\ 0 <= pd /\ rq + pd <= cp /\
       e = ev tid CompareAndSetI64 (cp + TAIL_OFF) 8 tl (tl + rq + pd) tl /\
       R' = set_slots (set_tail R (tl + rq + pd)) (r_slots R ++ claim_slots tl pd rq tid (Z.of_nat (p_k ps))) /\
       ps' = set_pc ps (if pd =? 0 then PHdr tl else PPadHdr tl pd))
  \/ (* padding header *)
    (exists tl pd, p_pc ps = PPadHdr tl pd /\ 0 <= mask_idx cp tl < cp /\
       e = ev tid PutOrdered (mask_idx cp tl) 8 (make_header pd PAD) 0 (hdr64 (r_slots R) tl) /\
       R' = set_slots R (put_hdr (r_slots R) tl pd PAD) /\ ps' = set_pc ps (PHdr (tl + pd)))
  \/ (* record header, negative length *)
    (exists p, p_pc ps = PHdr p /\ 0 <= mask_idx cp p < cp /\
       e = ev tid PutOrdered (mask_idx cp p) 8 (make_header (- rl) typ) 0 (hdr64 (r_slots R) p) /\
       R' = set_slots R (put_hdr (r_slots R) p (- rl) typ) /\ ps' = set_pc ps (PCopy p))
  \/ (* payload *)
    (exists p, p_pc ps = PCopy p /\
       e = ev tid CopyFrom (mask_idx cp p + HL) (Z.of_nat (length body)) (-1) (-1) 0 /\
       R' = set_slots R (upd_slot (r_slots R) p (set_body body)) /\ ps' = set_pc ps (PCommit p))
  \/ (* commit *)
    (exists p, p_pc ps = PCommit p /\ 0 <= mask_idx cp p < cp /\
       e = ev tid PutOrdered (mask_idx cp p) 4 rl 0 (pos_word (r_slots R) p) /\
       R' = set_slots R (upd_slot (r_slots R) p (set_len rl)) /\ ps' = finish cp ps (Ok 0)) ).
Proof.
  intros HI Hi Hstep. cbn zeta. destruct cfg as [R cs prods]. cbn [g_ring g_cons g_prods] in *.
  pose proof HI as [Icap Ilo Ihc Ih8 It8 Ihh Itl Isz Iwin Isl Ipr Ics]. cbn [g_ring g_cons g_prods] in *.
  destruct (Ipr i ps Hi) as (Pc & Pw & Pex).
  pose proof (cap_ok_range _ Icap) as Hcr.
  pose proof (tiled_le _ _ _ _ Itl) as Hle.
  assert (HT : r_head R <= r_tail R) by lia.
  assert (MI : forall p, 0 <= mask_idx (r_cap R) p < r_cap R).
  { intros p. rewrite mask_idx_mod by assumption. apply mod_range. assumption. }
  unfold pstep in Hstep. unfold pc_ok in Pc.
  destruct (p_pc ps) eqn:Epc; try (inversion Hstep; fail); try contradiction;
    destruct Pc as (typ & body & Aw & Pc); cbn zeta in Pc;
    rewrite (cur_at_write m _ _ _ _ Icap Aw) in Hstep;
    pose proof (rq_of_bounds body) as (Rq8 & Rqb & Rqm);
    pose proof Aw as (Aw1 & Aw2 & Aw3);
    pose proof (len_small _ _ Icap Aw3) as Hls; unfold rl_of in Rqb;
    exists typ, body; (split; [exact Aw |]).
  - (* PReadHC *) inversion Hstep; subst. repeat split; auto. left. cbn. repeat split; auto.
  - (* PReadTail *)
    rewrite (lacks_ok m (r_cap R) (rq_of body) (r_tail R) hd) in Hstep by (unfold two62, two30 in *; lia).
    destruct (rq_of body >? r_cap R - (r_tail R - hd)) eqn:L.
    + inversion Hstep; subst. repeat split; auto. left. cbn. repeat split; auto.
    + inversion Hstep; subst.
      destruct (after_check1_ok lo m R' ps typ body hd (r_tail R') Icap Aw Pc ltac:(lia) It8 ltac:(unfold fits; lia)) as (A & B & C & D).
      destruct (after_check1_log m (r_cap R') (rq_of body) hd (r_tail R') ps) as [X | (X1 & X2 & X3 & X4)];
        [unfold pc_ok in A; rewrite X in A; contradiction |].
      repeat split; auto. left. cbn. repeat split; auto.
  - (* PReadHead1 *)
    destruct Pc as (Pt & Pt8).
    rewrite (lacks_ok m (r_cap R) (rq_of body) tl (r_head R)) in Hstep by (unfold two62, two30 in *; lia).
    destruct (rq_of body >? r_cap R - (tl - r_head R)); inversion Hstep; subst.
    + destruct (finish_ok lo R' ps (Err InsufficientCapacity) Pw) as (A & B & C & D).
      split; [exact B |]. repeat split; auto. right. left. cbn. repeat split; auto.
    + repeat split; auto. left. cbn. repeat split; auto.
  - (* PWriteHC1 *)
    destruct Pc as (Ph & Pt & Pt8 & Pf).
    destruct (after_check1_ok lo m R ps typ body hd tl Icap Aw Ph Pt Pt8 Pf) as (A & B & C & D).
    destruct (after_check1_log m (r_cap R) (rq_of body) hd tl ps) as [X | (X1 & X2 & X3 & X4)];
      [unfold pc_ok in A; rewrite X in A; contradiction |].
    inversion Hstep; subst. repeat split; auto. left. cbn. repeat split; auto.
  - (* PReadHead2 *)
    destruct (lacks_front (r_cap R) (rq_of body) (r_head R)); inversion Hstep; subst.
    + destruct (finish_ok lo R' ps (Err InsufficientCapacity) Pw) as (A & B & C & D).
      split; [exact B |]. repeat split; auto. right. left. cbn. repeat split; auto.
    + repeat split; auto. left. cbn. repeat split; auto.
  - (* PWriteHC2 *)
    destruct Pc as (Ph & Pt & Pt8 & Pw2 & Pf).
    rewrite wrap_needed_ok in Hstep by assumption.
    replace (rq_of body >? r_cap R - tl mod r_cap R) with true in Hstep by lia.
    inversion Hstep; subst. repeat split; auto. left. cbn. repeat split; auto.
  - (* PCas *)
    destruct Pc as (Ph & Pt & Pt8 & Ppd & Pf).
    pose proof (mod_range (r_cap R) tl Icap) as Htm.
    assert (Hpd0 : 0 <= padding <= r_cap R) by (subst padding; unfold pad_of; destruct (rq_of body >? r_cap R - tl mod r_cap R); lia).
    rewrite new_tail_ok in Hstep by (unfold two62, two61, two31, two30 in *; lia).
    destruct (r_tail R =? tl) eqn:Et.
    + inversion Hstep; subst R' ps' e. repeat split; auto.
      right. right. right. left. exists hd, tl, padding. repeat split; auto; try lia.
      * assert (tl + rq_of body + padding <= hd + r_cap R) by (apply Pf; lia). lia.
      * replace (r_tail R) with tl by lia. reflexivity.
    + inversion Hstep; subst R' ps' e. repeat split; auto.
      right. right. left. exists hd, tl, padding, (tl + rq_of body + padding). repeat split; auto. lia.
  - (* PPadHdr *)
    inversion Hstep; subst R' ps' e. repeat split; auto.
    do 4 right. left. exists tl, padding. repeat split; auto; apply MI.
  - (* PHdr *)
    inversion Hstep; subst R' ps' e. repeat split; auto.
    do 5 right. left. exists p. repeat split; auto; apply MI.
  - (* PCopy *)
    inversion Hstep; subst R' ps' e. repeat split; auto.
    do 6 right. left. exists p. repeat split; auto.
  - (* PCommit *)
    inversion Hstep; subst R' ps' e.
    destruct (finish_ok lo R ps (Ok 0) Pw) as (A & B & C & D).
    split; [exact B |]. repeat split; auto.
    do 7 right. exists p. repeat split; auto; apply MI.
Qed.

(* ================================================================== one consumer step, by cases *)
Definition cons_quiet (e : event) : Prop :=
  let '(tid, k, off, len, v, v2, before) := e in tid = 0 /\ (k = GetVolatile \/ k = RegionRead \/ k = SetMemory).

Lemma cstep_cases lo m cfg R' cs' e :
  Inv lo cfg -> cstep m (g_ring cfg) (g_cons cfg) = (R', cs', Some e) ->
  let R := g_ring cfg in
  r_cap R' = r_cap R /\ r_tail R' = r_tail R /\
  ( (cons_quiet e /\ r_head R' = r_head R)
  \/ (exists bytes msgs acc, c_pc (g_cons cfg) = CPutHead (r_head R) bytes msgs acc /\ 0 < bytes /\
        e = ev 0 PutOrdered (r_cap R + HEAD_OFF) 8 (r_head R + bytes) 0 (r_head R) /\
        R' = set_head R (r_head R + bytes)) ).
Proof.
  intros HI Hstep. cbn zeta. destruct cfg as [R cs prods]. cbn [g_ring g_cons g_prods] in *.
  pose proof (i_cons _ _ HI) as Ics. cbn [g_ring g_cons g_prods] in Ics.
  unfold cstep in Hstep. unfold cons_ok in Ics.
  destruct (c_pc cs) eqn:Epc; try (inversion Hstep; fail); try contradiction.
  - destruct Ics as (limit & El). rewrite El in Hstep. inversion Hstep; subst. repeat split; auto. left. cbn. auto.
  - destruct Ics as ((limit & El) & _). rewrite El in Hstep.
    destruct (pos_word (r_slots R) (hd + bytes) <=? 0); [inversion Hstep; subst; repeat split; auto; left; cbn; auto |].
    destruct (al <- ralign m (pos_word (r_slots R) (hd + bytes));; add32 m bytes al) as [b' | | | |];
      try (inversion Hstep; subst; repeat split; auto; left; cbn; auto; fail).
    destruct (pos_word (r_slots R) (hd + bytes + 4) =? PAD); [inversion Hstep; subst; repeat split; auto; left; cbn; auto |].
    destruct (valid_cmd (pos_word (r_slots R) (hd + bytes + 4))); [| inversion Hstep; subst; repeat split; auto; left; cbn; auto].
    destruct (add32 m msgs 1); inversion Hstep; subst; repeat split; auto; left; cbn; auto.
  - destruct Ics as ((limit & El) & _). rewrite El in Hstep. destruct (tag_at (r_slots R) p) as [ow sq].
    inversion Hstep; subst. repeat split; auto. left. cbn. auto.
  - destruct Ics as ((limit & El) & _). rewrite El in Hstep. inversion Hstep; subst. repeat split; auto. left. cbn. auto.
  - destruct Ics as ((limit & El) & Ehd & Hb). rewrite El in Hstep. subst hd. inversion Hstep; subst. repeat split; auto.
    right. exists bytes, msgs, acc. repeat split; auto.
Qed.

(* ================================================================== runs *)
(* any number of granted steps, with the trace they emit *)
Inductive usteps (m : mode) : config -> list event -> config -> Prop :=
| usteps_nil c : usteps m c [] c
| usteps_cons c tid c1 e tr c2 : step m c tid = Some (c1, e) -> usteps m c1 tr c2 -> usteps m c (e :: tr) c2.

Lemma usteps_app m c1 tr1 c2 tr2 c3 : usteps m c1 tr1 c2 -> usteps m c2 tr2 c3 -> usteps m c1 (tr1 ++ tr2) c3.
Proof. induction 1; intros; cbn [app]; [assumption |]. econstructor; eauto. Qed.

Lemma run_sched_usteps m stops : forall sched cfg counts cfg' counts' tr,
  run_sched m cfg counts stops sched = (cfg', counts', tr) -> usteps m cfg tr cfg'.
Proof. induction sched as [| t r IH]; intros cfg counts cfg' counts' tr H; cbn [run_sched] in H.
  - inversion H; subst. constructor.
  - destruct (stopped counts stops t); [eapply IH; eassumption |].
    destruct (step m cfg t) as [[c1 e] |] eqn:E; [| eapply IH; eassumption].
    destruct (run_sched m c1 (bump counts t) stops r) as [[c k] tr1] eqn:E2. inversion H; subst.
    econstructor; [exact E | eapply IH; eassumption]. Qed.

Lemma drain_usteps m stops n : forall fuel cfg counts t cfg' tr,
  drain m fuel cfg counts stops t n = (cfg', tr) -> usteps m cfg tr cfg'.
Proof. induction fuel as [| f IH]; intros cfg counts t cfg' tr H; cbn [drain] in H.
  - inversion H; subst. constructor.
  - destruct (n <=? t)%nat; [inversion H; subst; constructor |].
    destruct (stopped counts stops t); [eapply IH; eassumption |].
    destruct (step m cfg t) as [[c1 e] |] eqn:E; [| eapply IH; eassumption].
    destruct (drain m f c1 (bump counts t) stops t n) as [c tr1] eqn:E2. inversion H; subst.
    econstructor; [exact E | eapply IH; eassumption]. Qed.

(* ---- a potential that bounds the tail position of a run ---- *)
Definition rem (ps : pstate) : Z :=
  Z.of_nat (length (p_prog ps)) - Z.of_nat (p_k ps) - (if after_cas (p_pc ps) then 1 else 0).
Fixpoint sum_rem (prods : list pstate) : Z := match prods with [] => 0 | ps :: r => rem ps + sum_rem r end.
Definition potential (c : config) : Z := r_tail (g_ring c) + 2 * r_cap (g_ring c) * sum_rem (g_prods c).

Definition kinv (c : config) : Prop := forall i ps, nth_error (g_prods c) i = Some ps -> 0 <= rem ps.

Lemma sum_rem_set_nth prods i ps ps' : nth_error prods i = Some ps ->
  sum_rem (set_nth prods i ps') = sum_rem prods - rem ps + rem ps'.
Proof. revert i. induction prods as [| a l IH]; intros [| i] H; cbn in H; try discriminate; cbn [set_nth sum_rem].
  - inversion H; subst. lia.
  - rewrite (IH i H). lia. Qed.

Lemma sum_rem_nonneg prods : (forall i ps, nth_error prods i = Some ps -> 0 <= rem ps) -> 0 <= sum_rem prods.
Proof. induction prods as [| a l IH]; intros H; cbn [sum_rem]; [lia |].
  pose proof (H O a eq_refl). specialize (IH (fun i ps Hi => H (S i) ps Hi)). lia. Qed.

Lemma enter_le cp : forall fuel ps, (p_k ps <= length (p_prog ps))%nat ->
  (p_k ps <= p_k (enter cp fuel ps) <= length (p_prog ps))%nat /\ p_prog (enter cp fuel ps) = p_prog ps /\
  after_cas (p_pc (enter cp fuel ps)) = false.
Proof. induction fuel as [| f IH]; intros ps H; cbn [enter]; [cbn [set_pc p_k p_prog p_pc]; auto |].
  destruct (nth_error (p_prog ps) (p_k ps)) as [[typ body] |] eqn:E; [| cbn [set_pc p_k p_prog p_pc]; auto].
  assert (Hlt : (p_k ps < length (p_prog ps))%nat) by (apply nth_error_Some; congruence).
  destruct (typ <? 1).
  - destruct (IH (next_write ps (Err IllegalArg)) ltac:(cbn [next_write p_k p_prog]; lia)) as (A & B & C).
    cbn [next_write p_prog p_k] in *. repeat split; auto; lia.
  - destruct (Z.of_nat (length body) >? cp / 8).
    + destruct (IH (next_write ps (Err TooLong)) ltac:(cbn [next_write p_k p_prog]; lia)) as (A & B & C).
      cbn [next_write p_prog p_k] in *. repeat split; auto; lia.
    + cbn [set_pc p_k p_prog p_pc]. repeat split; auto; lia. Qed.

Lemma finish_rem cp ps r : (p_k ps < length (p_prog ps))%nat ->
  0 <= rem (finish cp ps r) <= Z.of_nat (length (p_prog ps)) - Z.of_nat (p_k ps) - 1.
Proof. intros H. unfold finish.
  destruct (enter_le cp (S (length (p_prog ps))) (next_write ps r) ltac:(cbn [next_write p_k p_prog]; lia)) as (A & B & C).
  unfold rem. rewrite B, C. cbn [next_write p_prog p_k] in *. lia. Qed.

Lemma at_write_lt cp ps typ body : at_write cp ps typ body -> (p_k ps < length (p_prog ps))%nat.
Proof. intros (E & _). apply nth_error_Some. congruence. Qed.

Lemma rem_set_pc ps pc : rem (set_pc ps pc) = rem ps + (if after_cas (p_pc ps) then 1 else 0) - (if after_cas pc then 1 else 0).
Proof. unfold rem. cbn [set_pc p_prog p_k p_pc]. lia. Qed.

Lemma step_potential lo m c tid c' e : Inv lo c -> kinv c -> step m c tid = Some (c', e) ->
  kinv c' /\ potential c' <= potential c /\ r_cap (g_ring c') = r_cap (g_ring c).
Proof.
  intros HI HK Hs. unfold step in Hs. destruct tid as [| i].
  - destruct (cstep m (g_ring c) (g_cons c)) as [[R cs] [ev |]] eqn:E; [| discriminate]. inversion Hs; subst c' e. clear Hs.
    destruct (cstep_cases lo m c R cs ev HI E) as (Ec & Et & _).
    unfold kinv, potential. cbn [g_ring g_prods]. rewrite Ec, Et. split; [exact HK |]. split; [lia | reflexivity].
  - destruct (nth_error (g_prods c) i) as [ps |] eqn:Ei; [| discriminate].
    destruct (pstep m (g_ring c) (Z.of_nat (S i)) ps) as [[R ps'] [ev |]] eqn:E; [| discriminate]. inversion Hs; subst c' e. clear Hs.
    destruct (pstep_cases lo m c i ps R ps' ev HI Ei E) as (typ & body & Aw & Ep & Ec & Eh & Hcase).
    pose proof (at_write_lt _ _ _ _ Aw) as Hlt. pose proof (HK i ps Ei) as Hr.
    pose proof (cap_ok_range _ (i_cap _ _ HI)) as Hcr.
    assert (KEY : 0 <= rem ps' /\ r_tail R + 2 * r_cap (g_ring c) * rem ps' <= r_tail (g_ring c) + 2 * r_cap (g_ring c) * rem ps).
    { cbn zeta in Hcase.
      destruct Hcase as [(Q & Et & Es & Ek & Er & A1 & A2) | [(Q & ER & Eps & A1) | [(hd & tl & pd & t2 & Epc & Ee & Hne & ER & Eps) |
        [(hd & tl & pd & Epc & Et & Hpd & Hfit & Ee & ER & Eps) | [(tl & pd & Epc & _ & Ee & ER & Eps) | [(p & Epc & _ & Ee & ER & Eps) |
        [(p & Epc & Ee & ER & Eps) | (p & Epc & _ & Ee & ER & Eps)]]]]]]].
      - unfold rem in *. rewrite A1 in Hr. rewrite Ep, Ek, A2, A1, Et. lia.
      - subst R ps'. pose proof (finish_rem (r_cap (g_ring c)) ps (Err InsufficientCapacity) Hlt) as F.
        unfold rem in Hr. rewrite A1 in Hr. unfold rem at 3. rewrite A1. nia.
      - subst R ps'. rewrite rem_set_pc, Epc. cbn [after_cas]. lia.
      - subst R ps'. rewrite rem_set_pc, Epc. cbn [after_cas set_slots set_tail r_tail].
        unfold rem in *. rewrite Epc in *. cbn [after_cas] in *. destruct (pd =? 0); cbn [after_cas]; nia.
      - subst R ps'. rewrite rem_set_pc, Epc. cbn [after_cas set_slots r_tail]. lia.
      - subst R ps'. rewrite rem_set_pc, Epc. cbn [after_cas set_slots r_tail]. lia.
      - subst R ps'. rewrite rem_set_pc, Epc. cbn [after_cas set_slots r_tail]. lia.
      - subst R ps'. pose proof (finish_rem (r_cap (g_ring c)) ps (Ok 0) Hlt) as F.
        unfold rem at 3. rewrite Epc. cbn [after_cas set_slots r_tail]. nia. }
    destruct KEY as (K1 & K2).
    split; [| split; [| exact Ec]].
    + intros j q Hj. cbn [g_prods] in Hj. destruct (Nat.eq_dec i j) as [<- | Hne].
      * rewrite (nth_set_nth_eq _ _ _ _ Ei) in Hj. inversion Hj; subst q. exact K1.
      * rewrite nth_set_nth_neq in Hj by assumption. eapply HK; eassumption.
    + unfold potential. cbn [g_ring g_prods]. rewrite Ec. rewrite (sum_rem_set_nth _ _ _ _ Ei). nia.
Qed.

(* runs in which every configuration stays inside the window of positions *)
Inductive steps (lo : Z) (m : mode) : config -> list event -> config -> Prop :=
| steps_nil c : steps lo m c [] c
| steps_cons c tid c1 e tr c2 : step m c tid = Some (c1, e) -> in_window lo c1 -> steps lo m c1 tr c2 -> steps lo m c (e :: tr) c2.

Lemma steps_reach lo m c0 c tr c' : steps lo m c tr c' -> reach lo m c0 c -> reach lo m c0 c'.
Proof. induction 1; intros Hr; [assumption |]. apply IHsteps. eapply reach_step; eassumption. Qed.

Lemma steps_inv lo m c tr c' : Inv lo c -> steps lo m c tr c' -> Inv lo c'.
Proof. intros HI Hs. induction Hs; [assumption |]. apply IHHs. eapply step_inv; eassumption. Qed.

Lemma usteps_steps lo m c tr c' : Inv lo c -> kinv c ->
  potential c + 2 * r_cap (g_ring c) <= two62 -> usteps m c tr c' ->
  steps lo m c tr c' /\ kinv c' /\ potential c' <= potential c /\ r_cap (g_ring c') = r_cap (g_ring c).
Proof. intros HI HK Hb Hu. induction Hu as [c | c tid c1 e tr c2 Hs Hu IH].
  - split; [constructor |]. split; [assumption |]. split; [lia | reflexivity].
  - destruct (step_potential lo m c tid c1 e HI HK Hs) as (K1 & P1 & C1).
    assert (W1 : in_window lo c1).
    { unfold in_window. unfold potential in *. pose proof (sum_rem_nonneg _ K1).
      pose proof (cap_ok_range _ (i_cap _ _ HI)). rewrite C1 in *. nia. }
    pose proof (step_inv lo m c tid c1 e HI Hs W1) as HI1.
    destruct (IH HI1 K1 ltac:(rewrite C1; lia)) as (S2 & K2 & P2 & C2).
    split; [econstructor; eassumption |]. split; [assumption |]. split; [lia | congruence]. Qed.

Lemma kinv_start R limits progs : kinv (start R limits progs).
Proof. intros i ps Hi. unfold start in Hi. cbn [g_prods] in Hi. rewrite nth_error_map in Hi.
  destruct (nth_error progs i) as [prog |]; [| discriminate]. inversion Hi; subst ps. unfold pstart.
  destruct (enter_le (r_cap R) (S (length prog)) (mkP PDone prog O []) ltac:(cbn; lia)) as (A & B & C).
  unfold rem. rewrite B, C. cbn [p_prog p_k] in *. lia. Qed.

Lemma potential_start R limits progs : 0 <= r_cap R ->
  potential (start R limits progs) <= r_tail R + 2 * r_cap R * Z.of_nat (length (concat progs)).
Proof. intros Hc0. unfold potential, start. cbn [g_ring g_prods].
  assert (H : sum_rem (map (pstart (r_cap R)) progs) <= Z.of_nat (length (concat progs))).
  { induction progs as [| prog l IH]; cbn [map sum_rem concat]; [cbn; lia |]. rewrite app_length.
    assert (rem (pstart (r_cap R) prog) <= Z.of_nat (length prog)).
    { unfold pstart. destruct (enter_le (r_cap R) (S (length prog)) (mkP PDone prog O []) ltac:(cbn; lia)) as (A & B & C).
      unfold rem. rewrite B, C. cbn [p_prog p_k] in *. lia. }
    lia. }
  nia. Qed.

(* ================================================================== positions along a trace *)
Definition pos_upd (cp : Z) (e : event) (h t : Z) : Z * Z :=
  let '(tid, k, off, len, v, v2, before) := e in
  if akind_eqb k CompareAndSetI64 && (off =? cp + TAIL_OFF) then (if before =? v then (h, v2) else (h, t))
  else if akind_eqb k PutOrdered && (off =? cp + HEAD_OFF) then (v, t) else (h, t).
Definition pos_chk (cp : Z) (e : event) (h t : Z) : bool :=
  let '(tid, k, off, len, v, v2, before) := e in
  if akind_eqb k CompareAndSetI64 && (off =? cp + TAIL_OFF) then (before =? t) && (if before =? v then t <? v2 else true)
  else if akind_eqb k PutOrdered && (off =? cp + HEAD_OFF) then (before =? h) && (h <? v) else true.

Lemma positions_ok_cons cp e tr h t :
  positions_ok cp (e :: tr) h t =
  (h <=? t) && (t - h <=? cp) && pos_chk cp e h t && positions_ok cp tr (fst (pos_upd cp e h t)) (snd (pos_upd cp e h t)).
Proof. destruct e as [[[[[[tid k] off] len] v] v2] before]. cbn [positions_ok pos_chk pos_upd].
  destruct (akind_eqb k CompareAndSetI64 && (off =? cp + TAIL_OFF)).
  - destruct (before =? v); cbn [fst snd]; destruct (h <=? t), (t - h <=? cp), (before =? t); cbn [andb]; reflexivity.
  - destruct (akind_eqb k PutOrdered && (off =? cp + HEAD_OFF)); cbn [fst snd];
      destruct (h <=? t), (t - h <=? cp); cbn [andb]; reflexivity. Qed.

Lemma trace_ht_cons cp e tr h t :
  trace_ht cp (e :: tr) h t = trace_ht cp tr (fst (pos_upd cp e h t)) (snd (pos_upd cp e h t)).
Proof. destruct e as [[[[[[tid k] off] len] v] v2] before]. cbn [trace_ht pos_upd].
  destruct (akind_eqb k CompareAndSetI64 && (off =? cp + TAIL_OFF)) eqn:A; cbn [andb].
  - destruct (before =? v); [reflexivity |]. destruct k; cbn [akind_eqb andb] in *; try discriminate. reflexivity.
  - destruct (akind_eqb k PutOrdered && (off =? cp + HEAD_OFF)); reflexivity. Qed.

Lemma offs_distinct cp : cp + HC_OFF <> cp + HEAD_OFF /\ cp + HC_OFF <> cp + TAIL_OFF /\ cp + TAIL_OFF <> cp + HEAD_OFF /\
  0 < TAIL_OFF /\ 0 < HEAD_OFF /\ 0 < HC_OFF.
Proof. unfold HC_OFF, HEAD_OFF, TAIL_OFF, GenConsts.RB_HEAD_CACHE_POSITION_OFFSET, GenConsts.RB_HEAD_POSITION_OFFSET,
  GenConsts.RB_TAIL_POSITION_OFFSET. lia. Qed.

(* what one granted step does to the two positions is what its event says *)
Lemma step_pos lo m c tid c' e : Inv lo c -> step m c tid = Some (c', e) ->
  let R := g_ring c in let R' := g_ring c' in
  pos_upd (r_cap R) e (r_head R) (r_tail R) = (r_head R', r_tail R') /\ pos_chk (r_cap R) e (r_head R) (r_tail R) = true /\
  r_cap R' = r_cap R.
Proof.
  intros HI Hs. cbn zeta. pose proof (offs_distinct (r_cap (g_ring c))) as (O1 & O2 & O3 & O4 & O5 & O6).
  unfold step in Hs. destruct tid as [| i].
  - destruct (cstep m (g_ring c) (g_cons c)) as [[R cs] [evt |]] eqn:E; [| discriminate]. inversion Hs; subst c' e. clear Hs.
    destruct (cstep_cases lo m c R cs evt HI E) as (Ec & Et & [(Q & Eh) | (bytes & msgs & acc & Epc & Hb & Ee & ER)]); cbn [g_ring].
    + destruct evt as [[[[[[tid k] off] len] v] v2] before]. cbn in Q. destruct Q as (_ & Q).
      unfold pos_upd, pos_chk. rewrite Eh, Et.
      destruct Q as [-> | [-> | ->]]; cbn [akind_eqb andb]; auto.
    + subst evt R. unfold ev, pos_upd, pos_chk. cbn [akind_eqb andb set_head r_head r_tail r_cap].
      replace (r_cap (g_ring c) + HEAD_OFF =? r_cap (g_ring c) + TAIL_OFF) with false by lia.
      rewrite !Z.eqb_refl. cbn [andb]. repeat split; auto. lia.
  - destruct (nth_error (g_prods c) i) as [ps |] eqn:Ei; [| discriminate].
    destruct (pstep m (g_ring c) (Z.of_nat (S i)) ps) as [[R ps'] [evt |]] eqn:E; [| discriminate]. inversion Hs; subst c' e. clear Hs.
    destruct (pstep_cases lo m c i ps R ps' evt HI Ei E) as (typ & body & Aw & Ep & Ec & Eh & Hcase). cbn [g_ring].
    pose proof (rq_of_bounds body) as (Rq8 & _).
    cbn zeta in Hcase.
    assert (QK : forall e0, quiet_kind (r_cap (g_ring c)) e0 -> forall h t,
               pos_upd (r_cap (g_ring c)) e0 h t = (h, t) /\ pos_chk (r_cap (g_ring c)) e0 h t = true).
    { intros e0 Q h t. destruct e0 as [[[[[[tid k] off] len] v] v2] before]. cbn in Q. unfold pos_upd, pos_chk.
      destruct Q as [-> | (-> & ->)]; cbn [akind_eqb andb]; auto.
      replace (r_cap (g_ring c) + HC_OFF =? r_cap (g_ring c) + HEAD_OFF) with false by lia. auto. }
    assert (DATA : forall off len v v2 before h t, 0 <= off < r_cap (g_ring c) ->
               pos_upd (r_cap (g_ring c)) (ev (Z.of_nat (S i)) PutOrdered off len v v2 before) h t = (h, t) /\
               pos_chk (r_cap (g_ring c)) (ev (Z.of_nat (S i)) PutOrdered off len v v2 before) h t = true).
    { intros. unfold ev, pos_upd, pos_chk. cbn [akind_eqb andb].
      replace (off =? r_cap (g_ring c) + HEAD_OFF) with false by lia. auto. }
    destruct Hcase as [(Q & Et & Es & Ek & Er & A1 & A2) | [(Q & ER & Eps & A1) | [(hd & tl & pd & t2 & Epc & Ee & Hne & ER & Eps) |
        [(hd & tl & pd & Epc & Et & Hpd & Hfit & Ee & ER & Eps) | [(tl & pd & Epc & Hm & Ee & ER & Eps) | [(p & Epc & Hm & Ee & ER & Eps) |
        [(p & Epc & Ee & ER & Eps) | (p & Epc & Hm & Ee & ER & Eps)]]]]]]].
    + destruct (QK evt Q (r_head (g_ring c)) (r_tail (g_ring c))) as (A & B). rewrite A, B, Eh, Et. auto.
    + destruct (QK evt Q (r_head (g_ring c)) (r_tail (g_ring c))) as (A & B). rewrite A, B. subst R. auto.
    + subst evt R. unfold ev, pos_upd, pos_chk. cbn [akind_eqb andb]. rewrite !Z.eqb_refl. cbn [andb].
      replace (r_tail (g_ring c) =? tl) with false by lia. auto.
    + subst evt R. unfold ev, pos_upd, pos_chk. cbn [akind_eqb andb set_slots set_tail r_head r_tail r_cap]. rewrite !Z.eqb_refl.
      rewrite Et. rewrite !Z.eqb_refl. cbn [andb]. repeat split; auto. lia.
    + subst evt R. destruct (DATA (mask_idx (r_cap (g_ring c)) tl) 8 (make_header pd PAD) 0 (hdr64 (r_slots (g_ring c)) tl)
                            (r_head (g_ring c)) (r_tail (g_ring c)) Hm) as (A & B). rewrite A, B. auto.
    + subst evt R. destruct (DATA (mask_idx (r_cap (g_ring c)) p) 8 (make_header (- rl_of body) typ) 0 (hdr64 (r_slots (g_ring c)) p)
                            (r_head (g_ring c)) (r_tail (g_ring c)) Hm) as (A & B). rewrite A, B. auto.
    + subst evt R. unfold ev, pos_upd, pos_chk. cbn [akind_eqb andb]. auto.
    + subst evt R. destruct (DATA (mask_idx (r_cap (g_ring c)) p) 4 (rl_of body) 0 (pos_word (r_slots (g_ring c)) p)
                            (r_head (g_ring c)) (r_tail (g_ring c)) Hm) as (A & B). rewrite A, B. auto.
Qed.

Lemma steps_positions lo m c tr c' : Inv lo c -> steps lo m c tr c' ->
  positions_ok (r_cap (g_ring c)) tr (r_head (g_ring c)) (r_tail (g_ring c)) = true /\
  trace_ht (r_cap (g_ring c)) tr (r_head (g_ring c)) (r_tail (g_ring c)) = (r_head (g_ring c'), r_tail (g_ring c')) /\
  r_cap (g_ring c') = r_cap (g_ring c).
Proof. intros HI Hs. induction Hs as [c | c tid c1 e tr c2 Hst Hw Hs IH].
  - destruct (inv_order lo c HI) as (_ & A & B). cbn [positions_ok trace_ht].
    split; [| split; reflexivity]. apply andb_true_intro. split; lia.
  - destruct (step_pos lo m c tid c1 e HI Hst) as (U & K & Ec).
    destruct (IH (step_inv lo m c tid c1 e HI Hst Hw)) as (P & T & Ec2).
    destruct (inv_order lo c HI) as (_ & A & B).
    rewrite Ec in P, T. rewrite positions_ok_cons, trace_ht_cons, U, K. cbn [fst snd]. rewrite P, T.
    split; [| split; [reflexivity | congruence]].
    replace (r_head (g_ring c) <=? r_tail (g_ring c)) with true by lia.
    replace (r_tail (g_ring c) - r_head (g_ring c) <=? r_cap (g_ring c)) with true by lia. reflexivity. Qed.
