(* The decidable judgement the check evaluates on the implementation's observations of scheduled runs
   (Oracle/C08Oracle.v, `judge`: it finds the number of a delivered message by searching the list of transmitted
   messages from the current position) accepts every result list that the annotated judgement `jst` of the
   interleaving theorems (Proofs/BroadcastOrder.v) accepts - provided the transmitted messages are pairwise distinct
   (type, hex of the bytes), which the generator guarantees, and the only error returned is UnableToKeepUp. *)
From Coq Require Import String.
Require Import V.Base.MachineInt.
Require Import V.Model.Broadcast.
Require Import V.Model.BroadcastShow.
Require Import V.Model.BroadcastThreads.
Require Import V.Spec.Lossy.
Require Import V.Oracle.C08Oracle.
Require Import V.Proofs.LossyProofs.
Require Import V.Proofs.BroadcastOrder.
From Coq Require Import ZifyBool.
Open Scope Z_scope.

(* ---- the oracle's judgement (Oracle/C08Oracle.v, `judge`: message numbers found by searching) accepts whatever the
   annotated judgement `jst` of the theorems accepts, when the messages are pairwise distinct ---- *)
Definition showm (p : Z * list Z) : Z * string := (fst p, hex (snd p)).

Lemma skipz_skipn {A} (l : list A) : forall n, skipz (Z.of_nat n) l = skipn n l.
Proof.
  induction l as [|x l IH]; intros [|n]; cbn [skipz skipn]; auto.
  - replace (Z.of_nat (S n) <=? 0) with false by lia. replace (Z.of_nat (S n) - 1) with (Z.of_nat n) by lia. apply IH.
Qed.

Lemma find_from_hit (l : list (Z * string)) : forall (d : nat) (b : Z) ty s,
  nth_error l d = Some (ty, s) ->
  (forall d', (d' < d)%nat -> nth_error l d' <> Some (ty, s)) ->
  find_from l b ty s = Some (b + Z.of_nat d).
Proof.
  induction l as [|[t x] l IH]; intros [|d] b ty s N F; cbn in N; try discriminate.
  - injection N as -> ->. cbn [find_from]. rewrite Z.eqb_refl, String.eqb_refl. cbn. f_equal. lia.
  - cbn [find_from]. destruct ((t =? ty) && String.eqb x s) eqn:E.
    + exfalso. apply andb_prop in E. destruct E as [E1 E2]. apply String.eqb_eq in E2. apply (F O ltac:(lia)). cbn. f_equal. f_equal; [lia|auto].
    + rewrite (IH d (b + 1) ty s N). * f_equal. lia. * intros d' Ld. apply (F (S d')). lia.
Qed.

Lemma nodup_nth {A} (l : list A) i j x : NoDup l -> nth_error l i = Some x -> nth_error l j = Some x -> i = j.
Proof.
  intros ND Hi Hj. rewrite NoDup_nth_error in ND. apply ND; [|congruence].
  apply nth_error_Some. rewrite Hi. discriminate.
Qed.

Section JudgeOracle.
Variables (all : list (Z * list Z)) (i0 : nat).
Let sent := map showm all.
Let total := Z.of_nat (length sent).
Hypothesis ND : NoDup sent.

Lemma find_sent i j ty bs :
  (i <= j)%nat -> nth_error all j = Some (ty, bs) ->
  find_from (skipz (Z.of_nat i) sent) (Z.of_nat i) ty (hex bs) = Some (Z.of_nat j).
Proof.
  intros Le N. rewrite skipz_skipn.
  assert (Ns : nth_error sent j = Some (ty, hex bs)) by (unfold sent; rewrite nth_error_map, N; reflexivity).
  rewrite (find_from_hit (skipn i sent) (j - i) (Z.of_nat i) ty (hex bs)).
  - f_equal. lia.
  - rewrite nth_error_skipn. replace (i + (j - i))%nat with j by lia. exact Ns.
  - intros d' Ld H. rewrite nth_error_skipn in H. pose proof (nodup_nth sent _ _ _ ND H Ns). lia.
Qed.

Definition only_lap (r : rres) : Prop := match r with RErr e => e = UnableToKeepUp | _ => True end.

Lemma judge_none rest i lost fq : rest <> [] -> judge sent total (SNone :: rest) i lost fq = judge sent total rest i lost fq.
Proof. cbn [judge]. destruct rest; [congruence|reflexivity]. Qed.

Lemma judge_of_jst fq ann i lost :
  jst all i0 ann i lost -> Forall only_lap (map fst ann) ->
  forall rest, rest <> [] ->
    judge sent total (map show_rres (rev (map fst ann)) ++ rest) (Z.of_nat i0) false fq
    = judge sent total rest (Z.of_nat i) lost fq.
Proof.
  induction 1; intros OL rest NE; cbn [map fst rev] in *.
  - reflexivity.
  - inversion OL; subst. rewrite map_app, <- app_assoc. cbn [map app show_rres]. rewrite IHjst by (auto; discriminate).
    apply judge_none. exact NE.
  - inversion OL as [|? ? O1 O2]; subst. cbn [only_lap] in O1. subst e.
    rewrite map_app, <- app_assoc. cbn [map app show_rres]. rewrite IHjst by (auto; discriminate). reflexivity.
  - inversion OL; subst. rewrite map_app, <- app_assoc. cbn [map app show_rres]. rewrite IHjst by (auto; discriminate).
    cbn [judge]. rewrite (find_sent i j ty bs H1 H0).
    replace (lost || (Z.of_nat j =? Z.of_nat i)) with true.
    + cbn [andb]. replace (Z.of_nat j + 1) with (Z.of_nat (S j)) by lia. reflexivity.
    + destruct lost; auto. rewrite (H2 eq_refl). cbn. lia.
Qed.

(* the final-quiet clause of the oracle: a last receive that finds nothing while no loss report is pending must have
   accounted for every message *)
Definition quiet_ok (fq : bool) (ann : list (rres * nat)) (i : nat) (lost : bool) : Prop :=
  fq = true -> match ann with (RNone, _) :: _ => lost = false -> (length all <= i)%nat | _ => True end.

(* the results of a run that passes the theorems' judgement pass the oracle's *)
Theorem oracle_accepts_jst fq ann i lost :
  jst all i0 ann i lost -> Forall only_lap (map fst ann) -> quiet_ok fq ann i lost ->
  judge sent total (map show_rres (rev (map fst ann))) (Z.of_nat i0) false fq = true.
Proof.
  intros J OL Q. destruct ann as [|[r j] older]; [reflexivity|].
  cbn [map fst rev]. rewrite map_app. cbn [map].
  inversion J; subst; inversion OL; subst;
    match goal with H : jst all i0 older ?a ?b |- _ => rewrite (judge_of_jst fq older a b H) by (auto; discriminate) end.
  - cbn [show_rres judge].
    destruct fq; auto. specialize (Q eq_refl). cbn in Q. destruct lost; auto. specialize (Q eq_refl).
    unfold total, sent. rewrite map_length. cbn. lia.
  - match goal with H : only_lap (RErr _) |- _ => cbn [only_lap] in H; subst end. reflexivity.
  - cbn [show_rres judge].
    match goal with H : nth_error all j = Some _, L : (?a <= j)%nat |- _ => rewrite (find_sent a j ty bs L H) end.
    match goal with |- (?l || _) && _ = true => destruct l; auto end.
    match goal with H : false = false -> _ |- _ => rewrite (H eq_refl) end. cbn. rewrite Z.eqb_refl. reflexivity.
Qed.
End JudgeOracle.
