(* Render / decode round trip between frame slots (Model/AppenderThreads.v) and the sparse word dump the
   oracle reads (Oracle/C02Oracle.v): the words of a region that holds frames laid back to back, decoding of
   every header field and of the payload bytes from the dump, and what the oracle's walk / covered checks
   return on such a dump. *)
Require Import V.Base.MachineInt.
Require Import V.Generated.GenConsts.
Require Import V.Model.LogBase.
Require Import V.Model.Descriptor.
Require Import V.Model.Sched.
Require Import V.Model.AppenderThreads.
Require Import V.Oracle.C02Oracle.
Require Import V.Proofs.TailArith.
Require Import V.Proofs.FragArith.
Require Import V.Proofs.AppenderInv.
Require Import V.Proofs.AppenderLemmas.
Require Import V.Proofs.C02Quiescent.
Require Import V.Proofs.C02Words.
From Coq Require Import ZifyBool.
Open Scope Z_scope.

Definition slot_words (o : Z) (sl : slot) : words :=
  header_words o (s_len sl) (frame_of_slot sl) ++ words_of_bytes (o + HDR) (s_body sl).

Lemma render_slot_eq o sl : render_slot o sl = nonzero (slot_words o sl).
Proof. reflexivity. Qed.

(* a committed frame whose fields fit their widths *)
Record good_slot (sl : slot) : Prop := {
  gs_len : HDR <= s_len sl;
  gs_ver : byte (s_ver sl);
  gs_flags : byte (s_flags sl);
  gs_type : 0 <= s_type sl < 65536;
  gs_resv : s_resv sl = 0;
  gs_body : Forall byte (s_body sl);
  gs_fit : Z.of_nat (length (s_body sl)) <= s_len sl - HDR;
  gs_pad : s_type sl = T_PAD -> s_body sl = []
}.

Lemma header_inc o len f : inc o (header_words o len f) (o + 32).
Proof. unfold header_words. cbn [inc fst]. lia. Qed.

Lemma slot_inc o sl : inc o (slot_words o sl) (o + 32 + Z.of_nat (length (s_body sl))).
Proof. unfold slot_words. eapply inc_app; [apply header_inc|]. change HDR with 32. apply wob_inc. Qed.

(* what the oracle decodes at offset o equals the slot *)
Definition dec_ok (ws : words) (o : Z) (sl : slot) : Prop :=
  h_len ws o = s_len sl /\ h_ver ws o = s_ver sl /\ h_flags ws o = s_flags sl /\ h_type ws o = s_type sl /\
  h_toff ws o = s_toff sl /\ h_sess ws o = s_sess sl /\ h_strm ws o = s_strm sl /\ h_tid ws o = s_tid sl /\
  h_resv_lo ws o = 0 /\ h_resv_hi ws o = 0 /\ bytes_from ws (o + HDR) (length (s_body sl)) = s_body sl.

Lemma slot_decode ws o sl : o mod 32 = 0 -> good_slot sl ->
  (forall x, o <= x < o + 32 + Z.of_nat (length (s_body sl)) -> word_at ws x = word_at (slot_words o sl) x) ->
  dec_ok ws o sl.
Proof. intros Ho G Hag.
  assert (HW : forall x v, In (x, v) (header_words o (s_len sl) (frame_of_slot sl)) -> word_at ws x = v).
  { intros x v Hin. pose proof (inc_bounds _ _ _ _ _ (header_inc o (s_len sl) (frame_of_slot sl)) Hin) as B.
    rewrite Hag by lia. apply (word_at_in _ _ _ _ _ (slot_inc o sl)). unfold slot_words. apply in_or_app. left. assumption. }
  unfold header_words in HW. cbn [frame_of_slot f_version f_flags f_type f_term_off f_session f_stream f_term_id f_reserved] in HW.
  assert (H4 : (o + 4) mod 4 = 0) by (Z.div_mod_to_equations; lia).
  destruct (field_bytes ws (o + 4) (s_ver sl) (s_flags sl) (s_type sl) H4 (gs_ver sl G) (gs_flags sl G) (gs_type sl G)) as (F0 & F1 & F2).
  { apply HW. right; left. reflexivity. }
  unfold dec_ok, h_len, h_ver, h_flags, h_type, h_toff, h_sess, h_strm, h_tid, h_resv_lo, h_resv_hi.
  repeat split.
  - apply HW. left. reflexivity.
  - exact F0.
  - replace (o + 5) with (o + 4 + 1) by ring. exact F1.
  - replace (o + 6) with (o + 4 + 2) by ring. replace (o + 7) with (o + 4 + 3) by ring. exact F2.
  - apply HW. do 2 right; left. reflexivity.
  - apply HW. do 3 right; left. reflexivity.
  - apply HW. do 4 right; left. reflexivity.
  - apply HW. do 5 right; left. reflexivity.
  - rewrite (HW (o + 24) (lo32 (s_resv sl))) by (do 6 right; left; reflexivity). rewrite (gs_resv sl G). reflexivity.
  - rewrite (HW (o + 28) (hi32 (s_resv sl))) by (do 7 right; left; reflexivity). rewrite (gs_resv sl G). reflexivity.
  - apply bytes_from_wob; [apply (gs_body sl G) | change HDR with 32; Z.div_mod_to_equations; lia |].
    change HDR with 32. intros x Hx. rewrite Hag by lia. unfold slot_words. change HDR with 32. apply word_at_app_r.
    intros o' v' Hin E. pose proof (inc_bounds _ _ _ _ _ (header_inc o (s_len sl) (frame_of_slot sl)) Hin). lia. Qed.

(* ---- a region of frames laid back to back ---- *)
Definition fwords (fr : list (Z * slot)) : words := flat_map (fun p => slot_words (fst p) (snd p)) fr.
Definition frender (fr : list (Z * slot)) : words := flat_map (fun p => render_slot (fst p) (snd p)) fr.

Lemma frender_nonzero fr : frender fr = nonzero (fwords fr).
Proof. induction fr as [|[o sl] r IH]; [reflexivity|]. unfold frender, fwords in *. cbn [flat_map fst snd].
  rewrite nonzero_app, IH. reflexivity. Qed.

Definition all_good (fr : list (Z * slot)) : Prop := forall o sl, In (o, sl) fr -> good_slot sl.

Lemma all_good_tl x r : all_good (x :: r) -> all_good r.
Proof. intros H o sl Hin. apply (H o sl). right. assumption. Qed.

Lemma slot_inc_al o sl : good_slot sl -> inc o (slot_words o sl) (o + align (s_len sl) FA).
Proof. intros G. pose proof (gs_len sl G) as L. pose proof (gs_fit sl G) as F. change HDR with 32 in *.
  pose proof (align_pos (s_len sl) ltac:(lia)) as [A _]. rewrite FA_32.
  eapply inc_weaken; [| |apply slot_inc]; lia. Qed.

Lemma fwords_inc c a fr b : laid c a fr b -> all_good fr -> inc a (fwords fr) b.
Proof. induction 1 as [o | o sl r e Hl Hr IH]; intros G.
  - cbn. lia.
  - unfold fwords. cbn [flat_map fst snd]. eapply inc_app; [apply slot_inc_al; apply (G o sl); left; reflexivity|].
    apply IH. eapply all_good_tl; eauto. Qed.

Lemma frame_word c a fr b o sl x : laid c a fr b -> all_good fr -> In (o, sl) fr ->
  o <= x < o + align (s_len sl) FA -> word_at (frender fr) x = word_at (slot_words o sl) x.
Proof. intros L G Hin Hx. rewrite frender_nonzero. rewrite (word_at_nonzero a _ b) by (eapply fwords_inc; eauto).
  induction L as [o0 | o0 sl0 r e Hl Hr IH]; [destruct Hin|].
  unfold fwords. cbn [flat_map fst snd]. fold (fwords r).
  pose proof (fwords_inc _ _ _ _ Hr (all_good_tl _ _ G)) as I2.
  pose proof (slot_inc_al o0 sl0 (G o0 sl0 (or_introl eq_refl))) as I1.
  destruct Hin as [E | Hin].
  - inversion E; subst. apply word_at_app_l. intros o' v' Hin' E'. pose proof (inc_bounds _ _ _ _ _ I2 Hin'). lia.
  - destruct (laid_bounds _ _ _ _ Hr) as (_ & B). destruct (B o sl Hin) as (B1 & _).
    rewrite word_at_app_r; [apply IH; [eapply all_good_tl; eauto | assumption]|].
    intros o' v' Hin' E'. pose proof (inc_bounds _ _ _ _ _ I1 Hin'). lia. Qed.

Lemma laid_aligned c a fr b : laid c a fr b -> a mod 32 = 0 -> (forall o sl, In (o, sl) fr -> o mod 32 = 0) /\ b mod 32 = 0.
Proof. induction 1 as [o | o sl r e Hl Hr IH]; intros Ha; [split; [intros ? ? []| assumption]|].
  pose proof (align_pos (s_len sl) ltac:(lia)) as [_ A]. rewrite FA_32 in *.
  destruct IH as (I1 & I2); [Z.div_mod_to_equations; lia|]. split; [|assumption].
  intros o' sl' [E | Hin]; [inversion E; subst; assumption | eapply I1; eauto]. Qed.

Lemma frames_dec c a fr b o sl : laid c a fr b -> a mod 32 = 0 -> all_good fr -> In (o, sl) fr -> dec_ok (frender fr) o sl.
Proof. intros L Ha G Hin. destruct (laid_aligned _ _ _ _ L Ha) as (Al & _).
  pose proof (G o sl Hin) as Gs. apply slot_decode; [eapply Al; eauto | assumption|].
  intros x Hx. eapply frame_word; eauto.
  pose proof (gs_len sl Gs) as L1. pose proof (gs_fit sl Gs) as F. change HDR with 32 in *.
  pose proof (align_pos (s_len sl) ltac:(lia)) as [A _]. rewrite FA_32. lia. Qed.

Lemma laid_concat c a l1 m l2 e : laid c a l1 m -> laid c m l2 e -> laid c a (l1 ++ l2) e.
Proof. induction 1; intros H2; cbn [app]; [assumption | constructor; auto]. Qed.

(* ---- the rendering of a partition whose only non-zero slots are frames laid back to back ---- *)
Lemma render_slot_z o : render_slot o zslot = [].
Proof. reflexivity. Qed.

Lemma render_part_app m : forall n1 o n2,
  render_part m o (n1 + n2) = render_part m o n1 ++ render_part m (o + FA * Z.of_nat n1) n2.
Proof. induction n1 as [|n1 IH]; intros o n2.
  - cbn [plus render_part app]. replace (o + FA * Z.of_nat 0) with o by (change FA with 32; lia). reflexivity.
  - cbn [plus render_part]. rewrite IH, app_assoc.
    replace (o + FA * Z.of_nat (S n1)) with (o + FA + FA * Z.of_nat n1) by (change FA with 32; lia). reflexivity. Qed.

Lemma render_part_zero m : forall n o, (forall j, (j < n)%nat -> m (o + FA * Z.of_nat j) = zslot) -> render_part m o n = [].
Proof. induction n as [|n IH]; intros o H; [reflexivity|]. cbn [render_part].
  assert (E : m o = zslot) by (rewrite <- (H O) by lia; f_equal; change FA with 32; lia).
  rewrite E, render_slot_z. cbn [app].
  apply IH. intros j Hj. rewrite <- (H (S j)) by lia. f_equal. change FA with 32. lia. Qed.

Lemma render_part_laid c m a fr b : laid c a fr b -> a mod 32 = 0 ->
  (forall o sl, In (o, sl) fr -> m o = sl) ->
  (forall o, a <= o < b -> o mod 32 = 0 -> (forall sl, ~ In (o, sl) fr) -> m o = zslot) ->
  render_part m a (Z.to_nat ((b - a) / 32)) = frender fr.
Proof. induction 1 as [o | o sl r e Hl Hr IH]; intros Ha Hm Hz.
  - replace (o - o) with 0 by ring. reflexivity.
  - pose proof (align_pos (s_len sl) ltac:(lia)) as [A1 A2]. rewrite FA_32 in *. set (S := align (s_len sl) 32) in *.
    destruct (laid_bounds _ _ _ _ Hr) as (Hle & B).
    set (k := S / 32). assert (HS : S = 32 * k) by (unfold k; Z.div_mod_to_equations; lia).
    assert (Hk : 1 <= k) by lia.
    set (n3 := Z.to_nat ((e - (o + S)) / 32)).
    assert (Hn : Z.to_nat ((e - o) / 32) = (1 + (Z.to_nat (k - 1) + n3))%nat).
    { unfold n3. assert ((e - o) / 32 = k + (e - (o + S)) / 32) by (Z.div_mod_to_equations; lia).
      assert (0 <= (e - (o + S)) / 32) by (Z.div_mod_to_equations; lia). lia. }
    rewrite Hn. cbn [plus render_part]. rewrite FA_32. rewrite render_part_app.
    rewrite (Hm o sl (or_introl eq_refl)). unfold frender. cbn [flat_map fst snd]. f_equal.
    rewrite render_part_zero.
    + cbn [app]. rewrite FA_32. replace (o + 32 + 32 * Z.of_nat (Z.to_nat (k - 1))) with (o + S) by lia.
      apply IH.
      * Z.div_mod_to_equations; lia.
      * intros o' sl' Hin. apply Hm. right. assumption.
      * intros o' Ho' Hmod Hnot. apply Hz; [lia | assumption|]. intros sl' [E | Hin]; [inversion E; lia | eapply Hnot; eauto].
    + intros j Hj. rewrite FA_32. apply Hz; [lia | Z.div_mod_to_equations; lia|].
      intros sl' [E | Hin]; [apply (f_equal fst) in E; cbn [fst] in E; lia|]. destruct (B _ _ Hin) as (B1 & _). lia. Qed.

(* with zero slots before and after *)
Lemma render_part_region c m a0 a fr b b1 : laid c a fr b -> a0 mod 32 = 0 -> a mod 32 = 0 -> b1 mod 32 = 0 -> a0 <= a -> b <= b1 ->
  (forall o sl, In (o, sl) fr -> m o = sl) ->
  (forall o, a0 <= o < b1 -> o mod 32 = 0 -> (forall sl, ~ In (o, sl) fr) -> m o = zslot) ->
  render_part m a0 (Z.to_nat ((b1 - a0) / 32)) = frender fr.
Proof. intros L Ha0 Ha Hb1 Hle1 Hle2 Hm Hz.
  destruct (laid_aligned _ _ _ _ L Ha) as (Al & Hb). destruct (laid_bounds _ _ _ _ L) as (Hab & B).
  set (n1 := Z.to_nat ((a - a0) / 32)). set (n2 := Z.to_nat ((b - a) / 32)). set (n3 := Z.to_nat ((b1 - b) / 32)).
  assert (Hn : Z.to_nat ((b1 - a0) / 32) = (n1 + (n2 + n3))%nat).
  { unfold n1, n2, n3. assert ((b1 - a0) / 32 = (a - a0) / 32 + ((b - a) / 32 + (b1 - b) / 32)) by (Z.div_mod_to_equations; lia).
    assert (0 <= (a - a0) / 32) by (Z.div_mod_to_equations; lia). assert (0 <= (b - a) / 32) by (Z.div_mod_to_equations; lia).
    assert (0 <= (b1 - b) / 32) by (Z.div_mod_to_equations; lia). lia. }
  rewrite Hn, !render_part_app. rewrite FA_32.
  assert (E1 : a0 + 32 * Z.of_nat n1 = a) by (unfold n1; Z.div_mod_to_equations; lia).
  assert (E2 : a + 32 * Z.of_nat n2 = b) by (unfold n2; Z.div_mod_to_equations; lia).
  rewrite E1, E2. rewrite (render_part_zero m n1 a0), (render_part_zero m n3 b).
  - rewrite app_nil_r. cbn [app]. unfold n2. eapply render_part_laid; eauto. intros o Ho. apply Hz. lia.
  - intros j Hj. rewrite FA_32. assert (32 * Z.of_nat n3 <= b1 - b) by (unfold n3; Z.div_mod_to_equations; lia).
    apply Hz; [lia | Z.div_mod_to_equations; lia|]. intros sl Hin. destruct (B _ _ Hin) as (_ & B2 & B3).
    pose proof (align_pos (s_len sl) ltac:(lia)) as [A _]. rewrite FA_32 in *. lia.
  - intros j Hj. rewrite FA_32. apply Hz; [lia | Z.div_mod_to_equations; lia|]. intros sl Hin. destruct (B _ _ Hin) as (B1 & _). lia. Qed.

(* ---- the oracle's walk over such a dump ---- *)
Definition dec (p : Z * slot) : Z * Z * Z * Z := (fst p, s_len (snd p), s_type (snd p), s_flags (snd p)).

Lemma walk_laid c tid ws : forall fuel a fr b, laid c a fr b ->
  (forall o sl, In (o, sl) fr -> dec_ok ws o sl /\ wf_slot c tid o sl /\ HDR <= s_len sl) ->
  (length fr <= fuel)%nat -> walk c tid ws fuel a b = Some (map dec fr).
Proof. intros fuel a fr b L. revert fuel. induction L as [o | o sl r e Hl Hr IH]; intros fuel H Hf.
  - destruct fuel; cbn [walk]; rewrite Z.eqb_refl; reflexivity.
  - destruct (H o sl (or_introl eq_refl)) as (D & Wf & Hh).
    destruct D as (D1 & D2 & D3 & D4 & D5 & D6 & D7 & D8 & D9 & D10 & _).
    destruct Wf as (W1 & W2 & W3 & W4 & W5 & W6 & W7 & W8).
    destruct (laid_bounds _ _ _ _ Hr) as (Hle & _).
    pose proof (align_pos (s_len sl) ltac:(lia)) as [A1 _]. rewrite FA_32 in *.
    destruct fuel as [|f]; [cbn in Hf; lia|]. cbn [walk].
    replace (o =? e) with false by lia.
    assert (Hwf : wf_header c tid ws o = true).
    { unfold wf_header. rewrite D1, D2, D4, D5, D6, D7, D8, D9, D10, W2, W3, W4, W5, W6.
      rewrite !Z.eqb_refl. replace (HDR <=? s_len sl) with true by lia. cbn [andb].
      destruct W8 as [-> | ->]; reflexivity. }
    rewrite Hwf, D1, FA_32. replace (o <? e) with true by lia. replace (o + align (s_len sl) 32 <=? e) with true by lia. cbn [andb].
    rewrite IH; [cbn [map dec fst snd]; rewrite D3, D4; reflexivity | | cbn in Hf; lia].
    intros o' sl' Hin. apply H. right. assumption. Qed.

Lemma covered_all fr : all_good fr -> forall w, In w (frender fr) -> covered (map dec fr) w = true.
Proof. intros G [x v] Hin. unfold frender in Hin. apply in_flat_map in Hin. destruct Hin as ([o sl] & Hfr & Hw). cbn [fst snd] in Hw.
  rewrite render_slot_eq in Hw. apply nonzero_in in Hw. pose proof (inc_bounds _ _ _ _ _ (slot_inc o sl) Hw) as B.
  pose proof (G o sl Hfr) as Gs. pose proof (gs_len sl Gs) as L. pose proof (gs_fit sl Gs) as F. change HDR with 32 in *.
  unfold covered. apply existsb_exists. exists (dec (o, sl)). split; [apply in_map; assumption|].
  unfold dec. cbn [fst snd]. destruct (s_type sl =? T_PAD) eqn:E.
  - rewrite (gs_pad sl Gs) in B by lia. cbn [length] in B. change HDR with 32. lia.
  - lia. Qed.
