(* C03, exclusive publisher: steps inside a frame (header, payload, flags, reserved value; the claimant: payload, setters, abort type). *)
Require Import V.Base.MachineInt.
Require Import V.Generated.GenConsts.
Require Import V.Model.LogBase.
Require Import V.Model.Descriptor.
Require Import V.Model.Sched.
Require Import V.Model.AppenderThreads.
Require Import V.Model.ReaderThreads.
Require Import V.Model.ExclThreads.
Require Import V.Model.PollThreads.
Require Import V.Model.ClaimThreads.
Require Import V.Proofs.TailArith.
Require Import V.Proofs.FragArith.
Require Import V.Proofs.ExclDefs V.Proofs.ExclPub1 V.Proofs.ExclPub2 V.Proofs.ExclPub3.
From Coq Require Import ZifyBool.
Open Scope Z_scope.

Section P.
  Variable c : cfg.
  Hypothesis W : wf_cfg c.

  Lemma firstn_done (a b : list xset) x : firstn (length (a ++ x :: b) - length b) (a ++ x :: b) = a ++ [x].
  Proof. rewrite app_length. cbn [length]. replace (length a + S (length b) - length b)%nat with (length (a ++ [x]) + 0)%nat by (rewrite app_length; cbn; lia).
    replace (a ++ x :: b) with ((a ++ [x]) ++ b) by (rewrite <- app_assoc; reflexivity). rewrite firstn_app_2. cbn. apply app_nil_r. Qed.

  (* steps inside a frame that do not commit it *)
  Lemma frame_steps s gh l t s' l' e : XPInv c gh l -> memok c s gh (Some l) -> laidinv c gh ->
    in_frame (x_pc l) = true -> x_pc l <> XPosLen -> x_pc l <> XCPosLen ->
    xstep c t s l = Some (s', l', e) ->
    XPInv c gh l' /\ memok c s' gh (Some l') /\ sh_subpos s' = sh_subpos s.
  Proof. intros I M L F N1 N2 Hstep. pose proof I as [I1 I2 I3 I4 I5 I6 I7 I8 I9 I10 I11 I12].
    pose proof (front_free c gh l I L) as Hfree. rewrite (front_frame l F) in Hfree.
    destruct (I5 F) as (Fr1 & Fr2 & Fr3 & Fr4 & Fr5).
    destruct (TL_bounds c W) as (TB & TM).
    unfold xstep in Hstep. destruct (x_pc l) eqn:Hpc; try discriminate; try congruence; try (inversion Hstep; subst s' l' e; clear Hstep).
    - (* XNegLen *)
      rewrite (mem_fresh c s gh l _ M Hfree) by (unfold cur; rewrite Hpc; reflexivity).
      change (set_len zslot (- xflen c l)) with (st1 c (x_rem l)).
      split; [|split; [|reflexivity]];
        apply (stage_step c gh l (xl_pc l XHdr) s (st1 c (x_rem l))); try assumption; try reflexivity; try (intros; discriminate);
        try apply I2; try (rewrite Hpc; reflexivity); left; unfold cur; rewrite Hpc; reflexivity.
    - (* XHdr *)
      rewrite (mem_cur c s gh l _ (st1 c (x_rem l)) M Hfree) by (unfold cur; rewrite Hpc; reflexivity).
      change (set_hdr c (st1 c (x_rem l)) (x_foff l) (x_tid l)) with (st2 c (x_tid l) (x_foff l) (x_rem l)).
      assert (Hres : 0 <= x_resoff l <= TL c /\ x_resoff l mod 32 = 0).
      { pose proof (span_pos c W (Z.to_nat (x_rem l)) (x_rem l) ltac:(lia)) as (Sp1 & Sp2).
        split; [lia|]. rewrite <- Fr2. rewrite Z.add_mod, Fr5, Sp2 by lia. reflexivity. }
      destruct (is_claim (x_item l)) eqn:Ecl.
      + split; [|split; [|reflexivity]];
          apply (stage_step c gh l (xl_toff (xl_pc l XCBody) (x_resoff l)) s (st2 c (x_tid l) (x_foff l) (x_rem l)));
          try assumption; try reflexivity; try (intros; discriminate); try congruence; try apply Hres; try (rewrite Hpc; reflexivity);
          right; eexists; unfold cur; rewrite Hpc; reflexivity.
      + split; [|split; [|reflexivity]];
          apply (stage_step c gh l (xl_pc l XBody) s (st2 c (x_tid l) (x_foff l) (x_rem l)));
          try assumption; try reflexivity; try (intros; discriminate); try congruence; try apply I2; try (rewrite Hpc; reflexivity);
          right; eexists; unfold cur; rewrite Hpc; reflexivity.
    - (* XBody *)
      rewrite (mem_cur c s gh l _ (st2 c (x_tid l) (x_foff l) (x_rem l)) M Hfree) by (unfold cur; rewrite Hpc; reflexivity).
      change (set_body (st2 c (x_tid l) (x_foff l) (x_rem l)) (xbody c l)) with (st3 c (x_tid l) (msg_of l) (x_foff l) (x_rem l)).
      assert (Ecl : is_claim (x_item l) = false) by (destruct (is_claim (x_item l)) eqn:E; [specialize (I8 eq_refl); discriminate I8 | reflexivity]).
      destruct (is_fragmented c (x_len l)) eqn:Efr.
      + split; [|split; [|reflexivity]];
          apply (stage_step c gh l (xl_pc l XFlags) s (st3 c (x_tid l) (msg_of l) (x_foff l) (x_rem l)));
          try assumption; try reflexivity; try (intros; discriminate); try congruence; try apply I2; try (rewrite Hpc; reflexivity);
          right; eexists; unfold cur; rewrite Hpc; reflexivity.
      + assert (Hc4 : cur c (xl_pc l XResv) = Some (x_foff l, st3 c (x_tid l) (msg_of l) (x_foff l) (x_rem l))).
        { assert (X : st4 c (x_tid l) (msg_of l) (x_foff l) (x_rem l) (x_flags l) = st3 c (x_tid l) (msg_of l) (x_foff l) (x_rem l))
            by (unfold st4; change (zlen (msg_of l)) with (x_len l); rewrite Efr; reflexivity).
          rewrite <- X. reflexivity. }
        split; [|split; [|reflexivity]];
          apply (stage_step c gh l (xl_pc l XResv) s (st3 c (x_tid l) (msg_of l) (x_foff l) (x_rem l)));
          try assumption; try reflexivity; try (intros; discriminate); try congruence; try apply I2; try (rewrite Hpc; reflexivity);
          right; eexists; unfold cur; rewrite Hpc; reflexivity.
    - (* XFlags *)
      rewrite (mem_cur c s gh l _ (st3 c (x_tid l) (msg_of l) (x_foff l) (x_rem l)) M Hfree) by (unfold cur; rewrite Hpc; reflexivity).
      assert (Ecl : is_claim (x_item l) = false) by (destruct (is_claim (x_item l)) eqn:E; [specialize (I8 eq_refl); discriminate I8 | reflexivity]).
      assert (Hc4 : cur c (xl_pc l XResv) = Some (x_foff l, set_flags (st3 c (x_tid l) (msg_of l) (x_foff l) (x_rem l)) (xflags c l))).
      { assert (X : st4 c (x_tid l) (msg_of l) (x_foff l) (x_rem l) (x_flags l) = set_flags (st3 c (x_tid l) (msg_of l) (x_foff l) (x_rem l)) (xflags c l))
          by (unfold st4; change (zlen (msg_of l)) with (x_len l); rewrite (I9 eq_refl); reflexivity).
        rewrite <- X. reflexivity. }
      split; [|split; [|reflexivity]];
        apply (stage_step c gh l (xl_pc l XResv) s (set_flags (st3 c (x_tid l) (msg_of l) (x_foff l) (x_rem l)) (xflags c l)));
        try assumption; try reflexivity; try (intros; discriminate); try congruence; try apply I2; try (rewrite Hpc; reflexivity);
        right; eexists; unfold cur; rewrite Hpc; reflexivity.
    - (* XResv *)
      rewrite (mem_cur c s gh l _ (st4 c (x_tid l) (msg_of l) (x_foff l) (x_rem l) (x_flags l)) M Hfree) by (unfold cur; rewrite Hpc; reflexivity).
      assert (Ecl : is_claim (x_item l) = false) by (destruct (is_claim (x_item l)) eqn:E; [specialize (I8 eq_refl); discriminate I8 | reflexivity]).
      split; [|split; [|reflexivity]];
        apply (stage_step c gh l (xl_pc l XPosLen) s (st5 c (x_tid l) (msg_of l) (x_foff l) (x_rem l) (x_flags l)));
        try assumption; try reflexivity; try (intros; discriminate); try congruence; try apply I2; try (rewrite Hpc; reflexivity);
        right; eexists; unfold cur; rewrite Hpc; reflexivity.
    - (* XCBody: the claimant's payload *)
      rewrite (mem_cur c s gh l _ (st2 c (x_tid l) (x_foff l) (x_rem l)) M Hfree) by (unfold cur; rewrite Hpc; reflexivity).
      assert (Ecl : is_claim (x_item l) = true) by (destruct (is_claim (x_item l)) eqn:E; [reflexivity | specialize (I7 eq_refl); discriminate I7]).
      change (set_body (st2 c (x_tid l) (x_foff l) (x_rem l)) (item_body (x_item l))) with (cst3 c l).
      unfold x_claim_next. destruct (item_sets (x_item l)) as [|x r] eqn:Es.
      + destruct (item_abort (x_item l)) eqn:Eab.
        * assert (Hcu : cur c (xl_sets l XCAbort []) = Some (x_foff l, cst3 c l)).
          { change (cur c (xl_sets l XCAbort [])) with (Some (x_foff l, apply_sets (cst3 c l) (item_sets (x_item l)))). rewrite Es. reflexivity. }
          split; [|split; [|reflexivity]];
            apply (stage_step c gh l (xl_sets l XCAbort []) s (cst3 c l));
            try assumption; try reflexivity; try (intros; discriminate); try congruence; try apply I2; try (rewrite Hpc; reflexivity);
            right; eexists; unfold cur; rewrite Hpc; reflexivity.
        * assert (Hcu : cur c (xl_sets l XCPosLen []) = Some (x_foff l, cst3 c l)).
          { change (cur c (xl_sets l XCPosLen [])) with
              (Some (x_foff l, if item_abort (x_item l) then set_type (apply_sets (cst3 c l) (item_sets (x_item l))) T_PAD
                               else apply_sets (cst3 c l) (item_sets (x_item l)))). rewrite Es, Eab. reflexivity. }
          split; [|split; [|reflexivity]];
            apply (stage_step c gh l (xl_sets l XCPosLen []) s (cst3 c l));
            try assumption; try reflexivity; try (intros; discriminate); try congruence; try apply I2; try (rewrite Hpc; reflexivity);
            right; eexists; unfold cur; rewrite Hpc; reflexivity.
      + assert (Hd : x_done (xl_sets l XCSet (x :: r)) = []).
        { unfold x_done. xn. cbn [x_sets xl_sets]. rewrite Es, Nat.sub_diag. reflexivity. }
        assert (Hcu : cur c (xl_sets l XCSet (x :: r)) = Some (x_foff l, cst3 c l)).
        { change (cur c (xl_sets l XCSet (x :: r))) with (Some (x_foff l, apply_sets (cst3 c l) (x_done (xl_sets l XCSet (x :: r))))).
          rewrite Hd. reflexivity. }
        split; [|split; [|reflexivity]];
          apply (stage_step c gh l (xl_sets l XCSet (x :: r)) s (cst3 c l));
          try assumption; try reflexivity; try (intros; discriminate); try congruence; try apply I2; try (rewrite Hpc; reflexivity);
          try (intros _; rewrite Hd, Es; split; [reflexivity | discriminate]);
          right; eexists; unfold cur; rewrite Hpc; reflexivity.
    - (* XCSet: one header setter *)
      destruct (proj1 I10 eq_refl) as (Hall & Hne).
      assert (Ecl : is_claim (x_item l) = true) by (destruct (is_claim (x_item l)) eqn:E; [reflexivity | specialize (I7 eq_refl); discriminate I7]).
      assert (Hm : sh_mem s (x_idx l) (x_foff l) = apply_sets (cst3 c l) (x_done l)) by (apply (mem_cur c s gh l _ _ M Hfree); unfold cur; rewrite Hpc; reflexivity).
      destruct (x_sets l) as [|x r] eqn:Es; [congruence|].
      set (d := x_done l) in *.
      assert (Hnext : forall v, v = apply_set (apply_sets (cst3 c l) d) x ->
                XPInv c gh (x_claim_next l r) /\ memok c (with_mem s (mupd (sh_mem s) (x_idx l) (x_foff l) v)) gh (Some (x_claim_next l r))).
      { intros v ->. replace (apply_set (apply_sets (cst3 c l) d) x) with (apply_sets (cst3 c l) (d ++ [x])) by (rewrite apply_sets_app; reflexivity).
        assert (Hd' : forall pc, x_done (xl_sets l pc r) = d ++ [x]).
        { intros pc. unfold x_done. xn. cbn [x_sets xl_sets]. rewrite Hall. apply firstn_done. }
        unfold x_claim_next. destruct r as [|y r'].
        - assert (Hfull : item_sets (x_item l) = d ++ [x]) by exact Hall.
          destruct (item_abort (x_item l)) eqn:Eab.
          + assert (Hcu : cur c (xl_sets l XCAbort []) = Some (x_foff l, apply_sets (cst3 c l) (d ++ [x]))).
            { change (cur c (xl_sets l XCAbort [])) with (Some (x_foff l, apply_sets (cst3 c l) (item_sets (x_item l)))). rewrite Hfull. reflexivity. }
            apply (stage_step c gh l (xl_sets l XCAbort []) s _);
              try assumption; try reflexivity; try (intros; discriminate); try congruence; try apply I2; try (rewrite Hpc; reflexivity);
              right; eexists; unfold cur; rewrite Hpc; reflexivity.
          + assert (Hcu : cur c (xl_sets l XCPosLen []) = Some (x_foff l, apply_sets (cst3 c l) (d ++ [x]))).
            { change (cur c (xl_sets l XCPosLen [])) with
                (Some (x_foff l, if item_abort (x_item l) then set_type (apply_sets (cst3 c l) (item_sets (x_item l))) T_PAD
                                 else apply_sets (cst3 c l) (item_sets (x_item l)))). rewrite Hfull, Eab. reflexivity. }
            apply (stage_step c gh l (xl_sets l XCPosLen []) s _);
              try assumption; try reflexivity; try (intros; discriminate); try congruence; try apply I2; try (rewrite Hpc; reflexivity);
              right; eexists; unfold cur; rewrite Hpc; reflexivity.
        - assert (Hcu : cur c (xl_sets l XCSet (y :: r')) = Some (x_foff l, apply_sets (cst3 c l) (d ++ [x]))).
          { change (cur c (xl_sets l XCSet (y :: r'))) with (Some (x_foff l, apply_sets (cst3 c l) (x_done (xl_sets l XCSet (y :: r'))))).
            rewrite Hd'. reflexivity. }
          apply (stage_step c gh l (xl_sets l XCSet (y :: r')) s _);
            try assumption; try reflexivity; try (intros; discriminate); try congruence; try apply I2; try (rewrite Hpc; reflexivity);
            try (intros _; rewrite Hd'; split; [rewrite Hall, <- app_assoc; reflexivity | discriminate]);
            right; eexists; unfold cur; rewrite Hpc; reflexivity. }
      destruct x as [v | v | v]; inversion Hstep; subst s' l' e; clear Hstep; rewrite Hm;
        [destruct (Hnext (apply_set (apply_sets (cst3 c l) d) (SFlags v)) eq_refl) as (A & B)
        |destruct (Hnext (apply_set (apply_sets (cst3 c l) d) (SType v)) eq_refl) as (A & B)
        |destruct (Hnext (apply_set (apply_sets (cst3 c l) d) (SResv v)) eq_refl) as (A & B)];
        (split; [exact A | split; [exact B | reflexivity]]).
    - (* XCAbort *)
      rewrite (mem_cur c s gh l _ (apply_sets (cst3 c l) (item_sets (x_item l))) M Hfree) by (unfold cur; rewrite Hpc; reflexivity).
      assert (Ecl : is_claim (x_item l) = true) by (destruct (is_claim (x_item l)) eqn:E; [reflexivity | specialize (I7 eq_refl); discriminate I7]).
      assert (Hcu : cur c (xl_pc l XCPosLen) = Some (x_foff l, set_type (apply_sets (cst3 c l) (item_sets (x_item l))) T_PAD)).
      { change (cur c (xl_pc l XCPosLen)) with
          (Some (x_foff l, if item_abort (x_item l) then set_type (apply_sets (cst3 c l) (item_sets (x_item l))) T_PAD
                           else apply_sets (cst3 c l) (item_sets (x_item l)))). rewrite (proj2 I10 eq_refl). reflexivity. }
      split; [|split; [|reflexivity]];
        apply (stage_step c gh l (xl_pc l XCPosLen) s (set_type (apply_sets (cst3 c l) (item_sets (x_item l))) T_PAD));
        try assumption; try reflexivity; try (intros; discriminate); try congruence; try apply I2; try (rewrite Hpc; reflexivity);
        right; eexists; unfold cur; rewrite Hpc; reflexivity. Qed.
End P.
